import Proofs.F64Approx
import Mathlib.Tactic.FieldSimp
/-! Real semantics of the softfloat division (sticky-bit long division + one rounding): the computed quotient is finite and
within relative `ud = u*(1+1/128)` plus absolute `eta` of the real quotient. (The sticky bit makes the result the correctly
rounded quotient; the slightly weaker constant avoids proving that and costs nothing downstream.) The binary64 instance is
generated from this file by run/gen64proofs.py. -/
namespace F64
open Real

/-- a decoded significand is below 2^53 -/
theorem decode_mant_lt (a : Nat) (n : Bool) (m : Nat) (e : Int) (h : decode a = .fin n m e) : m < 9007199254740992 := by
  unfold decode at h
  simp only [consts.2.2.1, consts.2.2.2.2.2.1] at h
  have hf : a % 4503599627370496 < 4503599627370496 := Nat.mod_lt _ (by norm_num)
  split at h
  · split at h <;> cases h
  · split at h
    · injection h with _ hm _; omega
    · injection h with _ hm _; omega

noncomputable def ud : ℝ := u * (1 + 1 / 128)

theorem ud_pos : 0 < ud := by unfold ud u; positivity

theorem sgn_div (n1 n2 : Bool) : (if n1 then (-1:ℝ) else 1) / (if n2 then (-1:ℝ) else 1) = (if (n1 != n2) then (-1:ℝ) else 1) := by
  cases n1 <;> cases n2 <;> norm_num

/-- arithmetic core: `X = (q + sticky/2) P` approximates `Qa = (N/m2) P` to relative `u/512`, and rounding `X` adds `u, eta` -/
theorem div_core (u' eta' t X Qa P : ℝ) (q r m2 N : Nat) (hm2 : 0 < m2) (hNqr : N = m2 * q + r) (hr : r < m2) (hP : 0 < P)
    (hX : X = ((q:ℝ) + (if r = 0 then 0 else 1/2)) * P) (hQa : Qa = ((N:ℝ) / m2) * P)
    (hu0 : 0 < u') (hu1 : u' ≤ 1 / 9007199254740992) (heta : 0 < eta')
    (hqbig : (1:ℝ) ≤ (q:ℝ) * (u' * (1 / (2:ℝ) ^ (8:ℕ)))) :
    0 ≤ Qa ∧ 0 ≤ X ∧ X ≤ Qa * (1 + u' * (1 / 512)) ∧ (|t - X| ≤ u' * X + eta' → |t - Qa| ≤ u' * (1 + 1 / 128) * Qa + eta') := by
  have hm2pos : (0:ℝ) < m2 := by exact_mod_cast hm2
  have hNR : (N:ℝ) = (m2:ℝ) * q + r := by exact_mod_cast hNqr
  have hrR : (r:ℝ) < m2 := by exact_mod_cast hr
  have hr0 : (0:ℝ) ≤ r := by positivity
  have hq0 : (0:ℝ) ≤ q := by positivity
  have hNdiv : (N:ℝ) / m2 = q + r / m2 := by rw [hNR]; field_simp
  have hrm : (r:ℝ) / m2 < 1 := by rw [div_lt_one hm2pos]; exact hrR
  have hrm0 : (0:ℝ) ≤ (r:ℝ) / m2 := by positivity
  have hQa0 : 0 ≤ Qa := by rw [hQa]; positivity
  have hX0 : 0 ≤ X := by rw [hX]; split <;> positivity
  have h28 : (2:ℝ) ^ (8:ℕ) = 4 * 64 := by norm_num
  rw [h28] at hqbig
  have hXQ : |X - Qa| ≤ P / 2 := by
    rw [hX, hQa, hNdiv]
    split
    · next h0 => rw [h0]; simp; positivity
    · next h0 =>
      have : ((q:ℝ) + 1 / 2) * P - ((q:ℝ) + r / m2) * P = (1 / 2 - r / m2) * P := by ring
      rw [this, abs_mul, abs_of_pos hP]
      have hrpos : (0:ℝ) < r := by exact_mod_cast Nat.pos_of_ne_zero h0
      have : (0:ℝ) < (r:ℝ) / m2 := by positivity
      have : |1 / 2 - (r:ℝ) / m2| ≤ 1 / 2 := by rw [abs_le]; constructor <;> linarith
      nlinarith
  have hqP : (q:ℝ) * P ≤ Qa := by rw [hQa, hNdiv]; nlinarith
  have hPle : P ≤ Qa * (u' * (1 / (4 * 64))) := by
    calc P = 1 * P := (one_mul P).symm
      _ ≤ ((q:ℝ) * (u' * (1 / (4 * 64)))) * P := mul_le_mul_of_nonneg_right hqbig hP.le
      _ = ((q:ℝ) * P) * (u' * (1 / (4 * 64))) := by ring
      _ ≤ Qa * (u' * (1 / (4 * 64))) := mul_le_mul_of_nonneg_right hqP (by positivity)
  have hXQ' : |X - Qa| ≤ Qa * (u' * (1 / 512)) := by
    calc |X - Qa| ≤ P / 2 := hXQ
      _ ≤ Qa * (u' * (1 / 512)) := by nlinarith
  have hXle : X ≤ Qa * (1 + u' * (1 / 512)) := by
    have := (abs_le.mp hXQ').2; nlinarith
  refine ⟨hQa0, hX0, hXle, ?_⟩
  intro hrv
  have htri : |t - Qa| ≤ |t - X| + |X - Qa| := abs_sub_le _ _ _
  have huX : u' * X ≤ u' * (Qa * (1 + u' * (1 / 512))) := mul_le_mul_of_nonneg_left hXle hu0.le
  have hu2 : u' * (Qa * (u' * (1 / 512))) ≤ Qa * (u' * (1 / 512)) := by
    have h1 : u' ≤ 1 := by linarith
    have hnn : 0 ≤ Qa * (u' * (1 / 512)) := by positivity
    calc u' * (Qa * (u' * (1 / 512))) ≤ 1 * (Qa * (u' * (1 / 512))) := mul_le_mul_of_nonneg_right h1 hnn
      _ = _ := one_mul _
  nlinarith

/-- **division** of finite floats, divisor non-zero, exact quotient at most 2^1022 in magnitude -/
theorem div_val (a b : Nat) (ha : Finite a) (hb : Finite b) (hb0 : toReal b ≠ 0)
    (hfit : |toReal a / toReal b| ≤ (2:ℝ)^(1022:ℤ)) :
    Finite (div a b) ∧ |toReal (div a b) - toReal a / toReal b| ≤ ud * |toReal a / toReal b| + eta := by
  obtain ⟨n1, m1, e1, h1⟩ := ha
  obtain ⟨n2, m2, e2, h2⟩ := hb
  have hta := toReal_of_decode a _ _ _ h1
  have htb := toReal_of_decode b _ _ _ h2
  have hm2 : m2 ≠ 0 := by
    intro h; apply hb0; rw [htb, h, valR_zero]
  have hm2lt := decode_mant_lt b _ _ _ h2
  have hm2pos : (0:ℝ) < m2 := by exact_mod_cast Nat.pos_of_ne_zero hm2
  obtain ⟨k, hk⟩ : ∃ k : Nat, k = 2 * 53 + 8 := ⟨_, rfl⟩
  have hdiv : div a b = roundPack (n1 != n2) (2 * ((m1 * 2 ^ k) / m2) + (if (m1 * 2 ^ k) % m2 = 0 then 0 else 1)) (e1 - e2 - (k : Int) - 1) := by
    unfold div
    rw [h1, h2]
    simp only [hm2, if_false, consts.1, ← hk]
  have h2k : (2:ℕ) ^ k = 2 ^ 8 * 9007199254740992 * 9007199254740992 := by rw [hk]; norm_num
  obtain ⟨T, hT⟩ : ∃ T : Nat, T = 2 ^ k := ⟨_, rfl⟩
  rw [← hT] at hdiv h2k
  obtain ⟨N, hN⟩ : ∃ N : Nat, N = m1 * T := ⟨_, rfl⟩
  obtain ⟨q, hq⟩ : ∃ q : Nat, q = N / m2 := ⟨_, rfl⟩
  obtain ⟨r, hr⟩ : ∃ r : Nat, r = N % m2 := ⟨_, rfl⟩
  rw [← hN, ← hq, ← hr] at hdiv
  have hNqr : N = m2 * q + r := by rw [hq, hr]; exact (Nat.div_add_mod N m2).symm
  have hrlt : r < m2 := by rw [hr]; exact Nat.mod_lt _ (Nat.pos_of_ne_zero hm2)
  obtain ⟨P, hP⟩ : ∃ P : ℝ, P = (2:ℝ) ^ (e1 - e2 - (k:Int)) := ⟨_, rfl⟩
  have hPpos : 0 < P := by rw [hP]; positivity
  obtain ⟨E, hE⟩ : ∃ E : Int, E = e1 - e2 - (k:Int) - 1 := ⟨_, rfl⟩
  obtain ⟨M, hM⟩ : ∃ M : Nat, M = 2 * q + (if r = 0 then 0 else 1) := ⟨_, rfl⟩
  rw [← hE, ← hM] at hdiv
  have hQ : valR n1 m1 e1 / valR n2 m2 e2 = (if (n1 != n2) then -1 else 1) * (((N:ℝ) / m2) * P) := by
    have hTr : (T:ℝ) = (2:ℝ) ^ ((k:ℕ):ℤ) := by rw [hT]; push_cast; rw [zpow_natCast]
    have hpow : (2:ℝ) ^ e1 / (2:ℝ) ^ e2 = (2:ℝ) ^ ((k:ℕ):ℤ) * P := by
      rw [hP, ← zpow_sub₀ (by norm_num : (2:ℝ) ≠ 0), ← zpow_add₀ (by norm_num : (2:ℝ) ≠ 0)]; congr 1; ring
    have hNc : (N:ℝ) = (m1:ℝ) * (2:ℝ) ^ ((k:ℕ):ℤ) := by rw [hN]; push_cast; rw [hTr]
    have hgen : ((m1:ℝ) * (2:ℝ) ^ e1) / ((m2:ℝ) * (2:ℝ) ^ e2) = ((N:ℝ) / m2) * P := by
      rw [hNc, mul_div_mul_comm, hpow]; ring
    unfold valR
    rw [mul_div_mul_comm, hgen, sgn_div]
  have hX : (M:ℝ) * (2:ℝ) ^ E = ((q:ℝ) + (if r = 0 then 0 else 1/2)) * P := by
    have : (2:ℝ) ^ E = P / 2 := by
      rw [hE, hP, zpow_sub_one₀ (by norm_num : (2:ℝ) ≠ 0)]; ring
    rw [this, hM]; push_cast
    split <;> ring
  have hu1 : u ≤ 1 / 9007199254740992 := by unfold u; rw [zpow_neg]; norm_num
  have hu0 : 0 < u := by unfold u; positivity
  have heta : 0 < eta := by unfold eta; positivity
  by_cases hm1 : m1 = 0
  · -- zero dividend
    have hN0 : N = 0 := by rw [hN, hm1, Nat.zero_mul]
    have hq0 : q = 0 := by rw [hq, hN0, Nat.zero_div]
    have hr00 : r = 0 := by rw [hr, hN0, Nat.zero_mod]
    have hM0 : M = 0 := by rw [hM, hq0, hr00]; rfl
    have hrp : div a b = signBit (n1 != n2) := by rw [hdiv, hM0]; unfold roundPack; rw [if_pos rfl]
    refine ⟨⟨_, _, _, by rw [hrp]; exact decode_signBit _⟩, ?_⟩
    rw [hrp, toReal_of_decode _ _ _ _ (decode_signBit _), valR_zero, hta, hm1, valR_zero, zero_div, sub_zero, abs_zero, mul_zero, zero_add]
    exact heta.le
  · have hm1pos : 1 ≤ m1 := Nat.pos_of_ne_zero hm1
    have hqbigN : 2 ^ 8 * 9007199254740992 ≤ q := by
      have h1' : T ≤ N := by rw [hN]; exact Nat.le_mul_of_pos_left _ hm1pos
      have h2' : (2 ^ 8 * 9007199254740992) * m2 ≤ T := by
        rw [h2k]; exact Nat.mul_le_mul_left _ hm2lt.le
      rw [hq, Nat.le_div_iff_mul_le (Nat.pos_of_ne_zero hm2)]; omega
    have hqbig : (1:ℝ) ≤ (q:ℝ) * (u * (1 / (2:ℝ) ^ (8:ℕ))) := by
      have hqR : ((2:ℝ) ^ (8:ℕ) * 9007199254740992) ≤ (q:ℝ) := by exact_mod_cast hqbigN
      have hu' : u = 1 / 9007199254740992 := by unfold u; rw [zpow_neg]; norm_num
      rw [hu']
      have h28 : (0:ℝ) < (2:ℝ) ^ (8:ℕ) := by positivity
      have : (q:ℝ) * (1 / 9007199254740992 * (1 / (2:ℝ) ^ (8:ℕ))) = (q:ℝ) / ((2:ℝ) ^ (8:ℕ) * 9007199254740992) := by field_simp
      rw [this, le_div_iff₀ (by positivity)]; linarith
    obtain ⟨hQa0, hX0, hXle, hcomb⟩ := div_core u eta (toReal (div a b)) ((M:ℝ) * (2:ℝ) ^ E) (((N:ℝ) / m2) * P) P q r m2 N
      (Nat.pos_of_ne_zero hm2) hNqr hrlt hPpos hX rfl hu0 hu1 heta hqbig
    rw [hta, htb, hQ, abs_mul] at hfit
    have habs1 : |(if (n1 != n2) = true then (-1:ℝ) else 1)| = 1 := by split <;> simp
    rw [habs1, one_mul, abs_of_nonneg hQa0] at hfit
    have hXfit : (M:ℝ) * (2:ℝ) ^ E < (2:ℝ) ^ (1023:ℤ) := by
      have h1023 : (2:ℝ) ^ (1023:ℤ) = 2 * (2:ℝ) ^ (1022:ℤ) := by
        rw [show (1023:ℤ) = 1 + 1022 by norm_num, zpow_add₀ (by norm_num : (2:ℝ) ≠ 0)]; norm_num
      have hp1022 : (0:ℝ) < (2:ℝ) ^ (1022:ℤ) := by positivity
      rw [h1023]
      generalize (2:ℝ) ^ (1022:ℤ) = Bg at hfit hp1022 ⊢
      have : (1 + u * (1 / 512)) ≤ 3 / 2 := by nlinarith
      calc (M:ℝ) * (2:ℝ) ^ E ≤ (((N:ℝ) / m2) * P) * (1 + u * (1 / 512)) := hXle
        _ ≤ Bg * (3 / 2) := mul_le_mul hfit this (by positivity) hp1022.le
        _ < 2 * Bg := by linarith
    obtain ⟨hfin, hrv⟩ := round_val (n1 != n2) M E hXfit
    rw [← hdiv] at hfin hrv
    refine ⟨hfin, ?_⟩
    rw [hta, htb, hQ, abs_mul, habs1, one_mul, abs_of_nonneg hQa0]
    rw [abs_valR] at hrv
    -- strip the common sign
    unfold valR at hrv
    by_cases hs : (n1 != n2) = true
    · rw [if_pos hs] at hrv ⊢
      have h1 := hcomb
      have : |(-toReal (div a b)) - (M:ℝ) * (2:ℝ) ^ E| ≤ u * ((M:ℝ) * (2:ℝ) ^ E) + eta := by
        rw [show (-toReal (div a b)) - (M:ℝ) * (2:ℝ) ^ E = -(toReal (div a b) - -1 * ((M:ℝ) * (2:ℝ) ^ E)) by ring, abs_neg]; exact hrv
      obtain ⟨_, _, _, hc2⟩ := div_core u eta (-toReal (div a b)) ((M:ℝ) * (2:ℝ) ^ E) (((N:ℝ) / m2) * P) P q r m2 N
        (Nat.pos_of_ne_zero hm2) hNqr hrlt hPpos hX rfl hu0 hu1 heta hqbig
      have h3 := hc2 this
      rw [show toReal (div a b) - -1 * ((N:ℝ) / m2 * P) = -((-toReal (div a b)) - ((N:ℝ) / m2 * P)) by ring, abs_neg]
      exact h3
    · rw [if_neg hs] at hrv ⊢
      rw [one_mul] at hrv ⊢
      exact hcomb hrv

/-- division with magnitude bookkeeping: `|a| ≤ A`, `|b| ≥ Bl > 0` -/
theorem div_bnd (a b : Nat) (A Bl : ℝ) (ha : Bnd a A) (hb : Finite b) (hBl : 0 < Bl) (hbl : Bl ≤ |toReal b|) (hfit : A / Bl ≤ (2:ℝ)^(1022:ℤ)) :
    Bnd (div a b) (A / Bl * (1 + ud) + eta) ∧ |toReal (div a b) - toReal a / toReal b| ≤ ud * (A / Bl) + eta := by
  obtain ⟨fa, hA⟩ := ha
  have hb0 : toReal b ≠ 0 := by intro h; rw [h, abs_zero] at hbl; linarith
  have hbpos : 0 < |toReal b| := lt_of_lt_of_le hBl hbl
  have hq : |toReal a / toReal b| ≤ A / Bl := by
    rw [abs_div]
    have hA0 : 0 ≤ A := le_trans (abs_nonneg _) hA
    calc |toReal a| / |toReal b| ≤ A / |toReal b| := div_le_div_of_nonneg_right hA hbpos.le
      _ ≤ A / Bl := div_le_div_of_nonneg_left hA0 hBl hbl
  obtain ⟨fd, hd⟩ := div_val a b fa hb hb0 (le_trans hq hfit)
  have hud := ud_pos
  have he : |toReal (div a b) - toReal a / toReal b| ≤ ud * (A / Bl) + eta :=
    le_trans hd (by have := mul_le_mul_of_nonneg_left hq hud.le; linarith)
  refine ⟨⟨fd, ?_⟩, he⟩
  have h1 := abs_sub_abs_le_abs_sub (toReal (div a b)) (toReal a / toReal b)
  nlinarith

end F64

/-! GENERATED from Proofs/F32Div.lean by run/gen64proofs.py (binary64 instance of the same proof). -/
