import Proofs.F64Dot
import Proofs.F64Div
import Proofs.F64MonoOps
/-! Accuracy of `Matrix::invert` (Cramer's rule): for a matrix with finite entries of magnitude at most 2 and |det| ≥ 1/2,
every entry of the computed products `A * invert(A)` and `invert(A) * A` is within 1e-4 of the identity (proved bound 6.2e-5),
both FMA modes. The determinant error is common to all entries of the inverse, so it only scales the product; the remaining
errors are the roundings of the minors, of the nine divisions and of the final dot products. Binary64 instance generated. -/
namespace F64
open Real Mat64

/-- the 2x2 minor `a*b - c*d` as `Matrix::invert` computes it -/
def mn (fm : Bool) (a b c d : Nat) : Nat := fmadd fm a b (F64.neg (F64.mul c d))

theorem minor_close (fm : Bool) (a b c d : Nat) (ha : Bnd a 2) (hb : Bnd b 2) (hc : Bnd c 2) (hd : Bnd d 2) :
    Bnd (mn fm a b c d) (801 / 100) ∧ |toReal (mn fm a b c d) - (toReal a * toReal b - toReal c * toReal d)| ≤ 1 / 1000000 := by
  have hu1 : u ≤ 1 / 9007199254740992 := by rw [u_val]
  have hu0 := u_pos
  have he1 := eta_le
  have he0 := eta_pos
  obtain ⟨b1, e1⟩ := mul_bnd c d 2 2 hc hd (fit_small _ (by norm_num))
  obtain ⟨fn, tn⟩ := toReal_neg (F64.mul c d) (mul_wf c d) b1.1
  have bn : Bnd (F64.neg (F64.mul c d)) (2 * 2 * (1 + u) + eta) := ⟨fn, by rw [tn, abs_neg]; exact b1.2⟩
  have hT : 2 * 2 * (1 + u) + eta ≤ 40001 / 10000 := by nlinarith
  have hab : |toReal a * toReal b| ≤ 4 := by rw [abs_mul]; nlinarith [ha.2, hb.2, abs_nonneg (toReal a), abs_nonneg (toReal b)]
  have hcd : |toReal c * toReal d| ≤ 4 := by rw [abs_mul]; nlinarith [hc.2, hd.2, abs_nonneg (toReal c), abs_nonneg (toReal d)]
  obtain ⟨ab1, ab2⟩ := abs_le.mp hab; obtain ⟨cd1, cd2⟩ := abs_le.mp hcd
  unfold mn
  cases fm
  · obtain ⟨b2, e2⟩ := mul_bnd a b 2 2 ha hb (fit_small _ (by norm_num))
    obtain ⟨b3, e3⟩ := add_bnd (F64.mul a b) (F64.neg (F64.mul c d)) _ _ b2 bn (fit_small _ (by nlinarith))
    show Bnd (F64.add (F64.mul a b) (F64.neg (F64.mul c d))) _ ∧ |toReal (F64.add (F64.mul a b) (F64.neg (F64.mul c d))) - _| ≤ _
    rw [tn] at e3
    rw [abs_le] at e1 e2 e3
    have herr : |toReal (F64.add (F64.mul a b) (F64.neg (F64.mul c d))) - (toReal a * toReal b - toReal c * toReal d)| ≤ 1 / 1000000 := by
      rw [abs_le]; constructor <;> nlinarith [e1.1, e1.2, e2.1, e2.2, e3.1, e3.2]
    refine ⟨⟨b3.1, ?_⟩, herr⟩
    obtain ⟨h1, h2⟩ := abs_le.mp herr
    rw [abs_le]; constructor <;> linarith
  · obtain ⟨b3, e3⟩ := fma_bnd a b (F64.neg (F64.mul c d)) 2 2 _ ha hb bn (fit_small _ (by nlinarith))
    show Bnd (F64.fma a b (F64.neg (F64.mul c d))) _ ∧ |toReal (F64.fma a b (F64.neg (F64.mul c d))) - _| ≤ _
    rw [tn] at e3
    rw [abs_le] at e1 e3
    have herr : |toReal (F64.fma a b (F64.neg (F64.mul c d))) - (toReal a * toReal b - toReal c * toReal d)| ≤ 1 / 1000000 := by
      rw [abs_le]; constructor <;> nlinarith [e1.1, e1.2, e3.1, e3.2]
    refine ⟨⟨b3.1, ?_⟩, herr⟩
    obtain ⟨h1, h2⟩ := abs_le.mp herr
    rw [abs_le]; constructor <;> linarith

/-- `s*m + c` in either FMA mode with explicit magnitude bounds -/
theorem fmadd_bnd (fm : Bool) (s m c : Nat) (S M Cc : ℝ) (hs : Bnd s S) (hm : Bnd m M) (hc : Bnd c Cc) (hsm : S * M ≤ 1000) (hcc : Cc ≤ 1000) :
    Bnd (fmadd fm s m c) ((S * M + Cc) * (1 + u) * (1 + u) + 3 * eta) ∧
    |toReal (fmadd fm s m c) - (toReal s * toReal m + toReal c)| ≤ u * (2 * (S * M) + Cc) * (1 + u) + 3 * eta := by
  have hu0 := u_pos
  have hu1 : u ≤ 1 / 9007199254740992 := by rw [u_val]
  have he0 := eta_pos
  have he1 := eta_le
  have hS0 : 0 ≤ S := le_trans (abs_nonneg _) hs.2
  have hM0 : 0 ≤ M := le_trans (abs_nonneg _) hm.2
  have hC0 : 0 ≤ Cc := le_trans (abs_nonneg _) hc.2
  have hSM0 : 0 ≤ S * M := mul_nonneg hS0 hM0
  have hule : u ≤ 1 := by linarith
  cases fm
  · obtain ⟨b1, e1⟩ := mul_bnd s m S M hs hm (fit_small _ (by linarith))
    obtain ⟨b2, e2⟩ := add_bnd (F64.mul s m) c _ _ b1 hc (fit_small _ (by nlinarith))
    show Bnd (F64.add (F64.mul s m) c) _ ∧ |toReal (F64.add (F64.mul s m) c) - _| ≤ _
    generalize S * M = P at *
    have hPu : 0 ≤ P * u := mul_nonneg hSM0 hu0.le
    have hCu : 0 ≤ Cc * u := mul_nonneg hC0 hu0.le
    have hPuu : 0 ≤ P * u * u := mul_nonneg hPu hu0.le
    have hCuu : 0 ≤ Cc * u * u := mul_nonneg hCu hu0.le
    have heu : eta * u ≤ eta := by nlinarith
    have heu0 : 0 ≤ eta * u := mul_nonneg he0.le hu0.le
    constructor
    · refine ⟨b2.1, le_trans b2.2 ?_⟩; nlinarith
    · rw [abs_le] at e1 e2 ⊢; constructor <;> nlinarith [e1.1, e1.2, e2.1, e2.2]
  · obtain ⟨b2, e2⟩ := fma_bnd s m c S M Cc hs hm hc (fit_small _ (by linarith))
    show Bnd (F64.fma s m c) _ ∧ |toReal (F64.fma s m c) - _| ≤ _
    generalize S * M = P at *
    have hPu : 0 ≤ P * u := mul_nonneg hSM0 hu0.le
    have hCu : 0 ≤ Cc * u := mul_nonneg hC0 hu0.le
    have hPuu : 0 ≤ P * u * u := mul_nonneg hPu hu0.le
    have hCuu : 0 ≤ Cc * u * u := mul_nonneg hCu hu0.le
    constructor
    · refine ⟨b2.1, le_trans b2.2 ?_⟩; nlinarith
    · refine le_trans e2 ?_; nlinarith

/-- the determinant as `invert` computes it from the (already rounded) minors -/
def detOf (fm : Bool) (s1 s2 s3 m1 m2 m3 : Nat) : Nat := fmadd fm s1 m1 (F64.neg (fmadd fm s2 m2 (F64.neg (F64.mul s3 m3))))

theorem det_close (fm : Bool) (s1 s2 s3 m1 m2 m3 : Nat) (h1 : Bnd s1 2) (h2 : Bnd s2 2) (h3 : Bnd s3 2)
    (g1 : Bnd m1 (801 / 100)) (g2 : Bnd m2 (801 / 100)) (g3 : Bnd m3 (801 / 100)) :
    Finite (detOf fm s1 s2 s3 m1 m2 m3) ∧
    |toReal (detOf fm s1 s2 s3 m1 m2 m3) - (toReal s1 * toReal m1 - (toReal s2 * toReal m2 - toReal s3 * toReal m3))| ≤ 77 / 10000000 := by
  have hu0 := u_pos
  have hu1 : u ≤ 1 / 9007199254740992 := by rw [u_val]
  have he0 := eta_pos
  have he1 := eta_le
  obtain ⟨b1, e1⟩ := mul_bnd s3 m3 2 (801 / 100) h3 g3 (fit_small _ (by norm_num))
  obtain ⟨fn1, tn1⟩ := toReal_neg (F64.mul s3 m3) (mul_wf _ _) b1.1
  have bn1 : Bnd (F64.neg (F64.mul s3 m3)) (1603 / 100) := ⟨fn1, by rw [tn1, abs_neg]; refine le_trans b1.2 ?_; nlinarith⟩
  obtain ⟨b2, e2⟩ := fmadd_bnd fm s2 m2 _ 2 (801 / 100) (1603 / 100) h2 g2 bn1 (by norm_num) (by norm_num)
  have wf2 : WF (fmadd fm s2 m2 (F64.neg (F64.mul s3 m3))) := by unfold fmadd; split <;> [exact fma_wf _ _ _; exact add_wf _ _]
  obtain ⟨fn2, tn2⟩ := toReal_neg _ wf2 b2.1
  have bn2 : Bnd (F64.neg (fmadd fm s2 m2 (F64.neg (F64.mul s3 m3)))) (3207 / 100) := ⟨fn2, by rw [tn2, abs_neg]; refine le_trans b2.2 ?_; nlinarith⟩
  obtain ⟨b3, e3⟩ := fmadd_bnd fm s1 m1 _ 2 (801 / 100) (3207 / 100) h1 g1 bn2 (by norm_num) (by norm_num)
  refine ⟨b3.1, ?_⟩
  unfold detOf
  rw [tn2] at e3
  rw [tn1] at e2
  rw [abs_le] at e1 e2 e3 ⊢
  constructor <;> nlinarith [e1.1, e1.2, e2.1, e2.2, e3.1, e3.2]

/-- one entry of the inverse: cofactor divided by the determinant -/
theorem entry_close (c d : Nat) (hc : Bnd c (801 / 100)) (hd : Finite d) (hdl : 4999 / 10000 ≤ |toReal d|) :
    Bnd (F64.div c d) (161 / 10) ∧ |toReal (F64.div c d) - toReal c / toReal d| ≤ 1 / 1000000 := by
  have hu1 : u ≤ 1 / 9007199254740992 := by rw [u_val]
  have hu0 := u_pos
  have he1 := eta_le
  have he0 := eta_pos
  have hfit : (801 / 100 : ℝ) / (4999 / 10000) ≤ (2:ℝ) ^ (1022:ℤ) := by
    have : (2:ℝ) ^ (5:ℤ) ≤ (2:ℝ) ^ (1022:ℤ) := zpow_le_zpow_right₀ (by norm_num) (by norm_num)
    exact le_trans (by norm_num) this
  obtain ⟨b, e⟩ := div_bnd c d (801 / 100) (4999 / 10000) hc hd (by norm_num) hdl hfit
  have hud : ud ≤ 61 / 1000000000 := by unfold ud; nlinarith
  have hud0 := ud_pos
  constructor
  · refine ⟨b.1, le_trans b.2 ?_⟩
    have : (801 / 100 : ℝ) / (4999 / 10000) ≤ 16024 / 1000 := by norm_num
    nlinarith
  · refine le_trans e ?_
    have : (801 / 100 : ℝ) / (4999 / 10000) ≤ 16024 / 1000 := by norm_num
    nlinarith

/-- a float dot product with one operand bounded by 2 and the other by 16.1, either order, either FMA mode -/
theorem dot_big (fm : Bool) (a x b y c z : Nat) (A X : ℝ) (ha : Bnd a A) (hx : Bnd x X) (hb : Bnd b A) (hy : Bnd y X) (hc : Bnd c A) (hz : Bnd z X)
    (hAX : A * X ≤ 322 / 10) :
    |toReal (fmadd fm a x (fmadd fm b y (F64.mul c z))) - (toReal a * toReal x + (toReal b * toReal y + toReal c * toReal z))| ≤ 16 / 1000000 := by
  have hsm : A * X ≤ 1000 ∧ A * X ≤ 1000 ∧ A * X ≤ 1000 := ⟨by linarith, by linarith, by linarith⟩
  have hu1 : u ≤ 1 / 9007199254740992 := by rw [u_val]
  have hu0 := u_pos
  have he1 := eta_le
  have he0 := eta_pos
  have hA0 : 0 ≤ A := le_trans (abs_nonneg _) ha.2
  have hX0 : 0 ≤ X := le_trans (abs_nonneg _) hx.2
  have hP0 : 0 ≤ A * X := mul_nonneg hA0 hX0
  have hT1 : T1 A X ≤ 3221 / 100 := by unfold T1; nlinarith
  have hT1' : 0 ≤ T1 A X := by unfold T1; nlinarith
  have h1u : 1 + u ≤ 2 := by linarith
  have ub : ∀ V c : ℝ, V ≤ c → u * V ≤ u * c := fun V c h => mul_le_mul_of_nonneg_left h hu0.le
  cases fm
  · obtain ⟨_, e5⟩ := dot3_nofma a x b y c z A X A X A X ha hx hb hy hc hz hsm
    have hT3 : T3 A X A X ≤ 6443 / 100 := by
      unfold T3
      have : (T1 A X + T1 A X) * (1 + u) ≤ (6442 / 100) * (1 + u) := mul_le_mul_of_nonneg_right (by linarith) (by linarith)
      nlinarith
    have hE : E5 A X A X A X ≤ 16 / 1000000 := by
      unfold E5
      have h1 := ub (A * X) (322 / 10) hAX
      have h2 := ub (T1 A X + T1 A X) (6442 / 100) (by linarith)
      have h3 := ub (T1 A X + T3 A X A X) (9664 / 100) (by linarith)
      rw [show u = 1 / 9007199254740992 by rw [u_val]] at h1 h2 h3 ⊢
      linarith
    exact le_trans e5 hE
  · obtain ⟨_, e3⟩ := dot3_fma a x b y c z A X A X A X ha hx hb hy hc hz hsm
    have hF2 : F2 A X A X ≤ 6442 / 100 := by
      unfold F2
      have : (A * X + T1 A X) * (1 + u) ≤ (6441 / 100) * (1 + u) := mul_le_mul_of_nonneg_right (by linarith) (by linarith)
      nlinarith
    have hE : EF A X A X A X ≤ 16 / 1000000 := by
      unfold EF
      have h1 := ub (A * X) (322 / 10) hAX
      have h2 := ub (A * X + T1 A X) (6441 / 100) (by linarith)
      have h3 := ub (A * X + F2 A X A X) (9662 / 100) (by linarith)
      rw [show u = 1 / 9007199254740992 by rw [u_val]] at h1 h2 h3 ⊢
      linarith
    exact le_trans e3 hE

/-- real core: a row of `A` against a column of the computed inverse. `Cj` exact cofactors with `Σ aj Cj = T`, `T = D` (diagonal
entry) or `T = 0` (off-diagonal entry); `cj` computed cofactors, `d` computed determinant, `ij` computed entries. -/
theorem prod_core (a1 a2 a3 C1 C2 C3 c1 c2 c3 i1 i2 i3 D d T δ : ℝ)
    (ha1 : |a1| ≤ 2) (ha2 : |a2| ≤ 2) (ha3 : |a3| ≤ 2)
    (hc1 : |c1 - C1| ≤ 1 / 1000000) (hc2 : |c2 - C2| ≤ 1 / 1000000) (hc3 : |c3 - C3| ≤ 1 / 1000000)
    (hd : |d - D| ≤ 14 / 1000000) (hD : 1 / 2 ≤ |D|)
    (hi1 : |i1 - c1 / d| ≤ 1 / 1000000) (hi2 : |i2 - c2 / d| ≤ 1 / 1000000) (hi3 : |i3 - c3 / d| ≤ 1 / 1000000)
    (hT : a1 * C1 + a2 * C2 + a3 * C3 = T) (hTD : (T = D ∧ δ = 1) ∨ (T = 0 ∧ δ = 0)) :
    |a1 * i1 + (a2 * i2 + a3 * i3) - δ| ≤ 47 / 1000000 := by
  have hdabs : 4999 / 10000 ≤ |d| := by
    have := abs_sub_abs_le_abs_sub D d
    rw [abs_sub_comm D d] at this; linarith
  have hdpos : 0 < |d| := by linarith
  have hd0 : d ≠ 0 := abs_pos.mp hdpos
  have hD0 : D ≠ 0 := abs_pos.mp (by linarith)
  -- sum of a_j c_j / d
  have e1 : a1 * (c1 / d) + (a2 * (c2 / d) + a3 * (c3 / d)) = (T + (a1 * (c1 - C1) + a2 * (c2 - C2) + a3 * (c3 - C3))) / d := by
    rw [← hT]; field_simp; ring
  have hmu : |a1 * (c1 - C1) + a2 * (c2 - C2) + a3 * (c3 - C3)| ≤ 6 / 1000000 := by
    have t1 := abs_add_le (a1 * (c1 - C1) + a2 * (c2 - C2)) (a3 * (c3 - C3))
    have t2 := abs_add_le (a1 * (c1 - C1)) (a2 * (c2 - C2))
    have m1 : |a1 * (c1 - C1)| ≤ 2 * (1 / 1000000) := by rw [abs_mul]; exact mul_le_mul ha1 hc1 (abs_nonneg _) (by norm_num)
    have m2 : |a2 * (c2 - C2)| ≤ 2 * (1 / 1000000) := by rw [abs_mul]; exact mul_le_mul ha2 hc2 (abs_nonneg _) (by norm_num)
    have m3 : |a3 * (c3 - C3)| ≤ 2 * (1 / 1000000) := by rw [abs_mul]; exact mul_le_mul ha3 hc3 (abs_nonneg _) (by norm_num)
    linarith
  have hiota : |(a1 * i1 + (a2 * i2 + a3 * i3)) - (a1 * (c1 / d) + (a2 * (c2 / d) + a3 * (c3 / d)))| ≤ 6 / 1000000 := by
    have e : (a1 * i1 + (a2 * i2 + a3 * i3)) - (a1 * (c1 / d) + (a2 * (c2 / d) + a3 * (c3 / d))) = a1 * (i1 - c1 / d) + a2 * (i2 - c2 / d) + a3 * (i3 - c3 / d) := by ring
    rw [e]
    have t1 := abs_add_le (a1 * (i1 - c1 / d) + a2 * (i2 - c2 / d)) (a3 * (i3 - c3 / d))
    have t2 := abs_add_le (a1 * (i1 - c1 / d)) (a2 * (i2 - c2 / d))
    have m1 : |a1 * (i1 - c1 / d)| ≤ 2 * (1 / 1000000) := by rw [abs_mul]; exact mul_le_mul ha1 hi1 (abs_nonneg _) (by norm_num)
    have m2 : |a2 * (i2 - c2 / d)| ≤ 2 * (1 / 1000000) := by rw [abs_mul]; exact mul_le_mul ha2 hi2 (abs_nonneg _) (by norm_num)
    have m3 : |a3 * (i3 - c3 / d)| ≤ 2 * (1 / 1000000) := by rw [abs_mul]; exact mul_le_mul ha3 hi3 (abs_nonneg _) (by norm_num)
    linarith
  -- (T + μ)/d - δ
  have hmain : |(T + (a1 * (c1 - C1) + a2 * (c2 - C2) + a3 * (c3 - C3))) / d - δ| ≤ 41 / 1000000 := by
    set μ := a1 * (c1 - C1) + a2 * (c2 - C2) + a3 * (c3 - C3)
    rcases hTD with ⟨hT1, hδ⟩ | ⟨hT0, hδ⟩
    · rw [hT1, hδ]
      have e : (D + μ) / d - 1 = ((D - d) + μ) / d := by field_simp; ring
      rw [e, abs_div, div_le_iff₀ hdpos]
      have t := abs_add_le (D - d) μ
      rw [abs_sub_comm D d] at t
      nlinarith
    · rw [hT0, hδ, zero_add, sub_zero, abs_div, div_le_iff₀ hdpos]
      nlinarith
  rw [e1] at hiota
  have t := abs_sub_le (a1 * i1 + (a2 * i2 + a3 * i3)) ((T + (a1 * (c1 - C1) + a2 * (c2 - C2) + a3 * (c3 - C3))) / d) δ
  linarith

/-- the exact determinant (expansion along the first row, as in the source) -/
noncomputable def detR (m : M3) : ℝ :=
  toReal m.r1.x * (toReal m.r2.y * toReal m.r3.z - toReal m.r3.y * toReal m.r2.z) -
  (toReal m.r1.y * (toReal m.r2.x * toReal m.r3.z - toReal m.r3.x * toReal m.r2.z) -
   toReal m.r1.z * (toReal m.r2.x * toReal m.r3.y - toReal m.r3.x * toReal m.r2.y))

theorem mn_wf (fm : Bool) (a b c d : Nat) : WF (mn fm a b c d) := by unfold mn fmadd; split <;> [exact fma_wf _ _ _; exact add_wf _ _]

/-- both signs of a cofactor entry of the inverse -/
theorem cof (mh d : Nat) (M : ℝ) (hb : Bnd mh (801 / 100)) (hw : WF mh) (he : |toReal mh - M| ≤ 1 / 1000000) (hd : Finite d) (hdl : 4999 / 10000 ≤ |toReal d|) :
    (Bnd (F64.div mh d) (161 / 10) ∧ |toReal (F64.div mh d) - toReal mh / toReal d| ≤ 1 / 1000000) ∧
    (Bnd (F64.div (F64.neg mh) d) (161 / 10) ∧ |toReal (F64.div (F64.neg mh) d) - (-toReal mh) / toReal d| ≤ 1 / 1000000 ∧ |(-toReal mh) - (-M)| ≤ 1 / 1000000) := by
  obtain ⟨fn, tn⟩ := toReal_neg mh hw hb.1
  have bn : Bnd (F64.neg mh) (801 / 100) := ⟨fn, by rw [tn, abs_neg]; exact hb.2⟩
  have e2 := entry_close (F64.neg mh) d bn hd hdl
  rw [tn] at e2
  refine ⟨entry_close mh d hb hd hdl, e2.1, e2.2, ?_⟩
  rw [show -toReal mh - -M = -(toReal mh - M) by ring, abs_neg]; exact he

/-- every entry of `A * invert(A)` and of `invert(A) * A` is within 1e-4 of the identity -/
def InvClose (fm : Bool) (m : M3) : Prop :=
    |toReal (M3.mulMat fm m (M3.invert fm m)).r1.x - 1| ≤ 1 / 10000 ∧
    |toReal (M3.mulMat fm m (M3.invert fm m)).r1.y - 0| ≤ 1 / 10000 ∧
    |toReal (M3.mulMat fm m (M3.invert fm m)).r1.z - 0| ≤ 1 / 10000 ∧
    |toReal (M3.mulMat fm m (M3.invert fm m)).r2.x - 0| ≤ 1 / 10000 ∧
    |toReal (M3.mulMat fm m (M3.invert fm m)).r2.y - 1| ≤ 1 / 10000 ∧
    |toReal (M3.mulMat fm m (M3.invert fm m)).r2.z - 0| ≤ 1 / 10000 ∧
    |toReal (M3.mulMat fm m (M3.invert fm m)).r3.x - 0| ≤ 1 / 10000 ∧
    |toReal (M3.mulMat fm m (M3.invert fm m)).r3.y - 0| ≤ 1 / 10000 ∧
    |toReal (M3.mulMat fm m (M3.invert fm m)).r3.z - 1| ≤ 1 / 10000 ∧
    |toReal (M3.mulMat fm (M3.invert fm m) m).r1.x - 1| ≤ 1 / 10000 ∧
    |toReal (M3.mulMat fm (M3.invert fm m) m).r1.y - 0| ≤ 1 / 10000 ∧
    |toReal (M3.mulMat fm (M3.invert fm m) m).r1.z - 0| ≤ 1 / 10000 ∧
    |toReal (M3.mulMat fm (M3.invert fm m) m).r2.x - 0| ≤ 1 / 10000 ∧
    |toReal (M3.mulMat fm (M3.invert fm m) m).r2.y - 1| ≤ 1 / 10000 ∧
    |toReal (M3.mulMat fm (M3.invert fm m) m).r2.z - 0| ≤ 1 / 10000 ∧
    |toReal (M3.mulMat fm (M3.invert fm m) m).r3.x - 0| ≤ 1 / 10000 ∧
    |toReal (M3.mulMat fm (M3.invert fm m) m).r3.y - 0| ≤ 1 / 10000 ∧
    |toReal (M3.mulMat fm (M3.invert fm m) m).r3.z - 1| ≤ 1 / 10000
set_option maxHeartbeats 8000000 in
/-- **A * invert(A) = I and invert(A) * A = I within 1e-4**, entries of magnitude at most 2, |det| ≥ 1/2 -/
theorem invert_close (fm : Bool) (m : M3) (hm : M3.Ok m) (hdet : 1 / 2 ≤ |detR m|) : InvClose fm m := by
  unfold InvClose
  obtain ⟨⟨h11, h12, h13⟩, ⟨h21, h22, h52⟩, ⟨h31, h32, h33⟩⟩ := hm
  obtain ⟨bm11, em11⟩ := minor_close fm m.r2.y m.r3.z m.r3.y m.r2.z h22 h33 h32 h52
  obtain ⟨bm12, em12⟩ := minor_close fm m.r2.x m.r3.z m.r3.x m.r2.z h21 h33 h31 h52
  obtain ⟨bm13, em13⟩ := minor_close fm m.r2.x m.r3.y m.r3.x m.r2.y h21 h32 h31 h22
  obtain ⟨bm21, em21⟩ := minor_close fm m.r1.y m.r3.z m.r3.y m.r1.z h12 h33 h32 h13
  obtain ⟨bm22, em22⟩ := minor_close fm m.r1.x m.r3.z m.r3.x m.r1.z h11 h33 h31 h13
  obtain ⟨bm52, em52⟩ := minor_close fm m.r1.x m.r3.y m.r3.x m.r1.y h11 h32 h31 h12
  obtain ⟨bm31, em31⟩ := minor_close fm m.r1.y m.r2.z m.r2.y m.r1.z h12 h52 h22 h13
  obtain ⟨bm32, em32⟩ := minor_close fm m.r1.x m.r2.z m.r2.x m.r1.z h11 h52 h21 h13
  obtain ⟨bm33, em33⟩ := minor_close fm m.r1.x m.r2.y m.r2.x m.r1.y h11 h22 h21 h12
  obtain ⟨fd, ed⟩ := det_close fm m.r1.x m.r1.y m.r1.z (mn fm m.r2.y m.r3.z m.r3.y m.r2.z) (mn fm m.r2.x m.r3.z m.r3.x m.r2.z) (mn fm m.r2.x m.r3.y m.r3.x m.r2.y) h11 h12 h13 bm11 bm12 bm13
  set a11 := toReal m.r1.x with ha11
  set a12 := toReal m.r1.y with ha12
  set a13 := toReal m.r1.z with ha13
  set a21 := toReal m.r2.x with ha21
  set a22 := toReal m.r2.y with ha22
  set a52 := toReal m.r2.z with ha52
  set a31 := toReal m.r3.x with ha31
  set a32 := toReal m.r3.y with ha32
  set a33 := toReal m.r3.z with ha33
  set mh11 := (mn fm m.r2.y m.r3.z m.r3.y m.r2.z) with hmh11
  set mh12 := (mn fm m.r2.x m.r3.z m.r3.x m.r2.z) with hmh12
  set mh13 := (mn fm m.r2.x m.r3.y m.r3.x m.r2.y) with hmh13
  set mh21 := (mn fm m.r1.y m.r3.z m.r3.y m.r1.z) with hmh21
  set mh22 := (mn fm m.r1.x m.r3.z m.r3.x m.r1.z) with hmh22
  set mh52 := (mn fm m.r1.x m.r3.y m.r3.x m.r1.y) with hmh52
  set mh31 := (mn fm m.r1.y m.r2.z m.r2.y m.r1.z) with hmh31
  set mh32 := (mn fm m.r1.x m.r2.z m.r2.x m.r1.z) with hmh32
  set mh33 := (mn fm m.r1.x m.r2.y m.r2.x m.r1.y) with hmh33
  set dh := detOf fm m.r1.x m.r1.y m.r1.z mh11 mh12 mh13 with hdh
  have hD : detR m = a11 * (a22 * a33 - a32 * a52) - (a12 * (a21 * a33 - a31 * a52) - a13 * (a21 * a32 - a31 * a22)) := rfl
  rw [hD] at hdet
  set D := a11 * (a22 * a33 - a32 * a52) - (a12 * (a21 * a33 - a31 * a52) - a13 * (a21 * a32 - a31 * a22)) with hDdef
  have hdD : |toReal dh - D| ≤ 14 / 1000000 := by
    have e : toReal dh - D = (toReal dh - (a11 * toReal mh11 - (a12 * toReal mh12 - a13 * toReal mh13)))
        + (a11 * (toReal mh11 - (a22 * a33 - a32 * a52)) - a12 * (toReal mh12 - (a21 * a33 - a31 * a52)) + a13 * (toReal mh13 - (a21 * a32 - a31 * a22))) := by rw [hDdef]; ring
    rw [e]
    have t1 := abs_add_le (toReal dh - (a11 * toReal mh11 - (a12 * toReal mh12 - a13 * toReal mh13))) (a11 * (toReal mh11 - (a22 * a33 - a32 * a52)) - a12 * (toReal mh12 - (a21 * a33 - a31 * a52)) + a13 * (toReal mh13 - (a21 * a32 - a31 * a22)))
    have t2 := abs_add_le (a11 * (toReal mh11 - (a22 * a33 - a32 * a52)) - a12 * (toReal mh12 - (a21 * a33 - a31 * a52))) (a13 * (toReal mh13 - (a21 * a32 - a31 * a22)))
    have t3 := abs_sub (a11 * (toReal mh11 - (a22 * a33 - a32 * a52))) (a12 * (toReal mh12 - (a21 * a33 - a31 * a52)))
    have m1 : |a11 * (toReal mh11 - (a22 * a33 - a32 * a52))| ≤ 2 * (1 / 1000000) := by rw [abs_mul]; exact mul_le_mul h11.2 em11 (abs_nonneg _) (by norm_num)
    have m2 : |a12 * (toReal mh12 - (a21 * a33 - a31 * a52))| ≤ 2 * (1 / 1000000) := by rw [abs_mul]; exact mul_le_mul h12.2 em12 (abs_nonneg _) (by norm_num)
    have m3 : |a13 * (toReal mh13 - (a21 * a32 - a31 * a22))| ≤ 2 * (1 / 1000000) := by rw [abs_mul]; exact mul_le_mul h13.2 em13 (abs_nonneg _) (by norm_num)
    linarith
  have hdl : 4999 / 10000 ≤ |toReal dh| := by
    have := abs_sub_abs_le_abs_sub D (toReal dh)
    rw [abs_sub_comm D (toReal dh)] at this; linarith
  obtain ⟨⟨bp11, ep11⟩, ⟨bn11, en11, cn11⟩⟩ := cof mh11 dh _ bm11 (mn_wf _ _ _ _ _) em11 fd hdl
  obtain ⟨⟨bp12, ep12⟩, ⟨bn12, en12, cn12⟩⟩ := cof mh12 dh _ bm12 (mn_wf _ _ _ _ _) em12 fd hdl
  obtain ⟨⟨bp13, ep13⟩, ⟨bn13, en13, cn13⟩⟩ := cof mh13 dh _ bm13 (mn_wf _ _ _ _ _) em13 fd hdl
  obtain ⟨⟨bp21, ep21⟩, ⟨bn21, en21, cn21⟩⟩ := cof mh21 dh _ bm21 (mn_wf _ _ _ _ _) em21 fd hdl
  obtain ⟨⟨bp22, ep22⟩, ⟨bn22, en22, cn22⟩⟩ := cof mh22 dh _ bm22 (mn_wf _ _ _ _ _) em22 fd hdl
  obtain ⟨⟨bp52, ep52⟩, ⟨bn52, en52, cn52⟩⟩ := cof mh52 dh _ bm52 (mn_wf _ _ _ _ _) em52 fd hdl
  obtain ⟨⟨bp31, ep31⟩, ⟨bn31, en31, cn31⟩⟩ := cof mh31 dh _ bm31 (mn_wf _ _ _ _ _) em31 fd hdl
  obtain ⟨⟨bp32, ep32⟩, ⟨bn32, en32, cn32⟩⟩ := cof mh32 dh _ bm32 (mn_wf _ _ _ _ _) em32 fd hdl
  obtain ⟨⟨bp33, ep33⟩, ⟨bn33, en33, cn33⟩⟩ := cof mh33 dh _ bm33 (mn_wf _ _ _ _ _) em33 fd hdl
  have hinv : M3.invert fm m = ⟨⟨(F64.div mh11 dh), (F64.div (F64.neg mh21) dh), (F64.div mh31 dh)⟩, ⟨(F64.div (F64.neg mh12) dh), (F64.div mh22 dh), (F64.div (F64.neg mh32) dh)⟩, ⟨(F64.div mh13 dh), (F64.div (F64.neg mh52) dh), (F64.div mh33 dh)⟩⟩ := rfl
  rw [hinv]
  refine ⟨?_, ?_, ?_, ?_, ?_, ?_, ?_, ?_, ?_, ?_, ?_, ?_, ?_, ?_, ?_, ?_, ?_, ?_⟩
  · have hp := prod_core a11 a12 a13 (a22 * a33 - a32 * a52) (-(a21 * a33 - a31 * a52)) (a21 * a32 - a31 * a22) (toReal mh11) (-toReal mh12) (toReal mh13)
      (toReal (F64.div mh11 dh)) (toReal (F64.div (F64.neg mh12) dh)) (toReal (F64.div mh13 dh)) D (toReal dh) D 1 h11.2 h12.2 h13.2 em11 cn12 em13 hdD hdet ep11 en12 ep13
      (by first | ring | (rw [hDdef]; ring)) (Or.inl ⟨rfl, rfl⟩)
    have hf := dot_big fm m.r1.x (F64.div mh11 dh) m.r1.y (F64.div (F64.neg mh12) dh) m.r1.z (F64.div mh13 dh) 2 (161 / 10) h11 bp11 h12 bn12 h13 bp13 (by norm_num)
    have t := abs_sub_le (toReal (fmadd fm m.r1.x (F64.div mh11 dh) (fmadd fm m.r1.y (F64.div (F64.neg mh12) dh) (F64.mul m.r1.z (F64.div mh13 dh))))) (a11 * toReal (F64.div mh11 dh) + (a12 * toReal (F64.div (F64.neg mh12) dh) + a13 * toReal (F64.div mh13 dh))) 1
    show |toReal (fmadd fm m.r1.x (F64.div mh11 dh) (fmadd fm m.r1.y (F64.div (F64.neg mh12) dh) (F64.mul m.r1.z (F64.div mh13 dh)))) - 1| ≤ 1 / 10000
    linarith
  · have hp := prod_core a11 a12 a13 (-(a12 * a33 - a32 * a13)) (a11 * a33 - a31 * a13) (-(a11 * a32 - a31 * a12)) (-toReal mh21) (toReal mh22) (-toReal mh52)
      (toReal (F64.div (F64.neg mh21) dh)) (toReal (F64.div mh22 dh)) (toReal (F64.div (F64.neg mh52) dh)) D (toReal dh) 0 0 h11.2 h12.2 h13.2 cn21 em22 cn52 hdD hdet en21 ep22 en52
      (by first | ring | (rw [hDdef]; ring)) (Or.inr ⟨rfl, rfl⟩)
    have hf := dot_big fm m.r1.x (F64.div (F64.neg mh21) dh) m.r1.y (F64.div mh22 dh) m.r1.z (F64.div (F64.neg mh52) dh) 2 (161 / 10) h11 bn21 h12 bp22 h13 bn52 (by norm_num)
    have t := abs_sub_le (toReal (fmadd fm m.r1.x (F64.div (F64.neg mh21) dh) (fmadd fm m.r1.y (F64.div mh22 dh) (F64.mul m.r1.z (F64.div (F64.neg mh52) dh))))) (a11 * toReal (F64.div (F64.neg mh21) dh) + (a12 * toReal (F64.div mh22 dh) + a13 * toReal (F64.div (F64.neg mh52) dh))) 0
    show |toReal (fmadd fm m.r1.x (F64.div (F64.neg mh21) dh) (fmadd fm m.r1.y (F64.div mh22 dh) (F64.mul m.r1.z (F64.div (F64.neg mh52) dh)))) - 0| ≤ 1 / 10000
    linarith
  · have hp := prod_core a11 a12 a13 (a12 * a52 - a22 * a13) (-(a11 * a52 - a21 * a13)) (a11 * a22 - a21 * a12) (toReal mh31) (-toReal mh32) (toReal mh33)
      (toReal (F64.div mh31 dh)) (toReal (F64.div (F64.neg mh32) dh)) (toReal (F64.div mh33 dh)) D (toReal dh) 0 0 h11.2 h12.2 h13.2 em31 cn32 em33 hdD hdet ep31 en32 ep33
      (by first | ring | (rw [hDdef]; ring)) (Or.inr ⟨rfl, rfl⟩)
    have hf := dot_big fm m.r1.x (F64.div mh31 dh) m.r1.y (F64.div (F64.neg mh32) dh) m.r1.z (F64.div mh33 dh) 2 (161 / 10) h11 bp31 h12 bn32 h13 bp33 (by norm_num)
    have t := abs_sub_le (toReal (fmadd fm m.r1.x (F64.div mh31 dh) (fmadd fm m.r1.y (F64.div (F64.neg mh32) dh) (F64.mul m.r1.z (F64.div mh33 dh))))) (a11 * toReal (F64.div mh31 dh) + (a12 * toReal (F64.div (F64.neg mh32) dh) + a13 * toReal (F64.div mh33 dh))) 0
    show |toReal (fmadd fm m.r1.x (F64.div mh31 dh) (fmadd fm m.r1.y (F64.div (F64.neg mh32) dh) (F64.mul m.r1.z (F64.div mh33 dh)))) - 0| ≤ 1 / 10000
    linarith
  · have hp := prod_core a21 a22 a52 (a22 * a33 - a32 * a52) (-(a21 * a33 - a31 * a52)) (a21 * a32 - a31 * a22) (toReal mh11) (-toReal mh12) (toReal mh13)
      (toReal (F64.div mh11 dh)) (toReal (F64.div (F64.neg mh12) dh)) (toReal (F64.div mh13 dh)) D (toReal dh) 0 0 h21.2 h22.2 h52.2 em11 cn12 em13 hdD hdet ep11 en12 ep13
      (by first | ring | (rw [hDdef]; ring)) (Or.inr ⟨rfl, rfl⟩)
    have hf := dot_big fm m.r2.x (F64.div mh11 dh) m.r2.y (F64.div (F64.neg mh12) dh) m.r2.z (F64.div mh13 dh) 2 (161 / 10) h21 bp11 h22 bn12 h52 bp13 (by norm_num)
    have t := abs_sub_le (toReal (fmadd fm m.r2.x (F64.div mh11 dh) (fmadd fm m.r2.y (F64.div (F64.neg mh12) dh) (F64.mul m.r2.z (F64.div mh13 dh))))) (a21 * toReal (F64.div mh11 dh) + (a22 * toReal (F64.div (F64.neg mh12) dh) + a52 * toReal (F64.div mh13 dh))) 0
    show |toReal (fmadd fm m.r2.x (F64.div mh11 dh) (fmadd fm m.r2.y (F64.div (F64.neg mh12) dh) (F64.mul m.r2.z (F64.div mh13 dh)))) - 0| ≤ 1 / 10000
    linarith
  · have hp := prod_core a21 a22 a52 (-(a12 * a33 - a32 * a13)) (a11 * a33 - a31 * a13) (-(a11 * a32 - a31 * a12)) (-toReal mh21) (toReal mh22) (-toReal mh52)
      (toReal (F64.div (F64.neg mh21) dh)) (toReal (F64.div mh22 dh)) (toReal (F64.div (F64.neg mh52) dh)) D (toReal dh) D 1 h21.2 h22.2 h52.2 cn21 em22 cn52 hdD hdet en21 ep22 en52
      (by first | ring | (rw [hDdef]; ring)) (Or.inl ⟨rfl, rfl⟩)
    have hf := dot_big fm m.r2.x (F64.div (F64.neg mh21) dh) m.r2.y (F64.div mh22 dh) m.r2.z (F64.div (F64.neg mh52) dh) 2 (161 / 10) h21 bn21 h22 bp22 h52 bn52 (by norm_num)
    have t := abs_sub_le (toReal (fmadd fm m.r2.x (F64.div (F64.neg mh21) dh) (fmadd fm m.r2.y (F64.div mh22 dh) (F64.mul m.r2.z (F64.div (F64.neg mh52) dh))))) (a21 * toReal (F64.div (F64.neg mh21) dh) + (a22 * toReal (F64.div mh22 dh) + a52 * toReal (F64.div (F64.neg mh52) dh))) 1
    show |toReal (fmadd fm m.r2.x (F64.div (F64.neg mh21) dh) (fmadd fm m.r2.y (F64.div mh22 dh) (F64.mul m.r2.z (F64.div (F64.neg mh52) dh)))) - 1| ≤ 1 / 10000
    linarith
  · have hp := prod_core a21 a22 a52 (a12 * a52 - a22 * a13) (-(a11 * a52 - a21 * a13)) (a11 * a22 - a21 * a12) (toReal mh31) (-toReal mh32) (toReal mh33)
      (toReal (F64.div mh31 dh)) (toReal (F64.div (F64.neg mh32) dh)) (toReal (F64.div mh33 dh)) D (toReal dh) 0 0 h21.2 h22.2 h52.2 em31 cn32 em33 hdD hdet ep31 en32 ep33
      (by first | ring | (rw [hDdef]; ring)) (Or.inr ⟨rfl, rfl⟩)
    have hf := dot_big fm m.r2.x (F64.div mh31 dh) m.r2.y (F64.div (F64.neg mh32) dh) m.r2.z (F64.div mh33 dh) 2 (161 / 10) h21 bp31 h22 bn32 h52 bp33 (by norm_num)
    have t := abs_sub_le (toReal (fmadd fm m.r2.x (F64.div mh31 dh) (fmadd fm m.r2.y (F64.div (F64.neg mh32) dh) (F64.mul m.r2.z (F64.div mh33 dh))))) (a21 * toReal (F64.div mh31 dh) + (a22 * toReal (F64.div (F64.neg mh32) dh) + a52 * toReal (F64.div mh33 dh))) 0
    show |toReal (fmadd fm m.r2.x (F64.div mh31 dh) (fmadd fm m.r2.y (F64.div (F64.neg mh32) dh) (F64.mul m.r2.z (F64.div mh33 dh)))) - 0| ≤ 1 / 10000
    linarith
  · have hp := prod_core a31 a32 a33 (a22 * a33 - a32 * a52) (-(a21 * a33 - a31 * a52)) (a21 * a32 - a31 * a22) (toReal mh11) (-toReal mh12) (toReal mh13)
      (toReal (F64.div mh11 dh)) (toReal (F64.div (F64.neg mh12) dh)) (toReal (F64.div mh13 dh)) D (toReal dh) 0 0 h31.2 h32.2 h33.2 em11 cn12 em13 hdD hdet ep11 en12 ep13
      (by first | ring | (rw [hDdef]; ring)) (Or.inr ⟨rfl, rfl⟩)
    have hf := dot_big fm m.r3.x (F64.div mh11 dh) m.r3.y (F64.div (F64.neg mh12) dh) m.r3.z (F64.div mh13 dh) 2 (161 / 10) h31 bp11 h32 bn12 h33 bp13 (by norm_num)
    have t := abs_sub_le (toReal (fmadd fm m.r3.x (F64.div mh11 dh) (fmadd fm m.r3.y (F64.div (F64.neg mh12) dh) (F64.mul m.r3.z (F64.div mh13 dh))))) (a31 * toReal (F64.div mh11 dh) + (a32 * toReal (F64.div (F64.neg mh12) dh) + a33 * toReal (F64.div mh13 dh))) 0
    show |toReal (fmadd fm m.r3.x (F64.div mh11 dh) (fmadd fm m.r3.y (F64.div (F64.neg mh12) dh) (F64.mul m.r3.z (F64.div mh13 dh)))) - 0| ≤ 1 / 10000
    linarith
  · have hp := prod_core a31 a32 a33 (-(a12 * a33 - a32 * a13)) (a11 * a33 - a31 * a13) (-(a11 * a32 - a31 * a12)) (-toReal mh21) (toReal mh22) (-toReal mh52)
      (toReal (F64.div (F64.neg mh21) dh)) (toReal (F64.div mh22 dh)) (toReal (F64.div (F64.neg mh52) dh)) D (toReal dh) 0 0 h31.2 h32.2 h33.2 cn21 em22 cn52 hdD hdet en21 ep22 en52
      (by first | ring | (rw [hDdef]; ring)) (Or.inr ⟨rfl, rfl⟩)
    have hf := dot_big fm m.r3.x (F64.div (F64.neg mh21) dh) m.r3.y (F64.div mh22 dh) m.r3.z (F64.div (F64.neg mh52) dh) 2 (161 / 10) h31 bn21 h32 bp22 h33 bn52 (by norm_num)
    have t := abs_sub_le (toReal (fmadd fm m.r3.x (F64.div (F64.neg mh21) dh) (fmadd fm m.r3.y (F64.div mh22 dh) (F64.mul m.r3.z (F64.div (F64.neg mh52) dh))))) (a31 * toReal (F64.div (F64.neg mh21) dh) + (a32 * toReal (F64.div mh22 dh) + a33 * toReal (F64.div (F64.neg mh52) dh))) 0
    show |toReal (fmadd fm m.r3.x (F64.div (F64.neg mh21) dh) (fmadd fm m.r3.y (F64.div mh22 dh) (F64.mul m.r3.z (F64.div (F64.neg mh52) dh)))) - 0| ≤ 1 / 10000
    linarith
  · have hp := prod_core a31 a32 a33 (a12 * a52 - a22 * a13) (-(a11 * a52 - a21 * a13)) (a11 * a22 - a21 * a12) (toReal mh31) (-toReal mh32) (toReal mh33)
      (toReal (F64.div mh31 dh)) (toReal (F64.div (F64.neg mh32) dh)) (toReal (F64.div mh33 dh)) D (toReal dh) D 1 h31.2 h32.2 h33.2 em31 cn32 em33 hdD hdet ep31 en32 ep33
      (by first | ring | (rw [hDdef]; ring)) (Or.inl ⟨rfl, rfl⟩)
    have hf := dot_big fm m.r3.x (F64.div mh31 dh) m.r3.y (F64.div (F64.neg mh32) dh) m.r3.z (F64.div mh33 dh) 2 (161 / 10) h31 bp31 h32 bn32 h33 bp33 (by norm_num)
    have t := abs_sub_le (toReal (fmadd fm m.r3.x (F64.div mh31 dh) (fmadd fm m.r3.y (F64.div (F64.neg mh32) dh) (F64.mul m.r3.z (F64.div mh33 dh))))) (a31 * toReal (F64.div mh31 dh) + (a32 * toReal (F64.div (F64.neg mh32) dh) + a33 * toReal (F64.div mh33 dh))) 1
    show |toReal (fmadd fm m.r3.x (F64.div mh31 dh) (fmadd fm m.r3.y (F64.div (F64.neg mh32) dh) (F64.mul m.r3.z (F64.div mh33 dh)))) - 1| ≤ 1 / 10000
    linarith
  · have hp := prod_core a11 a21 a31 (a22 * a33 - a32 * a52) (-(a12 * a33 - a32 * a13)) (a12 * a52 - a22 * a13) (toReal mh11) (-toReal mh21) (toReal mh31)
      (toReal (F64.div mh11 dh)) (toReal (F64.div (F64.neg mh21) dh)) (toReal (F64.div mh31 dh)) D (toReal dh) D 1 h11.2 h21.2 h31.2 em11 cn21 em31 hdD hdet ep11 en21 ep31
      (by first | ring | (rw [hDdef]; ring)) (Or.inl ⟨rfl, rfl⟩)
    have hf := dot_big fm (F64.div mh11 dh) m.r1.x (F64.div (F64.neg mh21) dh) m.r2.x (F64.div mh31 dh) m.r3.x (161 / 10) 2 bp11 h11 bn21 h21 bp31 h31 (by norm_num)
    have t := abs_sub_le (toReal (fmadd fm (F64.div mh11 dh) m.r1.x (fmadd fm (F64.div (F64.neg mh21) dh) m.r2.x (F64.mul (F64.div mh31 dh) m.r3.x)))) (toReal (F64.div mh11 dh) * a11 + (toReal (F64.div (F64.neg mh21) dh) * a21 + toReal (F64.div mh31 dh) * a31)) 1
    have hc : toReal (F64.div mh11 dh) * a11 + (toReal (F64.div (F64.neg mh21) dh) * a21 + toReal (F64.div mh31 dh) * a31) = a11 * toReal (F64.div mh11 dh) + (a21 * toReal (F64.div (F64.neg mh21) dh) + a31 * toReal (F64.div mh31 dh)) := by ring
    rw [← hc] at hp
    show |toReal (fmadd fm (F64.div mh11 dh) m.r1.x (fmadd fm (F64.div (F64.neg mh21) dh) m.r2.x (F64.mul (F64.div mh31 dh) m.r3.x))) - 1| ≤ 1 / 10000
    linarith
  · have hp := prod_core a12 a22 a32 (a22 * a33 - a32 * a52) (-(a12 * a33 - a32 * a13)) (a12 * a52 - a22 * a13) (toReal mh11) (-toReal mh21) (toReal mh31)
      (toReal (F64.div mh11 dh)) (toReal (F64.div (F64.neg mh21) dh)) (toReal (F64.div mh31 dh)) D (toReal dh) 0 0 h12.2 h22.2 h32.2 em11 cn21 em31 hdD hdet ep11 en21 ep31
      (by first | ring | (rw [hDdef]; ring)) (Or.inr ⟨rfl, rfl⟩)
    have hf := dot_big fm (F64.div mh11 dh) m.r1.y (F64.div (F64.neg mh21) dh) m.r2.y (F64.div mh31 dh) m.r3.y (161 / 10) 2 bp11 h12 bn21 h22 bp31 h32 (by norm_num)
    have t := abs_sub_le (toReal (fmadd fm (F64.div mh11 dh) m.r1.y (fmadd fm (F64.div (F64.neg mh21) dh) m.r2.y (F64.mul (F64.div mh31 dh) m.r3.y)))) (toReal (F64.div mh11 dh) * a12 + (toReal (F64.div (F64.neg mh21) dh) * a22 + toReal (F64.div mh31 dh) * a32)) 0
    have hc : toReal (F64.div mh11 dh) * a12 + (toReal (F64.div (F64.neg mh21) dh) * a22 + toReal (F64.div mh31 dh) * a32) = a12 * toReal (F64.div mh11 dh) + (a22 * toReal (F64.div (F64.neg mh21) dh) + a32 * toReal (F64.div mh31 dh)) := by ring
    rw [← hc] at hp
    show |toReal (fmadd fm (F64.div mh11 dh) m.r1.y (fmadd fm (F64.div (F64.neg mh21) dh) m.r2.y (F64.mul (F64.div mh31 dh) m.r3.y))) - 0| ≤ 1 / 10000
    linarith
  · have hp := prod_core a13 a52 a33 (a22 * a33 - a32 * a52) (-(a12 * a33 - a32 * a13)) (a12 * a52 - a22 * a13) (toReal mh11) (-toReal mh21) (toReal mh31)
      (toReal (F64.div mh11 dh)) (toReal (F64.div (F64.neg mh21) dh)) (toReal (F64.div mh31 dh)) D (toReal dh) 0 0 h13.2 h52.2 h33.2 em11 cn21 em31 hdD hdet ep11 en21 ep31
      (by first | ring | (rw [hDdef]; ring)) (Or.inr ⟨rfl, rfl⟩)
    have hf := dot_big fm (F64.div mh11 dh) m.r1.z (F64.div (F64.neg mh21) dh) m.r2.z (F64.div mh31 dh) m.r3.z (161 / 10) 2 bp11 h13 bn21 h52 bp31 h33 (by norm_num)
    have t := abs_sub_le (toReal (fmadd fm (F64.div mh11 dh) m.r1.z (fmadd fm (F64.div (F64.neg mh21) dh) m.r2.z (F64.mul (F64.div mh31 dh) m.r3.z)))) (toReal (F64.div mh11 dh) * a13 + (toReal (F64.div (F64.neg mh21) dh) * a52 + toReal (F64.div mh31 dh) * a33)) 0
    have hc : toReal (F64.div mh11 dh) * a13 + (toReal (F64.div (F64.neg mh21) dh) * a52 + toReal (F64.div mh31 dh) * a33) = a13 * toReal (F64.div mh11 dh) + (a52 * toReal (F64.div (F64.neg mh21) dh) + a33 * toReal (F64.div mh31 dh)) := by ring
    rw [← hc] at hp
    show |toReal (fmadd fm (F64.div mh11 dh) m.r1.z (fmadd fm (F64.div (F64.neg mh21) dh) m.r2.z (F64.mul (F64.div mh31 dh) m.r3.z))) - 0| ≤ 1 / 10000
    linarith
  · have hp := prod_core a11 a21 a31 (-(a21 * a33 - a31 * a52)) (a11 * a33 - a31 * a13) (-(a11 * a52 - a21 * a13)) (-toReal mh12) (toReal mh22) (-toReal mh32)
      (toReal (F64.div (F64.neg mh12) dh)) (toReal (F64.div mh22 dh)) (toReal (F64.div (F64.neg mh32) dh)) D (toReal dh) 0 0 h11.2 h21.2 h31.2 cn12 em22 cn32 hdD hdet en12 ep22 en32
      (by first | ring | (rw [hDdef]; ring)) (Or.inr ⟨rfl, rfl⟩)
    have hf := dot_big fm (F64.div (F64.neg mh12) dh) m.r1.x (F64.div mh22 dh) m.r2.x (F64.div (F64.neg mh32) dh) m.r3.x (161 / 10) 2 bn12 h11 bp22 h21 bn32 h31 (by norm_num)
    have t := abs_sub_le (toReal (fmadd fm (F64.div (F64.neg mh12) dh) m.r1.x (fmadd fm (F64.div mh22 dh) m.r2.x (F64.mul (F64.div (F64.neg mh32) dh) m.r3.x)))) (toReal (F64.div (F64.neg mh12) dh) * a11 + (toReal (F64.div mh22 dh) * a21 + toReal (F64.div (F64.neg mh32) dh) * a31)) 0
    have hc : toReal (F64.div (F64.neg mh12) dh) * a11 + (toReal (F64.div mh22 dh) * a21 + toReal (F64.div (F64.neg mh32) dh) * a31) = a11 * toReal (F64.div (F64.neg mh12) dh) + (a21 * toReal (F64.div mh22 dh) + a31 * toReal (F64.div (F64.neg mh32) dh)) := by ring
    rw [← hc] at hp
    show |toReal (fmadd fm (F64.div (F64.neg mh12) dh) m.r1.x (fmadd fm (F64.div mh22 dh) m.r2.x (F64.mul (F64.div (F64.neg mh32) dh) m.r3.x))) - 0| ≤ 1 / 10000
    linarith
  · have hp := prod_core a12 a22 a32 (-(a21 * a33 - a31 * a52)) (a11 * a33 - a31 * a13) (-(a11 * a52 - a21 * a13)) (-toReal mh12) (toReal mh22) (-toReal mh32)
      (toReal (F64.div (F64.neg mh12) dh)) (toReal (F64.div mh22 dh)) (toReal (F64.div (F64.neg mh32) dh)) D (toReal dh) D 1 h12.2 h22.2 h32.2 cn12 em22 cn32 hdD hdet en12 ep22 en32
      (by first | ring | (rw [hDdef]; ring)) (Or.inl ⟨rfl, rfl⟩)
    have hf := dot_big fm (F64.div (F64.neg mh12) dh) m.r1.y (F64.div mh22 dh) m.r2.y (F64.div (F64.neg mh32) dh) m.r3.y (161 / 10) 2 bn12 h12 bp22 h22 bn32 h32 (by norm_num)
    have t := abs_sub_le (toReal (fmadd fm (F64.div (F64.neg mh12) dh) m.r1.y (fmadd fm (F64.div mh22 dh) m.r2.y (F64.mul (F64.div (F64.neg mh32) dh) m.r3.y)))) (toReal (F64.div (F64.neg mh12) dh) * a12 + (toReal (F64.div mh22 dh) * a22 + toReal (F64.div (F64.neg mh32) dh) * a32)) 1
    have hc : toReal (F64.div (F64.neg mh12) dh) * a12 + (toReal (F64.div mh22 dh) * a22 + toReal (F64.div (F64.neg mh32) dh) * a32) = a12 * toReal (F64.div (F64.neg mh12) dh) + (a22 * toReal (F64.div mh22 dh) + a32 * toReal (F64.div (F64.neg mh32) dh)) := by ring
    rw [← hc] at hp
    show |toReal (fmadd fm (F64.div (F64.neg mh12) dh) m.r1.y (fmadd fm (F64.div mh22 dh) m.r2.y (F64.mul (F64.div (F64.neg mh32) dh) m.r3.y))) - 1| ≤ 1 / 10000
    linarith
  · have hp := prod_core a13 a52 a33 (-(a21 * a33 - a31 * a52)) (a11 * a33 - a31 * a13) (-(a11 * a52 - a21 * a13)) (-toReal mh12) (toReal mh22) (-toReal mh32)
      (toReal (F64.div (F64.neg mh12) dh)) (toReal (F64.div mh22 dh)) (toReal (F64.div (F64.neg mh32) dh)) D (toReal dh) 0 0 h13.2 h52.2 h33.2 cn12 em22 cn32 hdD hdet en12 ep22 en32
      (by first | ring | (rw [hDdef]; ring)) (Or.inr ⟨rfl, rfl⟩)
    have hf := dot_big fm (F64.div (F64.neg mh12) dh) m.r1.z (F64.div mh22 dh) m.r2.z (F64.div (F64.neg mh32) dh) m.r3.z (161 / 10) 2 bn12 h13 bp22 h52 bn32 h33 (by norm_num)
    have t := abs_sub_le (toReal (fmadd fm (F64.div (F64.neg mh12) dh) m.r1.z (fmadd fm (F64.div mh22 dh) m.r2.z (F64.mul (F64.div (F64.neg mh32) dh) m.r3.z)))) (toReal (F64.div (F64.neg mh12) dh) * a13 + (toReal (F64.div mh22 dh) * a52 + toReal (F64.div (F64.neg mh32) dh) * a33)) 0
    have hc : toReal (F64.div (F64.neg mh12) dh) * a13 + (toReal (F64.div mh22 dh) * a52 + toReal (F64.div (F64.neg mh32) dh) * a33) = a13 * toReal (F64.div (F64.neg mh12) dh) + (a52 * toReal (F64.div mh22 dh) + a33 * toReal (F64.div (F64.neg mh32) dh)) := by ring
    rw [← hc] at hp
    show |toReal (fmadd fm (F64.div (F64.neg mh12) dh) m.r1.z (fmadd fm (F64.div mh22 dh) m.r2.z (F64.mul (F64.div (F64.neg mh32) dh) m.r3.z))) - 0| ≤ 1 / 10000
    linarith
  · have hp := prod_core a11 a21 a31 (a21 * a32 - a31 * a22) (-(a11 * a32 - a31 * a12)) (a11 * a22 - a21 * a12) (toReal mh13) (-toReal mh52) (toReal mh33)
      (toReal (F64.div mh13 dh)) (toReal (F64.div (F64.neg mh52) dh)) (toReal (F64.div mh33 dh)) D (toReal dh) 0 0 h11.2 h21.2 h31.2 em13 cn52 em33 hdD hdet ep13 en52 ep33
      (by first | ring | (rw [hDdef]; ring)) (Or.inr ⟨rfl, rfl⟩)
    have hf := dot_big fm (F64.div mh13 dh) m.r1.x (F64.div (F64.neg mh52) dh) m.r2.x (F64.div mh33 dh) m.r3.x (161 / 10) 2 bp13 h11 bn52 h21 bp33 h31 (by norm_num)
    have t := abs_sub_le (toReal (fmadd fm (F64.div mh13 dh) m.r1.x (fmadd fm (F64.div (F64.neg mh52) dh) m.r2.x (F64.mul (F64.div mh33 dh) m.r3.x)))) (toReal (F64.div mh13 dh) * a11 + (toReal (F64.div (F64.neg mh52) dh) * a21 + toReal (F64.div mh33 dh) * a31)) 0
    have hc : toReal (F64.div mh13 dh) * a11 + (toReal (F64.div (F64.neg mh52) dh) * a21 + toReal (F64.div mh33 dh) * a31) = a11 * toReal (F64.div mh13 dh) + (a21 * toReal (F64.div (F64.neg mh52) dh) + a31 * toReal (F64.div mh33 dh)) := by ring
    rw [← hc] at hp
    show |toReal (fmadd fm (F64.div mh13 dh) m.r1.x (fmadd fm (F64.div (F64.neg mh52) dh) m.r2.x (F64.mul (F64.div mh33 dh) m.r3.x))) - 0| ≤ 1 / 10000
    linarith
  · have hp := prod_core a12 a22 a32 (a21 * a32 - a31 * a22) (-(a11 * a32 - a31 * a12)) (a11 * a22 - a21 * a12) (toReal mh13) (-toReal mh52) (toReal mh33)
      (toReal (F64.div mh13 dh)) (toReal (F64.div (F64.neg mh52) dh)) (toReal (F64.div mh33 dh)) D (toReal dh) 0 0 h12.2 h22.2 h32.2 em13 cn52 em33 hdD hdet ep13 en52 ep33
      (by first | ring | (rw [hDdef]; ring)) (Or.inr ⟨rfl, rfl⟩)
    have hf := dot_big fm (F64.div mh13 dh) m.r1.y (F64.div (F64.neg mh52) dh) m.r2.y (F64.div mh33 dh) m.r3.y (161 / 10) 2 bp13 h12 bn52 h22 bp33 h32 (by norm_num)
    have t := abs_sub_le (toReal (fmadd fm (F64.div mh13 dh) m.r1.y (fmadd fm (F64.div (F64.neg mh52) dh) m.r2.y (F64.mul (F64.div mh33 dh) m.r3.y)))) (toReal (F64.div mh13 dh) * a12 + (toReal (F64.div (F64.neg mh52) dh) * a22 + toReal (F64.div mh33 dh) * a32)) 0
    have hc : toReal (F64.div mh13 dh) * a12 + (toReal (F64.div (F64.neg mh52) dh) * a22 + toReal (F64.div mh33 dh) * a32) = a12 * toReal (F64.div mh13 dh) + (a22 * toReal (F64.div (F64.neg mh52) dh) + a32 * toReal (F64.div mh33 dh)) := by ring
    rw [← hc] at hp
    show |toReal (fmadd fm (F64.div mh13 dh) m.r1.y (fmadd fm (F64.div (F64.neg mh52) dh) m.r2.y (F64.mul (F64.div mh33 dh) m.r3.y))) - 0| ≤ 1 / 10000
    linarith
  · have hp := prod_core a13 a52 a33 (a21 * a32 - a31 * a22) (-(a11 * a32 - a31 * a12)) (a11 * a22 - a21 * a12) (toReal mh13) (-toReal mh52) (toReal mh33)
      (toReal (F64.div mh13 dh)) (toReal (F64.div (F64.neg mh52) dh)) (toReal (F64.div mh33 dh)) D (toReal dh) D 1 h13.2 h52.2 h33.2 em13 cn52 em33 hdD hdet ep13 en52 ep33
      (by first | ring | (rw [hDdef]; ring)) (Or.inl ⟨rfl, rfl⟩)
    have hf := dot_big fm (F64.div mh13 dh) m.r1.z (F64.div (F64.neg mh52) dh) m.r2.z (F64.div mh33 dh) m.r3.z (161 / 10) 2 bp13 h13 bn52 h52 bp33 h33 (by norm_num)
    have t := abs_sub_le (toReal (fmadd fm (F64.div mh13 dh) m.r1.z (fmadd fm (F64.div (F64.neg mh52) dh) m.r2.z (F64.mul (F64.div mh33 dh) m.r3.z)))) (toReal (F64.div mh13 dh) * a13 + (toReal (F64.div (F64.neg mh52) dh) * a52 + toReal (F64.div mh33 dh) * a33)) 1
    have hc : toReal (F64.div mh13 dh) * a13 + (toReal (F64.div (F64.neg mh52) dh) * a52 + toReal (F64.div mh33 dh) * a33) = a13 * toReal (F64.div mh13 dh) + (a52 * toReal (F64.div (F64.neg mh52) dh) + a33 * toReal (F64.div mh33 dh)) := by ring
    rw [← hc] at hp
    show |toReal (fmadd fm (F64.div mh13 dh) m.r1.z (fmadd fm (F64.div (F64.neg mh52) dh) m.r2.z (F64.mul (F64.div mh33 dh) m.r3.z))) - 1| ≤ 1 / 10000
    linarith

end F64

/-! GENERATED from Proofs/F32Invert.lean by run/gen64proofs.py (binary64 instance of the same proof). -/
