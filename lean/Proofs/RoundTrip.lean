import Proofs.PowRel
import Mathlib.Analysis.Convex.SpecificFunctions.Basic
/-! Real-number core of the gamma -> linear -> gamma round trip of a power-law curve (C10). -/
namespace RoundTrip
open Real

/-- `(1 + e)^p` for `0 ≤ p ≤ 1` and small `e`: within `1.002 p ρ` of 1 -/
theorem rpow_near_one (e p ρ : ℝ) (he : |e| ≤ ρ) (hρ : ρ ≤ 1 / 1000) (hp0 : 0 ≤ p) (hp1 : p ≤ 1) :
    |(1 + e) ^ p - 1| ≤ (1002 / 1000) * p * ρ := by
  obtain ⟨e1, e2⟩ := abs_le.mp he
  have hρ0 : 0 ≤ ρ := le_trans (abs_nonneg e) he
  have ha : 0 < 1 + e := by linarith
  have hup := _root_.rpow_one_add_le_one_add_mul_self (s := e) (by linarith) hp0 hp1
  -- lower bound through the inverse
  set s := -e / (1 + e) with hs
  have hs1 : 1 + s = (1 + e)⁻¹ := by rw [hs]; field_simp; ring
  have hsge : -1 ≤ s := by
    have : 0 < 1 + s := by rw [hs1]; positivity
    linarith
  have hlow := _root_.rpow_one_add_le_one_add_mul_self (s := s) hsge hp0 hp1
  rw [hs1, Real.inv_rpow ha.le] at hlow
  have hpw : 0 < (1 + e) ^ p := Real.rpow_pos_of_pos ha p
  have hsb : s ≤ (1002 / 1000) * ρ := by
    rw [hs, div_le_iff₀ ha]
    have : ρ * ρ ≤ ρ * (1 / 1000) := mul_le_mul_of_nonneg_left hρ hρ0
    nlinarith
  have hps : p * s ≤ (1002 / 1000) * p * ρ := by nlinarith
  -- ((1+e)^p)⁻¹ ≤ 1 + p s  ⇒ (1+e)^p ≥ 1 / (1 + p s) ≥ 1 - p s
  have h1ps : 0 < 1 + p * s := lt_of_lt_of_le (inv_pos.mpr hpw) hlow
  have hge : 1 - p * s ≤ (1 + e) ^ p := by
    have h3 : 1 ≤ (1 + e) ^ p * (1 + p * s) := by
      have := mul_le_mul_of_nonneg_left hlow hpw.le
      rw [mul_inv_cancel₀ hpw.ne'] at this; exact this
    by_cases hps0 : 0 ≤ p * s
    · nlinarith
    · have := not_le.mp hps0
      -- p s < 0: then (1+e)^p ≥ 1 ≥ ... need (1+e)^p (1+ps) ≥ 1 with 1+ps < 1
      nlinarith
  rw [abs_le]
  constructor
  · linarith
  · have : p * e ≤ p * ρ := mul_le_mul_of_nonneg_left e2 hp0
    nlinarith

/-- the round trip over the reals -/
theorem rt_real (X Y1 Y2 r1 r2 ρ1 ρ2 : ℝ) (hX0 : 0 < X) (hX1 : X ≤ 1) (hY1a : 2 ≤ Y1) (hY1b : Y1 ≤ 3)
    (hY2a : 35 / 100 ≤ Y2) (hY2b : Y2 ≤ 46 / 100) (hYY : |Y1 * Y2 - 1| ≤ 2 / 10 ^ 7)
    (hρ1a : 0 ≤ ρ1) (hρ1b : ρ1 ≤ 1 / 1000) (h1 : |r1 - X ^ Y1| ≤ ρ1 * X ^ Y1) (hρ2 : 0 ≤ ρ2) (hρ2b : ρ2 ≤ 1 / 1000)
    (h2 : |r2 - r1 ^ Y2| ≤ ρ2 * r1 ^ Y2) :
    |r2 - X| ≤ (ρ2 * (1 + (1002 / 1000) * Y2 * ρ1) + (1002 / 1000) * Y2 * ρ1) * (X + 3 / 10 ^ 7) + 3 / 10 ^ 7 := by
  set v := X ^ Y1 with hv
  have hvpos : 0 < v := Real.rpow_pos_of_pos hX0 Y1
  set e := r1 / v - 1 with he
  have hr1 : r1 = v * (1 + e) := by rw [he]; field_simp; ring
  have hea : |e| ≤ ρ1 := by
    have : e = (r1 - v) / v := by rw [he]; field_simp
    rw [this, abs_div, abs_of_pos hvpos, div_le_iff₀ hvpos]; exact h1
  obtain ⟨e1, e2⟩ := abs_le.mp hea
  have h1e : 0 < 1 + e := by linarith
  -- r1^Y2 = X^(Y1 Y2) (1+e)^Y2
  have hsplit : r1 ^ Y2 = X ^ (Y1 * Y2) * (1 + e) ^ Y2 := by
    rw [hr1, Real.mul_rpow hvpos.le h1e.le, hv, ← Real.rpow_mul hX0.le]
  set w := X ^ (Y1 * Y2) with hw
  have hwpos : 0 < w := Real.rpow_pos_of_pos hX0 _
  have hnear := rpow_near_one e Y2 ρ1 hea hρ1b (by linarith) (by linarith)
  set κ := (1002 / 1000) * Y2 * ρ1 with hκ
  have hκ0 : 0 ≤ κ := by rw [hκ]; positivity
  set a := (1 + e) ^ Y2 with ha
  obtain ⟨n1, n2⟩ := abs_le.mp hnear
  -- w against X
  obtain ⟨y1, y2⟩ := abs_le.mp hYY
  have hwX : |w - X| ≤ 3 / 10 ^ 7 := by
    have hX1' : X = X ^ (1:ℝ) := (Real.rpow_one X).symm
    by_cases hc : 1 ≤ Y1 * Y2
    · have := PowCurve.rpow_exponent_pert X (Y1 * Y2) 1 hX0.le hX1 (by norm_num) hc
      rw [← hX1'] at this
      refine le_trans this ?_
      rw [div_one]; linarith
    · have hc' := le_of_lt (not_le.mp hc)
      have hpos : 0 < Y1 * Y2 := by nlinarith
      have := PowCurve.rpow_exponent_pert X 1 (Y1 * Y2) hX0.le hX1 hpos hc'
      rw [← hX1', abs_sub_comm] at this
      refine le_trans this ?_
      rw [div_le_iff₀ hpos]; nlinarith
  obtain ⟨w1, w2⟩ := abs_le.mp hwX
  -- assemble
  rw [hsplit] at h2
  obtain ⟨q1, q2⟩ := abs_le.mp h2
  have hwa0 : 0 ≤ w * a := by
    have : 0 < a := by rw [ha]; exact Real.rpow_pos_of_pos h1e _
    positivity
  have hwa1 : w * a ≤ w * (1 + κ) := mul_le_mul_of_nonneg_left (by linarith) hwpos.le
  have hwa2 : w * (1 - κ) ≤ w * a := mul_le_mul_of_nonneg_left (by linarith) hwpos.le
  have hwle : w ≤ X + 3 / 10 ^ 7 := by linarith
  have hρ2wa : ρ2 * (w * a) ≤ ρ2 * (w * (1 + κ)) := mul_le_mul_of_nonneg_left hwa1 hρ2
  rw [abs_le]
  constructor
  · nlinarith
  · nlinarith

end RoundTrip
