import Proofs.Decode
/-! The invariant `Yuv::new` establishes (after the D2 repair) and what it gives the decode loop. -/
namespace FrameP
open FrameM Mat32 ColorM

/-- invariant of every constructed `Yuv`: chroma planes have the subsampled size, luma dims are multiples, buffers cover -/
structure InvYuv (g : Yuv) : Prop where
  wdiv : g.y.cfg.width % 2 ^ g.cfg.ssx = 0
  hdiv : g.y.cfg.height % 2 ^ g.cfg.ssy = 0
  uw : g.u.cfg.width = g.y.cfg.width >>> g.cfg.ssx
  uh : g.u.cfg.height = g.y.cfg.height >>> g.cfg.ssy
  vw : g.v.cfg.width = g.y.cfg.width >>> g.cfg.ssx
  vh : g.v.cfg.height = g.y.cfg.height >>> g.cfg.ssy
  cy : g.y.covers = true
  cu : g.u.covers = true
  cv : g.v.covers = true

theorem shr_lt (w x s : Nat) (hd : w % 2 ^ s = 0) (hx : x < w) : x >>> s < w >>> s := by
  rw [Nat.shiftRight_eq_div_pow, Nat.shiftRight_eq_div_pow]
  have hp : 0 < 2 ^ s := Nat.pow_pos (by decide)
  rw [Nat.div_lt_iff_lt_mul hp]
  have := Nat.div_add_mod w (2 ^ s)
  rw [hd, Nat.add_zero, Nat.mul_comm] at this
  omega

/-- what `Yuv::new` checks implies the invariant (the `cfg` stored is the resolved one: same subsampling) -/
theorem inv_of_new (y u v : Plane) (cfg : Cfg) (ts : Nat) (g : Yuv) (hg : Yuv.new y u v cfg ts = .ok (.ok g)) : InvYuv g := by
  unfold Yuv.new at hg
  dsimp only at hg
  split at hg; · simp at hg
  split at hg; · simp at hg
  split at hg; · simp at hg
  split at hg; · simp at hg
  split at hg; · simp at hg
  rename_i h1 h2 h3 h4 h5
  have hc : y.covers = true ∧ u.covers = true ∧ v.covers = true := by
    cases hy : y.covers <;> cases hu : u.covers <;> cases hv : v.covers <;> simp_all
  have key : g = { y, u, v, cfg := cfg.fixUnspecified y.cfg.width y.cfg.height, ts } := by
    repeat' split at hg
    all_goals (first | (simp at hg; done) | skip)
    all_goals (simp at hg; exact hg.symm)
  subst key
  exact ⟨by simp [Cfg.fixUnspecified]; omega, by simp [Cfg.fixUnspecified]; omega, by simp [Cfg.fixUnspecified]; omega, by simp [Cfg.fixUnspecified]; omega,
    by simp [Cfg.fixUnspecified]; omega, by simp [Cfg.fixUnspecified]; omega, hc.1, hc.2.1, hc.2.2⟩

theorem rowOk_of_inv (g : Yuv) (hi : InvYuv g) (yy : Nat) (hyy : yy < g.y.cfg.height) :
    RowOk g.y g.u g.v g.y.cfg.width g.cfg.ssx g.cfg.ssy yy := by
  intro x hx
  have hcx := shr_lt _ x _ hi.wdiv hx
  have hcy := shr_lt _ yy _ hi.hdiv hyy
  refine ⟨?_, ?_, ?_⟩
  · rw [← index_eq]; exact covers_index _ hi.cy x yy hx hyy
  · rw [← index_eq]; exact covers_index _ hi.cu _ _ (by rw [hi.uw]; exact hcx) (by rw [hi.uh]; exact hcy)
  · rw [← index_eq]; exact covers_index _ hi.cv _ _ (by rw [hi.vw]; exact hcx) (by rw [hi.vh]; exact hcy)

/-- the allocation size `width * height` of an accepted luma plane does not wrap -/
theorem area_fits (p : Plane) (hc : p.covers = true) : p.cfg.width * p.cfg.height ≤ USIZE_MAX := by
  unfold Plane.covers at hc
  simp only [Bool.and_eq_true, decide_eq_true_eq] at hc
  exact hc.1

theorem origin_le (p : Plane) (hc : p.covers = true) : ¬ p.origin > p.data.size := by
  unfold Plane.covers at hc
  unfold Plane.origin Plane.index
  simp only [Bool.and_eq_true, decide_eq_true_eq] at hc
  replace hc := hc.2
  have : (0 + p.cfg.yorigin) * p.cfg.stride ≤ (p.cfg.yorigin + (if p.cfg.width = 0 ∨ p.cfg.height = 0 then 0 else p.cfg.height - 1)) * p.cfg.stride :=
    Nat.mul_le_mul_right _ (by omega)
  omega

/-- the per-sample normalisation `ycbcr_to_ypbpr` applies -/
def normPx (c : Cfg) (a b cc : Nat) : V3 :=
  ⟨toF32Luma a (scaleOffset true c.bd c.full false).1 (scaleOffset true c.bd c.full false).2,
   toF32Chroma b (scaleOffset true c.bd c.full true).1 (scaleOffset true c.bd c.full true).2,
   toF32Chroma cc (scaleOffset true c.bd c.full true).1 (scaleOffset true c.bd c.full true).2⟩

/-- **decode is safe and pointwise**: for every image satisfying the constructor's invariant - any size, stride, padding,
subsampling - `ycbcr_to_ypbpr` returns (no UB, no panic) an array of `w*h` pixels in row-major order whose pixel (x,y) is
the normalisation of `Y(x,y)`, `U(x>>ss_x, y>>ss_y)`, `V(x>>ss_x, y>>ss_y)`: logical samples only. -/
theorem decode_spec (g : Yuv) (hi : InvYuv g) :
    ∃ out, ycbcrToYpbpr g = .ok out ∧ out.size = g.y.cfg.width * g.y.cfg.height ∧
      ∀ x yy, x < g.y.cfg.width → yy < g.y.cfg.height →
        out[yy * g.y.cfg.width + x]? = some (pixelOf g.y g.u g.v g.cfg.ssx g.cfg.ssy (normPx g.cfg) x yy) := by
  unfold ycbcrToYpbpr
  have ho : ¬ (g.y.origin > g.y.data.size ∨ g.u.origin > g.u.data.size ∨ g.v.origin > g.v.data.size) := by
    have := origin_le _ hi.cy; have := origin_le _ hi.cu; have := origin_le _ hi.cv; omega
  simp only [ho, if_false]
  rw [Nat.mod_eq_of_lt (Nat.lt_succ_of_le (area_fits _ hi.cy))]
  obtain ⟨out, e, s, _, hnew⟩ := decRows_spec g.y g.u g.v g.y.cfg.width g.y.cfg.height g.cfg.ssx g.cfg.ssy (normPx g.cfg)
    (fun yy hyy => rowOk_of_inv g hi yy hyy) g.y.cfg.height (Array.replicate (g.y.cfg.width * g.y.cfg.height) ⟨0, 0, 0⟩) (Nat.le_refl _) (by simp)
  exact ⟨out, e, s, fun x yy hx hy => hnew x yy hx (by omega) hy⟩

end FrameP
