import Proofs.Exp2Top
/-! `exp2` on `[-0.24, 0.01]` (the fractional part stays in the well-approximated zone): relative error 1.82e-5. -/
namespace Exp2
open F32 MathM Real PolyCert ExpPoly Horner

theorem cert_mid_edge : closeCells PcQ twoT (175 / 10000000) (-1 / 4 - 1 / 1024) (1 / 1024) 1 = true := by decide +kernel
theorem cert_mid : closeCells PcQ twoT (175 / 10000000) (-1 / 4) (1 / 64) 17 = true := by decide +kernel
theorem cert_horner_mid : hornerOk (27 / 100) Pc = true ∧ (hornerBnd (27 / 100) Pc).2 ≤ 10 / 10 ^ 8 := by decide +kernel

theorem poly_close_mid (f : ℝ) (h1 : -1 / 4 - 1 / 1024 ≤ f) (h2 : f ≤ 1 / 64) :
    |evalR PcQ f - (2:ℝ) ^ f| ≤ (176 / 10 ^ 7) * (2:ℝ) ^ f := by
  have hpos : 0 < (2:ℝ) ^ f := Real.rpow_pos_of_pos (by norm_num) f
  have key : |evalR PcQ f - (2:ℝ) ^ f| ≤ (((175 / 10000000 : ℚ) : ℝ) + 3 / 10 ^ 9) * (2:ℝ) ^ f := by
    apply two_pow_close PcQ _ f (by rw [abs_le]; constructor <;> linarith) (by push_cast; norm_num) (by push_cast; norm_num)
    by_cases hf2 : f ≤ -1 / 4
    · exact closeCells_sound _ _ _ _ _ 1 (by norm_num) (by norm_num) cert_mid_edge f (by push_cast; linarith) (by push_cast; linarith)
    · exact closeCells_sound _ _ _ _ _ 17 (by norm_num) (by norm_num) cert_mid f (by push_cast; linarith) (by push_cast; linarith)
  refine le_trans key ?_
  apply mul_le_mul_of_nonneg_right _ hpos.le
  push_cast; norm_num

theorem two_pow_lower_mid (f : ℝ) (h : -27 / 100 ≤ f) : 8 / 10 ≤ (2:ℝ) ^ f := by
  rw [Real.rpow_def_of_pos (by norm_num : (0:ℝ) < 2)]
  have h1 := Real.add_one_le_exp (Real.log 2 * f)
  have hl1 : Real.log 2 ≤ 0.6931471808 := Real.log_two_lt_d9.le
  have hl0 : 0 ≤ Real.log 2 := Real.log_nonneg (by norm_num)
  by_cases hf : 0 ≤ f
  · have : 0 ≤ Real.log 2 * f := mul_nonneg hl0 hf
    linarith
  · have hf' : f < 0 := not_le.mp hf
    have : Real.log 2 * f ≥ 0.6931471808 * f := by nlinarith
    nlinarith

/-- **`exp2` on `[-0.24, 0.01]`**: within relative 1.82e-5 of `2^x` -/
theorem exp2_mid (fm : Bool) (x : Nat) (hx : Finite x) (h0 : -24 / 100 ≤ toReal x) (h1 : toReal x ≤ 1 / 100) :
    ∃ r, exp2 fm x = .ok r ∧ Finite r ∧ |toReal r - (2:ℝ) ^ (toReal x)| ≤ (182 / 10 ^ 7) * (2:ℝ) ^ (toReal x) := by
  have h : |toReal x| ≤ 124 := by rw [abs_le]; constructor <;> linarith
  obtain ⟨i, s, hi, hs, t1, t2, t3⟩ := ipart_spec x hx h
  obtain ⟨s1, s2⟩ := abs_le.mp hs
  have hsabs : |s| < 1 := by rw [abs_lt]; constructor <;> linarith
  have hiabs : |(i:ℝ)| < 1 := lt_of_le_of_lt t2 hsabs
  have hi0 : i = 0 := by
    obtain ⟨a, b⟩ := abs_lt.mp hiabs
    have a' : (-1:ℤ) < i := by exact_mod_cast a
    have b' : i < (1:ℤ) := by exact_mod_cast b
    omega
  subst hi0
  obtain ⟨fc, vc⟩ := clamp_id x hx h
  obtain ⟨c1, c2⟩ := cert_horner_mid
  have hE : (((hornerBnd (27 / 100) Pc).2 : ℚ) : ℝ) ≤ (13 / 10 ^ 8) * (8 / 10) := by
    have : (((hornerBnd (27 / 100) Pc).2 : ℚ) : ℝ) ≤ ((10 / 10 ^ 8 : ℚ) : ℝ) := by exact_mod_cast c2
    refine le_trans this ?_; push_cast; norm_num
  have hd : |toReal (exp2Clamp x) - ((0:ℤ):ℝ)| ≤ ((27 / 100 : ℚ) : ℝ) - 1 / 1000 := by
    rw [vc]; push_cast; rw [abs_le]; constructor <;> linarith
  obtain ⟨fr, er⟩ := exp2Val_close fm (exp2Clamp x) 0 (27 / 100) (176 / 10 ^ 7) (13 / 10 ^ 8) (8 / 10) fc (by norm_num) (by norm_num)
    (by rw [vc]; linarith) hd (by push_cast; norm_num) c1 hE
    (by
      intro f hf
      rw [vc] at hf
      push_cast at hf
      obtain ⟨f1, f2⟩ := abs_le.mp hf
      exact ⟨two_pow_lower_mid f (by linarith), poly_close_mid f (by linarith) (by linarith)⟩)
    (by norm_num) (by norm_num) (by norm_num) (by norm_num) (by norm_num)
  refine ⟨_, exp2_eq fm x 0 hi, fr, ?_⟩
  rw [vc] at er
  refine le_trans er ?_
  apply mul_le_mul_of_nonneg_right _ (Real.rpow_pos_of_pos (by norm_num) _).le
  norm_num

end Exp2
