import Proofs.Encode
/-! `ypbpr_to_ycbcr` as a whole: rows, initial state, the final `Yuv::new(...).unwrap()`. -/
namespace FrameP
open FrameM Mat32 ColorM

section
variable (inp : Array V3) (w h ssx ssy : Nat) (fl fc : Nat → Nat) (yB uB vB : Plane)

theorem encInv_next_row (st : EncSt) (yy : Nat) (hi : EncInv inp w h ssx ssy fl fc yB uB vB st yy w) :
    EncInv inp w h ssx ssy fl fc yB uB vB st (yy + 1) 0 := by
  have hd : ∀ x' y', x' < w → (Done yy w x' y' ↔ Done (yy + 1) 0 x' y') := by intro x' y' hx; unfold Done; omega
  refine ⟨hi.gy, hi.gu, hi.gv, ?_, ?_, ?_⟩
  · intro x' y' hx' hy' hdn; exact hi.luma x' y' hx' hy' ((hd x' y' hx').mpr hdn)
  · intro cx cy hcx hcy ⟨x', y', a, b, c, d⟩
    obtain ⟨x'', y'', a', b', c', d', e, f⟩ := hi.chroma cx cy hcx hcy ⟨x', y', a, b, (hd x' y' a).mpr c, d⟩
    exact ⟨x'', y'', a', b', (hd x'' y'' a').mp c', d', e, f⟩
  · intro cx cy hcx hcy hl
    obtain ⟨x', y', a, b, c, d⟩ := hi.last cx cy hcx hcy hl
    exact ⟨x', y', a, b, (hd x' y' a).mp c, d⟩

theorem encRows_spec (hc : EncCtx inp w h ssx ssy yB uB vB) :
    ∀ k st, k ≤ h → EncInv inp w h ssx ssy fl fc yB uB vB st (h - k) 0 →
    ∃ st', encRows inp w h ssx ssy fl fc k st = .ok st' ∧ EncInv inp w h ssx ssy fl fc yB uB vB st' h 0 := by
  intro k
  induction k with
  | zero => intro st _ hi; exact ⟨st, rfl, by simpa using hi⟩
  | succ k ih =>
    intro st hk hi
    have hy : h - (k+1) < h := by omega
    obtain ⟨s1, e1, i1⟩ := encRow_spec inp w h ssx ssy fl fc yB uB vB hc _ hy w st (Nat.le_refl _) (by simpa using hi)
    unfold encRows
    rw [e1]
    have := encInv_next_row inp w h ssx ssy fl fc yB uB vB s1 _ i1
    have hk' : h - (k+1) + 1 = h - k := by omega
    rw [hk'] at this
    exact ih s1 (by omega) this

theorem encInv_init (hc : EncCtx inp w h ssx ssy yB uB vB) :
    EncInv inp w h ssx ssy fl fc yB uB vB { yP := yB, uP := uB, vP := vB, last := USIZE_MAX } 0 0 := by
  refine ⟨Geom.refl _, Geom.refl _, Geom.refl _, ?_, ?_, ?_⟩
  · intro x' y' _ _ hd; unfold Done at hd; omega
  · intro cx cy _ _ ⟨x', y', _, _, hd, _⟩; unfold Done at hd; omega
  · intro cx cy hcx hcy hl
    exfalso
    have := covers_index uB hc.cu cx cy (by rw [hc.huw]; exact hcx) (by rw [hc.huh]; exact hcy)
    rw [index_eq] at this
    have := hc.fits
    simp only at hl
    omega
end

theorem clampNat_le (x hi : Nat) : clampNat x 0 hi ≤ hi := by unfold clampNat; split <;> (try split) <;> omega

theorem maxCode_ok : ∀ bd, bd < 16 → (2 ^ bd - 1) % 65536 ≤ 65535 / 2 ^ (16 - bd) := by decide

theorem fromF32Luma_le (ts v s o bd : Nat) : fromF32Luma ts v s o bd ≤ (2 ^ bd - 1) % 65536 := by
  unfold fromF32Luma
  have := clampNat_le (F32.toU16Sat (F32.round (F32.fma v s o))) ((2 ^ bd - 1) % 65536)
  split
  · exact Nat.le_trans (Nat.mod_le _ _) this
  · exact this

theorem fromF32Chroma_le (ts v s o bd : Nat) (full : Bool) : fromF32Chroma ts v s o bd full ≤ (2 ^ bd - 1) % 65536 := by
  unfold fromF32Chroma
  have := clampNat_le (F32.toU16Sat (F32.round (F32.fma v s o))) ((2 ^ bd - 1) % 65536)
  split
  · omega
  · split
    · exact Nat.le_trans (Nat.mod_le _ _) this
    · exact this

end FrameP

namespace FrameP
open FrameM Mat32 ColorM

theorem setU_cfg (p q : Plane) (pos v : Nat) (s : Site) (h : p.setU pos v s = .ok q) : q.cfg = p.cfg := by
  unfold Plane.setU at h; split at h
  · simp at h; subst h; rfl
  · simp at h

theorem encRow_cfg (inp : Array V3) (w ssx ssy : Nat) (fl fc : Nat → Nat) (yy : Nat) :
    ∀ k st st', encRow inp w ssx ssy fl fc yy k st = .ok st' → st'.yP.cfg = st.yP.cfg ∧ st'.uP.cfg = st.uP.cfg ∧ st'.vP.cfg = st.vP.cfg := by
  intro k
  induction k with
  | zero => intro st st' h; simp [encRow] at h; subst h; exact ⟨rfl, rfl, rfl⟩
  | succ k ih =>
    intro st st' h
    unfold encRow at h
    dsimp only at h
    split at h
    · split at h
      · simp at h
      · simp at h
      · rename_i y1 hy1
        have c1 := setU_cfg _ _ _ _ _ hy1
        split at h
        · split at h
          · simp at h
          · simp at h
          · rename_i u1 hu1
            have c2 := setU_cfg _ _ _ _ _ hu1
            split at h
            · simp at h
            · simp at h
            · rename_i v1 hv1
              have c3 := setU_cfg _ _ _ _ _ hv1
              have := ih _ _ h
              exact ⟨this.1.trans c1, this.2.1.trans c2, this.2.2.trans c3⟩
        · have := ih _ _ h
          exact ⟨this.1.trans c1, this.2.1, this.2.2⟩
    · simp at h

theorem encRows_cfg (inp : Array V3) (w h ssx ssy : Nat) (fl fc : Nat → Nat) :
    ∀ k st st', encRows inp w h ssx ssy fl fc k st = .ok st' → st'.yP.cfg = st.yP.cfg ∧ st'.uP.cfg = st.uP.cfg ∧ st'.vP.cfg = st.vP.cfg := by
  intro k
  induction k with
  | zero => intro st st' hh; simp [encRows] at hh; subst hh; exact ⟨rfl, rfl, rfl⟩
  | succ k ih =>
    intro st st' hh
    unfold encRows at hh
    split at hh
    · rename_i s1 h1
      have a := encRow_cfg inp w ssx ssy fl fc _ _ _ _ h1
      have b := ih _ _ hh
      exact ⟨b.1.trans a.1, b.2.1.trans a.2.1, b.2.2.trans a.2.2⟩
    · simp at hh
    · simp at hh

/-- whenever `ypbpr_to_ycbcr` returns, the luma plane has the requested dimensions and the chroma planes the subsampled ones -/
theorem ypbpr_dims (inp : Array V3) (w h : Nat) (cfg : Cfg) (ts : Nat) (y : Yuv) (hy : ypbprToYcbcr inp w h cfg ts = .ok y) :
    y.y.cfg.width = w ∧ y.y.cfg.height = h ∧ y.u.cfg.width = w >>> cfg.ssx ∧ y.u.cfg.height = h >>> cfg.ssy ∧
    y.v.cfg.width = w >>> cfg.ssx ∧ y.v.cfg.height = h >>> cfg.ssy := by
  unfold ypbprToYcbcr at hy
  dsimp only at hy
  split at hy
  · simp at hy
  · split at hy
    · simp at hy
    · simp at hy
    · rename_i st hst
      have hc := encRows_cfg _ _ _ _ _ _ _ _ _ _ hst
      split at hy
      · rename_i g hg
        simp at hy; subst hy
        have hv : g.y = st.yP ∧ g.u = st.uP ∧ g.v = st.vP := by
          unfold Yuv.new at hg
          dsimp only at hg
          repeat' split at hg
          all_goals (first | (simp at hg; done) | skip)
          all_goals (simp at hg; subst hg; exact ⟨rfl, rfl, rfl⟩)
        rw [hv.1, hv.2.1, hv.2.2, hc.1, hc.2.1, hc.2.2]
        exact ⟨rfl, rfl, rfl, rfl, rfl, rfl⟩
      · simp at hy
      · simp at hy
      · simp at hy

end FrameP
