import Proofs.Encode
/-! `ypbpr_to_ycbcr` as a whole: rows, initial state, the final `Yuv::new(...).unwrap()`. -/
namespace FrameP
open FrameM Mat32 ColorM

section
variable (inp : Array V3) (w h ssx ssy : Nat) (fl fc : Nat → Nat) (yB uB vB : Plane)

theorem encInv_next_row (st : EncSt) (yy : Nat) (hi : EncInv inp w h ssx ssy fl fc yB uB vB st yy w) :
    EncInv inp w h ssx ssy fl fc yB uB vB st (yy + 1) 0 := by
  have hd : ∀ x' y', x' < w → (Done yy w x' y' ↔ Done (yy + 1) 0 x' y') := by intro x' y' hx; unfold Done; omega
  refine ⟨hi.gy, hi.gu, hi.gv, ?_, ?_, ?_⟩
  · intro x' y' hx' hy' hdn; exact hi.luma x' y' hx' hy' ((hd x' y' hx').mpr hdn)
  · intro cx cy hcx hcy ⟨x', y', a, b, c, d⟩
    obtain ⟨x'', y'', a', b', c', d', e, f⟩ := hi.chroma cx cy hcx hcy ⟨x', y', a, b, (hd x' y' a).mpr c, d⟩
    exact ⟨x'', y'', a', b', (hd x'' y'' a').mp c', d', e, f⟩
  · intro cx cy hcx hcy hl
    obtain ⟨x', y', a, b, c, d⟩ := hi.last cx cy hcx hcy hl
    exact ⟨x', y', a, b, (hd x' y' a).mp c, d⟩

theorem encRows_spec (hc : EncCtx inp w h ssx ssy yB uB vB) :
    ∀ k st, k ≤ h → EncInv inp w h ssx ssy fl fc yB uB vB st (h - k) 0 →
    ∃ st', encRows inp w h ssx ssy fl fc k st = .ok st' ∧ EncInv inp w h ssx ssy fl fc yB uB vB st' h 0 := by
  intro k
  induction k with
  | zero => intro st _ hi; exact ⟨st, rfl, by simpa using hi⟩
  | succ k ih =>
    intro st hk hi
    have hy : h - (k+1) < h := by omega
    obtain ⟨s1, e1, i1⟩ := encRow_spec inp w h ssx ssy fl fc yB uB vB hc _ hy w st (Nat.le_refl _) (by simpa using hi)
    unfold encRows
    rw [e1]
    have := encInv_next_row inp w h ssx ssy fl fc yB uB vB s1 _ i1
    have hk' : h - (k+1) + 1 = h - k := by omega
    rw [hk'] at this
    exact ih s1 (by omega) this

theorem encInv_init (hc : EncCtx inp w h ssx ssy yB uB vB) :
    EncInv inp w h ssx ssy fl fc yB uB vB { yP := yB, uP := uB, vP := vB, last := USIZE_MAX } 0 0 := by
  refine ⟨Geom.refl _, Geom.refl _, Geom.refl _, ?_, ?_, ?_⟩
  · intro x' y' _ _ hd; unfold Done at hd; omega
  · intro cx cy _ _ ⟨x', y', _, _, hd, _⟩; unfold Done at hd; omega
  · intro cx cy hcx hcy hl
    exfalso
    have := covers_index uB hc.cu cx cy (by rw [hc.huw]; exact hcx) (by rw [hc.huh]; exact hcy)
    rw [index_eq] at this
    have := hc.fits
    simp only at hl
    omega
end

theorem clampNat_le (x hi : Nat) : clampNat x 0 hi ≤ hi := by unfold clampNat; split <;> (try split) <;> omega

theorem maxCode_ok : ∀ bd, bd < 16 → (2 ^ bd - 1) % 65536 ≤ 65535 / 2 ^ (16 - bd) := by decide

theorem fromF32Luma_le (ts v s o bd : Nat) : fromF32Luma ts v s o bd ≤ (2 ^ bd - 1) % 65536 := by
  unfold fromF32Luma
  have := clampNat_le (F32.toU16Sat (F32.round (F32.fma v s o))) ((2 ^ bd - 1) % 65536)
  split
  · exact Nat.le_trans (Nat.mod_le _ _) this
  · exact this

theorem fromF32Chroma_le (ts v s o bd : Nat) (full : Bool) : fromF32Chroma ts v s o bd full ≤ (2 ^ bd - 1) % 65536 := by
  unfold fromF32Chroma
  have := clampNat_le (F32.toU16Sat (F32.round (F32.fma v s o))) ((2 ^ bd - 1) % 65536)
  split
  · omega
  · split
    · exact Nat.le_trans (Nat.mod_le _ _) this
    · exact this

end FrameP
