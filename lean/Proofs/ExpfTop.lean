import Proofs.Expf
import Proofs.F32Top
/-! Overflow of `expf`: `expf(x) = +inf` for `89 ≤ x ≤ 1e38`. `exp2` of an argument at least 128 is clamped to `[128, 129]`,
its integer part is 127 or 128; with 128 the exponent-field construction `(ipart + 127) << 23` IS the bit pattern of
`+inf`, with 127 it is `2^127` and the polynomial factor is about 2. The second factor `exp2(frac)` is at least 1.25 when
the integer part of `LOG2_E * x` is exactly 128 (because then the fraction is at least 0.39), so the product exceeds
`2^128` and rounds to infinity (`F32.mul_over_pos`). -/
namespace Expf
open F32 MathM Real PolyCert ExpPoly Horner

theorem cert_clamp_hi : finiteB C.exp2_f1 = true ∧ ratOf C.exp2_f1 = 129 := by decide +kernel

theorem expi_inf : Exp2.expiBits 128 = infB false := by decide +kernel

/-- `2^f ≥ 1.998` just below 1 and above -/
theorem two_pow_near_two (f : ℝ) (h : 999 / 1000 ≤ f) : 1998 / 1000 ≤ (2:ℝ) ^ f := by
  have e : (2:ℝ) ^ f = 2 * (2:ℝ) ^ (f - 1) := by
    rw [Real.rpow_sub (by norm_num : (0:ℝ) < 2), Real.rpow_one]; ring
  rw [e, Real.rpow_def_of_pos (by norm_num : (0:ℝ) < 2)]
  have h1 := Real.add_one_le_exp (Real.log 2 * (f - 1))
  have hl1 : Real.log 2 ≤ 0.6931471808 := Real.log_two_lt_d9.le
  have hl0 : 0 ≤ Real.log 2 := Real.log_nonneg (by norm_num)
  by_cases hf : 1 ≤ f
  · have : 0 ≤ Real.log 2 * (f - 1) := mul_nonneg hl0 (by linarith)
    linarith
  · have hf' := (not_le.mp hf).le
    have : Real.log 2 * (f - 1) ≥ 0.6931471808 * (f - 1) := by nlinarith
    nlinarith

/-- `2^f ≥ 1 + 0.69 f` for `f ≥ 0` -/
theorem two_pow_lin (f : ℝ) (h : 0 ≤ f) : 1 + (69 / 100) * f ≤ (2:ℝ) ^ f := by
  rw [Real.rpow_def_of_pos (by norm_num : (0:ℝ) < 2)]
  have h1 := Real.add_one_le_exp (Real.log 2 * f)
  have hl0 : 0.6931471803 ≤ Real.log 2 := Real.log_two_gt_d9.le
  nlinarith

/-- assembling `exp2` from its integer part and polynomial factor, top of the range (pure case analysis) -/
theorem exp2_top_asm (i : Int) (Pb : Nat) (hPf : Finite Pb) (hi : i = 127 ∨ i = 128) (hP0 : 99 / 100 ≤ toReal Pb)
    (hP7 : i = 127 → 1997 / 1000 ≤ toReal Pb) :
    (mul (Exp2.expiBits i) Pb = infB false ∨
      (Finite (mul (Exp2.expiBits i) Pb) ∧ (2:ℝ) ^ (127:ℤ) * (199 / 100) ≤ toReal (mul (Exp2.expiBits i) Pb))) ∧
    (i = 128 → mul (Exp2.expiBits i) Pb = infB false) := by
  have hu' : u = 1 / 16777216 := u_val
  have he' : eta ≤ 1 / 10 ^ 40 := eta_le
  have key128 : i = 128 → mul (Exp2.expiBits i) Pb = infB false := by
    intro h8
    subst h8
    rw [expi_inf]
    exact mul_inf_pos _ hPf (by linarith)
  refine ⟨?_, key128⟩
  rcases hi with h7 | h8
  · subst h7
    have hP2 := hP7 rfl
    obtain ⟨hef, hev⟩ := Exp2.expi_val 127 (by norm_num) (by norm_num)
    have hev' : toReal (Exp2.expiBits 127) = (2:ℝ) ^ (127:ℤ) := hev
    have hef' : Finite (Exp2.expiBits 127) := hef
    have h127 : (0:ℝ) < (2:ℝ) ^ (127:ℤ) := by positivity
    by_cases hov : (2:ℝ) ^ (128:ℤ) ≤ toReal (Exp2.expiBits 127) * toReal Pb
    · left
      exact mul_over_pos _ _ hef' hPf (by rw [hev']; exact h127) (by linarith) hov
    · rcases mul_top_pos _ _ hef' hPf (by rw [hev']; exact h127) (by linarith) (not_le.mp hov) with hinf | ⟨hfin, herr⟩
      · left; exact hinf
      · right
        refine ⟨hfin, ?_⟩
        rw [hev'] at herr
        obtain ⟨r1, _⟩ := abs_le.mp herr
        have hprod : (2:ℝ) ^ (127:ℤ) * (1997 / 1000) ≤ (2:ℝ) ^ (127:ℤ) * toReal Pb := mul_le_mul_of_nonneg_left hP2 h127.le
        have hbig : (1:ℝ) ≤ (2:ℝ) ^ (127:ℤ) := by
          have : (2:ℝ) ^ (0:ℤ) ≤ (2:ℝ) ^ (127:ℤ) := zpow_le_zpow_right₀ (by norm_num) (by norm_num)
          simpa using this
        rw [hu'] at r1
        generalize (2:ℝ) ^ (127:ℤ) = W at *
        generalize toReal (mul (Exp2.expiBits 127) Pb) = R at *
        nlinarith
  · left; exact key128 h8

/-- the polynomial factor of `exp2` for a fractional part in `[0.4999, 1.5001]` -/
theorem poly_top (fm : Bool) (fb : Nat) (hff : Finite fb) (h1 : 4999 / 10000 - 1 / 10 ^ 6 ≤ toReal fb) (h2 : toReal fb ≤ 15001 / 10000 + 1 / 10 ^ 6) :
    Finite (hornerF fm fb Exp2.Pc) ∧ 99 / 100 ≤ toReal (hornerF fm fb Exp2.Pc) ∧
      (999 / 1000 ≤ toReal fb → 1997 / 1000 ≤ toReal (hornerF fm fb Exp2.Pc)) := by
  set fp := toReal fb with hfp
  have hfX : |fp| ≤ ((1502 / 1000 : ℚ) : ℝ) := by push_cast; rw [abs_le]; constructor <;> linarith
  obtain ⟨c1', c2'⟩ := Exp2.cert_horner
  obtain ⟨hhb, hhe⟩ := Horner.horner_err fm fb (1502 / 1000) ⟨hff, hfX⟩ Exp2.Pc c1'
  rw [← hfp] at hhe
  have hE : (((hornerBnd (1502 / 1000) Exp2.Pc).2 : ℚ) : ℝ) ≤ 52 / 10 ^ 8 := by
    have := (Rat.cast_le (K := ℝ)).mpr c2'; push_cast at this; exact this
  have hpc := Exp2.poly_close_all fp (by linarith) (by linarith)
  have hPQ : evalR (Exp2.Pc.map ratOf) fp = evalR Exp2.PcQ fp := rfl
  rw [hPQ] at hhe
  obtain ⟨p1, p2⟩ := abs_le.mp hpc
  obtain ⟨q1, q2⟩ := abs_le.mp (le_trans hhe hE)
  have hT1 : 1 ≤ (2:ℝ) ^ fp := Real.one_le_rpow (by norm_num) (by linarith)
  refine ⟨hhb.1, by linarith, ?_⟩
  intro h9
  have hT2 : 1998 / 1000 ≤ (2:ℝ) ^ fp := two_pow_near_two fp h9
  linarith

/-- **`exp2` of an argument at least 128**: `+inf`, or a finite value of at least `1.99 * 2^127`; always `+inf` from 129 on -/
theorem exp2_top (fm : Bool) (x : Nat) (hx : Finite x) (h : 128 ≤ toReal x) :
    ∃ A, exp2 fm x = .ok A ∧ (A = infB false ∨ (Finite A ∧ (2:ℝ) ^ (127:ℤ) * (199 / 100) ≤ toReal A)) ∧
      (129 ≤ toReal x → A = infB false) := by
  obtain ⟨c1, c2, _, _, c5, c6, c7⟩ := Exp2.cert_clamp
  obtain ⟨d1, d2⟩ := cert_clamp_hi
  obtain ⟨flo, vlo⟩ := Exp2.rat_val _ c1
  obtain ⟨fhi, vhi⟩ := Exp2.rat_val _ d1
  obtain ⟨fh, vh⟩ := Exp2.rat_val _ c5
  have vh' : toReal C.exp2_f2 = 1 / 2 := by rw [vh, c6]; push_cast; ring
  have hlo : toReal (neg C.exp2_f0) ≤ -124 := by rw [vlo]; exact_mod_cast c2
  have hhi : toReal C.exp2_f1 = 129 := by rw [vhi, d2]; push_cast; ring
  have hu' : u = 1 / 16777216 := u_val
  have he' : eta ≤ 1 / 10 ^ 40 := eta_le
  set X := toReal x with hX
  -- the clamped value
  obtain ⟨hm1, hm2⟩ := max_val x (neg C.exp2_f0) hx flo
  have fmx : Finite (F32.max x (neg C.exp2_f0)) := by rcases hm1 with e | e <;> rw [e] <;> assumption
  have vmx : toReal (F32.max x (neg C.exp2_f0)) = X := by rw [hm2]; exact max_eq_left (by linarith)
  obtain ⟨hn1, hn2⟩ := min_val (F32.max x (neg C.exp2_f0)) C.exp2_f1 fmx fhi
  have fc : Finite (exp2Clamp x) := by unfold exp2Clamp; rcases hn1 with e | e <;> rw [e] <;> assumption
  have vc : toReal (exp2Clamp x) = min X 129 := by unfold exp2Clamp; rw [hn2, vmx, hhi]
  clear hm1 hm2 hn1 hn2 fmx vmx c1 c2 c5 c6 d1 d2 vlo vhi vh flo fhi hlo hhi
  set xc := toReal (exp2Clamp x) with hxc
  have hxc1 : 128 ≤ xc := by rw [vc]; exact le_min h (by norm_num)
  have hxc2 : xc ≤ 129 := by rw [vc]; exact min_le_right _ _
  have hxc3 : 129 ≤ X → xc = 129 := by intro h9; rw [vc]; exact min_eq_right h9
  -- the integer part
  obtain ⟨fs, es⟩ := sub_val (exp2Clamp x) C.exp2_f2 c7 fc fh (by rw [vh', ← hxc]; apply fit_small; rw [abs_le]; constructor <;> linarith)
  rw [vh', ← hxc] at es
  set s := toReal (sub (exp2Clamp x) C.exp2_f2) with hs
  have es' : |s - (xc - 1 / 2)| ≤ 1 / 10 ^ 5 := by
    refine le_trans es ?_
    have : |xc - 1 / 2| ≤ 129 := by rw [abs_le]; constructor <;> linarith
    rw [hu']; nlinarith
  obtain ⟨s1, s2⟩ := abs_le.mp es'
  obtain ⟨i, hi⟩ := Exp2.toI32_ok _ fs (by
    have : |s| ≤ 129 := by rw [abs_le]; constructor <;> linarith
    exact lt_of_le_of_lt this (by norm_num))
  obtain ⟨_, t1, t2, t3⟩ := Exp2.toI32_trunc _ i hi
  rw [← hs] at t1 t2 t3
  obtain ⟨u1, u2⟩ := abs_lt.mp t1
  have hs0 : 0 < s := by linarith
  have hi0 : 0 ≤ (i:ℝ) := by
    by_contra hc
    have := not_le.mp hc
    nlinarith
  rw [abs_of_nonneg hi0, abs_of_pos hs0] at t2
  have hi127 : 127 ≤ i := by
    have a1 : (126:ℝ) < (i:ℝ) := by linarith
    have b1 : (126:ℤ) < i := by exact_mod_cast a1
    omega
  have hi128 : i ≤ 128 := by
    have a1 : (i:ℝ) < 129 := by linarith
    have b1 : i < (129:ℤ) := by exact_mod_cast a1
    omega
  have hi9 : 129 ≤ X → i = 128 := by
    intro h9
    have := hxc3 h9
    have a1 : (127:ℝ) < (i:ℝ) := by linarith
    have b1 : (127:ℤ) < i := by exact_mod_cast a1
    omega
  refine ⟨_, Exp2.exp2_eq fm x i hi, ?_⟩
  rw [Exp2.exp2Val_eq]
  -- the fractional part and the polynomial factor
  obtain ⟨hfi, hvi⟩ := Exp2.ofInt_val i (by omega)
  have hwi : WF (ofInt i) := by
    unfold ofInt; split
    · unfold WF; omega
    · exact roundPack_wf _ _ _
  have hiR1 : (127:ℝ) ≤ (i:ℝ) := by exact_mod_cast hi127
  have hiR2 : (i:ℝ) ≤ 128 := by exact_mod_cast hi128
  obtain ⟨hff, hfe⟩ := sub_val (exp2Clamp x) (ofInt i) hwi fc hfi (by rw [hvi, ← hxc]; apply fit_small; rw [abs_le]; constructor <;> linarith)
  rw [hvi, ← hxc] at hfe
  set fp := toReal (sub (exp2Clamp x) (ofInt i)) with hfp
  have hd1 : 4999 / 10000 ≤ xc - (i:ℝ) := by linarith
  have hd2 : xc - (i:ℝ) ≤ 15001 / 10000 := by linarith
  have hfe' : |fp - (xc - (i:ℝ))| ≤ 1 / 10 ^ 6 := by
    refine le_trans hfe ?_
    have : |xc - (i:ℝ)| ≤ 2 := by rw [abs_le]; constructor <;> linarith
    rw [hu']; nlinarith
  obtain ⟨f1, f2⟩ := abs_le.mp hfe'
  obtain ⟨hPf, hP0, hP7⟩ := poly_top fm (sub (exp2Clamp x) (ofInt i)) hff (by rw [← hfp]; linarith) (by rw [← hfp]; linarith)
  obtain ⟨r1, r2⟩ := exp2_top_asm i _ hPf (by omega) hP0 (by
    intro h7
    apply hP7
    rw [← hfp]
    have : (i:ℝ) = 127 := by rw [h7]; norm_num
    linarith)
  exact ⟨r1, fun h9 => r2 (hi9 h9)⟩

/-- **`expf` overflows to `+inf`** for every finite `x` with `89 ≤ x ≤ 1e38` -/
theorem expf_hi (fm : Bool) (x : Nat) (hx : Finite x) (h1 : 89 ≤ toReal x) (h2 : toReal x ≤ (10:ℝ) ^ 38) :
    expfFast fm x = .ok (infB false) := by
  have hu' : u = 1 / 16777216 := u_val
  have he' : eta ≤ 1 / 10 ^ 40 := eta_le
  obtain ⟨c1, c2, c3⟩ := cert_log2e
  obtain ⟨cf, cv⟩ := Exp2.rat_val _ c1
  have hc1 : (1.4426950216:ℝ) ≤ toReal LOG2_E := by
    rw [cv]; have := (Rat.cast_le (K := ℝ)).mpr c2; push_cast at this; norm_num at this ⊢; linarith
  have hc2 : toReal LOG2_E ≤ (1.4426950217:ℝ) := by
    rw [cv]; have := (Rat.cast_le (K := ℝ)).mpr c3; push_cast at this; norm_num at this ⊢; linarith
  set c := toReal LOG2_E with hc
  set X := toReal x with hX
  have hXabs : |X| ≤ 10 ^ 38 := by rw [abs_le]; constructor <;> linarith
  have hcabs : |c| ≤ 3 / 2 := by rw [abs_le]; constructor <;> linarith
  obtain ⟨htb, hte⟩ := mul_bnd LOG2_E x (3 / 2) (10 ^ 38) ⟨cf, hcabs⟩ ⟨hx, hXabs⟩ (by norm_num)
  set t := toReal (mul LOG2_E x) with ht
  have hte2 : |t - c * X| ≤ u * |c * X| + eta := by
    obtain ⟨_, h⟩ := mul_bnd LOG2_E x |c| |X| ⟨cf, le_refl _⟩ ⟨hx, le_refl _⟩ (by
      have : |c| * |X| ≤ (3 / 2) * 10 ^ 38 := mul_le_mul hcabs hXabs (abs_nonneg _) (by norm_num)
      refine lt_of_le_of_lt this ?_; norm_num)
    rw [abs_mul]; exact h
  have hcX : 128.3998 ≤ c * X := by nlinarith
  have hcXpos : 0 < c * X := by linarith
  have htge : 128.39 ≤ t := by
    rw [abs_of_pos hcXpos] at hte2
    have := (abs_le.mp hte2).1
    rw [hu'] at this; nlinarith
  have htabs : |t| < (2:ℝ) ^ (127:ℤ) := by
    refine lt_of_le_of_lt htb.2 ?_; rw [hu']; norm_num; linarith
  -- floor
  obtain ⟨hff, n, hfv, hn1, hn2⟩ := FloorL.floor_val (mul LOG2_E x) htb.1
  have hfw : WF (floor (mul LOG2_E x)) := floor_wf _ (mul_wf _ _)
  have hn128 : (128:ℤ) ≤ n := by
    have : (127:ℝ) < (n:ℝ) := by linarith
    have h' : (127:ℤ) < n := by exact_mod_cast this
    omega
  have hn128R : (128:ℝ) ≤ (n:ℝ) := by exact_mod_cast hn128
  obtain ⟨A, hA, hAcase, hA9⟩ := exp2_top fm (floor (mul LOG2_E x)) hff (by rw [hfv]; exact hn128R)
  -- fractional part
  have hfit1 : |toReal (mul LOG2_E x) - toReal (floor (mul LOG2_E x))| < (2:ℝ) ^ (127:ℤ) := by
    rw [hfv]; apply fit_small; rw [abs_le]; constructor <;> linarith
  obtain ⟨hsf, hse⟩ := sub_val (mul LOG2_E x) (floor (mul LOG2_E x)) hfw htb.1 hff hfit1
  have hfr0 : 0 ≤ toReal (sub (mul LOG2_E x) (floor (mul LOG2_E x))) := by
    have := sub_ge (mul LOG2_E x) (floor (mul LOG2_E x)) 0 hfw htb.1 hff c_zero.1 hfit1
      (by rw [c_zero.2]; apply fit_small; norm_num) (by rw [c_zero.2, hfv]; linarith)
    rw [c_zero.2] at this; exact this
  have hfr1 : toReal (sub (mul LOG2_E x) (floor (mul LOG2_E x))) ≤ 1 := by
    have := sub_le (mul LOG2_E x) (floor (mul LOG2_E x)) 0x3f800000 hfw htb.1 hff c_one.1 hfit1
      (by rw [c_one.2]; apply fit_small; norm_num) (by rw [c_one.2, hfv]; linarith)
    rw [c_one.2] at this; exact this
  obtain ⟨B, hB, hBf, hBe⟩ := Exp2.exp2_frac fm (sub (mul LOG2_E x) (floor (mul LOG2_E x))) hsf hfr0 hfr1
  set fr := toReal (sub (mul LOG2_E x) (floor (mul LOG2_E x))) with hfr
  set T := (2:ℝ) ^ fr with hT
  have hT1 : 1 ≤ T := Real.one_le_rpow (by norm_num) hfr0
  obtain ⟨b1, _⟩ := abs_le.mp hBe
  have hBpos : 0 < toReal B := by nlinarith
  have hres : mul A B = infB false := by
    by_cases h9 : (129:ℤ) ≤ n
    · have : (129:ℝ) ≤ (n:ℝ) := by exact_mod_cast h9
      rw [hA9 (by rw [hfv]; exact this)]
      exact mul_inf_pos B hBf hBpos
    · have hn : n = 128 := by omega
      rcases hAcase with hinf | ⟨hAf, hAv⟩
      · rw [hinf]; exact mul_inf_pos B hBf hBpos
      · -- the fraction is at least 0.38, so the second factor is at least 1.25
        rw [hfv, hn] at hse
        push_cast at hse
        have hd : |t - 128| ≤ 1 := by
          rw [hn] at hn2; push_cast at hn2
          rw [abs_le]; constructor <;> linarith
        have hfr38 : 38 / 100 ≤ fr := by
          have := (abs_le.mp hse).1
          rw [hu'] at this; nlinarith
        have hT2 : 1 + (69 / 100) * fr ≤ T := two_pow_lin fr hfr0
        have hB125 : 125 / 100 ≤ toReal B := by nlinarith
        have h127 : (0:ℝ) < (2:ℝ) ^ (127:ℤ) := by positivity
        have hApos : 0 < toReal A := by nlinarith
        apply mul_over_pos A B hAf hBf hApos hBpos
        have e128 : (2:ℝ) ^ (128:ℤ) = 2 * (2:ℝ) ^ (127:ℤ) := by
          rw [show (128:ℤ) = 1 + 127 by norm_num, zpow_add₀ (by norm_num : (2:ℝ) ≠ 0)]; norm_num
        rw [e128]
        have : (2:ℝ) ^ (127:ℤ) * (199 / 100) * (125 / 100) ≤ toReal A * toReal B :=
          mul_le_mul hAv hB125 (by norm_num) hApos.le
        nlinarith
  unfold expfFast
  simp only [hA, hB, Out.bind, hres]

end Expf
