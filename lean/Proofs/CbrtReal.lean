import Proofs.Cbrt
import Mathlib.Analysis.SpecialFunctions.Pow.Real
/-! The real cube root used by the XYB specifications, perturbation bounds for it, and the link from "finite and not tiny"
to `Cbrt.Normal` (so that `Cbrt.cbrtf_close` applies to computed values). -/
namespace Cbrt
open Real

/-- cube root of `max 0 v` (the opsin law clamps negative mixes to 0) -/
noncomputable def cbrtR (v : ℝ) : ℝ := (max 0 v) ^ ((3:ℝ)⁻¹)

theorem cbrtR_nonneg (v : ℝ) : 0 ≤ cbrtR v := by unfold cbrtR; exact rpow_nonneg (le_max_left _ _) _

theorem cbrtR_cube (v : ℝ) : cbrtR v ^ 3 = max 0 v := by
  unfold cbrtR
  have := rpow_inv_natCast_pow (le_max_left 0 v) (by norm_num : (3:ℕ) ≠ 0)
  simpa using this

theorem cbrtR_cube_pos (v : ℝ) (h : 0 ≤ v) : cbrtR v ^ 3 = v := by rw [cbrtR_cube, max_eq_right h]

theorem cbrtR_nonpos (v : ℝ) (h : v ≤ 0) : cbrtR v = 0 := by
  have h3 := cbrtR_cube v
  rw [max_eq_left h] at h3
  exact pow_eq_zero_iff (by norm_num) |>.mp h3

theorem cbrtR_ge (v m : ℝ) (hm : 0 ≤ m) (h : m ^ 3 ≤ v) : m ≤ cbrtR v := by
  have hv : 0 ≤ v := le_trans (by positivity) h
  by_contra hc; push Not at hc
  have := cube_mono hc
  simp only at this
  rw [cbrtR_cube_pos v hv] at this
  linarith

theorem cbrtR_le (v M : ℝ) (hM : 0 ≤ M) (h : v ≤ M ^ 3) : cbrtR v ≤ M := by
  by_contra hc; push Not at hc
  have := cube_mono hc
  simp only at this
  rw [cbrtR_cube] at this
  have : max 0 v ≤ M ^ 3 := max_le (by positivity) h
  linarith

/-- perturbation of a cube root: `|p - q| ≤ |p³ - q³| / (3 m²)` when `p, q ≥ m > 0` -/
theorem cube_pert (p q m : ℝ) (hm : 0 < m) (hp : m ≤ p) (hq : m ≤ q) : |p - q| ≤ |p ^ 3 - q ^ 3| / (3 * m ^ 2) := by
  have hden : 0 < 3 * m ^ 2 := by positivity
  rw [le_div_iff₀ hden]
  have hfac : p ^ 3 - q ^ 3 = (p - q) * (p ^ 2 + p * q + q ^ 2) := by ring
  rw [hfac, abs_mul]
  have hs : 3 * m ^ 2 ≤ p ^ 2 + p * q + q ^ 2 := by nlinarith [mul_le_mul hp hq hm.le (by linarith : (0:ℝ) ≤ p)]
  have hs0 : 0 ≤ p ^ 2 + p * q + q ^ 2 := by linarith
  rw [abs_of_nonneg hs0]
  exact mul_le_mul_of_nonneg_left hs (abs_nonneg _)

/-- a finite, well-formed bit pattern whose magnitude is at least 2^-126 is normal -/
theorem normal_of_finite (x : Nat) (hw : F32.WF x) (hf : F32.Finite x) (hlo : (2:ℝ) ^ (-126:ℤ) ≤ |F32.toReal x|) : Normal x := by
  obtain ⟨s, k, f, hs, hk, hfr, rfl⟩ := F32.unpack x hw
  obtain ⟨n, m, e, hd⟩ := hf
  have hdp := F32.decode_pack s k f hs hk hfr
  rw [hd] at hdp
  refine ⟨s, k, f, hs, ?_, ?_, hfr, rfl⟩
  · by_contra hc
    have hk0 : k = 0 := by omega
    rw [hk0] at hdp
    simp only [show ¬ (0:ℕ) = 255 by norm_num, if_false, if_true] at hdp
    injection hdp with hn hm he
    rw [F32.toReal_of_decode _ _ _ _ hd, F32.abs_valR, hm, he] at hlo
    have h1 : (f:ℝ) < 8388608 := by exact_mod_cast hfr
    have h2 : (2:ℝ) ^ (-126:ℤ) = 8388608 * (2:ℝ) ^ (-149:ℤ) := by
      rw [show (8388608:ℝ) = (2:ℝ) ^ (23:ℤ) by norm_num, ← zpow_add₀ (by norm_num : (2:ℝ) ≠ 0)]; norm_num
    have hp : (0:ℝ) < (2:ℝ) ^ (-149:ℤ) := by positivity
    rw [h2] at hlo
    nlinarith
  · by_contra hc
    have hk255 : k = 255 := by omega
    rw [hk255] at hdp
    simp only [if_true] at hdp
    split at hdp <;> cases hdp

end Cbrt
