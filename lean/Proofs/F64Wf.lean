import Proofs.F64Core
namespace F64

theorem log2_bounds (m : Nat) (hm : m ≠ 0) : 2^(Nat.log2 m) ≤ m ∧ m < 2^(Nat.log2 m + 1) :=
  ⟨Nat.log2_self_le hm, Nat.lt_log2_self⟩

theorem roundMQ_q (m : Nat) (e : Int) : (roundMQ m e).2 = Max.max (e + ((Nat.log2 m + 1 : Nat) : Int) - 53) (-1074) := by
  unfold roundMQ; simp only [consts.1, consts.2.2.2.1]; split <;> simp

theorem roundMQ_wf (m : Nat) (e : Int) (hm : m ≠ 0) :
    -1074 ≤ (roundMQ m e).2 ∧ (roundMQ m e).1 ≤ 9007199254740992 ∧ ((roundMQ m e).1 < 4503599627370496 → (roundMQ m e).2 = -1074) := by
  obtain ⟨hlo, hhi⟩ := log2_bounds m hm
  unfold roundMQ
  simp only [consts.1, consts.2.2.2.1]
  generalize hnb : Nat.log2 m = L at *
  split <;> simp only []
  · next hq =>
    refine ⟨by omega, ?_, ?_⟩
    · have hk : (e - Max.max (e + ((L + 1 : Nat) : Int) - ((53 : Nat) : Int)) (-1074)).toNat + (L + 1) ≤ 53 := by omega
      generalize (e - Max.max (e + ((L + 1 : Nat) : Int) - ((53 : Nat) : Int)) (-1074)).toNat = k at *
      have : m * 2^k < 2^(L+1) * 2^k := Nat.mul_lt_mul_of_pos_right hhi (Nat.pow_pos (by decide))
      rw [← Nat.pow_add] at this
      have h2 : 2^(L+1+k) ≤ 2^53 := Nat.pow_le_pow_right (by decide) (by omega)
      have : (2:Nat)^53 = 9007199254740992 := by decide
      omega
    · intro hlt
      refine Classical.byContradiction fun hne => ?_
      have hq' : Max.max (e + ((L + 1 : Nat) : Int) - ((53 : Nat) : Int)) (-1074) = e + ((L + 1 : Nat) : Int) - ((53 : Nat) : Int) := by omega
      rw [hq'] at hlt hq
      have hk : (e - (e + ((L + 1 : Nat) : Int) - ((53 : Nat) : Int))).toNat = 52 - L := by omega
      rw [hk] at hlt
      have hL : L ≤ 52 := by omega
      have : 2^L * 2^(52-L) ≤ m * 2^(52-L) := Nat.mul_le_mul_right _ hlo
      rw [← Nat.pow_add] at this
      have h52 : L + (52 - L) = 52 := by omega
      rw [h52] at this
      have : (2:Nat)^52 = 4503599627370496 := by decide
      omega
  · next hq =>
    have hq : e < Max.max (e + ((L + 1 : Nat) : Int) - ((53 : Nat) : Int)) (-1074) := by omega
    refine ⟨by omega, ?_, ?_⟩
    · generalize hsh : (Max.max (e + ((L + 1 : Nat) : Int) - ((53 : Nat) : Int)) (-1074) - e).toNat = sh at *
      have hsh1 : L + 1 ≤ 53 + sh := by omega
      have hle := rne_le m sh
      have : m / 2^sh < 9007199254740992 := by
        apply Nat.div_lt_of_lt_mul
        have h1 : 2^(L+1) ≤ 2^(sh+53) := Nat.pow_le_pow_right (by decide) (by omega)
        have h2 : (2:Nat)^(sh+53) = 2^sh * 9007199254740992 := by rw [Nat.pow_add]
        omega
      omega
    · intro hlt
      refine Classical.byContradiction fun hne => ?_
      have hq' : Max.max (e + ((L + 1 : Nat) : Int) - ((53 : Nat) : Int)) (-1074) = e + ((L + 1 : Nat) : Int) - ((53 : Nat) : Int) := by omega
      rw [hq'] at hlt hq
      have hk : (e + ((L + 1 : Nat) : Int) - ((53 : Nat) : Int) - e).toNat = L - 52 := by omega
      rw [hk] at hlt
      have hL : 53 ≤ L := by omega
      have hge := rne_ge m (L - 52)
      have : 4503599627370496 ≤ m / 2^(L-52) := by
        rw [Nat.le_div_iff_mul_le (Nat.pow_pos (by decide))]
        have : (2:Nat)^52 * 2^(L-52) = 2^L := by rw [← Nat.pow_add]; congr 1; omega
        have h52 : (2:Nat)^52 = 4503599627370496 := by decide
        rw [← h52, this]; exact hlo
      omega

end F64

/-! GENERATED from Proofs/F32Wf.lean by run/gen64proofs.py (binary64 instance of the same proof). -/
