import Proofs.CbrtSeed
import Proofs.F32Div
import Mathlib.Algebra.Order.Ring.Basic
/-! `cbrtf_fast` is accurate on every normal binary32 argument (both signs): the result is finite and within relative
`2^-24 + 1e-11` of the real cube root (seed within 1/20, two double-precision Halley steps, one final rounding to binary32).
Kernel-checked (no native evaluation); the finite part is the 192-cell seed check of `CbrtSeed`. -/
namespace Cbrt
open Real

theorem cube_mono : StrictMono (fun x : ℝ => x ^ 3) := Odd.strictMono_pow (by decide : Odd 3)

theorem cube_between (w lo hi : ℝ) (h1 : lo ^ 3 ≤ w ^ 3) (h2 : w ^ 3 ≤ hi ^ 3) : lo ≤ w ∧ w ≤ hi := by
  constructor
  · by_contra h; push Not at h; exact absurd (cube_mono h) (not_lt.mpr h1)
  · by_contra h; push Not at h; exact absurd (cube_mono h) (not_lt.mpr h2)

/-- decoded binary32 fields: significand below 2^24, exponent in [-149, 104] -/
theorem decode_fin_bounds (a : Nat) (n : Bool) (m : Nat) (e : Int) (h : F32.decode a = .fin n m e) : m < 16777216 ∧ -149 ≤ e ∧ e ≤ 104 := by
  refine ⟨F32.decode_mant_lt a n m e h, ?_⟩
  unfold F32.decode at h
  simp only [F32.consts.2.2.1, F32.consts.2.2.2.2.2.1, F32.consts.2.2.2.1] at h
  have hk : a / 8388608 % (255 + 1) < 256 := Nat.mod_lt _ (by norm_num)
  split at h
  · split at h <;> cases h
  · split at h
    · injection h with _ _ he; omega
    · injection h with _ _ he; omega

/-- `f64::from(f32)` is exact -/
theorem f32to64_val (y : Nat) (hy : F32.Finite y) : F64.Finite (Conv.f32to64 y) ∧ F64.toReal (Conv.f32to64 y) = F32.toReal y := by
  obtain ⟨n, m, e, h⟩ := hy
  obtain ⟨hm, he1, he2⟩ := decode_fin_bounds y n m e h
  have hfit : (m:ℝ) * (2:ℝ) ^ e < (2:ℝ) ^ (1023:ℤ) := by
    have h1 : (m:ℝ) < (2:ℝ) ^ (24:ℤ) := by
      have : (m:ℝ) < 16777216 := by exact_mod_cast hm
      have e24 : (2:ℝ) ^ (24:ℤ) = 16777216 := by norm_num
      rw [e24]; exact this
    have h2 : (2:ℝ) ^ e ≤ (2:ℝ) ^ (104:ℤ) := zpow_le_zpow_right₀ (by norm_num) he2
    have h3 : (2:ℝ) ^ (24:ℤ) * (2:ℝ) ^ (104:ℤ) = (2:ℝ) ^ (128:ℤ) := by rw [← zpow_add₀ (by norm_num : (2:ℝ) ≠ 0)]; norm_num
    have h4 : (2:ℝ) ^ (128:ℤ) < (2:ℝ) ^ (1023:ℤ) := zpow_lt_zpow_right₀ (by norm_num) (by norm_num)
    have p1 : (0:ℝ) < (2:ℝ) ^ e := by positivity
    have p2 : (0:ℝ) ≤ (m:ℝ) := by positivity
    calc (m:ℝ) * (2:ℝ) ^ e ≤ (2:ℝ) ^ (24:ℤ) * (2:ℝ) ^ (104:ℤ) := mul_le_mul h1.le h2 p1.le (by positivity)
      _ = (2:ℝ) ^ (128:ℤ) := h3
      _ < _ := h4
  obtain ⟨m', e', hd, hv⟩ := F64.roundPack_exact n m e (by omega) (by omega) hfit
  have hconv : Conv.f32to64 y = F64.roundPack n m e := by unfold Conv.f32to64; rw [h]
  rw [hconv]
  refine ⟨⟨_, _, _, hd⟩, ?_⟩
  rw [F64.toReal_of_decode _ _ _ _ hd, F32.toReal_of_decode _ _ _ _ h]
  unfold F64.valR F32.valR
  rw [hv]

/-- the final `as f32` conversion: one binary32 rounding of the decoded double -/
theorem f64to32_val (t : Nat) (ht : F64.Finite t) (hfit : |F64.toReal t| < (2:ℝ) ^ (127:ℤ)) :
    F32.Finite (Conv.f64to32 t) ∧ |F32.toReal (Conv.f64to32 t) - F64.toReal t| ≤ F32.u * |F64.toReal t| + F32.eta := by
  obtain ⟨n, m, e, h⟩ := ht
  have hconv : Conv.f64to32 t = F32.roundPack n m e := by unfold Conv.f64to32; rw [h]
  have hval : F64.toReal t = F32.valR n m e := by rw [F64.toReal_of_decode _ _ _ _ h]; rfl
  rw [hval] at hfit ⊢
  rw [hconv]
  rw [F32.abs_valR] at hfit
  exact F32.round_val n m e hfit

/-- the seed is `c w` with `|w - 1| ≤ 1/20`, for every normal argument and either sign; `|c|` is in [2^-50, 2^50] -/
theorem seed_close (s E f x ui : Nat) (hs : s ≤ 1) (hE1 : 1 ≤ E) (hE2 : E ≤ 254) (hf : f < 8388608)
    (hx : x = s * 2147483648 + E * 8388608 + f)
    (hui : ui = (x / 2147483648 % 2) * 2147483648 + ((x % 2147483648) / C.cbrtf_fast_i1 + C.cbrtf_fast_B1_i0))
    (c : ℝ) (hc : c ^ 3 = F32.toReal x) :
    F32.Finite x ∧ F32.Finite ui ∧ ((2:ℝ) ^ (-50:ℤ) ≤ |c| ∧ |c| ≤ (2:ℝ) ^ (50:ℤ)) ∧ ∃ w, F32.toReal ui = c * w ∧ |w - 1| ≤ 1 / 20 := by
  have hdx : F32.decode x = .fin (decide (s = 1)) (f + 8388608) ((E:Int) + (-149 - 1)) := by
    rw [hx, F32.decode_pack s E f hs (by omega) hf]
    simp only [show ¬ E = 255 by omega, show ¬ E = 0 by omega, if_false]
  obtain ⟨m, e, hdu, hme, he, hm⟩ := seed_bits s E f x ui hs hE1 hE2 hf hx hui
  obtain ⟨a, b, hab, hb⟩ : ∃ a b, E = 3 * a + b ∧ b < 3 := ⟨E / 3, E % 3, by omega, by omega⟩
  have hEd : E / 3 = a := by omega
  have hEm : E % 3 = b := by omega
  rw [hEd, hEm] at hme
  obtain ⟨hn1, hn2⟩ := seed_nat b f hb hf
  obtain ⟨σ, hσ, hσ2⟩ : ∃ σ : ℝ, σ = (if decide (s = 1) then -1 else 1) ∧ σ * σ = 1 := ⟨_, rfl, by split <;> norm_num⟩
  have hX : F32.toReal x = σ * (((f + 8388608 : ℕ) : ℝ) * (2:ℝ) ^ ((E:Int) + (-149 - 1))) := by
    rw [F32.toReal_of_decode _ _ _ _ hdx, hσ]; rfl
  have hT : F32.toReal ui = σ * ((m:ℝ) * (2:ℝ) ^ e) := by
    rw [F32.toReal_of_decode _ _ _ _ hdu, hσ]; rfl
  obtain ⟨P, hP⟩ : ∃ P : ℝ, P = (2:ℝ) ^ ((3:ℤ) * (a:ℤ) - 198) := ⟨_, rfl⟩
  have hPpos : 0 < P := by rw [hP]; positivity
  obtain ⟨A, hA⟩ : ∃ A : ℕ, A = (8388608 + f) * 2 ^ (b + 48) := ⟨_, rfl⟩
  obtain ⟨M3, hM3⟩ : ∃ M3 : ℕ, M3 = (Mt b f) ^ 3 := ⟨_, rfl⟩
  have hn1' : (6859:ℝ) * A ≤ 8000 * M3 := by
    have : 6859 * A ≤ 8000 * M3 := by rw [hA, hM3, ← Nat.mul_assoc]; exact hn1
    exact_mod_cast this
  have hn2' : (8000:ℝ) * M3 ≤ 9261 * A := by
    have : 8000 * M3 ≤ 9261 * A := by rw [hA, hM3, ← Nat.mul_assoc]; exact hn2
    exact_mod_cast this
  have hApos : (0:ℝ) < A := by
    have : 0 < A := by rw [hA]; exact Nat.mul_pos (by omega) (Nat.pow_pos (by norm_num))
    exact_mod_cast this
  -- |x| = A P
  have hXa : ((f + 8388608 : ℕ) : ℝ) * (2:ℝ) ^ ((E:Int) + (-149 - 1)) = (A:ℝ) * P := by
    have e1 : (2:ℝ) ^ ((E:Int) + (-149 - 1)) = (2:ℝ) ^ (((b + 48 : ℕ)) : ℤ) * P := by
      rw [hP, ← zpow_add₀ (by norm_num : (2:ℝ) ≠ 0)]; congr 1; rw [hab]; push_cast; ring
    rw [e1, hA, zpow_natCast]; push_cast; ring
  -- seed magnitude: m 2^e = Mt 2^(a-66)
  have hTa : (m:ℝ) * (2:ℝ) ^ e = ((Mt b f : ℕ) : ℝ) * (2:ℝ) ^ ((a:ℤ) - 66) := by
    have hmeR : (m:ℝ) * (2:ℝ) ^ ((e + 150).toNat) = ((Mt b f : ℕ) : ℝ) * (2:ℝ) ^ (a + 84) := by exact_mod_cast hme
    have e1 : (2:ℝ) ^ ((e + 150).toNat) = (2:ℝ) ^ e * (2:ℝ) ^ (150:ℤ) := by
      rw [← zpow_natCast, ← zpow_add₀ (by norm_num : (2:ℝ) ≠ 0)]; congr 1; omega
    have e2 : (2:ℝ) ^ (a + 84) = (2:ℝ) ^ ((a:ℤ) - 66) * (2:ℝ) ^ (150:ℤ) := by
      rw [← zpow_natCast, ← zpow_add₀ (by norm_num : (2:ℝ) ≠ 0)]; congr 1; push_cast; ring
    rw [e1, e2] at hmeR
    have p150 : (2:ℝ) ^ (150:ℤ) ≠ 0 := by positivity
    have : ((m:ℝ) * (2:ℝ) ^ e) * (2:ℝ) ^ (150:ℤ) = (((Mt b f : ℕ) : ℝ) * (2:ℝ) ^ ((a:ℤ) - 66)) * (2:ℝ) ^ (150:ℤ) := by linarith
    exact mul_right_cancel₀ p150 this
  have hT3 : ((m:ℝ) * (2:ℝ) ^ e) ^ 3 = (M3:ℝ) * P := by
    rw [hTa, mul_pow, hM3, hP]; push_cast
    congr 1
    rw [← zpow_natCast ((2:ℝ) ^ ((a:ℤ) - 66)) 3, ← zpow_mul]; congr 1; push_cast; ring
  -- c is non-zero, w = T0 / c
  have hXne : F32.toReal x ≠ 0 := by
    rw [hX, hXa]
    have : σ ≠ 0 := by intro h; rw [h] at hσ2; norm_num at hσ2
    exact mul_ne_zero this (mul_ne_zero hApos.ne' hPpos.ne')
  have hc0 : c ≠ 0 := by intro h; rw [h] at hc; norm_num at hc; exact hXne hc.symm
  have hw3 : (F32.toReal ui / c) ^ 3 = (M3:ℝ) / A := by
    rw [div_pow, hc, hT, hX, hXa, mul_pow, hT3]
    have : σ ^ 3 = σ := by rw [pow_succ, pow_two, hσ2, one_mul]
    rw [this]
    have hσ0 : σ ≠ 0 := by intro h; rw [h] at hσ2; norm_num at hσ2
    field_simp
  have hwb := cube_between (F32.toReal ui / c) (19 / 20) (21 / 20)
    (by rw [hw3, le_div_iff₀ hApos]; norm_num; linarith) (by rw [hw3, div_le_iff₀ hApos]; norm_num; linarith)
  -- magnitude of c
  have habsX : |c| ^ 3 = (A:ℝ) * P := by
    rw [← abs_pow, hc, hX, hXa, abs_mul, abs_of_pos (mul_pos hApos hPpos)]
    have : |σ| = 1 := by rw [hσ]; split <;> simp
    rw [this, one_mul]
  have hAP1 : (2:ℝ) ^ (-126:ℤ) ≤ (A:ℝ) * P := by
    rw [← hXa]
    have h1 : (8388608:ℝ) ≤ ((f + 8388608 : ℕ) : ℝ) := by
      have : 8388608 ≤ f + 8388608 := by omega
      exact_mod_cast this
    have h2 : (2:ℝ) ^ (-149:ℤ) ≤ (2:ℝ) ^ ((E:Int) + (-149 - 1)) := zpow_le_zpow_right₀ (by norm_num) (by omega)
    have h3 : (2:ℝ) ^ (-126:ℤ) = 8388608 * (2:ℝ) ^ (-149:ℤ) := by
      rw [show (8388608:ℝ) = (2:ℝ) ^ (23:ℤ) by norm_num, ← zpow_add₀ (by norm_num : (2:ℝ) ≠ 0)]; norm_num
    rw [h3]; exact mul_le_mul h1 h2 (by positivity) (Nat.cast_nonneg _)
  have hAP2 : (A:ℝ) * P ≤ (2:ℝ) ^ (128:ℤ) := by
    rw [← hXa]
    have h1 : ((f + 8388608 : ℕ) : ℝ) ≤ 16777216 := by
      have : f + 8388608 ≤ 16777216 := by omega
      exact_mod_cast this
    have h2 : (2:ℝ) ^ ((E:Int) + (-149 - 1)) ≤ (2:ℝ) ^ (104:ℤ) := zpow_le_zpow_right₀ (by norm_num) (by omega)
    have h3 : (2:ℝ) ^ (128:ℤ) = 16777216 * (2:ℝ) ^ (104:ℤ) := by
      rw [show (16777216:ℝ) = (2:ℝ) ^ (24:ℤ) by norm_num, ← zpow_add₀ (by norm_num : (2:ℝ) ≠ 0)]; norm_num
    rw [h3]; exact mul_le_mul h1 h2 (by positivity) (by norm_num)
  have hcb := cube_between |c| ((2:ℝ) ^ (-50:ℤ)) ((2:ℝ) ^ (50:ℤ))
    (by rw [habsX, ← zpow_natCast, ← zpow_mul]
        exact le_trans (zpow_le_zpow_right₀ (by norm_num) (by norm_num)) hAP1)
    (by rw [habsX, ← zpow_natCast ((2:ℝ) ^ (50:ℤ)), ← zpow_mul]
        exact le_trans hAP2 (zpow_le_zpow_right₀ (by norm_num) (by norm_num)))
  refine ⟨⟨_, _, _, hdx⟩, ⟨_, _, _, hdu⟩, hcb, F32.toReal ui / c, by field_simp, ?_⟩
  rw [abs_le]; constructor <;> linarith [hwb.1, hwb.2]

/-- a normal binary32 bit pattern (either sign; exponent field 1..254) -/
def Normal (x : Nat) : Prop := ∃ s E f, s ≤ 1 ∧ 1 ≤ E ∧ E ≤ 254 ∧ f < 8388608 ∧ x = s * 2147483648 + E * 8388608 + f

/-- **accuracy of `cbrtf_fast`**: for every normal argument and every real `c` with `c³ = x`, the result is finite and within
relative `2^-24 + 1e-11` of `c` -/
theorem cbrtf_close (x : Nat) (hx : Normal x) (c : ℝ) (hc : c ^ 3 = F32.toReal x) :
    F32.Finite (MathM.cbrtfFast x) ∧ |F32.toReal (MathM.cbrtfFast x) - c| ≤ (F32.u + 1 / 10 ^ 11) * |c| := by
  obtain ⟨s, E, f, hs, hE1, hE2, hf, hxe⟩ := hx
  obtain ⟨fx, fui, hcb, w0, hT0, hw0⟩ := seed_close s E f x _ hs hE1 hE2 hf hxe rfl c hc
  rw [cbrtfFast_eq]
  obtain ⟨fxd, hxd⟩ := f32to64_val x fx
  obtain ⟨ft0, ht0⟩ := f32to64_val _ fui
  obtain ⟨f1, w1, hT1, hw1⟩ := step_apx _ _ c w0 (1 / 20) fxd ft0 (by rw [hxd]; exact hc) (by rw [ht0]; exact hT0) hw0 (le_refl _) hcb
  have hδ1 : (1 / 20 : ℝ) ^ 3 + 32 * F64.u ≤ 1 / 7000 := by rw [F64.u_val]; norm_num
  obtain ⟨f2, w2, hT2, hw2⟩ := step_apx _ _ c w1 (1 / 7000) fxd f1 (by rw [hxd]; exact hc) hT1 (le_trans hw1 hδ1) (by norm_num) hcb
  have hδ2 : |w2 - 1| ≤ 1 / (3 * 10 ^ 11) := le_trans hw2 (by rw [F64.u_val]; norm_num)
  generalize step (Conv.f32to64 x) (step (Conv.f32to64 x) (Conv.f32to64 _)) = t2 at f2 hT2 ⊢
  have hw2abs : |w2| ≤ 1 + 1 / (3 * 10 ^ 11) := by
    have := abs_sub_abs_le_abs_sub w2 1
    rw [abs_one] at this; linarith
  have hc0 : 0 ≤ |c| := abs_nonneg c
  have hfit : |F64.toReal t2| < (2:ℝ) ^ (127:ℤ) := by
    rw [hT2, abs_mul]
    have h1 : |c| * |w2| ≤ (2:ℝ) ^ (50:ℤ) * 2 := mul_le_mul hcb.2 (by linarith) (abs_nonneg _) (by positivity)
    have h2 : (2:ℝ) ^ (50:ℤ) * 2 = (2:ℝ) ^ (51:ℤ) := by rw [show (51:ℤ) = 50 + 1 by norm_num, zpow_add_one₀ (by norm_num : (2:ℝ) ≠ 0)]
    have h3 : (2:ℝ) ^ (51:ℤ) < (2:ℝ) ^ (127:ℤ) := zpow_lt_zpow_right₀ (by norm_num) (by norm_num)
    linarith
  obtain ⟨ff, herr⟩ := f64to32_val t2 f2 hfit
  refine ⟨ff, ?_⟩
  rw [hT2, abs_mul] at herr
  have htri : |F32.toReal (Conv.f64to32 t2) - c| ≤ |F32.toReal (Conv.f64to32 t2) - c * w2| + |c * w2 - c| := abs_sub_le _ _ _
  have hcw : |c * w2 - c| = |c| * |w2 - 1| := by rw [← abs_mul]; congr 1; ring
  have heta : F32.eta ≤ |c| * (1 / 10 ^ 30) := by
    have h1 : F32.eta = (2:ℝ) ^ (-50:ℤ) * (2:ℝ) ^ (-100:ℤ) := by unfold F32.eta; rw [← zpow_add₀ (by norm_num : (2:ℝ) ≠ 0)]; norm_num
    have h2 : (2:ℝ) ^ (-100:ℤ) ≤ 1 / 10 ^ 30 := by
      rw [zpow_neg, ← one_div]
      apply one_div_le_one_div_of_le (by positivity)
      norm_num
    rw [h1]; exact mul_le_mul hcb.1 h2 (by positivity) hc0
  have hu := F32.u_val
  have hu0 := F32.u_pos
  have hm1 : |c| * |w2 - 1| ≤ |c| * (1 / (3 * 10 ^ 11)) := mul_le_mul_of_nonneg_left hδ2 hc0
  have hm2 : F32.u * (|c| * |w2|) ≤ F32.u * (|c| * (1 + 1 / (3 * 10 ^ 11))) := mul_le_mul_of_nonneg_left (mul_le_mul_of_nonneg_left hw2abs hc0) hu0.le
  rw [hcw] at htri
  have hfinal : F32.u * (|c| * (1 + 1 / (3 * 10 ^ 11))) + |c| * (1 / 10 ^ 30) + |c| * (1 / (3 * 10 ^ 11)) ≤ (F32.u + 1 / 10 ^ 11) * |c| := by
    rw [hu]
    have : (1 / 16777216 * (1 + 1 / (3 * 10 ^ 11)) + 1 / 10 ^ 30 + 1 / (3 * 10 ^ 11) : ℝ) ≤ 1 / 16777216 + 1 / 10 ^ 11 := by norm_num
    nlinarith
  linarith

end Cbrt
