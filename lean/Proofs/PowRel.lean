import Proofs.PowCurve
import Proofs.Exp2Mid
/-! Relative-error forms of `powf` used by the round-trip analysis (C10): the general form on `[0, 2]` with a "both tiny"
alternative, and the sharper form next to 1 where `exp2` works in its well-approximated zone. -/
namespace PowRel
open F32 MathM Real PolyCert ExpPoly Horner

/-- `powf` for `0 ≤ x ≤ 2`, `0.349 ≤ y ≤ 3`: relative error `1.832e-4 + 7.914e-6 y`, or both values below `2^-39` -/
theorem pow_rel (fm : Bool) (x y : Nat) (hxw : WF x) (hx : Finite x) (hX0 : 0 ≤ toReal x) (hX2 : toReal x ≤ 2)
    (hy : Finite y) (hY1 : 349 / 1000 ≤ toReal y) (hY2 : toReal y ≤ 3 + 1 / 10 ^ 6) :
    ∃ r, powfFast fm x y = .ok r ∧ Finite r ∧
      (|toReal r - (toReal x) ^ (toReal y)| ≤ (1832 / 10 ^ 7 + (7914 / 10 ^ 9) * toReal y) * (toReal x) ^ (toReal y) ∨
       (|toReal r| ≤ (2:ℝ) ^ (-39:ℤ) ∧ (toReal x) ^ (toReal y) ≤ (2:ℝ) ^ (-39:ℤ))) := by
  have hu' : u = 1 / 16777216 := u_val
  have he' : eta ≤ 1 / 10 ^ 40 := eta_le
  set Y := toReal y with hY
  have hYabs : |Y| ≤ 4 := by rw [abs_le]; constructor <;> linarith
  have hYpos : 0 < Y := by linarith
  obtain ⟨hxa, hxv⟩ := toReal_abs x hxw hx
  rw [PowCurve.abs_eq_mod x hxw, abs_of_nonneg hX0] at hxv
  rw [PowCurve.abs_eq_mod x hxw] at hxa
  have hpf : powfFast fm x y = powfFast fm (x % 2147483648) y := by
    unfold powfFast; rw [PowCurve.log2_sign fm x]
  rw [hpf, ← hxv]
  have hx31 : x % 2147483648 < 2147483648 := Nat.mod_lt _ (by norm_num)
  have hxfin := PowCurve.finite_pos_lt _ hxa hx31
  set x' := x % 2147483648 with hx'
  set X := toReal x' with hX
  have hXe : X = toReal x := hxv
  have hX0' : 0 ≤ X := by rw [hXe]; exact hX0
  have hX2' : X ≤ 2 := by rw [hXe]; exact hX2
  by_cases hsub : x' < 8388608
  · obtain ⟨hlf, hl1, hl2⟩ := PowCurve.log2_sub fm x' hsub
    obtain ⟨_, _, hsv⟩ := PowCurve.sub_value x' hsub
    obtain ⟨r, hr1, hr2, hr3⟩ := PowCurve.powf_small fm (log2 fm x') y hlf hy (by rw [abs_le]; constructor <;> linarith) hYabs
      (by nlinarith)
    refine ⟨r, hr1, hr2, Or.inr ⟨hr3, ?_⟩⟩
    calc X ^ Y ≤ ((2:ℝ) ^ (-126:ℤ)) ^ Y := Real.rpow_le_rpow hX0' hsv hYpos.le
      _ = (2:ℝ) ^ ((-126:ℝ) * Y) := by
          rw [← Real.rpow_intCast, ← Real.rpow_mul (by norm_num)]; norm_num
      _ ≤ (2:ℝ) ^ (-39:ℝ) := Real.rpow_le_rpow_of_exponent_le (by norm_num) (by nlinarith)
      _ = (2:ℝ) ^ (-39:ℤ) := by rw [show (-39:ℝ) = ((-39:ℤ):ℝ) by norm_num, Real.rpow_intCast]
  · have hn1 : 8388608 ≤ x' := not_lt.mp hsub
    obtain ⟨hlf, hle⟩ := Log2.log2_close fm x' hn1 hxfin
    have hXY8 : X ^ Y ≤ 10 ^ 35 := by
      have h1 : X ^ Y ≤ (2:ℝ) ^ Y := Real.rpow_le_rpow hX0' hX2' hYpos.le
      have h2 : (2:ℝ) ^ Y ≤ (2:ℝ) ^ (4:ℝ) := Real.rpow_le_rpow_of_exponent_le (by norm_num) (by linarith)
      have h3 : (2:ℝ) ^ (4:ℝ) = 16 := by rw [show (4:ℝ) = ((4:ℕ):ℝ) by norm_num, Real.rpow_natCast]; norm_num
      linarith
    by_cases hbig : 1 / 10 ^ 35 ≤ X ^ Y
    · obtain ⟨r, hr1, hr2, hr3⟩ := Powf.powf_close_tight fm x' y hn1 hxfin hy (by linarith) hbig hXY8
      refine ⟨r, hr1, hr2, Or.inl ?_⟩
      rw [abs_of_pos hYpos] at hr3
      exact hr3
    · have hsmall := le_of_lt (not_le.mp hbig)
      have hk1 : 1 ≤ x' / 8388608 := by omega
      have hk2 : x' / 8388608 ≤ 254 := by omega
      have hf1 : x' % 8388608 < 8388608 := by omega
      have hxe : x' = (x' / 8388608) * 8388608 + x' % 8388608 := by omega
      have hXval : X = ((((x' % 8388608 : ℕ) : ℝ) + 8388608) / 8388608) * (2:ℝ) ^ (((x' / 8388608 : ℕ) : ℤ) - 127) := by
        rw [hX]; conv_lhs => rw [hxe]
        exact Log2.x_val _ _ hk1 hk2 hf1
      have hXpos : 0 < X := by rw [hXval]; positivity
      set L := Real.logb 2 X with hL
      have hLY : L * Y ≤ -116 := by
        have hlog : L * Y = Real.logb 2 (X ^ Y) := by rw [Real.logb_rpow_eq_mul_logb_of_pos hXpos]; ring
        rw [hlog]
        have hvpos : 0 < X ^ Y := Real.rpow_pos_of_pos hXpos _
        rw [Real.logb_le_iff_le_rpow (by norm_num) hvpos]
        refine le_trans hsmall ?_
        rw [show (-116:ℝ) = ((-116:ℤ):ℝ) by norm_num, Real.rpow_intCast]; norm_num
      have hL1 : L ≤ 1 := by
        rw [hL, Real.logb_le_iff_le_rpow (by norm_num) hXpos]; norm_num; exact hX2'
      have hLlow : -127 ≤ L := by
        rw [hL, Real.le_logb_iff_rpow_le (by norm_num) hXpos, hXval]
        have hm : (1:ℝ) ≤ (((x' % 8388608 : ℕ) : ℝ) + 8388608) / 8388608 := by
          rw [le_div_iff₀ (by norm_num)]; have : (0:ℝ) ≤ ((x' % 8388608 : ℕ) : ℝ) := Nat.cast_nonneg _; linarith
        have hp : (2:ℝ) ^ (-127:ℝ) ≤ (2:ℝ) ^ (((x' / 8388608 : ℕ) : ℤ) - 127) := by
          have hkz : (-127:ℤ) ≤ ((x' / 8388608 : ℕ) : ℤ) - 127 := by omega
          rw [show (-127:ℝ) = ((-127:ℤ):ℝ) by norm_num, Real.rpow_intCast]
          exact zpow_le_zpow_right₀ (by norm_num) hkz
        have hpp : (0:ℝ) < (2:ℝ) ^ (((x' / 8388608 : ℕ) : ℤ) - 127) := by positivity
        nlinarith
      have hLabs : |L| ≤ 127 := by rw [abs_le]; constructor <;> linarith
      obtain ⟨l1, l2⟩ := abs_le.mp hle
      set lh := toReal (log2 fm x') with hlh
      have hlh1 : lh ≤ L + 2 / 10 ^ 5 := by nlinarith
      have hlh2 : L - 2 / 10 ^ 5 ≤ lh := by nlinarith
      obtain ⟨r, hr1, hr2, hr3⟩ := PowCurve.powf_small fm (log2 fm x') y hlf hy (by rw [abs_le]; constructor <;> linarith) hYabs
        (by nlinarith)
      refine ⟨r, hr1, hr2, Or.inr ⟨hr3, le_trans hsmall (by norm_num)⟩⟩

/-- the exponent fed to `exp2` against the exact one -/
theorem powf_exponent (lh L y z : ℝ) (hl : |lh - L| ≤ 114 / 10 ^ 7 + (1 / 16777216) * |L|)
    (hz : |z - lh * y| ≤ (1 / 16777216) * |lh * y| + 1 / 10 ^ 40) (hy : |y| ≤ 80) (hLy : |L * y| ≤ 117) :
    |z - L * y| ≤ (114 / 10 ^ 7) * |y| + 141 / 10 ^ 7 := by
  have hy0 := abs_nonneg y
  have h1 : |lh * y - L * y| ≤ (114 / 10 ^ 7) * |y| + (1 / 16777216) * |L * y| := by
    have e : lh * y - L * y = (lh - L) * y := by ring
    rw [e, abs_mul, abs_mul]
    have := mul_le_mul_of_nonneg_right hl hy0
    nlinarith
  have h2 : |lh * y| ≤ 118 := by
    have := abs_sub_abs_le_abs_sub (lh * y) (L * y)
    nlinarith
  have e : z - L * y = (z - lh * y) + (lh * y - L * y) := by ring
  rw [e]
  refine le_trans (abs_add_le _ _) ?_
  nlinarith

/-- `2^(-13/25) ≤ 0.7` -/
theorem two_pow_low : (2:ℝ) ^ (-(13:ℝ) / 25) ≤ 7 / 10 := by
  have h1 : (2:ℝ) ^ (-(13:ℝ)) ≤ (7 / 10 : ℝ) ^ (25:ℝ) := by
    rw [show (-(13:ℝ)) = ((-13:ℤ):ℝ) by norm_num, Real.rpow_intCast, show (25:ℝ) = ((25:ℕ):ℝ) by norm_num, Real.rpow_natCast]
    norm_num
  have h2 := Real.rpow_le_rpow (by positivity) h1 (by norm_num : (0:ℝ) ≤ 1 / 25)
  rw [← Real.rpow_mul (by norm_num), ← Real.rpow_mul (by norm_num)] at h2
  have e1 : (-(13:ℝ)) * (1 / 25) = -(13:ℝ) / 25 := by ring
  have e2 : (25:ℝ) * (1 / 25) = 1 := by norm_num
  rw [e1, e2, Real.rpow_one] at h2
  exact h2

/-- **`powf` next to 1**: for `0.7 ≤ x ≤ 1.001` and `0.349 ≤ y ≤ 0.46` the relative error is at most `3.5e-5` -/
theorem pow_near1 (fm : Bool) (x y : Nat) (hx31 : x < 2147483648) (hx : Finite x) (hX0 : 7 / 10 ≤ toReal x) (hX1 : toReal x ≤ 1001 / 1000)
    (hy : Finite y) (hY1 : 349 / 1000 ≤ toReal y) (hY2 : toReal y ≤ 46 / 100) :
    ∃ r, powfFast fm x y = .ok r ∧ Finite r ∧ |toReal r - (toReal x) ^ (toReal y)| ≤ (35 / 10 ^ 6) * (toReal x) ^ (toReal y) := by
  have hu' : u = 1 / 16777216 := u_val
  have he' : eta ≤ 1 / 10 ^ 40 := eta_le
  set X := toReal x with hX
  set Y := toReal y with hY
  have hXpos : 0 < X := by linarith
  have hxfin := PowCurve.finite_pos_lt x hx hx31
  have hn1 : 8388608 ≤ x := by
    by_contra hc
    obtain ⟨_, _, hsv⟩ := PowCurve.sub_value x (not_le.mp hc)
    have h126 : (2:ℝ) ^ (-126:ℤ) ≤ 1 / 10 := by norm_num
    have : X ≤ 1 / 10 := le_trans hsv h126
    linarith
  obtain ⟨hlf, hle⟩ := Log2.log2_close fm x hn1 hxfin
  set L := Real.logb 2 X with hL
  have hLlo : -(13:ℝ) / 25 ≤ L := by
    rw [hL, Real.le_logb_iff_rpow_le (by norm_num) hXpos]
    exact le_trans two_pow_low hX0
  have hLhi : L ≤ 15 / 10000 := by
    rw [hL, Real.logb_le_iff_le_rpow (by norm_num) hXpos, Real.rpow_def_of_pos (by norm_num : (0:ℝ) < 2)]
    have := Real.add_one_le_exp (Real.log 2 * (15 / 10000))
    have hl := Real.log_two_gt_d9
    nlinarith
  have hLabs : |L| ≤ 1 := by rw [abs_le]; constructor <;> linarith
  have hYabs : |Y| ≤ 1 := by rw [abs_le]; constructor <;> linarith
  have hLY : |L * Y| ≤ 117 := by rw [abs_mul]; nlinarith [abs_nonneg L, abs_nonneg Y]
  set lh := toReal (log2 fm x) with hlh
  have hlhabs : |lh| ≤ 2 := by
    have := abs_sub_abs_le_abs_sub lh L
    nlinarith
  obtain ⟨hzb, hze⟩ := mul_bnd (log2 fm x) y |lh| |Y| ⟨hlf, le_refl _⟩ ⟨hy, le_refl _⟩ (fit_small _ (by nlinarith [abs_nonneg lh, abs_nonneg Y]))
  set z := toReal (mul (log2 fm x) y) with hz
  have hze' : |z - lh * Y| ≤ (1 / 16777216) * |lh * Y| + 1 / 10 ^ 40 := by rw [abs_mul, ← hu']; linarith
  have hΔ := powf_exponent lh L Y z hle hze' (by linarith) hLY
  obtain ⟨d1, d2⟩ := abs_le.mp hΔ
  have hYa : |Y| = Y := abs_of_pos (by linarith)
  rw [hYa] at d1 d2
  have hLYlo : -(2392:ℝ) / 10000 ≤ L * Y := by nlinarith
  have hLYhi : L * Y ≤ 7 / 10000 := by nlinarith
  obtain ⟨r, hr, hrf, hre⟩ := Exp2.exp2_mid fm (mul (log2 fm x) y) hzb.1 (by nlinarith) (by nlinarith)
  refine ⟨r, hr, hrf, ?_⟩
  have hv := Powf.rpow_as_two X Y hXpos
  obtain ⟨_, hcore⟩ := Powf.powf_core_gen lh L Y z (toReal r) (X ^ Y) (182 / 10 ^ 7) hle hze' (by linarith) hLY hv (by norm_num) hre
  refine le_trans hcore ?_
  apply mul_le_mul_of_nonneg_right _ (Real.rpow_pos_of_pos hXpos _).le
  rw [hYa]
  nlinarith

end PowRel
