import Proofs.F64Real
/-! Real-number semantics of the binary32 operations of the model ("standard model" lemmas): every finite operation is
the exact real result followed by one rounding with relative error 2^-53 and absolute error 2^-1075. -/
namespace F64
open Real

noncomputable def u : ℝ := (2:ℝ)^(-53:ℤ)
noncomputable def eta : ℝ := (2:ℝ)^(-1075:ℤ)

theorem valR_zero (n : Bool) (e : Int) : valR n 0 e = 0 := by simp [valR]

theorem abs_valR (n : Bool) (m : Nat) (e : Int) : |valR n m e| = (m:ℝ) * (2:ℝ)^e := by
  unfold valR
  have : (0:ℝ) ≤ (m:ℝ) * (2:ℝ)^e := by positivity
  cases n <;> simp [abs_of_nonneg this]

theorem decode_signBit (n : Bool) : decode (signBit n) = .fin n 0 (-1074) := by
  have := decode_pack (if n then 1 else 0) 0 0 (by cases n <;> simp) (by omega) (by omega)
  rw [signBit_eq]; simp only [Nat.zero_mul, Nat.add_zero] at this; rw [this]; cases n <;> simp

theorem toReal_of_decode (a : Nat) (n : Bool) (m : Nat) (e : Int) (h : decode a = .fin n m e) : toReal a = valR n m e := by
  simp [toReal, h]

/-- the fit condition of `roundPack_val` follows from a bound on the real magnitude -/
theorem fit_of_lt (m : Nat) (e : Int) (hm : m ≠ 0) (h : (m:ℝ) * (2:ℝ)^e < (2:ℝ)^(1023:ℤ)) :
    e + ((Nat.log2 m + 1 : Nat) : Int) ≤ 1023 := by
  obtain ⟨hlo, _⟩ := log2_bounds m hm
  have hlog : (2:ℝ)^(Nat.log2 m) ≤ m := by exact_mod_cast hlo
  have h2e : (0:ℝ) < (2:ℝ)^e := by positivity
  have : (2:ℝ)^(Nat.log2 m) * (2:ℝ)^e < (2:ℝ)^(1023:ℤ) := lt_of_le_of_lt (mul_le_mul_of_nonneg_right hlog h2e.le) h
  rw [← zpow_natCast, ← zpow_add₀ (by norm_num : (2:ℝ) ≠ 0)] at this
  have := (zpow_lt_zpow_iff_right₀ (by norm_num : (1:ℝ) < 2)).mp this
  push_cast; omega

/-- rounding an exact dyadic `(-1)^n * m * 2^e` of magnitude below 2^1023 -/
theorem round_val (n : Bool) (m : Nat) (e : Int) (h : (m:ℝ) * (2:ℝ)^e < (2:ℝ)^(1023:ℤ)) :
    Finite (roundPack n m e) ∧ |toReal (roundPack n m e) - valR n m e| ≤ u * |valR n m e| + eta := by
  by_cases hz : m = 0
  · subst hz
    have hrp : roundPack n 0 e = signBit n := by simp [roundPack]
    rw [hrp]
    refine ⟨⟨_, _, _, decode_signBit n⟩, ?_⟩
    rw [toReal_of_decode _ _ _ _ (decode_signBit n), valR_zero, valR_zero]
    simp [u, eta]
  · obtain ⟨m', e', hdec, hval⟩ := roundPack_val n m e hz (fit_of_lt m e hz h)
    refine ⟨⟨_, _, _, hdec⟩, ?_⟩
    rw [toReal_of_decode _ _ _ _ hdec, abs_valR]
    unfold valR u eta
    cases n <;> simp only [if_true, if_false, Bool.false_eq_true]
    · rw [one_mul, one_mul]; exact hval
    · have : -1 * ((m':ℝ) * (2:ℝ)^e') - -1 * ((m:ℝ) * (2:ℝ)^e) = -(((m':ℝ) * (2:ℝ)^e') - ((m:ℝ) * (2:ℝ)^e)) := by ring
      rw [this, abs_neg]; exact hval


theorem natpow_zpow (m : Nat) (e1 e : Int) (he : e ≤ e1) :
    ((m * 2 ^ (e1 - e).toNat : ℕ) : ℝ) * (2:ℝ)^e = (m:ℝ) * (2:ℝ)^e1 := by
  push_cast
  rw [mul_assoc, ← zpow_natCast, ← zpow_add₀ (by norm_num : (2:ℝ) ≠ 0)]
  congr 2; omega

/-- `addExact` is exact: the returned dyadic is the real sum -/
theorem addExact_val (n1 : Bool) (m1 : Nat) (e1 : Int) (n2 : Bool) (m2 : Nat) (e2 : Int) :
    valR (addExact n1 m1 e1 n2 m2 e2).1 (addExact n1 m1 e1 n2 m2 e2).2.1 (addExact n1 m1 e1 n2 m2 e2).2.2 = valR n1 m1 e1 + valR n2 m2 e2 := by
  unfold addExact
  simp only
  set e : Int := Min.min e1 e2 with he
  have h1 := natpow_zpow m1 e1 e (by omega)
  have h2 := natpow_zpow m2 e2 e (by omega)
  set A : ℕ := m1 * 2 ^ (e1 - e).toNat
  set B : ℕ := m2 * 2 ^ (e2 - e).toNat
  have hv1 : valR n1 m1 e1 = (if n1 then -(A:ℝ) else (A:ℝ)) * (2:ℝ)^e := by
    unfold valR; rw [← h1]; cases n1 <;> simp
  have hv2 : valR n2 m2 e2 = (if n2 then -(B:ℝ) else (B:ℝ)) * (2:ℝ)^e := by
    unfold valR; rw [← h2]; cases n2 <;> simp
  rw [hv1, hv2]
  unfold valR
  set s : Int := (if n1 then -((A:ℕ):Int) else ((A:ℕ):Int)) + (if n2 then -((B:ℕ):Int) else ((B:ℕ):Int)) with hs
  have hsr : ((s:ℤ):ℝ) = (if n1 then -(A:ℝ) else (A:ℝ)) + (if n2 then -(B:ℝ) else (B:ℝ)) := by
    rw [hs]; cases n1 <;> cases n2 <;> simp
  have habs : (if decide (s < 0) then (-1:ℝ) else 1) * ((s.natAbs : ℕ) : ℝ) = (s:ℝ) := by
    by_cases hneg : s < 0
    · simp only [hneg, decide_true, if_true]
      have h' : ((s.natAbs : ℕ) : ℤ) = -s := by omega
      have : ((s.natAbs : ℕ) : ℝ) = -(s:ℝ) := by
        have := congrArg (fun z : ℤ => (z:ℝ)) h'
        simpa using this
      rw [this]; ring
    · simp only [hneg, decide_false, if_false, Bool.false_eq_true]
      have h' : ((s.natAbs : ℕ) : ℤ) = s := by omega
      have : ((s.natAbs : ℕ) : ℝ) = (s:ℝ) := by
        have := congrArg (fun z : ℤ => (z:ℝ)) h'
        simpa using this
      rw [this]; ring
  rw [← mul_assoc, habs, hsr]; ring

theorem finite_of_decode {a : Nat} {n : Bool} {m : Nat} {e : Int} (h : decode a = .fin n m e) : Finite a := ⟨n, m, e, h⟩

/-- **addition** of two finite floats whose exact sum is below 2^1023 in magnitude -/
theorem add_val (a b : Nat) (ha : Finite a) (hb : Finite b) (hfit : |toReal a + toReal b| < (2:ℝ)^(1023:ℤ)) :
    Finite (add a b) ∧ |toReal (add a b) - (toReal a + toReal b)| ≤ u * |toReal a + toReal b| + eta := by
  obtain ⟨n1, m1, e1, h1⟩ := ha
  obtain ⟨n2, m2, e2, h2⟩ := hb
  have hta := toReal_of_decode a _ _ _ h1
  have htb := toReal_of_decode b _ _ _ h2
  have hex := addExact_val n1 m1 e1 n2 m2 e2
  have hadd : add a b = (if (addExact n1 m1 e1 n2 m2 e2).2.1 = 0 then signBit (n1 && n2)
      else roundPack (addExact n1 m1 e1 n2 m2 e2).1 (addExact n1 m1 e1 n2 m2 e2).2.1 (addExact n1 m1 e1 n2 m2 e2).2.2) := by
    simp [add, h1, h2]
  rw [hadd, hta, htb, ← hex]
  generalize (addExact n1 m1 e1 n2 m2 e2).1 = n at *
  generalize (addExact n1 m1 e1 n2 m2 e2).2.1 = m at *
  generalize (addExact n1 m1 e1 n2 m2 e2).2.2 = e at *
  by_cases hz : m = 0
  · subst hz
    simp only [if_true]
    refine ⟨⟨_, _, _, decode_signBit _⟩, ?_⟩
    rw [toReal_of_decode _ _ _ _ (decode_signBit _), valR_zero, valR_zero]; simp [u, eta]
  · simp only [hz, if_false]
    apply round_val
    rw [hta, htb, ← hex, abs_valR] at hfit
    exact hfit

theorem unpack (a : Nat) (ha : a < 18446744073709551616) :
    ∃ s k f, s ≤ 1 ∧ k < 2048 ∧ f < 4503599627370496 ∧ a = s * 9223372036854775808 + k * 4503599627370496 + f :=
  ⟨a / 9223372036854775808, (a / 4503599627370496) % 2048, a % 4503599627370496, by omega, by omega, by omega, by omega⟩

theorem neg_pack (s k f : Nat) (hs : s ≤ 1) (hk : k < 2048) (hf : f < 4503599627370496) :
    neg (s * 9223372036854775808 + k * 4503599627370496 + f) = (1 - s) * 9223372036854775808 + k * 4503599627370496 + f := by
  unfold neg
  simp only [consts.2.2.2.2.2.2.2.1]
  have : s = 0 ∨ s = 1 := by omega
  rcases this with rfl | rfl <;> simp <;> split <;> omega

theorem abs_pack (s k f : Nat) (hs : s ≤ 1) (hk : k < 2048) (hf : f < 4503599627370496) :
    abs (s * 9223372036854775808 + k * 4503599627370496 + f) = k * 4503599627370496 + f := by
  unfold abs
  simp only [consts.2.2.2.2.2.2.2.1]
  have : s = 0 ∨ s = 1 := by omega
  rcases this with rfl | rfl
  · have : ¬ ((0 * 9223372036854775808 + k * 4503599627370496 + f) % (2 * 9223372036854775808) ≥ 9223372036854775808) := by omega
    simp only [this, if_false]; omega
  · have : ((1 * 9223372036854775808 + k * 4503599627370496 + f) % (2 * 9223372036854775808) ≥ 9223372036854775808) := by omega
    simp only [this, if_true]; omega

/-- negation flips the sign of a finite float and nothing else -/
theorem neg_fin (a : Nat) (ha : a < 18446744073709551616) (n : Bool) (m : Nat) (e : Int) (h : decode a = .fin n m e) :
    decode (neg a) = .fin (!n) m e := by
  obtain ⟨s, k, f, hs, hk, hf, rfl⟩ := unpack a ha
  rw [neg_pack s k f hs hk hf, decode_pack (1 - s) k f (by omega) hk hf]
  rw [decode_pack s k f hs hk hf] at h
  have : s = 0 ∨ s = 1 := by omega
  rcases this with rfl | rfl <;> (repeat' split at h) <;> simp_all

theorem abs_fin (a : Nat) (ha : a < 18446744073709551616) (n : Bool) (m : Nat) (e : Int) (h : decode a = .fin n m e) :
    decode (abs a) = .fin false m e := by
  obtain ⟨s, k, f, hs, hk, hf, rfl⟩ := unpack a ha
  rw [abs_pack s k f hs hk hf]
  have := decode_pack 0 k f (by omega) hk hf
  simp only [Nat.zero_mul, Nat.zero_add] at this
  rw [this]
  rw [decode_pack s k f hs hk hf] at h
  (repeat' split at h) <;> simp_all

theorem toReal_neg (a : Nat) (ha : a < 18446744073709551616) (hf : Finite a) : Finite (neg a) ∧ toReal (neg a) = -toReal a := by
  obtain ⟨n, m, e, h⟩ := hf
  have := neg_fin a ha n m e h
  refine ⟨⟨_, _, _, this⟩, ?_⟩
  rw [toReal_of_decode _ _ _ _ this, toReal_of_decode _ _ _ _ h]
  unfold valR; cases n <;> simp

theorem toReal_abs (a : Nat) (ha : a < 18446744073709551616) (hf : Finite a) : Finite (abs a) ∧ toReal (abs a) = |toReal a| := by
  obtain ⟨n, m, e, h⟩ := hf
  have := abs_fin a ha n m e h
  refine ⟨⟨_, _, _, this⟩, ?_⟩
  rw [toReal_of_decode _ _ _ _ this, toReal_of_decode _ _ _ _ h, abs_valR]
  unfold valR; simp


/-- well-formed bit pattern -/
def WF (a : Nat) : Prop := a < 18446744073709551616

theorem signBit_le (n : Bool) : signBit n ≤ 9223372036854775808 := by rw [signBit_eq]; cases n <;> simp

theorem roundPack_wf (n : Bool) (m : Nat) (e : Int) : WF (roundPack n m e) := by
  unfold WF roundPack
  have hs := signBit_le n
  split
  · omega
  · rename_i hm
    dsimp only
    obtain ⟨w1, w2, w3⟩ := roundMQ_wf m e hm
    generalize (roundMQ m e).1 = mant at *
    generalize (roundMQ m e).2 = q at *
    unfold encode
    simp only [consts.2.2.2.2.2.2.1, consts.2.2.1, consts.2.2.2.2.1, consts.2.2.2.1, consts.2.2.2.2.2.1, consts.2.2.2.2.2.2.2.2, consts.2.1]
    split
    · split
      · omega
      · rename_i h1
        have : (q + 1 - -1074 + 1).toNat ≤ 2046 := by omega
        have := Nat.mul_le_mul_right 4503599627370496 this
        omega
    · split
      · omega
      · split
        · omega
        · rename_i h1 h2 h3
          have : (q - -1074 + 1).toNat ≤ 2046 := by omega
          have := Nat.mul_le_mul_right 4503599627370496 this
          omega

theorem infB_wf (n : Bool) : WF (infB n) := by unfold WF infB; have := signBit_le n; simp only [consts.2.2.2.2.2.2.2.2]; omega
theorem qnan_wf : WF QNAN := by unfold WF QNAN; omega
theorem signBit_wf (n : Bool) : WF (signBit n) := by unfold WF; have := signBit_le n; omega

theorem add_wf (a b : Nat) : WF (add a b) := by
  unfold add
  split <;> first | exact qnan_wf | exact infB_wf _ | skip
  · split <;> first | exact qnan_wf | exact infB_wf _
  · dsimp only; split
    · exact signBit_wf _
    · exact roundPack_wf _ _ _

theorem mul_wf (a b : Nat) : WF (mul a b) := by
  unfold mul
  split <;> first | exact qnan_wf | exact infB_wf _ | exact roundPack_wf _ _ _ | skip
  all_goals (split <;> first | exact qnan_wf | exact infB_wf _)

theorem neg_wf (a : Nat) (ha : WF a) : WF (neg a) := by
  unfold WF at *; unfold neg; simp only [consts.2.2.2.2.2.2.2.1]; split <;> omega

/-- **subtraction** -/
theorem sub_val (a b : Nat) (hb' : WF b) (ha : Finite a) (hb : Finite b) (hfit : |toReal a - toReal b| < (2:ℝ)^(1023:ℤ)) :
    Finite (sub a b) ∧ |toReal (sub a b) - (toReal a - toReal b)| ≤ u * |toReal a - toReal b| + eta := by
  obtain ⟨hnf, hnv⟩ := toReal_neg b hb' hb
  have := add_val a (neg b) ha hnf (by rw [hnv, ← sub_eq_add_neg]; exact hfit)
  unfold sub
  rw [hnv, ← sub_eq_add_neg] at this
  exact this

/-- **fused multiply-add** `a*b + c` with one rounding -/
theorem fma_val (a b c : Nat) (ha : Finite a) (hb : Finite b) (hc : Finite c)
    (hfit : |toReal a * toReal b + toReal c| < (2:ℝ)^(1023:ℤ)) :
    Finite (fma a b c) ∧ |toReal (fma a b c) - (toReal a * toReal b + toReal c)| ≤ u * |toReal a * toReal b + toReal c| + eta := by
  obtain ⟨n1, m1, e1, h1⟩ := ha
  obtain ⟨n2, m2, e2, h2⟩ := hb
  obtain ⟨n3, m3, e3, h3⟩ := hc
  have hta := toReal_of_decode a _ _ _ h1
  have htb := toReal_of_decode b _ _ _ h2
  have htc := toReal_of_decode c _ _ _ h3
  have hprod : valR n1 m1 e1 * valR n2 m2 e2 = valR (n1 != n2) (m1 * m2) (e1 + e2) := by
    unfold valR; rw [zpow_add₀ (by norm_num : (2:ℝ) ≠ 0)]; push_cast
    cases n1 <;> cases n2 <;> simp <;> ring
  have hex := addExact_val (n1 != n2) (m1 * m2) (e1 + e2) n3 m3 e3
  have hfma : fma a b c = (if (addExact (n1 != n2) (m1 * m2) (e1 + e2) n3 m3 e3).2.1 = 0 then signBit ((n1 != n2) && n3)
      else roundPack (addExact (n1 != n2) (m1 * m2) (e1 + e2) n3 m3 e3).1 (addExact (n1 != n2) (m1 * m2) (e1 + e2) n3 m3 e3).2.1
        (addExact (n1 != n2) (m1 * m2) (e1 + e2) n3 m3 e3).2.2) := by
    unfold fma
    rw [h1, h2, h3]
  rw [hfma, hta, htb, htc, hprod, ← hex]
  rw [hta, htb, htc, hprod, ← hex, abs_valR] at hfit
  generalize (addExact (n1 != n2) (m1 * m2) (e1 + e2) n3 m3 e3).1 = n at *
  generalize (addExact (n1 != n2) (m1 * m2) (e1 + e2) n3 m3 e3).2.1 = m at *
  generalize (addExact (n1 != n2) (m1 * m2) (e1 + e2) n3 m3 e3).2.2 = e at *
  by_cases hz : m = 0
  · subst hz
    simp only [if_true]
    refine ⟨⟨_, _, _, decode_signBit _⟩, ?_⟩
    rw [toReal_of_decode _ _ _ _ (decode_signBit _), valR_zero, valR_zero]; simp [u, eta]
  · simp only [hz, if_false]
    exact round_val n m e hfit

/-- comparison of finite floats is comparison of their real values -/
theorem lt_iff (a b : Nat) (ha : Finite a) (hb : Finite b) : lt a b = true ↔ toReal a < toReal b := by
  obtain ⟨n1, m1, e1, h1⟩ := ha
  obtain ⟨n2, m2, e2, h2⟩ := hb
  have hta := toReal_of_decode a _ _ _ h1
  have htb := toReal_of_decode b _ _ _ h2
  have hex := addExact_val n1 m1 e1 (!n2) m2 e2
  have hneg : valR (!n2) m2 e2 = -valR n2 m2 e2 := by unfold valR; cases n2 <;> simp
  have hlt : lt a b = ((addExact n1 m1 e1 (!n2) m2 e2).2.1 != 0 && (addExact n1 m1 e1 (!n2) m2 e2).1) := by
    unfold lt; rw [h1, h2]
  rw [hlt, hta, htb]
  rw [hneg] at hex
  generalize (addExact n1 m1 e1 (!n2) m2 e2).1 = n at *
  generalize (addExact n1 m1 e1 (!n2) m2 e2).2.1 = m at *
  generalize (addExact n1 m1 e1 (!n2) m2 e2).2.2 = e at *
  have hpos : (0:ℝ) < (2:ℝ)^e := by positivity
  constructor
  · intro h
    simp only [Bool.and_eq_true, bne_iff_ne, ne_eq] at h
    have hm : (0:ℝ) < m := by exact_mod_cast Nat.pos_of_ne_zero h.1
    have : valR n m e < 0 := by
      unfold valR; rw [h.2]; simp; positivity
    linarith
  · intro h
    have hv : valR n m e < 0 := by linarith
    simp only [Bool.and_eq_true, bne_iff_ne, ne_eq]
    constructor
    · intro hm; subst hm; rw [valR_zero] at hv; exact lt_irrefl _ hv
    · cases n
      · exfalso; unfold valR at hv; simp at hv
        have : (0:ℝ) ≤ (m:ℝ) * (2:ℝ)^e := by positivity
        linarith
      · rfl

end F64

/-! GENERATED from Proofs/F32Ops.lean by run/gen64proofs.py (binary64 instance of the same proof). -/
