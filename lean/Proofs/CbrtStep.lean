import Proofs.F64Rel
import Proofs.Halley
import Model.Math
/-! One double-precision Halley step of `cbrtf_fast`, `t ↦ t (2x + t³) / (x + 2t³)`, analysed over the reals: if the iterate is
`c w` with `c³ = x` and `|w - 1| ≤ δ ≤ 1/20`, the computed next iterate is `c w'` with `|w' - 1| ≤ δ³ + 32 u` (u = 2^-53). -/
namespace Cbrt
open F64 Real

/-- the step exactly as `MathM.cbrtfFast` spells it -/
def step (xd t : Nat) : Nat :=
  let r := F64.mul (F64.mul t t) t
  F64.div (F64.mul t (F64.add (F64.add xd xd) r)) (F64.add (F64.add xd r) r)

theorem cbrtfFast_eq (x : Nat) :
    MathM.cbrtfFast x =
      Conv.f64to32 (step (Conv.f32to64 x) (step (Conv.f32to64 x)
        (Conv.f32to64 ((x / 2147483648 % 2) * 2147483648 + ((x % 2147483648) / C.cbrtf_fast_i1 + C.cbrtf_fast_B1_i0))))) := rfl

/-- magnitudes `c^k g` with `|c|` in [2^-50, 2^50], `k ≤ 4`, `g` in [1/4, 8] are far from the thresholds -/
theorem win_pow (c g : ℝ) (k : Nat) (hk : k ≤ 4) (hc : (2:ℝ)^(-50:ℤ) ≤ |c| ∧ |c| ≤ (2:ℝ)^(50:ℤ)) (hg : 1 / 4 ≤ g ∧ g ≤ 8) : Win (c ^ k * g) := by
  unfold Win
  rw [abs_mul, abs_pow, abs_of_pos (by linarith : (0:ℝ) < g)]
  have hlo : (2:ℝ)^(-200:ℤ) ≤ |c| ^ k := by
    have h1 : ((2:ℝ)^(-50:ℤ)) ^ k ≤ |c| ^ k := pow_le_pow_left₀ (by positivity) hc.1 k
    have h2 : ((2:ℝ)^(-50:ℤ)) ^ k = (2:ℝ)^((-50:ℤ) * (k:ℤ)) := by rw [zpow_mul, zpow_natCast]
    have h3 : (2:ℝ)^(-200:ℤ) ≤ (2:ℝ)^((-50:ℤ) * (k:ℤ)) := zpow_le_zpow_right₀ (by norm_num) (by omega)
    rw [h2] at h1; exact le_trans h3 h1
  have hhi : |c| ^ k ≤ (2:ℝ)^(200:ℤ) := by
    have h1 : |c| ^ k ≤ ((2:ℝ)^(50:ℤ)) ^ k := pow_le_pow_left₀ (abs_nonneg _) hc.2 k
    have h2 : ((2:ℝ)^(50:ℤ)) ^ k = (2:ℝ)^((50:ℤ) * (k:ℤ)) := by rw [zpow_mul, zpow_natCast]
    have h3 : (2:ℝ)^((50:ℤ) * (k:ℤ)) ≤ (2:ℝ)^(200:ℤ) := zpow_le_zpow_right₀ (by norm_num) (by omega)
    rw [h2] at h1; exact le_trans h1 h3
  have e1 : (2:ℝ)^(-400:ℤ) = (2:ℝ)^(-200:ℤ) * (2:ℝ)^(-200:ℤ) := by rw [← zpow_add₀ (by norm_num : (2:ℝ) ≠ 0)]; norm_num
  have e2 : (2:ℝ)^(400:ℤ) = (2:ℝ)^(200:ℤ) * (2:ℝ)^(200:ℤ) := by rw [← zpow_add₀ (by norm_num : (2:ℝ) ≠ 0)]; norm_num
  have s1 : (2:ℝ)^(-200:ℤ) ≤ 1 / 4 := by
    have : (2:ℝ)^(-200:ℤ) ≤ (2:ℝ)^(-2:ℤ) := zpow_le_zpow_right₀ (by norm_num) (by norm_num)
    refine le_trans this (by norm_num)
  have s2 : (8:ℝ) ≤ (2:ℝ)^(200:ℤ) := by
    have : (2:ℝ)^(3:ℤ) ≤ (2:ℝ)^(200:ℤ) := zpow_le_zpow_right₀ (by norm_num) (by norm_num)
    refine le_trans (by norm_num) this
  have p1 : (0:ℝ) < (2:ℝ)^(-200:ℤ) := by positivity
  have p2 : (0:ℝ) < (2:ℝ)^(200:ℤ) := by positivity
  have pk : (0:ℝ) ≤ |c| ^ k := by positivity
  rw [e1, e2]
  generalize (2:ℝ)^(-200:ℤ) = L at *
  generalize (2:ℝ)^(200:ℤ) = H at *
  constructor
  · calc L * L ≤ |c| ^ k * (1 / 4) := mul_le_mul hlo s1 p1.le pk
      _ ≤ |c| ^ k * g := mul_le_mul_of_nonneg_left hg.1 pk
  · calc |c| ^ k * g ≤ |c| ^ k * 8 := mul_le_mul_of_nonneg_left hg.2 pk
      _ ≤ H * H := mul_le_mul hhi s2 (by norm_num) p2.le

set_option maxHeartbeats 1000000 in
theorem step_apx (xd t : Nat) (c w δ : ℝ) (hx : Finite xd) (ht : Finite t) (hc3 : c ^ 3 = toReal xd) (hT : toReal t = c * w)
    (hw : |w - 1| ≤ δ) (hδ : δ ≤ 1 / 20) (hc : (2:ℝ)^(-50:ℤ) ≤ |c| ∧ |c| ≤ (2:ℝ)^(50:ℤ)) :
    Finite (step xd t) ∧ ∃ w', toReal (step xd t) = c * w' ∧ |w' - 1| ≤ δ ^ 3 + 32 * u := by
  obtain ⟨hw1, hw2⟩ := abs_le.mp hw
  have hwlo : 19 / 20 ≤ w := by linarith
  have hwhi : w ≤ 21 / 20 := by linarith
  have hw0 : 0 < w := by linarith
  have hw2lo : 9 / 10 ≤ w * w := by nlinarith
  have hw2hi : w * w ≤ 111 / 100 := by nlinarith
  have hw3lo : 85 / 100 ≤ w ^ 3 := by nlinarith
  have hw3hi : w ^ 3 ≤ 116 / 100 := by nlinarith
  have hc0 : c ≠ 0 := by
    intro h; rw [h, abs_zero] at hc
    have : (0:ℝ) < (2:ℝ)^(-50:ℤ) := by positivity
    linarith [hc.1]
  have hup := u_pos
  have huv := u_val
  set X := toReal xd with hX
  set T := toReal t with hTd
  have hXc : X = c ^ 3 := hc3.symm
  have ax : Apx xd X 0 := apx_exact xd hx
  have at0 : Apx t T 0 := apx_exact t ht
  -- t*t
  have w1 : Win (T * T) := by
    have : T * T = c ^ 2 * (w * w) := by rw [hT]; ring
    rw [this]; exact win_pow c _ 2 (by norm_num) hc ⟨by linarith, by linarith⟩
  have a1 := apx_mono (mul_apx t t T T 0 0 at0 at0 (le_refl _) (le_refl _) (by norm_num) w1) (show _ ≤ 2 * u by ring_nf; linarith)
  -- r = t*t*t
  have w2 : Win (T * T * T) := by
    have : T * T * T = c ^ 3 * (w ^ 3) := by rw [hT]; ring
    rw [this]; exact win_pow c _ 3 (by norm_num) hc ⟨by linarith, by linarith⟩
  have a2 := apx_mono (mul_apx _ t (T * T) T (2 * u) 0 a1 at0 (by linarith) (le_refl _) (by rw [huv]; norm_num) w2) (show _ ≤ 5 * u by rw [huv]; norm_num)
  -- x + x
  have w3 : Win (X + X) := by
    have : X + X = c ^ 3 * 2 := by rw [hXc]; ring
    rw [this]; exact win_pow c _ 3 (by norm_num) hc ⟨by norm_num, by norm_num⟩
  have a3 := apx_mono (add_apx xd xd X X 0 ax ax (le_refl _) (by norm_num) (mul_self_nonneg X) w3) (show _ ≤ 5 * u by rw [huv]; norm_num)
  -- (x + x) + r
  have c6 : 0 ≤ c ^ 3 * c ^ 3 := mul_self_nonneg _
  have w4 : Win (X + X + T * T * T) := by
    have : X + X + T * T * T = c ^ 3 * (2 + w ^ 3) := by rw [hXc, hT]; ring
    rw [this]; exact win_pow c _ 3 (by norm_num) hc ⟨by linarith, by linarith⟩
  have s4 : 0 ≤ (X + X) * (T * T * T) := by
    have : (X + X) * (T * T * T) = (c ^ 3 * c ^ 3) * (2 * w ^ 3) := by rw [hXc, hT]; ring
    rw [this]; positivity
  have a4 := apx_mono (add_apx _ _ (X + X) (T * T * T) (5 * u) a3 a2 (by linarith) (by rw [huv]; norm_num) s4 w4) (show _ ≤ 8 * u by rw [huv]; norm_num)
  -- t * (..)
  have w5 : Win (T * (X + X + T * T * T)) := by
    have : T * (X + X + T * T * T) = c ^ 4 * (w * (2 + w ^ 3)) := by rw [hXc, hT]; ring
    rw [this]; exact win_pow c _ 4 (by norm_num) hc ⟨by nlinarith, by nlinarith⟩
  have a5 := apx_mono (mul_apx t _ T (X + X + T * T * T) 0 (8 * u) at0 a4 (le_refl _) (by linarith) (by rw [huv]; norm_num) w5) (show _ ≤ 11 * u by rw [huv]; norm_num)
  -- x + r
  have w6 : Win (X + T * T * T) := by
    have : X + T * T * T = c ^ 3 * (1 + w ^ 3) := by rw [hXc, hT]; ring
    rw [this]; exact win_pow c _ 3 (by norm_num) hc ⟨by linarith, by linarith⟩
  have s6 : 0 ≤ X * (T * T * T) := by
    have : X * (T * T * T) = (c ^ 3 * c ^ 3) * (w ^ 3) := by rw [hXc, hT]; ring
    rw [this]; positivity
  have a6 := apx_mono (add_apx xd _ X (T * T * T) (5 * u) (apx_mono ax (by linarith)) a2 (by linarith) (by rw [huv]; norm_num) s6 w6) (show _ ≤ 8 * u by rw [huv]; norm_num)
  -- (x + r) + r
  have w7 : Win (X + T * T * T + T * T * T) := by
    have : X + T * T * T + T * T * T = c ^ 3 * (1 + 2 * w ^ 3) := by rw [hXc, hT]; ring
    rw [this]; exact win_pow c _ 3 (by norm_num) hc ⟨by linarith, by linarith⟩
  have s7 : 0 ≤ (X + T * T * T) * (T * T * T) := by
    have : (X + T * T * T) * (T * T * T) = (c ^ 3 * c ^ 3) * ((1 + w ^ 3) * w ^ 3) := by rw [hXc, hT]; ring
    rw [this]; positivity
  have a7 := apx_mono (add_apx _ _ (X + T * T * T) (T * T * T) (8 * u) a6 (apx_mono a2 (by linarith)) (by linarith) (by rw [huv]; norm_num) s7 w7) (show _ ≤ 11 * u by rw [huv]; norm_num)
  -- quotient
  have hden : (0:ℝ) < 1 + 2 * w ^ 3 := by linarith
  have hphi : T * (X + X + T * T * T) / (X + T * T * T + T * T * T) = c ^ 1 * (w * (2 + w ^ 3) / (1 + 2 * w ^ 3)) := by
    rw [hXc, hT]
    have h3 : c ^ 3 ≠ 0 := pow_ne_zero 3 hc0
    field_simp
    ring
  have hphib : 1 / 4 ≤ w * (2 + w ^ 3) / (1 + 2 * w ^ 3) ∧ w * (2 + w ^ 3) / (1 + 2 * w ^ 3) ≤ 8 := by
    constructor
    · rw [le_div_iff₀ hden]; nlinarith
    · rw [div_le_iff₀ hden]; nlinarith
  have w8 : Win (T * (X + X + T * T * T) / (X + T * T * T + T * T * T)) := by
    rw [hphi]; exact win_pow c _ 1 (by norm_num) hc hphib
  have hvb : X + T * T * T + T * T * T ≠ 0 := by
    have : X + T * T * T + T * T * T = c ^ 3 * (1 + 2 * w ^ 3) := by rw [hXc, hT]; ring
    rw [this]; exact mul_ne_zero (pow_ne_zero 3 hc0) (by linarith)
  have a8 := apx_mono (div_apx _ _ _ _ (11 * u) (11 * u) a5 a7 (by linarith) (by linarith) (by rw [huv]; norm_num) (by rw [huv]; norm_num) hvb w8)
    (show _ ≤ 25 * u by rw [huv]; norm_num)
  refine ⟨a8.1, toReal (step xd t) / c, by field_simp, ?_⟩
  have herr := a8.2
  rw [hphi, pow_one] at herr
  set φ := w * (2 + w ^ 3) / (1 + 2 * w ^ 3) with hφ
  have hstep : toReal (step xd t) = toReal (F64.div (F64.mul t (F64.add (F64.add xd xd) (F64.mul (F64.mul t t) t))) (F64.add (F64.add xd (F64.mul (F64.mul t t) t)) (F64.mul (F64.mul t t) t))) := rfl
  rw [← hstep] at herr
  have hcpos : 0 < |c| := abs_pos.mpr hc0
  have h1 : |toReal (step xd t) / c - φ| ≤ 25 * u * |φ| := by
    have e : toReal (step xd t) / c - φ = (toReal (step xd t) - c * φ) / c := by field_simp
    rw [e, abs_div, div_le_iff₀ hcpos]
    rw [abs_mul] at herr
    linarith
  have h2 : |φ - 1| ≤ δ ^ 3 := halley_bound w δ hw hδ
  have hφabs : |φ| ≤ 5 / 4 := by
    rw [abs_of_pos (by linarith [hphib.1])]
    rw [hφ, div_le_iff₀ hden]; nlinarith
  have h3 : |toReal (step xd t) / c - 1| ≤ |toReal (step xd t) / c - φ| + |φ - 1| := abs_sub_le _ _ _
  have := mul_le_mul_of_nonneg_left hφabs (by linarith : (0:ℝ) ≤ 25 * u)
  linarith

end Cbrt
