import Proofs.Frame
/-! Loop invariant of `ycbcr_to_ypbpr` (decode direction): under buffer coverage the two nested loops never reach an
unchecked access outside a buffer, and the output is, pixel by pixel, a function of the logical samples only. -/
namespace FrameP
open FrameM Mat32

theorem index_eq (p : Plane) (x y : Nat) : p.index x y = p.origin + (y * p.cfg.stride + x) := by
  unfold Plane.origin Plane.index
  rw [Nat.add_mul, Nat.zero_add, Nat.zero_add]
  omega

/-- accesses of one row are in bounds -/
def RowOk (yP uP vP : Plane) (w ssx ssy yy : Nat) : Prop :=
  ∀ x, x < w → yP.origin + (yy * yP.cfg.stride + x) < yP.data.size ∧
    uP.origin + ((yy >>> ssy) * uP.cfg.stride + (x >>> ssx)) < uP.data.size ∧
    vP.origin + ((yy >>> ssy) * vP.cfg.stride + (x >>> ssx)) < vP.data.size

/-- the value the loop writes for pixel (x, yy) -/
def pixelOf (yP uP vP : Plane) (ssx ssy : Nat) (f : Nat → Nat → Nat → V3) (x yy : Nat) : V3 :=
  f (Plane.sample yP x yy) (Plane.sample uP (x >>> ssx) (yy >>> ssy)) (Plane.sample vP (x >>> ssx) (yy >>> ssy))

theorem decRow_spec (yP uP vP : Plane) (w h ssx ssy : Nat) (f : Nat → Nat → Nat → V3) (yy : Nat) (hyy : yy < h)
    (hr : RowOk yP uP vP w ssx ssy yy) :
    ∀ k out, k ≤ w → out.size = w * h →
    ∃ out', decRow yP uP vP w ssx ssy f yy k out = .ok out' ∧ out'.size = w * h ∧
      (∀ i, i < w * h → (¬ ∃ x, w - k ≤ x ∧ x < w ∧ i = yy * w + x) → out'[i]? = out[i]?) ∧
      (∀ x, w - k ≤ x → x < w → out'[yy * w + x]? = some (pixelOf yP uP vP ssx ssy f x yy)) := by
  intro k
  induction k with
  | zero =>
    intro out _ hs
    refine ⟨out, rfl, hs, fun _ _ _ => rfl, ?_⟩
    intro x h1 h2; omega
  | succ k ih =>
    intro out hk hs
    have hx : w - (k+1) < w := by omega
    obtain ⟨h1, h2, h3⟩ := hr _ hx
    have hpos : yy * w + (w - (k+1)) < out.size := by
      rw [hs]
      calc yy * w + (w - (k+1)) < yy * w + w := by omega
        _ = (yy + 1) * w := by rw [Nat.add_mul]; simp
        _ ≤ h * w := Nat.mul_le_mul_right _ hyy
        _ = w * h := Nat.mul_comm _ _
    simp only [decRow, Plane.getU, h1, h2, h3, dif_pos, hpos]
    obtain ⟨out', e, hs', hkeep, hnew⟩ := ih (out.set (yy * w + (w - (k+1))) _ hpos) (by omega) (by simp [hs])
    refine ⟨out', e, hs', ?_, ?_⟩
    · intro i hi hno
      rw [hkeep i hi (by rintro ⟨x, a, b, c⟩; exact hno ⟨x, by omega, b, c⟩)]
      have : yy * w + (w - (k+1)) ≠ i := by
        intro e; exact hno ⟨w - (k+1), by omega, hx, e.symm⟩
      simp [Array.getElem?_set, this]
    · intro x hx1 hx2
      by_cases hxe : x = w - (k+1)
      · subst hxe
        rw [hkeep _ (by rw [← hs]; exact hpos) (by rintro ⟨x', a, b, c⟩; omega)]
        simp only [Array.getElem?_set, hpos, if_true]
        unfold pixelOf Plane.sample
        rw [index_eq, index_eq, index_eq, getElem!_pos yP.data _ h1, getElem!_pos uP.data _ h2, getElem!_pos vP.data _ h3]
      · exact hnew x (by omega) hx2

theorem decRows_spec (yP uP vP : Plane) (w h ssx ssy : Nat) (f : Nat → Nat → Nat → V3)
    (hr : ∀ yy, yy < h → RowOk yP uP vP w ssx ssy yy) :
    ∀ k out, k ≤ h → out.size = w * h →
    ∃ out', decRows yP uP vP w h ssx ssy f k out = .ok out' ∧ out'.size = w * h ∧
      (∀ x yy, x < w → yy < h - k → out'[yy * w + x]? = out[yy * w + x]?) ∧
      (∀ x yy, x < w → h - k ≤ yy → yy < h → out'[yy * w + x]? = some (pixelOf yP uP vP ssx ssy f x yy)) := by
  intro k
  induction k with
  | zero =>
    intro out _ hs
    refine ⟨out, rfl, hs, fun _ _ _ _ => rfl, ?_⟩
    intro x yy _ h1 h2; omega
  | succ k ih =>
    intro out hk hs
    have hy : h - (k+1) < h := by omega
    obtain ⟨o1, e1, s1, keep1, new1⟩ := decRow_spec yP uP vP w h ssx ssy f _ hy (hr _ hy) w out (Nat.le_refl _) hs
    obtain ⟨o2, e2, s2, keep2, new2⟩ := ih o1 (by omega) s1
    unfold decRows
    rw [e1]
    refine ⟨o2, e2, s2, ?_, ?_⟩
    · intro x yy hx hyy
      rw [keep2 x yy hx (by omega)]
      have hi : yy * w + x < w * h := by
        calc yy * w + x < yy * w + w := by omega
          _ = (yy + 1) * w := by rw [Nat.add_mul]; simp
          _ ≤ h * w := Nat.mul_le_mul_right _ (by omega)
          _ = w * h := Nat.mul_comm _ _
      apply keep1 _ hi
      rintro ⟨x', _, hx', he⟩
      -- yy * w + x = (h-(k+1)) * w + x' with x, x' < w forces yy = h-(k+1)
      have hlt : yy < h - (k+1) := hyy
      have : (yy + 1) * w ≤ (h - (k+1)) * w := Nat.mul_le_mul_right _ hlt
      rw [Nat.add_mul] at this
      omega
    · intro x yy hx h1 h2
      by_cases hye : yy = h - (k+1)
      · subst hye
        rw [keep2 x _ hx (by omega)]
        exact new1 x (by omega) hx
      · exact new2 x yy hx (by omega) h2

end FrameP
