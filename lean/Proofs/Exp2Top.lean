import Proofs.Exp2
/-! `exp2` of the math crate against `2^x` over the reals: polynomial certificates (kernel-evaluated), the choice of the
integer part, and the assembled accuracy theorems. -/
namespace Exp2
open F32 MathM Real PolyCert ExpPoly Horner

/-! ### certificates (re-evaluated by the kernel on the regenerated coefficients) -/

/-- `P(1 + g) / 2` as a polynomial in `g` -/
def PcHi : List ℚ := scaleP (1 / 2) (shiftP PcQ 1)

theorem cert_lo_edge : closeCells PcQ twoT (172 / 1000000) (-1 / 2 - 1 / 1024) (1 / 1024) 1 = true := by decide +kernel
theorem cert_lo : closeCells PcQ twoT (172 / 1000000) (-1 / 2) (1 / 64) 96 = true := by decide +kernel
theorem cert_hi : closeCells PcHi twoT (172 / 1000000) 0 (1 / 64) 33 = true := by decide +kernel
theorem cert_unit_edge : closeCells PcQ twoT (2 / 10000000) (-1 / 1024) (1 / 1024) 1 = true := by decide +kernel
theorem cert_unit : closeCells PcQ twoT (2 / 10000000) 0 (1 / 64) 64 = true := by decide +kernel
theorem cert_unit_hi : closeCells PcHi twoT (2 / 10000000) 0 (1 / 1024) 1 = true := by decide +kernel
theorem cert_horner : hornerOk (1502 / 1000) Pc = true ∧ (hornerBnd (1502 / 1000) Pc).2 ≤ 52 / 10 ^ 8 := by decide +kernel
theorem cert_horner_unit : hornerOk (1002 / 1000) Pc = true ∧ (hornerBnd (1002 / 1000) Pc).2 ≤ 29 / 10 ^ 8 := by decide +kernel

theorem evalR_PcHi (g : ℝ) : evalR PcHi g = evalR PcQ (1 + g) / 2 := by
  unfold PcHi; rw [evalR_scaleP, evalR_shiftP]; push_cast; ring

/-- upper representation: `f = 1 + g` -/
theorem close_of_hi (η : ℚ) (g : ℝ) (hg0 : 0 ≤ g) (hg1 : g ≤ 1) (h0 : 0 ≤ (η:ℝ)) (h1 : (η:ℝ) ≤ 1)
    (hc : |evalR PcHi g - evalR twoT g| ≤ (η:ℝ) * evalR twoT g) :
    |evalR PcQ (1 + g) - (2:ℝ) ^ (1 + g)| ≤ ((η:ℝ) + 3 / 10 ^ 9) * (2:ℝ) ^ (1 + g) := by
  have := two_pow_close PcHi η g (by rw [abs_le]; constructor <;> linarith) h0 h1 hc
  rw [evalR_PcHi] at this
  have h2 : (2:ℝ) ^ (1 + g) = 2 * (2:ℝ) ^ g := by
    rw [Real.rpow_add (by norm_num), Real.rpow_one]
  rw [h2]
  have e : evalR PcQ (1 + g) - 2 * (2:ℝ) ^ g = 2 * (evalR PcQ (1 + g) / 2 - (2:ℝ) ^ g) := by ring
  rw [e, abs_mul, abs_of_pos (by norm_num : (0:ℝ) < 2)]
  nlinarith

/-- the polynomial of `exp2` is within relative 1.72e-4 of `2^f` on the whole range of `fpart` -/
theorem poly_close_all (f : ℝ) (h1 : -1 / 2 - 1 / 1024 ≤ f) (h2 : f ≤ 3 / 2 + 1 / 1024) :
    |evalR PcQ f - (2:ℝ) ^ f| ≤ (1721 / 10 ^ 7) * (2:ℝ) ^ f := by
  have hpos : 0 < (2:ℝ) ^ f := Real.rpow_pos_of_pos (by norm_num) f
  have key : |evalR PcQ f - (2:ℝ) ^ f| ≤ (((172 / 1000000 : ℚ) : ℝ) + 3 / 10 ^ 9) * (2:ℝ) ^ f := by
    by_cases hf1 : f ≤ 1
    · apply two_pow_close PcQ _ f (by rw [abs_le]; constructor <;> linarith) (by push_cast; norm_num) (by push_cast; norm_num)
      by_cases hf2 : f ≤ -1 / 2
      · exact closeCells_sound _ _ _ _ _ 1 (by norm_num) (by norm_num) cert_lo_edge f (by push_cast; linarith) (by push_cast; linarith)
      · exact closeCells_sound _ _ _ _ _ 96 (by norm_num) (by norm_num) cert_lo f (by push_cast; linarith) (by push_cast; linarith)
    · have hg : f = 1 + (f - 1) := by ring
      rw [hg]
      apply close_of_hi _ (f - 1) (by linarith) (by linarith) (by push_cast; norm_num) (by push_cast; norm_num)
      exact closeCells_sound _ _ _ _ _ 33 (by norm_num) (by norm_num) cert_hi (f - 1) (by push_cast; linarith) (by push_cast; linarith)
  refine le_trans key ?_
  apply mul_le_mul_of_nonneg_right _ hpos.le
  push_cast; norm_num

/-- on `[0, 1]` (with a margin) the polynomial is within relative 2.1e-7 -/
theorem poly_close_unit (f : ℝ) (h1 : -1 / 1024 ≤ f) (h2 : f ≤ 1 + 1 / 1024) :
    |evalR PcQ f - (2:ℝ) ^ f| ≤ (21 / 10 ^ 8) * (2:ℝ) ^ f := by
  have hpos : 0 < (2:ℝ) ^ f := Real.rpow_pos_of_pos (by norm_num) f
  have key : |evalR PcQ f - (2:ℝ) ^ f| ≤ (((2 / 10000000 : ℚ) : ℝ) + 3 / 10 ^ 9) * (2:ℝ) ^ f := by
    by_cases hf1 : f ≤ 1
    · apply two_pow_close PcQ _ f (by rw [abs_le]; constructor <;> linarith) (by push_cast; norm_num) (by push_cast; norm_num)
      by_cases hf2 : f ≤ 0
      · exact closeCells_sound _ _ _ _ _ 1 (by norm_num) (by norm_num) cert_unit_edge f (by push_cast; linarith) (by push_cast; linarith)
      · exact closeCells_sound _ _ _ _ _ 64 (by norm_num) (by norm_num) cert_unit f (by push_cast; linarith) (by push_cast; linarith)
    · have hg : f = 1 + (f - 1) := by ring
      rw [hg]
      apply close_of_hi _ (f - 1) (by linarith) (by linarith) (by push_cast; norm_num) (by push_cast; norm_num)
      exact closeCells_sound _ _ _ _ _ 1 (by norm_num) (by norm_num) cert_unit_hi (f - 1) (by push_cast; linarith) (by push_cast; linarith)
  refine le_trans key ?_
  apply mul_le_mul_of_nonneg_right _ hpos.le
  push_cast; norm_num

/-- crude lower bound of `2^f` -/
theorem two_pow_lower (f : ℝ) (h : -51 / 100 ≤ f) : 64 / 100 ≤ (2:ℝ) ^ f := by
  rw [Real.rpow_def_of_pos (by norm_num : (0:ℝ) < 2)]
  have h1 := Real.add_one_le_exp (Real.log 2 * f)
  have hl1 : Real.log 2 ≤ 0.6931471808 := Real.log_two_lt_d9.le
  have hl0 : 0 ≤ Real.log 2 := Real.log_nonneg (by norm_num)
  by_cases hf : 0 ≤ f
  · have : 0 ≤ Real.log 2 * f := mul_nonneg hl0 hf
    linarith
  · have hf' : f < 0 := not_le.mp hf
    have : Real.log 2 * f ≥ 0.6931471808 * f := by nlinarith
    nlinarith

theorem two_pow_lower_unit (f : ℝ) (h : -1 / 1000 ≤ f) : 999 / 1000 ≤ (2:ℝ) ^ f := by
  rw [Real.rpow_def_of_pos (by norm_num : (0:ℝ) < 2)]
  have h1 := Real.add_one_le_exp (Real.log 2 * f)
  have hl1 : Real.log 2 ≤ 0.6931471808 := Real.log_two_lt_d9.le
  have hl0 : 0 ≤ Real.log 2 := Real.log_nonneg (by norm_num)
  by_cases hf : 0 ≤ f
  · have : 0 ≤ Real.log 2 * f := mul_nonneg hl0 hf
    linarith
  · have hf' : f < 0 := not_le.mp hf
    have : Real.log 2 * f ≥ 0.6931471808 * f := by nlinarith
    nlinarith


/-! ### the integer part chosen by the code -/

/-- `to_int_unchecked` is defined on finite values below 2^31 in magnitude -/
theorem toI32_ok (r : Nat) (hf : Finite r) (hb : |toReal r| < (2:ℝ)^(31:ℤ)) : ∃ i, toI32Unchecked r = .ok i := by
  obtain ⟨n, m, e, h⟩ := hf
  rw [toReal_of_decode _ _ _ _ h, abs_valR] at hb
  unfold toI32Unchecked
  rw [h]
  dsimp only
  have hle : (((if e ≥ 0 then m * 2 ^ e.toNat else m / 2 ^ (-e).toNat : ℕ)) : ℝ) ≤ (m:ℝ) * (2:ℝ)^e := by
    split
    · rename_i he
      push_cast
      rw [← zpow_natCast]
      have : ((e.toNat : ℕ) : ℤ) = e := by omega
      rw [this]
    · rename_i he
      have h2 : (0:ℝ) < (2:ℝ)^((-e).toNat) := by positivity
      calc ((m / 2 ^ (-e).toNat : ℕ) : ℝ) ≤ (m:ℝ) / (2:ℝ)^((-e).toNat) := by
            have := Nat.cast_div_le (α := ℝ) (m := m) (n := 2 ^ (-e).toNat)
            simpa using this
        _ = (m:ℝ) * (2:ℝ)^e := by
            rw [div_eq_mul_inv, ← zpow_natCast, ← zpow_neg]; congr 2; omega
  generalize (if e ≥ 0 then m * 2 ^ e.toNat else m / 2 ^ (-e).toNat) = t at *
  have ht : (t:ℝ) < (2:ℝ)^(31:ℤ) := lt_of_le_of_lt hle hb
  have ht' : t < 2147483648 := by
    have : (2:ℝ)^(31:ℤ) = ((2147483648:ℕ):ℝ) := by norm_num
    rw [this] at ht; exact_mod_cast ht
  have hr : -2147483648 ≤ (if n then -(t:Int) else (t:Int)) ∧ (if n then -(t:Int) else (t:Int)) ≤ 2147483647 := by
    cases n <;> simp <;> omega
  simp only [hr, and_self, if_true]
  exact ⟨_, rfl⟩

theorem rat_val (a : Nat) (h : finiteB a = true) : Finite a ∧ toReal a = ((ratOf a : ℚ) : ℝ) :=
  ⟨finite_of_finiteB a h, (ratOf_cast a).symm⟩

/-- the clamp bounds and the constant 0.5, evaluated on the regenerated constants -/
theorem cert_clamp : finiteB (neg C.exp2_f0) = true ∧ ratOf (neg C.exp2_f0) ≤ -124 ∧ finiteB C.exp2_f1 = true ∧
    124 ≤ ratOf C.exp2_f1 ∧ finiteB C.exp2_f2 = true ∧ ratOf C.exp2_f2 = 1 / 2 ∧ C.exp2_f2 < 4294967296 := by decide +kernel

/-- inside `[-124, 124]` the clamp does nothing -/
theorem clamp_id (x : Nat) (hx : Finite x) (h : |toReal x| ≤ 124) :
    Finite (exp2Clamp x) ∧ toReal (exp2Clamp x) = toReal x := by
  obtain ⟨c1, c2, c3, c4, _, _, _⟩ := cert_clamp
  obtain ⟨flo, vlo⟩ := rat_val _ c1
  obtain ⟨fhi, vhi⟩ := rat_val _ c3
  have hlo : toReal (neg C.exp2_f0) ≤ -124 := by rw [vlo]; exact_mod_cast c2
  have hhi : 124 ≤ toReal C.exp2_f1 := by rw [vhi]; exact_mod_cast c4
  obtain ⟨h1, h2⟩ := abs_le.mp h
  unfold exp2Clamp
  obtain ⟨hm1, hm2⟩ := max_val x (neg C.exp2_f0) hx flo
  have fmx : Finite (F32.max x (neg C.exp2_f0)) := by rcases hm1 with e | e <;> rw [e] <;> assumption
  have vmx : toReal (F32.max x (neg C.exp2_f0)) = toReal x := by rw [hm2]; exact max_eq_left (by linarith)
  obtain ⟨hn1, hn2⟩ := min_val (F32.max x (neg C.exp2_f0)) C.exp2_f1 fmx fhi
  refine ⟨by rcases hn1 with e | e <;> rw [e] <;> assumption, ?_⟩
  rw [hn2, vmx]; exact min_eq_left (by linarith)

/-- the integer part: truncation of `fl(x - 0.5)` -/
theorem ipart_spec (x : Nat) (hx : Finite x) (h : |toReal x| ≤ 124) :
    ∃ (i : Int) (s : ℝ), toI32Unchecked (sub (exp2Clamp x) C.exp2_f2) = .ok i ∧ |s - (toReal x - 1 / 2)| ≤ 1 / 10 ^ 5 ∧
      |(i:ℝ) - s| < 1 ∧ |(i:ℝ)| ≤ |s| ∧ 0 ≤ (i:ℝ) * s := by
  obtain ⟨_, _, _, _, c5, c6, c7⟩ := cert_clamp
  obtain ⟨fh, vh⟩ := rat_val _ c5
  have vh' : toReal C.exp2_f2 = 1 / 2 := by rw [vh, c6]; push_cast; ring
  obtain ⟨fc, vc⟩ := clamp_id x hx h
  have habs : |toReal x - 1 / 2| ≤ 125 := by
    have := abs_sub (toReal x) (1 / 2)
    have e : |(1:ℝ) / 2| = 1 / 2 := abs_of_pos (by norm_num)
    rw [e] at this; linarith
  obtain ⟨fs, es⟩ := sub_val (exp2Clamp x) C.exp2_f2 c7 fc fh (by rw [vc, vh']; apply fit_small; linarith)
  rw [vc, vh'] at es
  have hu' : u = 1 / 16777216 := u_val
  have he' : eta ≤ 1 / 10 ^ 40 := eta_le
  have es' : |toReal (sub (exp2Clamp x) C.exp2_f2) - (toReal x - 1 / 2)| ≤ 1 / 10 ^ 5 := by
    refine le_trans es ?_
    rw [hu']; nlinarith
  have hsb : |toReal (sub (exp2Clamp x) C.exp2_f2)| ≤ 126 := by
    have := abs_sub_abs_le_abs_sub (toReal (sub (exp2Clamp x) C.exp2_f2)) (toReal x - 1 / 2)
    linarith
  obtain ⟨i, hi⟩ := toI32_ok _ fs (lt_of_le_of_lt hsb (by norm_num))
  obtain ⟨_, t1, t2, t3⟩ := toI32_trunc _ i hi
  exact ⟨i, _, hi, es', t1, t2, t3⟩

theorem exp2_eq (fm : Bool) (x : Nat) (i : Int) (h : toI32Unchecked (sub (exp2Clamp x) C.exp2_f2) = .ok i) :
    exp2 fm x = .ok (exp2Val fm (exp2Clamp x) i) := by
  unfold exp2; simp only [h]

/-! ### accuracy of `exp2` -/

/-- **`exp2` on `[-124, 124]`**: within relative 1.734e-4 of `2^x` (both FMA modes) -/
theorem exp2_close (fm : Bool) (x : Nat) (hx : Finite x) (h : |toReal x| ≤ 124) :
    ∃ r, exp2 fm x = .ok r ∧ Finite r ∧ |toReal r - (2:ℝ) ^ (toReal x)| ≤ (1734 / 10 ^ 7) * (2:ℝ) ^ (toReal x) := by
  obtain ⟨i, s, hi, hs, t1, t2, t3⟩ := ipart_spec x hx h
  obtain ⟨fc, vc⟩ := clamp_id x hx h
  obtain ⟨h1, h2⟩ := abs_le.mp h
  obtain ⟨s1, s2⟩ := abs_le.mp hs
  obtain ⟨u1, u2⟩ := abs_lt.mp t1
  have hsabs : |s| ≤ 124 + 1 / 2 + 1 / 10 ^ 5 := by rw [abs_le]; constructor <;> linarith
  have hiabs : |(i:ℝ)| ≤ 124 + 1 / 2 + 1 / 10 ^ 5 := le_trans t2 hsabs
  obtain ⟨i1, i2⟩ := abs_le.mp hiabs
  have hi_hi : i ≤ 124 := by
    by_contra hc
    have : (125:ℤ) ≤ i := by omega
    have : (125:ℝ) ≤ (i:ℝ) := by exact_mod_cast this
    linarith
  have hi_lo : -125 ≤ i := by
    by_contra hc
    have : i ≤ (-126:ℤ) := by omega
    have : (i:ℝ) ≤ (-126:ℝ) := by exact_mod_cast this
    linarith
  obtain ⟨c1, c2⟩ := cert_horner
  have hE : (((hornerBnd (1502 / 1000) Pc).2 : ℚ) : ℝ) ≤ (82 / 10 ^ 8) * (64 / 100) := by
    have : (((hornerBnd (1502 / 1000) Pc).2 : ℚ) : ℝ) ≤ ((52 / 10 ^ 8 : ℚ) : ℝ) := by exact_mod_cast c2
    refine le_trans this ?_; push_cast; norm_num
  have hd : |toReal (exp2Clamp x) - (i:ℝ)| ≤ ((1502 / 1000 : ℚ) : ℝ) - 1 / 1000 := by
    rw [vc]; push_cast; rw [abs_le]; constructor <;> linarith
  obtain ⟨fr, er⟩ := exp2Val_close fm (exp2Clamp x) i (1502 / 1000) (1721 / 10 ^ 7) (82 / 10 ^ 8) (64 / 100) fc hi_lo hi_hi
    (by rw [vc]; linarith) hd (by push_cast; norm_num) c1 hE
    (by
      intro f hf
      rw [vc] at hf
      obtain ⟨f1, f2⟩ := abs_le.mp hf
      exact ⟨two_pow_lower f (by linarith), poly_close_all f (by linarith) (by linarith)⟩)
    (by norm_num) (by norm_num) (by norm_num) (by norm_num) (by norm_num)
  refine ⟨_, exp2_eq fm x i hi, fr, ?_⟩
  rw [vc] at er
  refine le_trans er ?_
  apply mul_le_mul_of_nonneg_right _ (Real.rpow_pos_of_pos (by norm_num) _).le
  norm_num

/-- **`exp2` when the fractional part lands in `[0, 1]`**: within relative 9.1e-7 of `2^x` -/
theorem exp2_unit (fm : Bool) (x : Nat) (hx : Finite x) (h : |toReal x| ≤ 124) (i : Int)
    (hi : toI32Unchecked (sub (exp2Clamp x) C.exp2_f2) = .ok i) (hd0 : 0 ≤ toReal x - (i:ℝ)) (hd1 : toReal x - (i:ℝ) ≤ 1) :
    ∃ r, exp2 fm x = .ok r ∧ Finite r ∧ |toReal r - (2:ℝ) ^ (toReal x)| ≤ (91 / 10 ^ 8) * (2:ℝ) ^ (toReal x) := by
  obtain ⟨fc, vc⟩ := clamp_id x hx h
  obtain ⟨h1, h2⟩ := abs_le.mp h
  have hi_hi : i ≤ 124 := by
    by_contra hc
    have : (125:ℤ) ≤ i := by omega
    have : (125:ℝ) ≤ (i:ℝ) := by exact_mod_cast this
    linarith
  have hi_lo : -125 ≤ i := by
    by_contra hc
    have : i ≤ (-126:ℤ) := by omega
    have : (i:ℝ) ≤ (-126:ℝ) := by exact_mod_cast this
    linarith
  obtain ⟨c1, c2⟩ := cert_horner_unit
  have hE : (((hornerBnd (1002 / 1000) Pc).2 : ℚ) : ℝ) ≤ (30 / 10 ^ 8) * (999 / 1000) := by
    have : (((hornerBnd (1002 / 1000) Pc).2 : ℚ) : ℝ) ≤ ((29 / 10 ^ 8 : ℚ) : ℝ) := by exact_mod_cast c2
    refine le_trans this ?_; push_cast; norm_num
  have hd : |toReal (exp2Clamp x) - (i:ℝ)| ≤ ((1002 / 1000 : ℚ) : ℝ) - 1 / 1000 := by
    rw [vc]; push_cast; rw [abs_le]; constructor <;> linarith
  obtain ⟨fr, er⟩ := exp2Val_close fm (exp2Clamp x) i (1002 / 1000) (21 / 10 ^ 8) (30 / 10 ^ 8) (999 / 1000) fc hi_lo hi_hi
    (by rw [vc]; linarith) hd (by push_cast; norm_num) c1 hE
    (by
      intro f hf
      rw [vc] at hf
      obtain ⟨f1, f2⟩ := abs_le.mp hf
      exact ⟨two_pow_lower_unit f (by linarith), poly_close_unit f (by linarith) (by linarith)⟩)
    (by norm_num) (by norm_num) (by norm_num) (by norm_num) (by norm_num)
  refine ⟨_, exp2_eq fm x i hi, fr, ?_⟩
  rw [vc] at er
  refine le_trans er ?_
  apply mul_le_mul_of_nonneg_right _ (Real.rpow_pos_of_pos (by norm_num) _).le
  norm_num

/-- integer arguments -/
theorem exp2_int (fm : Bool) (x : Nat) (n : Int) (hx : Finite x) (hn : toReal x = (n:ℝ)) (h : |toReal x| ≤ 124) :
    ∃ r, exp2 fm x = .ok r ∧ Finite r ∧ |toReal r - (2:ℝ) ^ (toReal x)| ≤ (91 / 10 ^ 8) * (2:ℝ) ^ (toReal x) := by
  obtain ⟨i, s, hi, hs, t1, t2, t3⟩ := ipart_spec x hx h
  obtain ⟨s1, s2⟩ := abs_le.mp hs
  obtain ⟨u1, u2⟩ := abs_lt.mp t1
  rw [hn] at s1 s2
  have key : (n:ℝ) - 1 ≤ (i:ℝ) ∧ (i:ℝ) ≤ (n:ℝ) := by
    by_cases hpos : 1 ≤ n
    · have hn1 : (1:ℝ) ≤ (n:ℝ) := by exact_mod_cast hpos
      have hs0 : 0 < s := by linarith
      have hi0 : 0 ≤ (i:ℝ) := by
        by_contra hc
        have := not_le.mp hc
        nlinarith
      rw [abs_of_nonneg hi0, abs_of_pos hs0] at t2
      -- i ≤ s < n - 0.49 and i > s - 1 > n - 1.51
      have a1 : (i:ℝ) < (n:ℝ) := by linarith
      have a2 : (n:ℝ) - 2 < (i:ℝ) := by linarith
      have b1 : i < n := by exact_mod_cast a1
      have b2 : n - 2 < i := by exact_mod_cast a2
      have : i = n - 1 := by omega
      subst this; push_cast; constructor <;> linarith
    · have hn0 : (n:ℝ) ≤ 0 := by exact_mod_cast (by omega : n ≤ 0)
      have hs0 : s < 0 := by linarith
      have hi0 : (i:ℝ) ≤ 0 := by
        by_contra hc
        have := not_le.mp hc
        nlinarith
      rw [abs_of_nonpos hi0, abs_of_neg hs0] at t2
      have a1 : (i:ℝ) < (n:ℝ) + 1 := by linarith
      have a2 : (n:ℝ) - 1 < (i:ℝ) := by linarith
      have b1 : i < n + 1 := by exact_mod_cast a1
      have b2 : n - 1 < i := by exact_mod_cast a2
      have : i = n := by omega
      subst this; constructor <;> linarith
  exact exp2_unit fm x hx h i hi (by rw [hn]; linarith) (by rw [hn]; linarith)

/-- arguments in `[0, 1]` -/
theorem exp2_frac (fm : Bool) (x : Nat) (hx : Finite x) (h0 : 0 ≤ toReal x) (h1 : toReal x ≤ 1) :
    ∃ r, exp2 fm x = .ok r ∧ Finite r ∧ |toReal r - (2:ℝ) ^ (toReal x)| ≤ (91 / 10 ^ 8) * (2:ℝ) ^ (toReal x) := by
  have h : |toReal x| ≤ 124 := by rw [abs_of_nonneg h0]; linarith
  obtain ⟨i, s, hi, hs, t1, t2, t3⟩ := ipart_spec x hx h
  obtain ⟨s1, s2⟩ := abs_le.mp hs
  have hsabs : |s| < 1 := by rw [abs_lt]; constructor <;> linarith
  have hiabs : |(i:ℝ)| < 1 := lt_of_le_of_lt t2 hsabs
  have : i = 0 := by
    obtain ⟨a, b⟩ := abs_lt.mp hiabs
    have a' : (-1:ℤ) < i := by exact_mod_cast a
    have b' : i < (1:ℤ) := by exact_mod_cast b
    omega
  subst this
  exact exp2_unit fm x hx h 0 hi (by push_cast; linarith) (by push_cast; linarith)

end Exp2
