import Proofs.Horner
import Proofs.F32Exact
import Proofs.HslBasics
/-! Real-number semantics of the pieces of `exp2`: truncation to `i32`, `i32 -> f32`, the exponent-field construction of
`2^ipart`, and the assembled value `2^ipart * poly5(fpart)`. -/
namespace Exp2
open F32 MathM Real PolyCert ExpPoly Horner

/-- `to_int_unchecked` truncates toward zero -/
theorem toI32_trunc (r : Nat) (i : Int) (h : toI32Unchecked r = .ok i) :
    Finite r ∧ |(i:ℝ) - toReal r| < 1 ∧ |(i:ℝ)| ≤ |toReal r| ∧ 0 ≤ (i:ℝ) * toReal r := by
  unfold toI32Unchecked at h
  cases hd : decode r with
  | nan => simp [hd] at h
  | inf s => simp [hd] at h
  | fin n m e =>
    rw [hd] at h
    dsimp only at h
    refine ⟨⟨n, m, e, hd⟩, ?_⟩
    rw [toReal_of_decode _ _ _ _ hd]
    have hlo : (((if e ≥ 0 then m * 2 ^ e.toNat else m / 2 ^ (-e).toNat : ℕ)) : ℝ) ≤ (m:ℝ) * (2:ℝ)^e ∧
        (m:ℝ) * (2:ℝ)^e < (((if e ≥ 0 then m * 2 ^ e.toNat else m / 2 ^ (-e).toNat : ℕ)) : ℝ) + 1 := by
      split
      · rename_i he
        push_cast
        rw [← zpow_natCast]
        have : ((e.toNat : ℕ) : ℤ) = e := by omega
        rw [this]
        constructor <;> linarith
      · rename_i he
        have h2 : (0:ℝ) < (2:ℝ)^((-e).toNat) := by positivity
        have hz : (2:ℝ)^e = ((2:ℝ)^((-e).toNat))⁻¹ := by
          rw [← zpow_natCast, ← zpow_neg]; congr 1; omega
        rw [hz]
        have hk : 0 < 2 ^ (-e).toNat := Nat.pos_of_ne_zero (by positivity)
        constructor
        · rw [← div_eq_mul_inv, le_div_iff₀ h2]
          have := Nat.div_mul_le_self m (2 ^ (-e).toNat)
          exact_mod_cast this
        · rw [← div_eq_mul_inv, div_lt_iff₀ h2]
          have := Nat.lt_succ_iff.mpr (le_refl (m / 2 ^ (-e).toNat))
          have h3 : m < (m / 2 ^ (-e).toNat + 1) * 2 ^ (-e).toNat := by
            have := Nat.div_add_mod m (2 ^ (-e).toNat)
            have := Nat.mod_lt m hk
            nlinarith
          exact_mod_cast h3
    generalize (if e ≥ 0 then m * 2 ^ e.toNat else m / 2 ^ (-e).toNat) = t at *
    have ht0 : (0:ℝ) ≤ (t:ℝ) := Nat.cast_nonneg t
    have hv0 : (0:ℝ) ≤ (m:ℝ) * (2:ℝ)^e := le_trans ht0 hlo.1
    unfold valR
    cases n
    · simp only [Bool.false_eq_true, if_false, one_mul] at h ⊢
      split at h
      · injection h with h
        subst h
        push_cast
        refine ⟨?_, ?_, ?_⟩
        · rw [abs_lt]; constructor <;> linarith [hlo.1, hlo.2]
        · rw [abs_of_nonneg ht0, abs_of_nonneg hv0]; exact hlo.1
        · exact mul_nonneg ht0 hv0
      · simp at h
    · simp only [if_true] at h ⊢
      split at h
      · injection h with h
        subst h
        push_cast
        refine ⟨?_, ?_, ?_⟩
        · rw [abs_lt]; constructor <;> linarith [hlo.1, hlo.2]
        · rw [abs_neg, abs_of_nonneg ht0]
          have : |(-1:ℝ) * ((m:ℝ) * (2:ℝ)^e)| = (m:ℝ) * (2:ℝ)^e := by rw [abs_mul]; simp [abs_of_nonneg hv0]
          rw [this]; exact hlo.1
        · nlinarith
      · simp at h

/-- small integers convert exactly -/
theorem ofInt_val (i : Int) (hi : i.natAbs ≤ 1000) : Finite (ofInt i) ∧ toReal (ofInt i) = (i:ℝ) := by
  unfold ofInt
  by_cases h0 : i = 0
  · subst h0
    simp only [if_true]
    exact ⟨c_zero.1, by rw [c_zero.2]; simp⟩
  · simp only [h0, if_false]
    have hfit : ((i.natAbs : ℕ) : ℝ) * (2:ℝ)^(0:ℤ) < (2:ℝ)^(127:ℤ) := by
      have : ((i.natAbs : ℕ) : ℝ) ≤ 1000 := by exact_mod_cast hi
      simp only [zpow_zero, mul_one]
      apply fit_small; linarith
    obtain ⟨m', e', hdec, hval⟩ := roundPack_exact (decide (i < 0)) i.natAbs 0 (by omega) (by norm_num) hfit
    refine ⟨⟨_, _, _, hdec⟩, ?_⟩
    rw [toReal_of_decode _ _ _ _ hdec]
    unfold valR
    rw [hval]
    simp only [zpow_zero, mul_one]
    by_cases hneg : i < 0
    · simp only [hneg, decide_true, if_true]
      have : ((i.natAbs : ℕ) : ℝ) = -(i:ℝ) := by
        rw [Nat.cast_natAbs, Int.cast_abs, abs_of_neg (by exact_mod_cast hneg)]
      rw [this]; ring
    · simp only [hneg, decide_false, Bool.false_eq_true, if_false, one_mul]
      rw [Nat.cast_natAbs, Int.cast_abs, abs_of_nonneg (by exact_mod_cast (not_lt.mp hneg))]

/-- the exponent-field construction `from_bits(((ipart + 127) << 23) as u32)` is `2^ipart` for normal exponents -/
theorem expi_val (i : Int) (hlo : -126 ≤ i) (hhi : i ≤ 127) :
    Finite (((i + (C.exp2_i0 : Int)) * (2 ^ C.exp2_i1 : Nat)) % 4294967296).toNat ∧
    toReal (((i + (C.exp2_i0 : Int)) * (2 ^ C.exp2_i1 : Nat)) % 4294967296).toNat = (2:ℝ) ^ i := by
  have h0 : C.exp2_i0 = 127 := rfl
  have h1 : C.exp2_i1 = 23 := rfl
  rw [h0, h1]
  obtain ⟨k, hk⟩ : ∃ k : Nat, (k:Int) = i + 127 := ⟨(i + 127).toNat, by omega⟩
  have hk1 : 1 ≤ k := by omega
  have hk2 : k ≤ 254 := by omega
  have hbits : (((i + ((127:Nat) : Int)) * ((2 ^ 23 : Nat) : Int)) % 4294967296).toNat = k * 8388608 := by
    have : (i + ((127:Nat) : Int)) = (k:Int) := by omega
    rw [this]
    have h2 : ((2 ^ 23 : Nat) : Int) = 8388608 := by norm_num
    rw [h2]
    have : (k:Int) * 8388608 % 4294967296 = (k:Int) * 8388608 := by
      apply Int.emod_eq_of_lt <;> omega
    rw [this]; omega
  rw [hbits]
  have hdec : decode (k * 8388608) = .fin false 8388608 ((k:Int) - 150) := by
    unfold decode
    simp only [consts.2.2.1, consts.2.2.2.1, consts.2.2.2.2.2.1, consts.2.2.2.2.2.2.2.1]
    have a1 : k * 8388608 % 8388608 = 0 := by omega
    have a2 : k * 8388608 / 8388608 % (255 + 1) = k := by
      rw [Nat.mul_div_cancel k (by norm_num : 0 < 8388608)]; omega
    have a3 : k * 8388608 / 2147483648 % 2 = 0 := by
      have : k * 8388608 / 2147483648 = 0 := by omega
      rw [this]
    simp only [a1, a2, a3]
    have n1 : ¬ k = 255 := by omega
    have n2 : ¬ k = 0 := by omega
    simp only [n1, n2, if_false]
    simp
    omega
  refine ⟨⟨_, _, _, hdec⟩, ?_⟩
  rw [toReal_of_decode _ _ _ _ hdec]
  unfold valR
  simp only [Bool.false_eq_true, if_false, one_mul]
  have : ((8388608:ℕ):ℝ) = (2:ℝ)^(23:ℤ) := by norm_num
  rw [this, ← zpow_add₀ (by norm_num : (2:ℝ) ≠ 0)]
  congr 1; omega

end Exp2

namespace Exp2
open F32 MathM Real PolyCert ExpPoly Horner

/-- chaining two relative errors -/
theorem rel_trans (x y z α β : ℝ) (hx : 0 ≤ x) (hα : 0 ≤ α) (hβ : 0 ≤ β) (h1 : |y - x| ≤ α * x) (h2 : |z - y| ≤ β * |y|) :
    |z - x| ≤ (α + β * (1 + α)) * x := by
  have hy : |y| ≤ (1 + α) * x := by
    have := abs_sub_abs_le_abs_sub y x
    rw [abs_of_nonneg hx] at this; linarith
  have : |z - x| ≤ |z - y| + |y - x| := by
    have e : z - x = (z - y) + (y - x) := by ring
    rw [e]; exact abs_add_le _ _
  have h3 : β * |y| ≤ β * ((1 + α) * x) := mul_le_mul_of_nonneg_left hy hβ
  nlinarith

/-- a small perturbation of the exponent -/
theorem two_pow_pert (a δ : ℝ) (hδ : |δ| ≤ 1 / 2) : |(2:ℝ) ^ (a + δ) - (2:ℝ) ^ a| ≤ 2 * |δ| * (2:ℝ) ^ a := by
  have h2 : (0:ℝ) < 2 := by norm_num
  rw [Real.rpow_add h2]
  have hpos : 0 < (2:ℝ) ^ a := Real.rpow_pos_of_pos h2 a
  have hd : (2:ℝ) ^ δ = exp (Real.log 2 * δ) := Real.rpow_def_of_pos h2 δ
  have hl0 : 0 ≤ Real.log 2 := Real.log_nonneg (by norm_num)
  have hl1 : Real.log 2 ≤ 1 := by have := Real.log_two_lt_d9; linarith
  have hz : |Real.log 2 * δ| ≤ |δ| := by
    rw [abs_mul, abs_of_nonneg hl0]; nlinarith [abs_nonneg δ]
  have := Real.abs_exp_sub_one_le (x := Real.log 2 * δ) (by linarith)
  have e : (2:ℝ) ^ a * (2:ℝ) ^ δ - (2:ℝ) ^ a = (2:ℝ) ^ a * ((2:ℝ) ^ δ - 1) := by ring
  rw [e, abs_mul, abs_of_pos hpos, hd]
  nlinarith [abs_nonneg (exp (Real.log 2 * δ) - 1)]

/-- `eta = 2^-150` is negligible against any value of at least `2^-124` -/
theorem eta_rel (v : ℝ) (hv : (2:ℝ) ^ (-124:ℤ) ≤ v) : eta ≤ (2 / 10 ^ 8) * v := by
  have e150 : eta = (2:ℝ) ^ (-150:ℤ) := rfl
  have e2 : (2:ℝ) ^ (-150:ℤ) = (2 / 10 ^ 8) * (2:ℝ) ^ (-124:ℤ) * ((2:ℝ) ^ (-26:ℤ) * (10 ^ 8 / 2)) := by
    have : (2:ℝ) ^ (-150:ℤ) = (2:ℝ) ^ (-124:ℤ) * (2:ℝ) ^ (-26:ℤ) := by
      rw [← zpow_add₀ (by norm_num : (2:ℝ) ≠ 0)]; norm_num
    rw [this]; ring
  have h26 : (2:ℝ) ^ (-26:ℤ) * (10 ^ 8 / 2) ≤ 1 := by norm_num
  have hp : (0:ℝ) < (2:ℝ) ^ (-124:ℤ) := by positivity
  rw [e150, e2]
  calc (2 / 10 ^ 8) * (2:ℝ) ^ (-124:ℤ) * ((2:ℝ) ^ (-26:ℤ) * (10 ^ 8 / 2)) ≤ (2 / 10 ^ 8) * (2:ℝ) ^ (-124:ℤ) * 1 :=
        mul_le_mul_of_nonneg_left h26 (by positivity)
    _ ≤ (2 / 10 ^ 8) * v := by rw [mul_one]; exact mul_le_mul_of_nonneg_left hv (by positivity)

/-- last step of the `exp2` analysis, over the reals -/
theorem combine_final (P a hval r η ρ e : ℝ) (hP : 0 < P) (ha : 0 < a)
    (hh : |hval - a| ≤ (26 / 10 ^ 8 + (η + ρ) * (1 + 26 / 10 ^ 8)) * a)
    (hr : |r - P * hval| ≤ (1 / 16777216) * (P * |hval|) + e) (he : e ≤ (2 / 10 ^ 8) * (P * a))
    (hη0 : 0 ≤ η) (hη1 : η ≤ 1 / 100) (hρ0 : 0 ≤ ρ) (hρ1 : ρ ≤ 1 / 100) :
    |r - P * a| ≤ (η + ρ + 4 / 10 ^ 7) * (P * a) := by
  have hval_le : |hval| ≤ (1 + 3 / 100) * a := by
    have := abs_sub_abs_le_abs_sub hval a
    rw [abs_of_pos ha] at this
    nlinarith
  have hsplit : |r - P * a| ≤ |r - P * hval| + P * |hval - a| := by
    have e1 : r - P * a = (r - P * hval) + P * (hval - a) := by ring
    rw [e1]
    refine le_trans (abs_add_le _ _) ?_
    rw [abs_mul, abs_of_pos hP]
  have h1 : P * |hval| ≤ P * ((1 + 3 / 100) * a) := mul_le_mul_of_nonneg_left hval_le hP.le
  have h3 : P * |hval - a| ≤ P * ((26 / 10 ^ 8 + (η + ρ) * (1 + 26 / 10 ^ 8)) * a) := mul_le_mul_of_nonneg_left hh hP.le
  have hPa : 0 < P * a := mul_pos hP ha
  have h4 : (η + ρ) * (P * a) ≤ (2 / 100) * (P * a) := by
    apply mul_le_mul_of_nonneg_right _ hPa.le; linarith
  nlinarith

/-- the coefficients of the `exp2` polynomial, as bit patterns and as exact rationals -/
def Pc : List Nat := [C.exp2_f3, C.exp2_f4, C.exp2_f5, C.exp2_f6, C.exp2_f7, C.exp2_f8]
def PcQ : List ℚ := Pc.map ratOf

/-- `expi` of the model -/
def expiBits (i : Int) : Nat := (((i + (C.exp2_i0 : Int)) * (2 ^ C.exp2_i1 : Nat)) % 4294967296).toNat

theorem exp2Val_eq (fm : Bool) (xc : Nat) (i : Int) :
    exp2Val fm xc i = mul (expiBits i) (hornerF fm (sub xc (ofInt i)) Pc) := rfl

/-- **Core of `exp2`**: with `i` the integer part chosen by the code, the assembled value `2^i * poly5(xc - i)` is within
relative `η + ρ + 4e-7` of `2^xc`, where `η` bounds the polynomial against `2^f` near `f = xc - i` and `ρ` bounds the
Horner rounding error relative to `2^f`. -/
theorem exp2Val_close (fm : Bool) (xc : Nat) (i : Int) (X : ℚ) (η ρ blo : ℝ)
    (hx : Finite xc) (hi1 : -125 ≤ i) (hi2 : i ≤ 124) (hxlo : -124 ≤ toReal xc)
    (hX : |toReal xc - (i:ℝ)| ≤ (X:ℝ) - 1 / 1000) (hX2 : (X:ℝ) ≤ 2)
    (hok : hornerOk X Pc = true) (hE : (((hornerBnd X Pc).2 : ℚ) : ℝ) ≤ ρ * blo)
    (hP : ∀ f : ℝ, |f - (toReal xc - (i:ℝ))| ≤ 1 / 10 ^ 6 → blo ≤ (2:ℝ) ^ f ∧ |evalR PcQ f - (2:ℝ) ^ f| ≤ η * (2:ℝ) ^ f)
    (hη0 : 0 ≤ η) (hη1 : η ≤ 1 / 100) (hρ0 : 0 ≤ ρ) (hρ1 : ρ ≤ 1 / 100) (hblo : 1 / 2 ≤ blo) :
    Finite (exp2Val fm xc i) ∧
    |toReal (exp2Val fm xc i) - (2:ℝ) ^ (toReal xc)| ≤ (η + ρ + 4 / 10 ^ 7) * (2:ℝ) ^ (toReal xc) := by
  have hu := u_pos; have he := eta_pos
  have hu' : u = 1 / 16777216 := u_val
  have he' : eta ≤ 1 / 10 ^ 40 := eta_le
  have h2 : (0:ℝ) < 2 := by norm_num
  -- the integer part as a float
  obtain ⟨hfi, hvi⟩ := ofInt_val i (by omega)
  have hwi : WF (ofInt i) := by
    unfold ofInt; split
    · unfold WF; omega
    · exact roundPack_wf _ _ _
  -- fpart
  set d := toReal xc - (i:ℝ) with hd
  have hdX : |d| ≤ 2 := by linarith
  obtain ⟨hff, hfe⟩ := sub_val xc (ofInt i) hwi hx hfi (by rw [hvi]; apply fit_small; linarith)
  rw [hvi] at hfe
  set fpv := toReal (sub xc (ofInt i)) with hfpv
  have hfd : |fpv - d| ≤ 1 / 10 ^ 6 := by
    refine le_trans hfe ?_
    rw [hu']; nlinarith
  have hfX : |fpv| ≤ (X:ℝ) := by
    have := abs_sub_abs_le_abs_sub fpv d
    linarith
  -- Horner
  obtain ⟨hhb, hhe⟩ := horner_err fm (sub xc (ofInt i)) X ⟨hff, hfX⟩ Pc hok
  set hval := toReal (hornerF fm (sub xc (ofInt i)) Pc) with hhval
  obtain ⟨hb0, hpoly⟩ := hP fpv hfd
  set b := (2:ℝ) ^ fpv with hb
  have hbpos : 0 < b := Real.rpow_pos_of_pos h2 _
  have hpe : |evalR PcQ fpv - b| ≤ η * b := hpoly
  have hhe' : |hval - evalR PcQ fpv| ≤ ρ * b := by
    refine le_trans hhe (le_trans hE ?_)
    exact mul_le_mul_of_nonneg_left hb0 hρ0
  have hhb' : |hval - b| ≤ (η + ρ) * b := by
    have : |hval - b| ≤ |hval - evalR PcQ fpv| + |evalR PcQ fpv - b| := by
      have e : hval - b = (hval - evalR PcQ fpv) + (evalR PcQ fpv - b) := by ring
      rw [e]; exact abs_add_le _ _
    nlinarith
  -- b versus a = 2^d
  set a := (2:ℝ) ^ d with ha
  have hapos : 0 < a := Real.rpow_pos_of_pos h2 _
  have hba : |b - a| ≤ (2 / 10 ^ 6) * a := by
    have := two_pow_pert d (fpv - d) (by linarith)
    have e : d + (fpv - d) = fpv := by ring
    rw [e] at this
    have : 2 * |fpv - d| * a ≤ 2 * (1 / 10 ^ 6) * a := by
      apply mul_le_mul_of_nonneg_right _ hapos.le; linarith
    linarith
  -- hmm: tighter: |fpv - d| ≤ u * 2 + eta
  have hfd2 : |fpv - d| ≤ 13 / 10 ^ 8 := by
    refine le_trans hfe ?_
    rw [hu']; nlinarith
  have hba2 : |b - a| ≤ (26 / 10 ^ 8) * a := by
    have := two_pow_pert d (fpv - d) (by linarith)
    have e : d + (fpv - d) = fpv := by ring
    rw [e] at this
    have : 2 * |fpv - d| * a ≤ 2 * (13 / 10 ^ 8) * a := by
      apply mul_le_mul_of_nonneg_right _ hapos.le; linarith
    linarith
  have hha : |hval - a| ≤ (26 / 10 ^ 8 + (η + ρ) * (1 + 26 / 10 ^ 8)) * a := by
    apply rel_trans a b hval _ _ hapos.le (by norm_num) (by linarith) hba2
    rw [abs_of_pos hbpos]; exact hhb'
  -- expi
  obtain ⟨hfe2, hve2⟩ := expi_val i (by omega) (by omega)
  have hpz : (0:ℝ) < (2:ℝ) ^ i := by positivity
  have hhv_abs : |hval| ≤ 5 := by
    have hb4 : b ≤ 4 := by
      have : b ≤ (2:ℝ) ^ (2:ℝ) := by
        apply Real.rpow_le_rpow_of_exponent_le (by norm_num)
        have := (abs_le.mp hfX).2; linarith
      refine le_trans this ?_
      rw [show (2:ℝ) = ((2:ℕ):ℝ) by norm_num, Real.rpow_natCast]; norm_num
    have := abs_sub_abs_le_abs_sub hval b
    rw [abs_of_pos hbpos] at this
    nlinarith
  have hpi127 : (2:ℝ) ^ i ≤ (2:ℝ) ^ (124:ℤ) := zpow_le_zpow_right₀ (by norm_num) hi2
  have hfit : |toReal (expiBits i)| * 5 < (2:ℝ) ^ (127:ℤ) := by
    unfold expiBits; rw [hve2, abs_of_pos hpz]
    have : (2:ℝ) ^ (127:ℤ) = (2:ℝ) ^ (124:ℤ) * 8 := by
      rw [show (127:ℤ) = 124 + 3 by norm_num, zpow_add₀ (by norm_num : (2:ℝ) ≠ 0)]; norm_num
    rw [this]
    have hp125 : (0:ℝ) < (2:ℝ) ^ (124:ℤ) := by positivity
    nlinarith
  obtain ⟨hmb, hme⟩ := mul_bnd (expiBits i) (hornerF fm (sub xc (ofInt i)) Pc) ((2:ℝ) ^ i) 5
    ⟨hfe2, by unfold expiBits; rw [hve2, abs_of_pos hpz]⟩ ⟨hhb.1, hhv_abs⟩
    (by unfold expiBits at hfit; rw [hve2, abs_of_pos hpz] at hfit; exact hfit)
  rw [exp2Val_eq]
  refine ⟨hmb.1, ?_⟩
  -- value
  have hx2 : (2:ℝ) ^ (toReal xc) = (2:ℝ) ^ i * a := by
    have : toReal xc = (i:ℝ) + d := by rw [hd]; ring
    rw [this, Real.rpow_add h2, Real.rpow_intCast]
  rw [hx2]
  have hve2' : toReal (expiBits i) = (2:ℝ) ^ i := hve2
  rw [hve2'] at hme
  have heta : eta ≤ (2 / 10 ^ 8) * ((2:ℝ) ^ i * a) := by
    apply eta_rel
    rw [← hx2, ← Real.rpow_intCast]
    apply Real.rpow_le_rpow_of_exponent_le (by norm_num)
    push_cast; exact hxlo
  have hme2 : |toReal (mul (expiBits i) (hornerF fm (sub xc (ofInt i)) Pc)) - (2:ℝ) ^ i * hval| ≤ (1 / 16777216) * ((2:ℝ) ^ i * |hval|) + eta := by
    obtain ⟨_, hme3⟩ := mul_bnd (expiBits i) (hornerF fm (sub xc (ofInt i)) Pc) ((2:ℝ) ^ i) |hval|
      ⟨hfe2, by rw [hve2', abs_of_pos hpz]⟩ ⟨hhb.1, le_refl _⟩
      (by
        have : (2:ℝ) ^ i * |hval| ≤ (2:ℝ) ^ i * 5 := mul_le_mul_of_nonneg_left hhv_abs hpz.le
        unfold expiBits at hfit; rw [hve2, abs_of_pos hpz] at hfit; linarith)
    rw [hve2', hu'] at hme3; exact hme3
  exact combine_final _ a hval _ η ρ eta hpz hapos hha hme2 heta hη0 hη1 hρ0 hρ1

end Exp2
