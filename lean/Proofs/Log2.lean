import Proofs.LogPoly
import Proofs.Exp2Top
/-! `log2` of the math crate against the real base-2 logarithm, for every positive normal argument (both FMA modes). -/
namespace Log2
open F32 MathM Real PolyCert ExpPoly Horner LogPoly

/-- the coefficients of the `log2` polynomial with their signs, as bit patterns and as exact rationals -/
def LcBits : List Nat := [C.log2_f1, F32.neg C.log2_f2, C.log2_f3, F32.neg C.log2_f4, C.log2_f5, F32.neg C.log2_f6]
def Lq : List ℚ := LcBits.map ratOf

theorem log2_eq (fm : Bool) (x : Nat) :
    log2 fm x = add (mul (hornerF fm ((x % 8388608) + C.log2_f0) LcBits) (sub ((x % 8388608) + C.log2_f0) C.log2_f7))
      (ofInt ((((x / 8388608) % 256 : Nat) : Int) - (C.log2_i3 : Int))) := rfl

/-- polynomial certificate: `|(m-1) L(m) - log₂ m| ≤ 8.8e-6` on `[1, 2]` -/
theorem cert_log : logCheck Lq (88 / 10 ^ 7) 8 = true := by decide +kernel

/-- per-piece Horner certificate on `m ∈ [1 + j/16, 1 + (j+1)/16]` -/
def pieceOk (j : Nat) : Bool :=
  let xl : ℚ := 1 + (j:ℚ) / 16
  let xh : ℚ := 1 + ((j:ℚ) + 1) / 16
  let r := hornerB2 xl xh LcBits
  hornerOk2 xl xh LcBits && decide (r.2.2 * (xh - 1) ≤ 219 / 10 ^ 8) && decide (-2 ≤ r.1) && decide (r.2.1 ≤ 2) && decide (r.2.2 ≤ 1 / 10 ^ 4)

theorem cert_pieces : (List.range 16).all pieceOk = true := by decide +kernel

theorem cert_consts : C.log2_f0 = 1065353216 ∧ C.log2_i3 = 127 ∧ finiteB C.log2_f7 = true ∧ ratOf C.log2_f7 = 1 ∧ C.log2_f7 < 4294967296 := by
  decide +kernel


theorem pieces_all (j : Nat) (hj : j < 16) : pieceOk j = true := by
  have h := cert_pieces
  rw [List.all_eq_true] at h
  exact h j (List.mem_range.mpr hj)

/-- decoding a positive normal bit pattern -/
theorem decode_normal (k f : Nat) (hk1 : 1 ≤ k) (hk2 : k ≤ 254) (hf : f < 8388608) :
    decode (k * 8388608 + f) = .fin false (f + 8388608) ((k:Int) - 150) := by
  unfold decode
  simp only [consts.2.2.1, consts.2.2.2.1, consts.2.2.2.2.2.1, consts.2.2.2.2.2.2.2.1]
  have a1 : (k * 8388608 + f) % 8388608 = f := by omega
  have a2 : (k * 8388608 + f) / 8388608 % (255 + 1) = k := by
    have : (k * 8388608 + f) / 8388608 = k := by omega
    rw [this]; omega
  have a3 : (k * 8388608 + f) / 2147483648 % 2 = 0 := by
    have : (k * 8388608 + f) / 2147483648 = 0 := by omega
    rw [this]
  simp only [a1, a2, a3]
  have n1 : ¬ k = 255 := by omega
  have n2 : ¬ k = 0 := by omega
  simp only [n1, n2, if_false]
  simp
  omega

/-- real-arithmetic core of the `log2` analysis: from the float steps to the error against `G(m) = (m-1) L(m)` -/
theorem pm_err (ph th pm Lm m E xh : ℝ) (hu : (0:ℝ) < 1 / 16777216)
    (hp : |ph - Lm| ≤ E) (ht : |th - (m - 1)| ≤ (1 / 16777216) * |m - 1| + 1 / 10 ^ 40)
    (hpm : |pm - ph * th| ≤ (1 / 16777216) * |ph * th| + 1 / 10 ^ 40)
    (hm1 : 1 ≤ m) (hmx : m ≤ xh) (hxh : xh ≤ 2) (hL : |Lm| ≤ 2) (hE0 : 0 ≤ E) (hE1 : E ≤ 1 / 10 ^ 4)
    (hEx : E * (xh - 1) ≤ 219 / 10 ^ 8) :
    |pm - Lm * (m - 1)| ≤ 25 / 10 ^ 7 := by
  have hm0 : 0 ≤ m - 1 := by linarith
  rw [abs_of_nonneg hm0] at ht
  have hth : |th| ≤ (m - 1) * (1 + 1 / 16777216) + 1 / 10 ^ 40 := by
    have := abs_sub_abs_le_abs_sub th (m - 1)
    rw [abs_of_nonneg hm0] at this; linarith
  have hph : |ph| ≤ 2 + E := by
    have := abs_sub_abs_le_abs_sub ph Lm; linarith
  have e : pm - Lm * (m - 1) = (pm - ph * th) + (ph - Lm) * th + Lm * (th - (m - 1)) := by ring
  rw [e]
  refine le_trans (abs_add_three _ _ _) ?_
  rw [abs_mul (ph - Lm), abs_mul Lm]
  have hpt : |ph * th| ≤ (2 + E) * ((m - 1) * (1 + 1 / 16777216) + 1 / 10 ^ 40) := by
    rw [abs_mul]; exact mul_le_mul hph hth (abs_nonneg _) (by linarith)
  have h1 : |ph - Lm| * |th| ≤ E * ((m - 1) * (1 + 1 / 16777216) + 1 / 10 ^ 40) :=
    mul_le_mul hp hth (abs_nonneg _) hE0
  have h2 : |Lm| * |th - (m - 1)| ≤ 2 * ((1 / 16777216) * (m - 1) + 1 / 10 ^ 40) :=
    mul_le_mul hL ht (abs_nonneg _) (by norm_num)
  have hEm : E * (m - 1) ≤ 219 / 10 ^ 8 := le_trans (mul_le_mul_of_nonneg_left (by linarith) hE0) hEx
  have hm2 : m - 1 ≤ 1 := by linarith
  set T := (m - 1) * (1 + 1 / 16777216) + 1 / 10 ^ 40 with hT
  have hT0 : 0 ≤ T := by rw [hT]; nlinarith
  have hT1 : T ≤ 1 + 1 / 10 ^ 7 := by rw [hT]; nlinarith
  have hET : E * T ≤ 2191 / 10 ^ 9 := by
    have : E * T = E * (m - 1) * (1 + 1 / 16777216) + E * (1 / 10 ^ 40) := by rw [hT]; ring
    rw [this]; nlinarith
  have hpt2 : |ph * th| ≤ 21 / 10 := by
    refine le_trans hpt ?_
    nlinarith
  nlinarith

/-- the mantissa float `from_bits((x & mantmask) | one_bits)` -/
theorem mant_val (f : Nat) (hf1 : f < 8388608) :
    Finite (f + C.log2_f0) ∧ toReal (f + C.log2_f0) = ((f:ℝ) + 8388608) / 8388608 := by
  obtain ⟨c0, _, _, _, _⟩ := cert_consts
  have hmd : decode (f + C.log2_f0) = .fin false (f + 8388608) (-23) := by
    rw [c0]
    have := decode_normal 127 f (by norm_num) (by norm_num) hf1
    have e : 127 * 8388608 + f = f + 1065353216 := by omega
    rw [e] at this; rw [this]
    norm_num
  refine ⟨⟨_, _, _, hmd⟩, ?_⟩
  rw [toReal_of_decode _ _ _ _ hmd]; unfold valR
  simp only [Bool.false_eq_true, if_false, one_mul]
  push_cast
  rw [show (-23:ℤ) = -(23:ℤ) by norm_num, zpow_neg]; norm_num; ring

theorem x_val (k f : Nat) (hk1 : 1 ≤ k) (hk2 : k ≤ 254) (hf1 : f < 8388608) :
    toReal (k * 8388608 + f) = (((f:ℝ) + 8388608) / 8388608) * (2:ℝ) ^ ((k:ℤ) - 127) := by
  rw [toReal_of_decode _ _ _ _ (decode_normal k f hk1 hk2 hf1)]; unfold valR
  simp only [Bool.false_eq_true, if_false, one_mul]
  push_cast
  have : (2:ℝ) ^ ((k:ℤ) - 150) = (2:ℝ) ^ ((k:ℤ) - 127) * (2:ℝ) ^ (-23:ℤ) := by
    rw [← zpow_add₀ (by norm_num : (2:ℝ) ≠ 0)]; congr 1; ring
  rw [this, show (-23:ℤ) = -(23:ℤ) by norm_num, zpow_neg]; norm_num; ring

/-- Horner stage on the piece containing `m` -/
theorem horner_stage (fm : Bool) (a : Nat) (ha : Finite a) (hm1 : 1 ≤ toReal a) (hm2 : toReal a < 2) :
    ∃ E xh : ℝ, Finite (hornerF fm a LcBits) ∧ |toReal (hornerF fm a LcBits) - evalR Lq (toReal a)| ≤ E ∧
      |evalR Lq (toReal a)| ≤ 2 ∧ 0 ≤ E ∧ E ≤ 1 / 10 ^ 4 ∧ E * (xh - 1) ≤ 219 / 10 ^ 8 ∧ toReal a ≤ xh ∧ xh ≤ 2 := by
  set m := toReal a with hm
  obtain ⟨j, hj, hjl, hjh⟩ : ∃ j : Nat, j < 16 ∧ (1 + (j:ℝ) / 16 ≤ m) ∧ (m ≤ 1 + ((j:ℝ) + 1) / 16) := by
    refine ⟨⌊(m - 1) * 16⌋₊, ?_, ?_, ?_⟩
    · rw [Nat.floor_lt (by nlinarith)]; push_cast; nlinarith
    · have := Nat.floor_le (a := (m - 1) * 16) (by nlinarith); linarith
    · have := Nat.lt_floor_add_one ((m - 1) * 16); linarith
  have hp := pieces_all j hj
  unfold pieceOk at hp
  simp only [Bool.and_eq_true, decide_eq_true_eq] at hp
  obtain ⟨⟨⟨⟨hok, hEx⟩, hlo2⟩, hhi2⟩, hE4⟩ := hp
  obtain ⟨hpf, hplo, hphi, hperr⟩ := horner_err2 fm a (1 + (j:ℚ) / 16) (1 + ((j:ℚ) + 1) / 16) ha
    (by push_cast; exact hjl) (by push_cast; exact hjh) (by positivity) LcBits hok
  generalize hornerB2 (1 + (j:ℚ) / 16) (1 + ((j:ℚ) + 1) / 16) LcBits = r at *
  have hj15 : (j:ℝ) ≤ 15 := by exact_mod_cast (by omega : j ≤ 15)
  refine ⟨((r.2.2 : ℚ) : ℝ), 1 + ((j:ℝ) + 1) / 16, hpf, hperr, ?_, le_trans (abs_nonneg _) hperr, ?_, ?_, hjh, by linarith⟩
  · have a1 : ((-2 : ℚ) : ℝ) ≤ ((r.1 : ℚ) : ℝ) := Rat.cast_le.mpr hlo2
    have b1 : ((r.2.1 : ℚ) : ℝ) ≤ ((2 : ℚ) : ℝ) := Rat.cast_le.mpr hhi2
    push_cast at a1 b1
    unfold Lq
    rw [abs_le]; constructor <;> linarith
  · have h := (Rat.cast_le (K := ℝ)).mpr hE4
    push_cast at h; exact h
  · have h := (Rat.cast_le (K := ℝ)).mpr hEx
    push_cast at h; linarith

/-- the product stage: `fl(poly * (mant - 1))` against `log₂ mant` -/
theorem pm_stage (fm : Bool) (a : Nat) (ha : Finite a) (hm1 : 1 ≤ toReal a) (hm2 : toReal a < 2) :
    Finite (mul (hornerF fm a LcBits) (sub a C.log2_f7)) ∧
    |toReal (mul (hornerF fm a LcBits) (sub a C.log2_f7)) - Real.logb 2 (toReal a)| ≤ 11301 / 10 ^ 9 := by
  obtain ⟨_, _, c7f, c7v, c7w⟩ := cert_consts
  have hu' : u = 1 / 16777216 := u_val
  have he' : eta ≤ 1 / 10 ^ 40 := eta_le
  obtain ⟨E, xh, hpf, hperr, hLabs, hE0, hE4, hEx, hmx, hxh2⟩ := horner_stage fm a ha hm1 hm2
  set m := toReal a with hm
  set Lm := evalR Lq m with hLm
  set ph := toReal (hornerF fm a LcBits) with hph
  obtain ⟨f7, v7⟩ := Exp2.rat_val _ c7f
  have v7' : toReal C.log2_f7 = 1 := by rw [v7, c7v]; norm_num
  obtain ⟨htf, hte⟩ := sub_val a C.log2_f7 c7w ha f7 (by rw [v7']; apply fit_small; rw [abs_le]; constructor <;> linarith)
  rw [v7'] at hte
  set th := toReal (sub a C.log2_f7) with hth
  have hte' : |th - (m - 1)| ≤ (1 / 16777216) * |m - 1| + 1 / 10 ^ 40 := by rw [← hu']; linarith
  have hm1abs : |m - 1| ≤ 1 := by rw [abs_le]; constructor <;> linarith
  have hthabs : |th| ≤ 2 := by
    have := abs_sub_abs_le_abs_sub th (m - 1)
    nlinarith
  have hphabs : |ph| ≤ 3 := by
    have := abs_sub_abs_le_abs_sub ph Lm
    linarith
  obtain ⟨hmb, hme⟩ := mul_bnd (hornerF fm a LcBits) (sub a C.log2_f7) |ph| |th|
    ⟨hpf, le_refl _⟩ ⟨htf, le_refl _⟩ (fit_small _ (by nlinarith [abs_nonneg ph, abs_nonneg th]))
  refine ⟨hmb.1, ?_⟩
  set pm := toReal (mul (hornerF fm a LcBits) (sub a C.log2_f7)) with hpm
  have hme' : |pm - ph * th| ≤ (1 / 16777216) * |ph * th| + 1 / 10 ^ 40 := by
    rw [abs_mul, ← hu']; linarith
  have hG := pm_err ph th pm Lm m E xh (by norm_num) hperr hte' hme' hm1 hmx hxh2 hLabs hE0 hE4 hEx
  have hc := logCheck_sound Lq (88 / 10 ^ 7) 8 (by norm_num) cert_log m hm1 hm2.le
  have hGof : evalR (Gof Lq) m = Lm * (m - 1) := by
    unfold Gof; rw [evalR_mulP]; simp only [evalR_cons, evalR_nil]; push_cast; ring
  rw [hGof] at hc
  have e : pm - Real.logb 2 m = (pm - Lm * (m - 1)) + (Lm * (m - 1) - Real.logb 2 m) := by ring
  rw [e]
  refine le_trans (abs_add_le _ _) ?_
  push_cast at hc
  linarith

/-- last step over the reals -/
theorem final_add (res pm ev lg : ℝ) (hre : |res - (pm + ev)| ≤ (1 / 16777216) * |pm + ev| + 1 / 10 ^ 40)
    (hpl : |pm - lg| ≤ 11301 / 10 ^ 9) : |res - (lg + ev)| ≤ 114 / 10 ^ 7 + (1 / 16777216) * |lg + ev| := by
  have hsum : |pm + ev| ≤ |lg + ev| + 11301 / 10 ^ 9 := by
    have e : pm + ev = (lg + ev) + (pm - lg) := by ring
    rw [e]; exact le_trans (abs_add_le _ _) (by linarith)
  have e : res - (lg + ev) = (res - (pm + ev)) + (pm - lg) := by ring
  rw [e]
  refine le_trans (abs_add_le _ _) ?_
  nlinarith [abs_nonneg (lg + ev)]

/-- **`log2` on every positive normal argument**: within `1.14e-5 + 2^-24 |log₂ x|` of the real logarithm -/
theorem log2_close (fm : Bool) (x : Nat) (h1 : 8388608 ≤ x) (h2 : x < 2139095040) :
    Finite (log2 fm x) ∧
    |toReal (log2 fm x) - Real.logb 2 (toReal x)| ≤ 114 / 10 ^ 7 + (1 / 16777216) * |Real.logb 2 (toReal x)| := by
  obtain ⟨c0, c3, _, _, _⟩ := cert_consts
  have hu' : u = 1 / 16777216 := u_val
  have he' : eta ≤ 1 / 10 ^ 40 := eta_le
  set k := x / 8388608 with hk
  set f := x % 8388608 with hf
  have hx : x = k * 8388608 + f := by omega
  have hk1 : 1 ≤ k := by omega
  have hk2 : k ≤ 254 := by omega
  have hf1 : f < 8388608 := by omega
  have hkm : k % 256 = k := by omega
  obtain ⟨hmf, hmv⟩ := mant_val f hf1
  have hfr : (f:ℝ) < 8388608 := by exact_mod_cast hf1
  have hf0 : (0:ℝ) ≤ (f:ℝ) := Nat.cast_nonneg f
  have hm1 : 1 ≤ toReal (f + C.log2_f0) := by rw [hmv, le_div_iff₀ (by norm_num)]; linarith
  have hm2 : toReal (f + C.log2_f0) < 2 := by rw [hmv, div_lt_iff₀ (by norm_num)]; linarith
  have hxv : toReal x = toReal (f + C.log2_f0) * (2:ℝ) ^ ((k:ℤ) - 127) := by rw [hmv, hx]; exact x_val k f hk1 hk2 hf1
  have hlog : Real.logb 2 (toReal x) = Real.logb 2 (toReal (f + C.log2_f0)) + (((k:ℤ) - 127 : ℤ) : ℝ) := by
    rw [hxv, Real.logb_mul (by linarith) (by positivity), ← Real.rpow_intCast, Real.logb_rpow (by norm_num) (by norm_num)]
  obtain ⟨hpmf, hpme⟩ := pm_stage fm (f + C.log2_f0) hmf hm1 hm2
  have hexp : ((((x / 8388608) % 256 : Nat) : Int) - (C.log2_i3 : Int)) = (k:ℤ) - 127 := by
    rw [c3, ← hk, hkm]; norm_num
  obtain ⟨hef, hev⟩ := Exp2.ofInt_val ((k:ℤ) - 127) (by omega)
  rw [log2_eq, hexp, ← hf, hlog]
  have hlb : |Real.logb 2 (toReal (f + C.log2_f0))| ≤ 1 := by
    have a : 0 ≤ Real.logb 2 (toReal (f + C.log2_f0)) := Real.logb_nonneg (by norm_num) hm1
    have b : Real.logb 2 (toReal (f + C.log2_f0)) ≤ 1 := by
      rw [Real.logb_le_iff_le_rpow (by norm_num) (by linarith)]; norm_num; linarith
    rw [abs_of_nonneg a]; exact b
  have hpmabs : |toReal (mul (hornerF fm (f + C.log2_f0) LcBits) (sub (f + C.log2_f0) C.log2_f7))| ≤ 2 := by
    have := abs_sub_abs_le_abs_sub (toReal (mul (hornerF fm (f + C.log2_f0) LcBits) (sub (f + C.log2_f0) C.log2_f7))) (Real.logb 2 (toReal (f + C.log2_f0)))
    linarith
  have hkabs : |(((k:ℤ) - 127 : ℤ) : ℝ)| ≤ 127 := by
    have a : (-127:ℤ) ≤ (k:ℤ) - 127 := by omega
    have b : (k:ℤ) - 127 ≤ 127 := by omega
    rw [abs_le]; constructor
    · exact_mod_cast a
    · exact_mod_cast b
  obtain ⟨hrf, hre⟩ := add_val (mul (hornerF fm (f + C.log2_f0) LcBits) (sub (f + C.log2_f0) C.log2_f7)) (ofInt ((k:ℤ) - 127))
    hpmf hef (by
      rw [hev]; apply fit_small
      have := abs_add_le (toReal (mul (hornerF fm (f + C.log2_f0) LcBits) (sub (f + C.log2_f0) C.log2_f7))) (((k:ℤ) - 127 : ℤ) : ℝ)
      linarith)
  rw [hev] at hre
  refine ⟨hrf, ?_⟩
  apply final_add _ _ _ _ _ hpme
  rw [hu'] at hre
  linarith

end Log2
