import Proofs.F64Ops
/-! Bounded-operand forms of the standard-model lemmas: absolute error bounds from magnitude bounds, ready for chaining. -/
namespace F64
open Real

theorem u_pos : 0 < u := by unfold u; positivity
theorem eta_pos : 0 < eta := by unfold eta; positivity
theorem u_val : u = 1 / 9007199254740992 := by unfold u; norm_num
theorem eta_le : eta ≤ 1 / 10 ^ 40 := by
  unfold eta
  have h1 : (2:ℝ)^(-1075:ℤ) ≤ (2:ℝ)^(-133:ℤ) := zpow_le_zpow_right₀ (by norm_num) (by norm_num)
  have h2 : (2:ℝ)^(-133:ℤ) = 1 / (2:ℝ)^(133:ℕ) := by rw [zpow_neg, one_div]; norm_num
  have h3 : (10:ℝ)^40 ≤ (2:ℝ)^(133:ℕ) := by norm_num
  have h4 : 1 / (2:ℝ)^(133:ℕ) ≤ 1 / (10:ℝ)^40 := one_div_le_one_div_of_le (by positivity) h3
  exact le_trans h1 (h2 ▸ h4)

theorem big_pow : (100000:ℝ) < (2:ℝ)^(1023:ℤ) := by
  have h1 : (2:ℝ)^(17:ℤ) ≤ (2:ℝ)^(1023:ℤ) := zpow_le_zpow_right₀ (by norm_num) (by norm_num)
  have h2 : (100000:ℝ) < (2:ℝ)^(17:ℤ) := by norm_num
  exact lt_of_lt_of_le h2 h1

theorem fit_small (x : ℝ) (h : x ≤ 100000) : x < (2:ℝ)^(1023:ℤ) := lt_of_le_of_lt h big_pow

/-- a finite float with a magnitude bound -/
def Bnd (a : Nat) (A : ℝ) : Prop := Finite a ∧ |toReal a| ≤ A

theorem mul_bnd (a b : Nat) (A B : ℝ) (ha : Bnd a A) (hb : Bnd b B) (hAB : A * B < (2:ℝ)^(1023:ℤ)) :
    Bnd (mul a b) (A * B * (1 + u) + eta) ∧ |toReal (mul a b) - toReal a * toReal b| ≤ u * (A * B) + eta := by
  obtain ⟨⟨n1, m1, e1, h1⟩, hA⟩ := ha
  obtain ⟨⟨n2, m2, e2, h2⟩, hB⟩ := hb
  have hA0 : 0 ≤ A := le_trans (abs_nonneg _) hA
  have hB0 : 0 ≤ B := le_trans (abs_nonneg _) hB
  have hprod : |toReal a * toReal b| ≤ A * B := by rw [abs_mul]; exact mul_le_mul hA hB (abs_nonneg _) hA0
  have hfit : m1 * m2 ≠ 0 → (e1 + e2) + ((Nat.log2 (m1*m2) + 1 : Nat) : Int) ≤ 1023 := by
    intro hz
    apply fit_of_lt _ _ hz
    have : ((m1 * m2 : ℕ) : ℝ) * (2:ℝ)^(e1 + e2) = |toReal a * toReal b| := by
      rw [toReal_of_decode _ _ _ _ h1, toReal_of_decode _ _ _ _ h2, abs_mul, abs_valR, abs_valR, zpow_add₀ (by norm_num : (2:ℝ) ≠ 0)]
      push_cast; ring
    rw [this]; exact lt_of_le_of_lt hprod hAB
  obtain ⟨hf, hv⟩ := mul_val a b n1 n2 m1 m2 e1 e2 h1 h2 hfit
  have hv' : |toReal (mul a b) - toReal a * toReal b| ≤ u * (A * B) + eta := by
    have := mul_le_mul_of_nonneg_left hprod u_pos.le
    have h1075 : (2:ℝ)^(-1075:ℤ) = eta := rfl
    have h53 : (2:ℝ)^(-53:ℤ) = u := rfl
    rw [h1075, h53] at hv
    linarith
  refine ⟨⟨hf, ?_⟩, hv'⟩
  have := abs_sub_abs_le_abs_sub (toReal (mul a b)) (toReal a * toReal b)
  nlinarith [u_pos]

theorem add_bnd (a b : Nat) (A B : ℝ) (ha : Bnd a A) (hb : Bnd b B) (hAB : A + B < (2:ℝ)^(1023:ℤ)) :
    Bnd (add a b) ((A + B) * (1 + u) + eta) ∧ |toReal (add a b) - (toReal a + toReal b)| ≤ u * (A + B) + eta := by
  obtain ⟨fa, hA⟩ := ha
  obtain ⟨fb, hB⟩ := hb
  have hsum : |toReal a + toReal b| ≤ A + B := le_trans (abs_add_le _ _) (add_le_add hA hB)
  obtain ⟨hf, hv⟩ := add_val a b fa fb (lt_of_le_of_lt hsum hAB)
  have hv' : |toReal (add a b) - (toReal a + toReal b)| ≤ u * (A + B) + eta := by
    refine le_trans hv ?_
    have := mul_le_mul_of_nonneg_left hsum u_pos.le
    linarith
  refine ⟨⟨hf, ?_⟩, hv'⟩
  have := abs_sub_abs_le_abs_sub (toReal (add a b)) (toReal a + toReal b)
  nlinarith [u_pos]

theorem fma_bnd (a b c : Nat) (A B Cc : ℝ) (ha : Bnd a A) (hb : Bnd b B) (hc : Bnd c Cc) (hfit : A * B + Cc < (2:ℝ)^(1023:ℤ)) :
    Bnd (fma a b c) ((A * B + Cc) * (1 + u) + eta) ∧ |toReal (fma a b c) - (toReal a * toReal b + toReal c)| ≤ u * (A * B + Cc) + eta := by
  obtain ⟨fa, hA⟩ := ha
  obtain ⟨fb, hB⟩ := hb
  obtain ⟨fc, hC⟩ := hc
  have hA0 : 0 ≤ A := le_trans (abs_nonneg _) hA
  have hprod : |toReal a * toReal b| ≤ A * B := by rw [abs_mul]; exact mul_le_mul hA hB (abs_nonneg _) hA0
  have hsum : |toReal a * toReal b + toReal c| ≤ A * B + Cc := le_trans (abs_add_le _ _) (add_le_add hprod hC)
  obtain ⟨hf, hv⟩ := fma_val a b c fa fb fc (lt_of_le_of_lt hsum hfit)
  have hv' : |toReal (fma a b c) - (toReal a * toReal b + toReal c)| ≤ u * (A * B + Cc) + eta := by
    refine le_trans hv ?_
    have := mul_le_mul_of_nonneg_left hsum u_pos.le
    linarith
  refine ⟨⟨hf, ?_⟩, hv'⟩
  have := abs_sub_abs_le_abs_sub (toReal (fma a b c)) (toReal a * toReal b + toReal c)
  nlinarith [u_pos]

end F64

namespace F64
open Real

/-- bound expressions of the unfused 3-term dot product `a*x + (b*y + c*z)` -/
noncomputable def T1 (C Z : ℝ) : ℝ := C * Z * (1 + u) + eta
noncomputable def T3 (B Y C Z : ℝ) : ℝ := (T1 B Y + T1 C Z) * (1 + u) + eta
noncomputable def T5 (A X B Y C Z : ℝ) : ℝ := (T1 A X + T3 B Y C Z) * (1 + u) + eta
noncomputable def E5 (A X B Y C Z : ℝ) : ℝ :=
  (u * (C * Z) + eta) + (u * (B * Y) + eta) + (u * (T1 B Y + T1 C Z) + eta) + (u * (A * X) + eta) + (u * (T1 A X + T3 B Y C Z) + eta)

/-- unfused dot product: `add (mul a x) (add (mul b y) (mul c z))` -/
theorem dot3_nofma (a x b y c z : Nat) (A X B Y C Z : ℝ) (ha : Bnd a A) (hx : Bnd x X) (hb : Bnd b B) (hy : Bnd y Y) (hc : Bnd c C) (hz : Bnd z Z)
    (hsmall : A * X ≤ 1000 ∧ B * Y ≤ 1000 ∧ C * Z ≤ 1000) :
    Bnd (add (mul a x) (add (mul b y) (mul c z))) (T5 A X B Y C Z) ∧
    |toReal (add (mul a x) (add (mul b y) (mul c z))) - (toReal a * toReal x + (toReal b * toReal y + toReal c * toReal z))| ≤ E5 A X B Y C Z := by
  have hu := u_pos; have he := eta_pos
  have hu1 : u ≤ 1 := by rw [u_val]; norm_num
  have he1 : eta ≤ 1 := le_trans eta_le (by norm_num)
  have hA0 : 0 ≤ A * X := mul_nonneg (le_trans (abs_nonneg _) ha.2) (le_trans (abs_nonneg _) hx.2)
  have hB0 : 0 ≤ B * Y := mul_nonneg (le_trans (abs_nonneg _) hb.2) (le_trans (abs_nonneg _) hy.2)
  have hC0 : 0 ≤ C * Z := mul_nonneg (le_trans (abs_nonneg _) hc.2) (le_trans (abs_nonneg _) hz.2)
  obtain ⟨b1, e1⟩ := mul_bnd c z C Z hc hz (fit_small _ (by linarith [hsmall.2.2]))
  obtain ⟨b2, e2⟩ := mul_bnd b y B Y hb hy (fit_small _ (by linarith [hsmall.2.1]))
  have hT1c : T1 C Z ≤ 2001 := by unfold T1; nlinarith [hsmall.2.2]
  have hT1b : T1 B Y ≤ 2001 := by unfold T1; nlinarith [hsmall.2.1]
  have hT1a : T1 A X ≤ 2001 := by unfold T1; nlinarith [hsmall.1]
  have hT1c0 : 0 ≤ T1 C Z := by unfold T1; positivity
  have hT1b0 : 0 ≤ T1 B Y := by unfold T1; positivity
  have hT1a0 : 0 ≤ T1 A X := by unfold T1; positivity
  obtain ⟨b3, e3⟩ := add_bnd (mul b y) (mul c z) (T1 B Y) (T1 C Z) b2 b1 (fit_small _ (by linarith))
  obtain ⟨b4, e4⟩ := mul_bnd a x A X ha hx (fit_small _ (by linarith [hsmall.1]))
  have hT3 : T3 B Y C Z ≤ 8006 := by unfold T3; nlinarith
  have hT30 : 0 ≤ T3 B Y C Z := by unfold T3; positivity
  obtain ⟨b5, e5⟩ := add_bnd (mul a x) (add (mul b y) (mul c z)) (T1 A X) (T3 B Y C Z) b4 b3 (fit_small _ (by linarith))
  refine ⟨b5, ?_⟩
  unfold E5
  rw [abs_le] at e1 e2 e3 e4 e5 ⊢
  constructor <;> linarith [e1.1, e1.2, e2.1, e2.2, e3.1, e3.2, e4.1, e4.2, e5.1, e5.2]

/-- bound expressions of the fused variant `fma a x (fma b y (mul c z))` -/
noncomputable def F2 (B Y C Z : ℝ) : ℝ := (B * Y + T1 C Z) * (1 + u) + eta
noncomputable def F3 (A X B Y C Z : ℝ) : ℝ := (A * X + F2 B Y C Z) * (1 + u) + eta
noncomputable def EF (A X B Y C Z : ℝ) : ℝ := (u * (C * Z) + eta) + (u * (B * Y + T1 C Z) + eta) + (u * (A * X + F2 B Y C Z) + eta)

theorem dot3_fma (a x b y c z : Nat) (A X B Y C Z : ℝ) (ha : Bnd a A) (hx : Bnd x X) (hb : Bnd b B) (hy : Bnd y Y) (hc : Bnd c C) (hz : Bnd z Z)
    (hsmall : A * X ≤ 1000 ∧ B * Y ≤ 1000 ∧ C * Z ≤ 1000) :
    Bnd (fma a x (fma b y (mul c z))) (F3 A X B Y C Z) ∧
    |toReal (fma a x (fma b y (mul c z))) - (toReal a * toReal x + (toReal b * toReal y + toReal c * toReal z))| ≤ EF A X B Y C Z := by
  have hu := u_pos; have he := eta_pos
  have hu1 : u ≤ 1 := by rw [u_val]; norm_num
  have he1 : eta ≤ 1 := le_trans eta_le (by norm_num)
  have hA0 : 0 ≤ A * X := mul_nonneg (le_trans (abs_nonneg _) ha.2) (le_trans (abs_nonneg _) hx.2)
  have hB0 : 0 ≤ B * Y := mul_nonneg (le_trans (abs_nonneg _) hb.2) (le_trans (abs_nonneg _) hy.2)
  have hC0 : 0 ≤ C * Z := mul_nonneg (le_trans (abs_nonneg _) hc.2) (le_trans (abs_nonneg _) hz.2)
  obtain ⟨b1, e1⟩ := mul_bnd c z C Z hc hz (fit_small _ (by linarith [hsmall.2.2]))
  have hT1c : T1 C Z ≤ 2001 := by unfold T1; nlinarith [hsmall.2.2]
  have hT1c0 : 0 ≤ T1 C Z := by unfold T1; positivity
  obtain ⟨b2, e2⟩ := fma_bnd b y (mul c z) B Y (T1 C Z) hb hy b1 (fit_small _ (by linarith [hsmall.2.1]))
  have hF2 : F2 B Y C Z ≤ 6003 := by unfold F2; nlinarith [hsmall.2.1]
  have hF20 : 0 ≤ F2 B Y C Z := by unfold F2; positivity
  obtain ⟨b3, e3⟩ := fma_bnd a x (fma b y (mul c z)) A X (F2 B Y C Z) ha hx b2 (fit_small _ (by linarith [hsmall.1]))
  refine ⟨b3, ?_⟩
  unfold EF
  rw [abs_le] at e1 e2 e3 ⊢
  constructor <;> nlinarith [e1.1, e1.2, e2.1, e2.2, e3.1, e3.2, abs_nonneg (toReal b), abs_nonneg (toReal y), hb.2, hy.2]

end F64

/-! GENERATED from Proofs/F32Approx.lean by run/gen64proofs.py (binary64 instance of the same proof). -/
