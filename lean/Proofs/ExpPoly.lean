import Proofs.PolyCert
import Proofs.F32Ops
import Mathlib.Analysis.Complex.ExponentialBounds
import Mathlib.Analysis.SpecialFunctions.Pow.Real
/-! `2^f` versus a rational polynomial, over the reals, through the Taylor polynomial of `exp` with Mathlib's explicit
remainder (`Real.exp_bound`) and `Real.log_two_gt_d9 / lt_d9`. The comparison of the two *polynomials* is left to the
kernel-evaluated certificate of `Proofs/PolyCert.lean`. -/
namespace ExpPoly
open PolyCert Real

/-- `m * 2^e` as a rational -/
def magQ (m : Nat) (e : Int) : ℚ :=
  if 0 ≤ e then ((m * 2 ^ e.toNat : Nat) : ℚ) else ((m : Nat) : ℚ) / ((2 ^ (-e).toNat : Nat) : ℚ)

theorem magQ_cast (m : Nat) (e : Int) : ((magQ m e : ℚ) : ℝ) = (m:ℝ) * (2:ℝ) ^ e := by
  unfold magQ
  split
  · rename_i he
    push_cast
    congr 1
    rw [← zpow_natCast]; congr 1; omega
  · rename_i he
    push_cast
    rw [div_eq_mul_inv]; congr 1
    rw [← zpow_natCast, ← zpow_neg]; congr 1; omega

/-- exact rational value of a binary32 bit pattern (0 for NaN / infinities) -/
def ratOf (a : Nat) : ℚ :=
  match F32.decode a with
  | .fin n m e => if n then -(magQ m e) else magQ m e
  | _ => 0

theorem ratOf_cast (a : Nat) : ((ratOf a : ℚ) : ℝ) = F32.toReal a := by
  unfold ratOf F32.toReal
  cases hd : F32.decode a with
  | nan => simp
  | inf s => simp
  | fin n m e =>
    simp only
    unfold F32.valR
    cases n
    · simp only [Bool.false_eq_true, if_false]; rw [magQ_cast]; ring
    · simp only [if_true]; push_cast; rw [magQ_cast]; ring

/-- coefficients `1/k!, 1/(k+1)!, …` (`n` of them) -/
def taylorFrom (k : Nat) : Nat → List ℚ
  | 0 => []
  | n + 1 => (1 / (k.factorial : ℚ)) :: taylorFrom (k + 1) n

theorem evalR_taylorFrom (k n : Nat) (t : ℝ) :
    evalR (taylorFrom k n) t = ∑ j ∈ Finset.range n, t ^ j / ((k + j).factorial : ℝ) := by
  induction n generalizing k with
  | zero => simp [taylorFrom]
  | succ n ih =>
    rw [Finset.sum_range_succ', taylorFrom, evalR_cons, ih (k + 1)]
    simp only [pow_zero, Nat.add_zero]
    rw [Finset.mul_sum]
    push_cast
    have : ∀ j ∈ Finset.range n, t * (t ^ j / ((k + 1 + j).factorial : ℝ)) = t ^ (j + 1) / ((k + (j + 1)).factorial : ℝ) := by
      intro j _
      have : k + 1 + j = k + (j + 1) := by omega
      rw [this]; ring
    rw [Finset.sum_congr rfl this]
    ring

/-- the degree-11 Taylor polynomial of `exp` -/
def expT : List ℚ := taylorFrom 0 12

/-- remainder bound used below: `(3/4)^12 * 13 / (12! * 12)` -/
def expR : ℚ := (3 / 4) ^ 12 * (13 / ((Nat.factorial 12 : ℚ) * 12))

theorem exp_taylor (t : ℝ) (ht : |t| ≤ 3 / 4) : |exp t - evalR expT t| ≤ (expR : ℝ) := by
  have h1 : |t| ≤ 1 := by linarith
  have hb := Real.exp_bound h1 (n := 12) (by norm_num)
  have he : evalR expT t = ∑ m ∈ Finset.range 12, t ^ m / (m.factorial : ℝ) := by
    unfold expT; rw [evalR_taylorFrom]; simp
  rw [he]
  refine le_trans hb ?_
  unfold expR
  push_cast
  have hp : |t| ^ 12 ≤ (3 / 4 : ℝ) ^ 12 := pow_le_pow_left₀ (abs_nonneg t) ht 12
  have hc : (0:ℝ) ≤ ((Nat.succ 12 : ℕ) : ℝ) / (((Nat.factorial 12 : ℕ) : ℝ) * ((12 : ℕ) : ℝ)) := by positivity
  calc |t| ^ 12 * (((Nat.succ 12 : ℕ) : ℝ) / (((Nat.factorial 12 : ℕ) : ℝ) * ((12 : ℕ) : ℝ)))
      ≤ (3 / 4 : ℝ) ^ 12 * (((Nat.succ 12 : ℕ) : ℝ) / (((Nat.factorial 12 : ℕ) : ℝ) * ((12 : ℕ) : ℝ))) :=
        mul_le_mul_of_nonneg_right hp hc
    _ = _ := by norm_num

/-- rational approximation of `log 2` -/
def L0 : ℚ := 69314718055 / 100000000000

theorem log_two_L0 : |Real.log 2 - (L0 : ℝ)| ≤ 3 / 10 ^ 10 := by
  have h1 := Real.log_two_gt_d9
  have h2 := Real.log_two_lt_d9
  unfold L0; push_cast
  rw [abs_le]; constructor <;> norm_num at h1 h2 ⊢ <;> linarith

/-- `2^f` as a polynomial in `f`: Taylor polynomial of `exp` at `L0 * f` -/
def twoT : List ℚ := dilateP expT L0

theorem evalR_twoT (f : ℝ) : evalR twoT f = evalR expT ((L0:ℝ) * f) := evalR_dilateP _ _ _

theorem expR_small : (expR : ℝ) ≤ 1 / 10 ^ 10 := by
  unfold expR; push_cast; norm_num [Nat.factorial]

/-- **Bridge**: if the rational polynomial `P` is within relative `η₀` of `twoT` at `f ∈ [-1, 1]`, it is within relative
`η₀ + 3e-9` of `2^f`. -/
theorem two_pow_close (P : List ℚ) (η₀ : ℝ) (f : ℝ) (hf : |f| ≤ 1) (h0 : 0 ≤ η₀) (h1 : η₀ ≤ 1)
    (hc : |evalR P f - evalR twoT f| ≤ η₀ * evalR twoT f) :
    |evalR P f - (2:ℝ) ^ f| ≤ (η₀ + 3 / 10 ^ 9) * (2:ℝ) ^ f := by
  set E := exp ((L0:ℝ) * f) with hE
  set T := evalR twoT f with hT
  have hL0 : (L0:ℝ) = 69314718055 / 100000000000 := by unfold L0; push_cast; ring
  have hL0a : |(L0:ℝ) * f| ≤ 3 / 4 := by
    rw [abs_mul, hL0]
    have : |(69314718055 / 100000000000 : ℝ)| = 69314718055 / 100000000000 := abs_of_pos (by norm_num)
    rw [this]; nlinarith [abs_nonneg f]
  have hTE : |E - T| ≤ 1 / 10 ^ 10 := by
    rw [hT, evalR_twoT]; exact le_trans (exp_taylor _ hL0a) expR_small
  -- 2^f = E * exp d
  set d := (Real.log 2 - (L0:ℝ)) * f with hd
  have h2f : (2:ℝ) ^ f = E * exp d := by
    rw [Real.rpow_def_of_pos (by norm_num : (0:ℝ) < 2), hE, ← Real.exp_add]; congr 1; rw [hd]; ring
  have hda : |d| ≤ 3 / 10 ^ 10 := by
    rw [hd, abs_mul]
    calc |Real.log 2 - (L0:ℝ)| * |f| ≤ (3 / 10 ^ 10) * 1 := mul_le_mul log_two_L0 hf (abs_nonneg _) (by norm_num)
      _ = _ := by ring
  have hed : |exp d - 1| ≤ 6 / 10 ^ 10 := by
    have := Real.abs_exp_sub_one_le (x := d) (by linarith)
    linarith
  have hEpos : 0 < E := exp_pos _
  have hElow : 1 / 4 ≤ E := by
    have := Real.add_one_le_exp ((L0:ℝ) * f)
    have h3 := (abs_le.mp hL0a).1
    rw [hE]; linarith
  obtain ⟨hed1, hed2⟩ := abs_le.mp hed
  obtain ⟨hte1, hte2⟩ := abs_le.mp hTE
  have hTpos : 0 < T := by linarith
  obtain ⟨hc1, hc2⟩ := abs_le.mp hc
  rw [h2f, abs_le]
  have hη : η₀ * T ≤ η₀ * E + η₀ * (1 / 10 ^ 10) := by nlinarith
  constructor
  · -- lower
    have : (η₀ + 3 / 10 ^ 9) * (E * exp d) ≥ (η₀ + 3 / 10 ^ 9) * E * (1 - 6 / 10 ^ 10) := by
      have : exp d ≥ 1 - 6 / 10 ^ 10 := by linarith
      nlinarith
    nlinarith
  · have : (η₀ + 3 / 10 ^ 9) * (E * exp d) ≥ (η₀ + 3 / 10 ^ 9) * E * (1 - 6 / 10 ^ 10) := by
      have : exp d ≥ 1 - 6 / 10 ^ 10 := by linarith
      nlinarith
    nlinarith

/-- certificate: `|P - T| ≤ η T` on `[a, a + n h]` -/
def closeCells (P T : List ℚ) (η a h : ℚ) (n : Nat) : Bool :=
  nonnegCells (subP (scaleP η T) (subP P T)) a h n && nonnegCells (addP (scaleP η T) (subP P T)) a h n

theorem closeCells_sound (P T : List ℚ) (η a h : ℚ) (n : Nat) (hn : 0 < n) (hh : 0 ≤ h)
    (hc : closeCells P T η a h n = true) (x : ℝ) (hxa : (a:ℝ) ≤ x) (hxb : x ≤ (a:ℝ) + n * (h:ℝ)) :
    |evalR P x - evalR T x| ≤ (η:ℝ) * evalR T x := by
  unfold closeCells at hc
  rw [Bool.and_eq_true] at hc
  have h1 := nonnegCells_sound _ a h n hn hh hc.1 x hxa hxb
  have h2 := nonnegCells_sound _ a h n hn hh hc.2 x hxa hxb
  simp at h1 h2
  rw [abs_le]; constructor <;> linarith

end ExpPoly
