import Props.C04
/-! Lemmas for the XYB round trip (C05): exact constant values, forward channel in round-trip form, recombination of Y±X,
inverse channel, inverse matrix row. The property theorem is in Props/C05.lean. -/
namespace C05
open F32 Real Cbrt Xyb PixelM

-- exact values of the model constants (regenerated from the source; `decide +kernel` re-checks the decoding)
theorem v_k_m00 : Finite K_M00 ∧ toReal K_M00 = 5033165 / 16777216 := by
  have h : decode K_M00 = .fin false 10066330 (-25) := by decide +kernel
  refine ⟨⟨_, _, _, h⟩, ?_⟩
  rw [toReal_of_decode _ _ _ _ h]; unfold valR; norm_num
theorem v_k_m01 : Finite K_M01 ∧ toReal K_M01 = 2608857 / 4194304 := by
  have h : decode K_M01 = .fin false 10435428 (-24) := by decide +kernel
  refine ⟨⟨_, _, _, h⟩, ?_⟩
  rw [toReal_of_decode _ _ _ _ h]; unfold valR; norm_num
theorem v_k_m02 : Finite K_M02 ∧ toReal K_M02 = 10468983 / 134217728 := by
  have h : decode K_M02 = .fin false 10468983 (-27) := by decide +kernel
  refine ⟨⟨_, _, _, h⟩, ?_⟩
  rw [toReal_of_decode _ _ _ _ h]; unfold valR; norm_num
theorem v_k_m10 : Finite K_M10 ∧ toReal K_M10 = 15435039 / 67108864 := by
  have h : decode K_M10 = .fin false 15435039 (-26) := by decide +kernel
  refine ⟨⟨_, _, _, h⟩, ?_⟩
  rw [toReal_of_decode _ _ _ _ h]; unfold valR; norm_num
theorem v_k_m11 : Finite K_M11 ∧ toReal K_M11 = 11609833 / 16777216 := by
  have h : decode K_M11 = .fin false 11609833 (-24) := by decide +kernel
  refine ⟨⟨_, _, _, h⟩, ?_⟩
  rw [toReal_of_decode _ _ _ _ h]; unfold valR; norm_num
theorem v_k_m12 : Finite K_M12 ∧ toReal K_M12 = 10468983 / 134217728 := by
  have h : decode K_M12 = .fin false 10468983 (-27) := by decide +kernel
  refine ⟨⟨_, _, _, h⟩, ?_⟩
  rw [toReal_of_decode _ _ _ _ h]; unfold valR; norm_num
theorem v_k_m20 : Finite K_M20 ∧ toReal K_M20 = 4083955 / 16777216 := by
  have h : decode K_M20 = .fin false 16335820 (-26) := by decide +kernel
  refine ⟨⟨_, _, _, h⟩, ?_⟩
  rw [toReal_of_decode _ _ _ _ h]; unfold valR; norm_num
theorem v_k_m21 : Finite K_M21 ∧ toReal K_M21 = 13741711 / 67108864 := by
  have h : decode K_M21 = .fin false 13741711 (-26) := by decide +kernel
  refine ⟨⟨_, _, _, h⟩, ?_⟩
  rw [toReal_of_decode _ _ _ _ h]; unfold valR; norm_num
theorem v_k_m22 : Finite K_M22 ∧ toReal K_M22 = 9257833 / 16777216 := by
  have h : decode K_M22 = .fin false 9257833 (-24) := by decide +kernel
  refine ⟨⟨_, _, _, h⟩, ?_⟩
  rw [toReal_of_decode _ _ _ _ h]; unfold valR; norm_num
theorem v_k_b0 : Finite K_B0 ∧ toReal K_B0 = 8145563 / 2147483648 := by
  have h : decode K_B0 = .fin false 16291126 (-32) := by decide +kernel
  refine ⟨⟨_, _, _, h⟩, ?_⟩
  rw [toReal_of_decode _ _ _ _ h]; unfold valR; norm_num
theorem v_i0 : Finite (INV 0) ∧ toReal (INV 0) = 2891859 / 262144 := by
  have h : decode (INV 0) = .fin false 11567436 (-20) := by decide +kernel
  refine ⟨⟨_, _, _, h⟩, ?_⟩
  rw [toReal_of_decode _ _ _ _ h]; unfold valR; norm_num
theorem v_i1 : Finite (INV 1) ∧ toReal (INV 1) = -10346241 / 1048576 := by
  have h : decode (INV 1) = .fin true 10346241 (-20) := by decide +kernel
  refine ⟨⟨_, _, _, h⟩, ?_⟩
  rw [toReal_of_decode _ _ _ _ h]; unfold valR; norm_num
theorem v_i2 : Finite (INV 2) ∧ toReal (INV 2) = -5523831 / 33554432 := by
  have h : decode (INV 2) = .fin true 11047662 (-26) := by decide +kernel
  refine ⟨⟨_, _, _, h⟩, ?_⟩
  rw [toReal_of_decode _ _ _ _ h]; unfold valR; norm_num
theorem v_i3 : Finite (INV 3) ∧ toReal (INV 3) = -13648883 / 4194304 := by
  have h : decode (INV 3) = .fin true 13648883 (-22) := by decide +kernel
  refine ⟨⟨_, _, _, h⟩, ?_⟩
  rw [toReal_of_decode _ _ _ _ h]; unfold valR; norm_num
theorem v_i4 : Finite (INV 4) ∧ toReal (INV 4) = 9266833 / 2097152 := by
  have h : decode (INV 4) = .fin false 9266833 (-21) := by decide +kernel
  refine ⟨⟨_, _, _, h⟩, ?_⟩
  rw [toReal_of_decode _ _ _ _ h]; unfold valR; norm_num
theorem v_i5 : Finite (INV 5) ∧ toReal (INV 5) = -5523831 / 33554432 := by
  have h : decode (INV 5) = .fin true 11047662 (-26) := by decide +kernel
  refine ⟨⟨_, _, _, h⟩, ?_⟩
  rw [toReal_of_decode _ _ _ _ h]; unfold valR; norm_num
theorem v_i6 : Finite (INV 6) ∧ toReal (INV 6) = -15346335 / 4194304 := by
  have h : decode (INV 6) = .fin true 15346335 (-22) := by decide +kernel
  refine ⟨⟨_, _, _, h⟩, ?_⟩
  rw [toReal_of_decode _ _ _ _ h]; unfold valR; norm_num
theorem v_i7 : Finite (INV 7) ∧ toReal (INV 7) = 1422353 / 524288 := by
  have h : decode (INV 7) = .fin false 11378824 (-22) := by decide +kernel
  refine ⟨⟨_, _, _, h⟩, ?_⟩
  rw [toReal_of_decode _ _ _ _ h]; unfold valR; norm_num
theorem v_i8 : Finite (INV 8) ∧ toReal (INV 8) = 16323629 / 8388608 := by
  have h : decode (INV 8) = .fin false 16323629 (-23) := by decide +kernel
  refine ⟨⟨_, _, _, h⟩, ?_⟩
  rw [toReal_of_decode _ _ _ _ h]; unfold valR; norm_num

/-- the bias term: `Ab = toReal(-cbrtf(K_B0))` lies in [-0.15601, -0.15589] -/
theorem ab_bounds (B : Build) (hB : B.fastmath = true) :
    -15601 / 100000 ≤ toReal (F32.neg (MathM.cbrtf B K_B0)) ∧ toReal (F32.neg (MathM.cbrtf B K_B0)) ≤ -15589 / 100000 := by
  obtain ⟨_, e, _⟩ := C04.ab_val B hB
  have h1 : (1559 / 10000 : ℝ) ≤ cbrtR C04.bias := cbrtR_ge _ _ (by norm_num) (by unfold C04.bias; norm_num)
  have h2 : cbrtR C04.bias ≤ 156 / 1000 := cbrtR_le _ _ (by norm_num) (by unfold C04.bias; norm_num)
  obtain ⟨e1, e2⟩ := abs_le.mp e
  constructor <;> linarith

/-- the inverse uses the same bias constant: `cbrtf(-K_B0) = -cbrtf(K_B0)` bit for bit (evaluated) -/
theorem bc_eq (B : Build) (hB : B.fastmath = true) : MathM.cbrtf B (F32.neg K_B0) = F32.neg (MathM.cbrtf B K_B0) := by
  unfold MathM.cbrtf; simp only [hB, if_true]
  decide +kernel

/-- finite pixels of the unit cube -/
structure Unit3 (p : Mat32.V3) : Prop where
  fx : Finite p.x
  fy : Finite p.y
  fz : Finite p.z
  bx : 0 ≤ toReal p.x ∧ toReal p.x ≤ 1
  bY : 0 ≤ toReal p.y ∧ toReal p.y ≤ 1
  bz : 0 ≤ toReal p.z ∧ toReal p.z ≤ 1

/-- forward channel for the round trip: `l = γ + Ab` up to 1.12e-7, where `γ` is the exact cube root of the computed mix `V`
and `V` is within 4.3e-7 of the exact mix of the pixel with the model's constants -/
theorem fwd_rt (B : Build) (hB : B.fastmath = true) (k0 k1 k2 : Nat) (f0 : Finite k0) (f1 : Finite k1) (f2 : Finite k2)
    (hK0 : 0 < toReal k0) (hK1 : 0 < toReal k1) (hK2 : 0 < toReal k2) (hle0 : toReal k0 ≤ 1) (hle1 : toReal k1 ≤ 1) (hle2 : toReal k2 ≤ 1) (hsum : toReal k0 + toReal k1 + toReal k2 ≤ 10001 / 10000)
    (p : Mat32.V3) (hp : Unit3 p) :
    let γ := cbrtR (toReal (row k0 k1 k2 K_B0 p))
    let l := F32.add (stage B (row k0 k1 k2 K_B0 p)) (F32.neg (MathM.cbrtf B K_B0))
    Finite l ∧ WF l ∧ |toReal l - (γ + toReal (F32.neg (MathM.cbrtf B K_B0)))| ≤ 112 / 1000000000 ∧ |toReal l| ≤ 86 / 100 ∧
    15 / 100 ≤ γ ∧ γ ≤ 1002 / 1000 ∧
    |γ ^ 3 - mixR (toReal k0) (toReal k1) (toReal k2) (toReal K_B0) (toReal p.x) (toReal p.y) (toReal p.z)| ≤ 43 / 100000000 := by
  intro γ l
  have hkb := v_k_b0
  have hKb : 37 / 10000 ≤ toReal K_B0 ∧ toReal K_B0 ≤ 4 / 1000 := by rw [hkb.2]; constructor <;> norm_num
  have ex : ∀ k, F32.Finite k → Apx k (toReal k) (1 / 20000000) := fun k hk => apx_mono (apx_exact k hk) (by norm_num)
  have hr := row_rel k0 k1 k2 K_B0 p (toReal k0) (toReal k1) (toReal k2) (toReal K_B0) (ex _ f0) (ex _ f1) (ex _ f2) (ex _ hkb.1)
    ⟨hK0, hle0⟩ ⟨hK1, hle1⟩ ⟨hK2, hle2⟩ hKb hp.fx hp.fy hp.fz ⟨hp.bx.1, by linarith [hp.bx.2]⟩ ⟨hp.bY.1, by linarith [hp.bY.2]⟩ ⟨hp.bz.1, by linarith [hp.bz.2]⟩
  set x := toReal p.x; set y := toReal p.y; set z := toReal p.z
  set v := mixR (toReal k0) (toReal k1) (toReal k2) (toReal K_B0) x y z with hv
  have hvlo : 37 / 10000 ≤ v := by
    rw [hv]; unfold mixR
    have := mul_nonneg hK0.le hp.bx.1; have := mul_nonneg hK1.le hp.bY.1; have := mul_nonneg hK2.le hp.bz.1
    linarith [hKb.1]
  have hvhi : v ≤ 10041 / 10000 := by
    rw [hv]; unfold mixR
    have := mul_le_mul_of_nonneg_left hp.bx.2 hK0.le; have := mul_le_mul_of_nonneg_left hp.bY.2 hK1.le; have := mul_le_mul_of_nonneg_left hp.bz.2 hK2.le
    linarith [hKb.2]
  have hvpos : 0 < v := by linarith
  have herr := hr.2
  rw [abs_of_pos hvpos] at herr
  obtain ⟨e1, e2⟩ := abs_le.mp herr
  set V := toReal (row k0 k1 k2 K_B0 p) with hV
  have hVlo : 36 / 10000 ≤ V := by nlinarith
  have hVhi : V ≤ 10042 / 10000 := by nlinarith
  have hVpos : 0 < V := by linarith
  have hw : WF (row k0 k1 k2 K_B0 p) := C04.fma_wf _ _ _
  obtain ⟨fs, es⟩ := stage_pos B hB _ hw hr.1 hVlo
  rw [← hV] at es
  have hγ3 : γ ^ 3 = V := cbrtR_cube_pos V hVpos.le
  have hγlo : 15 / 100 ≤ γ := cbrtR_ge V _ (by norm_num) (by norm_num; linarith)
  have hγhi : γ ≤ 1002 / 1000 := cbrtR_le V _ (by norm_num) (by norm_num; linarith)
  obtain ⟨fa, _, _⟩ := C04.ab_val B hB
  obtain ⟨ab1, ab2⟩ := ab_bounds B hB
  set Ab := toReal (F32.neg (MathM.cbrtf B K_B0))
  set S := toReal (stage B (row k0 k1 k2 K_B0 p))
  have hu := u_val
  have he := eta_le
  have hSerr : |S - γ| ≤ 6 / 100000000 * (1002 / 1000) := by
    refine le_trans es ?_
    rw [hu]; nlinarith
  obtain ⟨s1, s2⟩ := abs_le.mp hSerr
  have hsum' : |S + Ab| ≤ 85 / 100 := by rw [abs_le]; constructor <;> linarith
  obtain ⟨fl, el⟩ := add_val _ _ fs fa (fit_small _ (by linarith))
  have h1 : u * |S + Ab| ≤ u * (85 / 100) := mul_le_mul_of_nonneg_left hsum' u_pos.le
  rw [hu] at h1 el
  refine ⟨fl, add_wf _ _, ?_, ?_, hγlo, hγhi, ?_⟩
  · have e : toReal l - (γ + Ab) = (toReal l - (S + Ab)) + (S - γ) := by ring
    rw [e]
    have := abs_add_le (toReal l - (S + Ab)) (S - γ)
    linarith
  · have := abs_sub_abs_le_abs_sub (toReal l) (S + Ab)
    linarith
  · rw [hγ3, abs_le]; constructor <;> nlinarith

/-- the inverse's `Y + X` and `Y - X` recover the forward L and M up to 2.6e-7 (the two halvings are exact up to rounding of
the sum and the difference; no cancellation of independent errors is assumed) -/
theorem recombine (l0 l1 : Nat) (f0 : F32.Finite l0) (f1 : F32.Finite l1) (w1 : WF l1) (b0 : |toReal l0| ≤ 86 / 100) (b1 : |toReal l1| ≤ 86 / 100) :
    let X := F32.mul C.mixed_to_xyb_f1 (F32.sub l0 l1)
    let Y := F32.mul C.mixed_to_xyb_f2 (F32.add l0 l1)
    F32.Finite (F32.add Y X) ∧ F32.Finite (F32.sub Y X) ∧
    |toReal (F32.add Y X) - toReal l0| ≤ 26 / 100000000 ∧ |toReal (F32.sub Y X) - toReal l1| ≤ 26 / 100000000 := by
  intro X Y
  obtain ⟨fh1, th1, fh2, th2⟩ := C04.half_val
  have hu := u_val
  have he := eta_le
  have hup := u_pos
  set L0 := toReal l0; set L1 := toReal l1
  have hdiff : |L0 - L1| ≤ 172 / 100 := le_trans (abs_sub _ _) (by linarith)
  have hsum : |L0 + L1| ≤ 172 / 100 := le_trans (abs_add_le _ _) (by linarith)
  obtain ⟨fsb, esb⟩ := sub_val l0 l1 w1 f0 f1 (fit_small _ (by linarith))
  obtain ⟨fad, ead⟩ := add_val l0 l1 f0 f1 (fit_small _ (by linarith))
  have h1 : u * |L0 - L1| ≤ u * (172 / 100) := mul_le_mul_of_nonneg_left hdiff hup.le
  have h2 : u * |L0 + L1| ≤ u * (172 / 100) := mul_le_mul_of_nonneg_left hsum hup.le
  rw [hu] at h1 h2 esb ead
  set S := toReal (F32.sub l0 l1); set A := toReal (F32.add l0 l1)
  have bS : Bnd (F32.sub l0 l1) (173 / 100) := ⟨fsb, by have := abs_sub_abs_le_abs_sub S (L0 - L1); linarith⟩
  have bA : Bnd (F32.add l0 l1) (173 / 100) := ⟨fad, by have := abs_sub_abs_le_abs_sub A (L0 + L1); linarith⟩
  obtain ⟨bX, eX⟩ := mul_bnd C.mixed_to_xyb_f1 _ (1 / 2) (173 / 100) ⟨fh1, by rw [th1]; norm_num⟩ bS (fit_small _ (by norm_num))
  obtain ⟨bY, eY⟩ := mul_bnd C.mixed_to_xyb_f2 _ (1 / 2) (173 / 100) ⟨fh2, by rw [th2]; norm_num⟩ bA (fit_small _ (by norm_num))
  rw [th1, hu] at eX; rw [th2, hu] at eY
  set Xr := toReal X; set Yr := toReal Y
  obtain ⟨x1, x2⟩ := abs_le.mp eX; obtain ⟨y1, y2⟩ := abs_le.mp eY
  obtain ⟨s1, s2⟩ := abs_le.mp esb; obtain ⟨a1, a2⟩ := abs_le.mp ead
  obtain ⟨p0, q0⟩ := abs_le.mp b0; obtain ⟨p1, q1⟩ := abs_le.mp b1
  have hyx : |Yr + Xr| ≤ 87 / 100 := by rw [abs_le]; constructor <;> linarith
  have hymx : |Yr - Xr| ≤ 87 / 100 := by rw [abs_le]; constructor <;> linarith
  have wX : WF X := mul_wf _ _
  obtain ⟨fr, er⟩ := add_val Y X bY.1 bX.1 (fit_small _ (by linarith))
  obtain ⟨fg, eg⟩ := sub_val Y X wX bY.1 bX.1 (fit_small _ (by linarith))
  have h3 : u * |Yr + Xr| ≤ u * (87 / 100) := mul_le_mul_of_nonneg_left hyx hup.le
  have h4 : u * |Yr - Xr| ≤ u * (87 / 100) := mul_le_mul_of_nonneg_left hymx hup.le
  rw [hu] at h3 h4 er eg
  obtain ⟨r1, r2⟩ := abs_le.mp er; obtain ⟨g1, g2⟩ := abs_le.mp eg
  refine ⟨fr, fg, ?_, ?_⟩
  · rw [abs_le]; constructor <;> linarith
  · rw [abs_le]; constructor <;> linarith

set_option maxHeartbeats 2000000 in
/-- one channel of the inverse: subtract the bias constant, cube, add `-b`; the result is `γ³ - b` up to 1.45e-6 when the
input is `γ + Ab` up to 3.72e-7 -/
theorem inv_chan (B : Build) (hB : B.fastmath = true) (rq : Nat) (fr : F32.Finite rq) (γ : ℝ) (hγ : 15 / 100 ≤ γ ∧ γ ≤ 1002 / 1000)
    (herr : |toReal rq - (γ + toReal (F32.neg (MathM.cbrtf B K_B0)))| ≤ 372 / 1000000000) :
    let w := F32.sub rq (MathM.cbrtf B (F32.neg K_B0))
    let m := F32.fma (F32.mul w w) w (F32.neg K_B0)
    F32.Finite m ∧ |toReal m - (γ ^ 3 - toReal K_B0)| ≤ 145 / 100000000 := by
  intro w m
  have hbc := bc_eq B hB
  obtain ⟨fa, _, wa⟩ := C04.ab_val B hB
  obtain ⟨ab1, ab2⟩ := ab_bounds B hB
  have hu := u_val
  have he := eta_le
  have hup := u_pos
  have hkb := v_k_b0
  have hwK : WF K_B0 := by unfold WF; decide +kernel
  obtain ⟨fnb, tnb⟩ := toReal_neg K_B0 hwK hkb.1
  have hw : w = F32.sub rq (F32.neg (MathM.cbrtf B K_B0)) := by show F32.sub rq (MathM.cbrtf B (F32.neg K_B0)) = _; rw [hbc]
  set Ab := toReal (F32.neg (MathM.cbrtf B K_B0))
  set R := toReal rq
  obtain ⟨e1, e2⟩ := abs_le.mp herr
  have hRA : |R - Ab| ≤ 1003 / 1000 := by rw [abs_le]; constructor <;> linarith [hγ.1, hγ.2]
  obtain ⟨fw, ew⟩ := sub_val rq _ wa fr fa (fit_small _ (by linarith))
  rw [← hw] at fw ew
  have h1 : u * |R - Ab| ≤ u * (1003 / 1000) := mul_le_mul_of_nonneg_left hRA hup.le
  rw [hu] at h1 ew
  set W := toReal w
  obtain ⟨w1, w2⟩ := abs_le.mp ew
  have hWγ : |W - γ| ≤ 433 / 1000000000 := by rw [abs_le]; constructor <;> linarith
  obtain ⟨d1, d2⟩ := abs_le.mp hWγ
  have hWlo : 149 / 1000 ≤ W := by linarith [hγ.1]
  have hWhi : W ≤ 10025 / 10000 := by linarith [hγ.2]
  have bW : Bnd w (10025 / 10000) := ⟨fw, by rw [abs_le]; constructor <;> linarith⟩
  obtain ⟨bWW, eWW⟩ := mul_bnd w w _ _ bW bW (fit_small _ (by norm_num))
  rw [hu] at eWW
  set WW := toReal (F32.mul w w)
  have hWWb : |WW| ≤ 10051 / 10000 := by have := bWW.2; rw [hu] at this; linarith
  have bnb : Bnd (F32.neg K_B0) (4 / 1000) := ⟨fnb, by rw [tnb, abs_neg, hkb.2]; norm_num⟩
  obtain ⟨bM, eM⟩ := fma_bnd (F32.mul w w) w (F32.neg K_B0) (10051 / 10000) (10025 / 10000) (4 / 1000) ⟨bWW.1, hWWb⟩ bW bnb (fit_small _ (by norm_num))
  rw [hu, tnb] at eM
  refine ⟨bM.1, ?_⟩
  show |toReal (F32.fma (F32.mul w w) w (F32.neg K_B0)) - (γ ^ 3 - toReal K_B0)| ≤ _
  set M := toReal (F32.fma (F32.mul w w) w (F32.neg K_B0))
  obtain ⟨m1, m2⟩ := abs_le.mp eM
  obtain ⟨q1, q2⟩ := abs_le.mp eWW
  have hW0 : 0 ≤ W := by linarith
  -- |WW * W - W^3| and |W^3 - γ^3|
  have c1 : |WW * W - W ^ 3| ≤ 61 / 1000000000 := by
    have : WW * W - W ^ 3 = (WW - W * W) * W := by ring
    rw [this, abs_mul, abs_of_nonneg hW0]
    have : |WW - W * W| ≤ 6 / 100000000 := by rw [abs_le]; constructor <;> nlinarith
    nlinarith [abs_nonneg (WW - W * W)]
  have c2 : |W ^ 3 - γ ^ 3| ≤ 1306 / 1000000000 := by
    have hf : W ^ 3 - γ ^ 3 = (W - γ) * (W ^ 2 + W * γ + γ ^ 2) := by ring
    have hs0 : 0 ≤ W ^ 2 + W * γ + γ ^ 2 := by nlinarith [hγ.1]
    have hs1 : W ^ 2 + W * γ + γ ^ 2 ≤ 3015 / 1000 := by nlinarith [hγ.1, hγ.2]
    rw [hf, abs_mul, abs_of_nonneg hs0]
    calc |W - γ| * (W ^ 2 + W * γ + γ ^ 2) ≤ 433 / 1000000000 * (3015 / 1000) := mul_le_mul hWγ hs1 hs0 (by norm_num)
      _ ≤ _ := by norm_num
  obtain ⟨c11, c12⟩ := abs_le.mp c1
  obtain ⟨c21, c22⟩ := abs_le.mp c2
  rw [abs_le]; constructor <;> linarith

/-- one row of the inverse matrix product `fma i2 m2 (fma i1 m1 (mul i0 m0))` against exact targets `t_k` of the `m_k` -/
theorem out_row (i0 i1 i2 m0 m1 m2 : Nat) (A0 A1 A2 F t0 t1 t2 : ℝ)
    (h0 : Bnd i0 A0) (h1 : Bnd i1 A1) (h2 : Bnd i2 A2) (b0 : Bnd m0 (101 / 100)) (b1 : Bnd m1 (101 / 100)) (b2 : Bnd m2 (101 / 100))
    (e0 : |toReal m0 - t0| ≤ F) (e1 : |toReal m1 - t1| ≤ F) (e2 : |toReal m2 - t2| ≤ F)
    (hA : 3 * A0 + 2 * A1 + A2 ≤ 532 / 10) (hS : A0 + A1 + A2 ≤ 2107 / 100) (hA0 : A0 ≤ 12) (hA1 : A1 ≤ 12) (hA2 : A2 ≤ 12) :
    F32.Finite (F32.fma i2 m2 (F32.fma i1 m1 (F32.mul i0 m0))) ∧
    |toReal (F32.fma i2 m2 (F32.fma i1 m1 (F32.mul i0 m0))) - (toReal i2 * t2 + (toReal i1 * t1 + toReal i0 * t0))| ≤ 33 / 10000000 + 2107 / 100 * F := by
  have hu := u_val
  have he := eta_le
  have he0 := eta_pos
  have a0 : 0 ≤ A0 := le_trans (abs_nonneg _) h0.2
  have a1 : 0 ≤ A1 := le_trans (abs_nonneg _) h1.2
  have a2 : 0 ≤ A2 := le_trans (abs_nonneg _) h2.2
  have hF : 0 ≤ F := le_trans (abs_nonneg _) e0
  obtain ⟨bd, ed⟩ := dot3_fma i2 m2 i1 m1 i0 m0 A2 (101 / 100) A1 (101 / 100) A0 (101 / 100) h2 b2 h1 b1 h0 b0
    ⟨by nlinarith, by nlinarith, by nlinarith⟩
  have hEF : EF A2 (101 / 100) A1 (101 / 100) A0 (101 / 100) ≤ 33 / 10000000 := by
    unfold EF F2 T1
    rw [hu]
    nlinarith
  refine ⟨bd.1, ?_⟩
  set I0 := toReal i0; set I1 := toReal i1; set I2 := toReal i2
  set M0 := toReal m0; set M1 := toReal m1; set M2 := toReal m2
  have p0 : |I0 * M0 - I0 * t0| ≤ A0 * F := by rw [← mul_sub, abs_mul]; exact mul_le_mul h0.2 e0 (abs_nonneg _) a0
  have p1 : |I1 * M1 - I1 * t1| ≤ A1 * F := by rw [← mul_sub, abs_mul]; exact mul_le_mul h1.2 e1 (abs_nonneg _) a1
  have p2 : |I2 * M2 - I2 * t2| ≤ A2 * F := by rw [← mul_sub, abs_mul]; exact mul_le_mul h2.2 e2 (abs_nonneg _) a2
  obtain ⟨d1, d2⟩ := abs_le.mp (le_trans ed hEF)
  obtain ⟨p01, p02⟩ := abs_le.mp p0; obtain ⟨p11, p12⟩ := abs_le.mp p1; obtain ⟨p21, p22⟩ := abs_le.mp p2
  have hSF : (A0 + A1 + A2) * F ≤ 2107 / 100 * F := mul_le_mul_of_nonneg_right hS hF
  rw [abs_le]; constructor <;> linarith

end C05
