import Proofs.F64Wf
import Mathlib.Data.Real.Basic
import Mathlib.Tactic.Linarith
import Mathlib.Tactic.Ring
import Mathlib.Tactic.Positivity
import Mathlib.Tactic.NormNum
import Mathlib.Algebra.Order.Field.Power

namespace F64
open Real

/-- real value of a decoded finite float -/
noncomputable def valR (n : Bool) (m : Nat) (e : Int) : ℝ := (if n then -1 else 1) * ((m:ℝ) * (2:ℝ)^e)

noncomputable def toReal (bits : Nat) : ℝ :=
  match decode bits with
  | .fin n m e => valR n m e
  | _ => 0

def Finite (bits : Nat) : Prop := ∃ n m e, decode bits = .fin n m e

theorem roundMQ_val (m : Nat) (e : Int) (hm : m ≠ 0) :
    |((roundMQ m e).1 : ℝ) * (2:ℝ)^((roundMQ m e).2) - (m:ℝ) * (2:ℝ)^e|
      ≤ (2:ℝ)^(-53:ℤ) * ((m:ℝ) * (2:ℝ)^e) + (2:ℝ)^(-1075:ℤ) := by
  obtain ⟨hlo, hhi⟩ := log2_bounds m hm
  have h2e : (0:ℝ) < (2:ℝ)^e := by positivity
  have hmpos : (0:ℝ) < m := by exact_mod_cast Nat.pos_of_ne_zero hm
  unfold roundMQ
  simp only [consts.1, consts.2.2.2.1]
  generalize hL : Nat.log2 m = L at *
  set q : Int := Max.max (e + ((L + 1 : Nat) : Int) - ((53 : Nat) : Int)) (-1074) with hqdef
  split
  · next hq =>
    simp only []
    have : ((m * 2^(e - q).toNat : ℕ) : ℝ) * (2:ℝ)^q = (m:ℝ) * (2:ℝ)^e := by
      push_cast
      rw [mul_assoc, ← zpow_natCast, ← zpow_add₀ (by norm_num : (2:ℝ) ≠ 0)]
      congr 2; omega
    rw [this, sub_self, abs_zero]; positivity
  · next hq =>
    simp only []
    have hq : e < q := by omega
    obtain ⟨sh, hsh0, hsh1, hsh2⟩ : ∃ sh : Nat, (q - e).toNat = sh ∧ (sh : Int) = q - e ∧ 0 < sh := ⟨(q-e).toNat, rfl, by omega, by omega⟩
    rw [hsh0]
    obtain ⟨h1, h2⟩ := rne_err m sh hsh2
    have h1r : ((rne m sh : ℝ)) * (2:ℝ)^sh ≤ m + (2:ℝ)^(sh-1) := by exact_mod_cast h1
    have h2r : (m:ℝ) ≤ (rne m sh : ℝ) * (2:ℝ)^sh + (2:ℝ)^(sh-1) := by exact_mod_cast h2
    have hqe : (2:ℝ)^q = (2:ℝ)^e * (2:ℝ)^sh := by
      rw [← zpow_natCast, ← zpow_add₀ (by norm_num : (2:ℝ) ≠ 0)]; congr 1; omega
    have hmain : |(rne m sh : ℝ) * (2:ℝ)^q - (m:ℝ) * (2:ℝ)^e| ≤ (2:ℝ)^e * (2:ℝ)^(sh-1) := by
      rw [hqe, abs_le]; constructor <;> nlinarith
    have hhalf : (2:ℝ)^e * (2:ℝ)^(sh-1) = (2:ℝ)^(q-1) := by
      rw [← zpow_natCast, ← zpow_add₀ (by norm_num : (2:ℝ) ≠ 0)]; congr 1
      have : ((sh - 1 : ℕ) : Int) = (sh : Int) - 1 := by omega
      omega
    rw [hhalf] at hmain
    refine le_trans hmain ?_
    by_cases hcase : q = -1074
    · rw [hcase]
      have : (2:ℝ)^((-1074:ℤ) - 1) = (2:ℝ)^(-1075:ℤ) := by norm_num
      rw [this]
      have : 0 ≤ (2:ℝ)^(-53:ℤ) * ((m:ℝ) * (2:ℝ)^e) := by positivity
      linarith
    · have hq' : q = e + ((L + 1 : Nat) : Int) - 53 := by omega
      have hlog : (2:ℝ)^L ≤ m := by exact_mod_cast hlo
      have : (2:ℝ)^(q-1) = (2:ℝ)^(-53:ℤ) * ((2:ℝ)^L * (2:ℝ)^e) := by
        rw [← zpow_natCast (2:ℝ) L, ← zpow_add₀ (by norm_num : (2:ℝ) ≠ 0), ← zpow_add₀ (by norm_num : (2:ℝ) ≠ 0)]
        congr 1; rw [hq']; push_cast; ring
      rw [this]
      have h53 : (0:ℝ) < (2:ℝ)^(-53:ℤ) := by positivity
      have h1075 : (0:ℝ) < (2:ℝ)^(-1075:ℤ) := by positivity
      have : (2:ℝ)^L * (2:ℝ)^e ≤ (m:ℝ) * (2:ℝ)^e := mul_le_mul_of_nonneg_right hlog h2e.le
      nlinarith

/-- standard model of rounding to binary32 -/
theorem roundPack_val (neg : Bool) (m : Nat) (e : Int) (hm : m ≠ 0)
    (hfit : e + ((Nat.log2 m + 1 : Nat) : Int) ≤ 1023) :
    ∃ m' e', decode (roundPack neg m e) = .fin neg m' e' ∧
      |(m':ℝ) * (2:ℝ)^e' - (m:ℝ) * (2:ℝ)^e| ≤ (2:ℝ)^(-53:ℤ) * ((m:ℝ) * (2:ℝ)^e) + (2:ℝ)^(-1075:ℤ) := by
  unfold roundPack
  simp only [hm, if_false]
  have hval := roundMQ_val m e hm
  obtain ⟨w1, w2, w3⟩ := roundMQ_wf m e hm
  have hq := roundMQ_q m e
  generalize (roundMQ m e).1 = mant at *
  generalize (roundMQ m e).2 = q at *
  have hq1023 : q + 53 ≤ 1023 := by omega
  by_cases hc : mant = 9007199254740992
  · refine ⟨4503599627370496, q+1, decode_encode_carry neg mant hc q w1 hq1023, ?_⟩
    have : ((4503599627370496:ℕ):ℝ) * (2:ℝ)^(q+1) = (mant:ℝ) * (2:ℝ)^q := by
      rw [hc, zpow_add₀ (by norm_num : (2:ℝ) ≠ 0)]; push_cast; ring
    rw [this]; exact hval
  · by_cases hs : mant < 4503599627370496
    · have hq1074 := w3 hs
      subst hq1074
      exact ⟨mant, -1074, decode_encode_sub neg mant hs, hval⟩
    · exact ⟨mant, q, decode_encode_normal neg mant q (by omega) (by omega) w1 (by omega), hval⟩

/-- **multiplication**: for finite operands whose exact product is below 2^1023 in magnitude, the
computed product is finite and within relative 2^-53 plus absolute 2^-1075 of the real product. -/
theorem mul_val (a b : Nat) (n1 n2 : Bool) (m1 m2 : Nat) (e1 e2 : Int)
    (ha : decode a = .fin n1 m1 e1) (hb : decode b = .fin n2 m2 e2)
    (hfit : m1 * m2 ≠ 0 → (e1 + e2) + ((Nat.log2 (m1*m2) + 1 : Nat) : Int) ≤ 1023) :
    Finite (mul a b) ∧ |toReal (mul a b) - toReal a * toReal b| ≤ (2:ℝ)^(-53:ℤ) * |toReal a * toReal b| + (2:ℝ)^(-1075:ℤ) := by
  have hta : toReal a = valR n1 m1 e1 := by simp [toReal, ha]
  have htb : toReal b = valR n2 m2 e2 := by simp [toReal, hb]
  have hmul : mul a b = roundPack (n1 != n2) (m1*m2) (e1+e2) := by simp [mul, ha, hb]
  have hprod : valR n1 m1 e1 * valR n2 m2 e2 = (if (n1 != n2) then -1 else 1) * (((m1*m2 : ℕ):ℝ) * (2:ℝ)^(e1+e2)) := by
    unfold valR; rw [zpow_add₀ (by norm_num : (2:ℝ) ≠ 0)]; push_cast
    cases n1 <;> cases n2 <;> simp <;> ring
  by_cases hz : m1 * m2 = 0
  · -- exact zero
    have hrp : roundPack (n1 != n2) (m1*m2) (e1+e2) = signBit (n1 != n2) := by simp [roundPack, hz]
    have hdec : decode (signBit (n1 != n2)) = .fin (n1 != n2) 0 (-1074) := by
      have := decode_pack (if (n1 != n2) then 1 else 0) 0 0 (by cases (n1 != n2) <;> simp) (by omega) (by omega)
      rw [signBit_eq]; simp only [Nat.zero_mul, Nat.add_zero] at this; rw [this]; cases (n1 != n2) <;> simp
    refine ⟨⟨_, _, _, by rw [hmul, hrp]; exact hdec⟩, ?_⟩
    have h0 : toReal (mul a b) = 0 := by simp [toReal, hmul, hrp, hdec, valR]
    have hp0 : toReal a * toReal b = 0 := by rw [hta, htb, hprod, hz]; simp
    rw [h0, hp0]; simp
  · obtain ⟨m', e', hdec, hval⟩ := roundPack_val (n1 != n2) (m1*m2) (e1+e2) hz (hfit hz)
    refine ⟨⟨_, _, _, by rw [hmul]; exact hdec⟩, ?_⟩
    have ht : toReal (mul a b) = (if (n1 != n2) then -1 else 1) * ((m':ℝ) * (2:ℝ)^e') := by simp [toReal, hmul, hdec, valR]
    rw [ht, hta, htb, hprod]
    have hpos : (0:ℝ) ≤ ((m1*m2 : ℕ):ℝ) * (2:ℝ)^(e1+e2) := by positivity
    cases (n1 != n2) <;> simp only [if_true, if_false, Bool.false_eq_true]
    · rw [one_mul, one_mul, abs_of_nonneg hpos]; exact hval
    · rw [neg_one_mul, neg_one_mul, abs_neg, abs_of_nonneg hpos]
      have : -((m':ℝ) * (2:ℝ)^e') - -(((m1*m2 : ℕ):ℝ) * (2:ℝ)^(e1+e2)) = -(((m':ℝ) * (2:ℝ)^e') - (((m1*m2 : ℕ):ℝ) * (2:ℝ)^(e1+e2))) := by ring
      rw [this, abs_neg]; exact hval

end F64

/-! GENERATED from Proofs/F32Real.lean by run/gen64proofs.py (binary64 instance of the same proof). -/
