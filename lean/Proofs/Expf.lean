import Proofs.Powf
import Proofs.Floor
import Proofs.Exp2Tiny
/-! `expf(x) = exp2(floor t) * exp2(t - floor t)`, `t = LOG2_E * x`, against the real exponential on `[-85, 85]`. -/
namespace Expf
open F32 MathM Real PolyCert ExpPoly Horner

theorem floor_wf (a : Nat) (ha : WF a) : WF (floor a) := by
  have h0 : WF 0 := by unfold WF; norm_num
  unfold floor
  split
  · dsimp only
    split_ifs <;> first | exact ha | exact h0 | exact signBit_wf _ | exact roundPack_wf _ _ _
  · exact ha

/-- the constant `LOG2_E` -/
theorem cert_log2e : finiteB LOG2_E = true ∧ (14426950216 / 10 ^ 10 : ℚ) ≤ ratOf LOG2_E ∧ ratOf LOG2_E ≤ 14426950217 / 10 ^ 10 := by
  decide +kernel

theorem exp_as_two (X : ℝ) : exp X = (2:ℝ) ^ (X / Real.log 2) := by
  have hl : Real.log 2 ≠ 0 := by have := Real.log_two_gt_d9; linarith
  rw [Real.rpow_def_of_pos (by norm_num : (0:ℝ) < 2)]
  congr 1; field_simp

/-- `1 / log 2` to nine digits -/
theorem inv_log_two : (1.4426950403:ℝ) ≤ 1 / Real.log 2 ∧ 1 / Real.log 2 ≤ (1.4426950415:ℝ) := by
  have h1 := Real.log_two_gt_d9
  have h2 := Real.log_two_lt_d9
  have hpos : 0 < Real.log 2 := by linarith
  constructor
  · rw [le_div_iff₀ hpos]
    have : (1.4426950403:ℝ) * Real.log 2 ≤ 1.4426950403 * 0.6931471808 := by
      apply mul_le_mul_of_nonneg_left h2.le (by norm_num)
    have : (1.4426950403:ℝ) * 0.6931471808 ≤ 1 := by norm_num
    linarith
  · rw [div_le_iff₀ hpos]
    have : (1.4426950415:ℝ) * 0.6931471803 ≤ 1.4426950415 * Real.log 2 := by
      apply mul_le_mul_of_nonneg_left h1.le (by norm_num)
    have : (1:ℝ) ≤ 1.4426950415 * 0.6931471803 := by norm_num
    linarith

/-- the exponent actually used, `nr + frv`, against `X / log 2` -/
theorem expf_exponent (nr frv t X c : ℝ) (hX : |X| ≤ 85)
    (hc1 : (1.4426950216:ℝ) ≤ c) (hc2 : c ≤ (1.4426950217:ℝ))
    (ht : |t - c * X| ≤ (1 / 16777216) * |c * X| + 1 / 10 ^ 40)
    (hfr : |frv - (t - nr)| ≤ (1 / 16777216) * |t - nr| + 1 / 10 ^ 40) (hn1 : nr ≤ t) (hn2 : t < nr + 1) :
    |nr + frv - X / Real.log 2| ≤ 9.08 / 10 ^ 6 := by
  obtain ⟨il1, il2⟩ := inv_log_two
  have hXa := abs_nonneg X
  have hcX : |c * X| ≤ 122.63 := by
    rw [abs_mul, abs_of_pos (by linarith : (0:ℝ) < c)]
    have : c * |X| ≤ 1.4426950217 * 85 := mul_le_mul hc2 hX hXa (by norm_num)
    linarith
  have hd2 : |t - X / Real.log 2| ≤ 9.02 / 10 ^ 6 := by
    have e : t - X / Real.log 2 = (t - c * X) + X * (c - 1 / Real.log 2) := by ring
    rw [e]
    refine le_trans (abs_add_le _ _) ?_
    rw [abs_mul]
    have hcd : |c - 1 / Real.log 2| ≤ 2 / 10 ^ 8 := by rw [abs_le]; constructor <;> linarith
    have h3 := mul_le_mul hX hcd (abs_nonneg _) (by norm_num : (0:ℝ) ≤ 85)
    have h4 : (1 / 16777216) * |c * X| ≤ (1 / 16777216) * 122.63 := mul_le_mul_of_nonneg_left hcX (by norm_num)
    linarith
  have htn : |t - nr| ≤ 1 := by rw [abs_le]; constructor <;> linarith
  have hd1 : |frv - (t - nr)| ≤ 6 / 10 ^ 8 := by
    have h4 : (1 / 16777216) * |t - nr| ≤ (1 / 16777216) * 1 := mul_le_mul_of_nonneg_left htn (by norm_num)
    linarith
  have e : nr + frv - X / Real.log 2 = (frv - (t - nr)) + (t - X / Real.log 2) := by ring
  rw [e]; exact le_trans (abs_add_le _ _) (by linarith)

/-- `A * B` against `exp X`, given the exponent bound -/
theorem expf_product (A B nr frv X : ℝ) (hδ : |nr + frv - X / Real.log 2| ≤ 9.08 / 10 ^ 6)
    (hA : |A - (2:ℝ) ^ nr| ≤ (91 / 10 ^ 8) * (2:ℝ) ^ nr) (hB : |B - (2:ℝ) ^ frv| ≤ (91 / 10 ^ 8) * (2:ℝ) ^ frv) :
    |A * B - exp X| ≤ (8124 / 10 ^ 9) * exp X := by
  have h2 : (0:ℝ) < 2 := by norm_num
  set w := nr + frv with hw
  set E := exp X with hE
  have hEpos : 0 < E := exp_pos X
  have hE2 : E = (2:ℝ) ^ (X / Real.log 2) := exp_as_two X
  set W := (2:ℝ) ^ w with hW
  have hWpos : 0 < W := Real.rpow_pos_of_pos h2 _
  have hWE : |W - E| ≤ (6302 / 10 ^ 9) * E := by
    have := Powf.two_pow_pert_sharp (X / Real.log 2) (w - X / Real.log 2) (by linarith)
    have e : X / Real.log 2 + (w - X / Real.log 2) = w := by ring
    rw [e, ← hE2] at this
    refine le_trans this ?_
    apply mul_le_mul_of_nonneg_right _ hEpos.le
    have := mul_le_mul_of_nonneg_left hδ (by norm_num : (0:ℝ) ≤ 694 / 1000)
    linarith
  have hWs : W = (2:ℝ) ^ nr * (2:ℝ) ^ frv := by rw [hW, hw, Real.rpow_add h2]
  set P := (2:ℝ) ^ nr with hP
  set Q := (2:ℝ) ^ frv with hQ
  have hPpos : 0 < P := Real.rpow_pos_of_pos h2 _
  have hQpos : 0 < Q := Real.rpow_pos_of_pos h2 _
  have hAB : |A * B - W| ≤ (1821 / 10 ^ 9) * W := by
    rw [hWs]
    have e : A * B - P * Q = (A - P) * Q + P * (B - Q) + (A - P) * (B - Q) := by ring
    rw [e]
    refine le_trans (abs_add_three _ _ _) ?_
    rw [abs_mul, abs_mul, abs_mul, abs_of_pos hQpos, abs_of_pos hPpos]
    have h1 : |A - P| * Q ≤ (91 / 10 ^ 8) * P * Q := mul_le_mul_of_nonneg_right hA hQpos.le
    have h2' : P * |B - Q| ≤ P * ((91 / 10 ^ 8) * Q) := mul_le_mul_of_nonneg_left hB hPpos.le
    have h3 : |A - P| * |B - Q| ≤ ((91 / 10 ^ 8) * P) * ((91 / 10 ^ 8) * Q) := mul_le_mul hA hB (abs_nonneg _) (by positivity)
    have hPQ : 0 < P * Q := mul_pos hPpos hQpos
    nlinarith
  have hABE := Exp2.rel_trans E W (A * B) (6302 / 10 ^ 9) (1821 / 10 ^ 9) hEpos.le (by norm_num) (by norm_num) hWE
    (by rw [abs_of_pos hWpos]; exact hAB)
  refine le_trans hABE ?_
  apply mul_le_mul_of_nonneg_right _ hEpos.le
  norm_num

/-- `exp X ≥ 2^-123` on `[-85, 85]` -/
theorem exp_low (X : ℝ) (hX : |X| ≤ 85) : (2:ℝ) ^ (-123:ℤ) ≤ exp X := by
  obtain ⟨il1, il2⟩ := inv_log_two
  rw [exp_as_two X, ← Real.rpow_intCast]
  apply Real.rpow_le_rpow_of_exponent_le (by norm_num)
  push_cast
  have hXl := (abs_le.mp hX).1
  have e : X / Real.log 2 = X * (1 / Real.log 2) := by ring
  rw [e]
  by_cases hXs : 0 ≤ X
  · have : 0 ≤ X * (1 / Real.log 2) := mul_nonneg hXs (by linarith)
    linarith
  · have hXn := le_of_lt (not_le.mp hXs)
    have : X * (1 / Real.log 2) ≥ X * 1.4426950415 := by
      have := mul_le_mul_of_nonneg_left il2 (by linarith : (0:ℝ) ≤ -X)
      linarith
    linarith

/-- the rounded product against `exp X` -/
theorem expf_final (AB res E : ℝ) (hEpos : 0 < E) (hElow : (2:ℝ) ^ (-123:ℤ) ≤ E)
    (hABE : |AB - E| ≤ (8124 / 10 ^ 9) * E) (hres : |res - AB| ≤ (1 / 16777216) * |AB| + eta) :
    |res - E| ≤ (1 / 10 ^ 5) * E := by
  have hABlow : (2:ℝ) ^ (-124:ℤ) ≤ |AB| := by
    have h1 : E * (1 - 1 / 100) ≤ |AB| := by
      have := abs_sub_abs_le_abs_sub E AB
      rw [abs_of_pos hEpos, abs_sub_comm] at this
      linarith
    have e : (2:ℝ) ^ (-124:ℤ) = (2:ℝ) ^ (-123:ℤ) * (1 / 2) := by
      rw [show (-124:ℤ) = -123 + -1 by norm_num, zpow_add₀ (by norm_num : (2:ℝ) ≠ 0)]; norm_num
    rw [e]
    have hp : (0:ℝ) < (2:ℝ) ^ (-123:ℤ) := by positivity
    generalize (2:ℝ) ^ (-123:ℤ) = p at *
    nlinarith
  have heta := Exp2.eta_rel _ hABlow
  have hres' : |res - AB| ≤ (8 / 10 ^ 8) * |AB| := by
    refine le_trans hres ?_
    have := abs_nonneg AB
    linarith
  have hfinal := Exp2.rel_trans E AB res _ (8 / 10 ^ 8) hEpos.le (by norm_num) (by norm_num) hABE hres'
  refine le_trans hfinal ?_
  apply mul_le_mul_of_nonneg_right _ hEpos.le
  norm_num

/-- **`expf` on `[-85, 85]`** (fast path, both FMA modes): relative error at most `1e-5` -/
theorem expf_close (fm : Bool) (x : Nat) (hx : Finite x) (h : |toReal x| ≤ 85) :
    ∃ r, expfFast fm x = .ok r ∧ Finite r ∧ |toReal r - exp (toReal x)| ≤ (1 / 10 ^ 5) * exp (toReal x) := by
  have hu' : u = 1 / 16777216 := u_val
  have he' : eta ≤ 1 / 10 ^ 40 := eta_le
  obtain ⟨c1, c2, c3⟩ := cert_log2e
  obtain ⟨cf, cv⟩ := Exp2.rat_val _ c1
  have hc1 : (1.4426950216:ℝ) ≤ toReal LOG2_E := by
    rw [cv]; have := (Rat.cast_le (K := ℝ)).mpr c2; push_cast at this; norm_num at this ⊢; linarith
  have hc2 : toReal LOG2_E ≤ (1.4426950217:ℝ) := by
    rw [cv]; have := (Rat.cast_le (K := ℝ)).mpr c3; push_cast at this; norm_num at this ⊢; linarith
  set c := toReal LOG2_E with hc
  set X := toReal x with hX
  have hcabs : |c| ≤ 2 := by rw [abs_le]; constructor <;> linarith
  -- t
  obtain ⟨htb, hte⟩ := mul_bnd LOG2_E x |c| |X| ⟨cf, le_refl _⟩ ⟨hx, le_refl _⟩ (fit_small _ (by nlinarith [abs_nonneg c, abs_nonneg X]))
  set t := toReal (mul LOG2_E x) with ht
  have hte' : |t - c * X| ≤ (1 / 16777216) * |c * X| + 1 / 10 ^ 40 := by rw [abs_mul, ← hu']; linarith
  have hcX : |c * X| ≤ 122.63 := by rw [abs_mul, abs_of_pos (by linarith : (0:ℝ) < c)]; nlinarith [abs_nonneg X]
  have htabs : |t| ≤ 122.7 := by
    have := abs_sub_abs_le_abs_sub t (c * X)
    nlinarith
  -- floor
  obtain ⟨hff, n, hfv, hn1, hn2⟩ := FloorL.floor_val (mul LOG2_E x) htb.1
  have hfw : WF (floor (mul LOG2_E x)) := floor_wf _ (mul_wf _ _)
  have hnabs : |(n:ℝ)| ≤ 124 := by
    obtain ⟨t1, t2⟩ := abs_le.mp htabs
    rw [abs_le]; constructor <;> linarith
  -- fractional part
  obtain ⟨hsf, hse⟩ := sub_val (mul LOG2_E x) (floor (mul LOG2_E x)) hfw htb.1 hff
    (by rw [hfv]; apply fit_small; rw [abs_le]; constructor <;> linarith)
  rw [hfv] at hse
  have hfit1 : |toReal (mul LOG2_E x) - toReal (floor (mul LOG2_E x))| < (2:ℝ) ^ (127:ℤ) := by
    rw [hfv]; apply fit_small; rw [abs_le]; constructor <;> linarith
  have hfr0 : 0 ≤ toReal (sub (mul LOG2_E x) (floor (mul LOG2_E x))) := by
    have := sub_ge (mul LOG2_E x) (floor (mul LOG2_E x)) 0 hfw htb.1 hff c_zero.1 hfit1
      (by rw [c_zero.2]; apply fit_small; norm_num) (by rw [c_zero.2, hfv]; linarith)
    rw [c_zero.2] at this; exact this
  have hfr1 : toReal (sub (mul LOG2_E x) (floor (mul LOG2_E x))) ≤ 1 := by
    have := sub_le (mul LOG2_E x) (floor (mul LOG2_E x)) 0x3f800000 hfw htb.1 hff c_one.1 hfit1
      (by rw [c_one.2]; apply fit_small; norm_num) (by rw [c_one.2, hfv]; linarith)
    rw [c_one.2] at this; exact this
  -- the two exp2 calls
  obtain ⟨A, hA, hAf, hAe⟩ := Exp2.exp2_int fm (floor (mul LOG2_E x)) n hff hfv (by rw [hfv]; exact hnabs)
  obtain ⟨B, hB, hBf, hBe⟩ := Exp2.exp2_frac fm (sub (mul LOG2_E x) (floor (mul LOG2_E x))) hsf hfr0 hfr1
  rw [hfv] at hAe
  -- the final product
  have h2 : (0:ℝ) < 2 := by norm_num
  have hPn : (2:ℝ) ^ (n:ℝ) ≤ (2:ℝ) ^ (124:ℝ) := Real.rpow_le_rpow_of_exponent_le (by norm_num) (abs_le.mp hnabs).2
  have hQ1 : (2:ℝ) ^ (toReal (sub (mul LOG2_E x) (floor (mul LOG2_E x)))) ≤ (2:ℝ) ^ (1:ℝ) :=
    Real.rpow_le_rpow_of_exponent_le (by norm_num) hfr1
  have hPpos : 0 < (2:ℝ) ^ (n:ℝ) := Real.rpow_pos_of_pos h2 _
  have hQpos : 0 < (2:ℝ) ^ (toReal (sub (mul LOG2_E x) (floor (mul LOG2_E x)))) := Real.rpow_pos_of_pos h2 _
  have hAabs : |toReal A| ≤ (2:ℝ) ^ (124:ℝ) * 1.01 := by
    have := abs_sub_abs_le_abs_sub (toReal A) ((2:ℝ) ^ (n:ℝ))
    rw [abs_of_pos hPpos] at this
    nlinarith
  have hBabs : |toReal B| ≤ 2 * 1.01 := by
    have := abs_sub_abs_le_abs_sub (toReal B) ((2:ℝ) ^ (toReal (sub (mul LOG2_E x) (floor (mul LOG2_E x)))))
    rw [abs_of_pos hQpos] at this
    rw [Real.rpow_one] at hQ1
    nlinarith
  have h124 : (2:ℝ) ^ (124:ℝ) = (2:ℝ) ^ (124:ℤ) := by rw [show (124:ℝ) = ((124:ℤ):ℝ) by norm_num, Real.rpow_intCast]
  obtain ⟨hrb, hre⟩ := mul_bnd A B |toReal A| |toReal B| ⟨hAf, le_refl _⟩ ⟨hBf, le_refl _⟩ (by
    have : |toReal A| * |toReal B| ≤ ((2:ℝ) ^ (124:ℝ) * 1.01) * (2 * 1.01) := mul_le_mul hAabs hBabs (abs_nonneg _) (by positivity)
    refine lt_of_le_of_lt this ?_
    rw [h124]
    have : (2:ℝ) ^ (127:ℤ) = (2:ℝ) ^ (124:ℤ) * 8 := by
      rw [show (127:ℤ) = 124 + 3 by norm_num, zpow_add₀ (by norm_num : (2:ℝ) ≠ 0)]; norm_num
    rw [this]
    have hp : (0:ℝ) < (2:ℝ) ^ (124:ℤ) := by positivity
    nlinarith)
  refine ⟨mul A B, ?_, hrb.1, ?_⟩
  · unfold expfFast
    simp only [hA, hB, Out.bind]
  · have hre' : |toReal (mul A B) - toReal A * toReal B| ≤ (1 / 16777216) * |toReal A * toReal B| + eta := by
      rw [abs_mul, ← hu']; exact hre
    have hse' : |toReal (sub (mul LOG2_E x) (floor (mul LOG2_E x))) - (t - (n:ℝ))| ≤ (1 / 16777216) * |t - (n:ℝ)| + 1 / 10 ^ 40 := by
      rw [← hu']; linarith
    have hδ := expf_exponent (n:ℝ) _ t X c h hc1 hc2 hte' hse' hn1 hn2
    have hprod := expf_product (toReal A) (toReal B) (n:ℝ) _ X hδ hAe hBe
    exact expf_final _ _ _ (exp_pos X) (exp_low X h) hprod hre'


/-! ### underflow: `expf(x) = 0` for `-1e38 ≤ x ≤ -88` -/

/-- a product with a zero factor is a zero -/
theorem mul_of_zero (a b : Nat) (ha : Finite a) (ha0 : toReal a = 0) (hb : Finite b) : Finite (mul a b) ∧ toReal (mul a b) = 0 := by
  obtain ⟨n1, m1, e1, h1⟩ := ha
  obtain ⟨n2, m2, e2, h2⟩ := hb
  have hm : m1 = 0 := by
    rw [toReal_of_decode _ _ _ _ h1] at ha0
    unfold valR at ha0
    rcases mul_eq_zero.mp ha0 with h | h
    · cases n1 <;> simp at h
    · rcases mul_eq_zero.mp h with h' | h'
      · exact_mod_cast h'
      · exfalso
        have h2p : (0:ℝ) < (2:ℝ) ^ e1 := by positivity
        linarith
  have hmul : mul a b = signBit (n1 != n2) := by
    unfold mul; rw [h1, h2]; simp [roundPack, hm]
  rw [hmul]
  exact ⟨⟨_, _, _, decode_signBit _⟩, by rw [toReal_of_decode _ _ _ _ (decode_signBit _), valR_zero]⟩

/-- `exp2` of an argument at most `-127`: exactly zero -/
theorem exp2_zero (fm : Bool) (x : Nat) (hx : Finite x) (h : toReal x ≤ -127) :
    ∃ r, exp2 fm x = .ok r ∧ Finite r ∧ toReal r = 0 := by
  obtain ⟨c1, c2, c3⟩ := Exp2.cert_clamp_lo
  obtain ⟨_, _, d3, d4, c5, c6, c7⟩ := Exp2.cert_clamp
  obtain ⟨flo, vlo⟩ := Exp2.rat_val _ c1
  obtain ⟨fhi, vhi⟩ := Exp2.rat_val _ d3
  obtain ⟨fh, vh⟩ := Exp2.rat_val _ c5
  have vh' : toReal C.exp2_f2 = 1 / 2 := by rw [vh, c6]; push_cast; ring
  have hlo1 : -127 ≤ toReal (neg C.exp2_f0) := by rw [vlo]; exact_mod_cast c2
  have hlo2 : toReal (neg C.exp2_f0) ≤ -124 := by rw [vlo]; exact_mod_cast c3
  have hhi : 124 ≤ toReal C.exp2_f1 := by rw [vhi]; exact_mod_cast d4
  have hu' : u = 1 / 16777216 := u_val
  have he' : eta ≤ 1 / 10 ^ 40 := eta_le
  -- the clamped value is the lower clamp constant
  obtain ⟨hm1, hm2⟩ := max_val x (neg C.exp2_f0) hx flo
  have fmx : Finite (F32.max x (neg C.exp2_f0)) := by rcases hm1 with e | e <;> rw [e] <;> assumption
  have vmx : toReal (F32.max x (neg C.exp2_f0)) = toReal (neg C.exp2_f0) := by rw [hm2]; exact max_eq_right (by linarith)
  obtain ⟨hn1, hn2⟩ := min_val (F32.max x (neg C.exp2_f0)) C.exp2_f1 fmx fhi
  have fc : Finite (exp2Clamp x) := by unfold exp2Clamp; rcases hn1 with e | e <;> rw [e] <;> assumption
  have vc : toReal (exp2Clamp x) = toReal (neg C.exp2_f0) := by
    unfold exp2Clamp; rw [hn2, vmx]; exact min_eq_left (by linarith)
  set L := toReal (neg C.exp2_f0) with hL
  -- lower clamp constant is below -126.9 (so that the truncation gives -127)
  have hLhi : L ≤ -1269 / 10 := by
    have : ratOf (neg C.exp2_f0) ≤ -1269 / 10 := by decide +kernel
    rw [vlo]; exact_mod_cast this
  obtain ⟨fs, es⟩ := sub_val (exp2Clamp x) C.exp2_f2 c7 fc fh (by rw [vc, vh']; apply fit_small; rw [abs_le]; constructor <;> linarith)
  rw [vc, vh'] at es
  set s := toReal (sub (exp2Clamp x) C.exp2_f2) with hs
  have es' : |s - (L - 1 / 2)| ≤ 1 / 10 ^ 5 := by
    refine le_trans es ?_
    have : |L - 1 / 2| ≤ 128 := by rw [abs_le]; constructor <;> linarith
    rw [hu']; nlinarith
  obtain ⟨s1, s2⟩ := abs_le.mp es'
  obtain ⟨i, hi⟩ := Exp2.toI32_ok _ fs (by
    have : |s| ≤ 128 := by rw [abs_le]; constructor <;> linarith
    exact lt_of_le_of_lt this (by norm_num))
  obtain ⟨_, t1, t2, t3⟩ := Exp2.toI32_trunc _ i hi
  rw [← hs] at t1 t2 t3
  obtain ⟨u1, u2⟩ := abs_lt.mp t1
  have hs0 : s < 0 := by linarith
  have hi0 : (i:ℝ) ≤ 0 := by
    by_contra hc
    have := not_le.mp hc
    nlinarith
  rw [abs_of_nonpos hi0, abs_of_neg hs0] at t2
  have hi127 : i = -127 := by
    have a1 : (-128:ℝ) < (i:ℝ) := by linarith
    have a2 : (i:ℝ) < -126 := by linarith
    have b1 : (-128:ℤ) < i := by exact_mod_cast a1
    have b2 : i < (-126:ℤ) := by exact_mod_cast a2
    omega
  subst hi127
  refine ⟨_, Exp2.exp2_eq fm x (-127) hi, ?_⟩
  rw [Exp2.exp2Val_eq, Exp2.expi_zero]
  -- the polynomial factor is finite
  obtain ⟨hfi, hvi⟩ := Exp2.ofInt_val (-127) (by norm_num)
  have hwi : WF (ofInt (-127)) := by
    unfold ofInt; split
    · unfold WF; omega
    · exact roundPack_wf _ _ _
  obtain ⟨hff, hfe⟩ := sub_val (exp2Clamp x) (ofInt (-127)) hwi fc hfi (by rw [hvi, vc]; apply fit_small; push_cast; rw [abs_le]; constructor <;> linarith)
  rw [hvi, vc] at hfe
  push_cast at hfe
  have hfX : |toReal (sub (exp2Clamp x) (ofInt (-127)))| ≤ ((1502 / 1000 : ℚ) : ℝ) := by
    have := abs_sub_abs_le_abs_sub (toReal (sub (exp2Clamp x) (ofInt (-127)))) (L - -127)
    have h3 : |L - -127| ≤ 1 / 5 := by rw [abs_le]; constructor <;> linarith
    push_cast
    rw [hu'] at hfe
    nlinarith
  obtain ⟨c1', _⟩ := Exp2.cert_horner
  obtain ⟨hhb, _⟩ := Horner.horner_err fm (sub (exp2Clamp x) (ofInt (-127))) (1502 / 1000) ⟨hff, hfX⟩ Exp2.Pc c1'
  exact mul_of_zero 0 _ c_zero.1 c_zero.2 hhb.1


/-- **`expf` underflows to zero**: for every finite `x` with `-1e38 ≤ x ≤ -88` the result is a (finite) zero -/
theorem expf_lo (fm : Bool) (x : Nat) (hx : Finite x) (h1 : -(10:ℝ) ^ 38 ≤ toReal x) (h2 : toReal x ≤ -88) :
    ∃ r, expfFast fm x = .ok r ∧ Finite r ∧ toReal r = 0 := by
  have hu' : u = 1 / 16777216 := u_val
  have he' : eta ≤ 1 / 10 ^ 40 := eta_le
  obtain ⟨c1, c2, c3⟩ := cert_log2e
  obtain ⟨cf, cv⟩ := Exp2.rat_val _ c1
  have hc1 : (1.4426950216:ℝ) ≤ toReal LOG2_E := by
    rw [cv]; have := (Rat.cast_le (K := ℝ)).mpr c2; push_cast at this; norm_num at this ⊢; linarith
  have hc2 : toReal LOG2_E ≤ (1.4426950217:ℝ) := by
    rw [cv]; have := (Rat.cast_le (K := ℝ)).mpr c3; push_cast at this; norm_num at this ⊢; linarith
  set c := toReal LOG2_E with hc
  set X := toReal x with hX
  have hXabs : |X| ≤ 10 ^ 38 := by rw [abs_le]; constructor <;> linarith
  have hcabs : |c| ≤ 3 / 2 := by rw [abs_le]; constructor <;> linarith
  obtain ⟨htb, hte⟩ := mul_bnd LOG2_E x (3 / 2) (10 ^ 38) ⟨cf, hcabs⟩ ⟨hx, hXabs⟩ (by norm_num)
  set t := toReal (mul LOG2_E x) with ht
  -- sharper: relative to c X
  have hte2 : |t - c * X| ≤ u * |c * X| + eta := by
    obtain ⟨_, h⟩ := mul_bnd LOG2_E x |c| |X| ⟨cf, le_refl _⟩ ⟨hx, le_refl _⟩ (by
      have : |c| * |X| ≤ (3 / 2) * 10 ^ 38 := mul_le_mul hcabs hXabs (abs_nonneg _) (by norm_num)
      refine lt_of_le_of_lt this ?_; norm_num)
    rw [abs_mul]; exact h
  have hcX : c * X ≤ -126.957 := by nlinarith
  have hcXneg : c * X < 0 := by linarith
  have htle : t ≤ -126.95 := by
    rw [abs_of_neg hcXneg] at hte2
    have := (abs_le.mp hte2).2
    rw [hu'] at this; nlinarith
  have htabs : |t| < (2:ℝ) ^ (127:ℤ) := by
    refine lt_of_le_of_lt htb.2 ?_; rw [hu']; norm_num; linarith
  -- floor
  obtain ⟨hff, n, hfv, hn1, hn2⟩ := FloorL.floor_val (mul LOG2_E x) htb.1
  have hfw : WF (floor (mul LOG2_E x)) := floor_wf _ (mul_wf _ _)
  have hn127 : (n:ℝ) ≤ -127 := by
    have : (n:ℝ) < -126 := by linarith
    have h' : n < (-126:ℤ) := by exact_mod_cast this
    have : n ≤ (-127:ℤ) := by omega
    exact_mod_cast this
  obtain ⟨A, hA, hAf, hA0⟩ := exp2_zero fm (floor (mul LOG2_E x)) hff (by rw [hfv]; exact hn127)
  -- fractional part
  have hfit1 : |toReal (mul LOG2_E x) - toReal (floor (mul LOG2_E x))| < (2:ℝ) ^ (127:ℤ) := by
    rw [hfv]; apply fit_small; rw [abs_le]; constructor <;> linarith
  obtain ⟨hsf, _⟩ := sub_val (mul LOG2_E x) (floor (mul LOG2_E x)) hfw htb.1 hff hfit1
  have hfr0 : 0 ≤ toReal (sub (mul LOG2_E x) (floor (mul LOG2_E x))) := by
    have := sub_ge (mul LOG2_E x) (floor (mul LOG2_E x)) 0 hfw htb.1 hff c_zero.1 hfit1
      (by rw [c_zero.2]; apply fit_small; norm_num) (by rw [c_zero.2, hfv]; linarith)
    rw [c_zero.2] at this; exact this
  have hfr1 : toReal (sub (mul LOG2_E x) (floor (mul LOG2_E x))) ≤ 1 := by
    have := sub_le (mul LOG2_E x) (floor (mul LOG2_E x)) 0x3f800000 hfw htb.1 hff c_one.1 hfit1
      (by rw [c_one.2]; apply fit_small; norm_num) (by rw [c_one.2, hfv]; linarith)
    rw [c_one.2] at this; exact this
  obtain ⟨B, hB, hBf, _⟩ := Exp2.exp2_frac fm (sub (mul LOG2_E x) (floor (mul LOG2_E x))) hsf hfr0 hfr1
  obtain ⟨hrf, hr0⟩ := mul_of_zero A B hAf hA0 hBf
  refine ⟨mul A B, ?_, hrf, hr0⟩
  unfold expfFast
  simp only [hA, hB, Out.bind]

end Expf
