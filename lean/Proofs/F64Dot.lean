import Proofs.F64Approx
import Model.Mat64
/-! Accuracy of the 3x3 algebra of `yuvxyb-math` (binary32 instance; the binary64 file is generated from this one):
for operands of magnitude at most 2, every operation is within 2e-6 of the exact real result. -/
namespace F64
open Real Mat64

/-- `fast_mul_add`-style dot product of three terms, either FMA mode, operands bounded by 2 -/
theorem dot3_two (fm : Bool) (a x b y c z : Nat) (ha : Bnd a 2) (hx : Bnd x 2) (hb : Bnd b 2) (hy : Bnd y 2) (hc : Bnd c 2) (hz : Bnd z 2) :
    Finite (fmadd fm a x (fmadd fm b y (F64.mul c z))) ∧
    |toReal (fmadd fm a x (fmadd fm b y (F64.mul c z))) - (toReal a * toReal x + (toReal b * toReal y + toReal c * toReal z))| ≤ 3 / 1000000 := by
  have hsm : (2:ℝ) * 2 ≤ 1000 ∧ (2:ℝ) * 2 ≤ 1000 ∧ (2:ℝ) * 2 ≤ 1000 := by norm_num
  have hu1 : u ≤ 1 / 9007199254740992 := by rw [u_val]
  have hu0 := u_pos
  have he1 := eta_le
  have he0 := eta_pos
  have hT1 : T1 2 2 ≤ 5 := by unfold T1; nlinarith
  have hT1' : 0 ≤ T1 2 2 := by unfold T1; nlinarith
  have h1u : 1 + u ≤ 2 := by linarith
  have hT3 : T3 2 2 2 2 ≤ 21 := by
    unfold T3
    have : (T1 2 2 + T1 2 2) * (1 + u) ≤ 10 * 2 := mul_le_mul (by linarith) h1u (by linarith) (by norm_num)
    linarith
  have hF2 : F2 2 2 2 2 ≤ 19 := by
    unfold F2
    have : (2 * 2 + T1 2 2) * (1 + u) ≤ 9 * 2 := mul_le_mul (by linarith) h1u (by linarith) (by norm_num)
    linarith
  have ub : ∀ X c : ℝ, X ≤ c → u * X ≤ u * c := fun X c h => mul_le_mul_of_nonneg_left h hu0.le
  cases fm
  · obtain ⟨b5, e5⟩ := dot3_nofma a x b y c z 2 2 2 2 2 2 ha hx hb hy hc hz hsm
    have hE : E5 2 2 2 2 2 2 ≤ 3 / 1000000 := by
      unfold E5
      have := ub (T1 2 2 + T1 2 2) 10 (by linarith)
      have := ub (T1 2 2 + T3 2 2 2 2) 26 (by linarith)
      linarith
    exact ⟨b5.1, le_trans e5 hE⟩
  · obtain ⟨b3, e3⟩ := dot3_fma a x b y c z 2 2 2 2 2 2 ha hx hb hy hc hz hsm
    have hE : EF 2 2 2 2 2 2 ≤ 3 / 1000000 := by
      unfold EF
      have := ub (2 * 2 + T1 2 2) 9 (by linarith)
      have := ub (2 * 2 + F2 2 2 2 2) 52 (by linarith)
      linarith
    exact ⟨b3.1, le_trans e3 hE⟩

/-- a vector / matrix whose entries are finite and at most 2 in magnitude -/
def V3.Ok (v : V3) : Prop := Bnd v.x 2 ∧ Bnd v.y 2 ∧ Bnd v.z 2
def M3.Ok (m : M3) : Prop := V3.Ok m.r1 ∧ V3.Ok m.r2 ∧ V3.Ok m.r3

noncomputable def rdot (r v : V3) : ℝ := toReal r.x * toReal v.x + (toReal r.y * toReal v.y + toReal r.z * toReal v.z)

/-- `mul_vec` / `mul_arr` -/
theorem mulArr_close (fm : Bool) (m : M3) (v : V3) (hm : M3.Ok m) (hv : V3.Ok v) :
    |toReal (M3.mulArr fm m v).x - rdot m.r1 v| ≤ 3 / 1000000 ∧ |toReal (M3.mulArr fm m v).y - rdot m.r2 v| ≤ 3 / 1000000 ∧
    |toReal (M3.mulArr fm m v).z - rdot m.r3 v| ≤ 3 / 1000000 :=
  ⟨(dot3_two fm _ _ _ _ _ _ hm.1.1 hv.1 hm.1.2.1 hv.2.1 hm.1.2.2 hv.2.2).2,
   (dot3_two fm _ _ _ _ _ _ hm.2.1.1 hv.1 hm.2.1.2.1 hv.2.1 hm.2.1.2.2 hv.2.2).2,
   (dot3_two fm _ _ _ _ _ _ hm.2.2.1 hv.1 hm.2.2.2.1 hv.2.1 hm.2.2.2.2 hv.2.2).2⟩

/-- `dot` -/
theorem dot_close (fm : Bool) (s o : V3) (hs : V3.Ok s) (ho : V3.Ok o) : |toReal (V3.dot fm s o) - rdot s o| ≤ 3 / 1000000 :=
  (dot3_two fm _ _ _ _ _ _ hs.1 ho.1 hs.2.1 ho.2.1 hs.2.2 ho.2.2).2

/-- `mul_mat`: every entry is the dot product of a row of the left operand with a column of the right one -/
theorem mulMat_close (fm : Bool) (a b : M3) (ha : M3.Ok a) (hb : M3.Ok b) :
    let c1 : V3 := ⟨b.r1.x, b.r2.x, b.r3.x⟩; let c2 : V3 := ⟨b.r1.y, b.r2.y, b.r3.y⟩; let c3 : V3 := ⟨b.r1.z, b.r2.z, b.r3.z⟩
    let p := M3.mulMat fm a b
    (|toReal p.r1.x - rdot a.r1 c1| ≤ 3 / 1000000 ∧ |toReal p.r1.y - rdot a.r1 c2| ≤ 3 / 1000000 ∧ |toReal p.r1.z - rdot a.r1 c3| ≤ 3 / 1000000) ∧
    (|toReal p.r2.x - rdot a.r2 c1| ≤ 3 / 1000000 ∧ |toReal p.r2.y - rdot a.r2 c2| ≤ 3 / 1000000 ∧ |toReal p.r2.z - rdot a.r2 c3| ≤ 3 / 1000000) ∧
    (|toReal p.r3.x - rdot a.r3 c1| ≤ 3 / 1000000 ∧ |toReal p.r3.y - rdot a.r3 c2| ≤ 3 / 1000000 ∧ |toReal p.r3.z - rdot a.r3 c3| ≤ 3 / 1000000) := by
  intro c1 c2 c3 p
  have h1 : V3.Ok c1 := ⟨hb.1.1, hb.2.1.1, hb.2.2.1⟩
  have h2 : V3.Ok c2 := ⟨hb.1.2.1, hb.2.1.2.1, hb.2.2.2.1⟩
  have h3 : V3.Ok c3 := ⟨hb.1.2.2, hb.2.1.2.2, hb.2.2.2.2⟩
  exact ⟨⟨dot_close fm a.r1 c1 ha.1 h1, dot_close fm a.r1 c2 ha.1 h2, dot_close fm a.r1 c3 ha.1 h3⟩,
         ⟨dot_close fm a.r2 c1 ha.2.1 h1, dot_close fm a.r2 c2 ha.2.1 h2, dot_close fm a.r2 c3 ha.2.1 h3⟩,
         ⟨dot_close fm a.r3 c1 ha.2.2 h1, dot_close fm a.r3 c2 ha.2.2 h2, dot_close fm a.r3 c3 ha.2.2 h3⟩⟩

/-- `component_mul` -/
theorem cmul_close (s o : V3) (hs : V3.Ok s) (ho : V3.Ok o) :
    |toReal (V3.cmul s o).x - toReal s.x * toReal o.x| ≤ 3 / 1000000 ∧ |toReal (V3.cmul s o).y - toReal s.y * toReal o.y| ≤ 3 / 1000000 ∧
    |toReal (V3.cmul s o).z - toReal s.z * toReal o.z| ≤ 3 / 1000000 := by
  have hu1 : u ≤ 1 / 9007199254740992 := by rw [u_val]
  have he1 := eta_le
  have key : ∀ a b : Nat, Bnd a 2 → Bnd b 2 → |toReal (F64.mul a b) - toReal a * toReal b| ≤ 3 / 1000000 := by
    intro a b ha hb
    obtain ⟨_, e⟩ := mul_bnd a b 2 2 ha hb (fit_small _ (by norm_num))
    refine le_trans e ?_
    nlinarith [eta_pos, u_pos]
  exact ⟨key _ _ hs.1 ho.1, key _ _ hs.2.1 ho.2.1, key _ _ hs.2.2 ho.2.2⟩

/-- one component of `cross`: `a*b - c*d` with `fast_mul_add(a, b, -(c*d))` -/
theorem cross1 (fm : Bool) (a b c d : Nat) (ha : Bnd a 2) (hb : Bnd b 2) (hc : Bnd c 2) (hd : Bnd d 2) :
    |toReal (fmadd fm a b (F64.neg (F64.mul c d))) - (toReal a * toReal b - toReal c * toReal d)| ≤ 3 / 1000000 := by
  have hu1 : u ≤ 1 / 9007199254740992 := by rw [u_val]
  have hu0 := u_pos
  have he1 := eta_le
  have he0 := eta_pos
  obtain ⟨b1, e1⟩ := mul_bnd c d 2 2 hc hd (fit_small _ (by norm_num))
  obtain ⟨fn, tn⟩ := toReal_neg (F64.mul c d) (mul_wf c d) b1.1
  have bn : Bnd (F64.neg (F64.mul c d)) (2 * 2 * (1 + u) + eta) := ⟨fn, by rw [tn, abs_neg]; exact b1.2⟩
  have hT : 2 * 2 * (1 + u) + eta ≤ 5 := by nlinarith
  cases fm
  · obtain ⟨b2, e2⟩ := mul_bnd a b 2 2 ha hb (fit_small _ (by norm_num))
    obtain ⟨_, e3⟩ := add_bnd (F64.mul a b) (F64.neg (F64.mul c d)) _ _ b2 bn (fit_small _ (by nlinarith))
    show |toReal (F64.add (F64.mul a b) (F64.neg (F64.mul c d))) - _| ≤ _
    rw [tn] at e3
    rw [abs_le] at e1 e2 e3 ⊢
    constructor <;> nlinarith [e1.1, e1.2, e2.1, e2.2, e3.1, e3.2]
  · obtain ⟨_, e3⟩ := fma_bnd a b (F64.neg (F64.mul c d)) 2 2 _ ha hb bn (fit_small _ (by nlinarith))
    show |toReal (F64.fma a b (F64.neg (F64.mul c d))) - _| ≤ _
    rw [tn] at e3
    rw [abs_le] at e1 e3 ⊢
    constructor <;> nlinarith [e1.1, e1.2, e3.1, e3.2]

/-- `cross` -/
theorem cross_close (fm : Bool) (s o : V3) (hs : V3.Ok s) (ho : V3.Ok o) :
    |toReal (V3.cross fm s o).x - (toReal s.y * toReal o.z - toReal s.z * toReal o.y)| ≤ 3 / 1000000 ∧
    |toReal (V3.cross fm s o).y - (toReal s.z * toReal o.x - toReal s.x * toReal o.z)| ≤ 3 / 1000000 ∧
    |toReal (V3.cross fm s o).z - (toReal s.x * toReal o.y - toReal s.y * toReal o.x)| ≤ 3 / 1000000 :=
  ⟨cross1 fm _ _ _ _ hs.2.1 ho.2.2 hs.2.2 ho.2.1, cross1 fm _ _ _ _ hs.2.2 ho.1 hs.1 ho.2.2, cross1 fm _ _ _ _ hs.1 ho.2.1 hs.2.1 ho.1⟩

end F64

/-! GENERATED from Proofs/F32Dot.lean by run/gen64proofs.py (binary64 instance of the same proof). -/
