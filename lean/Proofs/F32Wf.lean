import Proofs.F32Core
namespace F32

theorem log2_bounds (m : Nat) (hm : m ≠ 0) : 2^(Nat.log2 m) ≤ m ∧ m < 2^(Nat.log2 m + 1) :=
  ⟨Nat.log2_self_le hm, Nat.lt_log2_self⟩

theorem roundMQ_q (m : Nat) (e : Int) : (roundMQ m e).2 = Max.max (e + ((Nat.log2 m + 1 : Nat) : Int) - 24) (-149) := by
  unfold roundMQ; simp only [consts.1, consts.2.2.2.1]; split <;> simp

theorem roundMQ_wf (m : Nat) (e : Int) (hm : m ≠ 0) :
    -149 ≤ (roundMQ m e).2 ∧ (roundMQ m e).1 ≤ 16777216 ∧ ((roundMQ m e).1 < 8388608 → (roundMQ m e).2 = -149) := by
  obtain ⟨hlo, hhi⟩ := log2_bounds m hm
  unfold roundMQ
  simp only [consts.1, consts.2.2.2.1]
  generalize hnb : Nat.log2 m = L at *
  split <;> simp only []
  · next hq =>
    refine ⟨by omega, ?_, ?_⟩
    · have hk : (e - Max.max (e + ((L + 1 : Nat) : Int) - ((24 : Nat) : Int)) (-149)).toNat + (L + 1) ≤ 24 := by omega
      generalize (e - Max.max (e + ((L + 1 : Nat) : Int) - ((24 : Nat) : Int)) (-149)).toNat = k at *
      have : m * 2^k < 2^(L+1) * 2^k := Nat.mul_lt_mul_of_pos_right hhi (Nat.pow_pos (by decide))
      rw [← Nat.pow_add] at this
      have h2 : 2^(L+1+k) ≤ 2^24 := Nat.pow_le_pow_right (by decide) (by omega)
      have : (2:Nat)^24 = 16777216 := by decide
      omega
    · intro hlt
      refine Classical.byContradiction fun hne => ?_
      have hq' : Max.max (e + ((L + 1 : Nat) : Int) - ((24 : Nat) : Int)) (-149) = e + ((L + 1 : Nat) : Int) - ((24 : Nat) : Int) := by omega
      rw [hq'] at hlt hq
      have hk : (e - (e + ((L + 1 : Nat) : Int) - ((24 : Nat) : Int))).toNat = 23 - L := by omega
      rw [hk] at hlt
      have hL : L ≤ 23 := by omega
      have : 2^L * 2^(23-L) ≤ m * 2^(23-L) := Nat.mul_le_mul_right _ hlo
      rw [← Nat.pow_add] at this
      have h23 : L + (23 - L) = 23 := by omega
      rw [h23] at this
      have : (2:Nat)^23 = 8388608 := by decide
      omega
  · next hq =>
    have hq : e < Max.max (e + ((L + 1 : Nat) : Int) - ((24 : Nat) : Int)) (-149) := by omega
    refine ⟨by omega, ?_, ?_⟩
    · generalize hsh : (Max.max (e + ((L + 1 : Nat) : Int) - ((24 : Nat) : Int)) (-149) - e).toNat = sh at *
      have hsh1 : L + 1 ≤ 24 + sh := by omega
      have hle := rne_le m sh
      have : m / 2^sh < 16777216 := by
        apply Nat.div_lt_of_lt_mul
        have h1 : 2^(L+1) ≤ 2^(sh+24) := Nat.pow_le_pow_right (by decide) (by omega)
        have h2 : (2:Nat)^(sh+24) = 2^sh * 16777216 := by rw [Nat.pow_add]
        omega
      omega
    · intro hlt
      refine Classical.byContradiction fun hne => ?_
      have hq' : Max.max (e + ((L + 1 : Nat) : Int) - ((24 : Nat) : Int)) (-149) = e + ((L + 1 : Nat) : Int) - ((24 : Nat) : Int) := by omega
      rw [hq'] at hlt hq
      have hk : (e + ((L + 1 : Nat) : Int) - ((24 : Nat) : Int) - e).toNat = L - 23 := by omega
      rw [hk] at hlt
      have hL : 24 ≤ L := by omega
      have hge := rne_ge m (L - 23)
      have : 8388608 ≤ m / 2^(L-23) := by
        rw [Nat.le_div_iff_mul_le (Nat.pow_pos (by decide))]
        have : (2:Nat)^23 * 2^(L-23) = 2^L := by rw [← Nat.pow_add]; congr 1; omega
        have h23 : (2:Nat)^23 = 8388608 := by decide
        rw [← h23, this]; exact hlo
      omega

end F32
