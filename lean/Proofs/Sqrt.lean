import Proofs.F32Approx
import Mathlib.Analysis.SpecialFunctions.Sqrt
/-! Real-number semantics of the softfloat square root (`f32::sqrt`). -/
namespace F32
open Real

/-- **square root** of a positive finite float: within `(u + 2^-27) sqrt(x) + eta` of the real square root
(the model rounds an approximation that differs from the exact root by less than 2^-29 relative; it is in fact the
correctly rounded root, which this weaker statement does not need). -/
theorem sqrt_val (a : Nat) (m : Nat) (e : Int) (hd : decode a = .fin false m e) (hm : m ≠ 0) (hfit : Real.sqrt (toReal a) < (2:ℝ) ^ (126:ℤ)) :
    Finite (F32.sqrt a) ∧ |toReal (F32.sqrt a) - Real.sqrt (toReal a)| ≤ (u + (2:ℝ) ^ (-27:ℤ)) * Real.sqrt (toReal a) + eta := by
  have hv := toReal_of_decode a false m e hd
  unfold F32.sqrt
  rw [hd]
  simp only [hm, if_false, Bool.false_eq_true]
  simp only [consts.1]
  -- parity of the exponent
  have hp : e % 2 = 0 ∨ e % 2 = 1 := Int.emod_two_eq_zero_or_one e
  set p : Nat := (e % 2).toNat with hpdef
  have hp01 : p = 0 ∨ p = 1 := by rcases hp with h | h <;> simp [hpdef, h]
  have hpe : (p : Int) = e % 2 := by rcases hp with h | h <;> simp [hpdef, h]
  set g : Int := (e - (2 * (24 + 4) + p : Nat)) / 2 with hg
  have hge : 2 * g + (2 * (24 + 4) + p : Nat) = e := by
    have hdvd : (2:Int) ∣ (e - (2 * (24 + 4) + p : Nat)) := by
      have : (e - (2 * (24 + 4) + p : Nat)) % 2 = 0 := by push_cast; omega
      exact Int.dvd_of_emod_eq_zero this
    rw [hg]; rw [Int.mul_ediv_cancel' hdvd]; ring
  set M := m * 2 ^ (2 * (24 + 4) + p) with hM
  set s := Nat.sqrt M with hs
  have hMpos : 0 < M := Nat.mul_pos (Nat.pos_of_ne_zero hm) (by positivity)
  have hs1 : s * s ≤ M := Nat.sqrt_le M
  have hs2 : M < (s + 1) * (s + 1) := Nat.lt_succ_sqrt M
  have hsbig : 2 ^ 28 ≤ s := by
    rw [hs, Nat.le_sqrt]
    have : 2 ^ 28 * 2 ^ 28 ≤ 1 * 2 ^ (2 * (24 + 4) + p) := by
      rcases hp01 with h | h <;> rw [h] <;> norm_num
    calc 2 ^ 28 * 2 ^ 28 ≤ 1 * 2 ^ (2 * (24 + 4) + p) := this
      _ ≤ m * 2 ^ (2 * (24 + 4) + p) := Nat.mul_le_mul_right _ (Nat.one_le_iff_ne_zero.mpr hm)
  -- real versions
  have h2g : (0:ℝ) < (2:ℝ) ^ g := by positivity
  have hX : toReal a = (M:ℝ) * ((2:ℝ) ^ g) ^ 2 := by
    rw [hv]; unfold valR
    simp only [Bool.false_eq_true, if_false, one_mul]
    rw [hM]; push_cast
    rw [← zpow_natCast ((2:ℝ) ^ g) 2, ← zpow_mul, mul_assoc, ← zpow_natCast (2:ℝ), ← zpow_add₀ (by norm_num : (2:ℝ) ≠ 0)]
    congr 2
    have := hge; push_cast at this ⊢; linarith
  have hsq : Real.sqrt (toReal a) = Real.sqrt (M:ℝ) * (2:ℝ) ^ g := by
    rw [hX, Real.sqrt_mul (Nat.cast_nonneg M), Real.sqrt_sq h2g.le]
  set R := Real.sqrt (M:ℝ) with hR
  have hRs : (s:ℝ) ≤ R := by
    rw [hR]; apply Real.le_sqrt_of_sq_le; rw [sq]; exact_mod_cast hs1
  have hRs1 : R < (s:ℝ) + 1 := by
    rw [hR, Real.sqrt_lt' (by positivity)]; rw [sq]; exact_mod_cast hs2
  have hs28 : (2:ℝ) ^ (28:ℕ) ≤ (s:ℝ) := by exact_mod_cast hsbig
  -- the value handed to the rounding
  set sticky : Nat := if s * s = M then 0 else 1 with hst
  have hst01 : sticky = 0 ∨ sticky = 1 := by rw [hst]; split <;> simp
  have hVal : ((2 * s + sticky : Nat) : ℝ) * (2:ℝ) ^ (g - 1) = ((s:ℝ) + (sticky:ℝ) / 2) * (2:ℝ) ^ g := by
    rw [zpow_sub₀ (by norm_num : (2:ℝ) ≠ 0)]; push_cast; field_simp
  set V := ((s:ℝ) + (sticky:ℝ) / 2) * (2:ℝ) ^ g with hV
  have hVT : |V - R * (2:ℝ) ^ g| ≤ (2:ℝ) ^ (-28:ℤ) * (R * (2:ℝ) ^ g) := by
    have hRpos : 0 < R := lt_of_lt_of_le (by positivity) hRs
    have e1 : V - R * (2:ℝ) ^ g = ((s:ℝ) + (sticky:ℝ) / 2 - R) * (2:ℝ) ^ g := by rw [hV]; ring
    rw [e1, abs_mul, abs_of_pos h2g]
    have : |(s:ℝ) + (sticky:ℝ) / 2 - R| ≤ (2:ℝ) ^ (-28:ℤ) * R := by
      have h28 : (2:ℝ) ^ (-28:ℤ) * (2:ℝ) ^ (28:ℕ) = 1 := by norm_num
      have hR28 : 1 ≤ (2:ℝ) ^ (-28:ℤ) * R := by
        have : (2:ℝ) ^ (-28:ℤ) * (2:ℝ) ^ (28:ℕ) ≤ (2:ℝ) ^ (-28:ℤ) * R := mul_le_mul_of_nonneg_left (le_trans hs28 hRs) (by positivity)
        linarith
      rcases hst01 with h | h
      · -- exact root
        have hexact : s * s = M := by
          by_contra hne; rw [hst, if_neg hne] at h; omega
        have hRe : R = (s:ℝ) := by
          rw [hR, ← hexact]; push_cast; rw [Real.sqrt_mul_self (Nat.cast_nonneg s)]
        rw [h, hRe]; simp
      · rw [h]; push_cast
        rw [abs_le]; constructor <;> linarith
    calc |(s:ℝ) + (sticky:ℝ) / 2 - R| * (2:ℝ) ^ g ≤ ((2:ℝ) ^ (-28:ℤ) * R) * (2:ℝ) ^ g := mul_le_mul_of_nonneg_right this h2g.le
      _ = _ := by ring
  -- exponent handed to roundPack
  have hexp : (e - (2 * (24 + 4) + p : Nat)) / 2 - 1 = g - 1 := by rw [hg]
  rw [hexp]
  set T := R * (2:ℝ) ^ g with hT
  have hTpos : 0 < T := by
    have hRpos : 0 < R := lt_of_lt_of_le (by positivity) hRs
    positivity
  rw [hsq]
  have hVfit : ((2 * s + sticky : Nat) : ℝ) * (2:ℝ) ^ (g - 1) < (2:ℝ) ^ (127:ℤ) := by
    rw [hVal]
    have : V ≤ T * (1 + (2:ℝ) ^ (-28:ℤ)) := by
      have := (abs_le.mp hVT).2; linarith
    have hT126 : T < (2:ℝ) ^ (126:ℤ) := by rw [← hsq]; exact hfit
    have : T * (1 + (2:ℝ) ^ (-28:ℤ)) < (2:ℝ) ^ (126:ℤ) * 2 := by
      have h28 : (1:ℝ) + (2:ℝ) ^ (-28:ℤ) ≤ 2 := by norm_num
      nlinarith
    have e127 : (2:ℝ) ^ (127:ℤ) = (2:ℝ) ^ (126:ℤ) * 2 := by
      rw [show (127:ℤ) = 126 + 1 by norm_num, zpow_add₀ (by norm_num : (2:ℝ) ≠ 0)]; norm_num
    rw [e127]; linarith
  obtain ⟨hfin, herr⟩ := round_val false (2 * s + sticky) (g - 1) hVfit
  refine ⟨hfin, ?_⟩
  unfold valR at herr
  simp only [Bool.false_eq_true, if_false, one_mul] at herr
  rw [hVal] at herr
  have hVpos : 0 ≤ V := by rw [hV]; positivity
  rw [abs_of_nonneg hVpos] at herr
  -- combine
  have hVle : V ≤ T * (1 + (2:ℝ) ^ (-28:ℤ)) := by have := (abs_le.mp hVT).2; linarith
  have e : toReal (roundPack false (2 * s + sticky) (g - 1)) - T = (toReal (roundPack false (2 * s + sticky) (g - 1)) - V) + (V - T) := by ring
  rw [e]
  refine le_trans (abs_add_le _ _) ?_
  have hu := u_pos
  have hu1 : u ≤ 1 := by rw [u_val]; norm_num
  have h27 : (2:ℝ) ^ (-27:ℤ) = 2 * (2:ℝ) ^ (-28:ℤ) := by
    rw [show (-27:ℤ) = -28 + 1 by norm_num, zpow_add₀ (by norm_num : (2:ℝ) ≠ 0)]; norm_num
  have h28pos : (0:ℝ) < (2:ℝ) ^ (-28:ℤ) := by positivity
  rw [h27]
  generalize (2:ℝ) ^ (-28:ℤ) = w at *
  have huV : u * V ≤ u * (T * (1 + w)) := mul_le_mul_of_nonneg_left hVle hu.le
  have hwT : 0 ≤ w * T := by positivity
  have huw : u * (w * T) ≤ 1 * (w * T) := mul_le_mul_of_nonneg_right hu1 hwT
  have hVT' : |V - T| ≤ w * T := hVT
  nlinarith

end F32
