import Mathlib.Data.Real.Basic
import Mathlib.Tactic.Ring
import Mathlib.Tactic.Linarith
import Mathlib.Tactic.Positivity
import Mathlib.Tactic.NormNum
import Mathlib.Tactic.FieldSimp
/-! Certificates for the sign of a rational polynomial on an interval, checkable by kernel evaluation.

A polynomial is its coefficient list (constant term first). `shiftP p a` is `p (a + t)` as a polynomial in `t`
(Horner / Taylor shift), `lb q h` is a lower bound of `q` on `[0, h]` obtained by interval Horner evaluation that only
tracks the lower end, and `nonnegCells p a h n` checks that bound on the `n` consecutive cells `[a + i h, a + (i+1) h]`.
`nonnegCells_sound` turns a successful evaluation into `∀ x ∈ [a, a + n h], 0 ≤ p(x)` over the reals.
All arithmetic is exact (`ℚ`); nothing is sampled: every real point of the interval lies in one cell and the cell bound
holds for every point of the cell. -/
namespace PolyCert

/-- value of the coefficient list `p` at the real point `x` -/
noncomputable def evalR (p : List ℚ) (x : ℝ) : ℝ := p.foldr (fun c acc => (c:ℝ) + x * acc) 0

@[simp] theorem evalR_nil (x : ℝ) : evalR [] x = 0 := rfl
@[simp] theorem evalR_cons (c : ℚ) (p : List ℚ) (x : ℝ) : evalR (c :: p) x = (c:ℝ) + x * evalR p x := rfl

def addP : List ℚ → List ℚ → List ℚ
  | [], q => q
  | p, [] => p
  | a :: p, b :: q => (a + b) :: addP p q

def scaleP (k : ℚ) (p : List ℚ) : List ℚ := p.map (k * ·)

def negP (p : List ℚ) : List ℚ := p.map (fun c => -c)

def subP (p q : List ℚ) : List ℚ := addP p (negP q)

def mulP : List ℚ → List ℚ → List ℚ
  | [], _ => []
  | a :: p, q => addP (scaleP a q) (0 :: mulP p q)

def powP (p : List ℚ) : Nat → List ℚ
  | 0 => [1]
  | n + 1 => mulP p (powP p n)

/-- `p (a + t)` as a polynomial in `t` -/
def shiftP : List ℚ → ℚ → List ℚ
  | [], _ => []
  | c :: p, a => let q := shiftP p a; addP [c] (addP (scaleP a q) (0 :: q))

/-- `p (k t)` as a polynomial in `t` -/
def dilateP : List ℚ → ℚ → List ℚ
  | [], _ => []
  | c :: p, k => c :: scaleP k (dilateP p k)

/-- lower bound of `q` on `[0, h]` -/
def lb : List ℚ → ℚ → ℚ
  | [], _ => 0
  | c :: q, h => c + min 0 (h * lb q h)

def nonnegCells (p : List ℚ) (a h : ℚ) : Nat → Bool
  | 0 => true
  | n + 1 => decide (0 ≤ lb (shiftP p a) h) && nonnegCells p (a + h) h n

@[simp] theorem evalR_addP (p q : List ℚ) (x : ℝ) : evalR (addP p q) x = evalR p x + evalR q x := by
  induction p generalizing q with
  | nil => simp [addP]
  | cons a p ih =>
    cases q with
    | nil => simp [addP]
    | cons b q => simp [addP, ih]; ring

@[simp] theorem evalR_scaleP (k : ℚ) (p : List ℚ) (x : ℝ) : evalR (scaleP k p) x = (k:ℝ) * evalR p x := by
  induction p with
  | nil => simp [scaleP]
  | cons a p ih =>
    have : scaleP k (a :: p) = (k * a) :: scaleP k p := rfl
    rw [this]; simp [ih]; ring

@[simp] theorem evalR_negP (p : List ℚ) (x : ℝ) : evalR (negP p) x = - evalR p x := by
  induction p with
  | nil => simp [negP]
  | cons a p ih =>
    have : negP (a :: p) = (-a) :: negP p := rfl
    rw [this]; simp [ih]; ring

@[simp] theorem evalR_subP (p q : List ℚ) (x : ℝ) : evalR (subP p q) x = evalR p x - evalR q x := by
  simp [subP]; ring

@[simp] theorem evalR_mulP (p q : List ℚ) (x : ℝ) : evalR (mulP p q) x = evalR p x * evalR q x := by
  induction p with
  | nil => simp [mulP]
  | cons a p ih => simp [mulP, ih]; ring

@[simp] theorem evalR_powP (p : List ℚ) (n : Nat) (x : ℝ) : evalR (powP p n) x = evalR p x ^ n := by
  induction n with
  | zero => simp [powP]
  | succ n ih => simp [powP, ih]; ring

theorem evalR_shiftP (p : List ℚ) (a : ℚ) (t : ℝ) : evalR (shiftP p a) t = evalR p ((a:ℝ) + t) := by
  induction p with
  | nil => simp [shiftP]
  | cons c p ih => simp [shiftP, ih]; ring

theorem evalR_dilateP (p : List ℚ) (k : ℚ) (t : ℝ) : evalR (dilateP p k) t = evalR p ((k:ℝ) * t) := by
  induction p with
  | nil => simp [dilateP]
  | cons c p ih => simp [dilateP, ih]; ring

theorem lb_le (q : List ℚ) (h : ℚ) (t : ℝ) (ht0 : 0 ≤ t) (hth : t ≤ (h:ℝ)) : ((lb q h : ℚ) : ℝ) ≤ evalR q t := by
  induction q with
  | nil => simp [lb]
  | cons c q ih =>
    simp only [lb, evalR_cons]
    push_cast
    have hh : (0:ℝ) ≤ (h:ℝ) := le_trans ht0 hth
    have : min (0:ℝ) ((h:ℝ) * ((lb q h : ℚ) : ℝ)) ≤ t * evalR q t := by
      by_cases hl : 0 ≤ ((lb q h : ℚ) : ℝ)
      · exact le_trans (min_le_left _ _) (mul_nonneg ht0 (le_trans hl ih))
      · have hl := not_le.mp hl
        calc min (0:ℝ) ((h:ℝ) * ((lb q h : ℚ) : ℝ)) ≤ (h:ℝ) * ((lb q h : ℚ) : ℝ) := min_le_right _ _
          _ ≤ t * ((lb q h : ℚ) : ℝ) := by nlinarith
          _ ≤ t * evalR q t := by nlinarith
    linarith

theorem nonnegCells_sound (p : List ℚ) (a h : ℚ) (n : Nat) (hn : 0 < n) (hh : 0 ≤ h) (hc : nonnegCells p a h n = true)
    (x : ℝ) (hxa : (a:ℝ) ≤ x) (hxb : x ≤ (a:ℝ) + n * (h:ℝ)) : 0 ≤ evalR p x := by
  induction n generalizing a with
  | zero => omega
  | succ n ih =>
    simp only [nonnegCells, Bool.and_eq_true, decide_eq_true_eq] at hc
    by_cases hx : x ≤ (a:ℝ) + (h:ℝ)
    · have h0 : (0:ℝ) ≤ ((lb (shiftP p a) h : ℚ) : ℝ) := by exact_mod_cast hc.1
      have := lb_le (shiftP p a) h (x - a) (by linarith) (by linarith)
      rw [evalR_shiftP] at this
      have e : (a:ℝ) + (x - a) = x := by ring
      rw [e] at this
      linarith
    · have hx := not_lt.mp (not_lt.mpr (le_of_lt (not_le.mp hx)))
      have hn' : 0 < n := by
        rcases Nat.eq_zero_or_pos n with h0 | h0
        · subst h0; simp at hxb; linarith
        · exact h0
      apply ih (a + h) hn' hc.2
      · push_cast; linarith
      · push_cast; push_cast at hxb; linarith

/-- adaptive version of one cell: accept the interval bound, or bisect (at most `d` times) -/
def nonnegAdapt (p : List ℚ) (a h : ℚ) : Nat → Bool
  | 0 => decide (0 ≤ lb (shiftP p a) h)
  | d + 1 => decide (0 ≤ lb (shiftP p a) h) || (nonnegAdapt p a (h / 2) d && nonnegAdapt p (a + h / 2) (h / 2) d)

theorem nonnegAdapt_sound (p : List ℚ) (a h : ℚ) (d : Nat) (hh : 0 ≤ h) (hc : nonnegAdapt p a h d = true)
    (x : ℝ) (hxa : (a:ℝ) ≤ x) (hxb : x ≤ (a:ℝ) + (h:ℝ)) : 0 ≤ evalR p x := by
  have base : ∀ (a h : ℚ), 0 ≤ lb (shiftP p a) h → ∀ x : ℝ, (a:ℝ) ≤ x → x ≤ (a:ℝ) + (h:ℝ) → 0 ≤ evalR p x := by
    intro a h hl x hxa hxb
    have h0 : (0:ℝ) ≤ ((lb (shiftP p a) h : ℚ) : ℝ) := by exact_mod_cast hl
    have := lb_le (shiftP p a) h (x - a) (by linarith) (by linarith)
    rw [evalR_shiftP] at this
    have e : (a:ℝ) + (x - a) = x := by ring
    rw [e] at this
    linarith
  induction d generalizing a h with
  | zero =>
    simp only [nonnegAdapt, decide_eq_true_eq] at hc
    exact base a h hc x hxa hxb
  | succ d ih =>
    simp only [nonnegAdapt, Bool.or_eq_true, Bool.and_eq_true, decide_eq_true_eq] at hc
    rcases hc with hc | ⟨h1, h2⟩
    · exact base a h hc x hxa hxb
    · have hh2 : (0:ℚ) ≤ h / 2 := by positivity
      by_cases hx : x ≤ (a:ℝ) + ((h / 2 : ℚ) : ℝ)
      · exact ih a (h / 2) hh2 h1 hxa hx
      · have hx' := le_of_lt (not_le.mp hx)
        apply ih (a + h / 2) (h / 2) hh2 h2
        · push_cast; push_cast at hx'; linarith
        · push_cast; linarith

/-- `n` consecutive cells, each checked adaptively with bisection depth `d` -/
def nonnegCellsA (p : List ℚ) (a h : ℚ) (d : Nat) : Nat → Bool
  | 0 => true
  | n + 1 => nonnegAdapt p a h d && nonnegCellsA p (a + h) h d n

theorem nonnegCellsA_sound (p : List ℚ) (a h : ℚ) (d n : Nat) (hn : 0 < n) (hh : 0 ≤ h) (hc : nonnegCellsA p a h d n = true)
    (x : ℝ) (hxa : (a:ℝ) ≤ x) (hxb : x ≤ (a:ℝ) + n * (h:ℝ)) : 0 ≤ evalR p x := by
  induction n generalizing a with
  | zero => omega
  | succ n ih =>
    simp only [nonnegCellsA, Bool.and_eq_true] at hc
    by_cases hx : x ≤ (a:ℝ) + (h:ℝ)
    · exact nonnegAdapt_sound p a h d hh hc.1 x hxa hx
    · have hx' := le_of_lt (not_le.mp hx)
      have hn' : 0 < n := by
        rcases Nat.eq_zero_or_pos n with h0 | h0
        · subst h0; simp at hxb; linarith
        · exact h0
      apply ih (a + h) hn' hc.2
      · push_cast; linarith
      · push_cast; push_cast at hxb; linarith

end PolyCert
