import Proofs.F64Mono
/-! Signed forms of the monotonicity of rounding and their corollaries for `add`, `mul` and halving: a result whose exact
value is at most / at least a finite float `r` is itself at most / at least `r`; a representable exact result is exact. -/
namespace F64
open Real

/-- the rounded value carries the sign it was given -/
theorem round_sign (n : Bool) (m : Nat) (e : Int) (h : (m:ℝ) * (2:ℝ) ^ e < (2:ℝ) ^ (1023:ℤ)) :
    toReal (roundPack n m e) = (if n then -1 else 1) * |toReal (roundPack n m e)| := by
  by_cases hz : m = 0
  · subst hz
    have hrp : roundPack n 0 e = signBit n := by simp [roundPack]
    rw [hrp, toReal_of_decode _ _ _ _ (decode_signBit n), valR_zero]; simp
  · obtain ⟨m', e', hd, _⟩ := roundPack_decode n m e hz (fit_of_lt m e hz h)
    rw [toReal_of_decode _ _ _ _ hd, abs_valR]; rfl

theorem valR_sign (n : Bool) (m : Nat) (e : Int) : valR n m e = (if n then -1 else 1) * ((m:ℝ) * (2:ℝ) ^ e) := rfl

/-- **monotonicity (upper)**: `valR n m e ≤ toReal r` for a finite `r` implies the same for the rounded value -/
theorem round_le (n : Bool) (m : Nat) (e : Int) (r : Nat) (hr : Finite r) (hfit : (m:ℝ) * (2:ℝ) ^ e < (2:ℝ) ^ (1023:ℤ))
    (hrfit : |toReal r| < (2:ℝ) ^ (1023:ℤ)) (h : valR n m e ≤ toReal r) :
    Finite (roundPack n m e) ∧ toReal (roundPack n m e) ≤ toReal r := by
  obtain ⟨M, E, hM, hE, hR⟩ := rep_of_finite r hr
  have hfin : Finite (roundPack n m e) := (round_val n m e hfit).1
  refine ⟨hfin, ?_⟩
  have hs := round_sign n m e hfit
  have hmag : (0:ℝ) ≤ (m:ℝ) * (2:ℝ) ^ e := by positivity
  rw [valR_sign] at h
  cases n
  · -- non-negative value
    simp only [Bool.false_eq_true, if_false, one_mul] at h hs
    have hr0 : 0 ≤ toReal r := le_trans hmag h
    rw [abs_of_nonneg hr0] at hR hrfit
    obtain ⟨_, hb⟩ := round_abs_le false m e M E hM hE (by rw [← hR]; exact hrfit) (by rw [← hR]; exact h)
    rw [hs, hR]; exact hb
  · -- non-positive value
    simp only [if_true] at h hs
    by_cases hr0 : 0 ≤ toReal r
    · rw [hs]; have := abs_nonneg (toReal (roundPack true m e)); linarith
    · push Not at hr0
      rw [abs_of_neg hr0] at hR
      have hge : (M:ℝ) * (2:ℝ) ^ E ≤ (m:ℝ) * (2:ℝ) ^ e := by rw [← hR]; linarith
      obtain ⟨_, hb⟩ := round_abs_ge true m e M E hM hE hfit hge
      rw [hs]; linarith

/-- **monotonicity (lower)** -/
theorem round_ge (n : Bool) (m : Nat) (e : Int) (r : Nat) (hr : Finite r) (hfit : (m:ℝ) * (2:ℝ) ^ e < (2:ℝ) ^ (1023:ℤ))
    (hrfit : |toReal r| < (2:ℝ) ^ (1023:ℤ)) (h : toReal r ≤ valR n m e) :
    Finite (roundPack n m e) ∧ toReal r ≤ toReal (roundPack n m e) := by
  obtain ⟨M, E, hM, hE, hR⟩ := rep_of_finite r hr
  have hfin : Finite (roundPack n m e) := (round_val n m e hfit).1
  refine ⟨hfin, ?_⟩
  have hs := round_sign n m e hfit
  have hmag : (0:ℝ) ≤ (m:ℝ) * (2:ℝ) ^ e := by positivity
  rw [valR_sign] at h
  cases n
  · simp only [Bool.false_eq_true, if_false, one_mul] at h hs
    by_cases hr0 : toReal r ≤ 0
    · rw [hs]; have := abs_nonneg (toReal (roundPack false m e)); linarith
    · push Not at hr0
      rw [abs_of_pos hr0] at hR
      obtain ⟨_, hb⟩ := round_abs_ge false m e M E hM hE hfit (by rw [← hR]; exact h)
      rw [hs, hR]; exact hb
  · simp only [if_true] at h hs
    have hr0 : toReal r ≤ 0 := by linarith
    rw [abs_of_nonpos hr0] at hR hrfit
    have hle : (m:ℝ) * (2:ℝ) ^ e ≤ (M:ℝ) * (2:ℝ) ^ E := by rw [← hR]; linarith
    obtain ⟨_, hb⟩ := round_abs_le true m e M E hM hE (by rw [← hR]; exact hrfit) hle
    rw [hs]; linarith

/-- `add` as one rounding of the exact sum -/
theorem add_form (a b : Nat) (ha : Finite a) (hb : Finite b) :
    ∃ n m e, valR n m e = toReal a + toReal b ∧ (add a b = roundPack n m e ∨ (m = 0 ∧ ∃ s, add a b = signBit s)) := by
  obtain ⟨n1, m1, e1, h1⟩ := ha
  obtain ⟨n2, m2, e2, h2⟩ := hb
  have hex := addExact_val n1 m1 e1 n2 m2 e2
  rw [← toReal_of_decode a _ _ _ h1, ← toReal_of_decode b _ _ _ h2] at hex
  refine ⟨_, _, _, hex, ?_⟩
  have hadd : add a b = (if (addExact n1 m1 e1 n2 m2 e2).2.1 = 0 then signBit (n1 && n2)
      else roundPack (addExact n1 m1 e1 n2 m2 e2).1 (addExact n1 m1 e1 n2 m2 e2).2.1 (addExact n1 m1 e1 n2 m2 e2).2.2) := by
    unfold add; rw [h1, h2]
  by_cases hz : (addExact n1 m1 e1 n2 m2 e2).2.1 = 0
  · right; exact ⟨hz, _, by rw [hadd, if_pos hz]⟩
  · left; rw [hadd, if_neg hz]

theorem toReal_signBit (s : Bool) : Finite (signBit s) ∧ toReal (signBit s) = 0 :=
  ⟨⟨_, _, _, decode_signBit s⟩, by rw [toReal_of_decode _ _ _ _ (decode_signBit s), valR_zero]⟩

theorem add_le (a b r : Nat) (ha : Finite a) (hb : Finite b) (hr : Finite r) (hfit : |toReal a + toReal b| < (2:ℝ) ^ (1023:ℤ))
    (hrfit : |toReal r| < (2:ℝ) ^ (1023:ℤ)) (h : toReal a + toReal b ≤ toReal r) : toReal (add a b) ≤ toReal r := by
  obtain ⟨n, m, e, hv, hform⟩ := add_form a b ha hb
  rcases hform with hf | ⟨hm, s, hs⟩
  · rw [hf]
    have hfit' : (m:ℝ) * (2:ℝ) ^ e < (2:ℝ) ^ (1023:ℤ) := by rw [← abs_valR n m e, hv]; exact hfit
    exact (round_le n m e r hr hfit' hrfit (by rw [hv]; exact h)).2
  · rw [hs, (toReal_signBit s).2]
    rw [hm, valR_zero] at hv
    linarith

theorem add_ge (a b r : Nat) (ha : Finite a) (hb : Finite b) (hr : Finite r) (hfit : |toReal a + toReal b| < (2:ℝ) ^ (1023:ℤ))
    (hrfit : |toReal r| < (2:ℝ) ^ (1023:ℤ)) (h : toReal r ≤ toReal a + toReal b) : toReal r ≤ toReal (add a b) := by
  obtain ⟨n, m, e, hv, hform⟩ := add_form a b ha hb
  rcases hform with hf | ⟨hm, s, hs⟩
  · rw [hf]
    have hfit' : (m:ℝ) * (2:ℝ) ^ e < (2:ℝ) ^ (1023:ℤ) := by rw [← abs_valR n m e, hv]; exact hfit
    exact (round_ge n m e r hr hfit' hrfit (by rw [hv]; exact h)).2
  · rw [hs, (toReal_signBit s).2]
    rw [hm, valR_zero] at hv
    linarith

/-- a representable exact sum is returned exactly -/
theorem add_exact (a b r : Nat) (ha : Finite a) (hb : Finite b) (hr : Finite r) (hrfit : |toReal r| < (2:ℝ) ^ (1023:ℤ))
    (h : toReal a + toReal b = toReal r) : toReal (add a b) = toReal r :=
  le_antisymm (add_le a b r ha hb hr (by rw [h]; exact hrfit) hrfit h.le) (add_ge a b r ha hb hr (by rw [h]; exact hrfit) hrfit h.ge)

theorem sub_le (a b r : Nat) (hbw : WF b) (ha : Finite a) (hb : Finite b) (hr : Finite r) (hfit : |toReal a - toReal b| < (2:ℝ) ^ (1023:ℤ))
    (hrfit : |toReal r| < (2:ℝ) ^ (1023:ℤ)) (h : toReal a - toReal b ≤ toReal r) : toReal (sub a b) ≤ toReal r := by
  obtain ⟨hnf, hnv⟩ := toReal_neg b hbw hb
  unfold sub
  exact add_le a (neg b) r ha hnf hr (by rw [hnv, ← sub_eq_add_neg]; exact hfit) hrfit (by rw [hnv, ← sub_eq_add_neg]; exact h)

theorem sub_ge (a b r : Nat) (hbw : WF b) (ha : Finite a) (hb : Finite b) (hr : Finite r) (hfit : |toReal a - toReal b| < (2:ℝ) ^ (1023:ℤ))
    (hrfit : |toReal r| < (2:ℝ) ^ (1023:ℤ)) (h : toReal r ≤ toReal a - toReal b) : toReal r ≤ toReal (sub a b) := by
  obtain ⟨hnf, hnv⟩ := toReal_neg b hbw hb
  unfold sub
  exact add_ge a (neg b) r ha hnf hr (by rw [hnv, ← sub_eq_add_neg]; exact hfit) hrfit (by rw [hnv, ← sub_eq_add_neg]; exact h)

theorem sub_exact (a b r : Nat) (hbw : WF b) (ha : Finite a) (hb : Finite b) (hr : Finite r) (hrfit : |toReal r| < (2:ℝ) ^ (1023:ℤ))
    (h : toReal a - toReal b = toReal r) : toReal (sub a b) = toReal r :=
  le_antisymm (sub_le a b r hbw ha hb hr (by rw [h]; exact hrfit) hrfit h.le) (sub_ge a b r hbw ha hb hr (by rw [h]; exact hrfit) hrfit h.ge)

/-- `mul` as one rounding of the exact product -/
theorem mul_form (a b : Nat) (ha : Finite a) (hb : Finite b) :
    ∃ n m e, valR n m e = toReal a * toReal b ∧ mul a b = roundPack n m e := by
  obtain ⟨n1, m1, e1, h1⟩ := ha
  obtain ⟨n2, m2, e2, h2⟩ := hb
  refine ⟨n1 != n2, m1 * m2, e1 + e2, ?_, by simp [mul, h1, h2]⟩
  rw [toReal_of_decode a _ _ _ h1, toReal_of_decode b _ _ _ h2]
  unfold valR; rw [zpow_add₀ (by norm_num : (2:ℝ) ≠ 0)]; push_cast
  cases n1 <;> cases n2 <;> simp <;> ring

theorem mul_le (a b r : Nat) (ha : Finite a) (hb : Finite b) (hr : Finite r) (hfit : |toReal a * toReal b| < (2:ℝ) ^ (1023:ℤ))
    (hrfit : |toReal r| < (2:ℝ) ^ (1023:ℤ)) (h : toReal a * toReal b ≤ toReal r) : toReal (mul a b) ≤ toReal r := by
  obtain ⟨n, m, e, hv, hf⟩ := mul_form a b ha hb
  rw [hf]
  have hfit' : (m:ℝ) * (2:ℝ) ^ e < (2:ℝ) ^ (1023:ℤ) := by rw [← abs_valR n m e, hv]; exact hfit
  exact (round_le n m e r hr hfit' hrfit (by rw [hv]; exact h)).2

theorem mul_ge (a b r : Nat) (ha : Finite a) (hb : Finite b) (hr : Finite r) (hfit : |toReal a * toReal b| < (2:ℝ) ^ (1023:ℤ))
    (hrfit : |toReal r| < (2:ℝ) ^ (1023:ℤ)) (h : toReal r ≤ toReal a * toReal b) : toReal r ≤ toReal (mul a b) := by
  obtain ⟨n, m, e, hv, hf⟩ := mul_form a b ha hb
  rw [hf]
  have hfit' : (m:ℝ) * (2:ℝ) ^ e < (2:ℝ) ^ (1023:ℤ) := by rw [← abs_valR n m e, hv]; exact hfit
  exact (round_ge n m e r hr hfit' hrfit (by rw [hv]; exact h)).2

theorem mul_exact (a b r : Nat) (ha : Finite a) (hb : Finite b) (hr : Finite r) (hrfit : |toReal r| < (2:ℝ) ^ (1023:ℤ))
    (h : toReal a * toReal b = toReal r) : toReal (mul a b) = toReal r :=
  le_antisymm (mul_le a b r ha hb hr (by rw [h]; exact hrfit) hrfit h.le) (mul_ge a b r ha hb hr (by rw [h]; exact hrfit) hrfit h.ge)

/-- `fma` as one rounding of the exact `a*b + c` -/
theorem fma_form (a b c : Nat) (ha : Finite a) (hb : Finite b) (hc : Finite c) :
    ∃ n m e, valR n m e = toReal a * toReal b + toReal c ∧ (fma a b c = roundPack n m e ∨ (m = 0 ∧ ∃ s, fma a b c = signBit s)) := by
  obtain ⟨n1, m1, e1, h1⟩ := ha
  obtain ⟨n2, m2, e2, h2⟩ := hb
  obtain ⟨n3, m3, e3, h3⟩ := hc
  have hprod : valR n1 m1 e1 * valR n2 m2 e2 = valR (n1 != n2) (m1 * m2) (e1 + e2) := by
    unfold valR; rw [zpow_add₀ (by norm_num : (2:ℝ) ≠ 0)]; push_cast
    cases n1 <;> cases n2 <;> simp <;> ring
  have hex := addExact_val (n1 != n2) (m1 * m2) (e1 + e2) n3 m3 e3
  rw [← hprod, ← toReal_of_decode a _ _ _ h1, ← toReal_of_decode b _ _ _ h2, ← toReal_of_decode c _ _ _ h3] at hex
  refine ⟨_, _, _, hex, ?_⟩
  have hfma : fma a b c = (if (addExact (n1 != n2) (m1 * m2) (e1 + e2) n3 m3 e3).2.1 = 0 then signBit ((n1 != n2) && n3)
      else roundPack (addExact (n1 != n2) (m1 * m2) (e1 + e2) n3 m3 e3).1 (addExact (n1 != n2) (m1 * m2) (e1 + e2) n3 m3 e3).2.1
        (addExact (n1 != n2) (m1 * m2) (e1 + e2) n3 m3 e3).2.2) := by
    unfold fma; rw [h1, h2, h3]
  by_cases hz : (addExact (n1 != n2) (m1 * m2) (e1 + e2) n3 m3 e3).2.1 = 0
  · right; exact ⟨hz, _, by rw [hfma, if_pos hz]⟩
  · left; rw [hfma, if_neg hz]

theorem fma_le (a b c r : Nat) (ha : Finite a) (hb : Finite b) (hc : Finite c) (hr : Finite r)
    (hfit : |toReal a * toReal b + toReal c| < (2:ℝ) ^ (1023:ℤ)) (hrfit : |toReal r| < (2:ℝ) ^ (1023:ℤ))
    (h : toReal a * toReal b + toReal c ≤ toReal r) : toReal (fma a b c) ≤ toReal r := by
  obtain ⟨n, m, e, hv, hform⟩ := fma_form a b c ha hb hc
  rcases hform with hf | ⟨hm, s, hs⟩
  · rw [hf]
    have hfit' : (m:ℝ) * (2:ℝ) ^ e < (2:ℝ) ^ (1023:ℤ) := by rw [← abs_valR n m e, hv]; exact hfit
    exact (round_le n m e r hr hfit' hrfit (by rw [hv]; exact h)).2
  · rw [hs, (toReal_signBit s).2]
    rw [hm, valR_zero] at hv
    linarith

theorem fma_ge (a b c r : Nat) (ha : Finite a) (hb : Finite b) (hc : Finite c) (hr : Finite r)
    (hfit : |toReal a * toReal b + toReal c| < (2:ℝ) ^ (1023:ℤ)) (hrfit : |toReal r| < (2:ℝ) ^ (1023:ℤ))
    (h : toReal r ≤ toReal a * toReal b + toReal c) : toReal r ≤ toReal (fma a b c) := by
  obtain ⟨n, m, e, hv, hform⟩ := fma_form a b c ha hb hc
  rcases hform with hf | ⟨hm, s, hs⟩
  · rw [hf]
    have hfit' : (m:ℝ) * (2:ℝ) ^ e < (2:ℝ) ^ (1023:ℤ) := by rw [← abs_valR n m e, hv]; exact hfit
    exact (round_ge n m e r hr hfit' hrfit (by rw [hv]; exact h)).2
  · rw [hs, (toReal_signBit s).2]
    rw [hm, valR_zero] at hv
    linarith

theorem fma_exact (a b c r : Nat) (ha : Finite a) (hb : Finite b) (hc : Finite c) (hr : Finite r) (hrfit : |toReal r| < (2:ℝ) ^ (1023:ℤ))
    (h : toReal a * toReal b + toReal c = toReal r) : toReal (fma a b c) = toReal r :=
  le_antisymm (fma_le a b c r ha hb hc hr (by rw [h]; exact hrfit) hrfit h.le) (fma_ge a b c r ha hb hc hr (by rw [h]; exact hrfit) hrfit h.ge)

theorem abs_wf (a : Nat) (ha : WF a) : WF (F64.abs a) := by
  unfold WF at *; unfold F64.abs; simp only [consts.2.2.2.2.2.2.2.1]; split <;> omega

theorem fma_wf (a b c : Nat) : WF (F64.fma a b c) := by
  unfold F64.fma
  repeat' split
  all_goals first | exact qnan_wf | exact infB_wf _ | exact signBit_wf _ | exact roundPack_wf _ _ _

theorem div_wf (a b : Nat) : WF (F64.div a b) := by
  unfold F64.div
  repeat' split
  all_goals first | exact qnan_wf | exact infB_wf _ | exact signBit_wf _ | exact roundPack_wf _ _ _


end F64

/-! GENERATED from Proofs/F32MonoOps.lean by run/gen64proofs.py (binary64 instance of the same proof). -/
