import Proofs.PowRel
/-! `powf` on `[0, 1 + 1e-6]`: the form needed when the base is itself a rounded quotient that may exceed 1 by an ulp. -/
namespace PowCurve
open F32 MathM Real

theorem pow_unit_ext (fm : Bool) (x y : Nat) (γ : ℝ) (hxw : WF x) (hx : Finite x) (hX0 : 0 ≤ toReal x) (hX1 : toReal x ≤ 1 + 1 / 10 ^ 6)
    (hy : Finite y) (hγ1 : 35 / 100 ≤ γ) (hγ2 : γ ≤ 3) (hyγ : |toReal y - γ| ≤ 1 / 10 ^ 6) :
    ∃ r, powfFast fm x y = .ok r ∧ Finite r ∧
      |toReal r - (toReal x) ^ γ| ≤ 1832 / 10 ^ 7 + (7914 / 10 ^ 9) * γ + 9 / 10 ^ 6 := by
  by_cases h1 : toReal x ≤ 1
  · obtain ⟨r, h2, h3, h4⟩ := pow_unit fm x y γ hxw hx hX0 h1 hy hγ1 hγ2 hyγ
    exact ⟨r, h2, h3, by linarith⟩
  · have hgt := not_le.mp h1
    obtain ⟨y1, y2⟩ := abs_le.mp hyγ
    set X := toReal x with hX
    set Y := toReal y with hY
    have hXpos : 0 < X := by linarith
    obtain ⟨r, h2, h3, h4⟩ := PowRel.pow_rel fm x y hxw hx hX0 (by linarith) hy (by linarith) (by linarith)
    refine ⟨r, h2, h3, ?_⟩
    -- both powers lie in [1, 1 + 4e-6]
    have hpow : ∀ w : ℝ, 0 ≤ w → w ≤ 3 + 1 / 10 ^ 6 → 1 ≤ X ^ w ∧ X ^ w ≤ 1 + 5 / 10 ^ 6 := by
      intro w hw0 hw3
      constructor
      · exact Real.one_le_rpow hgt.le hw0
      · calc X ^ w ≤ X ^ (4:ℝ) := Real.rpow_le_rpow_of_exponent_le hgt.le (by linarith)
          _ ≤ (1 + 1 / 10 ^ 6 : ℝ) ^ (4:ℝ) := Real.rpow_le_rpow hXpos.le hX1 (by norm_num)
          _ ≤ 1 + 5 / 10 ^ 6 := by rw [show (4:ℝ) = ((4:ℕ):ℝ) by norm_num, Real.rpow_natCast]; norm_num
    obtain ⟨p1, p2⟩ := hpow Y (by linarith) (by linarith)
    obtain ⟨q1, q2⟩ := hpow γ (by linarith) (by linarith)
    have h39 : (2:ℝ) ^ (-39:ℤ) ≤ 1 / 10 ^ 11 := by norm_num
    rcases h4 with h | ⟨_, hv⟩
    · have e : toReal r - X ^ γ = (toReal r - X ^ Y) + (X ^ Y - X ^ γ) := by ring
      rw [e]
      refine le_trans (abs_add_le _ _) ?_
      have hd : |X ^ Y - X ^ γ| ≤ 5 / 10 ^ 6 := by rw [abs_le]; constructor <;> linarith
      have hb : (1832 / 10 ^ 7 + 7914 / 10 ^ 9 * Y) * X ^ Y ≤ (1832 / 10 ^ 7 + 7914 / 10 ^ 9 * Y) * (1 + 5 / 10 ^ 6) :=
        mul_le_mul_of_nonneg_left p2 (by nlinarith)
      nlinarith
    · exfalso
      have : X ^ Y ≤ 1 / 10 ^ 11 := le_trans hv h39
      linarith

end PowCurve
