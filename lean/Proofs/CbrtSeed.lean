import Proofs.CbrtStep
import Proofs.F64Exact
import Proofs.F32Ops
/-! The integer seed of `cbrtf_fast` (`hx/3 + B1` on the bit pattern): for every normal binary32 argument the seed is
`c w` with `c³ = x` and `|w - 1| ≤ 1/20`. The bit trick is periodic in the exponent with period 3, which reduces the claim to
the 3·2^23 pairs (exponent residue, fraction); monotonicity in the fraction reduces those to 192 cells, checked by the kernel
(`decide +kernel`). The constants 3 and B1 are the ones regenerated from the source (`C.cbrtf_fast_i1`, `C.cbrtf_fast_B1_i0`). -/
namespace Cbrt

/-- significand of the seed, in units of 2^(a-66), for exponent field `3a+b` and fraction `f` -/
def Mt (b f : Nat) : Nat :=
  let h := (b * 8388608 + f) / 3 + 5315058
  if h < 8388608 then 8388608 + h else 2 * h

def cellOk (b i : Nat) : Bool :=
  let f0 := i * 131072
  let f1 := f0 + 131071
  decide (6859 * (8388608 + f1) * 2 ^ (b + 48) ≤ 8000 * (Mt b f0) ^ 3) && decide (8000 * (Mt b f1) ^ 3 ≤ 9261 * (8388608 + f0) * 2 ^ (b + 48))

theorem cells : ∀ b < 3, ∀ i < 64, cellOk b i = true := by decide +kernel

theorem Mt_mono (b f f' : Nat) (h : f ≤ f') : Mt b f ≤ Mt b f' := by
  unfold Mt
  have hg : (b * 8388608 + f) / 3 ≤ (b * 8388608 + f') / 3 := Nat.div_le_div_right (by omega)
  simp only
  split <;> split <;> omega

/-- (19/20)³ ≤ seed³ / x ≤ (21/20)³ in integers, for every residue and fraction -/
theorem seed_nat (b f : Nat) (hb : b < 3) (hf : f < 8388608) :
    6859 * (8388608 + f) * 2 ^ (b + 48) ≤ 8000 * (Mt b f) ^ 3 ∧ 8000 * (Mt b f) ^ 3 ≤ 9261 * (8388608 + f) * 2 ^ (b + 48) := by
  have hi : f / 131072 < 64 := by omega
  have hc := cells b hb (f / 131072) hi
  unfold cellOk at hc
  simp only [Bool.and_eq_true, decide_eq_true_eq] at hc
  obtain ⟨h1, h2⟩ := hc
  have hf0 : f / 131072 * 131072 ≤ f := Nat.div_mul_le_self f 131072
  have hf1 : f ≤ f / 131072 * 131072 + 131071 := by omega
  have m0 := Mt_mono b _ _ hf0
  have m1 := Mt_mono b _ _ hf1
  have c0 : (Mt b (f / 131072 * 131072)) ^ 3 ≤ (Mt b f) ^ 3 := Nat.pow_le_pow_left m0 3
  have c1 : (Mt b f) ^ 3 ≤ (Mt b (f / 131072 * 131072 + 131071)) ^ 3 := Nat.pow_le_pow_left m1 3
  constructor
  · calc 6859 * (8388608 + f) * 2 ^ (b + 48) ≤ 6859 * (8388608 + (f / 131072 * 131072 + 131071)) * 2 ^ (b + 48) :=
          Nat.mul_le_mul_right _ (Nat.mul_le_mul_left _ (by omega))
      _ ≤ 8000 * (Mt b (f / 131072 * 131072)) ^ 3 := h1
      _ ≤ 8000 * (Mt b f) ^ 3 := Nat.mul_le_mul_left _ c0
  · calc 8000 * (Mt b f) ^ 3 ≤ 8000 * (Mt b (f / 131072 * 131072 + 131071)) ^ 3 := Nat.mul_le_mul_left _ c1
      _ ≤ 9261 * (8388608 + f / 131072 * 131072) * 2 ^ (b + 48) := h2
      _ ≤ 9261 * (8388608 + f) * 2 ^ (b + 48) := Nat.mul_le_mul_right _ (Nat.mul_le_mul_left _ (by omega))

/-- the seed's bit pattern, field by field -/
theorem seed_bits (s E f x ui : Nat) (hs : s ≤ 1) (hE1 : 1 ≤ E) (hE2 : E ≤ 254) (hf : f < 8388608)
    (hxdef : x = s * 2147483648 + E * 8388608 + f)
    (huidef : ui = (x / 2147483648 % 2) * 2147483648 + ((x % 2147483648) / C.cbrtf_fast_i1 + C.cbrtf_fast_B1_i0)) :
    ∃ m e, F32.decode ui = .fin (decide (s = 1)) m e ∧ (m : Int) * 2 ^ (e + 150).toNat = (Mt (E % 3) f : Int) * 2 ^ (E / 3 + 84) ∧ -150 ≤ e ∧ m < 16777216 := by
  have h3 : C.cbrtf_fast_i1 = 3 := rfl
  have hB : C.cbrtf_fast_B1_i0 = 709958130 := rfl
  obtain ⟨a, b, hab, hb⟩ : ∃ a b, E = 3 * a + b ∧ b < 3 := ⟨E / 3, E % 3, by omega, by omega⟩
  have hEd : E / 3 = a := by omega
  have hEm : E % 3 = b := by omega
  rw [hEd, hEm]
  have hg : (b * 8388608 + f) / 3 < 8388608 := by omega
  obtain ⟨g, hgd⟩ : ∃ g, g = (b * 8388608 + f) / 3 := ⟨_, rfl⟩
  have hx1 : x / 2147483648 % 2 = s := by rw [hxdef]; exact (F32.fields s E f hs (by omega) hf).2.2
  have hx2 : x % 2147483648 = E * 8388608 + f := by
    rw [hxdef, show s * 2147483648 + E * 8388608 + f = (E * 8388608 + f) + 2147483648 * s by ring, Nat.add_mul_mod_self_left, Nat.mod_eq_of_lt (by omega)]
  have hdiv : (E * 8388608 + f) / 3 = a * 8388608 + g := by rw [hgd, hab]; omega
  have hui : ui = s * 2147483648 + ((a * 8388608 + g) + 709958130) := by
    rw [huidef, hx1, hx2, h3, hB, hdiv]
  clear huidef hxdef hx1 hx2 h3 hB
  have hMt : Mt b f = if g + 5315058 < 8388608 then 8388608 + (g + 5315058) else 2 * (g + 5315058) := by unfold Mt; rw [← hgd]
  rw [hui, hMt]
  have hdec : decide (s = 1) = decide ((if decide (s = 1) then 1 else 0 : Nat) = 1) := by
    rcases Nat.le_one_iff_eq_zero_or_eq_one.mp hs with r | r <;> simp [r]
  by_cases hcase : g + 5315058 < 8388608
  · rw [if_pos hcase]
    have e1 : s * 2147483648 + ((a * 8388608 + g) + 709958130) = s * 2147483648 + (a + 84) * 8388608 + (g + 5315058) := by omega
    rw [e1, F32.decode_pack s (a + 84) (g + 5315058) hs (by omega) hcase]
    have hk : ¬ (a + 84 = 255) := by omega
    have hk0 : ¬ (a + 84 = 0) := by omega
    simp only [hk, hk0, if_false]
    refine ⟨_, _, rfl, ?_, by omega, by omega⟩
    have : ((((a + 84 : Nat) : Int) + (-149 - 1)) + 150).toNat = a + 84 := by omega
    rw [this]; push_cast; ring
  · rw [if_neg hcase]
    have e1 : s * 2147483648 + ((a * 8388608 + g) + 709958130) = s * 2147483648 + (a + 85) * 8388608 + (g + 5315058 - 8388608) := by omega
    rw [e1, F32.decode_pack s (a + 85) (g + 5315058 - 8388608) hs (by omega) (by omega)]
    have hk : ¬ (a + 85 = 255) := by omega
    have hk0 : ¬ (a + 85 = 0) := by omega
    simp only [hk, hk0, if_false]
    refine ⟨_, _, rfl, ?_, by omega, by omega⟩
    have : ((((a + 85 : Nat) : Int) + (-149 - 1)) + 150).toNat = a + 85 := by omega
    rw [this]
    have hsub : g + 5315058 - 8388608 + 8388608 = g + 5315058 := Nat.sub_add_cancel (Nat.le_of_not_lt hcase)
    rw [hsub, pow_succ]; push_cast; ring

end Cbrt
