import Proofs.PowRel
/-! A variant of `PowRel.pow_near1` for the exponent of the sRGB inverse EOTF (`1/2.4`), reaching down to `x = 0.672`. -/
namespace PowRel
open F32 MathM Real

/-- `2^(-23/40) ≤ 0.672` -/
theorem two_pow_low' : (2:ℝ) ^ (-(23:ℝ) / 40) ≤ 672 / 1000 := by
  have h1 : (2:ℝ) ^ (-(23:ℝ)) ≤ (672 / 1000 : ℝ) ^ (40:ℝ) := by
    rw [show (-(23:ℝ)) = ((-23:ℤ):ℝ) by norm_num, Real.rpow_intCast, show (40:ℝ) = ((40:ℕ):ℝ) by norm_num, Real.rpow_natCast]
    norm_num
  have h2 := Real.rpow_le_rpow (by positivity) h1 (by norm_num : (0:ℝ) ≤ 1 / 40)
  rw [← Real.rpow_mul (by norm_num), ← Real.rpow_mul (by norm_num)] at h2
  have e1 : (-(23:ℝ)) * (1 / 40) = -(23:ℝ) / 40 := by ring
  have e2 : (40:ℝ) * (1 / 40) = 1 := by norm_num
  rw [e1, e2, Real.rpow_one] at h2
  exact h2

/-- **`powf` next to 1, exponent about 1/2.4**: for `0.672 ≤ x ≤ 1.001` and `0.41 ≤ y ≤ 0.417` the relative error is at most `3.5e-5` -/
theorem pow_near1b (fm : Bool) (x y : Nat) (hx31 : x < 2147483648) (hx : Finite x) (hX0 : 672 / 1000 ≤ toReal x) (hX1 : toReal x ≤ 1001 / 1000)
    (hy : Finite y) (hY1 : 41 / 100 ≤ toReal y) (hY2 : toReal y ≤ 417 / 1000) :
    ∃ r, powfFast fm x y = .ok r ∧ Finite r ∧ |toReal r - (toReal x) ^ (toReal y)| ≤ (35 / 10 ^ 6) * (toReal x) ^ (toReal y) := by
  have hu' : u = 1 / 16777216 := u_val
  have he' : eta ≤ 1 / 10 ^ 40 := eta_le
  set X := toReal x with hX
  set Y := toReal y with hY
  have hXpos : 0 < X := by linarith
  have hxfin := PowCurve.finite_pos_lt x hx hx31
  have hn1 : 8388608 ≤ x := by
    by_contra hc
    obtain ⟨_, _, hsv⟩ := PowCurve.sub_value x (not_le.mp hc)
    have h126 : (2:ℝ) ^ (-126:ℤ) ≤ 1 / 10 := by norm_num
    have : X ≤ 1 / 10 := le_trans hsv h126
    linarith
  obtain ⟨hlf, hle⟩ := Log2.log2_close fm x hn1 hxfin
  set L := Real.logb 2 X with hL
  have hLlo : -(23:ℝ) / 40 ≤ L := by
    rw [hL, Real.le_logb_iff_rpow_le (by norm_num) hXpos]
    exact le_trans two_pow_low' hX0
  have hLhi : L ≤ 15 / 10000 := by
    rw [hL, Real.logb_le_iff_le_rpow (by norm_num) hXpos, Real.rpow_def_of_pos (by norm_num : (0:ℝ) < 2)]
    have := Real.add_one_le_exp (Real.log 2 * (15 / 10000))
    have hl := Real.log_two_gt_d9
    nlinarith
  have hLabs : |L| ≤ 1 := by rw [abs_le]; constructor <;> linarith
  have hYabs : |Y| ≤ 1 := by rw [abs_le]; constructor <;> linarith
  have hLY : |L * Y| ≤ 117 := by rw [abs_mul]; nlinarith [abs_nonneg L, abs_nonneg Y]
  set lh := toReal (log2 fm x) with hlh
  have hlhabs : |lh| ≤ 2 := by
    have := abs_sub_abs_le_abs_sub lh L
    nlinarith
  obtain ⟨hzb, hze⟩ := mul_bnd (log2 fm x) y |lh| |Y| ⟨hlf, le_refl _⟩ ⟨hy, le_refl _⟩ (fit_small _ (by nlinarith [abs_nonneg lh, abs_nonneg Y]))
  set z := toReal (mul (log2 fm x) y) with hz
  have hze' : |z - lh * Y| ≤ (1 / 16777216) * |lh * Y| + 1 / 10 ^ 40 := by rw [abs_mul, ← hu']; linarith
  have hΔ := powf_exponent lh L Y z hle hze' (by linarith) hLY
  obtain ⟨d1, d2⟩ := abs_le.mp hΔ
  have hYa : |Y| = Y := abs_of_pos (by linarith)
  rw [hYa] at d1 d2
  have hLYlo : -(23978:ℝ) / 100000 ≤ L * Y := by nlinarith
  have hLYhi : L * Y ≤ 7 / 10000 := by nlinarith
  obtain ⟨r, hr, hrf, hre⟩ := Exp2.exp2_mid fm (mul (log2 fm x) y) hzb.1 (by nlinarith) (by nlinarith)
  refine ⟨r, hr, hrf, ?_⟩
  have hv := Powf.rpow_as_two X Y hXpos
  obtain ⟨_, hcore⟩ := Powf.powf_core_gen lh L Y z (toReal r) (X ^ Y) (182 / 10 ^ 7) hle hze' (by linarith) hLY hv (by norm_num) hre
  refine le_trans hcore ?_
  apply mul_le_mul_of_nonneg_right _ (Real.rpow_pos_of_pos hXpos _).le
  rw [hYa]
  nlinarith

end PowRel
