import Model.F32
/-! core-Lean lemmas about F32 rounding: integer RNE error, decode∘encode, well-formedness (ported from the SF3 spikes) -/
namespace F32

theorem consts : PREC = 24 ∧ FB = 23 ∧ EMASK = 255 ∧ QMIN = -149 ∧ EMAX = 127 ∧ HID = 8388608 ∧ TOP = 16777216 ∧ SIGN = 2147483648 ∧ INFB = 2139095040 :=
  ⟨rfl, rfl, rfl, rfl, rfl, rfl, rfl, rfl, rfl⟩

theorem two_pow_pred (sh : Nat) (h : 0 < sh) : 2^sh = 2 * 2^(sh-1) := by
  cases sh with
  | zero => omega
  | succ n => simp [Nat.pow_succ, Nat.mul_comm]

theorem rne_err (m sh : Nat) (hs : 0 < sh) :
    rne m sh * 2^sh ≤ m + 2^(sh-1) ∧ m ≤ rne m sh * 2^sh + 2^(sh-1) := by
  unfold rne
  have hp := two_pow_pred sh hs
  have hdm := Nat.div_add_mod m (2^sh)
  have hlt : m % 2^sh < 2^sh := Nat.mod_lt _ (Nat.pow_pos (by decide))
  generalize 2^(sh-1) = H at *
  generalize hq : m / 2^sh = q at *
  generalize hr : m % 2^sh = r at *
  generalize hP : 2^sh = P at *
  have hne : sh ≠ 0 := by omega
  simp only [hne, if_false]
  subst hp
  have e1 : (q+1) * (2*H) = q*(2*H) + 2*H := by rw [Nat.add_mul]; simp
  have e2 : 2*H*q = q*(2*H) := Nat.mul_comm _ _
  split <;> constructor <;> omega

theorem rne_ge (m sh : Nat) : m / 2^sh ≤ rne m sh := by
  unfold rne; split
  · next h => subst h; simp
  · simp only; split <;> omega

theorem rne_le (m sh : Nat) : rne m sh ≤ m / 2^sh + 1 := by
  unfold rne; split
  · next h => subst h; simp
  · simp only; split <;> omega

theorem fields (s k f : Nat) (hs : s ≤ 1) (hk : k < 256) (hf : f < 8388608) :
    (s*2147483648 + k*8388608 + f) % 8388608 = f ∧
    ((s*2147483648 + k*8388608 + f) / 8388608) % 256 = k ∧
    ((s*2147483648 + k*8388608 + f) / 2147483648) % 2 = s := by
  refine ⟨?_, ?_, ?_⟩ <;> omega

theorem decode_pack (s k f : Nat) (hs : s ≤ 1) (hk : k < 256) (hf : f < 8388608) :
    decode (s*2147483648 + k*8388608 + f) =
      if k = 255 then (if f = 0 then .inf (decide (s = 1)) else .nan)
      else if k = 0 then .fin (decide (s = 1)) f (-149)
      else .fin (decide (s = 1)) (f + 8388608) ((k : Int) + (-149 - 1)) := by
  obtain ⟨h1, h2, h3⟩ := fields s k f hs hk hf
  unfold decode
  simp only [consts.2.2.2.2.2.1, consts.2.2.1, consts.2.2.2.2.2.2.2.1, consts.2.2.2.1, h1, h2, h3]

theorem signBit_eq (neg : Bool) : signBit neg = (if neg then 1 else 0) * 2147483648 := by
  cases neg <;> simp [signBit, consts.2.2.2.2.2.2.2.1]

theorem decode_encode_normal (neg : Bool) (mant : Nat) (q : Int)
    (h1 : 8388608 ≤ mant) (h2 : mant < 16777216) (hq1 : -149 ≤ q) (hq2 : q + 23 ≤ 127) :
    decode (encode neg mant q) = .fin neg mant q := by
  unfold encode
  simp only [consts.2.2.2.2.2.2.1, consts.2.1, consts.2.2.2.2.1, consts.2.2.2.2.2.1, consts.2.2.2.1]
  have hne : mant ≠ 16777216 := by omega
  have h3 : ¬ (q + ((23:Nat):Int) > 127) := by omega
  have h4 : ¬ (mant < 8388608) := by omega
  rw [if_neg hne, if_neg h3, if_neg h4]
  obtain ⟨k, hk⟩ : ∃ k : Nat, q - -149 + 1 = (k : Int) := ⟨(q - -149 + 1).toNat, by omega⟩
  have hk1 : 1 ≤ k := by omega
  have hk2 : k ≤ 254 := by omega
  rw [hk, Int.toNat_natCast, signBit_eq,
    decode_pack _ k (mant - 8388608) (by cases neg <;> simp) (by omega) (by omega)]
  have h255 : k ≠ 255 := by omega
  have h0 : k ≠ 0 := by omega
  rw [if_neg h255, if_neg h0]
  have e1 : mant - 8388608 + 8388608 = mant := by omega
  have e2 : (k : Int) + (-149 - 1) = q := by omega
  rw [e1, e2]
  cases neg <;> simp

theorem decode_encode_sub (neg : Bool) (mant : Nat) (h : mant < 8388608) :
    decode (encode neg mant (-149)) = .fin neg mant (-149) := by
  unfold encode
  simp only [consts.2.2.2.2.2.2.1, consts.2.1, consts.2.2.2.2.1, consts.2.2.2.2.2.1, consts.2.2.2.1]
  have hne : mant ≠ 16777216 := by omega
  have h3 : ¬ ((-149:Int) + ((23:Nat):Int) > 127) := by omega
  rw [if_neg hne, if_neg h3, if_pos h]
  have := decode_pack (if neg then 1 else 0) 0 mant (by cases neg <;> simp) (by omega) h
  rw [signBit_eq]
  simp only [Nat.zero_mul, Nat.add_zero] at this
  rw [this]
  cases neg <;> simp

theorem decode_encode_carry (neg : Bool) (mant : Nat) (hm : mant = 16777216) (q : Int) (hq1 : -149 ≤ q) (hq2 : q + 24 ≤ 127) :
    decode (encode neg mant q) = .fin neg 8388608 (q+1) := by
  unfold encode
  simp only [consts.2.2.2.2.2.2.1, consts.2.1, consts.2.2.2.2.1, consts.2.2.2.2.2.1, consts.2.2.2.1]
  have h3 : ¬ (q + 1 + ((23:Nat):Int) > 127) := by omega
  rw [if_pos hm, if_neg h3]
  obtain ⟨k, hk⟩ : ∃ k : Nat, q + 1 - -149 + 1 = (k : Int) := ⟨(q + 1 - -149 + 1).toNat, by omega⟩
  have hk1 : 2 ≤ k := by omega
  have hk2 : k ≤ 254 := by omega
  rw [hk, Int.toNat_natCast, signBit_eq]
  have hz : (if neg then 1 else 0) * 2147483648 + k * 8388608 = (if neg then 1 else 0) * 2147483648 + k * 8388608 + 0 := (Nat.add_zero _).symm
  rw [hz, decode_pack (if neg then 1 else 0) k 0 (by cases neg <;> simp) (by omega) (by omega)]
  have h255 : k ≠ 255 := by omega
  have h0 : k ≠ 0 := by omega
  rw [if_neg h255, if_neg h0]
  have e2 : (k : Int) + (-149 - 1) = q + 1 := by omega
  rw [e2]
  cases neg <;> simp

end F32
