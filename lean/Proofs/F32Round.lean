import Proofs.F32Approx
import Proofs.F32Exact
import Model.Color
import Mathlib.Data.Nat.Cast.Order.Field
import Mathlib.Tactic.FieldSimp
/-! Integer-valued operations of the model: exact packing of small integers, `round` (half away from zero), the saturating
`as u16` cast. -/
namespace F32
open Real

/-- integer part computed by the casts: for a decoded value that is exactly the natural number `k`, truncation returns `k` -/
theorem trunc_of_nat (m : Nat) (e : Int) (k : Nat) (h : (m:ℝ) * (2:ℝ)^e = (k:ℝ)) :
    (if e ≥ 0 then m * 2 ^ e.toNat else m / 2 ^ (-e).toNat) = k := by
  split
  · rename_i he
    have : (2:ℝ)^e = ((2 ^ e.toNat : ℕ) : ℝ) := by
      push_cast; rw [← zpow_natCast]; congr 1; omega
    rw [this] at h
    exact_mod_cast h
  · rename_i he
    have hk : (2:ℝ)^e = (((2 ^ (-e).toNat : ℕ) : ℝ))⁻¹ := by
      push_cast; rw [← zpow_natCast, ← zpow_neg]; congr 1; omega
    rw [hk] at h
    have hp : (0:ℝ) < ((2 ^ (-e).toNat : ℕ) : ℝ) := by positivity
    have : (m:ℝ) = (k:ℝ) * ((2 ^ (-e).toNat : ℕ) : ℝ) := by
      have h' : (m:ℝ) * (((2 ^ (-e).toNat : ℕ) : ℝ))⁻¹ * ((2 ^ (-e).toNat : ℕ) : ℝ) = (k:ℝ) * ((2 ^ (-e).toNat : ℕ) : ℝ) := by rw [h]
      rw [mul_assoc, inv_mul_cancel₀ (ne_of_gt hp), mul_one] at h'
      exact h'
    have hm : m = k * 2 ^ (-e).toNat := by exact_mod_cast this
    rw [hm, Nat.mul_div_cancel _ (Nat.pow_pos (by decide))]

/-- **`round()` then `as u16`**: for a finite `a` of magnitude below 2^23 there is a natural `k` within 1/2 of |a| such that
`round a` is the float ±k and the saturating cast yields `min k 65535` (0 for negative values) -/
theorem round_spec (a : Nat) (n : Bool) (m : Nat) (e : Int) (hd : decode a = .fin n m e) (hb : (m:ℝ) * (2:ℝ)^e < 8388608) :
    ∃ k : ℕ, |(k:ℝ) - (m:ℝ) * (2:ℝ)^e| ≤ 1 / 2 ∧ Finite (round a) ∧ toReal (round a) = (if n then -(k:ℝ) else (k:ℝ)) ∧
      toU16Sat (round a) = (if n then 0 else (if k > 65535 then 65535 else k)) := by
  have h2e : (0:ℝ) < (2:ℝ)^e := by positivity
  by_cases hcase : e ≥ 0 ∨ m = 0
  · -- already an integer: returned unchanged
    have hr : round a = a := by unfold round; rw [hd]; simp only [hcase, if_true]
    rw [hr]
    have hk : ∃ k : ℕ, (m:ℝ) * (2:ℝ)^e = (k:ℝ) := by
      rcases hcase with he | hm
      · refine ⟨m * 2 ^ e.toNat, ?_⟩
        push_cast; rw [← zpow_natCast]; congr 2; omega
      · exact ⟨0, by rw [hm]; simp⟩
    obtain ⟨k, hk⟩ := hk
    refine ⟨k, by rw [hk]; simp, ⟨_, _, _, hd⟩, ?_, ?_⟩
    · rw [toReal_of_decode _ _ _ _ hd]; unfold valR; rw [hk]; cases n <;> simp
    · unfold toU16Sat; rw [hd]; dsimp only
      rw [trunc_of_nat m e k hk]
  · have he : e < 0 := by omega
    have hm : m ≠ 0 := by intro h; exact hcase (Or.inr h)
    have hsh : 0 < (-e).toNat := by omega
    obtain ⟨sh, hsh0, hsh1⟩ : ∃ sh : Nat, (-e).toNat = sh ∧ 0 < sh := ⟨_, rfl, hsh⟩
    have hP : (0:ℝ) < (2:ℝ)^sh := by positivity
    have hval : (m:ℝ) * (2:ℝ)^e = (m:ℝ) / (2:ℝ)^sh := by
      rw [div_eq_mul_inv, ← zpow_natCast, ← zpow_neg]; congr 2; omega
    -- q = (m + 2^(sh-1)) / 2^sh is within 1/2 of m / 2^sh
    have hhalf := two_pow_pred sh hsh1
    have hdm := Nat.div_add_mod (m + 2 ^ (sh - 1)) (2 ^ sh)
    have hlt := Nat.mod_lt (m + 2 ^ (sh - 1)) (Nat.pow_pos (by decide) : 0 < 2 ^ sh)
    set q := (m + 2 ^ (sh - 1)) / 2 ^ sh with hq
    have hqr : |(q:ℝ) - (m:ℝ) / (2:ℝ)^sh| ≤ 1 / 2 := by
      have e1 : ((2 ^ sh : ℕ) : ℝ) * (q:ℝ) + (((m + 2 ^ (sh - 1)) % 2 ^ sh : ℕ) : ℝ) = (m:ℝ) + ((2 ^ (sh - 1) : ℕ) : ℝ) := by exact_mod_cast hdm
      have e2 : (((m + 2 ^ (sh - 1)) % 2 ^ sh : ℕ) : ℝ) < ((2 ^ sh : ℕ) : ℝ) := by exact_mod_cast hlt
      have e3 : ((2 ^ sh : ℕ) : ℝ) = 2 * ((2 ^ (sh - 1) : ℕ) : ℝ) := by exact_mod_cast hhalf
      have e0 : (0:ℝ) ≤ (((m + 2 ^ (sh - 1)) % 2 ^ sh : ℕ) : ℝ) := by positivity
      push_cast at e1 e2 e3
      have key : (q:ℝ) - (m:ℝ) / (2:ℝ)^sh = ((2:ℝ)^(sh-1) - (((m + 2 ^ (sh - 1)) % 2 ^ sh : ℕ) : ℝ)) / (2:ℝ)^sh := by
        field_simp; push_cast; linarith
      rw [key, abs_le]
      constructor
      · rw [le_div_iff₀ hP]; push_cast; linarith
      · rw [div_le_iff₀ hP]; push_cast; linarith
    have hqv : |(q:ℝ) - (m:ℝ) * (2:ℝ)^e| ≤ 1 / 2 := by rw [hval]; exact hqr
    have hr : round a = (if q = 0 then signBit n else roundPack n q 0) := by
      unfold round; rw [hd]
      simp only [hcase, if_false]
      rw [hsh0]
    rw [hr]
    by_cases hq0 : q = 0
    · simp only [hq0, if_true]
      refine ⟨0, by rw [hq0] at hqv; exact hqv, ⟨_, _, _, decode_signBit n⟩, ?_, ?_⟩
      · rw [toReal_of_decode _ _ _ _ (decode_signBit n), valR_zero]; cases n <;> simp
      · unfold toU16Sat; rw [decode_signBit]; cases n <;> simp
    · simp only [hq0, if_false]
      have hqlt : q < 16777216 := by
        have h1 := (abs_le.mp hqv).2
        have : (q:ℝ) < 16777216 := by linarith
        exact_mod_cast this
      obtain ⟨m', e', hdec, hex⟩ := roundPack_exact n q 0 hqlt (by norm_num) (by
        have : (q:ℝ) < 16777216 := by exact_mod_cast hqlt
        simp only [zpow_zero, mul_one]; exact lt_trans this (by norm_num))
      simp only [zpow_zero, mul_one] at hex
      refine ⟨q, hqv, ⟨_, _, _, hdec⟩, ?_, ?_⟩
      · rw [toReal_of_decode _ _ _ _ hdec]; unfold valR; rw [hex]; cases n <;> simp
      · unfold toU16Sat; rw [hdec]; dsimp only
        rw [trunc_of_nat m' e' q hex]

end F32

namespace Quant
open F32 Real

/-- real clamp -/
noncomputable def clampR (x lo hi : ℝ) : ℝ := max lo (min hi x)

theorem clampR_lip (x y lo hi : ℝ) (h : lo ≤ hi) : |clampR x lo hi - clampR y lo hi| ≤ |x - y| := by
  unfold clampR
  have h1 : |max lo (min hi x) - max lo (min hi y)| ≤ |min hi x - min hi y| := by simpa [max_comm] using abs_max_sub_max_le_abs (min hi x) (min hi y) lo
  have h2 : |min hi x - min hi y| ≤ |x - y| := by
    have := abs_min_sub_min_le_max hi x hi y
    simpa using this
  exact le_trans h1 h2

/-- quantisation step of `from_f32_*`: `round()`, saturating `as u16`, integer clamp to `[0, mx]` - against the real clamp of
an ideal value that the float approximates within `δ` -/
theorem quant_err (t : Nat) (ideal δ : ℝ) (mx : Nat) (hmx : mx ≤ 65535) (hf : Finite t) (hb : |toReal t| < 8388608)
    (hd : |toReal t - ideal| ≤ δ) :
    |((ColorM.clampNat (toU16Sat (round t)) 0 mx : ℕ) : ℝ) - clampR ideal 0 mx| ≤ 1 / 2 + δ := by
  obtain ⟨n, m, e, hdec⟩ := hf
  have htr := toReal_of_decode t _ _ _ hdec
  rw [htr, abs_valR] at hb
  obtain ⟨k, hk, _, _, hu16⟩ := round_spec t n m e hdec hb
  rw [hu16]
  have hδ : 0 ≤ δ := le_trans (abs_nonneg _) hd
  have hmx0 : (0:ℝ) ≤ mx := by positivity
  cases n with
  | true =>
    -- negative (or -0): the code is 0 and the ideal value is at most δ
    simp only [if_true]
    have hv : toReal t = -((m:ℝ) * (2:ℝ)^e) := by rw [htr]; unfold valR; simp
    have hneg : toReal t ≤ 0 := by
      rw [hv]
      have : (0:ℝ) ≤ (m:ℝ) * (2:ℝ)^e := by positivity
      linarith
    have hi : ideal ≤ δ := by have := (abs_le.mp hd).1; linarith
    have hc0 : ColorM.clampNat 0 0 mx = 0 := by unfold ColorM.clampNat; simp
    rw [hc0]
    unfold clampR
    have h1 : min (mx:ℝ) ideal ≤ δ := le_trans (min_le_right _ _) hi
    have h2 : (0:ℝ) ≤ max 0 (min (mx:ℝ) ideal) := le_max_left _ _
    have h3 : max 0 (min (mx:ℝ) ideal) ≤ δ := max_le hδ h1
    rw [Nat.cast_zero, zero_sub, abs_neg, abs_of_nonneg h2]; linarith
  | false =>
    simp only [Bool.false_eq_true, if_false]
    have hv : toReal t = (m:ℝ) * (2:ℝ)^e := by rw [htr]; unfold valR; simp
    have hcl : ((ColorM.clampNat (if k > 65535 then 65535 else k) 0 mx : ℕ) : ℝ) = clampR (k:ℝ) 0 mx := by
      unfold ColorM.clampNat clampR
      have hk0 : (0:ℝ) ≤ k := by positivity
      by_cases h1 : k > 65535
      · simp only [h1, if_true]
        have : ¬ (65535 < 0) := by omega
        simp only [this, if_false]
        by_cases h2 : 65535 > mx
        · simp only [h2, if_true]
          have : (mx:ℝ) ≤ k := by exact_mod_cast (by omega : mx ≤ k)
          rw [min_eq_left this, max_eq_right hmx0]
        · have : mx = 65535 := by omega
          simp only [h2, if_false]; subst this
          have : ((65535:ℕ):ℝ) ≤ k := by exact_mod_cast (by omega : 65535 ≤ k)
          rw [min_eq_left this, max_eq_right (by positivity)]
      · simp only [h1, if_false]
        have : ¬ (k < 0) := by omega
        simp only [this, if_false]
        by_cases h2 : k > mx
        · simp only [h2, if_true]
          have : (mx:ℝ) ≤ k := by exact_mod_cast (by omega : mx ≤ k)
          rw [min_eq_left this, max_eq_right hmx0]
        · simp only [h2, if_false]
          have : (k:ℝ) ≤ mx := by exact_mod_cast (by omega : k ≤ mx)
          rw [min_eq_right this, max_eq_right hk0]
    rw [hcl]
    refine le_trans (clampR_lip _ _ _ _ hmx0) ?_
    have : (k:ℝ) - ideal = ((k:ℝ) - (m:ℝ) * (2:ℝ)^e) + (toReal t - ideal) := by rw [hv]; ring
    rw [this]
    exact le_trans (abs_add_le _ _) (add_le_add hk hd)

end Quant
