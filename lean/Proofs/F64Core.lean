import Model.F64
/-! core-Lean lemmas about F64 rounding: integer RNE error, decode∘encode, well-formedness (ported from the SF3 spikes) -/
namespace F64

theorem consts : PREC = 53 ∧ FB = 52 ∧ EMASK = 2047 ∧ QMIN = -1074 ∧ EMAX = 1023 ∧ HID = 4503599627370496 ∧ TOP = 9007199254740992 ∧ SIGN = 9223372036854775808 ∧ INFB = 9218868437227405312 :=
  ⟨rfl, rfl, rfl, rfl, rfl, rfl, rfl, rfl, rfl⟩

theorem two_pow_pred (sh : Nat) (h : 0 < sh) : 2^sh = 2 * 2^(sh-1) := by
  cases sh with
  | zero => omega
  | succ n => simp [Nat.pow_succ, Nat.mul_comm]

theorem rne_err (m sh : Nat) (hs : 0 < sh) :
    rne m sh * 2^sh ≤ m + 2^(sh-1) ∧ m ≤ rne m sh * 2^sh + 2^(sh-1) := by
  unfold rne
  have hp := two_pow_pred sh hs
  have hdm := Nat.div_add_mod m (2^sh)
  have hlt : m % 2^sh < 2^sh := Nat.mod_lt _ (Nat.pow_pos (by decide))
  generalize 2^(sh-1) = H at *
  generalize hq : m / 2^sh = q at *
  generalize hr : m % 2^sh = r at *
  generalize hP : 2^sh = P at *
  have hne : sh ≠ 0 := by omega
  simp only [hne, if_false]
  subst hp
  have e1 : (q+1) * (2*H) = q*(2*H) + 2*H := by rw [Nat.add_mul]; simp
  have e2 : 2*H*q = q*(2*H) := Nat.mul_comm _ _
  split <;> constructor <;> omega

theorem rne_ge (m sh : Nat) : m / 2^sh ≤ rne m sh := by
  unfold rne; split
  · next h => subst h; simp
  · simp only; split <;> omega

theorem rne_le (m sh : Nat) : rne m sh ≤ m / 2^sh + 1 := by
  unfold rne; split
  · next h => subst h; simp
  · simp only; split <;> omega

theorem fields (s k f : Nat) (hs : s ≤ 1) (hk : k < 2048) (hf : f < 4503599627370496) :
    (s*9223372036854775808 + k*4503599627370496 + f) % 4503599627370496 = f ∧
    ((s*9223372036854775808 + k*4503599627370496 + f) / 4503599627370496) % 2048 = k ∧
    ((s*9223372036854775808 + k*4503599627370496 + f) / 9223372036854775808) % 2 = s := by
  refine ⟨?_, ?_, ?_⟩ <;> omega

theorem decode_pack (s k f : Nat) (hs : s ≤ 1) (hk : k < 2048) (hf : f < 4503599627370496) :
    decode (s*9223372036854775808 + k*4503599627370496 + f) =
      if k = 2047 then (if f = 0 then .inf (decide (s = 1)) else .nan)
      else if k = 0 then .fin (decide (s = 1)) f (-1074)
      else .fin (decide (s = 1)) (f + 4503599627370496) ((k : Int) + (-1074 - 1)) := by
  obtain ⟨h1, h2, h3⟩ := fields s k f hs hk hf
  unfold decode
  simp only [consts.2.2.2.2.2.1, consts.2.2.1, consts.2.2.2.2.2.2.2.1, consts.2.2.2.1, h1, h2, h3]

theorem signBit_eq (neg : Bool) : signBit neg = (if neg then 1 else 0) * 9223372036854775808 := by
  cases neg <;> simp [signBit, consts.2.2.2.2.2.2.2.1]

theorem decode_encode_normal (neg : Bool) (mant : Nat) (q : Int)
    (h1 : 4503599627370496 ≤ mant) (h2 : mant < 9007199254740992) (hq1 : -1074 ≤ q) (hq2 : q + 52 ≤ 1023) :
    decode (encode neg mant q) = .fin neg mant q := by
  unfold encode
  simp only [consts.2.2.2.2.2.2.1, consts.2.1, consts.2.2.2.2.1, consts.2.2.2.2.2.1, consts.2.2.2.1]
  have hne : mant ≠ 9007199254740992 := by omega
  have h3 : ¬ (q + ((52:Nat):Int) > 1023) := by omega
  have h4 : ¬ (mant < 4503599627370496) := by omega
  rw [if_neg hne, if_neg h3, if_neg h4]
  obtain ⟨k, hk⟩ : ∃ k : Nat, q - -1074 + 1 = (k : Int) := ⟨(q - -1074 + 1).toNat, by omega⟩
  have hk1 : 1 ≤ k := by omega
  have hk2 : k ≤ 2046 := by omega
  rw [hk, Int.toNat_natCast, signBit_eq,
    decode_pack _ k (mant - 4503599627370496) (by cases neg <;> simp) (by omega) (by omega)]
  have h2047 : k ≠ 2047 := by omega
  have h0 : k ≠ 0 := by omega
  rw [if_neg h2047, if_neg h0]
  have e1 : mant - 4503599627370496 + 4503599627370496 = mant := by omega
  have e2 : (k : Int) + (-1074 - 1) = q := by omega
  rw [e1, e2]
  cases neg <;> simp

theorem decode_encode_sub (neg : Bool) (mant : Nat) (h : mant < 4503599627370496) :
    decode (encode neg mant (-1074)) = .fin neg mant (-1074) := by
  unfold encode
  simp only [consts.2.2.2.2.2.2.1, consts.2.1, consts.2.2.2.2.1, consts.2.2.2.2.2.1, consts.2.2.2.1]
  have hne : mant ≠ 9007199254740992 := by omega
  have h3 : ¬ ((-1074:Int) + ((52:Nat):Int) > 1023) := by omega
  rw [if_neg hne, if_neg h3, if_pos h]
  have := decode_pack (if neg then 1 else 0) 0 mant (by cases neg <;> simp) (by omega) h
  rw [signBit_eq]
  simp only [Nat.zero_mul, Nat.add_zero] at this
  rw [this]
  cases neg <;> simp

theorem decode_encode_carry (neg : Bool) (mant : Nat) (hm : mant = 9007199254740992) (q : Int) (hq1 : -1074 ≤ q) (hq2 : q + 53 ≤ 1023) :
    decode (encode neg mant q) = .fin neg 4503599627370496 (q+1) := by
  unfold encode
  simp only [consts.2.2.2.2.2.2.1, consts.2.1, consts.2.2.2.2.1, consts.2.2.2.2.2.1, consts.2.2.2.1]
  have h3 : ¬ (q + 1 + ((52:Nat):Int) > 1023) := by omega
  rw [if_pos hm, if_neg h3]
  obtain ⟨k, hk⟩ : ∃ k : Nat, q + 1 - -1074 + 1 = (k : Int) := ⟨(q + 1 - -1074 + 1).toNat, by omega⟩
  have hk1 : 2 ≤ k := by omega
  have hk2 : k ≤ 2046 := by omega
  rw [hk, Int.toNat_natCast, signBit_eq]
  have hz : (if neg then 1 else 0) * 9223372036854775808 + k * 4503599627370496 = (if neg then 1 else 0) * 9223372036854775808 + k * 4503599627370496 + 0 := (Nat.add_zero _).symm
  rw [hz, decode_pack (if neg then 1 else 0) k 0 (by cases neg <;> simp) (by omega) (by omega)]
  have h2047 : k ≠ 2047 := by omega
  have h0 : k ≠ 0 := by omega
  rw [if_neg h2047, if_neg h0]
  have e2 : (k : Int) + (-1074 - 1) = q + 1 := by omega
  rw [e2]
  cases neg <;> simp

end F64

/-! GENERATED from Proofs/F32Core.lean by run/gen64proofs.py (binary64 instance of the same proof). -/
