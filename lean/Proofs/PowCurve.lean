import Proofs.Powf
import Proofs.Exp2Tiny
/-! `powf(x, y)` for every binary32 `x` with value in `[0, 1]` (zero, subnormal, normal; either sign of zero) and an
exponent `y ∈ [0.35, 3]`: absolute error against `x^γ` for a real exponent `γ` next to `y`. This is the form the
power-law transfer curves need. -/
namespace PowCurve
open F32 MathM Real PolyCert ExpPoly Horner

/-- `log2` only reads the exponent and fraction fields -/
theorem log2_sign (fm : Bool) (x : Nat) : log2 fm x = log2 fm (x % 2147483648) := by
  have e1 : (x % 2147483648) / 8388608 % 256 = x / 8388608 % 256 := by omega
  have e2 : (x % 2147483648) % 8388608 = x % 8388608 := by omega
  unfold log2
  simp only [e1, e2]

/-- zero and subnormal arguments: `log2` returns a value next to `-127 .. -126` -/
theorem log2_sub (fm : Bool) (x : Nat) (hx : x < 8388608) :
    Finite (log2 fm x) ∧ -127 - 1 / 1000 ≤ toReal (log2 fm x) ∧ toReal (log2 fm x) ≤ -126 + 1 / 1000 := by
  obtain ⟨c0, c3, _, _, _⟩ := Log2.cert_consts
  have hu' : u = 1 / 16777216 := u_val
  have he' : eta ≤ 1 / 10 ^ 40 := eta_le
  have hf : x % 8388608 = x := Nat.mod_eq_of_lt hx
  have hk : x / 8388608 % 256 = 0 := by omega
  obtain ⟨hmf, hmv⟩ := Log2.mant_val x hx
  have hfr : (x:ℝ) < 8388608 := by exact_mod_cast hx
  have hf0 : (0:ℝ) ≤ (x:ℝ) := Nat.cast_nonneg x
  have hm1 : 1 ≤ toReal (x + C.log2_f0) := by rw [hmv, le_div_iff₀ (by norm_num)]; linarith
  have hm2 : toReal (x + C.log2_f0) < 2 := by rw [hmv, div_lt_iff₀ (by norm_num)]; linarith
  obtain ⟨hpmf, hpme⟩ := Log2.pm_stage fm (x + C.log2_f0) hmf hm1 hm2
  have hexp : ((((x / 8388608) % 256 : Nat) : Int) - (C.log2_i3 : Int)) = -127 := by rw [c3, hk]; norm_num
  obtain ⟨hef, hev⟩ := Exp2.ofInt_val (-127) (by norm_num)
  rw [Log2.log2_eq, hexp, hf]
  have ha : 0 ≤ Real.logb 2 (toReal (x + C.log2_f0)) := Real.logb_nonneg (by norm_num) hm1
  have hb : Real.logb 2 (toReal (x + C.log2_f0)) ≤ 1 := by
    rw [Real.logb_le_iff_le_rpow (by norm_num) (by linarith)]; norm_num; linarith
  obtain ⟨p1, p2⟩ := abs_le.mp hpme
  set pm := toReal (mul (hornerF fm (x + C.log2_f0) Log2.LcBits) (sub (x + C.log2_f0) C.log2_f7)) with hpm
  obtain ⟨hrf, hre⟩ := add_val (mul (hornerF fm (x + C.log2_f0) Log2.LcBits) (sub (x + C.log2_f0) C.log2_f7)) (ofInt (-127))
    hpmf hef (by rw [hev]; apply fit_small; push_cast; rw [abs_le]; constructor <;> linarith)
  rw [hev] at hre
  push_cast at hre
  have hsum : |pm + -127| ≤ 128 := by rw [abs_le]; constructor <;> linarith
  obtain ⟨r1, r2⟩ := abs_le.mp hre
  rw [hu'] at r1 r2
  refine ⟨hrf, ?_, ?_⟩ <;> nlinarith

/-- `exp2` of an argument at most `-40`: finite and below `2^-39` -/
theorem exp2_le (fm : Bool) (z : Nat) (hz : Finite z) (h : toReal z ≤ -40) :
    ∃ r, exp2 fm z = .ok r ∧ Finite r ∧ |toReal r| ≤ (2:ℝ) ^ (-39:ℤ) := by
  by_cases hlow : toReal z ≤ -124
  · obtain ⟨r, h1, h2, h3⟩ := Exp2.exp2_tiny fm z hz hlow
    exact ⟨r, h1, h2, le_trans h3 (zpow_le_zpow_right₀ (by norm_num) (by norm_num))⟩
  · have hlow' := le_of_lt (not_le.mp hlow)
    obtain ⟨r, h1, h2, h3⟩ := Exp2.exp2_close fm z hz (by rw [abs_le]; constructor <;> linarith)
    refine ⟨r, h1, h2, ?_⟩
    have hp : (2:ℝ) ^ (toReal z) ≤ (2:ℝ) ^ (-40:ℝ) := Real.rpow_le_rpow_of_exponent_le (by norm_num) h
    have e40 : (2:ℝ) ^ (-40:ℝ) = (2:ℝ) ^ (-40:ℤ) := by rw [show (-40:ℝ) = ((-40:ℤ):ℝ) by norm_num, Real.rpow_intCast]
    have e39 : (2:ℝ) ^ (-39:ℤ) = (2:ℝ) ^ (-40:ℤ) * 2 := by
      rw [show (-39:ℤ) = -40 + 1 by norm_num, zpow_add₀ (by norm_num : (2:ℝ) ≠ 0)]; norm_num
    have hpos : 0 < (2:ℝ) ^ (toReal z) := Real.rpow_pos_of_pos (by norm_num) _
    have := abs_sub_abs_le_abs_sub (toReal r) ((2:ℝ) ^ (toReal z))
    rw [abs_of_pos hpos] at this
    rw [e39, ← e40]
    nlinarith

/-- changing the exponent slightly: `|X^a - X^b| ≤ |a - b| / min a b` on `[0, 1]` -/
theorem rpow_exponent_pert (X a b : ℝ) (hX0 : 0 ≤ X) (hX1 : X ≤ 1) (hb : 0 < b) (hab : b ≤ a) :
    |X ^ a - X ^ b| ≤ (a - b) / b := by
  have ha : 0 < a := lt_of_lt_of_le hb hab
  rcases eq_or_lt_of_le hX0 with h0 | hpos
  · rw [← h0, Real.zero_rpow ha.ne', Real.zero_rpow hb.ne']; simp
    exact div_nonneg (by linarith) hb.le
  · have hle : X ^ a ≤ X ^ b := Real.rpow_le_rpow_of_exponent_ge hpos hX1 hab
    rw [abs_sub_comm, abs_of_nonneg (by linarith)]
    set w := X ^ b with hw
    have hwpos : 0 < w := Real.rpow_pos_of_pos hpos b
    have hw1 : w ≤ 1 := Real.rpow_le_one hX0 hX1 hb.le
    -- X^a = w * X^(a-b)
    have hsplit : X ^ a = w * X ^ (a - b) := by rw [hw, ← Real.rpow_add hpos]; congr 1; ring
    rw [hsplit]
    -- 1 - X^(a-b) ≤ (a-b) * (-log X)
    have hlog : Real.log X ≤ 0 := Real.log_nonpos hX0 hX1
    have h1 : 1 - X ^ (a - b) ≤ (a - b) * (-Real.log X) := by
      rw [Real.rpow_def_of_pos hpos]
      have := Real.add_one_le_exp (Real.log X * (a - b))
      nlinarith
    -- w * (-log X) ≤ 1 / b
    have h2 : w * (-Real.log X) ≤ 1 / b := by
      have hlw : Real.log w = b * Real.log X := by rw [hw, Real.log_rpow hpos]
      have h3 : -Real.log w ≤ 1 / w - 1 := by
        have := Real.log_le_sub_one_of_pos (inv_pos.mpr hwpos)
        rw [Real.log_inv] at this
        rw [one_div]; exact this
      have h4 : w * (-Real.log w) ≤ 1 := by
        have : w * (1 / w - 1) = 1 - w := by field_simp
        nlinarith
      rw [le_div_iff₀ hb]
      have : w * (-Real.log X) * b = w * (-Real.log w) := by rw [hlw]; ring
      rw [this]; exact h4
    have hdiff : 0 ≤ a - b := by linarith
    calc w - w * X ^ (a - b) = w * (1 - X ^ (a - b)) := by ring
      _ ≤ w * ((a - b) * (-Real.log X)) := mul_le_mul_of_nonneg_left h1 hwpos.le
      _ = (a - b) * (w * (-Real.log X)) := by ring
      _ ≤ (a - b) * (1 / b) := mul_le_mul_of_nonneg_left h2 hdiff
      _ = (a - b) / b := by ring


theorem abs_eq_mod (x : Nat) (hw : WF x) : F32.abs x = x % 2147483648 := by
  unfold F32.abs WF at *
  simp only [consts.2.2.2.2.2.2.2.1]
  split <;> omega

/-- a finite pattern with clear sign bit is below the infinity pattern -/
theorem finite_pos_lt (a : Nat) (hf : Finite a) (h : a < 2147483648) : a < 2139095040 := by
  obtain ⟨n, m, e, hd⟩ := hf
  unfold decode at hd
  simp only [consts.2.2.1, consts.2.2.2.1, consts.2.2.2.2.2.1, consts.2.2.2.2.2.2.2.1] at hd
  by_contra hc
  have : a / 8388608 % (255 + 1) = 255 := by omega
  rw [this] at hd
  simp at hd
  split at hd <;> cases hd

/-- zero and subnormals: the value is below `2^-126` -/
theorem sub_value (a : Nat) (h : a < 8388608) : Finite a ∧ 0 ≤ toReal a ∧ toReal a ≤ (2:ℝ) ^ (-126:ℤ) := by
  have hd : decode a = .fin false a (-149) := by
    unfold decode
    simp only [consts.2.2.1, consts.2.2.2.1, consts.2.2.2.2.2.1, consts.2.2.2.2.2.2.2.1]
    have a1 : a % 8388608 = a := Nat.mod_eq_of_lt h
    have a2 : a / 8388608 % (255 + 1) = 0 := by omega
    have a3 : a / 2147483648 % 2 = 0 := by omega
    simp [a1, a2, a3]
  refine ⟨⟨_, _, _, hd⟩, ?_, ?_⟩
  · rw [toReal_of_decode _ _ _ _ hd]; unfold valR; simp
  · rw [toReal_of_decode _ _ _ _ hd]; unfold valR
    simp only [Bool.false_eq_true, if_false, one_mul]
    have : (a:ℝ) ≤ (2:ℝ) ^ (23:ℤ) := by
      have h1 : (a:ℝ) ≤ 8388608 := by exact_mod_cast h.le
      have e23 : (2:ℝ) ^ (23:ℤ) = 8388608 := by norm_num
      rw [e23]; exact h1
    have e : (2:ℝ) ^ (-126:ℤ) = (2:ℝ) ^ (23:ℤ) * (2:ℝ) ^ (-149:ℤ) := by
      rw [← zpow_add₀ (by norm_num : (2:ℝ) ≠ 0)]; norm_num
    rw [e]
    exact mul_le_mul_of_nonneg_right this (by positivity)

/-- the product `log2(x) * y` and `exp2` of it when the product is far below zero -/
theorem powf_small (fm : Bool) (l y : Nat) (hl : Finite l) (hy : Finite y) (hlb : |toReal l| ≤ 130) (hyb : |toReal y| ≤ 4)
    (hprod : toReal l * toReal y ≤ -41) :
    ∃ r, exp2 fm (mul l y) = .ok r ∧ Finite r ∧ |toReal r| ≤ (2:ℝ) ^ (-39:ℤ) := by
  have hu' : u = 1 / 16777216 := u_val
  have he' : eta ≤ 1 / 10 ^ 40 := eta_le
  obtain ⟨hzb, hze⟩ := mul_bnd l y 130 4 ⟨hl, hlb⟩ ⟨hy, hyb⟩ (fit_small _ (by norm_num))
  obtain ⟨z1, z2⟩ := abs_le.mp hze
  rw [hu'] at z2
  exact exp2_le fm (mul l y) hzb.1 (by nlinarith)

/-- **`powf` on the unit interval**: for every binary32 `x` with value in `[0, 1]` and an exponent float `y` within `1e-6`
of a real `γ ∈ [0.35, 3]`, the result is within `1.832e-4 + 7.914e-6 γ + 4e-6` (absolute) of `x^γ`. -/
theorem pow_unit (fm : Bool) (x y : Nat) (γ : ℝ) (hxw : WF x) (hx : Finite x) (hX0 : 0 ≤ toReal x) (hX1 : toReal x ≤ 1)
    (hy : Finite y) (hγ1 : 35 / 100 ≤ γ) (hγ2 : γ ≤ 3) (hyγ : |toReal y - γ| ≤ 1 / 10 ^ 6) :
    ∃ r, powfFast fm x y = .ok r ∧ Finite r ∧
      |toReal r - (toReal x) ^ γ| ≤ 1832 / 10 ^ 7 + (7914 / 10 ^ 9) * γ + 4 / 10 ^ 6 := by
  have hu' : u = 1 / 16777216 := u_val
  have he' : eta ≤ 1 / 10 ^ 40 := eta_le
  obtain ⟨y1, y2⟩ := abs_le.mp hyγ
  set Y := toReal y with hY
  have hY1 : 349 / 1000 ≤ Y := by linarith
  have hY2 : Y ≤ 3 + 1 / 10 ^ 6 := by linarith
  have hYabs : |Y| ≤ 4 := by rw [abs_le]; constructor <;> linarith
  have hYpos : 0 < Y := by linarith
  -- strip the sign bit
  obtain ⟨hxa, hxv⟩ := toReal_abs x hxw hx
  rw [abs_eq_mod x hxw, abs_of_nonneg hX0] at hxv
  rw [abs_eq_mod x hxw] at hxa
  have hpf : powfFast fm x y = powfFast fm (x % 2147483648) y := by
    unfold powfFast; rw [log2_sign fm x]
  rw [hpf, ← hxv]
  have hx31 : x % 2147483648 < 2147483648 := Nat.mod_lt _ (by norm_num)
  have hxfin := finite_pos_lt _ hxa hx31
  set x' := x % 2147483648 with hx'
  set X := toReal x' with hX
  have hXe : X = toReal x := hxv
  have hX0' : 0 ≤ X := by rw [hXe]; exact hX0
  have hX1' : X ≤ 1 := by rw [hXe]; exact hX1
  -- the change of exponent
  have hpert : |X ^ Y - X ^ γ| ≤ 3 / 10 ^ 6 := by
    by_cases hc : γ ≤ Y
    · refine le_trans (rpow_exponent_pert X Y γ hX0' hX1' (by linarith) hc) ?_
      rw [div_le_iff₀ (by linarith)]; nlinarith
    · have hc' := le_of_lt (not_le.mp hc)
      rw [abs_sub_comm]
      refine le_trans (rpow_exponent_pert X γ Y hX0' hX1' hYpos hc') ?_
      rw [div_le_iff₀ hYpos]; nlinarith
  have hXY1 : X ^ Y ≤ 1 := Real.rpow_le_one hX0' hX1' hYpos.le
  have hXY0 : 0 ≤ X ^ Y := Real.rpow_nonneg hX0' Y
  -- a tiny result is enough in the degenerate cases
  have tiny : ∀ r : Nat, |toReal r| ≤ (2:ℝ) ^ (-39:ℤ) → X ^ Y ≤ (2:ℝ) ^ (-39:ℤ) →
      |toReal r - X ^ γ| ≤ 1832 / 10 ^ 7 + (7914 / 10 ^ 9) * γ + 4 / 10 ^ 6 := by
    intro r hr hv
    have h39 : (2:ℝ) ^ (-39:ℤ) ≤ 1 / 10 ^ 11 := by norm_num
    have e : toReal r - X ^ γ = toReal r - X ^ Y + (X ^ Y - X ^ γ) := by ring
    rw [e]
    refine le_trans (abs_add_le _ _) ?_
    have h5 : |toReal r - X ^ Y| ≤ |toReal r| + |X ^ Y| := abs_sub _ _
    rw [abs_of_nonneg hXY0] at h5
    have hr' : |toReal r| ≤ 1 / 10 ^ 11 := le_trans hr h39
    have hv' : X ^ Y ≤ 1 / 10 ^ 11 := le_trans hv h39
    have hg : 0 ≤ 7914 / 10 ^ 9 * γ := by positivity
    linarith
  by_cases hsub : x' < 8388608
  · -- zero / subnormal
    obtain ⟨hlf, hl1, hl2⟩ := log2_sub fm x' hsub
    obtain ⟨_, _, hsv⟩ := sub_value x' hsub
    obtain ⟨r, hr1, hr2, hr3⟩ := powf_small fm (log2 fm x') y hlf hy (by rw [abs_le]; constructor <;> linarith) hYabs
      (by nlinarith)
    refine ⟨r, hr1, hr2, tiny r hr3 ?_⟩
    calc X ^ Y ≤ ((2:ℝ) ^ (-126:ℤ)) ^ Y := Real.rpow_le_rpow hX0' hsv hYpos.le
      _ = (2:ℝ) ^ ((-126:ℝ) * Y) := by
          rw [← Real.rpow_intCast, ← Real.rpow_mul (by norm_num)]; norm_num
      _ ≤ (2:ℝ) ^ (-39:ℝ) := Real.rpow_le_rpow_of_exponent_le (by norm_num) (by nlinarith)
      _ = (2:ℝ) ^ (-39:ℤ) := by rw [show (-39:ℝ) = ((-39:ℤ):ℝ) by norm_num, Real.rpow_intCast]
  · have hn1 : 8388608 ≤ x' := not_lt.mp hsub
    obtain ⟨hlf, hle⟩ := Log2.log2_close fm x' hn1 hxfin
    by_cases hbig : 1 / 10 ^ 35 ≤ X ^ Y
    · obtain ⟨r, hr1, hr2, hr3⟩ := Powf.powf_close_tight fm x' y hn1 hxfin hy (by linarith) hbig (by linarith)
      refine ⟨r, hr1, hr2, ?_⟩
      have e : toReal r - X ^ γ = toReal r - X ^ Y + (X ^ Y - X ^ γ) := by ring
      rw [e]
      refine le_trans (abs_add_le _ _) ?_
      have hYa : |Y| = Y := abs_of_pos hYpos
      rw [hYa] at hr3
      have : (1832 / 10 ^ 7 + 7914 / 10 ^ 9 * Y) * X ^ Y ≤ (1832 / 10 ^ 7 + 7914 / 10 ^ 9 * Y) * 1 :=
        mul_le_mul_of_nonneg_left hXY1 (by positivity)
      nlinarith
    · have hsmall := le_of_lt (not_le.mp hbig)
      have hXpos : 0 < X := by
        -- a normal pattern has a positive value
        have hk1 : 1 ≤ x' / 8388608 := by omega
        have hk2 : x' / 8388608 ≤ 254 := by omega
        have hf1 : x' % 8388608 < 8388608 := by omega
        have hxe : x' = (x' / 8388608) * 8388608 + x' % 8388608 := by omega
        rw [hX, hxe, Log2.x_val _ _ hk1 hk2 hf1]
        positivity
      set L := Real.logb 2 X with hL
      have hLY : L * Y ≤ -116 := by
        have hlog : L * Y = Real.logb 2 (X ^ Y) := by rw [Real.logb_rpow_eq_mul_logb_of_pos hXpos]; ring
        rw [hlog]
        have hvpos : 0 < X ^ Y := Real.rpow_pos_of_pos hXpos _
        rw [Real.logb_le_iff_le_rpow (by norm_num) hvpos]
        refine le_trans hsmall ?_
        rw [show (-116:ℝ) = ((-116:ℤ):ℝ) by norm_num, Real.rpow_intCast]; norm_num
      have hL0 : L ≤ 0 := Real.logb_nonpos (by norm_num) hX0' hX1'
      have hLlow : -127 ≤ L := by
        rw [hL, Real.le_logb_iff_rpow_le (by norm_num) hXpos]
        have hk1 : 1 ≤ x' / 8388608 := by omega
        have hk2 : x' / 8388608 ≤ 254 := by omega
        have hf1 : x' % 8388608 < 8388608 := by omega
        have hxe : x' = (x' / 8388608) * 8388608 + x' % 8388608 := by omega
        rw [hX, hxe, Log2.x_val _ _ hk1 hk2 hf1]
        have hm : (1:ℝ) ≤ (((x' % 8388608 : ℕ) : ℝ) + 8388608) / 8388608 := by
          rw [le_div_iff₀ (by norm_num)]; have : (0:ℝ) ≤ ((x' % 8388608 : ℕ) : ℝ) := Nat.cast_nonneg _; linarith
        have hp : (2:ℝ) ^ (-127:ℝ) ≤ (2:ℝ) ^ (((x' / 8388608 : ℕ) : ℤ) - 127) := by
          have hkz : (-127:ℤ) ≤ ((x' / 8388608 : ℕ) : ℤ) - 127 := by omega
          rw [show (-127:ℝ) = ((-127:ℤ):ℝ) by norm_num, Real.rpow_intCast]
          exact zpow_le_zpow_right₀ (by norm_num) hkz
        have hpp : (0:ℝ) < (2:ℝ) ^ (((x' / 8388608 : ℕ) : ℤ) - 127) := by positivity
        nlinarith
      have hLabs : |L| ≤ 127 := by rw [abs_le]; constructor <;> linarith
      obtain ⟨l1, l2⟩ := abs_le.mp hle
      set lh := toReal (log2 fm x') with hlh
      have hlh1 : lh ≤ L + 2 / 10 ^ 5 := by nlinarith
      have hlh2 : L - 2 / 10 ^ 5 ≤ lh := by nlinarith
      obtain ⟨r, hr1, hr2, hr3⟩ := powf_small fm (log2 fm x') y hlf hy (by rw [abs_le]; constructor <;> linarith) hYabs
        (by nlinarith)
      refine ⟨r, hr1, hr2, tiny r hr3 ?_⟩
      refine le_trans hsmall ?_
      norm_num

end PowCurve
