import Proofs.Exp2
/-! `f32::floor` of the model returns the integer part. -/
namespace FloorL
open F32 Real

theorem decode_bounds (r : Nat) (n : Bool) (M : Nat) (E : Int) (h : decode r = .fin n M E) : M < 16777216 ∧ -149 ≤ E := by
  constructor
  · unfold decode at h
    simp only [consts.2.2.1, consts.2.2.2.2.2.1] at h
    have hf : r % 8388608 < 8388608 := Nat.mod_lt _ (by norm_num)
    split at h
    · split at h <;> cases h
    · split at h
      · injection h with _ hm _; omega
      · injection h with _ hm _; omega
  · unfold decode at h
    simp only [consts.2.2.1, consts.2.2.2.2.2.1, consts.2.2.2.1] at h
    split at h
    · split at h <;> cases h
    · split at h
      · injection h with _ _ he; omega
      · injection h with _ _ he; omega

/-- a small non-negative integer, with sign, as a float -/
theorem pack_int (s : Bool) (q : Nat) (hq : q ≤ 16777215) :
    Finite (roundPack s q 0) ∧ toReal (roundPack s q 0) = (if s then -1 else 1) * (q:ℝ) := by
  have hfit : ((q : ℕ) : ℝ) * (2:ℝ)^(0:ℤ) < (2:ℝ)^(127:ℤ) := by
    have : ((q : ℕ) : ℝ) ≤ 16777215 := by exact_mod_cast hq
    simp only [zpow_zero, mul_one]
    refine lt_of_le_of_lt this ?_; norm_num
  obtain ⟨m', e', hdec, hval⟩ := roundPack_exact s q 0 (by omega) (by norm_num) hfit
  refine ⟨⟨_, _, _, hdec⟩, ?_⟩
  rw [toReal_of_decode _ _ _ _ hdec]
  unfold valR
  rw [hval]; simp

/-- **floor**: the result is the float of the integer `n` with `n ≤ a < n + 1` (every finite argument) -/
theorem floor_val (a : Nat) (ha : Finite a) :
    Finite (floor a) ∧ ∃ n : ℤ, toReal (floor a) = (n:ℝ) ∧ (n:ℝ) ≤ toReal a ∧ toReal a < (n:ℝ) + 1 := by
  obtain ⟨s, m, e, hd⟩ := ha
  obtain ⟨hm24, he149⟩ := decode_bounds a s m e hd
  have hv := toReal_of_decode a s m e hd
  unfold floor
  rw [hd]
  dsimp only
  by_cases hc : e ≥ 0 ∨ m = 0
  · rw [if_pos hc]
    refine ⟨⟨s, m, e, hd⟩, ?_⟩
    rw [hv]
    rcases hc with hc | hc
    · have hz : (2:ℝ)^e = ((2 ^ e.toNat : ℕ) : ℝ) := by
        push_cast; rw [← zpow_natCast]; congr 1; omega
      refine ⟨(if s then -1 else 1) * ((m * 2 ^ e.toNat : ℕ) : ℤ), ?_, ?_, ?_⟩
      · unfold valR; rw [hz]; cases s <;> simp
      · unfold valR; rw [hz]; cases s <;> simp
      · unfold valR; rw [hz]; cases s <;> simp
    · subst hc
      refine ⟨0, ?_, ?_, ?_⟩ <;> simp [valR]
  · rw [if_neg hc]
    have he : e < 0 := by
      by_contra h; exact hc (Or.inl (by omega))
    have hm0 : m ≠ 0 := fun h => hc (Or.inr h)
    set sh := (-e).toNat with hsh
    have h2pos : 0 < 2 ^ sh := Nat.pos_of_ne_zero (by positivity)
    have h2r : (0:ℝ) < (2:ℝ) ^ sh := by positivity
    have hz : (2:ℝ)^e = ((2:ℝ) ^ sh)⁻¹ := by
      rw [← zpow_natCast, ← zpow_neg]; congr 1; omega
    have hdm := Nat.div_add_mod m (2 ^ sh)
    have hrlt := Nat.mod_lt m h2pos
    set q := m / 2 ^ sh with hq
    set r := m % 2 ^ sh with hr
    have hmr : (m:ℝ) = (2:ℝ) ^ sh * (q:ℝ) + (r:ℝ) := by
      have : ((2 ^ sh * q + r : ℕ) : ℝ) = (m:ℝ) := by rw [hdm]
      push_cast at this; linarith
    have hrr : (r:ℝ) < (2:ℝ) ^ sh := by exact_mod_cast hrlt
    have hr0 : (0:ℝ) ≤ (r:ℝ) := Nat.cast_nonneg r
    have hval : (m:ℝ) * (2:ℝ)^e = (q:ℝ) + (r:ℝ) / (2:ℝ) ^ sh := by
      rw [hz, hmr]; field_simp
    have hρ0 : 0 ≤ (r:ℝ) / (2:ℝ) ^ sh := div_nonneg hr0 h2r.le
    have hρ1 : (r:ℝ) / (2:ℝ) ^ sh < 1 := by rw [div_lt_one h2r]; exact hrr
    have hsh1 : 1 ≤ sh := by rw [hsh]; omega
    have hqle : q + 1 ≤ 16777215 := by
      have h2 : 2 ≤ 2 ^ sh := by
        calc 2 = 2 ^ 1 := by norm_num
          _ ≤ 2 ^ sh := Nat.pow_le_pow_right (by norm_num) hsh1
      have : q * 2 ≤ m := by
        calc q * 2 ≤ q * 2 ^ sh := Nat.mul_le_mul_left q h2
          _ ≤ m := by rw [hq]; exact Nat.div_mul_le_self m (2 ^ sh)
      omega
    rw [hv]
    unfold valR
    rw [hval]
    cases s
    · simp only [Bool.false_eq_true, if_false, one_mul]
      by_cases hq0 : q = 0
      · rw [if_pos hq0]
        refine ⟨c_zero.1, 0, ?_, ?_, ?_⟩
        · rw [c_zero.2]; simp
        · rw [hq0]; simp; exact hρ0
        · rw [hq0]; simp; exact hρ1
      · rw [if_neg hq0]
        obtain ⟨pf, pv⟩ := pack_int false q (by omega)
        refine ⟨pf, (q:ℤ), ?_, ?_, ?_⟩
        · rw [pv]; simp
        · push_cast; linarith
        · push_cast; linarith
    · simp only [if_true]
      by_cases hr0' : r = 0
      · simp only [hr0', if_true]
        have hq0 : q ≠ 0 := by
          intro h; apply hm0; rw [← hdm, h, hr0']; simp
        rw [if_neg hq0]
        obtain ⟨pf, pv⟩ := pack_int true q (by omega)
        refine ⟨pf, -(q:ℤ), ?_, ?_, ?_⟩
        · rw [pv]; simp
        · push_cast; simp
        · push_cast; simp
      · simp only [hr0', if_false]
        have : ¬ (q + 1 = 0) := Nat.succ_ne_zero q
        rw [if_neg this]
        obtain ⟨pf, pv⟩ := pack_int true (q + 1) hqle
        have hρpos : 0 < (r:ℝ) / (2:ℝ) ^ sh := by
          apply div_pos _ h2r
          exact_mod_cast Nat.pos_of_ne_zero hr0'
        refine ⟨pf, -((q:ℤ) + 1), ?_, ?_, ?_⟩
        · rw [pv]; simp
        · push_cast; linarith
        · push_cast; linarith

end FloorL
