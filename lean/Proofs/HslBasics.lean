import Proofs.F32MonoOps
import Proofs.F32Div
import Proofs.F32Exact
/-! Semantics of comparisons, `max`/`min` and exact halving on finite binary32 values, used by the HSL proofs (C17). -/
namespace F32
open Real

theorem not_nan_of_finite (a : Nat) (h : Finite a) : isNaN a = false := by
  obtain ⟨n, m, e, hd⟩ := h; unfold isNaN; rw [hd]

theorem le_iff (a b : Nat) (ha : Finite a) (hb : Finite b) : le a b = true ↔ toReal a ≤ toReal b := by
  have hl := lt_iff b a hb ha
  obtain ⟨n1, m1, e1, h1⟩ := ha
  obtain ⟨n2, m2, e2, h2⟩ := hb
  have : le a b = !(lt b a) := by unfold le; rw [h1, h2]
  rw [this]
  constructor
  · intro h
    have : lt b a = false := by simpa using h
    by_contra hc; push Not at hc
    have := hl.mpr hc; simp_all
  · intro h
    have : ¬ (lt b a = true) := fun hc => absurd (hl.mp hc) (not_lt.mpr h)
    simpa using this

theorem ge_iff (a b : Nat) (ha : Finite a) (hb : Finite b) : ge a b = true ↔ toReal b ≤ toReal a := by
  unfold ge; exact le_iff b a hb ha

/-- `max` of finite values is one of them and has the real maximum as its value -/
theorem max_val (a b : Nat) (ha : Finite a) (hb : Finite b) :
    (F32.max a b = a ∨ F32.max a b = b) ∧ toReal (F32.max a b) = Max.max (toReal a) (toReal b) := by
  unfold F32.max
  rw [not_nan_of_finite a ha, not_nan_of_finite b hb]
  simp only [Bool.false_eq_true, if_false]
  by_cases h1 : lt a b = true
  · rw [if_pos h1]
    have := (lt_iff a b ha hb).mp h1
    exact ⟨Or.inr rfl, by rw [max_eq_right this.le]⟩
  · rw [if_neg h1]
    have h1' : ¬ toReal a < toReal b := fun h => h1 ((lt_iff a b ha hb).mpr h)
    by_cases h2 : lt b a = true
    · rw [if_pos h2]
      have := (lt_iff b a hb ha).mp h2
      exact ⟨Or.inl rfl, by rw [max_eq_left this.le]⟩
    · rw [if_neg h2]
      have h2' : ¬ toReal b < toReal a := fun h => h2 ((lt_iff b a hb ha).mpr h)
      have heq : toReal a = toReal b := le_antisymm (le_of_not_gt h2') (le_of_not_gt h1')
      split
      · exact ⟨Or.inr rfl, by rw [heq, max_self]⟩
      · exact ⟨Or.inl rfl, by rw [heq, max_self]⟩

theorem min_val (a b : Nat) (ha : Finite a) (hb : Finite b) :
    (F32.min a b = a ∨ F32.min a b = b) ∧ toReal (F32.min a b) = Min.min (toReal a) (toReal b) := by
  unfold F32.min
  rw [not_nan_of_finite a ha, not_nan_of_finite b hb]
  simp only [Bool.false_eq_true, if_false]
  by_cases h1 : lt a b = true
  · rw [if_pos h1]
    have := (lt_iff a b ha hb).mp h1
    exact ⟨Or.inl rfl, by rw [min_eq_left this.le]⟩
  · rw [if_neg h1]
    have h1' : ¬ toReal a < toReal b := fun h => h1 ((lt_iff a b ha hb).mpr h)
    by_cases h2 : lt b a = true
    · rw [if_pos h2]
      have := (lt_iff b a hb ha).mp h2
      exact ⟨Or.inr rfl, by rw [min_eq_right this.le]⟩
    · rw [if_neg h2]
      have h2' : ¬ toReal b < toReal a := fun h => h2 ((lt_iff b a hb ha).mpr h)
      have heq : toReal a = toReal b := le_antisymm (le_of_not_gt h2') (le_of_not_gt h1')
      split
      · exact ⟨Or.inl rfl, by rw [heq, min_self]⟩
      · exact ⟨Or.inr rfl, by rw [heq, min_self]⟩

/-- constants of the HSL code -/
theorem c_two : Finite 0x40000000 ∧ toReal 0x40000000 = 2 := by
  have h : decode 0x40000000 = .fin false 8388608 (-22) := by decide +kernel
  exact ⟨⟨_, _, _, h⟩, by rw [toReal_of_decode _ _ _ _ h]; unfold valR; norm_num⟩
theorem c_one : Finite 0x3f800000 ∧ toReal 0x3f800000 = 1 := by
  have h : decode 0x3f800000 = .fin false 8388608 (-23) := by decide +kernel
  exact ⟨⟨_, _, _, h⟩, by rw [toReal_of_decode _ _ _ _ h]; unfold valR; norm_num⟩
theorem c_zero : Finite 0 ∧ toReal 0 = 0 := by
  have h : decode 0 = .fin false 0 (-149) := by decide +kernel
  exact ⟨⟨_, _, _, h⟩, by rw [toReal_of_decode _ _ _ _ h, valR_zero]⟩
theorem c_sixty : Finite 0x42700000 ∧ toReal 0x42700000 = 60 := by
  have h : decode 0x42700000 = .fin false 15728640 (-18) := by decide +kernel
  exact ⟨⟨_, _, _, h⟩, by rw [toReal_of_decode _ _ _ _ h]; unfold valR; norm_num⟩
theorem c_360 : Finite 0x43b40000 ∧ toReal 0x43b40000 = 360 := by
  have h : decode 0x43b40000 = .fin false 11796480 (-15) := by decide +kernel
  exact ⟨⟨_, _, _, h⟩, by rw [toReal_of_decode _ _ _ _ h]; unfold valR; norm_num⟩
theorem c_four : Finite 0x40800000 ∧ toReal 0x40800000 = 4 := by
  have h : decode 0x40800000 = .fin false 8388608 (-21) := by decide +kernel
  exact ⟨⟨_, _, _, h⟩, by rw [toReal_of_decode _ _ _ _ h]; unfold valR; norm_num⟩
theorem c_eps : Finite 0x34000000 ∧ toReal 0x34000000 = 1 / 8388608 := by
  have h : decode 0x34000000 = .fin false 8388608 (-46) := by decide +kernel
  refine ⟨⟨_, _, _, h⟩, ?_⟩
  rw [toReal_of_decode _ _ _ _ h]; unfold valR
  have : (2:ℝ) ^ (-46:ℤ) = 1 / 2 ^ 46 := by rw [zpow_neg, one_div]; norm_num
  rw [this]; norm_num

/-- division by 2.0 is one rounding of the exact half -/
theorem div_two_form (a : Nat) (ha : Finite a) :
    ∃ n m e, valR n m e = toReal a / 2 ∧ div a 0x40000000 = roundPack n m e := by
  obtain ⟨n1, m1, e1, h1⟩ := ha
  have h2 : decode 0x40000000 = .fin false 8388608 (-22) := by decide +kernel
  obtain ⟨k, hk⟩ : ∃ k : Nat, k = 2 * 24 + 8 := ⟨_, rfl⟩
  have hdiv : div a 0x40000000 = roundPack (n1 != false) (2 * ((m1 * 2 ^ k) / 8388608) + (if (m1 * 2 ^ k) % 8388608 = 0 then 0 else 1)) (e1 - (-22) - (k : Int) - 1) := by
    unfold div
    rw [h1, h2]
    simp only [show ¬ (8388608:ℕ) = 0 by norm_num, if_false, consts.1, ← hk]
  obtain ⟨T, hT⟩ : ∃ T : Nat, T = 2 ^ 33 := ⟨_, rfl⟩
  have h2k : (2:ℕ) ^ k = 8388608 * T := by rw [hk, hT]; norm_num
  have hq : (m1 * 2 ^ k) / 8388608 = m1 * T := by
    rw [h2k, Nat.mul_left_comm, Nat.mul_div_cancel_left _ (by norm_num)]
  have hr : (m1 * 2 ^ k) % 8388608 = 0 := by
    rw [h2k, Nat.mul_left_comm, Nat.mul_mod_right]
  rw [hq, hr] at hdiv
  simp only [if_true, Nat.add_zero, Bool.bne_false] at hdiv
  refine ⟨n1, 2 * (m1 * T), e1 - (-22) - (k:Int) - 1, ?_, hdiv⟩
  rw [toReal_of_decode a _ _ _ h1]
  unfold valR
  have hTr : (T:ℝ) = (2:ℝ) ^ (33:ℤ) := by rw [hT]; norm_num
  have : (((2 * (m1 * T) : ℕ)) : ℝ) * (2:ℝ) ^ (e1 - (-22) - (k:Int) - 1) = ((m1:ℝ) * (2:ℝ) ^ e1) / 2 := by
    have e : e1 - (-22) - (k:Int) - 1 = e1 + (-35) := by rw [hk]; push_cast; ring
    rw [e, zpow_add₀ (by norm_num : (2:ℝ) ≠ 0)]
    push_cast
    rw [hTr]
    have h35 : (2:ℝ) ^ (33:ℤ) * (2:ℝ) ^ (-35:ℤ) = 1 / 4 := by rw [← zpow_add₀ (by norm_num : (2:ℝ) ≠ 0)]; norm_num
    calc 2 * ((m1:ℝ) * (2:ℝ) ^ (33:ℤ)) * ((2:ℝ) ^ e1 * (2:ℝ) ^ (-35:ℤ)) = 2 * ((m1:ℝ) * (2:ℝ) ^ e1) * ((2:ℝ) ^ (33:ℤ) * (2:ℝ) ^ (-35:ℤ)) := by ring
      _ = (m1:ℝ) * (2:ℝ) ^ e1 / 2 := by rw [h35]; ring
  rw [this]; ring

/-- the remainder of finite values (non-zero divisor of magnitude below 2^127) is finite and no larger than the divisor -/
theorem fmod_fin (a b : Nat) (ha : Finite a) (hb : Finite b) (hb0 : toReal b ≠ 0) (hbfit : |toReal b| < (2:ℝ) ^ (127:ℤ)) :
    Finite (fmod a b) ∧ |toReal (fmod a b)| ≤ |toReal b| := by
  obtain ⟨n1, m1, e1, h1⟩ := ha
  obtain ⟨n2, m2, e2, h2⟩ := hb
  have hm2 : m2 ≠ 0 := by intro h; apply hb0; rw [toReal_of_decode b _ _ _ h2, h, valR_zero]
  have hm2lt := decode_mant_lt b _ _ _ h2
  have he2 : -149 ≤ e2 := by
    unfold decode at h2
    simp only [consts.2.2.1, consts.2.2.2.2.2.1, consts.2.2.2.1] at h2
    split at h2
    · split at h2 <;> cases h2
    · split at h2
      · injection h2 with _ _ he; omega
      · injection h2 with _ _ he; omega
  rw [toReal_of_decode b _ _ _ h2, abs_valR] at hbfit ⊢
  have hform : fmod a b = (if (m1 * 2 ^ (e1 - Min.min e1 e2).toNat) % (m2 * 2 ^ (e2 - Min.min e1 e2).toNat) = 0 then signBit n1
      else roundPack n1 ((m1 * 2 ^ (e1 - Min.min e1 e2).toNat) % (m2 * 2 ^ (e2 - Min.min e1 e2).toNat)) (Min.min e1 e2)) := by
    unfold fmod; rw [h1, h2]; simp only [hm2, if_false]
  rw [hform]
  split
  · refine ⟨⟨_, _, _, decode_signBit n1⟩, ?_⟩
    rw [toReal_of_decode _ _ _ _ (decode_signBit n1), valR_zero, abs_zero]; positivity
  · set e := Min.min e1 e2
    set y := m2 * 2 ^ (e2 - e).toNat
    set r := (m1 * 2 ^ (e1 - e).toNat) % y
    have hy : 0 < y := Nat.mul_pos (Nat.pos_of_ne_zero hm2) (Nat.pow_pos (by norm_num))
    have hr : r < y := Nat.mod_lt _ hy
    have hyR : ((y : ℕ) : ℝ) * (2:ℝ) ^ e = (m2:ℝ) * (2:ℝ) ^ e2 := natpow_zpow m2 e2 e (min_le_right _ _)
    have hle : (r:ℝ) * (2:ℝ) ^ e ≤ (m2:ℝ) * (2:ℝ) ^ e2 := by
      rw [← hyR]
      have : (r:ℝ) ≤ (y:ℝ) := by exact_mod_cast hr.le
      exact mul_le_mul_of_nonneg_right this (by positivity)
    exact round_abs_le n1 r e m2 e2 hm2lt he2 hbfit hle

/-- the remainder is exact: `fmod a b = a - k b` for a natural `k`, in `[0, b)`, for `a ≥ 0` and `0 < b < 2^127` -/
theorem fmod_val (a b : Nat) (ha : Finite a) (hb : Finite b) (ha0 : 0 ≤ toReal a) (hb0 : 0 < toReal b) (hbfit : toReal b < (2:ℝ) ^ (127:ℤ)) :
    ∃ k : ℕ, Finite (fmod a b) ∧ toReal (fmod a b) = toReal a - (k:ℝ) * toReal b ∧ 0 ≤ toReal (fmod a b) ∧ toReal (fmod a b) < toReal b := by
  obtain ⟨n1, m1, e1, h1⟩ := ha
  obtain ⟨n2, m2, e2, h2⟩ := hb
  have hm2 : m2 ≠ 0 := by intro h; rw [toReal_of_decode b _ _ _ h2, h, valR_zero] at hb0; exact lt_irrefl _ hb0
  have hn2 : n2 = false := by
    cases n2
    · rfl
    · rw [toReal_of_decode b _ _ _ h2] at hb0; unfold valR at hb0
      have : (0:ℝ) ≤ (m2:ℝ) * (2:ℝ) ^ e2 := by positivity
      simp at hb0; linarith
  have hm1lt := decode_mant_lt a _ _ _ h1
  have hm2lt := decode_mant_lt b _ _ _ h2
  have hexp : ∀ (c : Nat) (n : Bool) (m : Nat) (e : Int), decode c = .fin n m e → -149 ≤ e := by
    intro c n m e h
    unfold decode at h
    simp only [consts.2.2.1, consts.2.2.2.2.2.1, consts.2.2.2.1] at h
    split at h
    · split at h <;> cases h
    · split at h
      · injection h with _ _ he; omega
      · injection h with _ _ he; omega
  have he1 := hexp a _ _ _ h1
  have he2 := hexp b _ _ _ h2
  have htb : toReal b = (m2:ℝ) * (2:ℝ) ^ e2 := by rw [toReal_of_decode b _ _ _ h2, hn2]; unfold valR; simp
  -- a is non-negative: either its sign is + or its significand is 0
  have hta : toReal a = (m1:ℝ) * (2:ℝ) ^ e1 ∧ (n1 = true → m1 = 0) := by
    rw [toReal_of_decode a _ _ _ h1]
    cases n1
    · exact ⟨by unfold valR; simp, by intro h; cases h⟩
    · have hv : valR true m1 e1 = -((m1:ℝ) * (2:ℝ) ^ e1) := by unfold valR; simp
      rw [toReal_of_decode a _ _ _ h1, hv] at ha0
      have hp : (0:ℝ) ≤ (m1:ℝ) * (2:ℝ) ^ e1 := by positivity
      have hz : (m1:ℝ) * (2:ℝ) ^ e1 = 0 := by linarith
      have hm0 : m1 = 0 := by
        have h2e : (2:ℝ) ^ e1 ≠ 0 := by positivity
        have := (mul_eq_zero.mp hz).resolve_right h2e
        exact_mod_cast this
      exact ⟨by rw [hv, hm0]; simp, fun _ => hm0⟩
  set e := Min.min e1 e2 with hedef
  set x := m1 * 2 ^ (e1 - e).toNat with hxdef
  set y := m2 * 2 ^ (e2 - e).toNat with hydef
  have hy : 0 < y := Nat.mul_pos (Nat.pos_of_ne_zero hm2) (Nat.pow_pos (by norm_num))
  have hxR : ((x:ℕ):ℝ) * (2:ℝ) ^ e = (m1:ℝ) * (2:ℝ) ^ e1 := natpow_zpow m1 e1 e (min_le_left _ _)
  have hyR : ((y:ℕ):ℝ) * (2:ℝ) ^ e = (m2:ℝ) * (2:ℝ) ^ e2 := natpow_zpow m2 e2 e (min_le_right _ _)
  have hform : fmod a b = (if x % y = 0 then signBit n1 else roundPack n1 (x % y) e) := by
    unfold fmod; rw [h1, h2]; simp only [hm2, if_false]; rfl
  have hdm := Nat.div_add_mod x y
  have hr : x % y < y := Nat.mod_lt _ hy
  have hrlt : x % y < 16777216 := by
    rcases le_total e1 e2 with h | h
    · have : e = e1 := min_eq_left h
      have hx' : x = m1 := by rw [hxdef, this]; simp
      have : x % y ≤ x := Nat.mod_le _ _
      omega
    · have : e = e2 := min_eq_right h
      have hy' : y = m2 := by rw [hydef, this]; simp
      omega
  have hval : ((x % y : ℕ) : ℝ) * (2:ℝ) ^ e = toReal a - ((x / y : ℕ) : ℝ) * toReal b := by
    rw [hta.1, htb, ← hxR, ← hyR]
    have : (x:ℝ) = (y:ℝ) * ((x / y : ℕ):ℝ) + ((x % y : ℕ):ℝ) := by exact_mod_cast hdm.symm
    rw [this]; ring
  have hlt : ((x % y : ℕ) : ℝ) * (2:ℝ) ^ e < toReal b := by
    rw [htb, ← hyR]
    have : ((x % y : ℕ):ℝ) < (y:ℝ) := by exact_mod_cast hr
    exact mul_lt_mul_of_pos_right this (by positivity)
  have hnn : (0:ℝ) ≤ ((x % y : ℕ) : ℝ) * (2:ℝ) ^ e := by positivity
  refine ⟨x / y, ?_⟩
  rw [hform]
  by_cases hr0 : x % y = 0
  · rw [if_pos hr0]
    rw [hr0] at hval
    refine ⟨⟨_, _, _, decode_signBit n1⟩, ?_, ?_, ?_⟩
    · rw [toReal_of_decode _ _ _ _ (decode_signBit n1), valR_zero, ← hval]; simp
    · rw [toReal_of_decode _ _ _ _ (decode_signBit n1), valR_zero]
    · rw [toReal_of_decode _ _ _ _ (decode_signBit n1), valR_zero]; exact hb0
  · rw [if_neg hr0]
    have hn1 : n1 = false := by
      cases n1
      · rfl
      · exfalso
        have := hta.2 rfl
        have hx0 : x = 0 := by rw [hxdef, this]; simp
        rw [hx0] at hr0; simp at hr0
    obtain ⟨m', e', hd, hv⟩ := roundPack_exact n1 (x % y) e hrlt (le_min he1 he2) (lt_trans hlt hbfit)
    refine ⟨⟨_, _, _, hd⟩, ?_, ?_, ?_⟩
    · rw [toReal_of_decode _ _ _ _ hd, hn1]; unfold valR; simp only [Bool.false_eq_true, if_false, one_mul]; rw [hv, hval]
    · rw [toReal_of_decode _ _ _ _ hd, hn1]; unfold valR; simp only [Bool.false_eq_true, if_false, one_mul]; rw [hv]; exact hnn
    · rw [toReal_of_decode _ _ _ _ hd, hn1]; unfold valR; simp only [Bool.false_eq_true, if_false, one_mul]; rw [hv]; exact hlt

end F32
