import Proofs.RoundTrip
/-! Real-number lemmas for the sRGB pair: certified enclosures of rational powers, tangent inequalities, and the comparison
of the crate's derivative-matched constants with the constants of IEC 61966-2-1. -/
namespace SrgbReal
open Real

/-- enclosure of `b^(p/q)` from integer powers -/
theorem rpow_encl (b lo hi : ℝ) (p q : ℕ) (hq : 0 < q) (hb : 0 ≤ b) (hlo : 0 ≤ lo) (hhi : 0 ≤ hi)
    (h1 : lo ^ q ≤ b ^ p) (h2 : b ^ p ≤ hi ^ q) : lo ≤ b ^ ((p:ℝ) / q) ∧ b ^ ((p:ℝ) / q) ≤ hi := by
  set y := b ^ ((p:ℝ) / q) with hy
  have hy0 : 0 ≤ y := Real.rpow_nonneg hb _
  have hyq : y ^ q = b ^ p := by
    rw [hy, ← Real.rpow_natCast, ← Real.rpow_mul hb]
    have : (p:ℝ) / q * (q:ℝ) = (p:ℝ) := by field_simp
    rw [this, Real.rpow_natCast]
  constructor
  · by_contra hc
    have := pow_lt_pow_left₀ (not_le.mp hc) hy0 (Nat.pos_iff_ne_zero.mp hq)
    rw [hyq] at this; linarith
  · by_contra hc
    have := pow_lt_pow_left₀ (not_le.mp hc) hhi (Nat.pos_iff_ne_zero.mp hq)
    rw [hyq] at this; linarith

/-- tangent above a concave power: `y^g ≤ x^g + g (x^g / x) (y - x)` for `0 ≤ g ≤ 1` -/
theorem concave_tangent (x y g : ℝ) (hx : 0 < x) (hy : 0 < y) (hg0 : 0 ≤ g) (hg1 : g ≤ 1) :
    y ^ g ≤ x ^ g + g * (x ^ g / x) * (y - x) := by
  have h := _root_.rpow_one_add_le_one_add_mul_self (s := y / x - 1) (by have : 0 < y / x := div_pos hy hx; linarith) hg0 hg1
  have e1 : 1 + (y / x - 1) = y / x := by ring
  rw [e1, Real.div_rpow hy.le hx.le] at h
  have hxg : 0 < x ^ g := Real.rpow_pos_of_pos hx g
  rw [div_le_iff₀ hxg] at h
  have e2 : (1 + g * (y / x - 1)) * x ^ g = x ^ g + g * (x ^ g / x) * (y - x) := by field_simp
  linarith

/-- tangent below a convex power: `x^p + p (x^p / x) (y - x) ≤ y^p` for `1 ≤ p` -/
theorem convex_tangent (x y p : ℝ) (hx : 0 < x) (hy : 0 < y) (hp : 1 ≤ p) :
    x ^ p + p * (x ^ p / x) * (y - x) ≤ y ^ p := by
  have h := _root_.one_add_mul_self_le_rpow_one_add (s := y / x - 1) (by have : 0 < y / x := div_pos hy hx; linarith) hp
  have e1 : 1 + (y / x - 1) = y / x := by ring
  rw [e1, Real.div_rpow hy.le hx.le] at h
  have hxp : 0 < x ^ p := Real.rpow_pos_of_pos hx p
  rw [le_div_iff₀ hxp] at h
  have e2 : (1 + p * (y / x - 1)) * x ^ p = x ^ p + p * (x ^ p / x) * (y - x) := by field_simp
  linarith

/-- powers of nearby bases in `(0, 1]`, exponent `p ≥ 1`: `|v^p - u^p| ≤ p |v - u|` -/
theorem rpow_base_pert (u v p : ℝ) (hu : 0 < u) (hv : 0 < v) (hu1 : u ≤ 1) (hv1 : v ≤ 1) (hp : 1 ≤ p) : |v ^ p - u ^ p| ≤ p * |v - u| := by
  have key : ∀ a b : ℝ, 0 < a → 0 < b → a ≤ b → b ≤ 1 → b ^ p - a ^ p ≤ p * (b - a) := by
    intro a b ha hb hab hb1
    have h := convex_tangent b a p hb ha hp
    have hbp : b ^ p ≤ 1 := Real.rpow_le_one hb.le hb1 (by linarith)
    have hbp0 : 0 < b ^ p := Real.rpow_pos_of_pos hb p
    have hq : b ^ p / b ≤ 1 := by
      rw [div_le_one hb]
      calc b ^ p ≤ b ^ (1:ℝ) := Real.rpow_le_rpow_of_exponent_ge hb hb1 hp
        _ = b := Real.rpow_one b
    have hq0 : 0 ≤ b ^ p / b := by positivity
    have hba : 0 ≤ b - a := by linarith
    have h5 : p * (b ^ p / b) * (b - a) ≤ p * 1 * (b - a) := by
      apply mul_le_mul_of_nonneg_right _ hba
      exact mul_le_mul_of_nonneg_left hq (by linarith)
    nlinarith
  rcases le_total u v with h | h
  · have hk := key u v hu hv h hv1
    have hmono : u ^ p ≤ v ^ p := Real.rpow_le_rpow hu.le h (by linarith)
    rw [abs_of_nonneg (by linarith), abs_of_nonneg (by linarith)]; exact hk
  · have hk := key v u hv hu h hu1
    have hmono : v ^ p ≤ u ^ p := Real.rpow_le_rpow hv.le h (by linarith)
    rw [abs_sub_comm, abs_of_nonneg (by linarith), abs_sub_comm, abs_of_nonneg (by linarith)]; exact hk


/-- the sRGB inverse EOTF (linear -> gamma) of IEC 61966-2-1 -/
noncomputable def specGamma (X : ℝ) : ℝ := if X ≤ 0.0031308 then 12.92 * X else 1.055 * X ^ ((5:ℝ) / 12) - 0.055

/-- the sRGB EOTF (gamma -> linear) -/
noncomputable def specLinear (X : ℝ) : ℝ := if X ≤ 0.04045 then X / 12.92 else ((X + 0.055) / 1.055) ^ ((12:ℝ) / 5)

/-- `0.0031308^(5/12)` to seven digits -/
theorem bs_pow : (9047384 / 10 ^ 8 : ℝ) ≤ (0.0031308:ℝ) ^ ((5:ℝ) / 12) ∧ (0.0031308:ℝ) ^ ((5:ℝ) / 12) ≤ 9047385 / 10 ^ 8 := by
  have := rpow_encl (0.0031308:ℝ) (9047384 / 10 ^ 8) (9047385 / 10 ^ 8) 5 12 (by norm_num) (by norm_num) (by norm_num) (by norm_num)
    (by norm_num) (by norm_num)
  norm_num at this ⊢
  exact this

/-- `x ↦ x^g / x` is antitone (`g ≤ 1`) -/
theorem rpow_div_antitone (x y g : ℝ) (hx : 0 < x) (hxy : x ≤ y) (hg0 : 0 ≤ g) (hg1 : g ≤ 1) : y ^ g / y ≤ x ^ g / x := by
  have hy : 0 < y := lt_of_lt_of_le hx hxy
  have hr : 1 ≤ y / x := by rw [le_div_iff₀ hx]; linarith
  have h1 : (y / x) ^ g ≤ y / x := by
    calc (y / x) ^ g ≤ (y / x) ^ (1:ℝ) := Real.rpow_le_rpow_of_exponent_le hr hg1
      _ = y / x := Real.rpow_one _
  rw [Real.div_rpow hy.le hx.le] at h1
  have hxg : 0 < x ^ g := Real.rpow_pos_of_pos hx g
  rw [div_le_div_iff₀ hy hx]
  rw [div_le_div_iff₀ hxg hx] at h1
  linarith

/-- **sRGB linear -> gamma, constants**: the crate's power branch `α x^(5/12) - a` with its derivative-matched constants
is within 1.2e-5 of the IEC formula wherever the crate uses it (`x ≥ β`) -/
theorem gamma_consts (α a β X : ℝ) (hα1 : 10550106 / 10 ^ 7 ≤ α) (hα2 : α ≤ 10550108 / 10 ^ 7) (ha : |a - (α - 1)| ≤ 1 / 10 ^ 7)
    (hβ1 : 3041282 / 10 ^ 9 ≤ β) (hβ2 : β ≤ 3041283 / 10 ^ 9)
    (hP1 : 8938685 / 10 ^ 8 ≤ β ^ ((5:ℝ) / 12)) (hP2 : β ^ ((5:ℝ) / 12) ≤ 8938686 / 10 ^ 8)
    (hX0 : β ≤ X) (hX1 : X ≤ 1) : |α * X ^ ((5:ℝ) / 12) - a - specGamma X| ≤ 12 / 10 ^ 6 := by
  obtain ⟨a1, a2⟩ := abs_le.mp ha
  have hβpos : 0 < β := by linarith
  have hXpos : 0 < X := by linarith
  set g : ℝ := 5 / 12 with hg
  have hg0 : 0 ≤ g := by rw [hg]; norm_num
  have hg1 : g ≤ 1 := by rw [hg]; norm_num
  set Xg := X ^ g with hXg
  have hXg0 : 0 ≤ Xg := Real.rpow_nonneg hXpos.le g
  have hXg1 : Xg ≤ 1 := Real.rpow_le_one hXpos.le hX1 hg0
  unfold specGamma
  by_cases hreg : X ≤ 0.0031308
  · rw [if_pos hreg]
    set Pb := β ^ g with hPb
    obtain ⟨s1, s2⟩ := bs_pow
    set Ps := (0.0031308:ℝ) ^ g with hPs
    -- upper bound: tangent at β
    have hup := concave_tangent β X g hβpos hXpos hg0 hg1
    -- lower bound: tangent at X towards β_s, slope controlled by the slope at β
    have hlo := concave_tangent X 0.0031308 g hXpos (by norm_num) hg0 hg1
    have hanti := rpow_div_antitone β X g hβpos hX0 hg0 hg1
    have hdx : 0 ≤ X - β := by linarith
    have hdx2 : X - β ≤ 9 / 10 ^ 5 := by norm_num at hreg ⊢; linarith
    have hds : 0 ≤ 0.0031308 - X := by linarith
    have hds2 : (0.0031308:ℝ) - X ≤ 9 / 10 ^ 5 := by norm_num; linarith
    -- slope at β
    have hq1 : Pb / β ≤ 2939120 / 10 ^ 5 := by rw [div_le_iff₀ hβpos]; nlinarith
    have hq0 : 2939110 / 10 ^ 5 ≤ Pb / β := by rw [le_div_iff₀ hβpos]; nlinarith
    have hQ0 : 0 ≤ Pb / β := by positivity
    have hαQ1 : α * (Pb / β) ≤ (10550108 / 10 ^ 7) * (2939120 / 10 ^ 5) := mul_le_mul hα2 hq1 hQ0 (by norm_num)
    have hslope_hi : α * (g * (Pb / β)) ≤ 12.92 + 1 / 10 ^ 4 := by
      have e : α * (g * (Pb / β)) = g * (α * (Pb / β)) := by ring
      rw [e, hg]; nlinarith
    have hXq : Xg / X ≤ Pb / β := hanti
    have hXq0 : 0 ≤ Xg / X := by positivity
    rw [abs_le]
    constructor
    · -- lower: φ(X) ≥ φ(β_s) - slope⁺ * (β_s - X)
      have h1 : α * Ps ≤ α * (Xg + g * (Xg / X) * (0.0031308 - X)) := mul_le_mul_of_nonneg_left hlo (by linarith)
      have h2 : α * (g * (Xg / X)) ≤ α * (g * (Pb / β)) := by
        apply mul_le_mul_of_nonneg_left _ (by linarith)
        exact mul_le_mul_of_nonneg_left hXq hg0
      have h3 : α * (g * (Xg / X)) * (0.0031308 - X) ≤ (12.92 + 1 / 10 ^ 4) * (0.0031308 - X) :=
        mul_le_mul_of_nonneg_right (le_trans h2 hslope_hi) hds
      nlinarith
    · have h1 : α * Xg ≤ α * (Pb + g * (Pb / β) * (X - β)) := mul_le_mul_of_nonneg_left hup (by linarith)
      have h3 : α * (g * (Pb / β)) * (X - β) ≤ (12.92 + 1 / 10 ^ 4) * (X - β) := mul_le_mul_of_nonneg_right hslope_hi hdx
      nlinarith
  · rw [if_neg hreg]
    have e : α * Xg - a - (1.055 * Xg - 0.055) = (α - 1.055) * Xg - (a - 0.055) := by ring
    rw [e, abs_le]
    constructor <;> nlinarith


/-- `x ↦ x^p / x` is monotone (`p ≥ 1`) -/
theorem rpow_div_monotone (x y p : ℝ) (hx : 0 < x) (hxy : x ≤ y) (hp : 1 ≤ p) : x ^ p / x ≤ y ^ p / y := by
  have hy : 0 < y := lt_of_lt_of_le hx hxy
  have hr : 1 ≤ y / x := by rw [le_div_iff₀ hx]; linarith
  have h1 : y / x ≤ (y / x) ^ p := by
    calc y / x = (y / x) ^ (1:ℝ) := (Real.rpow_one _).symm
      _ ≤ (y / x) ^ p := Real.rpow_le_rpow_of_exponent_le hr hp
  rw [Real.div_rpow hy.le hx.le] at h1
  have hxp : 0 < x ^ p := Real.rpow_pos_of_pos hx p
  rw [div_le_div_iff₀ hx hy]
  rw [div_le_div_iff₀ hx hxp] at h1
  linarith

/-- region `x > 0.04045`: both formulas are powers with exponent 2.4 of nearby bases -/
theorem linear_iii (α X : ℝ) (hα1 : 10550106 / 10 ^ 7 ≤ α) (hα2 : α ≤ 10550108 / 10 ^ 7) (hX0 : 0.04045 < X) (hX1 : X ≤ 1) :
    |((X + (α - 1)) / α) ^ ((12:ℝ) / 5) - ((X + 0.055) / 1.055) ^ ((12:ℝ) / 5)| ≤ 24 / 10 ^ 6 := by
  have hαpos : 0 < α := by linarith
  have hX0' : (0:ℝ) < X := lt_trans (by norm_num) hX0
  set b := (X + (α - 1)) / α with hb
  have hbpos : 0 < b := by rw [hb]; apply div_pos _ hαpos; linarith
  have hb1 : b ≤ 1 := by rw [hb, div_le_one hαpos]; linarith
  set bs := (X + 0.055) / 1.055 with hbs
  have hbspos : 0 < bs := by rw [hbs]; apply div_pos <;> linarith
  have hbs1 : bs ≤ 1 := by rw [hbs, div_le_one (by norm_num)]; linarith
  have hdiff : |b - bs| ≤ 98 / 10 ^ 7 := by
    have e : b - bs = (α - 1.055) * (1 - X) / (α * 1.055) := by rw [hb, hbs]; field_simp; ring
    rw [e, abs_div, abs_of_pos (by positivity : (0:ℝ) < α * 1.055), div_le_iff₀ (by positivity)]
    rw [abs_le]; constructor <;> nlinarith
  have := rpow_base_pert bs b ((12:ℝ) / 5) hbspos hbpos hbs1 hb1 (by norm_num)
  refine le_trans this ?_
  nlinarith [abs_nonneg (b - bs)]

/-- the slope of the tangent at the crate's threshold is within 1e-4 of 1/12.92 (from below) -/
theorem slope_T (α Q : ℝ) (hα1 : 10550106 / 10 ^ 7 ≤ α) (hα2 : α ≤ 10550108 / 10 ^ 7) (hq1 : 340237 / 10 ^ 7 ≤ Q) :
    1 / 12.92 - 1 / 10 ^ 4 ≤ (12 / 5 : ℝ) * Q * (1 / α) := by
  have hαpos : 0 < α := by linarith
  have hinvα0 : 947856 / 10 ^ 6 ≤ 1 / α := by rw [le_div_iff₀ hαpos]; nlinarith
  have hQα : (340237 / 10 ^ 7 : ℝ) * (947856 / 10 ^ 6) ≤ Q * (1 / α) := mul_le_mul hq1 hinvα0 (by norm_num) (by linarith)
  have e : (12 / 5 : ℝ) * Q * (1 / α) = 12 / 5 * (Q * (1 / α)) := by ring
  rw [e]
  have : (12 / 5 : ℝ) * ((340237 / 10 ^ 7) * (947856 / 10 ^ 6)) ≤ 12 / 5 * (Q * (1 / α)) := mul_le_mul_of_nonneg_left hQα (by norm_num)
  have h9 : (1:ℝ) / 12.92 - 1 / 10 ^ 4 ≤ (12 / 5 : ℝ) * ((340237 / 10 ^ 7) * (947856 / 10 ^ 6)) := by norm_num
  linarith

/-- linear bookkeeping of region (ii), lower side -/
theorem ii_lower (VT Vx sl dXT T X : ℝ) (htan : VT + sl * dXT ≤ Vx) (hsl : 1 / 12.92 - 1 / 10 ^ 4 ≤ sl) (hd0 : 0 ≤ dXT) (hd1 : dXT ≤ 12 / 10 ^ 4)
    (hd : dXT = X - T) (hVT : 30412780 / 10 ^ 10 ≤ VT) (hT2 : T ≤ 3929345 / 10 ^ 8) : -(24 / 10 ^ 6) ≤ Vx - X / 12.92 := by
  have h2 : (1 / 12.92 - 1 / 10 ^ 4) * dXT ≤ sl * dXT := mul_le_mul_of_nonneg_right hsl hd0
  have h4 : (1 / 10 ^ 4 : ℝ) * dXT ≤ 1 / 10 ^ 4 * (12 / 10 ^ 4) := mul_le_mul_of_nonneg_left hd1 (by norm_num)
  have h5 : (1 / 12.92 : ℝ) * dXT = X / 12.92 - T / 12.92 := by rw [hd]; ring
  have h6 : T / 12.92 ≤ (3929345 / 10 ^ 8) / 12.92 := by apply div_le_div_of_nonneg_right hT2 (by norm_num)
  have h7 : ((3929345:ℝ) / 10 ^ 8) / 12.92 ≤ 30412900 / 10 ^ 10 := by norm_num
  linarith

/-- linear bookkeeping of region (ii), upper side -/
theorem ii_upper (VS Vx sl dSX X : ℝ) (htan : Vx + sl * dSX ≤ VS) (hsl : 1 / 12.92 - 1 / 10 ^ 4 ≤ sl) (hd0 : 0 ≤ dSX) (hd1 : dSX ≤ 12 / 10 ^ 4)
    (hd : dSX = 0.04045 - X) (hVS : VS ≤ 31315718 / 10 ^ 10) : Vx - X / 12.92 ≤ 24 / 10 ^ 6 := by
  have h2 : (1 / 12.92 - 1 / 10 ^ 4) * dSX ≤ sl * dSX := mul_le_mul_of_nonneg_right hsl hd0
  have h4 : (1 / 10 ^ 4 : ℝ) * dSX ≤ 1 / 10 ^ 4 * (12 / 10 ^ 4) := mul_le_mul_of_nonneg_left hd1 (by norm_num)
  have h5 : (1 / 12.92 : ℝ) * dSX = 0.04045 / 12.92 - X / 12.92 := by rw [hd]; ring
  have h7 : (31308049 : ℝ) / 10 ^ 10 ≤ 0.04045 / 12.92 := by norm_num
  linarith

/-- region `T ≤ x ≤ 0.04045`: the crate uses the power branch, the standard the linear one -/
theorem linear_ii (α T X : ℝ) (hα1 : 10550106 / 10 ^ 7 ≤ α) (hα2 : α ≤ 10550108 / 10 ^ 7)
    (hT1 : 3929330 / 10 ^ 8 ≤ T) (hT2 : T ≤ 3929345 / 10 ^ 8)
    (hE1 : 30412780 / 10 ^ 10 ≤ ((T + (α - 1)) / α) ^ ((12:ℝ) / 5)) (hE2 : ((T + (α - 1)) / α) ^ ((12:ℝ) / 5) ≤ 30412812 / 10 ^ 10)
    (hF2 : ((0.04045 + (α - 1)) / α) ^ ((12:ℝ) / 5) ≤ 31315718 / 10 ^ 10)
    (hX0 : T ≤ X) (hX1 : X ≤ 0.04045) : |((X + (α - 1)) / α) ^ ((12:ℝ) / 5) - X / 12.92| ≤ 24 / 10 ^ 6 := by
  have hαpos : 0 < α := by linarith
  have hp1 : (1:ℝ) ≤ 12 / 5 := by norm_num
  set b := (X + (α - 1)) / α with hb
  have hbpos : 0 < b := by rw [hb]; apply div_pos _ hαpos; linarith
  set bT := (T + (α - 1)) / α with hbT
  set bS := ((0.04045:ℝ) + (α - 1)) / α with hbS
  have hbTpos : 0 < bT := by rw [hbT]; apply div_pos _ hαpos; linarith
  have hbSpos : 0 < bS := by rw [hbS]; apply div_pos _ hαpos; linarith
  have hbTb : bT ≤ b := by rw [hbT, hb]; apply div_le_div_of_nonneg_right _ hαpos.le; linarith
  have hbT2 : bT ≤ 893870 / 10 ^ 7 := by rw [hbT, div_le_iff₀ hαpos]; nlinarith
  have htanT := convex_tangent bT b ((12:ℝ) / 5) hbTpos hbpos hp1
  have htanX := convex_tangent b bS ((12:ℝ) / 5) hbpos hbSpos hp1
  have hmono := rpow_div_monotone bT b ((12:ℝ) / 5) hbTpos hbTb hp1
  have hq1 : 340237 / 10 ^ 7 ≤ bT ^ ((12:ℝ) / 5) / bT := by rw [le_div_iff₀ hbTpos]; nlinarith
  have hdb : b - bT = (X - T) * (1 / α) := by rw [hb, hbT]; field_simp; ring
  have hdS : bS - b = (0.04045 - X) * (1 / α) := by rw [hb, hbS]; field_simp; ring
  have hslT := slope_T α (bT ^ ((12:ℝ) / 5) / bT) hα1 hα2 hq1
  have hslX : 1 / 12.92 - 1 / 10 ^ 4 ≤ (12 / 5 : ℝ) * (b ^ ((12:ℝ) / 5) / b) * (1 / α) := by
    refine le_trans hslT ?_
    apply mul_le_mul_of_nonneg_right _ (by positivity)
    exact mul_le_mul_of_nonneg_left hmono (by norm_num)
  rw [abs_le]
  constructor
  · apply ii_lower (bT ^ ((12:ℝ) / 5)) _ ((12 / 5 : ℝ) * (bT ^ ((12:ℝ) / 5) / bT) * (1 / α)) (X - T) T X _ hslT (by linarith)
      (by norm_num at hX1 ⊢; linarith) rfl hE1 hT2
    have e : (12 / 5 : ℝ) * (bT ^ ((12:ℝ) / 5) / bT) * (1 / α) * (X - T) = 12 / 5 * (bT ^ ((12:ℝ) / 5) / bT) * (b - bT) := by rw [hdb]; ring
    rw [e]; exact htanT
  · apply ii_upper (bS ^ ((12:ℝ) / 5)) _ ((12 / 5 : ℝ) * (b ^ ((12:ℝ) / 5) / b) * (1 / α)) (0.04045 - X) X _ hslX (by linarith)
      (by norm_num; linarith) rfl hF2
    have e : (12 / 5 : ℝ) * (b ^ ((12:ℝ) / 5) / b) * (1 / α) * (0.04045 - X) = 12 / 5 * (b ^ ((12:ℝ) / 5) / b) * (bS - b) := by rw [hdS]; ring
    rw [e]; exact htanX

/-- **sRGB gamma -> linear, constants**: the crate's power branch `((x + α - 1) / α)^2.4` is within 2.4e-5 of the IEC formula
wherever the crate uses it (`x ≥ T = 12.92 β`) -/
theorem linear_consts (α T X : ℝ) (hα1 : 10550106 / 10 ^ 7 ≤ α) (hα2 : α ≤ 10550108 / 10 ^ 7)
    (hT1 : 3929330 / 10 ^ 8 ≤ T) (hT2 : T ≤ 3929345 / 10 ^ 8)
    (hE1 : 30412780 / 10 ^ 10 ≤ ((T + (α - 1)) / α) ^ ((12:ℝ) / 5)) (hE2 : ((T + (α - 1)) / α) ^ ((12:ℝ) / 5) ≤ 30412812 / 10 ^ 10)
    (hF2 : ((0.04045 + (α - 1)) / α) ^ ((12:ℝ) / 5) ≤ 31315718 / 10 ^ 10)
    (hX0 : T ≤ X) (hX1 : X ≤ 1) : |((X + (α - 1)) / α) ^ ((12:ℝ) / 5) - specLinear X| ≤ 24 / 10 ^ 6 := by
  unfold specLinear
  by_cases hreg : X ≤ 0.04045
  · rw [if_pos hreg]; exact linear_ii α T X hα1 hα2 hT1 hT2 hE1 hE2 hF2 hX0 hreg
  · rw [if_neg hreg]; exact linear_iii α X hα1 hα2 (not_le.mp hreg) hX1

end SrgbReal
