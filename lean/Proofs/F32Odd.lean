import Proofs.F32Sign
/-! Sign symmetry of the softfloat operations, bit for bit: flipping the sign bit of an operand flips the sign bit of the
result (or both results are the canonical NaN). Used for the oddness of `cbrtf`. The binary64 instance is generated. -/
namespace F32

/-- sign-flipped decoded value -/
def Val.flip : Val → Val
  | .nan => .nan
  | .inf n => .inf (!n)
  | .fin n m e => .fin (!n) m e

theorem decode_neg (a : Nat) (ha : a < 4294967296) : decode (neg a) = (decode a).flip := by
  obtain ⟨s, k, f, hs, hk, hf, rfl⟩ := unpack a ha
  rw [neg_pack s k f hs hk hf, decode_pack (1 - s) k f (by omega) hk hf, decode_pack s k f hs hk hf]
  have : s = 0 ∨ s = 1 := by omega
  rcases this with rfl | rfl <;> (repeat' split) <;> simp_all [Val.flip]

theorem encode_sign (n : Bool) (mant : Nat) (q : Int) : encode n mant q = signBit n + encode false mant q := by
  unfold encode
  have h0 : signBit false = 0 := rfl
  rw [h0]
  split_ifs <;> omega

theorem roundPack_sign (n : Bool) (m : Nat) (e : Int) : roundPack n m e = signBit n + roundPack false m e := by
  unfold roundPack
  have h0 : signBit false = 0 := rfl
  split
  · rw [h0]; rfl
  · exact encode_sign n _ _

theorem roundPack_false_lt (m : Nat) (e : Int) : roundPack false m e < 2147483648 := by
  obtain ⟨X, hX, h⟩ := roundPack_low false m e
  have h0 : signBit false = 0 := rfl
  rw [h, h0]; omega

theorem neg_signBit_add (n : Bool) (X : Nat) (hX : X < 2147483648) : neg (signBit n + X) = signBit (!n) + X := by
  unfold neg
  simp only [consts.2.2.2.2.2.2.2.1]
  cases n
  · have h0 : signBit false = 0 := rfl
    have h1 : signBit (!false) = 2147483648 := rfl
    rw [h0, h1]; split <;> omega
  · have h0 : signBit true = 2147483648 := rfl
    have h1 : signBit (!true) = 0 := rfl
    rw [h0, h1]; split <;> omega

/-- **rounding is sign-symmetric, bit for bit** -/
theorem roundPack_not (n : Bool) (m : Nat) (e : Int) : roundPack (!n) m e = neg (roundPack n m e) := by
  rw [roundPack_sign n, roundPack_sign (!n), neg_signBit_add n _ (roundPack_false_lt m e)]

theorem infB_not (n : Bool) : infB (!n) = neg (infB n) := by cases n <;> decide +kernel
theorem signBit_not (n : Bool) : signBit (!n) = neg (signBit n) := by cases n <;> decide +kernel
theorem decode_qnan : decode QNAN = .nan := by decide +kernel
theorem decode_infB' (n : Bool) : decode (infB n) = .inf n := by cases n <;> decide +kernel
theorem wf_lt (a : Nat) (h : WF a) : a < 4294967296 := h

theorem neg_neg' (a : Nat) (ha : a < 4294967296) : neg (neg a) = a := by
  unfold neg
  simp only [consts.2.2.2.2.2.2.2.1]
  split <;> split <;> omega

/-- `r'` is `r` with the sign bit flipped, or both are the canonical NaN -/
def Opp (r' r : Nat) : Prop := r' = neg r ∨ (r' = QNAN ∧ r = QNAN)

theorem bne_not_l (a b : Bool) : ((!a) != b) = !(a != b) := by cases a <;> cases b <;> rfl
theorem bne_not_r (a b : Bool) : (a != (!b)) = !(a != b) := by cases a <;> cases b <;> rfl
theorem bne_comm'' (a b : Bool) : (a != b) = (b != a) := by cases a <;> cases b <;> rfl
theorem bne_not_not (a b : Bool) : ((!a) != (!b)) = (a != b) := by cases a <;> cases b <;> rfl

/-- flipping the left factor -/
theorem mul_neg_l (a b : Nat) (ha : WF a) : Opp (mul (neg a) b) (mul a b) := by
  unfold mul
  rw [decode_neg a ha]
  cases hda : decode a with
  | nan => right; simp [Val.flip]
  | inf n1 =>
    cases hdb : decode b with
    | nan => right; simp [Val.flip]
    | inf n2 => left; simp only [Val.flip]; rw [bne_not_l, infB_not]
    | fin n2 m2 e2 =>
      simp only [Val.flip]
      by_cases hm : m2 = 0
      · right; simp [hm]
      · left; simp only [hm, if_false]; rw [bne_not_l, infB_not]
  | fin n1 m1 e1 =>
    cases hdb : decode b with
    | nan => right; simp [Val.flip]
    | inf n2 =>
      simp only [Val.flip]
      by_cases hm : m1 = 0
      · right; simp [hm]
      · left; simp only [hm, if_false]; rw [bne_not_r, infB_not]
    | fin n2 m2 e2 => left; simp only [Val.flip]; rw [bne_not_l, roundPack_not]

/-- flipping the right factor -/
theorem mul_neg_r (a b : Nat) (hb : WF b) : Opp (mul a (neg b)) (mul a b) := by
  unfold mul
  rw [decode_neg b hb]
  cases hda : decode a with
  | nan => right; simp [Val.flip]
  | inf n1 =>
    cases hdb : decode b with
    | nan => right; simp [Val.flip]
    | inf n2 => left; simp only [Val.flip]; rw [bne_not_r, infB_not]
    | fin n2 m2 e2 =>
      simp only [Val.flip]
      by_cases hm : m2 = 0
      · right; simp [hm]
      · left; simp only [hm, if_false]; rw [bne_not_r, infB_not]
  | fin n1 m1 e1 =>
    cases hdb : decode b with
    | nan => right; simp [Val.flip]
    | inf n2 =>
      simp only [Val.flip]
      by_cases hm : m1 = 0
      · right; simp [hm]
      · left; simp only [hm, if_false]; rw [bne_not_l, infB_not]
    | fin n2 m2 e2 => left; simp only [Val.flip]; rw [bne_not_r, roundPack_not]

/-- flipping both factors changes nothing -/
theorem mul_neg_neg (a b : Nat) (ha : WF a) (hb : WF b) : mul (neg a) (neg b) = mul a b := by
  unfold mul
  rw [decode_neg a ha, decode_neg b hb]
  cases hda : decode a <;> cases hdb : decode b <;> simp [Val.flip]

/-- flipping the divisor -/
theorem div_neg_r (a b : Nat) (hb : WF b) : Opp (div a (neg b)) (div a b) := by
  unfold div
  rw [decode_neg b hb]
  cases hda : decode a with
  | nan => right; simp [Val.flip]
  | inf n1 =>
    cases hdb : decode b with
    | nan => right; simp [Val.flip]
    | inf n2 => right; simp [Val.flip]
    | fin n2 m2 e2 => left; simp only [Val.flip]; rw [bne_not_r, infB_not]
  | fin n1 m1 e1 =>
    cases hdb : decode b with
    | nan => right; simp [Val.flip]
    | inf n2 => left; simp only [Val.flip]; rw [bne_not_r, signBit_not]
    | fin n2 m2 e2 =>
      simp only [Val.flip]
      by_cases hm2 : m2 = 0
      · simp only [hm2, if_true]
        by_cases hm1 : m1 = 0
        · right; simp [hm1]
        · left; simp only [hm1, if_false]; rw [bne_not_r, infB_not]
      · left; simp only [hm2, if_false]; rw [bne_not_r, roundPack_not]

/-- "unless NaN, the sign is `n`" -/
def Sgn (n : Bool) (a : Nat) : Prop := (∀ s m e, decode a = .fin s m e → s = n) ∧ (∀ s, decode a = .inf s → s = n)

theorem sgn_qnan (n : Bool) : Sgn n QNAN := by
  constructor
  · intro s m e h; rw [decode_qnan] at h; cases h
  · intro s h; rw [decode_qnan] at h; cases h
theorem sgn_infB (n : Bool) : Sgn n (infB n) := by
  constructor
  · intro s m e h; rw [decode_infB'] at h; cases h
  · intro s h; rw [decode_infB'] at h; injection h with h1; exact h1.symm
theorem sgn_signBit (n : Bool) : Sgn n (signBit n) := by
  have : decode (signBit n) = .fin n 0 (-149) := by cases n <;> decide +kernel
  constructor
  · intro s m e h
    rw [this] at h; injection h with h1 _ _; exact h1.symm
  · intro s h; rw [this] at h; cases h
theorem sgn_roundPack (n : Bool) (m : Nat) (e : Int) : Sgn n (roundPack n m e) := by
  constructor
  · intro s m' e' h; exact roundPack_sgn n m e s m' e' h
  · intro s h
    obtain ⟨X, hX, hrp⟩ := roundPack_low n m e
    rw [hrp, signBit_eq] at h
    obtain ⟨k, f, hk, hf, hXe⟩ : ∃ k f, k < 256 ∧ f < 8388608 ∧ X = k * 8388608 + f := ⟨X / 8388608, X % 8388608, by omega, by omega, by omega⟩
    have hbits : (if n then 1 else 0) * 2147483648 + X = (if n then 1 else 0) * 2147483648 + k * 8388608 + f := by omega
    rw [hbits, decode_pack (if n then 1 else 0) k f (by cases n <;> simp) hk hf] at h
    have hdn : decide ((if n then 1 else 0 : Nat) = 1) = n := by cases n <;> simp
    rw [hdn] at h
    split at h
    · split at h
      · injection h with hs; exact hs.symm
      · cases h
    · split at h <;> cases h

theorem sgn_mul (n1 n2 : Bool) (a b : Nat) (ha : Sgn n1 a) (hb : Sgn n2 b) : Sgn (n1 != n2) (mul a b) := by
  unfold mul
  cases hda : decode a with
  | nan => exact sgn_qnan _
  | inf k1 =>
    have h1 := ha.2 k1 hda
    cases hdb : decode b with
    | nan => exact sgn_qnan _
    | inf k2 => rw [h1, hb.2 k2 hdb]; exact sgn_infB _
    | fin k2 m2 e2 =>
      rw [h1, hb.1 k2 m2 e2 hdb]
      dsimp only; split <;> first | exact sgn_qnan _ | exact sgn_infB _
  | fin k1 m1 e1 =>
    have h1 := ha.1 k1 m1 e1 hda
    cases hdb : decode b with
    | nan => exact sgn_qnan _
    | inf k2 =>
      rw [h1, hb.2 k2 hdb]
      dsimp only; split <;> first | exact sgn_qnan _ | (rw [bne_comm'']; exact sgn_infB _)
    | fin k2 m2 e2 =>
      rw [h1, hb.1 k2 m2 e2 hdb]
      exact sgn_roundPack _ _ _

/-- the sign of an exact sum of two terms of the same sign -/
theorem addExact_sgn (n : Bool) (m1 : Nat) (e1 : Int) (m2 : Nat) (e2 : Int) (h : (addExact n m1 e1 n m2 e2).2.1 ≠ 0) :
    (addExact n m1 e1 n m2 e2).1 = n := by
  unfold addExact at h ⊢
  dsimp only at h ⊢
  cases n
  · simp only [Bool.false_eq_true, if_false] at h ⊢
    simp only [decide_eq_false_iff_not, not_lt]
    omega
  · simp only [if_true] at h ⊢
    simp only [decide_eq_true_eq]
    omega

theorem sgn_add (n : Bool) (a b : Nat) (ha : Sgn n a) (hb : Sgn n b) : Sgn n (add a b) := by
  unfold add
  cases hda : decode a with
  | nan => exact sgn_qnan _
  | inf k1 =>
    have h1 := ha.2 k1 hda
    cases hdb : decode b with
    | nan => exact sgn_qnan _
    | inf k2 => rw [h1]; dsimp only; split <;> first | exact sgn_qnan _ | exact sgn_infB _
    | fin k2 m2 e2 => rw [h1]; exact sgn_infB _
  | fin k1 m1 e1 =>
    cases hdb : decode b with
    | nan => exact sgn_qnan _
    | inf k2 => rw [hb.2 k2 hdb]; exact sgn_infB _
    | fin k2 m2 e2 =>
      rw [ha.1 k1 m1 e1 hda, hb.1 k2 m2 e2 hdb]
      dsimp only
      split
      · simp only [Bool.and_self]; exact sgn_signBit _
      · rename_i hm
        rw [addExact_sgn _ m1 e1 m2 e2 hm]
        exact sgn_roundPack _ _ _

theorem sgn_quot (n1 n2 : Bool) (a b : Nat) (ha : Sgn n1 a) (hb : Sgn n2 b) : Sgn (n1 != n2) (div a b) := by
  unfold div
  cases hda : decode a with
  | nan => exact sgn_qnan _
  | inf k1 =>
    have h1 := ha.2 k1 hda
    cases hdb : decode b with
    | nan => exact sgn_qnan _
    | inf k2 => exact sgn_qnan _
    | fin k2 m2 e2 => rw [h1, hb.1 k2 m2 e2 hdb]; exact sgn_infB _
  | fin k1 m1 e1 =>
    have h1 := ha.1 k1 m1 e1 hda
    cases hdb : decode b with
    | nan => exact sgn_qnan _
    | inf k2 => rw [h1, hb.2 k2 hdb]; exact sgn_signBit _
    | fin k2 m2 e2 =>
      rw [h1, hb.1 k2 m2 e2 hdb]
      dsimp only
      split
      · split <;> first | exact sgn_qnan _ | exact sgn_infB _
      · exact sgn_roundPack _ _ _

theorem flip_aux (X Y X' Y' : Int) (hx : X' = -X) (hy : Y' = -Y) :
    decide (X' + Y' < 0) = (if (X + Y).natAbs = 0 then false else !decide (X + Y < 0)) ∧
    (X' + Y').natAbs = (X + Y).natAbs := by
  subst hx; subst hy
  refine ⟨?_, by omega⟩
  by_cases h0 : (X + Y).natAbs = 0
  · simp only [h0, if_true, decide_eq_false_iff_not]; omega
  · simp only [h0, if_false]
    by_cases h2 : X + Y < 0
    · simp only [h2, decide_true, Bool.not_true, decide_eq_false_iff_not]; omega
    · simp only [h2, decide_false, Bool.not_false, decide_eq_true_eq]; omega

theorem addExact_flip (n1 : Bool) (m1 : Nat) (e1 : Int) (n2 : Bool) (m2 : Nat) (e2 : Int) :
    addExact (!n1) m1 e1 (!n2) m2 e2 =
      ((if (addExact n1 m1 e1 n2 m2 e2).2.1 = 0 then false else !(addExact n1 m1 e1 n2 m2 e2).1),
        (addExact n1 m1 e1 n2 m2 e2).2.1, (addExact n1 m1 e1 n2 m2 e2).2.2) := by
  unfold addExact
  dsimp only
  cases n1 <;> cases n2 <;> simp only [Bool.not_false, Bool.not_true, if_true, if_false, Bool.false_eq_true] <;>
    (rw [Prod.mk.injEq, Prod.mk.injEq]; refine ⟨(flip_aux _ _ _ _ ?_ ?_).1, (flip_aux _ _ _ _ ?_ ?_).2, rfl⟩ <;> omega)

/-- flipping both terms of a sum of two terms of the same sign -/
theorem add_neg_neg (n : Bool) (a b : Nat) (ha : WF a) (hb : WF b) (sa : Sgn n a) (sb : Sgn n b) :
    Opp (add (neg a) (neg b)) (add a b) := by
  unfold add
  rw [decode_neg a ha, decode_neg b hb]
  cases hda : decode a with
  | nan => right; simp [Val.flip]
  | inf k1 =>
    cases hdb : decode b with
    | nan => right; simp [Val.flip]
    | inf k2 =>
      simp only [Val.flip]
      by_cases hk : k1 = k2
      · left; subst hk; simp only [if_true]; exact infB_not _
      · right
        have : ¬ ((!k1) = (!k2)) := by intro h; apply hk; cases k1 <;> cases k2 <;> simp_all
        simp [hk, this]
    | fin k2 m2 e2 => left; simp only [Val.flip]; exact infB_not _
  | fin k1 m1 e1 =>
    cases hdb : decode b with
    | nan => right; simp [Val.flip]
    | inf k2 => left; simp only [Val.flip]; exact infB_not _
    | fin k2 m2 e2 =>
      left
      have h1 := sa.1 k1 m1 e1 hda
      have h2 := sb.1 k2 m2 e2 hdb
      rw [h1, h2]
      simp only [Val.flip]
      rw [addExact_flip]
      generalize addExact n m1 e1 n m2 e2 = t
      obtain ⟨s, m, e⟩ := t
      dsimp only
      by_cases hm : m = 0
      · simp only [hm, if_true, Bool.and_self]; exact signBit_not _
      · simp only [hm, if_false]; exact roundPack_not _ _ _

/-! ### NaN absorption and the combinators on `Opp` pairs -/

theorem mul_qnan_l (b : Nat) : mul QNAN b = QNAN := by unfold mul; rw [decode_qnan]
theorem mul_qnan_r (a : Nat) : mul a QNAN = QNAN := by
  unfold mul; rw [decode_qnan]; cases decode a <;> rfl
theorem add_qnan_l (b : Nat) : add QNAN b = QNAN := by unfold add; rw [decode_qnan]
theorem add_qnan_r (a : Nat) : add a QNAN = QNAN := by
  unfold add; rw [decode_qnan]; cases decode a <;> rfl
theorem div_qnan_r (a : Nat) : div a QNAN = QNAN := by
  unfold div; rw [decode_qnan]; cases decode a <;> rfl

theorem opp_qnan : Opp QNAN QNAN := Or.inr ⟨rfl, rfl⟩

/-- even: both factors flipped -/
theorem opp_mul_even (a' a b' b : Nat) (ha : WF a) (hb : WF b) (h1 : Opp a' a) (h2 : Opp b' b) : mul a' b' = mul a b := by
  rcases h1 with rfl | ⟨rfl, rfl⟩
  · rcases h2 with rfl | ⟨rfl, rfl⟩
    · exact mul_neg_neg a b ha hb
    · rw [mul_qnan_r, mul_qnan_r]
  · rw [mul_qnan_l, mul_qnan_l]

theorem opp_mul_r (c b' b : Nat) (hb : WF b) (h2 : Opp b' b) : Opp (mul c b') (mul c b) := by
  rcases h2 with rfl | ⟨rfl, rfl⟩
  · exact mul_neg_r c b hb
  · rw [mul_qnan_r]; exact opp_qnan

theorem opp_add (n : Bool) (a' a b' b : Nat) (ha : WF a) (hb : WF b) (sa : Sgn n a) (sb : Sgn n b)
    (h1 : Opp a' a) (h2 : Opp b' b) : Opp (add a' b') (add a b) := by
  rcases h1 with rfl | ⟨rfl, rfl⟩
  · rcases h2 with rfl | ⟨rfl, rfl⟩
    · exact add_neg_neg n a b ha hb sa sb
    · rw [add_qnan_r, add_qnan_r]; exact opp_qnan
  · rw [add_qnan_l]; exact opp_qnan

theorem opp_div_r (c d' d : Nat) (hd : WF d) (h2 : Opp d' d) : Opp (div c d') (div c d) := by
  rcases h2 with rfl | ⟨rfl, rfl⟩
  · exact div_neg_r c d hd
  · rw [div_qnan_r]; exact opp_qnan

/-- the decoded sign is the top bit -/
theorem decode_sign (a : Nat) : Sgn (decide ((a / 2147483648) % 2 = 1)) a := by
  constructor
  · intro s m e h
    unfold decode at h
    simp only [consts.2.2.2.2.2.2.2.1] at h
    split at h
    · split at h <;> cases h
    · split at h <;> (injection h with h1 _ _; exact h1.symm)
  · intro s h
    unfold decode at h
    simp only [consts.2.2.2.2.2.2.2.1] at h
    split at h
    · split at h
      · injection h with h1; exact h1.symm
      · cases h
    · split at h <;> cases h

end F32
