import Proofs.CbrtReal
import Proofs.XybMix
/-! The cube-root stage of `linear_rgb_to_xyb` for one channel: clamp at 0, `cbrtf`, in the four regimes in which the mix is
known (relative, absolute-low, absolute-high, clamped). Every regime ends within 1.37e-6 of the real `cbrtR v`. -/
namespace Xyb
open F32 Real Cbrt

/-- the clamp + cube root of the model -/
def stage (B : Build) (v : Nat) : Nat := MathM.cbrtf B (if F32.lt v C.linear_rgb_to_xyb_f1 then C.linear_rgb_to_xyb_f2 else v)

theorem zero_fin : Finite 0 ∧ toReal 0 = 0 := by
  have h : decode 0 = .fin false 0 (-149) := by rfl
  exact ⟨⟨_, _, _, h⟩, by rw [toReal_of_decode _ _ _ _ h, valR_zero]⟩

/-- positive, not tiny: the clamp is inactive and `cbrtf_close` applies -/
theorem stage_pos (B : Build) (hB : B.fastmath = true) (v : Nat) (hw : WF v) (hf : Finite v) (hlo : 36 / 10000 ≤ toReal v) :
    Finite (stage B v) ∧ |toReal (stage B v) - cbrtR (toReal v)| ≤ (u + 1 / 10 ^ 11) * cbrtR (toReal v) := by
  have hpos : 0 < toReal v := by linarith
  have hnlt : F32.lt v C.linear_rgb_to_xyb_f1 = false := by
    have h1 : C.linear_rgb_to_xyb_f1 = 0 := rfl
    rw [h1]
    by_contra hc
    have hc' : F32.lt v 0 = true := by cases h : F32.lt v 0 <;> simp_all
    have := (lt_iff v 0 hf zero_fin.1).mp hc'
    rw [zero_fin.2] at this; linarith
  have hst : stage B v = MathM.cbrtfFast v := by unfold stage MathM.cbrtf; rw [hnlt, if_pos hB]; simp
  rw [hst]
  have hn : Normal v := normal_of_finite v hw hf (by
    rw [abs_of_pos hpos]
    have : (2:ℝ) ^ (-126:ℤ) ≤ (2:ℝ) ^ (-9:ℤ) := zpow_le_zpow_right₀ (by norm_num) (by norm_num)
    have h9 : (2:ℝ) ^ (-9:ℤ) ≤ 36 / 10000 := by norm_num
    exact le_trans this (le_trans h9 hlo))
  have hc3 : cbrtR (toReal v) ^ 3 = toReal v := cbrtR_cube_pos _ hpos.le
  obtain ⟨ff, fe⟩ := cbrtf_close v hn (cbrtR (toReal v)) hc3
  rw [abs_of_nonneg (cbrtR_nonneg _)] at fe
  exact ⟨ff, fe⟩

/-- negative: the clamp replaces the mix by 0 and `cbrtf(0)` is a constant below 1e-13 -/
theorem stage_neg (B : Build) (hB : B.fastmath = true) (v : Nat) (hf : Finite v) (hneg : toReal v < 0) :
    Finite (stage B v) ∧ |toReal (stage B v)| ≤ 1 / 10 ^ 13 := by
  have hlt : F32.lt v C.linear_rgb_to_xyb_f1 = true := by
    have h1 : C.linear_rgb_to_xyb_f1 = 0 := rfl
    rw [h1]
    exact (lt_iff v 0 hf zero_fin.1).mpr (by rw [zero_fin.2]; exact hneg)
  have hst : stage B v = MathM.cbrtfFast C.linear_rgb_to_xyb_f2 := by unfold stage MathM.cbrtf; rw [hlt, if_pos hB]; simp
  have hval : MathM.cbrtfFast C.linear_rgb_to_xyb_f2 = 693180914 := by decide +kernel
  have hd : decode 693180914 = .fin false 13703666 (-68) := by decide +kernel
  rw [hst, hval]
  refine ⟨⟨_, _, _, hd⟩, ?_⟩
  rw [toReal_of_decode _ _ _ _ hd, abs_valR]
  have : (2:ℝ) ^ (-68:ℤ) = 1 / 2 ^ 68 := by rw [zpow_neg, one_div]; norm_num
  rw [this]; norm_num

/-- regime A: relative knowledge of a positive mix -/
theorem chan_rel (B : Build) (hB : B.fastmath = true) (vh : Nat) (hw : WF vh) (hf : Finite vh) (v : ℝ)
    (hv : 37 / 10000 ≤ v ∧ v ≤ 402 / 100) (herr : |toReal vh - v| ≤ 42 / 100000000 * |v|) :
    Finite (stage B vh) ∧ |toReal (stage B vh) - cbrtR v| ≤ 141 / 100000000 ∧ |toReal (stage B vh)| ≤ 161 / 100 := by
  have hvpos : 0 < v := by linarith [hv.1]
  rw [abs_of_pos hvpos] at herr
  obtain ⟨e1, e2⟩ := abs_le.mp herr
  set a := toReal vh with ha
  have halo : 36 / 10000 ≤ a := by nlinarith
  have hapos : 0 < a := by linarith
  obtain ⟨fs, es⟩ := stage_pos B hB vh hw hf halo
  rw [← ha] at es
  set q := cbrtR v with hq
  set pa := cbrtR a with hpa
  have hq3 : q ^ 3 = v := cbrtR_cube_pos v hvpos.le
  have hpa3 : pa ^ 3 = a := cbrtR_cube_pos a hapos.le
  have hqlo : 15 / 100 ≤ q := cbrtR_ge v _ (by norm_num) (by norm_num; linarith [hv.1])
  have hqhi : q ≤ 16 / 10 := cbrtR_le v _ (by norm_num) (by norm_num; linarith [hv.2])
  have hqpos : 0 < q := by linarith
  have hm : 99 / 100 * q ≤ pa := cbrtR_ge a _ (by positivity) (by rw [mul_pow, hq3]; nlinarith)
  have hp := cube_pert pa q (99 / 100 * q) (by positivity) hm (by linarith)
  rw [hpa3, hq3] at hp
  have hd : |pa - q| ≤ 15 / 100000000 * q := by
    refine le_trans hp ?_
    rw [div_le_iff₀ (by positivity)]
    have habs : |a - v| ≤ 42 / 100000000 * q ^ 3 := by rw [hq3, abs_le]; constructor <;> linarith
    nlinarith [sq_nonneg q, pow_pos hqpos 3]
  have hpahi : pa ≤ 1601 / 1000 := by have := (abs_le.mp hd).2; nlinarith
  have hpa0 : 0 ≤ pa := cbrtR_nonneg a
  have hu := u_val
  have hs : |toReal (stage B vh) - pa| ≤ 6 / 100000000 * (1601 / 1000) := by
    refine le_trans es ?_
    rw [hu]; nlinarith
  have t := abs_sub_le (toReal (stage B vh)) pa q
  refine ⟨fs, by nlinarith, ?_⟩
  have := abs_sub_abs_le_abs_sub (toReal (stage B vh)) pa
  rw [abs_of_nonneg hpa0] at this
  linarith

/-- regimes B: absolute knowledge of a mix of at least 1/20 -/
theorem chan_abs (B : Build) (hB : B.fastmath = true) (vh : Nat) (hw : WF vh) (hf : Finite vh) (v : ℝ)
    (hv : 1 / 20 ≤ v ∧ v ≤ 402 / 100) (herr : |toReal vh - v| ≤ 21 / 100000000 + 61 / 1000000000 * (35 / 10 + 2 * |v|)) :
    Finite (stage B vh) ∧ |toReal (stage B vh) - cbrtR v| ≤ 141 / 100000000 ∧ |toReal (stage B vh)| ≤ 161 / 100 := by
  have hvpos : 0 < v := by linarith [hv.1]
  rw [abs_of_pos hvpos] at herr
  obtain ⟨e1, e2⟩ := abs_le.mp herr
  set a := toReal vh with ha
  have hapos : 0 < a := by linarith [hv.1]
  obtain ⟨fs, es⟩ := stage_pos B hB vh hw hf (by linarith [hv.1])
  rw [← ha] at es
  set q := cbrtR v with hq
  set pa := cbrtR a with hpa
  have hq3 : q ^ 3 = v := cbrtR_cube_pos v hvpos.le
  have hpa3 : pa ^ 3 = a := cbrtR_cube_pos a hapos.le
  have hpa0 : 0 ≤ pa := cbrtR_nonneg a
  have hu := u_val
  have habs : |a - v| ≤ 21 / 100000000 + 61 / 1000000000 * (35 / 10 + 2 * v) := by rw [abs_le]; constructor <;> linarith
  by_cases hcase : v ≤ 1
  · -- low: m = 0.368
    have hm1 : (368 / 1000 : ℝ) ≤ q := cbrtR_ge v _ (by norm_num) (by norm_num; linarith [hv.1])
    have hm2 : (368 / 1000 : ℝ) ≤ pa := cbrtR_ge a _ (by norm_num) (by norm_num; linarith [hv.1])
    have hp := cube_pert pa q (368 / 1000) (by norm_num) hm2 hm1
    rw [hpa3, hq3] at hp
    have hd : |pa - q| ≤ 1343 / 1000000000 := by
      refine le_trans hp ?_
      rw [div_le_iff₀ (by norm_num)]
      refine le_trans habs ?_
      nlinarith
    have hpahi : pa ≤ 10001 / 10000 := cbrtR_le a _ (by norm_num) (by norm_num; linarith)
    have hs : |toReal (stage B vh) - pa| ≤ 6 / 100000000 * (10001 / 10000) := by
      refine le_trans es ?_
      rw [hu]; nlinarith
    have t := abs_sub_le (toReal (stage B vh)) pa q
    refine ⟨fs, by linarith, ?_⟩
    have := abs_sub_abs_le_abs_sub (toReal (stage B vh)) pa
    rw [abs_of_nonneg hpa0] at this
    linarith
  · -- high: m = 0.999
    push Not at hcase
    have hm1 : (999 / 1000 : ℝ) ≤ q := cbrtR_ge v _ (by norm_num) (by norm_num; linarith)
    have hm2 : (999 / 1000 : ℝ) ≤ pa := cbrtR_ge a _ (by norm_num) (by norm_num; linarith)
    have hp := cube_pert pa q (999 / 1000) (by norm_num) hm2 hm1
    rw [hpa3, hq3] at hp
    have hd : |pa - q| ≤ 31 / 100000000 := by
      refine le_trans hp ?_
      rw [div_le_iff₀ (by norm_num)]
      refine le_trans habs ?_
      nlinarith [hv.2]
    have hpahi : pa ≤ 16 / 10 := cbrtR_le a _ (by norm_num) (by norm_num; linarith [hv.2])
    have hs : |toReal (stage B vh) - pa| ≤ 6 / 100000000 * (16 / 10) := by
      refine le_trans es ?_
      rw [hu]; nlinarith
    have t := abs_sub_le (toReal (stage B vh)) pa q
    refine ⟨fs, by linarith, ?_⟩
    have := abs_sub_abs_le_abs_sub (toReal (stage B vh)) pa
    rw [abs_of_nonneg hpa0] at this
    linarith

/-- regime C: a mix of at most -1/1000 is clamped -/
theorem chan_neg (B : Build) (hB : B.fastmath = true) (vh : Nat) (hf : Finite vh) (v : ℝ)
    (hv : v ≤ -1 / 1000 ∧ -402 / 100 ≤ v) (herr : |toReal vh - v| ≤ 21 / 100000000 + 61 / 1000000000 * (35 / 10 + 2 * |v|)) :
    Finite (stage B vh) ∧ |toReal (stage B vh) - cbrtR v| ≤ 141 / 100000000 ∧ |toReal (stage B vh)| ≤ 161 / 100 := by
  have hvneg : v < 0 := by linarith [hv.1]
  rw [abs_of_neg hvneg] at herr
  obtain ⟨e1, e2⟩ := abs_le.mp herr
  have hneg : toReal vh < 0 := by linarith [hv.1, hv.2]
  obtain ⟨fs, es⟩ := stage_neg B hB vh hf hneg
  rw [cbrtR_nonpos v hvneg.le, sub_zero]
  exact ⟨fs, le_trans es (by norm_num), le_trans es (by norm_num)⟩

end Xyb
