import Proofs.F32Ops
/-! Rounding at and above the top binade of binary32: values of magnitude at least `2^128` round to infinity, values in
`[2^127, 2^128)` round either to a finite float (usual error bound) or up to infinity. Complements `round_val`/`mul_val`,
which stop below `2^127`. -/
namespace F32
open Real

/-- a dyadic whose leading bit is at or above `2^128` rounds to infinity -/
theorem roundPack_over (n : Bool) (m : Nat) (e : Int) (hm : m ≠ 0)
    (h : 129 ≤ e + ((Nat.log2 m + 1 : Nat) : Int)) : roundPack n m e = infB n := by
  unfold roundPack
  simp only [hm, if_false]
  have hq := roundMQ_q m e
  generalize (roundMQ m e).1 = mant at *
  generalize (roundMQ m e).2 = q at *
  have hq105 : 105 ≤ q := by omega
  unfold encode infB
  simp only [consts.2.2.2.2.2.2.1, consts.2.1, consts.2.2.2.2.1, consts.2.2.2.2.2.1, consts.2.2.2.1]
  have h1 : q + 1 + ((23:Nat):Int) > 127 := by omega
  have h2 : q + ((23:Nat):Int) > 127 := by omega
  split <;> rfl

/-- below `2^128`: the usual finite rounding, or a round-up to infinity -/
theorem roundPack_top (n : Bool) (m : Nat) (e : Int) (hm : m ≠ 0)
    (hfit : e + ((Nat.log2 m + 1 : Nat) : Int) ≤ 128) :
    roundPack n m e = infB n ∨ ∃ m' e', decode (roundPack n m e) = .fin n m' e' ∧
      |(m':ℝ) * (2:ℝ)^e' - (m:ℝ) * (2:ℝ)^e| ≤ (2:ℝ)^(-24:ℤ) * ((m:ℝ) * (2:ℝ)^e) + (2:ℝ)^(-150:ℤ) := by
  by_cases hlow : e + ((Nat.log2 m + 1 : Nat) : Int) ≤ 127
  · exact Or.inr (roundPack_val n m e hm hlow)
  unfold roundPack
  simp only [hm, if_false]
  have hval := roundMQ_val m e hm
  obtain ⟨w1, w2, w3⟩ := roundMQ_wf m e hm
  have hq := roundMQ_q m e
  generalize (roundMQ m e).1 = mant at *
  generalize (roundMQ m e).2 = q at *
  have hq104 : q = 104 := by omega
  subst hq104
  by_cases hc : mant = 16777216
  · left
    unfold encode infB
    simp only [consts.2.2.2.2.2.2.1, consts.2.1, consts.2.2.2.2.1, consts.2.2.2.2.2.1, consts.2.2.2.1]
    rw [if_pos hc, if_pos (by omega)]
  · right
    by_cases hs : mant < 8388608
    · have := w3 hs; omega
    · exact ⟨mant, 104, decode_encode_normal n mant 104 (by omega) (by omega) (by omega) (by omega), hval⟩

/-- the position of the leading bit from a real lower bound -/
theorem lead_of_ge (m : Nat) (e k : Int) (h : (2:ℝ)^k ≤ (m:ℝ) * (2:ℝ)^e) : k + 1 ≤ e + ((Nat.log2 m + 1 : Nat) : Int) := by
  have h2e : (0:ℝ) < (2:ℝ)^e := by positivity
  have hlt : (m:ℝ) < (2:ℝ)^(Nat.log2 m + 1) := by exact_mod_cast (Nat.lt_log2_self (n := m))
  have : (2:ℝ)^k < (2:ℝ)^(Nat.log2 m + 1) * (2:ℝ)^e := lt_of_le_of_lt h (mul_lt_mul_of_pos_right hlt h2e)
  rw [← zpow_natCast, ← zpow_add₀ (by norm_num : (2:ℝ) ≠ 0)] at this
  have := (zpow_lt_zpow_iff_right₀ (by norm_num : (1:ℝ) < 2)).mp this
  push_cast at this ⊢; omega

/-- the position of the leading bit from a real upper bound -/
theorem lead_of_lt (m : Nat) (e k : Int) (hm : m ≠ 0) (h : (m:ℝ) * (2:ℝ)^e < (2:ℝ)^k) : e + ((Nat.log2 m + 1 : Nat) : Int) ≤ k := by
  obtain ⟨hlo, _⟩ := log2_bounds m hm
  have hlog : (2:ℝ)^(Nat.log2 m) ≤ m := by exact_mod_cast hlo
  have h2e : (0:ℝ) < (2:ℝ)^e := by positivity
  have : (2:ℝ)^(Nat.log2 m) * (2:ℝ)^e < (2:ℝ)^k := lt_of_le_of_lt (mul_le_mul_of_nonneg_right hlog h2e.le) h
  rw [← zpow_natCast, ← zpow_add₀ (by norm_num : (2:ℝ) ≠ 0)] at this
  have := (zpow_lt_zpow_iff_right₀ (by norm_num : (1:ℝ) < 2)).mp this
  push_cast; omega

/-- a finite float with a positive value: positive sign, non-zero significand -/
theorem pos_decode (a : Nat) (ha : Finite a) (h : 0 < toReal a) : ∃ m e, decode a = .fin false m e ∧ m ≠ 0 := by
  obtain ⟨n, m, e, hd⟩ := ha
  rw [toReal_of_decode _ _ _ _ hd] at h
  have h2e : (0:ℝ) < (2:ℝ)^e := by positivity
  have hm0 : (0:ℝ) ≤ (m:ℝ) := Nat.cast_nonneg m
  cases n with
  | true =>
    exfalso; unfold valR at h; simp only [if_true] at h
    have : 0 ≤ (m:ℝ) * (2:ℝ)^e := by positivity
    linarith
  | false =>
    refine ⟨m, e, hd, ?_⟩
    intro hm; subst hm; rw [valR_zero] at h; exact lt_irrefl _ h

theorem decode_infB (n : Bool) : decode (infB n) = .inf n := by cases n <;> decide +kernel

/-- **overflow of a product of positive floats** -/
theorem mul_over_pos (a b : Nat) (ha : Finite a) (hb : Finite b) (ha0 : 0 < toReal a) (hb0 : 0 < toReal b)
    (h : (2:ℝ)^(128:ℤ) ≤ toReal a * toReal b) : mul a b = infB false := by
  obtain ⟨m1, e1, h1, hm1⟩ := pos_decode a ha ha0
  obtain ⟨m2, e2, h2, hm2⟩ := pos_decode b hb hb0
  have hmul : mul a b = roundPack false (m1*m2) (e1+e2) := by simp [mul, h1, h2]
  rw [hmul]
  have hz : m1 * m2 ≠ 0 := Nat.mul_ne_zero hm1 hm2
  apply roundPack_over false _ _ hz
  have hprod : toReal a * toReal b = ((m1*m2 : ℕ):ℝ) * (2:ℝ)^(e1+e2) := by
    rw [toReal_of_decode _ _ _ _ h1, toReal_of_decode _ _ _ _ h2]
    unfold valR; rw [zpow_add₀ (by norm_num : (2:ℝ) ≠ 0)]; push_cast; simp; ring
  rw [hprod] at h
  have := lead_of_ge (m1*m2) (e1+e2) 128 h
  omega

/-- **a product of positive floats below `2^128`**: infinity or the usual rounding -/
theorem mul_top_pos (a b : Nat) (ha : Finite a) (hb : Finite b) (ha0 : 0 < toReal a) (hb0 : 0 < toReal b)
    (h : toReal a * toReal b < (2:ℝ)^(128:ℤ)) :
    mul a b = infB false ∨ (Finite (mul a b) ∧ |toReal (mul a b) - toReal a * toReal b| ≤ u * (toReal a * toReal b) + eta) := by
  obtain ⟨m1, e1, h1, hm1⟩ := pos_decode a ha ha0
  obtain ⟨m2, e2, h2, hm2⟩ := pos_decode b hb hb0
  have hmul : mul a b = roundPack false (m1*m2) (e1+e2) := by simp [mul, h1, h2]
  have hz : m1 * m2 ≠ 0 := Nat.mul_ne_zero hm1 hm2
  have hprod : toReal a * toReal b = ((m1*m2 : ℕ):ℝ) * (2:ℝ)^(e1+e2) := by
    rw [toReal_of_decode _ _ _ _ h1, toReal_of_decode _ _ _ _ h2]
    unfold valR; rw [zpow_add₀ (by norm_num : (2:ℝ) ≠ 0)]; push_cast; simp; ring
  rw [hprod] at h
  have hfit := lead_of_lt (m1*m2) (e1+e2) 128 hz h
  rcases roundPack_top false (m1*m2) (e1+e2) hz hfit with hinf | ⟨m', e', hdec, hval⟩
  · left; rw [hmul, hinf]
  · right
    refine ⟨⟨_, _, _, by rw [hmul]; exact hdec⟩, ?_⟩
    have ht : toReal (mul a b) = (m':ℝ) * (2:ℝ)^e' := by
      rw [toReal_of_decode _ _ _ _ (by rw [hmul]; exact hdec)]; unfold valR; simp
    rw [ht, hprod]
    unfold u eta
    exact hval

/-- infinity times a positive finite float -/
theorem mul_inf_pos (b : Nat) (hb : Finite b) (hb0 : 0 < toReal b) : mul (infB false) b = infB false := by
  obtain ⟨m2, e2, h2, hm2⟩ := pos_decode b hb hb0
  unfold mul
  rw [decode_infB, h2]
  simp [hm2]

end F32
