import Proofs.F32Odd
import Proofs.F64Odd
import Proofs.F64MonoOps
import Model.Math
/-! `cbrtf_fast` is odd, bit for bit: flipping the sign bit of the argument flips the sign bit of the result (or both results
are the canonical NaN, which does not happen for finite arguments - see `Props/C18.lean`). Structural proof: the seed keeps
the sign bit, the conversions and every binary64 operation of the two Newton steps are sign-symmetric (`Proofs/F32Odd.lean`
and its generated binary64 instance), and all sums add terms of the same sign, so no exact cancellation to `+0` occurs. -/
namespace CbrtOdd
open MathM

theorem f32to64_opp (x : Nat) (hx : F32.WF x) : F64.Opp (Conv.f32to64 (F32.neg x)) (Conv.f32to64 x) := by
  unfold Conv.f32to64
  rw [F32.decode_neg x hx]
  cases F32.decode x with
  | nan => exact F64.opp_qnan
  | inf n => left; exact F64.infB_not n
  | fin n m e => left; exact F64.roundPack_not n m e

theorem f32to64_sgn (x : Nat) : F64.Sgn (decide ((x / 2147483648) % 2 = 1)) (Conv.f32to64 x) := by
  unfold Conv.f32to64
  have hs := F32.decode_sign x
  cases hd : F32.decode x with
  | nan => exact F64.sgn_qnan _
  | inf n => rw [hs.2 n hd]; exact F64.sgn_infB _
  | fin n m e => rw [hs.1 n m e hd]; exact F64.sgn_roundPack _ _ _

theorem f32to64_wf (x : Nat) : F64.WF (Conv.f32to64 x) := by
  unfold Conv.f32to64
  split
  · exact F64.qnan_wf
  · exact F64.infB_wf _
  · exact F64.roundPack_wf _ _ _

theorem f64to32_opp (t' t : Nat) (ht : F64.WF t) (h : F64.Opp t' t) : F32.Opp (Conv.f64to32 t') (Conv.f64to32 t) := by
  rcases h with rfl | ⟨rfl, rfl⟩
  · unfold Conv.f64to32
    rw [F64.decode_neg t ht]
    cases F64.decode t with
    | nan => exact F32.opp_qnan
    | inf n => left; exact F32.infB_not n
    | fin n m e => left; exact F32.roundPack_not n m e
  · unfold Conv.f64to32
    rw [F64.decode_qnan]
    exact F32.opp_qnan

/-- one Newton step of `cbrtf_fast` -/
def step (xd t : Nat) : Nat :=
  let r := F64.mul (F64.mul t t) t
  F64.div (F64.mul t (F64.add (F64.add xd xd) r)) (F64.add (F64.add xd r) r)

theorem cbrtfFast_step (x : Nat) :
    cbrtfFast x = Conv.f64to32 (step (Conv.f32to64 x) (step (Conv.f32to64 x)
      (Conv.f32to64 ((x / 2147483648 % 2) * 2147483648 + ((x % 2147483648) / C.cbrtf_fast_i1 + C.cbrtf_fast_B1_i0))))) := rfl

theorem step_opp (n : Bool) (xd' xd t' t : Nat) (hxw : F64.WF xd) (htw : F64.WF t) (hx : F64.Opp xd' xd) (ht : F64.Opp t' t)
    (sx : F64.Sgn n xd) (st : F64.Sgn n t) :
    F64.Opp (step xd' t') (step xd t) ∧ F64.WF (step xd t) ∧ F64.Sgn n (step xd t) := by
  unfold step
  dsimp only
  -- t*t is even, r = (t*t)*t is odd with the sign of t
  have htt : F64.mul t' t' = F64.mul t t := F64.opp_mul_even t' t t' t htw htw ht ht
  have stt : F64.Sgn false (F64.mul t t) := by have := F64.sgn_mul n n t t st st; simpa using this
  have hr : F64.Opp (F64.mul (F64.mul t' t') t') (F64.mul (F64.mul t t) t) := by
    rw [htt]; exact F64.opp_mul_r _ t' t htw ht
  have sr : F64.Sgn n (F64.mul (F64.mul t t) t) := by have := F64.sgn_mul false n _ t stt st; simpa using this
  have wr : F64.WF (F64.mul (F64.mul t t) t) := F64.mul_wf _ _
  -- numerator
  have hs1 := F64.opp_add n xd' xd xd' xd hxw hxw sx sx hx hx
  have ss1 := F64.sgn_add n xd xd sx sx
  have ws1 : F64.WF (F64.add xd xd) := F64.add_wf _ _
  have hs2 := F64.opp_add n _ _ _ _ ws1 wr ss1 sr hs1 hr
  have ss2 := F64.sgn_add n _ _ ss1 sr
  have ws2 : F64.WF (F64.add (F64.add xd xd) (F64.mul (F64.mul t t) t)) := F64.add_wf _ _
  have hN := F64.opp_mul_even t' t _ _ htw ws2 ht hs2
  have sN : F64.Sgn false (F64.mul t (F64.add (F64.add xd xd) (F64.mul (F64.mul t t) t))) := by
    have := F64.sgn_mul n n _ _ st ss2; simpa using this
  -- denominator
  have hd1 := F64.opp_add n xd' xd _ _ hxw wr sx sr hx hr
  have sd1 := F64.sgn_add n _ _ sx sr
  have wd1 : F64.WF (F64.add xd (F64.mul (F64.mul t t) t)) := F64.add_wf _ _
  have hD := F64.opp_add n _ _ _ _ wd1 wr sd1 sr hd1 hr
  have sD := F64.sgn_add n _ _ sd1 sr
  have wD : F64.WF (F64.add (F64.add xd (F64.mul (F64.mul t t) t)) (F64.mul (F64.mul t t) t)) := F64.add_wf _ _
  refine ⟨?_, F64.div_wf _ _, ?_⟩
  · rw [hN]; exact F64.opp_div_r _ _ _ wD hD
  · have := F64.sgn_quot false n _ _ sN sD; simpa using this

theorem sm_fields (s r : Nat) (hs : s ≤ 1) (hr : r < 2147483648) :
    (s * 2147483648 + r) / 2147483648 % 2 = s ∧ (s * 2147483648 + r) % 2147483648 = r := by omega

theorem neg_sm (s q : Nat) (hs : s ≤ 1) (hq : q < 2147483648) : F32.neg (s * 2147483648 + q) = (1 - s) * 2147483648 + q := by
  unfold F32.neg
  simp only [F32.consts.2.2.2.2.2.2.2.1]
  split <;> omega

/-- the seed keeps the sign bit -/
theorem seed_neg (x : Nat) (hx : x < 4294967296) :
    ((F32.neg x) / 2147483648 % 2) * 2147483648 + (((F32.neg x) % 2147483648) / C.cbrtf_fast_i1 + C.cbrtf_fast_B1_i0) =
      F32.neg ((x / 2147483648 % 2) * 2147483648 + ((x % 2147483648) / C.cbrtf_fast_i1 + C.cbrtf_fast_B1_i0)) ∧
    (x / 2147483648 % 2) * 2147483648 + ((x % 2147483648) / C.cbrtf_fast_i1 + C.cbrtf_fast_B1_i0) < 4294967296 ∧
    ((x / 2147483648 % 2) * 2147483648 + ((x % 2147483648) / C.cbrtf_fast_i1 + C.cbrtf_fast_B1_i0)) / 2147483648 % 2 = x / 2147483648 % 2 := by
  have h1 : C.cbrtf_fast_i1 = 3 := rfl
  have h2 : C.cbrtf_fast_B1_i0 = 709958130 := rfl
  rw [h1, h2]
  clear h1 h2
  have hs : x / 2147483648 % 2 ≤ 1 := by omega
  have hr : x % 2147483648 < 2147483648 := by omega
  have hxe : x / 2147483648 % 2 * 2147483648 + x % 2147483648 = x := by omega
  obtain ⟨f1, f2⟩ := sm_fields (1 - x / 2147483648 % 2) (x % 2147483648) (by omega) hr
  have hlt : x / 2147483648 % 2 * 2147483648 + (x % 2147483648 / 3 + 709958130) < 4294967296 := by clear f1 f2; omega
  have hq : x % 2147483648 / 3 + 709958130 < 2147483648 := by clear hlt; omega
  obtain ⟨g1, _⟩ := sm_fields (x / 2147483648 % 2) (x % 2147483648 / 3 + 709958130) hs hq
  have hnx : F32.neg x = (1 - x / 2147483648 % 2) * 2147483648 + x % 2147483648 := by
    have := neg_sm (x / 2147483648 % 2) (x % 2147483648) hs hr
    rwa [hxe] at this
  refine ⟨?_, hlt, g1⟩
  rw [hnx, f1, f2, neg_sm _ _ hs hq]

/-- **`cbrtf_fast` is odd, bit for bit** (or both results are the canonical NaN) -/
theorem cbrtfFast_opp (x : Nat) (hx : x < 4294967296) : F32.Opp (cbrtfFast (F32.neg x)) (cbrtfFast x) := by
  rw [cbrtfFast_step, cbrtfFast_step]
  obtain ⟨hseed, hsw, hss⟩ := seed_neg x hx
  rw [hseed]
  set ui := (x / 2147483648 % 2) * 2147483648 + ((x % 2147483648) / C.cbrtf_fast_i1 + C.cbrtf_fast_B1_i0) with hui
  set n := decide ((x / 2147483648) % 2 = 1) with hn
  have sx : F64.Sgn n (Conv.f32to64 x) := f32to64_sgn x
  have st : F64.Sgn n (Conv.f32to64 ui) := by
    have := f32to64_sgn ui
    rw [hss] at this; exact this
  have ox := f32to64_opp x hx
  have ot := f32to64_opp ui hsw
  obtain ⟨o1, w1, s1⟩ := step_opp n _ _ _ _ (f32to64_wf x) (f32to64_wf ui) ox ot sx st
  obtain ⟨o2, w2, _⟩ := step_opp n _ _ _ _ (f32to64_wf x) w1 ox o1 sx s1
  exact f64to32_opp _ _ w2 o2

end CbrtOdd
