import Proofs.F32Rel
import Model.Pixel
/-! Rounding analysis of one row of `opsin_absorbance` (three nested always-fused `mul_add`s):
* `row_rel`: for non-negative pixels every term has the same sign, so the computed mix is within RELATIVE 4.2e-7 of the exact one;
* `row_abs`: for pixels of either sign with components of magnitude at most 4, an ABSOLUTE bound that depends on the size of the
  result (roundings are relative to the partial sums, which are controlled by the result and the first term). -/
namespace Xyb
open F32 Real

/-- one row of the opsin mix as the model computes it -/
def row (k0 k1 k2 kb : Nat) (p : Mat32.V3) : Nat := F32.fma k0 p.x (F32.fma k1 p.y (F32.fma k2 p.z kb))

theorem win_of (v : ℝ) (h1 : 1 / 1000 ≤ |v|) (h2 : |v| ≤ 1000) : Win v := by
  unfold Win
  have a : (2:ℝ) ^ (-100:ℤ) ≤ 1 / 1000 := by
    have : (2:ℝ) ^ (-100:ℤ) ≤ (2:ℝ) ^ (-10:ℤ) := zpow_le_zpow_right₀ (by norm_num) (by norm_num)
    exact le_trans this (by norm_num)
  have b : (1000:ℝ) ≤ (2:ℝ) ^ (100:ℤ) := by
    have : (2:ℝ) ^ (10:ℤ) ≤ (2:ℝ) ^ (100:ℤ) := zpow_le_zpow_right₀ (by norm_num) (by norm_num)
    exact le_trans (by norm_num) this
  exact ⟨le_trans a h1, le_trans h2 b⟩

/-- the exact mix -/
noncomputable def mixR (K0 K1 K2 Kb x y z : ℝ) : ℝ := K0 * x + (K1 * y + (K2 * z + Kb))

/-- relative analysis for non-negative pixels -/
theorem row_rel (k0 k1 k2 kb : Nat) (p : Mat32.V3) (K0 K1 K2 Kb : ℝ)
    (h0 : Apx k0 K0 (1 / 20000000)) (h1 : Apx k1 K1 (1 / 20000000)) (h2 : Apx k2 K2 (1 / 20000000)) (hb : Apx kb Kb (1 / 20000000))
    (hK0 : 0 < K0 ∧ K0 ≤ 1) (hK1 : 0 < K1 ∧ K1 ≤ 1) (hK2 : 0 < K2 ∧ K2 ≤ 1) (hKb : 37 / 10000 ≤ Kb ∧ Kb ≤ 4 / 1000)
    (fx : Finite p.x) (fy : Finite p.y) (fz : Finite p.z)
    (hx : 0 ≤ toReal p.x ∧ toReal p.x ≤ 4) (hy : 0 ≤ toReal p.y ∧ toReal p.y ≤ 4) (hz : 0 ≤ toReal p.z ∧ toReal p.z ≤ 4) :
    Apx (row k0 k1 k2 kb p) (mixR K0 K1 K2 Kb (toReal p.x) (toReal p.y) (toReal p.z)) (42 / 100000000) := by
  have huv := u_val
  set x := toReal p.x; set y := toReal p.y; set z := toReal p.z
  have ax : Apx p.x x 0 := apx_exact _ fx
  have ay : Apx p.y y 0 := apx_exact _ fy
  have az : Apx p.z z 0 := apx_exact _ fz
  have v1lo : 37 / 10000 ≤ K2 * z + Kb := by nlinarith [mul_nonneg hK2.1.le hz.1]
  have v1hi : K2 * z + Kb ≤ 5 := by nlinarith [mul_le_mul hK2.2 hz.2 hz.1 (by norm_num : (0:ℝ) ≤ 1)]
  have v2lo : 37 / 10000 ≤ K1 * y + (K2 * z + Kb) := by nlinarith [mul_nonneg hK1.1.le hy.1]
  have v2hi : K1 * y + (K2 * z + Kb) ≤ 9 := by nlinarith [mul_le_mul hK1.2 hy.2 hy.1 (by norm_num : (0:ℝ) ≤ 1)]
  have v3lo : 37 / 10000 ≤ K0 * x + (K1 * y + (K2 * z + Kb)) := by nlinarith [mul_nonneg hK0.1.le hx.1]
  have v3hi : K0 * x + (K1 * y + (K2 * z + Kb)) ≤ 13 := by nlinarith [mul_le_mul hK0.2 hx.2 hx.1 (by norm_num : (0:ℝ) ≤ 1)]
  have w1 : Win (K2 * z + Kb) := win_of _ (by rw [abs_of_pos (by linarith)]; linarith) (by rw [abs_of_pos (by linarith)]; linarith)
  have w2 : Win (K1 * y + (K2 * z + Kb)) := win_of _ (by rw [abs_of_pos (by linarith)]; linarith) (by rw [abs_of_pos (by linarith)]; linarith)
  have w3 : Win (K0 * x + (K1 * y + (K2 * z + Kb))) := win_of _ (by rw [abs_of_pos (by linarith)]; linarith) (by rw [abs_of_pos (by linarith)]; linarith)
  have a1 := apx_mono (fma_apx k2 p.z kb K2 z Kb (1 / 20000000) 0 (1 / 20000000) (1 / 20000000) h2 az hb (by norm_num) (le_refl _) (by norm_num)
    (by norm_num) (le_refl _) (by norm_num) (mul_nonneg (mul_nonneg hK2.1.le hz.1) (by linarith)) w1) (show _ ≤ (18 / 100000000 : ℝ) by rw [huv]; norm_num)
  have a2 := apx_mono (fma_apx k1 p.y _ K1 y (K2 * z + Kb) (1 / 20000000) 0 (18 / 100000000) (18 / 100000000) h1 ay a1 (by norm_num) (le_refl _) (by norm_num)
    (by norm_num) (le_refl _) (by norm_num) (mul_nonneg (mul_nonneg hK1.1.le hy.1) (by linarith)) w2) (show _ ≤ (30 / 100000000 : ℝ) by rw [huv]; norm_num)
  have a3 := apx_mono (fma_apx k0 p.x _ K0 x (K1 * y + (K2 * z + Kb)) (1 / 20000000) 0 (30 / 100000000) (30 / 100000000) h0 ax a2 (by norm_num) (le_refl _) (by norm_num)
    (by norm_num) (le_refl _) (by norm_num) (mul_nonneg (mul_nonneg hK0.1.le hx.1) (by linarith)) w3) (show _ ≤ (42 / 100000000 : ℝ) by rw [huv]; norm_num)
  exact a3

set_option maxHeartbeats 1000000 in
/-- absolute analysis for pixels of either sign (components of magnitude at most 4) -/
theorem row_abs (k0 k1 k2 kb : Nat) (p : Mat32.V3) (K0 K1 K2 Kb : ℝ)
    (h0 : Apx k0 K0 (1 / 20000000)) (h1 : Apx k1 K1 (1 / 20000000)) (h2 : Apx k2 K2 (1 / 20000000)) (hb : Apx kb Kb (1 / 20000000))
    (hK0 : 0 < K0 ∧ K0 ≤ 31 / 100) (hK1 : 0 < K1) (hK2 : 0 < K2 ∧ K2 ≤ 56 / 100) (hsum : K0 + K1 + K2 ≤ 1) (hKb : 0 ≤ Kb ∧ Kb ≤ 4 / 1000)
    (fx : Finite p.x) (fy : Finite p.y) (fz : Finite p.z)
    (hx : |toReal p.x| ≤ 4) (hy : |toReal p.y| ≤ 4) (hz : |toReal p.z| ≤ 4) :
    Finite (row k0 k1 k2 kb p) ∧
    |toReal (row k0 k1 k2 kb p) - mixR K0 K1 K2 Kb (toReal p.x) (toReal p.y) (toReal p.z)| ≤
      21 / 100000000 + 61 / 1000000000 * (35 / 10 + 2 * |mixR K0 K1 K2 Kb (toReal p.x) (toReal p.y) (toReal p.z)|) := by
  have huv := u_val
  have heta := eta_le
  have heta0 := eta_pos
  set x := toReal p.x; set y := toReal p.y; set z := toReal p.z
  set v := mixR K0 K1 K2 Kb x y z with hv
  have hK1le : K1 ≤ 1 := by linarith
  have hK0p : 0 < K0 := hK0.1
  have hK2p : 0 < K2 := hK2.1
  -- constants
  have e0 := h0.2; have e1 := h1.2; have e2 := h2.2; have eb := hb.2
  rw [abs_of_pos hK0.1] at e0; rw [abs_of_pos hK1] at e1; rw [abs_of_pos hK2.1] at e2; rw [abs_of_nonneg hKb.1] at eb
  have ab0 : |toReal k0| ≤ 311 / 1000 := by have := abs_sub_abs_le_abs_sub (toReal k0) K0; rw [abs_of_pos hK0.1] at this; nlinarith
  have ab1 : |toReal k1| ≤ 1001 / 1000 := by have := abs_sub_abs_le_abs_sub (toReal k1) K1; rw [abs_of_pos hK1] at this; nlinarith
  have ab2 : |toReal k2| ≤ 5601 / 10000 := by have := abs_sub_abs_le_abs_sub (toReal k2) K2; rw [abs_of_pos hK2.1] at this; nlinarith
  have abb : |toReal kb| ≤ 41 / 10000 := by have := abs_sub_abs_le_abs_sub (toReal kb) Kb; rw [abs_of_nonneg hKb.1] at this; nlinarith
  -- first fma
  have hz1 : |toReal k2 * z + toReal kb| ≤ 22445 / 10000 := by
    have := abs_add_le (toReal k2 * z) (toReal kb)
    have : |toReal k2 * z| ≤ 5601 / 10000 * 4 := by rw [abs_mul]; exact mul_le_mul ab2 hz (abs_nonneg _) (by norm_num)
    linarith
  obtain ⟨f1, r1⟩ := fma_val k2 p.z kb h2.1 fz hb.1 (fit_small _ (by linarith))
  set T1 := toReal (F32.fma k2 p.z kb) with hT1
  have r1' : |T1 - (toReal k2 * z + toReal kb)| ≤ 14 / 100000000 := by
    have := mul_le_mul_of_nonneg_left hz1 u_pos.le
    rw [huv] at this r1; linarith
  have hT1abs : |T1| ≤ 2245 / 1000 := by
    have := abs_sub_abs_le_abs_sub T1 (toReal k2 * z + toReal kb); linarith
  -- second fma
  have hz2 : |toReal k1 * y + T1| ≤ 63 / 10 := by
    have := abs_add_le (toReal k1 * y) T1
    have : |toReal k1 * y| ≤ 1001 / 1000 * 4 := by rw [abs_mul]; exact mul_le_mul ab1 hy (abs_nonneg _) (by norm_num)
    linarith
  obtain ⟨f2, r2⟩ := fma_val k1 p.y _ h1.1 fy f1 (fit_small _ (by linarith))
  set T2 := toReal (F32.fma k1 p.y (F32.fma k2 p.z kb)) with hT2
  have r2c : |T2 - (toReal k1 * y + T1)| ≤ 38 / 100000000 := by
    have := mul_le_mul_of_nonneg_left hz2 u_pos.le
    rw [huv] at this r2; linarith
  have hT2abs : |T2| ≤ 64 / 10 := by
    have := abs_sub_abs_le_abs_sub T2 (toReal k1 * y + T1); linarith
  -- third fma
  have hk0x : |toReal k0 * x| ≤ 311 / 1000 * 4 := by rw [abs_mul]; exact mul_le_mul ab0 hx (abs_nonneg _) (by norm_num)
  have hz3 : |toReal k0 * x + T2| ≤ 77 / 10 := by
    have := abs_add_le (toReal k0 * x) T2; linarith
  obtain ⟨f3, r3⟩ := fma_val k0 p.x _ h0.1 fx f2 (fit_small _ (by linarith))
  set V := toReal (F32.fma k0 p.x (F32.fma k1 p.y (F32.fma k2 p.z kb))) with hV
  -- constant errors
  have c0 : |(toReal k0 - K0) * x| ≤ 1 / 20000000 * K0 * 4 := by rw [abs_mul]; exact mul_le_mul e0 hx (abs_nonneg _) (by positivity)
  have c1 : |(toReal k1 - K1) * y| ≤ 1 / 20000000 * K1 * 4 := by rw [abs_mul]; exact mul_le_mul e1 hy (abs_nonneg _) (by positivity)
  have c2 : |(toReal k2 - K2) * z| ≤ 1 / 20000000 * K2 * 4 := by rw [abs_mul]; exact mul_le_mul e2 hz (abs_nonneg _) (by positivity)
  -- z3 - v
  have hid : (toReal k0 * x + T2) - v = (toReal k0 - K0) * x + (T2 - (toReal k1 * y + T1)) + (toReal k1 - K1) * y + (T1 - (toReal k2 * z + toReal kb))
      + (toReal k2 - K2) * z + (toReal kb - Kb) := by rw [hv]; unfold mixR; ring
  have tri6 : ∀ a b c d e f : ℝ, |a + b + c + d + e + f| ≤ |a| + |b| + |c| + |d| + |e| + |f| := by
    intro a b c d e f
    have h1 := abs_add_le (a + b + c + d + e) f
    have h2 := abs_add_le (a + b + c + d) e
    have h3 := abs_add_le (a + b + c) d
    have h4 := abs_add_le (a + b) c
    have h5 := abs_add_le a b
    linarith
  have hz3v : |(toReal k0 * x + T2) - v| ≤ 1 / 20000000 * 4004 / 1000 + |T2 - (toReal k1 * y + T1)| + 14 / 100000000 := by
    rw [hid]
    have := tri6 ((toReal k0 - K0) * x) (T2 - (toReal k1 * y + T1)) ((toReal k1 - K1) * y) (T1 - (toReal k2 * z + toReal kb)) ((toReal k2 - K2) * z) (toReal kb - Kb)
    nlinarith
  have hz3abs : |toReal k0 * x + T2| ≤ |v| + 73 / 100000000 := by
    have := abs_sub_abs_le_abs_sub (toReal k0 * x + T2) v; linarith
  -- refined bound on the second partial sum
  have hz2r : |toReal k1 * y + T1| ≤ |v| + 12440013 / 10000000 := by
    have e : toReal k1 * y + T1 = (toReal k0 * x + T2) - toReal k0 * x - (T2 - (toReal k1 * y + T1)) := by ring
    rw [e]
    have h1 := abs_sub ((toReal k0 * x + T2) - toReal k0 * x) (T2 - (toReal k1 * y + T1))
    have h2 := abs_sub (toReal k0 * x + T2) (toReal k0 * x)
    linarith
  have r2f : |T2 - (toReal k1 * y + T1)| ≤ u * (|v| + 12440013 / 10000000) + eta :=
    le_trans r2 (by have := mul_le_mul_of_nonneg_left hz2r u_pos.le; linarith)
  have r3f : |V - (toReal k0 * x + T2)| ≤ u * (|v| + 73 / 100000000) + eta :=
    le_trans r3 (by have := mul_le_mul_of_nonneg_left hz3abs u_pos.le; linarith)
  refine ⟨f3, ?_⟩
  show |V - v| ≤ _
  have tri : |V - v| ≤ |V - (toReal k0 * x + T2)| + |(toReal k0 * x + T2) - v| := abs_sub_le _ _ _
  have hv0 := abs_nonneg v
  rw [huv] at r2f r3f
  nlinarith

end Xyb
