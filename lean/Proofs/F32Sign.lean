import Proofs.F32Div
/-! The sign of a rounded result is the sign it was given (including zeros); consequence: a quotient of a non-negative finite value
by a positive one is non-negative, exactly (not only up to the absolute error term). Binary64 instance generated. -/
namespace F32
open Real

theorem roundPack_low (n : Bool) (m : Nat) (e : Int) : ∃ X, X < 2147483648 ∧ roundPack n m e = signBit n + X := by
  unfold roundPack
  split
  · exact ⟨0, by norm_num, rfl⟩
  · rename_i hm
    dsimp only
    obtain ⟨w1, w2, w3⟩ := roundMQ_wf m e hm
    generalize (roundMQ m e).1 = mant at *
    generalize (roundMQ m e).2 = q at *
    unfold encode
    simp only [consts.2.2.2.2.2.2.1, consts.2.2.1, consts.2.2.2.2.1, consts.2.2.2.1, consts.2.2.2.2.2.1, consts.2.2.2.2.2.2.2.2, consts.2.1]
    split
    · split
      · exact ⟨2139095040, by norm_num, rfl⟩
      · rename_i h1
        have : (q + 1 - -149 + 1).toNat ≤ 254 := by omega
        have := Nat.mul_le_mul_right 8388608 this
        exact ⟨_, by omega, rfl⟩
    · split
      · exact ⟨2139095040, by norm_num, rfl⟩
      · split
        · exact ⟨mant, by omega, rfl⟩
        · rename_i h1 h2 h3
          have : (q - -149 + 1).toNat ≤ 254 := by omega
          have := Nat.mul_le_mul_right 8388608 this
          exact ⟨(q - -149 + 1).toNat * 8388608 + (mant - 8388608), by omega, by omega⟩

/-- the decoded sign of a packed result is the sign passed to `roundPack` -/
theorem roundPack_sgn (n : Bool) (m : Nat) (e : Int) (s : Bool) (m' : Nat) (e' : Int) (h : decode (roundPack n m e) = .fin s m' e') : s = n := by
  obtain ⟨X, hX, hrp⟩ := roundPack_low n m e
  rw [hrp, signBit_eq] at h
  obtain ⟨k, f, hk, hf, hXe⟩ : ∃ k f, k < 256 ∧ f < 8388608 ∧ X = k * 8388608 + f := ⟨X / 8388608, X % 8388608, by omega, by omega, by omega⟩
  have hbits : (if n then 1 else 0) * 2147483648 + X = (if n then 1 else 0) * 2147483648 + k * 8388608 + f := by omega
  rw [hbits, decode_pack (if n then 1 else 0) k f (by cases n <;> simp) hk hf] at h
  have hdn : decide ((if n then 1 else 0 : Nat) = 1) = n := by cases n <;> simp
  rw [hdn] at h
  split at h
  · split at h <;> cases h
  · split at h
    · injection h with hs _ _; exact hs.symm
    · injection h with hs _ _; exact hs.symm

/-- a non-negative real quotient gives a non-negative computed quotient -/
theorem div_nonneg_val (a b : Nat) (ha : Finite a) (hb : Finite b) (ha0 : 0 ≤ toReal a) (hb0 : 0 < toReal b)
    (hfit : |toReal a / toReal b| ≤ (2:ℝ)^(126:ℤ)) : 0 ≤ toReal (div a b) := by
  obtain ⟨fd, _⟩ := div_val a b ha hb hb0.ne' hfit
  obtain ⟨n1, m1, e1, h1⟩ := ha
  obtain ⟨n2, m2, e2, h2⟩ := hb
  have hm2 : m2 ≠ 0 := by intro h; rw [toReal_of_decode b _ _ _ h2, h, valR_zero] at hb0; exact lt_irrefl _ hb0
  have hn2 : n2 = false := by
    cases n2
    · rfl
    · rw [toReal_of_decode b _ _ _ h2] at hb0; unfold valR at hb0
      have : (0:ℝ) ≤ (m2:ℝ) * (2:ℝ) ^ e2 := by positivity
      simp at hb0; linarith
  obtain ⟨s, m', e', hd⟩ := fd
  rw [toReal_of_decode _ _ _ _ hd]
  by_cases hm1 : m1 = 0
  · -- zero dividend: the quotient is a zero
    have hdiv : div a b = roundPack (n1 != n2) 0 (e1 - e2 - ((2 * 24 + 8 : Nat) : Int) - 1) := by
      unfold div; rw [h1, h2]; simp only [hm2, if_false, consts.1, hm1]; simp
    have hz : roundPack (n1 != n2) 0 (e1 - e2 - ((2 * 24 + 8 : Nat) : Int) - 1) = signBit (n1 != n2) := by simp [roundPack]
    rw [hdiv, hz, decode_signBit] at hd
    injection hd with _ hm _
    rw [← hm, valR_zero]
  · have hn1 : n1 = false := by
      cases n1
      · rfl
      · rw [toReal_of_decode a _ _ _ h1] at ha0; unfold valR at ha0
        have hpos : (0:ℝ) < (m1:ℝ) * (2:ℝ) ^ e1 := by
          have : (0:ℝ) < m1 := by exact_mod_cast Nat.pos_of_ne_zero hm1
          positivity
        simp at ha0; linarith
    have hform : ∃ M E, div a b = roundPack (n1 != n2) M E := by
      unfold div; rw [h1, h2]; simp only [hm2, if_false]; exact ⟨_, _, rfl⟩
    obtain ⟨M, E, hf⟩ := hform
    rw [hf] at hd
    have := roundPack_sgn _ _ _ _ _ _ hd
    rw [hn1, hn2] at this
    rw [this]; unfold valR; simp; positivity

end F32
