import Proofs.F32Approx
import Proofs.F32Div
/-! Relative-error calculus for binary32 computations whose intermediate values stay away from the overflow and underflow
thresholds (|v| in [2^-100, 2^100]): each operation contributes a factor (1 + 2u). Binary32 counterpart of F64Rel.lean (same
proofs with the window constants of the format), plus the fused multiply-add. -/
namespace F32
open Real

/-- `a` is finite and approximates the real number `v` with relative error `ρ` -/
def Apx (a : Nat) (v ρ : ℝ) : Prop := Finite a ∧ |toReal a - v| ≤ ρ * |v|

/-- magnitudes for which `eta` is dominated by `u |v|` and nothing overflows -/
def Win (v : ℝ) : Prop := (2:ℝ)^(-100:ℤ) ≤ |v| ∧ |v| ≤ (2:ℝ)^(100:ℤ)

theorem apx_exact (a : Nat) (h : Finite a) : Apx a (toReal a) 0 := ⟨h, by simp⟩

theorem apx_mono {a : Nat} {v ρ ρ' : ℝ} (h : Apx a v ρ) (hρ : ρ ≤ ρ') : Apx a v ρ' :=
  ⟨h.1, le_trans h.2 (mul_le_mul_of_nonneg_right hρ (abs_nonneg _))⟩

theorem eta_small (z : ℝ) (h : (2:ℝ)^(-101:ℤ) ≤ |z|) : eta ≤ (u / 128) * |z| := by
  have h1 : eta ≤ (2:ℝ)^(-132:ℤ) := by unfold eta; exact zpow_le_zpow_right₀ (by norm_num) (by norm_num)
  have h2 : (2:ℝ)^(-132:ℤ) = (u / 128) * (2:ℝ)^(-101:ℤ) := by
    unfold u
    rw [show (128:ℝ) = (2:ℝ)^(7:ℤ) by norm_num, ← zpow_sub₀ (by norm_num : (2:ℝ) ≠ 0), ← zpow_add₀ (by norm_num : (2:ℝ) ≠ 0)]; norm_num
  have h3 : (u / 128) * (2:ℝ)^(-101:ℤ) ≤ (u / 128) * |z| := mul_le_mul_of_nonneg_left h (by have := u_pos; positivity)
  exact h1.trans (h2.le.trans h3)

theorem win_half (v z σ : ℝ) (hw : Win v) (hz : |z - v| ≤ σ * |v|) (hσ0 : 0 ≤ σ) (hσ : σ ≤ 1 / 2) :
    (2:ℝ)^(-101:ℤ) ≤ |z| ∧ |z| ≤ (2:ℝ)^(101:ℤ) ∧ |z| ≤ (1 + σ) * |v| := by
  have h1 := abs_sub_abs_le_abs_sub z v
  have h2 := abs_sub_abs_le_abs_sub v z
  rw [abs_sub_comm v z] at h2
  have hv := abs_nonneg v
  have ha : (2:ℝ)^(-101:ℤ) = (2:ℝ)^(-100:ℤ) / 2 := by
    rw [show (-101:ℤ) = -100 - 1 by norm_num, zpow_sub_one₀ (by norm_num : (2:ℝ) ≠ 0)]; ring
  have hb : (2:ℝ)^(101:ℤ) = (2:ℝ)^(100:ℤ) * 2 := by
    rw [show (101:ℤ) = 100 + 1 by norm_num, zpow_add_one₀ (by norm_num : (2:ℝ) ≠ 0)]
  rw [ha, hb]
  obtain ⟨hl, hh⟩ := hw
  have hp4 : (0:ℝ) < (2:ℝ)^(100:ℤ) := by positivity
  have hs : σ * |v| ≤ 1 / 2 * |v| := mul_le_mul_of_nonneg_right hσ hv
  generalize (2:ℝ)^(100:ℤ) = P4 at *
  generalize (2:ℝ)^(-100:ℤ) = Q4 at *
  refine ⟨by linarith, by linarith, by linarith⟩

/-- real core shared by all operations -/
theorem rel_core (fl z v σ : ℝ) (hw : Win v) (hz : |z - v| ≤ σ * |v|) (hσ0 : 0 ≤ σ) (hσ : σ ≤ 1 / 2)
    (hfl : |fl - z| ≤ (u * (1 + 1 / 128)) * |z| + eta) : |fl - v| ≤ ((1 + σ) * (1 + 2 * u) - 1) * |v| := by
  obtain ⟨hlo, _, hzv⟩ := win_half v z σ hw hz hσ0 hσ
  have he := eta_small z hlo
  have hu := u_pos
  have hz0 := abs_nonneg z
  have hv0 := abs_nonneg v
  have h1 : |fl - z| ≤ 2 * u * |z| := by nlinarith
  have h2 : 2 * u * |z| ≤ 2 * u * ((1 + σ) * |v|) := mul_le_mul_of_nonneg_left hzv (by linarith)
  have h3 : |fl - v| ≤ |fl - z| + |z - v| := abs_sub_le _ _ _
  nlinarith

theorem far_fit (z : ℝ) (h : |z| ≤ (2:ℝ)^(101:ℤ)) : |z| < (2:ℝ)^(127:ℤ) :=
  lt_of_le_of_lt h (zpow_lt_zpow_right₀ (by norm_num) (by norm_num))

theorem far_fit' (z : ℝ) (h : |z| ≤ (2:ℝ)^(101:ℤ)) : |z| ≤ (2:ℝ)^(126:ℤ) :=
  le_trans h (zpow_le_zpow_right₀ (by norm_num) (by norm_num))

/-- product of two approximations -/
theorem prod_err (ta tb va vb ρa ρb : ℝ) (ha : |ta - va| ≤ ρa * |va|) (hb : |tb - vb| ≤ ρb * |vb|) (h0a : 0 ≤ ρa) (h0b : 0 ≤ ρb) :
    |ta * tb - va * vb| ≤ ((1 + ρa) * (1 + ρb) - 1) * |va * vb| := by
  have e : ta * tb - va * vb = (ta - va) * vb + va * (tb - vb) + (ta - va) * (tb - vb) := by ring
  rw [e, abs_mul]
  have h1 : |(ta - va) * vb| ≤ ρa * |va| * |vb| := by rw [abs_mul]; exact mul_le_mul_of_nonneg_right ha (abs_nonneg _)
  have h2 : |va * (tb - vb)| ≤ |va| * (ρb * |vb|) := by rw [abs_mul]; exact mul_le_mul_of_nonneg_left hb (abs_nonneg _)
  have h3 : |(ta - va) * (tb - vb)| ≤ (ρa * |va|) * (ρb * |vb|) := by
    rw [abs_mul]; exact mul_le_mul ha hb (abs_nonneg _) (by positivity)
  have t1 := abs_add_le ((ta - va) * vb + va * (tb - vb)) ((ta - va) * (tb - vb))
  have t2 := abs_add_le ((ta - va) * vb) (va * (tb - vb))
  nlinarith

theorem mul_apx (a b : Nat) (va vb ρa ρb : ℝ) (ha : Apx a va ρa) (hb : Apx b vb ρb) (h0a : 0 ≤ ρa) (h0b : 0 ≤ ρb)
    (hσ : (1 + ρa) * (1 + ρb) - 1 ≤ 1 / 2) (hw : Win (va * vb)) :
    Apx (mul a b) (va * vb) ((1 + (((1 + ρa) * (1 + ρb) - 1))) * (1 + 2 * u) - 1) := by
  have hz := prod_err _ _ _ _ _ _ ha.2 hb.2 h0a h0b
  have hσ0 : 0 ≤ (1 + ρa) * (1 + ρb) - 1 := by nlinarith
  obtain ⟨_, hhi, _⟩ := win_half _ _ _ hw hz hσ0 hσ
  rw [abs_mul] at hhi
  obtain ⟨bf, be⟩ := mul_bnd a b |toReal a| |toReal b| ⟨ha.1, le_refl _⟩ ⟨hb.1, le_refl _⟩ (by rw [← abs_mul] at hhi ⊢; exact far_fit _ hhi)
  refine ⟨bf.1, rel_core _ _ _ _ hw hz hσ0 hσ ?_⟩
  rw [abs_mul]
  have := u_pos
  have hp : 0 ≤ |toReal a| * |toReal b| := by positivity
  nlinarith

/-- sum of two approximations of same-signed values -/
theorem add_apx (a b : Nat) (va vb ρ : ℝ) (ha : Apx a va ρ) (hb : Apx b vb ρ) (h0 : 0 ≤ ρ) (hρ : ρ ≤ 1 / 2) (hs : 0 ≤ va * vb)
    (hw : Win (va + vb)) : Apx (add a b) (va + vb) ((1 + ρ) * (1 + 2 * u) - 1) := by
  have habs : |va + vb| = |va| + |vb| := by
    rcases le_total 0 va with h | h <;> rcases le_total 0 vb with h' | h'
    · rw [abs_of_nonneg h, abs_of_nonneg h', abs_of_nonneg (by linarith)]
    · have hz : va * vb = 0 := le_antisymm (mul_nonpos_of_nonneg_of_nonpos h h') hs
      rcases mul_eq_zero.mp hz with r | r <;> simp [r]
    · have hz : va * vb = 0 := le_antisymm (mul_nonpos_of_nonpos_of_nonneg h h') hs
      rcases mul_eq_zero.mp hz with r | r <;> simp [r]
    · rw [abs_of_nonpos h, abs_of_nonpos h', abs_of_nonpos (by linarith)]; ring
  have hz : |(toReal a + toReal b) - (va + vb)| ≤ ρ * |va + vb| := by
    have e : (toReal a + toReal b) - (va + vb) = (toReal a - va) + (toReal b - vb) := by ring
    rw [e, habs]
    have := abs_add_le (toReal a - va) (toReal b - vb)
    have := ha.2; have := hb.2
    nlinarith
  obtain ⟨_, hhi, _⟩ := win_half _ _ _ hw hz h0 hρ
  obtain ⟨ff, fe⟩ := add_val a b ha.1 hb.1 (far_fit _ hhi)
  refine ⟨ff, rel_core _ _ _ _ hw hz h0 hρ ?_⟩
  have := u_pos
  have hp := abs_nonneg (toReal a + toReal b)
  nlinarith

/-- quotient of two approximations -/
theorem quot_err (ta tb va vb ρa ρb : ℝ) (ha : |ta - va| ≤ ρa * |va|) (hb : |tb - vb| ≤ ρb * |vb|) (h0a : 0 ≤ ρa) (h0b : 0 ≤ ρb) (hb1 : ρb < 1)
    (hvb : vb ≠ 0) : tb ≠ 0 ∧ |ta / tb - va / vb| ≤ ((ρa + ρb) / (1 - ρb)) * |va / vb| := by
  have hvbp : 0 < |vb| := abs_pos.mpr hvb
  have htb : (1 - ρb) * |vb| ≤ |tb| := by
    have h2 := abs_sub_abs_le_abs_sub vb tb
    rw [abs_sub_comm vb tb] at h2
    nlinarith
  have htbp : 0 < |tb| := lt_of_lt_of_le (by nlinarith) htb
  have htb0 : tb ≠ 0 := abs_pos.mp htbp
  refine ⟨htb0, ?_⟩
  have e : ta / tb - va / vb = ((ta - va) - (va / vb) * (tb - vb)) / tb := by field_simp; ring
  rw [e, abs_div, div_le_iff₀ htbp]
  have h1 := abs_sub (ta - va) ((va / vb) * (tb - vb))
  have h2 : |(va / vb) * (tb - vb)| ≤ |va / vb| * (ρb * |vb|) := by rw [abs_mul]; exact mul_le_mul_of_nonneg_left hb (abs_nonneg _)
  have h3 : |va / vb| * |vb| = |va| := by rw [← abs_mul]; congr 1; field_simp
  have hq0 := abs_nonneg (va / vb)
  have h1b : 0 < 1 - ρb := by linarith
  have hfin : (ρa + ρb) * |va| ≤ (ρa + ρb) / (1 - ρb) * |va / vb| * |tb| := by
    have : (ρa + ρb) / (1 - ρb) * |va / vb| * |tb| ≥ (ρa + ρb) / (1 - ρb) * |va / vb| * ((1 - ρb) * |vb|) :=
      mul_le_mul_of_nonneg_left htb (by positivity)
    have e2 : (ρa + ρb) / (1 - ρb) * |va / vb| * ((1 - ρb) * |vb|) = (ρa + ρb) * (|va / vb| * |vb|) := by field_simp
    rw [e2, h3] at this; exact this
  have : |ta - va - va / vb * (tb - vb)| ≤ ρa * |va| + |va / vb| * (ρb * |vb|) := by
    calc |ta - va - va / vb * (tb - vb)| ≤ |ta - va| + |va / vb * (tb - vb)| := abs_sub _ _
      _ ≤ ρa * |va| + |va / vb| * (ρb * |vb|) := add_le_add ha h2
  have e3 : |va / vb| * (ρb * |vb|) = ρb * |va| := by rw [← h3]; ring
  rw [e3] at this
  linarith

theorem div_apx (a b : Nat) (va vb ρa ρb : ℝ) (ha : Apx a va ρa) (hb : Apx b vb ρb) (h0a : 0 ≤ ρa) (h0b : 0 ≤ ρb) (hb1 : ρb ≤ 1 / 4)
    (hσ : (ρa + ρb) / (1 - ρb) ≤ 1 / 2) (hvb : vb ≠ 0) (hw : Win (va / vb)) :
    Apx (div a b) (va / vb) ((1 + (ρa + ρb) / (1 - ρb)) * (1 + 2 * u) - 1) := by
  obtain ⟨htb0, hz⟩ := quot_err _ _ _ _ _ _ ha.2 hb.2 h0a h0b (by linarith) hvb
  have hσ0 : 0 ≤ (ρa + ρb) / (1 - ρb) := div_nonneg (by linarith) (by linarith)
  obtain ⟨_, hhi, _⟩ := win_half _ _ _ hw hz hσ0 hσ
  obtain ⟨ff, fe⟩ := div_val a b ha.1 hb.1 htb0 (far_fit' _ hhi)
  refine ⟨ff, rel_core _ _ _ _ hw hz hσ0 hσ ?_⟩
  exact fe

/-- fused multiply-add of approximations whose product and addend have the same sign -/
theorem fma_apx (a b c : Nat) (va vb vc ρa ρb ρc σ : ℝ) (ha : Apx a va ρa) (hb : Apx b vb ρb) (hc : Apx c vc ρc)
    (h0a : 0 ≤ ρa) (h0b : 0 ≤ ρb) (h0c : 0 ≤ ρc) (hσ1 : (1 + ρa) * (1 + ρb) - 1 ≤ σ) (hσ2 : ρc ≤ σ) (hσ : σ ≤ 1 / 2)
    (hs : 0 ≤ (va * vb) * vc) (hw : Win (va * vb + vc)) :
    Apx (fma a b c) (va * vb + vc) ((1 + σ) * (1 + 2 * u) - 1) := by
  have hp := prod_err _ _ _ _ _ _ ha.2 hb.2 h0a h0b
  have hσ0 : 0 ≤ σ := le_trans h0c hσ2
  have habs : |va * vb + vc| = |va * vb| + |vc| := by
    rcases le_total 0 (va * vb) with h | h <;> rcases le_total 0 vc with h' | h'
    · rw [abs_of_nonneg h, abs_of_nonneg h', abs_of_nonneg (by linarith)]
    · have hz : (va * vb) * vc = 0 := le_antisymm (mul_nonpos_of_nonneg_of_nonpos h h') hs
      rcases mul_eq_zero.mp hz with r | r <;> simp [r]
    · have hz : (va * vb) * vc = 0 := le_antisymm (mul_nonpos_of_nonpos_of_nonneg h h') hs
      rcases mul_eq_zero.mp hz with r | r <;> simp [r]
    · rw [abs_of_nonpos h, abs_of_nonpos h', abs_of_nonpos (by linarith)]; ring
  have hz : |(toReal a * toReal b + toReal c) - (va * vb + vc)| ≤ σ * |va * vb + vc| := by
    have e : (toReal a * toReal b + toReal c) - (va * vb + vc) = (toReal a * toReal b - va * vb) + (toReal c - vc) := by ring
    rw [e, habs]
    have t := abs_add_le (toReal a * toReal b - va * vb) (toReal c - vc)
    have h1 : ((1 + ρa) * (1 + ρb) - 1) * |va * vb| ≤ σ * |va * vb| := mul_le_mul_of_nonneg_right hσ1 (abs_nonneg _)
    have h2 : ρc * |vc| ≤ σ * |vc| := mul_le_mul_of_nonneg_right hσ2 (abs_nonneg _)
    have := hc.2
    linarith
  obtain ⟨_, hhi, _⟩ := win_half _ _ _ hw hz hσ0 hσ
  obtain ⟨ff, fe⟩ := fma_val a b c ha.1 hb.1 hc.1 (far_fit _ hhi)
  refine ⟨ff, rel_core _ _ _ _ hw hz hσ0 hσ ?_⟩
  have := u_pos
  have hp0 := abs_nonneg (toReal a * toReal b + toReal c)
  nlinarith

/-- the fused multiply-add of finite operands is a well-formed bit pattern -/
theorem fma_wf_fin (a b c : Nat) (ha : Finite a) (hb : Finite b) (hc : Finite c) : WF (fma a b c) := by
  obtain ⟨n1, m1, e1, h1⟩ := ha
  obtain ⟨n2, m2, e2, h2⟩ := hb
  obtain ⟨n3, m3, e3, h3⟩ := hc
  unfold fma
  rw [h1, h2, h3]
  dsimp only
  split
  · exact signBit_wf _
  · exact roundPack_wf _ _ _

end F32
