import Proofs.Exp2Top
/-! `exp2` far below the normal range: the result is finite and negligible (no accuracy claim). -/
namespace Exp2
open F32 MathM Real PolyCert ExpPoly Horner

theorem cert_clamp_lo : finiteB (neg C.exp2_f0) = true ∧ (-127 : ℚ) ≤ ratOf (neg C.exp2_f0) ∧ ratOf (neg C.exp2_f0) ≤ -124 := by decide +kernel

theorem expi_zero : expiBits (-127) = 0 := by decide +kernel

/-- arguments below -124 (however negative): the clamped value lies in `[-127, -124]` -/
theorem clamp_low (x : Nat) (hx : Finite x) (h : toReal x ≤ -124) :
    Finite (exp2Clamp x) ∧ -127 ≤ toReal (exp2Clamp x) ∧ toReal (exp2Clamp x) ≤ -124 := by
  obtain ⟨c1, c2, c3⟩ := cert_clamp_lo
  obtain ⟨_, _, d3, d4, _, _, _⟩ := cert_clamp
  obtain ⟨flo, vlo⟩ := rat_val _ c1
  obtain ⟨fhi, vhi⟩ := rat_val _ d3
  have hlo1 : -127 ≤ toReal (neg C.exp2_f0) := by rw [vlo]; exact_mod_cast c2
  have hlo2 : toReal (neg C.exp2_f0) ≤ -124 := by rw [vlo]; exact_mod_cast c3
  have hhi : 124 ≤ toReal C.exp2_f1 := by rw [vhi]; exact_mod_cast d4
  unfold exp2Clamp
  obtain ⟨hm1, hm2⟩ := max_val x (neg C.exp2_f0) hx flo
  have fmx : Finite (F32.max x (neg C.exp2_f0)) := by rcases hm1 with e | e <;> rw [e] <;> assumption
  have vmx1 : -127 ≤ toReal (F32.max x (neg C.exp2_f0)) := by rw [hm2]; exact le_trans hlo1 (le_max_right _ _)
  have vmx2 : toReal (F32.max x (neg C.exp2_f0)) ≤ -124 := by rw [hm2]; exact max_le h hlo2
  obtain ⟨hn1, hn2⟩ := min_val (F32.max x (neg C.exp2_f0)) C.exp2_f1 fmx fhi
  refine ⟨by rcases hn1 with e | e <;> rw [e] <;> assumption, ?_, ?_⟩
  · rw [hn2, min_eq_left (by linarith)]; exact vmx1
  · rw [hn2, min_eq_left (by linarith)]; exact vmx2

/-- **`exp2` below -124**: finite and at most `2^-120` in magnitude -/
theorem exp2_tiny (fm : Bool) (x : Nat) (hx : Finite x) (h : toReal x ≤ -124) :
    ∃ r, exp2 fm x = .ok r ∧ Finite r ∧ |toReal r| ≤ (2:ℝ) ^ (-120:ℤ) := by
  obtain ⟨fc, v1, v2⟩ := clamp_low x hx h
  obtain ⟨_, _, _, _, c5, c6, c7⟩ := cert_clamp
  obtain ⟨fh, vh⟩ := rat_val _ c5
  have vh' : toReal C.exp2_f2 = 1 / 2 := by rw [vh, c6]; push_cast; ring
  have hu' : u = 1 / 16777216 := u_val
  have he' : eta ≤ 1 / 10 ^ 40 := eta_le
  set xc := toReal (exp2Clamp x) with hxc
  obtain ⟨fs, es⟩ := sub_val (exp2Clamp x) C.exp2_f2 c7 fc fh (by rw [vh']; apply fit_small; rw [abs_le]; constructor <;> linarith)
  rw [vh'] at es
  have habs : |xc - 1 / 2| ≤ 128 := by rw [abs_le]; constructor <;> linarith
  have es' : |toReal (sub (exp2Clamp x) C.exp2_f2) - (xc - 1 / 2)| ≤ 1 / 10 ^ 5 := by
    refine le_trans es ?_
    rw [hu']; nlinarith
  obtain ⟨s1, s2⟩ := abs_le.mp es'
  set s := toReal (sub (exp2Clamp x) C.exp2_f2) with hs
  have hsb : |s| ≤ 128 := by rw [abs_le]; constructor <;> linarith
  obtain ⟨i, hi⟩ := toI32_ok _ fs (lt_of_le_of_lt hsb (by norm_num))
  obtain ⟨_, t1, t2, t3⟩ := toI32_trunc _ i hi
  rw [← hs] at t1 t2 t3
  obtain ⟨u1, u2⟩ := abs_lt.mp t1
  have hs0 : s < 0 := by linarith
  have hi0 : (i:ℝ) ≤ 0 := by
    by_contra hc
    have := not_le.mp hc
    nlinarith
  rw [abs_of_nonpos hi0, abs_of_neg hs0] at t2
  have hi_lo : -127 ≤ i := by
    by_contra hc
    have : i ≤ (-128:ℤ) := by omega
    have : (i:ℝ) ≤ (-128:ℝ) := by exact_mod_cast this
    linarith
  have hi_hi : i ≤ -124 := by
    by_contra hc
    have : (-123:ℤ) ≤ i := by omega
    have : (-123:ℝ) ≤ (i:ℝ) := by exact_mod_cast this
    linarith
  refine ⟨_, exp2_eq fm x i hi, ?_⟩
  rw [exp2Val_eq]
  -- the polynomial factor is bounded
  obtain ⟨hfi, hvi⟩ := ofInt_val i (by omega)
  have hwi : WF (ofInt i) := by
    unfold ofInt; split
    · unfold WF; omega
    · exact roundPack_wf _ _ _
  have hd : |xc - (i:ℝ)| ≤ 3 / 2 + 1 / 1000 := by rw [abs_le]; constructor <;> linarith
  obtain ⟨hff, hfe⟩ := sub_val (exp2Clamp x) (ofInt i) hwi fc hfi (by rw [hvi]; apply fit_small; linarith)
  rw [hvi] at hfe
  have hfX : |toReal (sub (exp2Clamp x) (ofInt i))| ≤ ((1502 / 1000 : ℚ) : ℝ) := by
    have := abs_sub_abs_le_abs_sub (toReal (sub (exp2Clamp x) (ofInt i))) (xc - (i:ℝ))
    push_cast
    rw [hu'] at hfe
    nlinarith
  obtain ⟨c1, c2⟩ := cert_horner
  obtain ⟨hhb, _⟩ := horner_err fm (sub (exp2Clamp x) (ofInt i)) (1502 / 1000) ⟨hff, hfX⟩ Pc c1
  have hmag : (((hornerBnd (1502 / 1000) Pc).1 : ℚ) : ℝ) ≤ 3 := by
    have : (hornerBnd (1502 / 1000) Pc).1 ≤ 3 := by decide +kernel
    exact_mod_cast this
  have hPb : Bnd (hornerF fm (sub (exp2Clamp x) (ofInt i)) Pc) 3 := ⟨hhb.1, le_trans hhb.2 hmag⟩
  -- expi
  have hexpi : Finite (expiBits i) ∧ |toReal (expiBits i)| ≤ (2:ℝ) ^ (-124:ℤ) := by
    by_cases h127 : i = -127
    · rw [h127, expi_zero]
      exact ⟨c_zero.1, by rw [c_zero.2]; simp⟩
    · obtain ⟨f1, f2⟩ := expi_val i (by omega) (by omega)
      refine ⟨f1, ?_⟩
      have : toReal (expiBits i) = (2:ℝ) ^ i := f2
      rw [this, abs_of_pos (by positivity)]
      exact zpow_le_zpow_right₀ (by norm_num) hi_hi
  have hp124 : (0:ℝ) < (2:ℝ) ^ (-124:ℤ) := by positivity
  obtain ⟨hmb, _⟩ := mul_bnd (expiBits i) (hornerF fm (sub (exp2Clamp x) (ofInt i)) Pc) ((2:ℝ) ^ (-124:ℤ)) 3 hexpi hPb
    (by apply fit_small; have : (2:ℝ) ^ (-124:ℤ) ≤ 1 := by
          rw [show (-124:ℤ) = -(124:ℤ) by norm_num, zpow_neg]; apply inv_le_one_of_one_le₀; norm_num
        linarith)
  refine ⟨hmb.1, le_trans hmb.2 ?_⟩
  have e120 : (2:ℝ) ^ (-120:ℤ) = (2:ℝ) ^ (-124:ℤ) * 16 := by
    rw [show (-120:ℤ) = -124 + 4 by norm_num, zpow_add₀ (by norm_num : (2:ℝ) ≠ 0)]; norm_num
  have heta : eta ≤ (2:ℝ) ^ (-124:ℤ) := by
    have e150 : eta = (2:ℝ) ^ (-150:ℤ) := rfl
    rw [e150]; exact zpow_le_zpow_right₀ (by norm_num) (by norm_num)
  rw [e120, hu']
  nlinarith

end Exp2
