import Proofs.Inv
/-! Loop invariant of `ypbpr_to_ycbcr` (encode direction): safety of every unchecked write, the luma plane is the
pointwise image of the input, every chroma sample is the chroma of an input pixel inside its own block. -/
namespace FrameP
open FrameM Mat32

/-- same geometry and buffer length -/
def Geom (p q : Plane) : Prop := p.cfg = q.cfg ∧ p.data.size = q.data.size

theorem Geom.refl (p : Plane) : Geom p p := ⟨rfl, rfl⟩

/-- row-major index is injective on positions that stay inside the stride -/
theorem index_inj (p : Plane) (x y x' y' : Nat) (hx : x + p.cfg.xorigin < p.cfg.stride) (hx' : x' + p.cfg.xorigin < p.cfg.stride)
    (h : p.index x y = p.index x' y') : x = x' ∧ y = y' := by
  unfold Plane.index at h
  rcases Nat.lt_trichotomy y y' with hlt | heq | hgt
  · have : (y + p.cfg.yorigin + 1) * p.cfg.stride ≤ (y' + p.cfg.yorigin) * p.cfg.stride := Nat.mul_le_mul_right _ (by omega)
    rw [Nat.add_mul, Nat.one_mul] at this
    omega
  · subst heq; exact ⟨by omega, rfl⟩
  · have : (y' + p.cfg.yorigin + 1) * p.cfg.stride ≤ (y + p.cfg.yorigin) * p.cfg.stride := Nat.mul_le_mul_right _ (by omega)
    rw [Nat.add_mul, Nat.one_mul] at this
    omega

/-- an in-bounds unchecked write succeeds, keeps the geometry, sets exactly one logical sample -/
theorem setU_spec (p : Plane) (x y v : Nat) (site : Site) (hb : p.index x y < p.data.size) :
    ∃ q, p.setU (y * p.cfg.stride + x) v site = .ok q ∧ Geom q p ∧ q.data = p.data.set! (p.index x y) v := by
  unfold Plane.setU
  have : p.origin + (y * p.cfg.stride + x) < p.data.size := by rw [← index_eq]; exact hb
  simp only [this, dif_pos]
  refine ⟨_, rfl, ⟨rfl, by simp⟩, ?_⟩
  simp only [index_eq]
  simp [Array.set!, Array.setIfInBounds, this]

theorem set!_get_other (a : Array Nat) (i j v : Nat) (hne : j ≠ i) : (a.set! i v)[j]! = a[j]! := by
  simp [Array.set!, Array.getElem!_eq_getD, Array.getD_eq_getD_getElem?, Ne.symm hne]
theorem set!_get_same (a : Array Nat) (i v : Nat) (h : i < a.size) : (a.set! i v)[i]! = v := by
  simp [Array.set!, h]

theorem sample_set_same (p q : Plane) (x y v : Nat) (hg : Geom q p) (hb : p.index x y < p.data.size)
    (hd : q.data = p.data.set! (p.index x y) v) : Plane.sample q x y = v := by
  unfold Plane.sample
  have hi : q.index x y = p.index x y := by unfold Plane.index; rw [hg.1]
  rw [hi, hd]
  exact set!_get_same _ _ _ hb

theorem sample_set_other (p q : Plane) (x y v x' y' : Nat) (hg : Geom q p)
    (hd : q.data = p.data.set! (p.index x y) v) (hne : p.index x' y' ≠ p.index x y) : Plane.sample q x' y' = Plane.sample p x' y' := by
  unfold Plane.sample
  have hi : q.index x' y' = p.index x' y' := by unfold Plane.index; rw [hg.1]
  rw [hi, hd]
  exact set!_get_other _ _ _ _ hne

end FrameP

namespace FrameP
open FrameM Mat32

theorem covers_of_geom (p q : Plane) (hg : Geom q p) : q.covers = p.covers := by
  unfold Plane.covers; rw [hg.1, hg.2]

/-- pixel (x', y') has been processed when the loops stand at row `yy`, column `x` -/
def Done (yy x x' y' : Nat) : Prop := y' < yy ∨ (y' = yy ∧ x' < x)
/-- pixel (x', y') lies in the block of chroma cell (cx, cy) -/
def InBlock (ssx ssy x' y' cx cy : Nat) : Prop := x' >>> ssx = cx ∧ y' >>> ssy = cy

section enc
variable (inp : Array V3) (w h ssx ssy : Nat) (fl fc : Nat → Nat) (yB uB vB : Plane)

structure EncCtx : Prop where
  hyw : yB.cfg.width = w
  hyh : yB.cfg.height = h
  huw : uB.cfg.width = w >>> ssx
  huh : uB.cfg.height = h >>> ssy
  hvc : vB.cfg = uB.cfg
  cy : yB.covers = true
  cu : uB.covers = true
  cv : vB.covers = true
  sy : yB.cfg.xorigin + yB.cfg.width ≤ yB.cfg.stride
  su : uB.cfg.xorigin + uB.cfg.width ≤ uB.cfg.stride
  wdiv : w % 2 ^ ssx = 0
  hdiv : h % 2 ^ ssy = 0
  fits : uB.data.size < USIZE_MAX
  hin : inp.size = w * h

structure EncInv (st : EncSt) (yy x : Nat) : Prop where
  gy : Geom st.yP yB
  gu : Geom st.uP uB
  gv : Geom st.vP vB
  luma : ∀ x' y', x' < w → y' < h → Done yy x x' y' → Plane.sample st.yP x' y' = fl (inp[y' * w + x']!).x
  chroma : ∀ cx cy, cx < w >>> ssx → cy < h >>> ssy →
    (∃ x' y', x' < w ∧ y' < h ∧ Done yy x x' y' ∧ InBlock ssx ssy x' y' cx cy) →
    ∃ x' y', x' < w ∧ y' < h ∧ Done yy x x' y' ∧ InBlock ssx ssy x' y' cx cy ∧
      Plane.sample st.uP cx cy = fc (inp[y' * w + x']!).y ∧ Plane.sample st.vP cx cy = fc (inp[y' * w + x']!).z
  last : ∀ cx cy, cx < w >>> ssx → cy < h >>> ssy → cy * uB.cfg.stride + cx = st.last →
    ∃ x' y', x' < w ∧ y' < h ∧ Done yy x x' y' ∧ InBlock ssx ssy x' y' cx cy

theorem done_step (yy x x' y' : Nat) : Done yy (x+1) x' y' ↔ Done yy x x' y' ∨ (x' = x ∧ y' = yy) := by
  unfold Done; omega

theorem pos_inj (p : Plane) (cx cy cx' cy' : Nat) (hs : p.cfg.xorigin + p.cfg.width ≤ p.cfg.stride) (h1 : cx < p.cfg.width) (h2 : cx' < p.cfg.width)
    (he : cy * p.cfg.stride + cx = cy' * p.cfg.stride + cx') : cx = cx' ∧ cy = cy' := by
  apply index_inj p cx cy cx' cy' (by omega) (by omega)
  rw [index_eq, index_eq, he]

/-- one iteration of the inner loop preserves the invariant and cannot reach an out-of-bounds access -/
theorem encRow_spec (hc : EncCtx inp w h ssx ssy yB uB vB) (yy : Nat) (hyy : yy < h) :
    ∀ k st, k ≤ w → EncInv inp w h ssx ssy fl fc yB uB vB st yy (w - k) →
    ∃ st', encRow inp w ssx ssy fl fc yy k st = .ok st' ∧ EncInv inp w h ssx ssy fl fc yB uB vB st' yy w := by
  intro k
  induction k with
  | zero => intro st _ hi; exact ⟨st, rfl, by simpa using hi⟩
  | succ k ih =>
    intro st hk hi
    have hx : w - (k+1) < w := by omega
    have hin : yy * w + (w - (k+1)) < inp.size := by
      rw [hc.hin]
      calc yy * w + (w - (k+1)) < yy * w + w := by omega
        _ = (yy + 1) * w := by rw [Nat.add_mul]; simp
        _ ≤ h * w := Nat.mul_le_mul_right _ hyy
        _ = w * h := Nat.mul_comm _ _
    have hcx := shr_lt w (w - (k+1)) ssx hc.wdiv hx
    have hcy := shr_lt h yy ssy hc.hdiv hyy
    -- bounds of the three writes
    have by_ : st.yP.index (w - (k+1)) yy < st.yP.data.size :=
      covers_index _ (by rw [covers_of_geom _ _ hi.gy]; exact hc.cy) _ _ (by rw [hi.gy.1, hc.hyw]; exact hx) (by rw [hi.gy.1, hc.hyh]; exact hyy)
    have bu : st.uP.index ((w - (k+1)) >>> ssx) (yy >>> ssy) < st.uP.data.size :=
      covers_index _ (by rw [covers_of_geom _ _ hi.gu]; exact hc.cu) _ _ (by rw [hi.gu.1, hc.huw]; exact hcx) (by rw [hi.gu.1, hc.huh]; exact hcy)
    have bv : st.vP.index ((w - (k+1)) >>> ssx) (yy >>> ssy) < st.vP.data.size :=
      covers_index _ (by rw [covers_of_geom _ _ hi.gv]; exact hc.cv) _ _ (by rw [hi.gv.1, hc.hvc, hc.huw]; exact hcx) (by rw [hi.gv.1, hc.hvc, hc.huh]; exact hcy)
    obtain ⟨y1, ey, gy1, dy1⟩ := setU_spec st.yP (w - (k+1)) yy (fl (inp[yy * w + (w - (k+1))]).x) .encY by_
    unfold encRow
    simp only [hin, dif_pos, ey]
    have hk' : w - k = (w - (k+1)) + 1 := by omega
    have hpix : inp[yy * w + (w - (k+1))]! = inp[yy * w + (w - (k+1))] := getElem!_pos inp _ hin
    -- luma part of the new invariant (same in both branches)
    have lumaNew : ∀ x' y', x' < w → y' < h → Done yy (w - k) x' y' → Plane.sample y1 x' y' = fl (inp[y' * w + x']!).x := by
      intro x' y' hx' hy' hd
      rw [hk', done_step] at hd
      rcases hd with hd | ⟨rfl, rfl⟩
      · rw [sample_set_other st.yP y1 _ _ _ x' y' gy1 dy1]
        · exact hi.luma x' y' hx' hy' hd
        · intro he
          have := index_inj st.yP x' y' _ _ (by rw [hi.gy.1]; have := hc.sy; rw [hc.hyw] at this; omega) (by rw [hi.gy.1]; have := hc.sy; rw [hc.hyw] at this; omega) he
          unfold Done at hd; omega
      · rw [sample_set_same st.yP y1 _ _ _ gy1 by_ dy1, hpix]
    have gy1' : Geom y1 yB := ⟨gy1.1.trans hi.gy.1, gy1.2.trans hi.gy.2⟩
    have hstride : st.uP.cfg.stride = uB.cfg.stride := by rw [hi.gu.1]
    split
    · -- chroma written
      obtain ⟨u1, eu, gu1, du1⟩ := setU_spec st.uP ((w - (k+1)) >>> ssx) (yy >>> ssy) (fc (inp[yy * w + (w - (k+1))]).y) .encU bu
      obtain ⟨v1, ev, gv1, dv1⟩ := setU_spec st.vP ((w - (k+1)) >>> ssx) (yy >>> ssy) (fc (inp[yy * w + (w - (k+1))]).z) .encV bv
      simp only [eu, ev]
      apply ih _ (by omega)
      have gu1' : Geom u1 uB := ⟨gu1.1.trans hi.gu.1, gu1.2.trans hi.gu.2⟩
      have gv1' : Geom v1 vB := ⟨gv1.1.trans hi.gv.1, gv1.2.trans hi.gv.2⟩
      refine ⟨gy1', gu1', gv1', lumaNew, ?_, ?_⟩
      · intro cx cy hcx' hcy' hex
        by_cases hcell : cx = (w - (k+1)) >>> ssx ∧ cy = yy >>> ssy
        · obtain ⟨rfl, rfl⟩ := hcell
          refine ⟨w - (k+1), yy, hx, hyy, by rw [hk', done_step]; exact Or.inr ⟨rfl, rfl⟩, ⟨rfl, rfl⟩, ?_, ?_⟩
          · rw [sample_set_same st.uP u1 _ _ _ gu1 bu du1, hpix]
          · rw [sample_set_same st.vP v1 _ _ _ gv1 bv dv1, hpix]
        · -- another cell: untouched, and its processed pixels were processed before
          have hne_u : st.uP.index cx cy ≠ st.uP.index ((w - (k+1)) >>> ssx) (yy >>> ssy) := by
            intro he
            have := index_inj st.uP cx cy _ _ (by rw [hi.gu.1]; have := hc.su; rw [hc.huw] at this; omega) (by rw [hi.gu.1]; have := hc.su; rw [hc.huw] at this; omega) he
            exact hcell this
          have hne_v : st.vP.index cx cy ≠ st.vP.index ((w - (k+1)) >>> ssx) (yy >>> ssy) := by
            intro he
            have := index_inj st.vP cx cy _ _ (by rw [hi.gv.1, hc.hvc]; have := hc.su; rw [hc.huw] at this; omega) (by rw [hi.gv.1, hc.hvc]; have := hc.su; rw [hc.huw] at this; omega) he
            exact hcell this
          have hex' : ∃ x' y', x' < w ∧ y' < h ∧ Done yy (w - (k+1)) x' y' ∧ InBlock ssx ssy x' y' cx cy := by
            obtain ⟨x', y', a, b, c, d⟩ := hex
            rw [hk', done_step] at c
            rcases c with c | ⟨rfl, rfl⟩
            · exact ⟨x', y', a, b, c, d⟩
            · exact absurd ⟨d.1.symm, d.2.symm⟩ hcell
          obtain ⟨x', y', a, b, c, d, e, f⟩ := hi.chroma cx cy hcx' hcy' hex'
          refine ⟨x', y', a, b, by rw [hk', done_step]; exact Or.inl c, d, ?_, ?_⟩
          · rw [sample_set_other st.uP u1 _ _ _ cx cy gu1 du1 hne_u]; exact e
          · rw [sample_set_other st.vP v1 _ _ _ cx cy gv1 dv1 hne_v]; exact f
      · intro cx cy hcx' hcy' hl
        simp only at hl
        rw [hstride] at hl
        have := pos_inj uB cx cy _ _ hc.su (by rw [hc.huw]; exact hcx') (by rw [hc.huw]; exact hcx) hl
        exact ⟨w - (k+1), yy, hx, hyy, by rw [hk', done_step]; exact Or.inr ⟨rfl, rfl⟩, ⟨this.1.symm, this.2.symm⟩⟩
    · -- chroma skipped: upos = last
      rename_i heq
      have heq' : (yy >>> ssy) * uB.cfg.stride + ((w - (k+1)) >>> ssx) = st.last := by
        rw [← hstride]; exact Decidable.of_not_not heq
      apply ih _ (by omega)
      refine ⟨gy1', hi.gu, hi.gv, lumaNew, ?_, ?_⟩
      · intro cx cy hcx' hcy' hex
        by_cases hcell : cx = (w - (k+1)) >>> ssx ∧ cy = yy >>> ssy
        · obtain ⟨rfl, rfl⟩ := hcell
          obtain ⟨x', y', a, b, c, d, e, f⟩ := hi.chroma _ _ hcx' hcy' (hi.last _ _ hcx' hcy' heq')
          exact ⟨x', y', a, b, by rw [hk', done_step]; exact Or.inl c, d, e, f⟩
        · have hex' : ∃ x' y', x' < w ∧ y' < h ∧ Done yy (w - (k+1)) x' y' ∧ InBlock ssx ssy x' y' cx cy := by
            obtain ⟨x', y', a, b, c, d⟩ := hex
            rw [hk', done_step] at c
            rcases c with c | ⟨rfl, rfl⟩
            · exact ⟨x', y', a, b, c, d⟩
            · exact absurd ⟨d.1.symm, d.2.symm⟩ hcell
          obtain ⟨x', y', a, b, c, d, e, f⟩ := hi.chroma cx cy hcx' hcy' hex'
          exact ⟨x', y', a, b, by rw [hk', done_step]; exact Or.inl c, d, e, f⟩
      · intro cx cy hcx' hcy' hl
        simp only at hl
        rw [← heq'] at hl
        have := pos_inj uB cx cy _ _ hc.su (by rw [hc.huw]; exact hcx') (by rw [hc.huw]; exact hcx) hl
        exact ⟨w - (k+1), yy, hx, hyy, by rw [hk', done_step]; exact Or.inr ⟨rfl, rfl⟩, ⟨this.1.symm, this.2.symm⟩⟩

end enc
end FrameP
