import Mathlib.Data.Real.Basic
import Mathlib.Tactic.Linarith
import Mathlib.Tactic.Ring
import Mathlib.Tactic.FieldSimp
import Mathlib.Tactic.Positivity
import Mathlib.Tactic.NormNum

/-- one Halley step for the cube root, in the normalised variable u = t / x^(1/3) -/
theorem halley_identity (u : ℝ) (hu : 0 < u) :
    u * (2 + u^3) / (1 + 2 * u^3) - 1 = (u - 1)^3 * (u + 1) / (1 + 2 * u^3) := by
  have : (1 + 2 * u^3) ≠ 0 := by positivity
  field_simp
  ring

/-- cubic convergence: if |u-1| ≤ δ ≤ 1/20 then the next iterate is within δ^3 -/
theorem halley_bound (u δ : ℝ) (h : |u - 1| ≤ δ) (hδ : δ ≤ 1/20) :
    |u * (2 + u^3) / (1 + 2 * u^3) - 1| ≤ δ^3 := by
  have hδ0 : 0 ≤ δ := le_trans (abs_nonneg _) h
  obtain ⟨h1, h2⟩ := abs_le.mp h
  have hu : 0 < u := by linarith
  have hu1 : u ≤ 21/20 := by linarith
  have hu0 : 19/20 ≤ u := by linarith
  rw [halley_identity u hu, abs_div, abs_mul, abs_pow]
  have hden : (0:ℝ) < 1 + 2 * u^3 := by positivity
  rw [abs_of_pos hden, abs_of_pos (by linarith : (0:ℝ) < u + 1), div_le_iff₀ hden]
  have hc : |u - 1|^3 ≤ δ^3 := pow_le_pow_left₀ (abs_nonneg _) h 3
  have hu3 : (19/20:ℝ)^3 ≤ u^3 := pow_le_pow_left₀ (by norm_num) hu0 3
  have hd3 : 0 ≤ δ^3 := by positivity
  have ha3 : 0 ≤ |u - 1|^3 := by positivity
  -- (u+1) ≤ 1 + 2u^3 since u ≥ 0.95
  have key : u + 1 ≤ 1 + 2 * u^3 := by nlinarith [hu3]
  calc |u - 1|^3 * (u + 1) ≤ δ^3 * (u + 1) := by apply mul_le_mul_of_nonneg_right hc; linarith
    _ ≤ δ^3 * (1 + 2 * u^3) := by apply mul_le_mul_of_nonneg_left key hd3
