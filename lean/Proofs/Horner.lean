import Proofs.ExpPoly
import Proofs.F32Approx
import Model.Math
/-! Rounding-error analysis of the Horner scheme `poly5` (any degree, both values of the FMA flag), with the bound itself a
rational *computed* from the coefficient bit patterns, so that it is re-evaluated when the constants are regenerated. -/
namespace Horner
open F32 MathM Real PolyCert ExpPoly

/-- one `multiply_add(a, b, c)`: fused or not -/
theorem madd_bnd (fm : Bool) (a b c : Nat) (A B Cc : ℝ) (ha : Bnd a A) (hb : Bnd b B) (hc : Bnd c Cc)
    (hAB : A * B ≤ 1000) (hC : Cc ≤ 1000) :
    Bnd (multiplyAdd fm a b c) ((A * B + Cc) * (1 + u) ^ 2 + 3 * eta) ∧
    |toReal (multiplyAdd fm a b c) - (toReal a * toReal b + toReal c)| ≤ u * (2 * (A * B) + Cc) * (1 + u) + 3 * eta := by
  have hu := u_pos; have he := eta_pos
  have hu1 : u ≤ 1 := by rw [u_val]; norm_num
  have he1 : eta ≤ 1 := le_trans eta_le (by norm_num)
  have hA0 : 0 ≤ A := le_trans (abs_nonneg _) ha.2
  have hB0 : 0 ≤ B := le_trans (abs_nonneg _) hb.2
  have hC0 : 0 ≤ Cc := le_trans (abs_nonneg _) hc.2
  have hAB0 : 0 ≤ A * B := mul_nonneg hA0 hB0
  have k1 : eta * u ≤ eta := by nlinarith
  have k2 : 0 ≤ Cc * u := mul_nonneg hC0 hu.le
  have k3 : 0 ≤ Cc * u * u := mul_nonneg k2 hu.le
  have k4 : 0 ≤ A * B * u := mul_nonneg hAB0 hu.le
  have k5 : 0 ≤ A * B * u * u := mul_nonneg k4 hu.le
  unfold multiplyAdd
  cases fm
  · simp only [Bool.false_eq_true, if_false]
    obtain ⟨hp, hpe⟩ := mul_bnd a b A B ha hb (fit_small _ (by linarith))
    have hP : A * B * (1 + u) + eta ≤ 3000 := by nlinarith
    obtain ⟨hs, hse⟩ := add_bnd (mul a b) c _ Cc hp hc (fit_small _ (by linarith))
    refine ⟨⟨hs.1, le_trans hs.2 ?_⟩, ?_⟩
    · nlinarith [k1, k2, k3, k4, k5]
    · have : |toReal (add (mul a b) c) - (toReal a * toReal b + toReal c)|
          ≤ |toReal (add (mul a b) c) - (toReal (mul a b) + toReal c)| + |toReal (mul a b) - toReal a * toReal b| := by
        have e : toReal (add (mul a b) c) - (toReal a * toReal b + toReal c)
            = (toReal (add (mul a b) c) - (toReal (mul a b) + toReal c)) + (toReal (mul a b) - toReal a * toReal b) := by ring
        rw [e]; exact abs_add_le _ _
      refine le_trans this ?_
      nlinarith [k1, k2, k3, k4, k5]
  · simp only [if_true]
    obtain ⟨hs, hse⟩ := fma_bnd a b c A B Cc ha hb hc (fit_small _ (by linarith))
    refine ⟨⟨hs.1, le_trans hs.2 ?_⟩, le_trans hse ?_⟩
    · nlinarith [k1, k2, k3, k4, k5]
    · nlinarith [k1, k2, k3, k4, k5]

/-- `poly_n(x, c0, c1, …)` -/
def hornerF (fm : Bool) (x : Nat) : List Nat → Nat
  | [] => 0
  | [c] => c
  | c :: d :: cs => multiplyAdd fm x (hornerF fm x (d :: cs)) c

theorem poly5_eq (fm : Bool) (x c0 c1 c2 c3 c4 c5 : Nat) :
    poly5 fm x c0 c1 c2 c3 c4 c5 = hornerF fm x [c0, c1, c2, c3, c4, c5] := rfl

def finiteB (a : Nat) : Bool := match decode a with | .fin .. => true | _ => false

theorem finite_of_finiteB (a : Nat) (h : finiteB a = true) : Finite a := by
  unfold finiteB at h
  cases hd : decode a with
  | nan => simp [hd] at h
  | inf s => simp [hd] at h
  | fin n m e => exact ⟨n, m, e, hd⟩

def uQ : ℚ := 1 / 16777216
def etaQ : ℚ := 1 / 10 ^ 40

/-- (magnitude bound, error bound) of the float Horner value for `|x| ≤ X` -/
def hornerBnd (X : ℚ) : List Nat → ℚ × ℚ
  | [] => (0, 0)
  | [c] => (|ratOf c|, 0)
  | c :: d :: cs =>
    let r := hornerBnd X (d :: cs)
    ((X * r.1 + |ratOf c|) * (1 + uQ) ^ 2 + 3 * etaQ, X * r.2 + (uQ * (2 * (X * r.1) + |ratOf c|) * (1 + uQ) + 3 * etaQ))

/-- side conditions: coefficients finite, every intermediate magnitude small -/
def hornerOk (X : ℚ) : List Nat → Bool
  | [] => false
  | [c] => finiteB c && decide (|ratOf c| ≤ 1000)
  | c :: d :: cs =>
    finiteB c && decide (|ratOf c| ≤ 1000) && decide (X * (hornerBnd X (d :: cs)).1 ≤ 1000) && hornerOk X (d :: cs)

theorem horner_err (fm : Bool) (x : Nat) (X : ℚ) (hx : Bnd x X) (cs : List Nat) (hok : hornerOk X cs = true) :
    Bnd (hornerF fm x cs) ((hornerBnd X cs).1 : ℚ) ∧
    |toReal (hornerF fm x cs) - evalR (cs.map ratOf) (toReal x)| ≤ (((hornerBnd X cs).2 : ℚ) : ℝ) := by
  have hX0 : (0:ℝ) ≤ (X:ℝ) := le_trans (abs_nonneg _) hx.2
  induction cs with
  | nil => simp [hornerOk] at hok
  | cons c cs ih =>
    cases cs with
    | nil =>
      simp only [hornerOk, Bool.and_eq_true, decide_eq_true_eq] at hok
      have hf := finite_of_finiteB c hok.1
      simp only [hornerF, hornerBnd, List.map, evalR_cons, evalR_nil, mul_zero, add_zero]
      refine ⟨⟨hf, ?_⟩, ?_⟩
      · rw [← ratOf_cast]; push_cast; exact le_refl _
      · rw [ratOf_cast]; simp
    | cons d cs =>
      simp only [hornerOk, Bool.and_eq_true, decide_eq_true_eq] at hok
      obtain ⟨⟨⟨hfc, hc1000⟩, hxs⟩, hrest⟩ := hok
      obtain ⟨hb, herr⟩ := ih hrest
      have hf := finite_of_finiteB c hfc
      have hcb : Bnd c ((|ratOf c| : ℚ) : ℝ) := ⟨hf, by rw [← ratOf_cast]; push_cast; exact le_refl _⟩
      have h1 : ((X:ℝ)) * (((hornerBnd X (d :: cs)).1 : ℚ) : ℝ) ≤ 1000 := by exact_mod_cast hxs
      have h2 : (((|ratOf c| : ℚ)) : ℝ) ≤ 1000 := by exact_mod_cast hc1000
      obtain ⟨hm, hme⟩ := madd_bnd fm x (hornerF fm x (d :: cs)) c _ _ _ hx hb hcb h1 h2
      have hu : ((uQ : ℚ) : ℝ) = u := by rw [u_val]; unfold uQ; push_cast; ring
      have he : eta ≤ ((etaQ : ℚ) : ℝ) := by unfold etaQ; push_cast; exact eta_le
      have hS0 : (0:ℝ) ≤ (((hornerBnd X (d :: cs)).1 : ℚ) : ℝ) := le_trans (abs_nonneg _) hb.2
      have hc0 : (0:ℝ) ≤ (((|ratOf c| : ℚ)) : ℝ) := by push_cast; exact abs_nonneg _
      have hu0 := u_pos
      refine ⟨⟨hm.1, le_trans hm.2 ?_⟩, ?_⟩
      · show _ ≤ ((((X * (hornerBnd X (d :: cs)).1 + |ratOf c|) * (1 + uQ) ^ 2 + 3 * etaQ : ℚ)) : ℝ)
        push_cast
        rw [hu]
        push_cast at h1 h2 hc0 ⊢
        nlinarith
      · show _ ≤ (((X * (hornerBnd X (d :: cs)).2 + (uQ * (2 * (X * (hornerBnd X (d :: cs)).1) + |ratOf c|) * (1 + uQ) + 3 * etaQ) : ℚ)) : ℝ)
        have hev : evalR ((c :: d :: cs).map ratOf) (toReal x) = toReal x * evalR ((d :: cs).map ratOf) (toReal x) + toReal c := by
          simp only [List.map, evalR_cons]; rw [ratOf_cast]; ring
        rw [hev]
        have hsplit : toReal (hornerF fm x (c :: d :: cs)) - (toReal x * evalR ((d :: cs).map ratOf) (toReal x) + toReal c)
            = (toReal (multiplyAdd fm x (hornerF fm x (d :: cs)) c) - (toReal x * toReal (hornerF fm x (d :: cs)) + toReal c))
              + toReal x * (toReal (hornerF fm x (d :: cs)) - evalR ((d :: cs).map ratOf) (toReal x)) := by
          simp only [hornerF]; ring
        rw [hsplit]
        refine le_trans (abs_add_le _ _) ?_
        have hx2 : |toReal x * (toReal (hornerF fm x (d :: cs)) - evalR ((d :: cs).map ratOf) (toReal x))|
            ≤ (X:ℝ) * (((hornerBnd X (d :: cs)).2 : ℚ) : ℝ) := by
          rw [abs_mul]; exact mul_le_mul hx.2 herr (abs_nonneg _) hX0
        push_cast
        rw [hu]
        push_cast at hme hc0 ⊢
        nlinarith


/-! ### refined bound: interval enclosures of the partial sums on a piece `x ∈ [xl, xh]`, `0 ≤ xl`
(the absolute-value recursion above is hopeless for alternating coefficients such as those of `log2`) -/

/-- one `multiply_add(a, b, c)` in terms of bounds on the exact product and the exact sum -/
theorem madd_err2 (fm : Bool) (a b c : Nat) (P S : ℝ) (ha : Finite a) (hb : Finite b) (hc : Finite c)
    (hP : |toReal a * toReal b| ≤ P) (hS : |toReal a * toReal b + toReal c| ≤ S) (hP1 : P ≤ 1000) (hS1 : S ≤ 1000) :
    Finite (multiplyAdd fm a b c) ∧
    |toReal (multiplyAdd fm a b c) - (toReal a * toReal b + toReal c)| ≤ u * (P * (1 + u) + S) + 3 * eta := by
  have hu := u_pos; have he := eta_pos
  have hu1 : u ≤ 1 := by rw [u_val]; norm_num
  have he1 : eta ≤ 1 := le_trans eta_le (by norm_num)
  have hP0 : 0 ≤ P := le_trans (abs_nonneg _) hP
  have hS0 : 0 ≤ S := le_trans (abs_nonneg _) hS
  have k1 : eta * u ≤ eta := by nlinarith
  have k2 : 0 ≤ P * u := mul_nonneg hP0 hu.le
  have k3 : 0 ≤ P * u * u := mul_nonneg k2 hu.le
  unfold multiplyAdd
  cases fm
  · simp only [Bool.false_eq_true, if_false]
    have hAB : |toReal a| * |toReal b| ≤ P := by rw [← abs_mul]; exact hP
    obtain ⟨hp, hpe⟩ := mul_bnd a b |toReal a| |toReal b| ⟨ha, le_refl _⟩ ⟨hb, le_refl _⟩ (fit_small _ (by linarith))
    have hpe' : |toReal (mul a b) - toReal a * toReal b| ≤ u * P + eta := by
      have := mul_le_mul_of_nonneg_left hAB hu.le; linarith
    have hsum : |toReal (mul a b) + toReal c| ≤ S + (u * P + eta) := by
      have e : toReal (mul a b) + toReal c = (toReal a * toReal b + toReal c) + (toReal (mul a b) - toReal a * toReal b) := by ring
      rw [e]; exact le_trans (abs_add_le _ _) (add_le_add hS hpe')
    obtain ⟨hs, hse⟩ := add_val (mul a b) c hp.1 hc (fit_small _ (by nlinarith))
    refine ⟨hs, ?_⟩
    have : |toReal (add (mul a b) c) - (toReal a * toReal b + toReal c)|
        ≤ |toReal (add (mul a b) c) - (toReal (mul a b) + toReal c)| + |toReal (mul a b) - toReal a * toReal b| := by
      have e : toReal (add (mul a b) c) - (toReal a * toReal b + toReal c)
          = (toReal (add (mul a b) c) - (toReal (mul a b) + toReal c)) + (toReal (mul a b) - toReal a * toReal b) := by ring
      rw [e]; exact abs_add_le _ _
    refine le_trans this ?_
    have h3 : u * |toReal (mul a b) + toReal c| ≤ u * (S + (u * P + eta)) := mul_le_mul_of_nonneg_left hsum hu.le
    nlinarith
  · simp only [if_true]
    obtain ⟨hs, hse⟩ := fma_val a b c ha hb hc (fit_small _ (by linarith))
    refine ⟨hs, le_trans hse ?_⟩
    have h3 : u * |toReal a * toReal b + toReal c| ≤ u * S := mul_le_mul_of_nonneg_left hS hu.le
    nlinarith

/-- (lower end, upper end of the real partial sum; error bound of the float partial sum) for `x ∈ [xl, xh]` -/
def hornerB2 (xl xh : ℚ) : List Nat → ℚ × ℚ × ℚ
  | [] => (0, 0, 0)
  | [c] => (ratOf c, ratOf c, 0)
  | c :: d :: cs =>
    let r := hornerB2 xl xh (d :: cs)
    let lo' := ratOf c + min (xl * r.1) (xh * r.1)
    let hi' := ratOf c + max (xl * r.2.1) (xh * r.2.1)
    let P := xh * (max |r.1| |r.2.1| + r.2.2)
    let S := max |lo'| |hi'| + xh * r.2.2
    (lo', hi', xh * r.2.2 + (uQ * (P * (1 + uQ) + S) + 3 * etaQ))

def hornerOk2 (xl xh : ℚ) : List Nat → Bool
  | [] => false
  | [c] => finiteB c
  | c :: d :: cs =>
    let r := hornerB2 xl xh (d :: cs)
    let lo' := ratOf c + min (xl * r.1) (xh * r.1)
    let hi' := ratOf c + max (xl * r.2.1) (xh * r.2.1)
    finiteB c && decide (xh * (max |r.1| |r.2.1| + r.2.2) ≤ 1000) && decide (max |lo'| |hi'| + xh * r.2.2 ≤ 1000) && hornerOk2 xl xh (d :: cs)

theorem horner_err2 (fm : Bool) (x : Nat) (xl xh : ℚ) (hx : Finite x) (hxl : (xl:ℝ) ≤ toReal x) (hxh : toReal x ≤ (xh:ℝ))
    (h0 : 0 ≤ xl) (cs : List Nat) (hok : hornerOk2 xl xh cs = true) :
    Finite (hornerF fm x cs) ∧
    (((hornerB2 xl xh cs).1 : ℚ) : ℝ) ≤ evalR (cs.map ratOf) (toReal x) ∧
    evalR (cs.map ratOf) (toReal x) ≤ (((hornerB2 xl xh cs).2.1 : ℚ) : ℝ) ∧
    |toReal (hornerF fm x cs) - evalR (cs.map ratOf) (toReal x)| ≤ (((hornerB2 xl xh cs).2.2 : ℚ) : ℝ) := by
  have hxl0 : (0:ℝ) ≤ (xl:ℝ) := by exact_mod_cast h0
  have hx0 : (0:ℝ) ≤ toReal x := le_trans hxl0 hxl
  have hxh0 : (0:ℝ) ≤ (xh:ℝ) := le_trans hx0 hxh
  induction cs with
  | nil => simp [hornerOk2] at hok
  | cons c cs ih =>
    cases cs with
    | nil =>
      simp only [hornerOk2] at hok
      have hf := finite_of_finiteB c hok
      simp only [hornerF, hornerB2, List.map, evalR_cons, evalR_nil, mul_zero, add_zero]
      refine ⟨hf, le_refl _, le_refl _, ?_⟩
      rw [ratOf_cast]; simp
    | cons d cs =>
      simp only [hornerOk2, Bool.and_eq_true, decide_eq_true_eq] at hok
      obtain ⟨⟨⟨hfc, hP1⟩, hS1⟩, hrest⟩ := hok
      obtain ⟨hfin, hlo, hhi, herr⟩ := ih hrest
      have hf := finite_of_finiteB c hfc
      set r := hornerB2 xl xh (d :: cs) with hr
      set s := evalR ((d :: cs).map ratOf) (toReal x) with hs
      set sh := toReal (hornerF fm x (d :: cs)) with hsh
      have hE0 : (0:ℝ) ≤ ((r.2.2 : ℚ) : ℝ) := le_trans (abs_nonneg _) herr
      have hsabs : |s| ≤ ((max |r.1| |r.2.1| : ℚ) : ℝ) := by
        push_cast
        rw [abs_le]
        constructor
        · have := neg_abs_le ((r.1 : ℚ) : ℝ)
          have := le_max_left |((r.1 : ℚ) : ℝ)| |((r.2.1 : ℚ) : ℝ)|
          linarith
        · have := le_abs_self ((r.2.1 : ℚ) : ℝ)
          have := le_max_right |((r.1 : ℚ) : ℝ)| |((r.2.1 : ℚ) : ℝ)|
          linarith
      have hshabs : |sh| ≤ ((max |r.1| |r.2.1| : ℚ) : ℝ) + ((r.2.2 : ℚ) : ℝ) := by
        have := abs_sub_abs_le_abs_sub sh s
        linarith
      -- exact product and sum
      have hPb : |toReal x * sh| ≤ ((xh * (max |r.1| |r.2.1| + r.2.2) : ℚ) : ℝ) := by
        rw [abs_mul, abs_of_nonneg hx0]
        push_cast
        push_cast at hshabs
        exact mul_le_mul hxh hshabs (abs_nonneg _) hxh0
      -- the new real partial sum
      have hnew : evalR ((c :: d :: cs).map ratOf) (toReal x) = toReal c + toReal x * s := by
        simp only [List.map, evalR_cons]; rw [ratOf_cast]; simp only [hs, List.map, evalR_cons]
      have hxs_lo : ((min (xl * r.1) (xh * r.1) : ℚ) : ℝ) ≤ toReal x * s := by
        push_cast
        by_cases hl : 0 ≤ ((r.1 : ℚ) : ℝ)
        · calc min ((xl:ℝ) * ((r.1 : ℚ) : ℝ)) ((xh:ℝ) * ((r.1 : ℚ) : ℝ)) ≤ (xl:ℝ) * ((r.1 : ℚ) : ℝ) := min_le_left _ _
            _ ≤ toReal x * ((r.1 : ℚ) : ℝ) := mul_le_mul_of_nonneg_right hxl hl
            _ ≤ toReal x * s := mul_le_mul_of_nonneg_left hlo hx0
        · have hl' := le_of_lt (not_le.mp hl)
          calc min ((xl:ℝ) * ((r.1 : ℚ) : ℝ)) ((xh:ℝ) * ((r.1 : ℚ) : ℝ)) ≤ (xh:ℝ) * ((r.1 : ℚ) : ℝ) := min_le_right _ _
            _ ≤ toReal x * ((r.1 : ℚ) : ℝ) := by nlinarith
            _ ≤ toReal x * s := mul_le_mul_of_nonneg_left hlo hx0
      have hxs_hi : toReal x * s ≤ ((max (xl * r.2.1) (xh * r.2.1) : ℚ) : ℝ) := by
        push_cast
        by_cases hl : 0 ≤ ((r.2.1 : ℚ) : ℝ)
        · calc toReal x * s ≤ toReal x * ((r.2.1 : ℚ) : ℝ) := mul_le_mul_of_nonneg_left hhi hx0
            _ ≤ (xh:ℝ) * ((r.2.1 : ℚ) : ℝ) := mul_le_mul_of_nonneg_right hxh hl
            _ ≤ _ := le_max_right _ _
        · have hl' := le_of_lt (not_le.mp hl)
          calc toReal x * s ≤ toReal x * ((r.2.1 : ℚ) : ℝ) := mul_le_mul_of_nonneg_left hhi hx0
            _ ≤ (xl:ℝ) * ((r.2.1 : ℚ) : ℝ) := by nlinarith
            _ ≤ _ := le_max_left _ _
      set lo' := ratOf c + min (xl * r.1) (xh * r.1) with hlo'
      set hi' := ratOf c + max (xl * r.2.1) (xh * r.2.1) with hhi'
      have hnl : ((lo' : ℚ) : ℝ) ≤ toReal c + toReal x * s := by
        rw [hlo']; push_cast; rw [ratOf_cast]; push_cast at hxs_lo; linarith
      have hnh : toReal c + toReal x * s ≤ ((hi' : ℚ) : ℝ) := by
        rw [hhi']; push_cast; rw [ratOf_cast]; push_cast at hxs_hi; linarith
      have hnabs : |toReal c + toReal x * s| ≤ ((max |lo'| |hi'| : ℚ) : ℝ) := by
        push_cast
        rw [abs_le]
        constructor
        · have := neg_abs_le ((lo' : ℚ) : ℝ)
          have := le_max_left |((lo' : ℚ) : ℝ)| |((hi' : ℚ) : ℝ)|
          linarith
        · have := le_abs_self ((hi' : ℚ) : ℝ)
          have := le_max_right |((lo' : ℚ) : ℝ)| |((hi' : ℚ) : ℝ)|
          linarith
      have hxe : |toReal x * (sh - s)| ≤ (xh:ℝ) * ((r.2.2 : ℚ) : ℝ) := by
        rw [abs_mul, abs_of_nonneg hx0]; exact mul_le_mul hxh herr (abs_nonneg _) hxh0
      have hSb : |toReal x * sh + toReal c| ≤ ((max |lo'| |hi'| + xh * r.2.2 : ℚ) : ℝ) := by
        have e : toReal x * sh + toReal c = (toReal c + toReal x * s) + toReal x * (sh - s) := by ring
        rw [e]
        refine le_trans (abs_add_le _ _) ?_
        push_cast
        push_cast at hnabs
        linarith
      have hP1' : ((xh * (max |r.1| |r.2.1| + r.2.2) : ℚ) : ℝ) ≤ 1000 := by exact_mod_cast hP1
      have hS1' : ((max |lo'| |hi'| + xh * r.2.2 : ℚ) : ℝ) ≤ 1000 := by exact_mod_cast hS1
      obtain ⟨hmf, hme⟩ := madd_err2 fm x (hornerF fm x (d :: cs)) c _ _ hx hfin hf hPb hSb hP1' hS1'
      have hu : ((uQ : ℚ) : ℝ) = u := by rw [u_val]; unfold uQ; push_cast; ring
      have he : eta ≤ ((etaQ : ℚ) : ℝ) := by unfold etaQ; push_cast; exact eta_le
      refine ⟨hmf, ?_, ?_, ?_⟩
      · rw [hnew]; exact hnl
      · rw [hnew]; exact hnh
      · rw [hnew]
        show _ ≤ (((xh * r.2.2 + (uQ * (xh * (max |r.1| |r.2.1| + r.2.2) * (1 + uQ) + (max |lo'| |hi'| + xh * r.2.2)) + 3 * etaQ)) : ℚ) : ℝ)
        have hsplit : toReal (hornerF fm x (c :: d :: cs)) - (toReal c + toReal x * s)
            = (toReal (multiplyAdd fm x (hornerF fm x (d :: cs)) c) - (toReal x * sh + toReal c)) + toReal x * (sh - s) := by
          simp only [hornerF]; ring
        rw [hsplit]
        refine le_trans (abs_add_le _ _) ?_
        push_cast
        rw [hu]
        push_cast at hme hxe
        linarith

end Horner
