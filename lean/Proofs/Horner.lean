import Proofs.ExpPoly
import Proofs.F32Approx
import Model.Math
/-! Rounding-error analysis of the Horner scheme `poly5` (any degree, both values of the FMA flag), with the bound itself a
rational *computed* from the coefficient bit patterns, so that it is re-evaluated when the constants are regenerated. -/
namespace Horner
open F32 MathM Real PolyCert ExpPoly

/-- one `multiply_add(a, b, c)`: fused or not -/
theorem madd_bnd (fm : Bool) (a b c : Nat) (A B Cc : ℝ) (ha : Bnd a A) (hb : Bnd b B) (hc : Bnd c Cc)
    (hAB : A * B ≤ 1000) (hC : Cc ≤ 1000) :
    Bnd (multiplyAdd fm a b c) ((A * B + Cc) * (1 + u) ^ 2 + 3 * eta) ∧
    |toReal (multiplyAdd fm a b c) - (toReal a * toReal b + toReal c)| ≤ u * (2 * (A * B) + Cc) * (1 + u) + 3 * eta := by
  have hu := u_pos; have he := eta_pos
  have hu1 : u ≤ 1 := by rw [u_val]; norm_num
  have he1 : eta ≤ 1 := le_trans eta_le (by norm_num)
  have hA0 : 0 ≤ A := le_trans (abs_nonneg _) ha.2
  have hB0 : 0 ≤ B := le_trans (abs_nonneg _) hb.2
  have hC0 : 0 ≤ Cc := le_trans (abs_nonneg _) hc.2
  have hAB0 : 0 ≤ A * B := mul_nonneg hA0 hB0
  have k1 : eta * u ≤ eta := by nlinarith
  have k2 : 0 ≤ Cc * u := mul_nonneg hC0 hu.le
  have k3 : 0 ≤ Cc * u * u := mul_nonneg k2 hu.le
  have k4 : 0 ≤ A * B * u := mul_nonneg hAB0 hu.le
  have k5 : 0 ≤ A * B * u * u := mul_nonneg k4 hu.le
  unfold multiplyAdd
  cases fm
  · simp only [Bool.false_eq_true, if_false]
    obtain ⟨hp, hpe⟩ := mul_bnd a b A B ha hb (fit_small _ (by linarith))
    have hP : A * B * (1 + u) + eta ≤ 3000 := by nlinarith
    obtain ⟨hs, hse⟩ := add_bnd (mul a b) c _ Cc hp hc (fit_small _ (by linarith))
    refine ⟨⟨hs.1, le_trans hs.2 ?_⟩, ?_⟩
    · nlinarith [k1, k2, k3, k4, k5]
    · have : |toReal (add (mul a b) c) - (toReal a * toReal b + toReal c)|
          ≤ |toReal (add (mul a b) c) - (toReal (mul a b) + toReal c)| + |toReal (mul a b) - toReal a * toReal b| := by
        have e : toReal (add (mul a b) c) - (toReal a * toReal b + toReal c)
            = (toReal (add (mul a b) c) - (toReal (mul a b) + toReal c)) + (toReal (mul a b) - toReal a * toReal b) := by ring
        rw [e]; exact abs_add_le _ _
      refine le_trans this ?_
      nlinarith [k1, k2, k3, k4, k5]
  · simp only [if_true]
    obtain ⟨hs, hse⟩ := fma_bnd a b c A B Cc ha hb hc (fit_small _ (by linarith))
    refine ⟨⟨hs.1, le_trans hs.2 ?_⟩, le_trans hse ?_⟩
    · nlinarith [k1, k2, k3, k4, k5]
    · nlinarith [k1, k2, k3, k4, k5]

/-- `poly_n(x, c0, c1, …)` -/
def hornerF (fm : Bool) (x : Nat) : List Nat → Nat
  | [] => 0
  | [c] => c
  | c :: d :: cs => multiplyAdd fm x (hornerF fm x (d :: cs)) c

theorem poly5_eq (fm : Bool) (x c0 c1 c2 c3 c4 c5 : Nat) :
    poly5 fm x c0 c1 c2 c3 c4 c5 = hornerF fm x [c0, c1, c2, c3, c4, c5] := rfl

def finiteB (a : Nat) : Bool := match decode a with | .fin .. => true | _ => false

theorem finite_of_finiteB (a : Nat) (h : finiteB a = true) : Finite a := by
  unfold finiteB at h
  cases hd : decode a with
  | nan => simp [hd] at h
  | inf s => simp [hd] at h
  | fin n m e => exact ⟨n, m, e, hd⟩

def uQ : ℚ := 1 / 16777216
def etaQ : ℚ := 1 / 10 ^ 40

/-- (magnitude bound, error bound) of the float Horner value for `|x| ≤ X` -/
def hornerBnd (X : ℚ) : List Nat → ℚ × ℚ
  | [] => (0, 0)
  | [c] => (|ratOf c|, 0)
  | c :: d :: cs =>
    let r := hornerBnd X (d :: cs)
    ((X * r.1 + |ratOf c|) * (1 + uQ) ^ 2 + 3 * etaQ, X * r.2 + (uQ * (2 * (X * r.1) + |ratOf c|) * (1 + uQ) + 3 * etaQ))

/-- side conditions: coefficients finite, every intermediate magnitude small -/
def hornerOk (X : ℚ) : List Nat → Bool
  | [] => false
  | [c] => finiteB c && decide (|ratOf c| ≤ 1000)
  | c :: d :: cs =>
    finiteB c && decide (|ratOf c| ≤ 1000) && decide (X * (hornerBnd X (d :: cs)).1 ≤ 1000) && hornerOk X (d :: cs)

theorem horner_err (fm : Bool) (x : Nat) (X : ℚ) (hx : Bnd x X) (cs : List Nat) (hok : hornerOk X cs = true) :
    Bnd (hornerF fm x cs) ((hornerBnd X cs).1 : ℚ) ∧
    |toReal (hornerF fm x cs) - evalR (cs.map ratOf) (toReal x)| ≤ (((hornerBnd X cs).2 : ℚ) : ℝ) := by
  have hX0 : (0:ℝ) ≤ (X:ℝ) := le_trans (abs_nonneg _) hx.2
  induction cs with
  | nil => simp [hornerOk] at hok
  | cons c cs ih =>
    cases cs with
    | nil =>
      simp only [hornerOk, Bool.and_eq_true, decide_eq_true_eq] at hok
      have hf := finite_of_finiteB c hok.1
      simp only [hornerF, hornerBnd, List.map, evalR_cons, evalR_nil, mul_zero, add_zero]
      refine ⟨⟨hf, ?_⟩, ?_⟩
      · rw [← ratOf_cast]; push_cast; exact le_refl _
      · rw [ratOf_cast]; simp
    | cons d cs =>
      simp only [hornerOk, Bool.and_eq_true, decide_eq_true_eq] at hok
      obtain ⟨⟨⟨hfc, hc1000⟩, hxs⟩, hrest⟩ := hok
      obtain ⟨hb, herr⟩ := ih hrest
      have hf := finite_of_finiteB c hfc
      have hcb : Bnd c ((|ratOf c| : ℚ) : ℝ) := ⟨hf, by rw [← ratOf_cast]; push_cast; exact le_refl _⟩
      have h1 : ((X:ℝ)) * (((hornerBnd X (d :: cs)).1 : ℚ) : ℝ) ≤ 1000 := by exact_mod_cast hxs
      have h2 : (((|ratOf c| : ℚ)) : ℝ) ≤ 1000 := by exact_mod_cast hc1000
      obtain ⟨hm, hme⟩ := madd_bnd fm x (hornerF fm x (d :: cs)) c _ _ _ hx hb hcb h1 h2
      have hu : ((uQ : ℚ) : ℝ) = u := by rw [u_val]; unfold uQ; push_cast; ring
      have he : eta ≤ ((etaQ : ℚ) : ℝ) := by unfold etaQ; push_cast; exact eta_le
      have hS0 : (0:ℝ) ≤ (((hornerBnd X (d :: cs)).1 : ℚ) : ℝ) := le_trans (abs_nonneg _) hb.2
      have hc0 : (0:ℝ) ≤ (((|ratOf c| : ℚ)) : ℝ) := by push_cast; exact abs_nonneg _
      have hu0 := u_pos
      refine ⟨⟨hm.1, le_trans hm.2 ?_⟩, ?_⟩
      · show _ ≤ ((((X * (hornerBnd X (d :: cs)).1 + |ratOf c|) * (1 + uQ) ^ 2 + 3 * etaQ : ℚ)) : ℝ)
        push_cast
        rw [hu]
        push_cast at h1 h2 hc0 ⊢
        nlinarith
      · show _ ≤ (((X * (hornerBnd X (d :: cs)).2 + (uQ * (2 * (X * (hornerBnd X (d :: cs)).1) + |ratOf c|) * (1 + uQ) + 3 * etaQ) : ℚ)) : ℝ)
        have hev : evalR ((c :: d :: cs).map ratOf) (toReal x) = toReal x * evalR ((d :: cs).map ratOf) (toReal x) + toReal c := by
          simp only [List.map, evalR_cons]; rw [ratOf_cast]; ring
        rw [hev]
        have hsplit : toReal (hornerF fm x (c :: d :: cs)) - (toReal x * evalR ((d :: cs).map ratOf) (toReal x) + toReal c)
            = (toReal (multiplyAdd fm x (hornerF fm x (d :: cs)) c) - (toReal x * toReal (hornerF fm x (d :: cs)) + toReal c))
              + toReal x * (toReal (hornerF fm x (d :: cs)) - evalR ((d :: cs).map ratOf) (toReal x)) := by
          simp only [hornerF]; ring
        rw [hsplit]
        refine le_trans (abs_add_le _ _) ?_
        have hx2 : |toReal x * (toReal (hornerF fm x (d :: cs)) - evalR ((d :: cs).map ratOf) (toReal x))|
            ≤ (X:ℝ) * (((hornerBnd X (d :: cs)).2 : ℚ) : ℝ) := by
          rw [abs_mul]; exact mul_le_mul hx.2 herr (abs_nonneg _) hX0
        push_cast
        rw [hu]
        push_cast at hme hc0 ⊢
        nlinarith

end Horner
