import Proofs.Log2
/-! `powf(x, y) = exp2(log2(x) * y)` against the real power, and `expf` against the real exponential. -/
namespace Powf
open F32 MathM Real PolyCert ExpPoly Horner

/-- sharp perturbation of the exponent: `|2^(a+δ) - 2^a| ≤ 0.694 |δ| 2^a` for `|δ| ≤ 1/1000` -/
theorem two_pow_pert_sharp (a δ : ℝ) (hδ : |δ| ≤ 1 / 1000) : |(2:ℝ) ^ (a + δ) - (2:ℝ) ^ a| ≤ (694 / 1000) * |δ| * (2:ℝ) ^ a := by
  have h2 : (0:ℝ) < 2 := by norm_num
  rw [Real.rpow_add h2]
  have hpos : 0 < (2:ℝ) ^ a := Real.rpow_pos_of_pos h2 a
  have hd : (2:ℝ) ^ δ = exp (Real.log 2 * δ) := Real.rpow_def_of_pos h2 δ
  have hl0 : 0 ≤ Real.log 2 := Real.log_nonneg (by norm_num)
  have hl1 : Real.log 2 ≤ 0.6931471808 := Real.log_two_lt_d9.le
  set t := Real.log 2 * δ with ht
  have hta : |t| ≤ 0.6931471808 * |δ| := by
    rw [ht, abs_mul, abs_of_nonneg hl0]; exact mul_le_mul_of_nonneg_right hl1 (abs_nonneg _)
  have ht1 : |t| ≤ 1 := by nlinarith [abs_nonneg δ]
  have hq := Real.abs_exp_sub_one_sub_id_le ht1
  have hexp : |exp t - 1| ≤ |t| + t ^ 2 := by
    have e : exp t - 1 = (exp t - 1 - t) + t := by ring
    rw [e]; exact le_trans (abs_add_le _ _) (by linarith)
  have ht2 : t ^ 2 = |t| * |t| := by rw [abs_mul_abs_self t]; ring
  have hb : |exp t - 1| ≤ (694 / 1000) * |δ| := by
    have hd0 := abs_nonneg δ
    have ht0 := abs_nonneg t
    have : |t| * |t| ≤ (0.6931471808 * |δ|) * (0.6931471808 * (1 / 1000)) := by
      apply mul_le_mul hta _ ht0 (by positivity)
      nlinarith
    rw [ht2] at hexp
    nlinarith
  have e : (2:ℝ) ^ a * (2:ℝ) ^ δ - (2:ℝ) ^ a = (2:ℝ) ^ a * ((2:ℝ) ^ δ - 1) := by ring
  rw [e, abs_mul, abs_of_pos hpos, hd]
  nlinarith

/-- `X^y = 2^(log₂ X * y)` -/
theorem rpow_as_two (X y : ℝ) (hX : 0 < X) : X ^ y = (2:ℝ) ^ (Real.logb 2 X * y) := by
  have hl : Real.log 2 ≠ 0 := by have := Real.log_two_gt_d9; linarith
  rw [Real.rpow_def_of_pos hX, Real.rpow_def_of_pos (by norm_num : (0:ℝ) < 2)]
  congr 1
  unfold Real.logb
  field_simp

/-- real-arithmetic core of the `powf` analysis, for any relative accuracy `η` of the final `exp2` -/
theorem powf_core_gen (lh L y z r v η : ℝ) (hl : |lh - L| ≤ 114 / 10 ^ 7 + (1 / 16777216) * |L|)
    (hz : |z - lh * y| ≤ (1 / 16777216) * |lh * y| + 1 / 10 ^ 40) (hy : |y| ≤ 80) (hLy : |L * y| ≤ 117)
    (hv : v = (2:ℝ) ^ (L * y)) (hη : 0 ≤ η) (hr : |r - (2:ℝ) ^ z| ≤ η * (2:ℝ) ^ z) :
    |z - L * y| ≤ (114 / 10 ^ 7) * |y| + 141 / 10 ^ 7 ∧
    |r - v| ≤ ((694 / 1000) * ((114 / 10 ^ 7) * |y| + 141 / 10 ^ 7) + η * (1 + (694 / 1000) * ((114 / 10 ^ 7) * |y| + 141 / 10 ^ 7))) * v := by
  have hy0 := abs_nonneg y
  have h1 : |lh * y - L * y| ≤ (114 / 10 ^ 7) * |y| + (1 / 16777216) * |L * y| := by
    have e : lh * y - L * y = (lh - L) * y := by ring
    rw [e, abs_mul, abs_mul]
    have := mul_le_mul_of_nonneg_right hl hy0
    nlinarith
  have h2 : |lh * y| ≤ 118 := by
    have := abs_sub_abs_le_abs_sub (lh * y) (L * y)
    nlinarith
  have hΔ : |z - L * y| ≤ (114 / 10 ^ 7) * |y| + 141 / 10 ^ 7 := by
    have e : z - L * y = (z - lh * y) + (lh * y - L * y) := by ring
    rw [e]
    refine le_trans (abs_add_le _ _) ?_
    nlinarith
  have hΔ1 : |z - L * y| ≤ 1 / 1000 := by nlinarith
  refine ⟨hΔ, ?_⟩
  have hpos : 0 < v := by rw [hv]; exact Real.rpow_pos_of_pos (by norm_num) _
  have hp := two_pow_pert_sharp (L * y) (z - L * y) hΔ1
  have e : L * y + (z - L * y) = z := by ring
  rw [e, ← hv] at hp
  set w := (2:ℝ) ^ z with hw
  have hwpos : 0 < w := Real.rpow_pos_of_pos (by norm_num) _
  have hwv : |w - v| ≤ ((694 / 1000) * ((114 / 10 ^ 7) * |y| + 141 / 10 ^ 7)) * v := by
    refine le_trans hp ?_
    apply mul_le_mul_of_nonneg_right _ hpos.le
    nlinarith
  exact Exp2.rel_trans v w r ((694 / 1000) * ((114 / 10 ^ 7) * |y| + 141 / 10 ^ 7)) η hpos.le
    (by positivity) hη hwv (by rw [abs_of_pos hwpos]; exact hr)

/-- real-arithmetic core of the `powf` analysis -/
theorem powf_core (lh L y z r v : ℝ) (hl : |lh - L| ≤ 114 / 10 ^ 7 + (1 / 16777216) * |L|)
    (hz : |z - lh * y| ≤ (1 / 16777216) * |lh * y| + 1 / 10 ^ 40) (hy : |y| ≤ 80) (hLy : |L * y| ≤ 117)
    (hv : v = (2:ℝ) ^ (L * y)) (hr : |r - (2:ℝ) ^ z| ≤ (1734 / 10 ^ 7) * (2:ℝ) ^ z) :
    |z - L * y| ≤ 1 / 1000 ∧ |r - v| ≤ (1832 / 10 ^ 7 + (7914 / 10 ^ 9) * |y|) * v := by
  obtain ⟨h1, h2⟩ := powf_core_gen lh L y z r v (1734 / 10 ^ 7) hl hz hy hLy hv (by norm_num) hr
  have hy0 := abs_nonneg y
  have hpos : 0 < v := by rw [hv]; exact Real.rpow_pos_of_pos (by norm_num) _
  refine ⟨by nlinarith, le_trans h2 ?_⟩
  apply mul_le_mul_of_nonneg_right _ hpos.le
  nlinarith

/-- tight form of `powf_close` (fast path, both FMA modes): for every positive normal `x`, every finite `y` with `|y| ≤ 80` whose true
result lies in `[1e-35, 1e35]`, the relative error is at most `2.5e-4 + 8e-6 |y|`. -/
theorem powf_close_tight (fm : Bool) (x y : Nat) (h1 : 8388608 ≤ x) (h2 : x < 2139095040) (hy : Finite y) (hy80 : |toReal y| ≤ 80)
    (hv1 : 1 / 10 ^ 35 ≤ (toReal x) ^ (toReal y)) (hv2 : (toReal x) ^ (toReal y) ≤ 10 ^ 35) :
    ∃ r, powfFast fm x y = .ok r ∧ Finite r ∧
      |toReal r - (toReal x) ^ (toReal y)| ≤ (1832 / 10 ^ 7 + (7914 / 10 ^ 9) * |toReal y|) * (toReal x) ^ (toReal y) := by
  obtain ⟨hlf, hle⟩ := Log2.log2_close fm x h1 h2
  have hu' : u = 1 / 16777216 := u_val
  have he' : eta ≤ 1 / 10 ^ 40 := eta_le
  -- x is positive
  have hxpos : 0 < toReal x := by
    have hk1 : 1 ≤ x / 8388608 := by omega
    have hk2 : x / 8388608 ≤ 254 := by omega
    have hf1 : x % 8388608 < 8388608 := by omega
    have hx : x = (x / 8388608) * 8388608 + x % 8388608 := by omega
    rw [hx, Log2.x_val _ _ hk1 hk2 hf1]
    positivity
  set X := toReal x with hX
  set Y := toReal y with hY
  set L := Real.logb 2 X with hL
  have hv := rpow_as_two X Y hxpos
  -- |L * Y| ≤ 117
  have hLy : |L * Y| ≤ 117 := by
    have hlog : L * Y = Real.logb 2 (X ^ Y) := by rw [Real.logb_rpow_eq_mul_logb_of_pos hxpos]; ring
    rw [hlog]
    have hvpos : 0 < X ^ Y := Real.rpow_pos_of_pos hxpos _
    rw [abs_le]
    constructor
    · rw [Real.le_logb_iff_rpow_le (by norm_num) hvpos]
      refine le_trans ?_ hv1
      rw [show (-117:ℝ) = ((-117:ℤ):ℝ) by norm_num, Real.rpow_intCast]; norm_num
    · rw [Real.logb_le_iff_le_rpow (by norm_num) hvpos]
      refine le_trans hv2 ?_
      rw [show (117:ℝ) = ((117:ℕ):ℝ) by norm_num, Real.rpow_natCast]; norm_num
  have hLabs : |L| ≤ 150 := by
    -- |log2 of a normal float| ≤ 128; a crude bound through the error statement is not available, use the float bound
    have hk1 : 1 ≤ x / 8388608 := by omega
    have hk2 : x / 8388608 ≤ 254 := by omega
    have hf1 : x % 8388608 < 8388608 := by omega
    have hx : x = (x / 8388608) * 8388608 + x % 8388608 := by omega
    have hfr : ((x % 8388608 : ℕ) : ℝ) < 8388608 := by exact_mod_cast hf1
    have hf0 : (0:ℝ) ≤ ((x % 8388608 : ℕ) : ℝ) := Nat.cast_nonneg _
    have hxv : X = ((((x % 8388608 : ℕ) : ℝ) + 8388608) / 8388608) * (2:ℝ) ^ (((x / 8388608 : ℕ) : ℤ) - 127) := by
      rw [hX]; conv_lhs => rw [hx]
      exact Log2.x_val _ _ hk1 hk2 hf1
    set m := (((x % 8388608 : ℕ) : ℝ) + 8388608) / 8388608 with hm
    have hm1 : 1 ≤ m := by rw [hm, le_div_iff₀ (by norm_num)]; linarith
    have hm2 : m ≤ 2 := by rw [hm, div_le_iff₀ (by norm_num)]; linarith
    have hlg : L = Real.logb 2 m + ((((x / 8388608 : ℕ) : ℤ) - 127 : ℤ) : ℝ) := by
      rw [hL, hxv, Real.logb_mul (by linarith) (by positivity), ← Real.rpow_intCast, Real.logb_rpow (by norm_num) (by norm_num)]
    have a : 0 ≤ Real.logb 2 m := Real.logb_nonneg (by norm_num) hm1
    have b : Real.logb 2 m ≤ 1 := by
      rw [Real.logb_le_iff_le_rpow (by norm_num) (by linarith)]; norm_num; linarith
    have c1 : (-126:ℝ) ≤ ((((x / 8388608 : ℕ) : ℤ) - 127 : ℤ) : ℝ) := by
      have : (-126:ℤ) ≤ ((x / 8388608 : ℕ) : ℤ) - 127 := by omega
      exact_mod_cast this
    have c2 : ((((x / 8388608 : ℕ) : ℤ) - 127 : ℤ) : ℝ) ≤ 127 := by
      have : ((x / 8388608 : ℕ) : ℤ) - 127 ≤ 127 := by omega
      exact_mod_cast this
    rw [hlg, abs_le]; constructor <;> linarith
  set lh := toReal (log2 fm x) with hlh
  have hlhabs : |lh| ≤ 151 := by
    have := abs_sub_abs_le_abs_sub lh L
    nlinarith
  -- the product
  obtain ⟨hzb, hze⟩ := mul_bnd (log2 fm x) y |lh| |Y| ⟨hlf, le_refl _⟩ ⟨hy, le_refl _⟩ (fit_small _ (by nlinarith [abs_nonneg lh, abs_nonneg Y]))
  set z := toReal (mul (log2 fm x) y) with hz
  have hze' : |z - lh * Y| ≤ (1 / 16777216) * |lh * Y| + 1 / 10 ^ 40 := by rw [abs_mul, ← hu']; linarith
  -- exp2 needs |z| ≤ 124: from the core bound |z - L Y| ≤ 1/1000
  have hzabs : |z| ≤ 124 := by
    have h1' : |lh * Y - L * Y| ≤ (114 / 10 ^ 7) * |Y| + (1 / 16777216) * |L * Y| := by
      have e : lh * Y - L * Y = (lh - L) * Y := by ring
      rw [e, abs_mul, abs_mul]
      have := mul_le_mul_of_nonneg_right hle (abs_nonneg Y)
      nlinarith
    have h2' : |lh * Y| ≤ 118 := by
      have := abs_sub_abs_le_abs_sub (lh * Y) (L * Y)
      nlinarith [abs_nonneg Y]
    have := abs_sub_abs_le_abs_sub z (lh * Y)
    nlinarith
  obtain ⟨r, hr, hrf, hre⟩ := Exp2.exp2_close fm (mul (log2 fm x) y) hzb.1 hzabs
  refine ⟨r, hr, hrf, ?_⟩
  exact (powf_core lh L Y z (toReal r) (X ^ Y) hle hze' hy80 hLy hv hre).2

/-- **`powf`** (fast path, both FMA modes): for every positive normal `x`, every finite `y` with `|y| ≤ 80` whose true
result lies in `[1e-35, 1e35]`, the relative error is at most `2.5e-4 + 8e-6 |y|`. -/
theorem powf_close (fm : Bool) (x y : Nat) (h1 : 8388608 ≤ x) (h2 : x < 2139095040) (hy : Finite y) (hy80 : |toReal y| ≤ 80)
    (hv1 : 1 / 10 ^ 35 ≤ (toReal x) ^ (toReal y)) (hv2 : (toReal x) ^ (toReal y) ≤ 10 ^ 35) :
    ∃ r, powfFast fm x y = .ok r ∧ Finite r ∧
      |toReal r - (toReal x) ^ (toReal y)| ≤ (25 / 10 ^ 5 + (8 / 10 ^ 6) * |toReal y|) * (toReal x) ^ (toReal y) := by
  obtain ⟨r, h1', h2', h3'⟩ := powf_close_tight fm x y h1 h2 hy hy80 hv1 hv2
  refine ⟨r, h1', h2', le_trans h3' ?_⟩
  apply mul_le_mul_of_nonneg_right _ (le_trans (by positivity) hv1)
  nlinarith [abs_nonneg (toReal y)]

end Powf
