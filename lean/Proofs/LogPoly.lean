import Proofs.ExpPoly
import Mathlib.Analysis.SpecialFunctions.Log.Deriv
import Mathlib.Analysis.SpecialFunctions.Log.Base
/-! `log2` on `[1, 2]` versus a rational polynomial, over the reals: the substitution `m = (1+z)/(1-z)` turns
`log m` into the odd series `2 (z + z^3/3 + …)` whose remainder Mathlib bounds explicitly
(`Real.abs_log_sub_add_sum_range_le`); what remains is a polynomial inequality in `z ∈ [0, 1/3]`, certified by
`Proofs/PolyCert.lean`. -/
namespace LogPoly
open PolyCert Real

/-- `Σ_k p_k A^k B^(n-k)` with `A = 1 + z`, `B = 1 - z`: the numerator of `p((1+z)/(1-z))` over `(1-z)^n` -/
def homogP : List ℚ → Nat → List ℚ
  | [], _ => []
  | c :: p, n => addP (scaleP c (powP [1, -1] n)) (mulP [1, 1] (homogP p (n - 1)))

theorem evalR_homogP (p : List ℚ) (n : Nat) (hn : p.length ≤ n + 1) (z : ℝ) (hz : 1 - z ≠ 0) :
    evalR (homogP p n) z = (1 - z) ^ n * evalR p ((1 + z) / (1 - z)) := by
  induction p generalizing n with
  | nil => simp [homogP]
  | cons c p ih =>
    simp only [homogP, evalR_addP, evalR_scaleP, evalR_powP, evalR_mulP, evalR_cons, evalR_nil]
    cases p with
    | nil => simp [homogP]; ring
    | cons d p =>
      have hn' : 1 ≤ n := by simp at hn; omega
      rw [ih (n - 1) (by simp at hn ⊢; omega)]
      obtain ⟨k, rfl⟩ : ∃ k, n = k + 1 := ⟨n - 1, by omega⟩
      simp only [Nat.add_sub_cancel]
      push_cast
      field_simp
      ring

/-- coefficients `1/k, 1/(k+1), …` -/
def sFrom (k : Nat) : Nat → List ℚ
  | 0 => []
  | n + 1 => (1 / (k : ℚ)) :: sFrom (k + 1) n

theorem evalR_sFrom (k n : Nat) (x : ℝ) :
    evalR (sFrom k n) x = ∑ j ∈ Finset.range n, x ^ j / ((k + j : ℕ) : ℝ) := by
  induction n generalizing k with
  | zero => simp [sFrom]
  | succ n ih =>
    rw [Finset.sum_range_succ', sFrom, evalR_cons, ih (k + 1)]
    simp only [pow_zero, Nat.add_zero]
    rw [Finset.mul_sum]
    push_cast
    have : ∀ j ∈ Finset.range n, x * (x ^ j / ((k:ℝ) + 1 + (j:ℝ))) = x ^ (j + 1) / ((k:ℝ) + ((j:ℝ) + 1)) := by
      intro j _
      have : (k:ℝ) + 1 + (j:ℝ) = (k:ℝ) + ((j:ℝ) + 1) := by ring
      rw [this]; ring
    rw [Finset.sum_congr rfl this]
    ring

/-- `x + x^2/2 + … + x^n/n` -/
def sP (n : Nat) : List ℚ := 0 :: sFrom 1 n

theorem evalR_sP (n : Nat) (x : ℝ) : evalR (sP n) x = ∑ i ∈ Finset.range n, x ^ (i + 1) / ((i:ℝ) + 1) := by
  unfold sP
  rw [evalR_cons, evalR_sFrom, Finset.mul_sum]
  push_cast
  simp only [zero_add]
  apply Finset.sum_congr rfl
  intro j _
  have : (1:ℝ) + (j:ℝ) = (j:ℝ) + 1 := by ring
  rw [this]; ring

/-- the odd series for `log((1+z)/(1-z))`, 22 terms of each logarithm -/
def Wq : List ℚ := subP (sP 22) (dilateP (sP 22) (-1))

theorem log_series (z : ℝ) (h0 : 0 ≤ z) (h1 : z ≤ 1 / 3) :
    |Real.log ((1 + z) / (1 - z)) - evalR Wq z| ≤ 1 / 10 ^ 10 := by
  have hz1 : |z| < 1 := by rw [abs_of_nonneg h0]; linarith
  have hz2 : |-z| < 1 := by rw [abs_neg]; exact hz1
  have a1 := Real.abs_log_sub_add_sum_range_le hz1 22
  have a2 := Real.abs_log_sub_add_sum_range_le hz2 22
  rw [abs_of_nonneg h0] at a1
  rw [abs_neg, abs_of_nonneg h0] at a2
  have e2 : (1:ℝ) - -z = 1 + z := by ring
  rw [e2] at a2
  have hb : z ^ (22 + 1) / (1 - z) ≤ 1 / (4 * 10 ^ 10) := by
    have hp : z ^ 23 ≤ (1 / 3 : ℝ) ^ 23 := pow_le_pow_left₀ h0 h1 23
    have hd : (2:ℝ) / 3 ≤ 1 - z := by linarith
    rw [div_le_iff₀ (by linarith)]
    have : (1 / 3 : ℝ) ^ 23 ≤ 1 / (4 * 10 ^ 10) * (2 / 3) := by norm_num
    nlinarith [pow_nonneg h0 23]
  have hlog : Real.log ((1 + z) / (1 - z)) = Real.log (1 + z) - Real.log (1 - z) :=
    Real.log_div (by linarith) (by linarith)
  have hW : evalR Wq z = (∑ i ∈ Finset.range 22, z ^ (i + 1) / ((i:ℝ) + 1)) - (∑ i ∈ Finset.range 22, (-z) ^ (i + 1) / ((i:ℝ) + 1)) := by
    unfold Wq
    rw [evalR_subP, evalR_dilateP, evalR_sP, evalR_sP]
    push_cast
    have : (-1:ℝ) * z = -z := by ring
    rw [this]
  rw [hlog, hW]
  obtain ⟨b1, b2⟩ := abs_le.mp (le_trans a1 hb)
  obtain ⟨d1, d2⟩ := abs_le.mp (le_trans a2 hb)
  rw [abs_le]
  constructor <;> norm_num at b1 b2 d1 d2 ⊢ <;> linarith


/-! ### the certificate for `G(m) = (m - 1) L(m)` against `log₂ m` on `[1, 2]` -/

def B6 : List ℚ := powP [1, -1] 6
def lam1 : ℚ := 6931471803 / 10 ^ 10
def lam2 : ℚ := 6931471808 / 10 ^ 10

/-- `(m - 1) * L(m)` -/
def Gof (L : List ℚ) : List ℚ := mulP [-1, 1] L
def Nof (L : List ℚ) : List ℚ := homogP (Gof L) 6
def upP (L : List ℚ) (D : ℚ) : List ℚ := addP (subP (scaleP D B6) (Nof L)) (scaleP (1 / lam2) (mulP B6 Wq))
def loP (L : List ℚ) (D : ℚ) : List ℚ := subP (addP (scaleP D B6) (Nof L)) (scaleP (1 / lam1) (mulP B6 Wq))

/-- the kernel-evaluated check: both polynomial inequalities on `z ∈ [0, 1/3]` (32 cells, bisected up to `d` times) -/
def logCheck (L : List ℚ) (D : ℚ) (d : Nat) : Bool :=
  decide (L.length = 6) && nonnegCellsA (upP L D) 0 (1 / 96) d 32 && nonnegCellsA (loP L D) 0 (1 / 96) d 32

theorem evalR_B6 (z : ℝ) : evalR B6 z = (1 - z) ^ 6 := by
  unfold B6; rw [evalR_powP]; simp; ring

/-- last step of `logCheck_sound`, over the reals -/
theorem final_log (G W lm l2 D : ℝ) (hU : G - (1 / 0.6931471808) * W ≤ D) (hL : -D ≤ G - (1 / 0.6931471803) * W)
    (e1 : -(1 / 10 ^ 10) ≤ lm - W) (e2 : lm - W ≤ 1 / 10 ^ 10) (hlm : 0 ≤ lm)
    (ha : (0.6931471803:ℝ) < l2) (hb : l2 < (0.6931471808:ℝ)) : |G - lm / l2| ≤ D + 4 / 10 ^ 10 := by
  have hl2pos : 0 < l2 := by linarith
  have k1 : 1 ≤ (1 / 0.6931471803) * l2 := by
    rw [one_div, ← div_eq_inv_mul, le_div_iff₀ (by norm_num)]; linarith
  have k1' : (1 / 0.6931471803) * l2 ≤ 1 + 1 / 10 ^ 8 := by
    rw [one_div, ← div_eq_inv_mul, div_le_iff₀ (by norm_num)]; linarith
  have k2 : (1 / 0.6931471808) * l2 ≤ 1 := by
    rw [one_div, ← div_eq_inv_mul, div_le_iff₀ (by norm_num)]; linarith
  have k2' : 1 - 1 / 10 ^ 8 ≤ (1 / 0.6931471808) * l2 := by
    have e : (1 / 0.6931471808) * l2 = l2 / 0.6931471808 := by ring
    rw [e, le_div_iff₀ (by norm_num)]; linarith
  have hWlo : -(1 / 10 ^ 10) ≤ W := by linarith
  rw [abs_le]
  constructor
  · have hq : lm / l2 ≤ (1 / 0.6931471803) * W + 4 / 10 ^ 10 := by
      rw [div_le_iff₀ hl2pos]
      have h4 : (4:ℝ) / 10 ^ 10 * l2 ≥ 2 / 10 ^ 10 := by nlinarith
      have hWm : W ≤ (1 / 0.6931471803) * W * l2 + (1 / 10 ^ 10) * (1 / 10 ^ 8) := by
        have e : (1 / 0.6931471803) * W * l2 = W * ((1 / 0.6931471803) * l2) := by ring
        rw [e]
        by_cases hWs : 0 ≤ W
        · have := le_mul_of_one_le_right hWs k1; nlinarith
        · have hWn := le_of_lt (not_le.mp hWs)
          nlinarith
      nlinarith
    linarith
  · have hq : (1 / 0.6931471808) * W - 4 / 10 ^ 10 ≤ lm / l2 := by
      rw [le_div_iff₀ hl2pos]
      have h4 : (4:ℝ) / 10 ^ 10 * l2 ≥ 2 / 10 ^ 10 := by nlinarith
      have hWm : (1 / 0.6931471808) * W * l2 ≤ W + (1 / 10 ^ 10) * (1 / 10 ^ 8) := by
        have e : (1 / 0.6931471808) * W * l2 = W * ((1 / 0.6931471808) * l2) := by ring
        rw [e]
        by_cases hWs : 0 ≤ W
        · have := mul_le_of_le_one_right hWs k2; nlinarith
        · have hWn := le_of_lt (not_le.mp hWs)
          nlinarith
      nlinarith
    linarith

theorem logCheck_sound (L : List ℚ) (D : ℚ) (d : Nat) (hD : 0 ≤ D) (hc : logCheck L D d = true) (m : ℝ) (h1 : 1 ≤ m) (h2 : m ≤ 2) :
    |evalR (Gof L) m - Real.logb 2 m| ≤ (D:ℝ) + 4 / 10 ^ 10 := by
  unfold logCheck at hc
  simp only [Bool.and_eq_true, decide_eq_true_eq] at hc
  obtain ⟨⟨hlen, hup⟩, hlo⟩ := hc
  set z := (m - 1) / (m + 1) with hz
  have hm1 : 0 < m + 1 := by linarith
  have hz0 : 0 ≤ z := div_nonneg (by linarith) hm1.le
  have hz1 : z ≤ 1 / 3 := by rw [hz, div_le_iff₀ hm1]; linarith
  have h1z : 1 - z = 2 / (m + 1) := by rw [hz]; field_simp; ring
  have h1zpos : 0 < 1 - z := by rw [h1z]; positivity
  have hmz : (1 + z) / (1 - z) = m := by rw [hz]; field_simp; ring
  have hlenG : (Gof L).length ≤ 6 + 1 := by
    unfold Gof mulP mulP
    simp only [mulP]
    have h1 : ∀ (p q : List ℚ), (addP p q).length = max p.length q.length := by
      intro p
      induction p with
      | nil => intro q; simp [addP]
      | cons a p ih => intro q; cases q with
        | nil => simp [addP]
        | cons b q => simp [addP, ih]
    simp [h1, scaleP, hlen]
  have hN : evalR (Nof L) z = (1 - z) ^ 6 * evalR (Gof L) m := by
    unfold Nof; rw [evalR_homogP _ 6 hlenG z h1zpos.ne', hmz]
  have hB : 0 < (1 - z) ^ 6 := pow_pos h1zpos 6
  have hU := nonnegCellsA_sound _ 0 (1 / 96) d 32 (by norm_num) (by norm_num) hup z (by push_cast; linarith) (by push_cast; linarith)
  have hL := nonnegCellsA_sound _ 0 (1 / 96) d 32 (by norm_num) (by norm_num) hlo z (by push_cast; linarith) (by push_cast; linarith)
  unfold upP at hU; unfold loP at hL
  simp only [evalR_addP, evalR_subP, evalR_scaleP, evalR_mulP, evalR_B6, hN] at hU hL
  set G := evalR (Gof L) m with hG
  set W := evalR Wq z with hW
  set B := (1 - z) ^ 6 with hBdef
  -- divide by B
  have hU' : G - ((1 / lam2 : ℚ) : ℝ) * W ≤ (D:ℝ) := by
    have : 0 ≤ B * ((D:ℝ) - G + ((1 / lam2 : ℚ) : ℝ) * W) := by nlinarith
    have := (mul_nonneg_iff_of_pos_left hB).mp this
    linarith
  have hL' : -(D:ℝ) ≤ G - ((1 / lam1 : ℚ) : ℝ) * W := by
    have : 0 ≤ B * ((D:ℝ) + G - ((1 / lam1 : ℚ) : ℝ) * W) := by nlinarith
    have := (mul_nonneg_iff_of_pos_left hB).mp this
    linarith
  -- the series
  have hser := log_series z hz0 hz1
  rw [hmz] at hser
  obtain ⟨e1, e2⟩ := abs_le.mp hser
  have hlogm : 0 ≤ Real.log m := Real.log_nonneg h1
  have hl2a : (0.6931471803:ℝ) < Real.log 2 := Real.log_two_gt_d9
  have hl2b : Real.log 2 < (0.6931471808:ℝ) := Real.log_two_lt_d9
  have hl2pos : 0 < Real.log 2 := by linarith
  have hlogb : Real.logb 2 m = Real.log m / Real.log 2 := rfl
  have hlam1 : ((1 / lam1 : ℚ) : ℝ) = 1 / 0.6931471803 := by unfold lam1; push_cast; norm_num
  have hlam2 : ((1 / lam2 : ℚ) : ℝ) = 1 / 0.6931471808 := by unfold lam2; push_cast; norm_num
  rw [hlam2] at hU'; rw [hlam1] at hL'
  rw [hlogb]
  exact final_log G W (Real.log m) (Real.log 2) (D:ℝ) hU' hL' e1 e2 hlogm hl2a hl2b

end LogPoly
