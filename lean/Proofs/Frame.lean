import Model.Frame
/-! Core lemmas about the structural model: buffer coverage, the PlaneIter scan. (core Lean only) -/
namespace FrameP
open FrameM

/-- a plane whose buffer covers its declared geometry: every visible sample has an in-bounds index -/
theorem covers_index (p : Plane) (hc : p.covers = true) (x y : Nat) (hx : x < p.cfg.width) (hy : y < p.cfg.height) :
    p.index x y < p.data.size := by
  unfold Plane.covers at hc
  have hw : ¬ (p.cfg.width = 0 ∨ p.cfg.height = 0) := by omega
  simp only [hw, if_false, decide_eq_true_eq] at hc
  unfold Plane.index
  have h1 : (y + p.cfg.yorigin) * p.cfg.stride ≤ (p.cfg.yorigin + (p.cfg.height - 1)) * p.cfg.stride :=
    Nat.mul_le_mul_right _ (by omega)
  omega

/-- the visible samples, as the model reads them -/
def Plane.sample (p : Plane) (x y : Nat) : Nat := p.data[p.index x y]!

def rowAbove (p : Plane) (maxv yy lo : Nat) : Prop := ∃ x, lo ≤ x ∧ x < p.cfg.width ∧ Plane.sample p x yy > maxv

theorem scanRow_spec (p : Plane) (maxv yy : Nat) (hyy : yy < p.cfg.height) (hc : p.covers = true) :
    ∀ k, k ≤ p.cfg.width → ∃ b, scanRow p maxv yy k = .ok b ∧ (b = true ↔ rowAbove p maxv yy (p.cfg.width - k)) := by
  intro k
  induction k with
  | zero =>
    intro _
    refine ⟨false, rfl, ?_⟩
    simp only [Bool.false_eq_true, false_iff]
    rintro ⟨x, h1, h2, _⟩; omega
  | succ k ih =>
    intro hk
    have hx : p.cfg.width - (k+1) < p.cfg.width := by omega
    have hi := covers_index p hc _ yy hx hyy
    obtain ⟨b, hb, hbi⟩ := ih (by omega)
    unfold scanRow Plane.p
    simp only [hi, dif_pos]
    by_cases hv : p.data[p.index (p.cfg.width - (k+1)) yy] > maxv
    · simp only [hv, if_true]
      refine ⟨true, rfl, ?_⟩
      simp only [true_iff]
      refine ⟨p.cfg.width - (k+1), Nat.le_refl _, hx, ?_⟩
      unfold Plane.sample
      rw [getElem!_pos p.data _ hi]; exact hv
    · simp only [hv, if_false]
      refine ⟨b, hb, ?_⟩
      rw [hbi]
      constructor
      · rintro ⟨x, h1, h2, h3⟩; exact ⟨x, by omega, h2, h3⟩
      · rintro ⟨x, h1, h2, h3⟩
        by_cases hxe : x = p.cfg.width - (k+1)
        · subst hxe
          unfold Plane.sample at h3
          rw [getElem!_pos p.data _ hi] at h3; exact absurd h3 hv
        · exact ⟨x, by omega, h2, h3⟩

def planeAbove (p : Plane) (maxv lo : Nat) : Prop :=
  ∃ x y, lo ≤ y ∧ y < p.cfg.height ∧ x < p.cfg.width ∧ Plane.sample p x y > maxv

theorem scanRows_spec (p : Plane) (maxv : Nat) (hc : p.covers = true) :
    ∀ k, k ≤ p.cfg.height → ∃ b, scanRows p maxv k = .ok b ∧ (b = true ↔ planeAbove p maxv (p.cfg.height - k)) := by
  intro k
  induction k with
  | zero =>
    intro _
    refine ⟨false, rfl, ?_⟩
    simp only [Bool.false_eq_true, false_iff]
    rintro ⟨x, y, h1, h2, _⟩; omega
  | succ k ih =>
    intro hk
    have hy : p.cfg.height - (k+1) < p.cfg.height := by omega
    obtain ⟨br, hbr, hbri⟩ := scanRow_spec p maxv _ hy hc p.cfg.width (Nat.le_refl _)
    obtain ⟨b, hb, hbi⟩ := ih (by omega)
    unfold scanRows
    rw [hbr]
    cases br with
    | true =>
      refine ⟨true, rfl, ?_⟩
      simp only [true_iff]
      obtain ⟨x, _, h2, h3⟩ := hbri.mp rfl
      exact ⟨x, _, Nat.le_refl _, hy, h2, h3⟩
    | false =>
      refine ⟨b, hb, ?_⟩
      rw [hbi]
      constructor
      · rintro ⟨x, y, h1, h2, h3, h4⟩; exact ⟨x, y, by omega, h2, h3, h4⟩
      · rintro ⟨x, y, h1, h2, h3, h4⟩
        by_cases hye : y = p.cfg.height - (k+1)
        · subst hye
          have : rowAbove p maxv (p.cfg.height - (k+1)) (p.cfg.width - p.cfg.width) := ⟨x, by omega, h3, h4⟩
          have := hbri.mpr this
          simp at this
        · exact ⟨x, y, by omega, h2, h3, h4⟩

/-- some visible sample exceeds `maxv` -/
def hasAbove (p : Plane) (maxv : Nat) : Prop := ∃ x y, x < p.cfg.width ∧ y < p.cfg.height ∧ Plane.sample p x y > maxv

/-- the `PlaneIter` scan of a covered plane of positive width (or zero height) decides `hasAbove` and never panics -/
theorem anyAbove_spec (p : Plane) (maxv : Nat) (hc : p.covers = true) (hw : p.cfg.width ≠ 0 ∨ p.cfg.height = 0) :
    ∃ b, p.anyAbove maxv = .ok b ∧ (b = true ↔ hasAbove p maxv) := by
  unfold Plane.anyAbove
  have : ¬ (p.cfg.width = 0 ∧ p.cfg.height ≠ 0) := by omega
  simp only [this, if_false]
  obtain ⟨b, hb, hbi⟩ := scanRows_spec p maxv hc p.cfg.height (Nat.le_refl _)
  refine ⟨b, hb, ?_⟩
  rw [hbi]
  constructor
  · rintro ⟨x, y, _, h2, h3, h4⟩; exact ⟨x, y, h3, h2, h4⟩
  · rintro ⟨x, y, h1, h2, h3⟩; exact ⟨x, y, by omega, h2, h1, h3⟩

end FrameP
