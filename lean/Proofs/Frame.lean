import Model.Frame
/-! Core lemmas about the structural model: buffer coverage, the PlaneIter scan. (core Lean only) -/
namespace FrameP
open FrameM

/-- a plane whose buffer covers its declared geometry: every visible sample has an in-bounds index -/
theorem covers_index (p : Plane) (hc : p.covers = true) (x y : Nat) (hx : x < p.cfg.width) (hy : y < p.cfg.height) :
    p.index x y < p.data.size := by
  unfold Plane.covers at hc
  have hw : ¬ (p.cfg.width = 0 ∨ p.cfg.height = 0) := by omega
  simp only [hw, if_false, Bool.and_eq_true, decide_eq_true_eq] at hc
  replace hc := hc.2
  unfold Plane.index
  have h1 : (y + p.cfg.yorigin) * p.cfg.stride ≤ (p.cfg.yorigin + (p.cfg.height - 1)) * p.cfg.stride :=
    Nat.mul_le_mul_right _ (by omega)
  omega

/-- the visible samples, as the model reads them -/
def Plane.sample (p : Plane) (x y : Nat) : Nat := p.data[p.index x y]!

def rowAbove (p : Plane) (maxv yy lo : Nat) : Prop := ∃ x, lo ≤ x ∧ x < p.cfg.width ∧ Plane.sample p x yy > maxv

theorem scanRow_spec (p : Plane) (maxv yy : Nat) (hyy : yy < p.cfg.height) (hc : p.covers = true) :
    ∀ k, k ≤ p.cfg.width → ∃ b, scanRow p maxv yy k = .ok b ∧ (b = true ↔ rowAbove p maxv yy (p.cfg.width - k)) := by
  intro k
  induction k with
  | zero =>
    intro _
    refine ⟨false, rfl, ?_⟩
    simp only [Bool.false_eq_true, false_iff]
    rintro ⟨x, h1, h2, _⟩; omega
  | succ k ih =>
    intro hk
    have hx : p.cfg.width - (k+1) < p.cfg.width := by omega
    have hi := covers_index p hc _ yy hx hyy
    obtain ⟨b, hb, hbi⟩ := ih (by omega)
    unfold scanRow Plane.p
    simp only [hi, dif_pos]
    by_cases hv : p.data[p.index (p.cfg.width - (k+1)) yy] > maxv
    · simp only [hv, if_true]
      refine ⟨true, rfl, ?_⟩
      simp only [true_iff]
      refine ⟨p.cfg.width - (k+1), Nat.le_refl _, hx, ?_⟩
      unfold Plane.sample
      rw [getElem!_pos p.data _ hi]; exact hv
    · simp only [hv, if_false]
      refine ⟨b, hb, ?_⟩
      rw [hbi]
      constructor
      · rintro ⟨x, h1, h2, h3⟩; exact ⟨x, by omega, h2, h3⟩
      · rintro ⟨x, h1, h2, h3⟩
        by_cases hxe : x = p.cfg.width - (k+1)
        · subst hxe
          unfold Plane.sample at h3
          rw [getElem!_pos p.data _ hi] at h3; exact absurd h3 hv
        · exact ⟨x, by omega, h2, h3⟩

def planeAbove (p : Plane) (maxv lo : Nat) : Prop :=
  ∃ x y, lo ≤ y ∧ y < p.cfg.height ∧ x < p.cfg.width ∧ Plane.sample p x y > maxv

theorem scanRows_spec (p : Plane) (maxv : Nat) (hc : p.covers = true) :
    ∀ k, k ≤ p.cfg.height → ∃ b, scanRows p maxv k = .ok b ∧ (b = true ↔ planeAbove p maxv (p.cfg.height - k)) := by
  intro k
  induction k with
  | zero =>
    intro _
    refine ⟨false, rfl, ?_⟩
    simp only [Bool.false_eq_true, false_iff]
    rintro ⟨x, y, h1, h2, _⟩; omega
  | succ k ih =>
    intro hk
    have hy : p.cfg.height - (k+1) < p.cfg.height := by omega
    obtain ⟨br, hbr, hbri⟩ := scanRow_spec p maxv _ hy hc p.cfg.width (Nat.le_refl _)
    obtain ⟨b, hb, hbi⟩ := ih (by omega)
    unfold scanRows
    rw [hbr]
    cases br with
    | true =>
      refine ⟨true, rfl, ?_⟩
      simp only [true_iff]
      obtain ⟨x, _, h2, h3⟩ := hbri.mp rfl
      exact ⟨x, _, Nat.le_refl _, hy, h2, h3⟩
    | false =>
      refine ⟨b, hb, ?_⟩
      rw [hbi]
      constructor
      · rintro ⟨x, y, h1, h2, h3, h4⟩; exact ⟨x, y, by omega, h2, h3, h4⟩
      · rintro ⟨x, y, h1, h2, h3, h4⟩
        by_cases hye : y = p.cfg.height - (k+1)
        · subst hye
          have : rowAbove p maxv (p.cfg.height - (k+1)) (p.cfg.width - p.cfg.width) := ⟨x, by omega, h3, h4⟩
          have := hbri.mpr this
          simp at this
        · exact ⟨x, y, by omega, h2, h3, h4⟩

/-- some visible sample exceeds `maxv` -/
def hasAbove (p : Plane) (maxv : Nat) : Prop := ∃ x y, x < p.cfg.width ∧ y < p.cfg.height ∧ Plane.sample p x y > maxv

/-- the `PlaneIter` scan of a covered plane of positive width (or zero height) decides `hasAbove` and never panics -/
theorem anyAbove_spec (p : Plane) (maxv : Nat) (hc : p.covers = true) (hw : p.cfg.width ≠ 0 ∨ p.cfg.height = 0) :
    ∃ b, p.anyAbove maxv = .ok b ∧ (b = true ↔ hasAbove p maxv) := by
  unfold Plane.anyAbove
  have : ¬ (p.cfg.width = 0 ∧ p.cfg.height ≠ 0) := by omega
  simp only [this, if_false]
  obtain ⟨b, hb, hbi⟩ := scanRows_spec p maxv hc p.cfg.height (Nat.le_refl _)
  refine ⟨b, hb, ?_⟩
  rw [hbi]
  constructor
  · rintro ⟨x, y, _, h2, h3, h4⟩; exact ⟨x, y, h3, h2, h4⟩
  · rintro ⟨x, y, h1, h2, h3⟩; exact ⟨x, y, by omega, h2, h1, h3⟩


theorem alignPow2_ge (x n : Nat) : x ≤ alignPow2 x n := by
  unfold alignPow2
  have hp : 0 < 2 ^ n := Nat.pow_pos (by decide)
  generalize 2 ^ n = P at *
  have h := Nat.div_add_mod (x + P - 1) P
  have hm := Nat.mod_lt (x + P - 1) hp
  have : P * ((x + P - 1) / P) = (x + P - 1) / P * P := Nat.mul_comm _ _
  omega

theorem planeNew_covers (w h xd yd xp yp tsz : Nat) (data : Array Nat) (hw : 0 < w) (hh : 0 < h)
    (hs : data.size = (Plane.new w h xd yd xp yp tsz).data.size) (hfit : (Plane.new w h xd yd xp yp tsz).data.size ≤ USIZE_MAX) :
    ({ (Plane.new w h xd yd xp yp tsz) with data := data } : Plane).covers = true := by
  unfold Plane.covers
  simp only [hs]
  unfold Plane.new PlaneCfg.new at hfit ⊢
  simp only [Array.size_replicate, Bool.and_eq_true, decide_eq_true_eq] at hfit ⊢
  have hst := alignPow2_ge (alignPow2 xp (6 + 1 - tsz) + w + xp) (6 + 1 - tsz)
  generalize alignPow2 (alignPow2 xp (6 + 1 - tsz) + w + xp) (6 + 1 - tsz) = S at *
  generalize alignPow2 xp (6 + 1 - tsz) = X at *
  have hne : ¬ (w = 0 ∨ h = 0) := by omega
  simp only [hne, if_false]
  have : S * (yp + h + yp) = (yp + (h - 1)) * S + S + yp * S := by
    have : yp + h + yp = (yp + (h - 1)) + 1 + yp := by omega
    rw [this, Nat.mul_add, Nat.mul_add, Nat.mul_one, Nat.mul_comm S, Nat.mul_comm S yp]
  have harea : w * h ≤ S * (yp + h + yp) := Nat.mul_le_mul (by omega) (by omega)
  exact ⟨by omega, by omega⟩


theorem shr_pos (w s : Nat) (hw : 0 < w) (hdiv : w % 2 ^ s = 0) : 0 < w >>> s := by
  rw [Nat.shiftRight_eq_div_pow]
  have hp : 0 < 2 ^ s := Nat.pow_pos (by decide)
  have := Nat.div_add_mod w (2 ^ s)
  rw [hdiv] at this
  rcases Nat.eq_zero_or_pos (w / 2 ^ s) with h0 | h0
  · rw [h0] at this; simp at this; omega
  · exact h0

end FrameP
