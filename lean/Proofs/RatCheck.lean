import Proofs.F32Approx
import Mathlib.Tactic.FieldSimp
import Check.Decode
/-! Soundness of the exact-rational checker `ratDiffLe` with respect to the real-number semantics. -/
namespace CheckDecode
open F32 Real

theorem natAbs_cast (z : Int) : ((z.natAbs : ℕ) : ℝ) = |(z : ℝ)| := by
  rw [← Int.cast_abs, Int.abs_eq_natAbs]; simp

theorem ratDiffLe_sound (a : Nat) (p : Int) (q num den : Nat) (hq : 0 < q) (hden : 0 < den) (h : ratDiffLe a p q num den = true) :
    Finite a ∧ |toReal a - (p:ℝ) / q| ≤ (num:ℝ) / den := by
  unfold ratDiffLe at h
  cases hd : decode a with
  | nan => simp [hd] at h
  | inf s => simp [hd] at h
  | fin n m e =>
    refine ⟨⟨n, m, e, hd⟩, ?_⟩
    rw [hd] at h
    dsimp only at h
    have hqr : (0:ℝ) < q := by exact_mod_cast hq
    have hdr : (0:ℝ) < den := by exact_mod_cast hden
    have hv : toReal a = ((if n then -(m:Int) else (m:Int) : Int) : ℝ) * (2:ℝ)^e := by
      rw [toReal_of_decode _ _ _ _ hd]; unfold valR; cases n <;> simp
    rw [hv]
    generalize (if n then -(m:Int) else (m:Int) : Int) = v at *
    rw [le_div_iff₀ hdr]
    split at h
    · rename_i he
      have h' := of_decide_eq_true h
      have hr : (((v * (2 ^ e.toNat : ℕ) * q - p).natAbs * den : ℕ) : ℝ) ≤ ((num * q : ℕ) : ℝ) := by exact_mod_cast h'
      push_cast at hr
      rw [natAbs_cast] at hr
      push_cast at hr
      have he' : (2:ℝ)^e = (2:ℝ)^(e.toNat) := by
        rw [← zpow_natCast]; congr 1; omega
      rw [he']
      have : |(v:ℝ) * (2:ℝ)^e.toNat - (p:ℝ) / q| * den = |(v:ℝ) * (2:ℝ)^e.toNat * q - p| * den / q := by
        have : (v:ℝ) * (2:ℝ)^e.toNat - (p:ℝ) / q = ((v:ℝ) * (2:ℝ)^e.toNat * q - p) / q := by field_simp
        rw [this, abs_div, abs_of_pos hqr]; ring
      rw [this, div_le_iff₀ hqr]
      linarith
    · rename_i he
      have h' := of_decide_eq_true h
      have hr : (((v * q - p * (2 ^ (-e).toNat : ℕ)).natAbs * den : ℕ) : ℝ) ≤ ((num * q * 2 ^ (-e).toNat : ℕ) : ℝ) := by exact_mod_cast h'
      push_cast at hr
      rw [natAbs_cast] at hr
      push_cast at hr
      have hk : (0:ℝ) < (2:ℝ)^((-e).toNat) := by positivity
      have he' : (2:ℝ)^e = ((2:ℝ)^((-e).toNat))⁻¹ := by
        rw [← zpow_natCast, ← zpow_neg]; congr 1; omega
      rw [he']
      have : |(v:ℝ) * ((2:ℝ)^(-e).toNat)⁻¹ - (p:ℝ) / q| * den = |(v:ℝ) * q - p * (2:ℝ)^(-e).toNat| * den / (q * (2:ℝ)^(-e).toNat) := by
        have : (v:ℝ) * ((2:ℝ)^(-e).toNat)⁻¹ - (p:ℝ) / q = ((v:ℝ) * q - p * (2:ℝ)^(-e).toNat) / (q * (2:ℝ)^(-e).toNat) := by field_simp
        rw [this, abs_div, abs_of_pos (mul_pos hqr hk)]; ring
      rw [this, div_le_iff₀ (mul_pos hqr hk)]
      linarith

end CheckDecode
