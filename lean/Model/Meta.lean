/-! The three av-data metadata enums (every variant) and the crates' error enums. Import-free. -/

inductive MC where
  | Identity | BT709 | Unspecified | Reserved | BT470M | BT470BG | ST170M | ST240M | YCgCo
  | BT2020NonConstantLuminance | BT2020ConstantLuminance | ST2085
  | ChromaticityDerivedNonConstantLuminance | ChromaticityDerivedConstantLuminance | ICtCp
deriving DecidableEq, Repr, Inhabited

inductive CP where
  | Reserved0 | BT709 | Unspecified | Reserved | BT470M | BT470BG | ST170M | ST240M | Film | BT2020 | ST428
  | P3DCI | P3Display | Tech3213
deriving DecidableEq, Repr, Inhabited

inductive TC where
  | Reserved0 | BT1886 | Unspecified | Reserved | BT470M | BT470BG | ST170M | ST240M | Linear | Logarithmic100
  | Logarithmic316 | XVYCC | BT1361E | SRGB | BT2020Ten | BT2020Twelve | PerceptualQuantizer | ST428 | HybridLogGamma
deriving DecidableEq, Repr, Inhabited

/-- `ConversionError` -/
inductive CErr where
  | UnsupportedMatrixCoefficients | UnspecifiedMatrixCoefficients | UnsupportedColorPrimaries | UnspecifiedColorPrimaries
  | UnsupportedTransferCharacteristic | UnspecifiedTransferCharacteristic
deriving DecidableEq, Repr

/-- `YuvError` -/
inductive YuvErr where
  | SubsamplingMismatch | InvalidLumaWidth | InvalidLumaHeight | InvalidData
deriving DecidableEq, Repr

/-- `CreationError` -/
inductive CreationErr where | ResolutionMismatch
deriving DecidableEq, Repr

def MC.all : List MC := [.Identity, .BT709, .Unspecified, .Reserved, .BT470M, .BT470BG, .ST170M, .ST240M, .YCgCo,
  .BT2020NonConstantLuminance, .BT2020ConstantLuminance, .ST2085, .ChromaticityDerivedNonConstantLuminance,
  .ChromaticityDerivedConstantLuminance, .ICtCp]
def CP.all : List CP := [.Reserved0, .BT709, .Unspecified, .Reserved, .BT470M, .BT470BG, .ST170M, .ST240M, .Film, .BT2020, .ST428,
  .P3DCI, .P3Display, .Tech3213]
def TC.all : List TC := [.Reserved0, .BT1886, .Unspecified, .Reserved, .BT470M, .BT470BG, .ST170M, .ST240M, .Linear, .Logarithmic100,
  .Logarithmic316, .XVYCC, .BT1361E, .SRGB, .BT2020Ten, .BT2020Twelve, .PerceptualQuantizer, .ST428, .HybridLogGamma]

def MC.name : MC → String
  | .Identity => "Identity" | .BT709 => "BT709" | .Unspecified => "Unspecified" | .Reserved => "Reserved" | .BT470M => "BT470M"
  | .BT470BG => "BT470BG" | .ST170M => "ST170M" | .ST240M => "ST240M" | .YCgCo => "YCgCo"
  | .BT2020NonConstantLuminance => "BT2020NonConstantLuminance" | .BT2020ConstantLuminance => "BT2020ConstantLuminance"
  | .ST2085 => "ST2085" | .ChromaticityDerivedNonConstantLuminance => "ChromaticityDerivedNonConstantLuminance"
  | .ChromaticityDerivedConstantLuminance => "ChromaticityDerivedConstantLuminance" | .ICtCp => "ICtCp"
def CP.name : CP → String
  | .Reserved0 => "Reserved0" | .BT709 => "BT709" | .Unspecified => "Unspecified" | .Reserved => "Reserved" | .BT470M => "BT470M"
  | .BT470BG => "BT470BG" | .ST170M => "ST170M" | .ST240M => "ST240M" | .Film => "Film" | .BT2020 => "BT2020" | .ST428 => "ST428"
  | .P3DCI => "P3DCI" | .P3Display => "P3Display" | .Tech3213 => "Tech3213"
def TC.name : TC → String
  | .Reserved0 => "Reserved0" | .BT1886 => "BT1886" | .Unspecified => "Unspecified" | .Reserved => "Reserved" | .BT470M => "BT470M"
  | .BT470BG => "BT470BG" | .ST170M => "ST170M" | .ST240M => "ST240M" | .Linear => "Linear" | .Logarithmic100 => "Logarithmic100"
  | .Logarithmic316 => "Logarithmic316" | .XVYCC => "XVYCC" | .BT1361E => "BT1361E" | .SRGB => "SRGB" | .BT2020Ten => "BT2020Ten"
  | .BT2020Twelve => "BT2020Twelve" | .PerceptualQuantizer => "PerceptualQuantizer" | .ST428 => "ST428" | .HybridLogGamma => "HybridLogGamma"
def CErr.name : CErr → String
  | .UnsupportedMatrixCoefficients => "UnsupportedMatrixCoefficients" | .UnspecifiedMatrixCoefficients => "UnspecifiedMatrixCoefficients"
  | .UnsupportedColorPrimaries => "UnsupportedColorPrimaries" | .UnspecifiedColorPrimaries => "UnspecifiedColorPrimaries"
  | .UnsupportedTransferCharacteristic => "UnsupportedTransferCharacteristic"
  | .UnspecifiedTransferCharacteristic => "UnspecifiedTransferCharacteristic"
def YuvErr.name : YuvErr → String
  | .SubsamplingMismatch => "SubsamplingMismatch" | .InvalidLumaWidth => "InvalidLumaWidth" | .InvalidLumaHeight => "InvalidLumaHeight"
  | .InvalidData => "InvalidData"
