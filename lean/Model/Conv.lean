import Model.F32
import Model.F64
/-! f32 <-> f64 conversions (`f64::from(f32)`, `as f32`). -/
namespace Conv
/-- f32 -> f64 (exact) -/
def f32to64 (a : Nat) : Nat :=
  match F32.decode a with
  | .nan => F64.QNAN
  | .inf n => F64.infB n
  | .fin n m e => F64.roundPack n m e
/-- f64 -> f32 (round to nearest even) -/
def f64to32 (a : Nat) : Nat :=
  match F64.decode a with
  | .nan => F32.QNAN
  | .inf n => F32.infB n
  | .fin n m e => F32.roundPack n m e
end Conv
