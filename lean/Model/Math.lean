import Model.Basic
import Model.Conv
import Generated.Consts
/-! Model of yuvxyb-math: mul_add.rs (`multiply_add`), pow_exp.rs (`exp2`, `log2`, `poly0..5`, `powf`, `expf`),
cbrtf.rs (`cbrtf`, `cbrtf_fast`). All numbers come from `Generated.Consts`. -/

/-- libm functions the crates call (`f32::ln`, `log10`, and with fastmath off `powf`, `exp`, `cbrt`).
Parameters of the model: not bit-specified by IEEE 754. -/
structure Libm where
  ln : Nat → Nat
  log10 : Nat → Nat
  powf : Nat → Nat → Nat
  expf : Nat → Nat
  cbrt : Nat → Nat

/-- build configuration: `cfg!(feature = "fastmath")`, `cfg!(target_feature = "fma")`, and libm -/
structure Build where
  fastmath : Bool
  fma : Bool
  libm : Libm

namespace MathM
open F32

/-- `multiply_add(a, b, c)` -/
def multiplyAdd (fm : Bool) (a b c : Nat) : Nat := if fm then F32.fma a b c else add (mul a b) c

/-- `poly5(x, c0..c5)` with poly4..poly0 inlined (Horner) -/
def poly5 (fm : Bool) (x c0 c1 c2 c3 c4 c5 : Nat) : Nat :=
  multiplyAdd fm x (multiplyAdd fm x (multiplyAdd fm x (multiplyAdd fm x (multiplyAdd fm x c5 c4) c3) c2) c1) c0

/-- `x.max(-126.99999).min(129.0)` -/
def exp2Clamp (x : Nat) : Nat := F32.min (F32.max x (neg C.exp2_f0)) C.exp2_f1

/-- everything after the unchecked conversion -/
def exp2Val (fm : Bool) (xc : Nat) (ipart : Int) : Nat :=
  let fpart := sub xc (ofInt ipart)
  let expi : Nat := (((ipart + (C.exp2_i0 : Int)) * (2 ^ C.exp2_i1 : Nat)) % 4294967296).toNat   -- `<<` then `as u32`
  let expf := poly5 fm fpart C.exp2_f3 C.exp2_f4 C.exp2_f5 C.exp2_f6 C.exp2_f7 C.exp2_f8
  mul expi expf

def exp2 (fm : Bool) (x : Nat) : Out Nat :=
  let xc := exp2Clamp x
  match toI32Unchecked (sub xc C.exp2_f2) with
  | .ub => .ub .toInt
  | .ok ipart => .ok (exp2Val fm xc ipart)

def log2 (fm : Bool) (x : Nat) : Nat :=
  let exp : Int := ((x / 8388608) % 256 : Nat) - (C.log2_i3 : Int)      -- ((x_bits & expmask) >> 23) - 127
  let mant := (x % 8388608) + C.log2_f0                                  -- (x_bits & mantmask) | one_bits
  let p := poly5 fm mant C.log2_f1 (neg C.log2_f2) C.log2_f3 (neg C.log2_f4) C.log2_f5 (neg C.log2_f6)
  let p := mul p (sub mant C.log2_f7)
  add p (ofInt exp)

def LOG2_E : Nat := 0x3fb8aa3b   -- core::f32::consts::LOG2_E

def powfFast (fm : Bool) (x y : Nat) : Out Nat := exp2 fm (mul (log2 fm x) y)

def expfFast (fm : Bool) (x : Nat) : Out Nat :=
  let t := mul LOG2_E x
  let ft := floor t
  let fr := sub t ft
  (exp2 fm ft).bind fun a => (exp2 fm fr).bind fun b => .ok (mul a b)

/-- `cbrtf_fast` -/
def cbrtfFast (x : Nat) : Nat :=
  let hx := (x % 2147483648) / C.cbrtf_fast_i1 + C.cbrtf_fast_B1_i0
  let ui := (x / 2147483648 % 2) * 2147483648 + hx
  let xd := Conv.f32to64 x
  let t := Conv.f32to64 ui
  let step (t : Nat) : Nat :=
    let r := F64.mul (F64.mul t t) t
    F64.div (F64.mul t (F64.add (F64.add xd xd) r)) (F64.add (F64.add xd r) r)
  Conv.f64to32 (step (step t))

def powf (B : Build) (x y : Nat) : Out Nat := if B.fastmath then powfFast B.fma x y else .ok (B.libm.powf x y)
def expf (B : Build) (x : Nat) : Out Nat := if B.fastmath then expfFast B.fma x else .ok (B.libm.expf x)
def cbrtf (B : Build) (x : Nat) : Nat := if B.fastmath then cbrtfFast x else B.libm.cbrt x

end MathM
