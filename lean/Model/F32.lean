/-! binary32 softfloat, proof-friendly two-stage rounding. Template: F64 is generated from this file
by substituting the format constants (see gen64.py). Import-free. -/
namespace F32

-- format constants (binary32)
def PREC : Nat := 24              -- significand bits incl. hidden
def FB : Nat := 23                -- fraction bits
def EMASK : Nat := 255
def BIAS : Int := 127
def QMIN : Int := -149            -- exponent of the smallest quantum
def EMAX : Int := 127
def HID : Nat := 8388608          -- 2^FB
def TOP : Nat := 16777216         -- 2^PREC
def SIGN : Nat := 2147483648      -- 2^(FB+8)
def INFB : Nat := 2139095040      -- EMASK * 2^FB
def QNAN : Nat := 2143289344      -- canonical quiet NaN

inductive Val where
  | nan | inf (neg : Bool) | fin (neg : Bool) (m : Nat) (e : Int)
deriving DecidableEq, Repr

def signBit (neg : Bool) : Nat := if neg then SIGN else 0

def decode (bits : Nat) : Val :=
  let frac := bits % HID
  let ex := (bits / HID) % (EMASK + 1)
  let neg := decide ((bits / SIGN) % 2 = 1)
  if ex = EMASK then (if frac = 0 then .inf neg else .nan)
  else if ex = 0 then .fin neg frac QMIN
  else .fin neg (frac + HID) ((ex : Int) + (QMIN - 1))

def rne (m sh : Nat) : Nat :=
  if sh = 0 then m else
  let q := m / 2^sh
  let r := m % 2^sh
  let h := 2^(sh-1)
  if r > h ∨ (r = h ∧ q % 2 = 1) then q + 1 else q

def roundMQ (m : Nat) (e : Int) : Nat × Int :=
  let nb := Nat.log2 m + 1
  let q : Int := max (e + nb - PREC) QMIN
  if q ≤ e then (m * 2^(e - q).toNat, q) else (rne m (q - e).toNat, q)

def encode (neg : Bool) (mant : Nat) (q : Int) : Nat :=
  if mant = TOP then
    (if q + 1 + FB > EMAX then signBit neg + INFB else signBit neg + (q + 1 - QMIN + 1).toNat * HID)
  else if q + FB > EMAX then signBit neg + INFB
  else if mant < HID then signBit neg + mant
  else signBit neg + (q - QMIN + 1).toNat * HID + (mant - HID)

/-- round (-1)^neg * m * 2^e to nearest-even -/
def roundPack (neg : Bool) (m : Nat) (e : Int) : Nat :=
  if m = 0 then signBit neg else
  let p := roundMQ m e
  encode neg p.1 p.2

def infB (neg : Bool) : Nat := signBit neg + INFB
def isNaN (a : Nat) : Bool := match decode a with | .nan => true | _ => false

def neg (a : Nat) : Nat := if a % (2*SIGN) ≥ SIGN then a - SIGN else a + SIGN
def abs (a : Nat) : Nat := if a % (2*SIGN) ≥ SIGN then a - SIGN else a
def signOf (a : Nat) : Bool := decide (a % (2*SIGN) ≥ SIGN)
def copysign (a b : Nat) : Nat := abs a + signBit (signOf b)

/-- exact signed sum of two finite dyadics -/
def addExact (n1 : Bool) (m1 : Nat) (e1 : Int) (n2 : Bool) (m2 : Nat) (e2 : Int) : Bool × Nat × Int :=
  let e := min e1 e2
  let a : Int := if n1 then -((m1 * 2^(e1 - e).toNat : Nat) : Int) else ((m1 * 2^(e1 - e).toNat : Nat) : Int)
  let b : Int := if n2 then -((m2 * 2^(e2 - e).toNat : Nat) : Int) else ((m2 * 2^(e2 - e).toNat : Nat) : Int)
  let s := a + b
  (decide (s < 0), s.natAbs, e)

def add (a b : Nat) : Nat :=
  match decode a, decode b with
  | .nan, _ | _, .nan => QNAN
  | .inf n1, .inf n2 => if n1 = n2 then infB n1 else QNAN
  | .inf n1, .fin .. | .fin .., .inf n1 => infB n1
  | .fin n1 m1 e1, .fin n2 m2 e2 =>
    let (n, m, e) := addExact n1 m1 e1 n2 m2 e2
    if m = 0 then signBit (n1 && n2) else roundPack n m e

def sub (a b : Nat) : Nat := add a (neg b)

def mul (a b : Nat) : Nat :=
  match decode a, decode b with
  | .nan, _ | _, .nan => QNAN
  | .inf n1, .inf n2 => infB (n1 != n2)
  | .inf n1, .fin n2 m _ | .fin n2 m _, .inf n1 => if m = 0 then QNAN else infB (n1 != n2)
  | .fin n1 m1 e1, .fin n2 m2 e2 => roundPack (n1 != n2) (m1*m2) (e1+e2)

def fma (a b c : Nat) : Nat :=
  match decode a, decode b, decode c with
  | .nan, _, _ | _, .nan, _ | _, _, .nan => QNAN
  | .inf n1, .inf n2, c' | .inf n1, .fin n2 (_+1) _, c' | .fin n1 (_+1) _, .inf n2, c' =>
    match c' with
    | .inf n3 => if (n1 != n2) = n3 then infB n3 else QNAN
    | _ => infB (n1 != n2)
  | .inf _, .fin _ 0 _, _ | .fin _ 0 _, .inf _, _ => QNAN
  | .fin .., .fin .., .inf n3 => infB n3
  | .fin n1 m1 e1, .fin n2 m2 e2, .fin n3 m3 e3 =>
    let (n, m, e) := addExact (n1 != n2) (m1*m2) (e1+e2) n3 m3 e3
    if m = 0 then signBit ((n1 != n2) && n3) else roundPack n m e

def div (a b : Nat) : Nat :=
  match decode a, decode b with
  | .nan, _ | _, .nan => QNAN
  | .inf _, .inf _ => QNAN
  | .inf n1, .fin n2 _ _ => infB (n1 != n2)
  | .fin n1 _ _, .inf n2 => signBit (n1 != n2)
  | .fin n1 m1 e1, .fin n2 m2 e2 =>
    if m2 = 0 then (if m1 = 0 then QNAN else infB (n1 != n2)) else
    let k := 2*PREC + 8
    let q := (m1 * 2^k) / m2
    let r := (m1 * 2^k) % m2
    roundPack (n1 != n2) (2*q + (if r = 0 then 0 else 1)) (e1 - e2 - k - 1)

def sqrt (a : Nat) : Nat :=
  match decode a with
  | .nan => QNAN
  | .inf n => if n then QNAN else a
  | .fin n m e =>
    if m = 0 then a else if n then QNAN else
    -- make exponent even and add guard bits: m*2^e = (m * 2^(2k+p)) * 2^(e-2k-p), p = e mod 2
    let p : Nat := (e % 2).toNat
    let k := PREC + 4
    let M := m * 2^(2*k + p)
    let s := Nat.sqrt M
    let sticky := if s*s = M then 0 else 1
    roundPack false (2*s + sticky) ((e - (2*k + p : Nat)) / 2 - 1)

def lt (a b : Nat) : Bool :=
  match decode a, decode b with
  | .nan, _ | _, .nan => false
  | .inf n1, .inf n2 => n1 && !n2
  | .inf n1, .fin .. => n1
  | .fin .., .inf n2 => !n2
  | .fin n1 m1 e1, .fin n2 m2 e2 =>
    let (n, m, _) := addExact n1 m1 e1 (!n2) m2 e2     -- a - b
    m != 0 && n
def le (a b : Nat) : Bool :=
  match decode a, decode b with
  | .nan, _ | _, .nan => false
  | _, _ => !(lt b a)
def gt (a b : Nat) : Bool := lt b a
def ge (a b : Nat) : Bool := le b a
def feq (a b : Nat) : Bool := le a b && le b a

/-- Rust f32::max / min (NaN-ignoring; for ±0 the model returns the positive / negative zero) -/
def max (a b : Nat) : Nat := if isNaN a then b else if isNaN b then a else if lt a b then b else if lt b a then a else (if signOf a then b else a)
def min (a b : Nat) : Nat := if isNaN a then b else if isNaN b then a else if lt a b then a else if lt b a then b else (if signOf a then a else b)
/-- num_traits::clamp and f32::clamp: NaN passes through -/
def clamp (x lo hi : Nat) : Nat := if lt x lo then lo else if gt x hi then hi else x

def floor (a : Nat) : Nat :=
  match decode a with
  | .fin n m e =>
    if e ≥ 0 ∨ m = 0 then a else
    let sh := (-e).toNat
    let q := m / 2^sh
    let r := m % 2^sh
    if n then (let q' := if r = 0 then q else q + 1; if q' = 0 then signBit true else roundPack true q' 0)
    else (if q = 0 then 0 else roundPack false q 0)
  | _ => a

/-- round half away from zero to an integer-valued float -/
def round (a : Nat) : Nat :=
  match decode a with
  | .fin n m e =>
    if e ≥ 0 ∨ m = 0 then a else
    let sh := (-e).toNat
    let q := (m + 2^(sh-1)) / 2^sh
    if q = 0 then signBit n else roundPack n q 0
  | _ => a

inductive ToInt where | ok (i : Int) | ub deriving Repr, DecidableEq
/-- to_int_unchecked::<i32>: truncation toward zero; UB outside the representable range -/
def toI32Unchecked (a : Nat) : ToInt :=
  match decode a with
  | .fin n m e =>
    let t : Nat := if e ≥ 0 then m * 2^e.toNat else m / 2^(-e).toNat
    let i : Int := if n then -(t : Int) else t
    if -2147483648 ≤ i ∧ i ≤ 2147483647 then .ok i else .ub
  | _ => .ub

/-- `as u16` (saturating, NaN -> 0) -/
def toU16Sat (a : Nat) : Nat :=
  match decode a with
  | .nan => 0
  | .inf n => if n then 0 else 65535
  | .fin n m e =>
    if n then 0 else
    let t : Nat := if e ≥ 0 then m * 2^e.toNat else m / 2^(-e).toNat
    if t > 65535 then 65535 else t

def ofInt (i : Int) : Nat := if i = 0 then 0 else roundPack (decide (i < 0)) i.natAbs 0
def ofNat (n : Nat) : Nat := ofInt n

/-- exact remainder with the sign of the dividend (C fmod / Rust %) -/
def fmod (a b : Nat) : Nat :=
  match decode a, decode b with
  | .nan, _ | _, .nan => QNAN
  | .inf _, _ => QNAN
  | .fin .., .inf _ => a
  | .fin n1 m1 e1, .fin _ m2 e2 =>
    if m2 = 0 then QNAN else
    let e := Min.min e1 e2
    let x := m1 * 2^(e1 - e).toNat
    let y := m2 * 2^(e2 - e).toNat
    let r := x % y
    if r = 0 then signBit n1 else roundPack n1 r e

end F32
