import Model.Frame
import Model.Transfer
import Model.Pixel
/-! Model of the public API: the five image types with their constructors and every `From` / `TryFrom` conversion
(src/yuv.rs, rgb.rs, linear_rgb.rs, xyb.rs, hsl.rs) and `yuv_to_rgb` / `rgb_to_yuv` / `transform_primaries` /
`to_linear` / `to_gamma` at image level. -/
namespace Api
open Mat32 ColorM FrameM PixelM TransferM

structure Rgb where
  data : Array V3
  (w h : Nat)
  transfer : TC
  primaries : CP
deriving Repr

/-- `LinearRgb`, `Xyb`, `Hsl`: the same shape -/
structure FImg where
  data : Array V3
  (w h : Nat)
deriving Repr

abbrev Res (α : Type) := Out (Except CErr α)

def USIZE : Nat := 18446744073709551616

/-- `width.checked_mul(height) != Some(data.len())` -/
def dimsOk (len w h : Nat) : Bool := decide (w * h < USIZE) && decide (w * h = len)

/-- `Rgb::new` -/
def Rgb.new (data : Array V3) (w h : Nat) (t : TC) (p : CP) : Except CreationErr Rgb :=
  if dimsOk data.size w h then
    .ok { data, w, h, transfer := if t = .Unspecified then .SRGB else t, primaries := if p = .Unspecified then .BT709 else p }
  else .error .ResolutionMismatch

/-- `LinearRgb::new`, `Xyb::new`, `Hsl::new` -/
def FImg.new (data : Array V3) (w h : Nat) : Except CreationErr FImg :=
  if dimsOk data.size w h then .ok { data, w, h } else .error .ResolutionMismatch

/-- apply a fallible scalar function to the three components of every pixel, in order -/
def mapPxL (f : Nat → Out Nat) : List V3 → Out (List V3)
  | [] => .ok []
  | p :: ps =>
    (f p.x).bind fun a => (f p.y).bind fun b => (f p.z).bind fun c =>
      (mapPxL f ps).bind fun rest => .ok (⟨a, b, c⟩ :: rest)

def mapPx (f : Nat → Out Nat) (d : Array V3) : Out (Array V3) := (mapPxL f d.toList).bind fun l => .ok l.toArray

variable (B : Build)

/-- `TransferFunction::to_linear` on an image -/
def toLinearImg (t : TC) (d : Array V3) : Res (Array V3) :=
  match toLinearFn B t with
  | .error e => .ok (.error e)
  | .ok f => (mapPx f d).bind fun d' => .ok (.ok d')

/-- `TransferFunction::to_gamma` on an image -/
def toGammaImg (t : TC) (d : Array V3) : Res (Array V3) :=
  match toGammaFn B t with
  | .error e => .ok (.error e)
  | .ok f => (mapPx f d).bind fun d' => .ok (.ok d')

/-- `transform_primaries` -/
def transformPrimaries (d : Array V3) (pin pout : CP) : Except CErr (Array V3) :=
  match primariesMatrix B.fma pin pout with
  | .error e => .error e
  | .ok t => .ok (d.map (applyPrim B.fma t))

/-- `yuv_to_rgb` + `Rgb::try_from(&Yuv)` -/
def yuvToRgb (yuv : Yuv) : Res Rgb :=
  match yuvToRgbMatrix B.fma yuv.cfg.matrix yuv.cfg.primaries with
  | .error e => .ok (.error e)
  | .ok t =>
    (ycbcrToYpbpr yuv).bind fun d =>
      .ok (.ok { data := d.map (M3.mulArr B.fma t), w := yuv.y.cfg.width, h := yuv.y.cfg.height,
                 transfer := yuv.cfg.transfer, primaries := yuv.cfg.primaries })

/-- `rgb_to_yuv` + `Yuv::try_from((&Rgb, YuvConfig))` -/
def rgbToYuv (rgb : Rgb) (cfg : Cfg) (ts : Nat) : Res Yuv :=
  match rgbToYuvMatrix B.fma cfg.matrix cfg.primaries with
  | .error e => .ok (.error e)
  | .ok t => (ypbprToYcbcr (rgb.data.map (M3.mulArr B.fma t)) rgb.w rgb.h cfg ts).bind fun y => .ok (.ok y)

/-- `LinearRgb::try_from(Rgb)` -/
def rgbToLinear (rgb : Rgb) : Res FImg :=
  (toLinearImg B rgb.transfer rgb.data).bind fun r =>
    match r with
    | .error e => .ok (.error e)
    | .ok d =>
      match transformPrimaries B d rgb.primaries .BT709 with
      | .error e => .ok (.error e)
      | .ok d' => .ok (.ok { data := d', w := rgb.w, h := rgb.h })

/-- `Rgb::try_from((LinearRgb, TransferCharacteristic, ColorPrimaries))` -/
def linearToRgb (l : FImg) (t : TC) (p : CP) : Res Rgb :=
  let t := if t = .Unspecified then TC.SRGB else t
  let p := if p = .Unspecified then CP.BT709 else p
  -- `transfer.to_gamma(Vec::new())?`
  match toGammaFn B t with
  | .error e => .ok (.error e)
  | .ok _ =>
    match transformPrimaries B l.data .BT709 p with
    | .error e => .ok (.error e)
    | .ok d =>
      (toGammaImg B t d).bind fun r =>
        match r with
        | .error e => .ok (.error e)
        | .ok d' => .ok (.ok { data := d', w := l.w, h := l.h, transfer := t, primaries := p })

/-- `Xyb::from(LinearRgb)` -/
def linearToXyb (l : FImg) : FImg := { l with data := l.data.map (lrgbToXyb B) }
/-- `LinearRgb::from(Xyb)` -/
def xybToLinear (x : FImg) : FImg := { x with data := x.data.map (xybToLrgb B) }
/-- `Hsl::from(LinearRgb)` -/
def linearToHsl (l : FImg) : FImg := { l with data := l.data.map lrgbToHsl }
/-- `LinearRgb::from(Hsl)` -/
def hslToLinear (x : FImg) : FImg := { x with data := x.data.map hslToLrgb }

def bindRes {α β} (x : Res α) (f : α → Res β) : Res β :=
  x.bind fun r => match r with
    | .error e => .ok (.error e)
    | .ok a => f a

/-- `LinearRgb::try_from(&Yuv)` -/
def yuvToLinear (yuv : Yuv) : Res FImg := bindRes (yuvToRgb B yuv) (rgbToLinear B)
/-- `Xyb::try_from(Rgb)` -/
def rgbToXyb (rgb : Rgb) : Res FImg := bindRes (rgbToLinear B rgb) fun l => .ok (.ok (linearToXyb B l))
/-- `Xyb::try_from(&Yuv)` -/
def yuvToXyb (yuv : Yuv) : Res FImg := bindRes (yuvToRgb B yuv) (rgbToXyb B)
/-- `Yuv::try_from((LinearRgb, YuvConfig))` -/
def linearToYuv (l : FImg) (cfg : Cfg) (ts : Nat) : Res Yuv :=
  let r := cfg.fixUnspecified l.w l.h
  bindRes (linearToRgb B l r.transfer r.primaries) fun rgb => rgbToYuv B rgb cfg ts
/-- `Yuv::try_from((Xyb, YuvConfig))` -/
def xybToYuv (x : FImg) (cfg : Cfg) (ts : Nat) : Res Yuv := linearToYuv B (xybToLinear B x) cfg ts
/-- `Rgb::try_from((Xyb, TransferCharacteristic, ColorPrimaries))` -/
def xybToRgb (x : FImg) (t : TC) (p : CP) : Res Rgb := linearToRgb B (xybToLinear B x) t p

end Api
