import Model.Color
import Model.Math
/-! Model of `transform_primaries` (color.rs), src/rgb_xyb.rs, `lrgb_to_hsl` (hsl.rs) and `hsl_to_lrgb` (linear_rgb.rs). -/
namespace PixelM
open F32 Mat32 ColorM

section prim
variable (fm : Bool)

/-- `get_primaries_xyz` -/
def primariesXyz (p : CP) : Except CErr M3 :=
  match primariesXy p with
  | .error e => .error e
  | .ok (r, g, b) => .ok (M3.transpose ⟨xyToXyz r, xyToXyz g, xyToXyz b⟩)

/-- `gamut_rgb_to_xyz_matrix` -/
def gamutRgbToXyz (p : CP) : Except CErr M3 :=
  if p = .ST428 then .ok M3.identity else
  match primariesXyz p with
  | .error e => .error e
  | .ok xyz =>
    let w := whitePoint p
    let s := M3.mulArr fm (M3.invert fm xyz) w
    .ok ⟨V3.cmul xyz.r1 s, V3.cmul xyz.r2 s, V3.cmul xyz.r3 s⟩

/-- `gamut_xyz_to_rgb_matrix` -/
def gamutXyzToRgb (p : CP) : Except CErr M3 :=
  if p = .ST428 then .ok M3.identity else
  match gamutRgbToXyz fm p with
  | .error e => .error e
  | .ok m => .ok (M3.invert fm m)

/-- `ColVector == ColVector` (IEEE equality per component) -/
def v3eq (a b : V3) : Bool := feq a.x b.x && feq a.y b.y && feq a.z b.z

def bradford : M3 :=
  ⟨⟨C.white_point_adaptation_matrix_f0, C.white_point_adaptation_matrix_f1, neg C.white_point_adaptation_matrix_f2⟩,
   ⟨neg C.white_point_adaptation_matrix_f3, C.white_point_adaptation_matrix_f4, C.white_point_adaptation_matrix_f5⟩,
   ⟨C.white_point_adaptation_matrix_f6, neg C.white_point_adaptation_matrix_f7, C.white_point_adaptation_matrix_f8⟩⟩

/-- `white_point_adaptation_matrix` -/
def adaptation (pin pout : CP) : M3 :=
  let wi := whitePoint pin; let wo := whitePoint pout
  if v3eq wi wo then M3.identity else
    let ri := M3.mulArr fm bradford wi; let ro := M3.mulArr fm bradford wo
    let m : M3 := ⟨⟨div ro.x ri.x, C.white_point_adaptation_matrix_f9, C.white_point_adaptation_matrix_f10⟩,
                   ⟨C.white_point_adaptation_matrix_f11, div ro.y ri.y, C.white_point_adaptation_matrix_f12⟩,
                   ⟨C.white_point_adaptation_matrix_f13, C.white_point_adaptation_matrix_f14, div ro.z ri.z⟩⟩
    M3.mulMat fm (M3.mulMat fm (M3.invert fm bradford) m) bradford

/-- the matrix `transform_primaries` applies; `none` = early return (identical primaries) -/
def primariesMatrix (pin pout : CP) : Except CErr (Option M3) :=
  if pin = pout then .ok none else
  match gamutXyzToRgb fm pout with
  | .error e => .error e
  | .ok a =>
    let b := adaptation fm pin pout
    match gamutRgbToXyz fm pin with
    | .error e => .error e
    | .ok c => .ok (some (M3.mulMat fm (M3.mulMat fm a b) c))

def applyPrim (t : Option M3) (px : V3) : V3 :=
  match t with
  | none => px
  | some m => M3.mulArr fm m px
end prim

-- XYB -----------------------------------------------------------------------------------------
def K_M02 := C.K_M02_f0
def K_M00 := C.K_M00_f0
def K_M01 := sub (sub C.K_M01_f0 K_M02) K_M00
def K_M12 := C.K_M12_f0
def K_M10 := C.K_M10_f0
def K_M11 := sub (sub C.K_M11_f0 K_M12) K_M10
def K_M20 := C.K_M20_f0
def K_M21 := C.K_M21_f0
def K_M22 := sub (sub C.K_M22_f0 K_M20) K_M21
def K_B0 := C.K_B0_f0
def INV (i : Nat) : Nat :=
  [C.INVERSE_OPSIN_ABSORBANCE_MATRIX_f0, neg C.INVERSE_OPSIN_ABSORBANCE_MATRIX_f1, neg C.INVERSE_OPSIN_ABSORBANCE_MATRIX_f2,
   neg C.INVERSE_OPSIN_ABSORBANCE_MATRIX_f3, C.INVERSE_OPSIN_ABSORBANCE_MATRIX_f4, neg C.INVERSE_OPSIN_ABSORBANCE_MATRIX_f5,
   neg C.INVERSE_OPSIN_ABSORBANCE_MATRIX_f6, C.INVERSE_OPSIN_ABSORBANCE_MATRIX_f7, C.INVERSE_OPSIN_ABSORBANCE_MATRIX_f8].getD i 0

/-- `opsin_absorbance` (always-fused `f32::mul_add`) -/
def opsin (p : V3) : V3 :=
  ⟨F32.fma K_M00 p.x (F32.fma K_M01 p.y (F32.fma K_M02 p.z K_B0)),
   F32.fma K_M10 p.x (F32.fma K_M11 p.y (F32.fma K_M12 p.z K_B0)),
   F32.fma K_M20 p.x (F32.fma K_M21 p.y (F32.fma K_M22 p.z K_B0))⟩

/-- one pixel of `linear_rgb_to_xyb` -/
def lrgbToXyb (B : Build) (p : V3) : V3 :=
  let ab := neg (MathM.cbrtf B K_B0)
  let mx := opsin p
  let g (v : Nat) : Nat := add (MathM.cbrtf B (if lt v C.linear_rgb_to_xyb_f1 then C.linear_rgb_to_xyb_f2 else v)) ab
  let l := g mx.x; let m := g mx.y; let s := g mx.z
  ⟨mul C.mixed_to_xyb_f1 (sub l m), mul C.mixed_to_xyb_f2 (add l m), s⟩

/-- one pixel of `xyb_to_linear_rgb` -/
def xybToLrgb (B : Build) (p : V3) : V3 :=
  let nb := neg K_B0
  let bc := MathM.cbrtf B nb
  let g (v : Nat) : Nat := let v := sub v bc; F32.fma (mul v v) v nb
  let r := g (add p.y p.x); let gg := g (sub p.y p.x); let b := g p.z
  let row (i : Nat) : Nat := F32.fma (INV (i+2)) b (F32.fma (INV (i+1)) gg (mul (INV i) r))
  ⟨row 0, row 3, row 6⟩

-- HSL -----------------------------------------------------------------------------------------
def EPSILON : Nat := 0x34000000

/-- `lrgb_to_hsl` -/
def lrgbToHsl (p : V3) : V3 :=
  let xmax := F32.max (F32.max p.x p.y) p.z
  let xmin := F32.min (F32.min p.x p.y) p.z
  let v := xmax
  let c := sub xmax xmin
  let l := div (add xmax xmin) C.lrgb_to_hsl_f0
  let h := if lt (abs c) EPSILON then C.lrgb_to_hsl_f1
    else if lt (abs (sub v p.x)) EPSILON then mul C.lrgb_to_hsl_f2 (div (sub p.y p.z) c)
    else if lt (abs (sub v p.y)) EPSILON then mul C.lrgb_to_hsl_f3 (add C.lrgb_to_hsl_f4 (div (sub p.z p.x) c))
    else mul C.lrgb_to_hsl_f5 (add C.lrgb_to_hsl_f6 (div (sub p.x p.y) c))
  let h := if lt h C.lrgb_to_hsl_f7 then add h C.lrgb_to_hsl_f8 else h
  let h := if ge h C.lrgb_to_hsl_f9 then C.lrgb_to_hsl_f10 else h
  let s := if lt (abs l) EPSILON || lt (abs (sub l C.lrgb_to_hsl_f11)) EPSILON then C.lrgb_to_hsl_f12
    else F32.min (div (mul C.lrgb_to_hsl_f13 (sub v l)) (sub C.lrgb_to_hsl_f14 (abs (F32.fma C.lrgb_to_hsl_f15 l (neg C.lrgb_to_hsl_f16))))) C.lrgb_to_hsl_f17
  ⟨h, s, l⟩

/-- `(lo..hi).contains(&x)` -/
def inHalfOpen (lo hi x : Nat) : Bool := ge x lo && lt x hi

/-- `hsl_to_lrgb` -/
def hslToLrgb (p : V3) : V3 :=
  let c := mul (sub C.hsl_to_lrgb_f0 (abs (F32.fma C.hsl_to_lrgb_f1 p.z (neg C.hsl_to_lrgb_f2)))) p.y
  let hp := div p.x C.hsl_to_lrgb_f3
  let x := mul c (sub C.hsl_to_lrgb_f4 (abs (sub (fmod hp C.hsl_to_lrgb_f5) C.hsl_to_lrgb_f6)))
  let rgb1 : Nat × Nat × Nat :=
    if inHalfOpen C.hsl_to_lrgb_f7 C.hsl_to_lrgb_f8 hp then (c, x, C.hsl_to_lrgb_f9)
    else if inHalfOpen C.hsl_to_lrgb_f10 C.hsl_to_lrgb_f11 hp then (x, c, C.hsl_to_lrgb_f12)
    else if inHalfOpen C.hsl_to_lrgb_f13 C.hsl_to_lrgb_f14 hp then (C.hsl_to_lrgb_f15, c, x)
    else if inHalfOpen C.hsl_to_lrgb_f16 C.hsl_to_lrgb_f17 hp then (C.hsl_to_lrgb_f18, x, c)
    else if inHalfOpen C.hsl_to_lrgb_f19 C.hsl_to_lrgb_f20 hp then (x, C.hsl_to_lrgb_f21, c)
    else (c, C.hsl_to_lrgb_f22, x)
  let m := sub p.z (div c C.hsl_to_lrgb_f23)
  ⟨add rgb1.1 m, add rgb1.2.1 m, add rgb1.2.2 m⟩

end PixelM
