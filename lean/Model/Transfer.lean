import Model.Math
import Model.Meta
/-! Model of src/yuv_rgb/transfer.rs: the 18 scalar curves and the two 19-way dispatch tables. -/
namespace TransferM
open F32 MathM

def EPSILON : Nat := 0x34000000   -- f32::EPSILON
def A709 := C.REC709_ALPHA_f0
def B709 := C.REC709_BETA_f0
def ASRGB := C.SRGB_ALPHA_f0
def BSRGB := C.SRGB_BETA_f0
def M1 := C.ST2084_M1_f0
def M2 := C.ST2084_M2_f0
def C1 := C.ST2084_C1_f0
def C2 := C.ST2084_C2_f0
def C3 := C.ST2084_C3_f0
def OOTF := C.ST2084_OOTF_SCALE_f0
def HA := C.ARIB_B67_A_f0
def HB := C.ARIB_B67_B_f0
def HC := C.ARIB_B67_C_f0

variable (B : Build)

def log100_oetf (x : Nat) : Out Nat :=
  .ok (if le x C.log100_oetf_f0 then C.log100_oetf_f1 else add C.log100_oetf_f2 (div (B.libm.log10 x) C.log100_oetf_f3))
def log100_inverse_oetf (x : Nat) : Out Nat :=
  if le x C.log100_inverse_oetf_f0 then .ok C.log100_inverse_oetf_f1
  else powf B C.log100_inverse_oetf_f2 (mul C.log100_inverse_oetf_f3 (sub x C.log100_inverse_oetf_f4))
def log316_oetf (x : Nat) : Out Nat :=
  .ok (if le x C.log316_oetf_f0 then C.log316_oetf_f1 else add C.log316_oetf_f2 (div (B.libm.log10 x) C.log316_oetf_f3))
def log316_inverse_oetf (x : Nat) : Out Nat :=
  if le x C.log316_inverse_oetf_f0 then .ok C.log316_inverse_oetf_f1
  else powf B C.log316_inverse_oetf_f2 (mul C.log316_inverse_oetf_f3 (sub x C.log316_inverse_oetf_f4))

def rec_1886_eotf (x : Nat) : Out Nat :=
  if lt x C.rec_1886_eotf_f0 then .ok C.rec_1886_eotf_f1 else powf B x C.rec_1886_eotf_f2
def rec_1886_inverse_eotf (x : Nat) : Out Nat :=
  if lt x C.rec_1886_inverse_eotf_f0 then .ok C.rec_1886_inverse_eotf_f1
  else powf B x (div C.rec_1886_inverse_eotf_f2 C.rec_1886_inverse_eotf_f3)
def rec_470m_oetf (x : Nat) : Out Nat :=
  if lt x C.rec_470m_oetf_f0 then .ok C.rec_470m_oetf_f1 else powf B x C.rec_470m_oetf_f2
def rec_470m_inverse_oetf (x : Nat) : Out Nat :=
  if lt x C.rec_470m_inverse_oetf_f0 then .ok C.rec_470m_inverse_oetf_f1
  else powf B x (div C.rec_470m_inverse_oetf_f2 C.rec_470m_inverse_oetf_f3)
def rec_470bg_oetf (x : Nat) : Out Nat :=
  if lt x C.rec_470bg_oetf_f0 then .ok C.rec_470bg_oetf_f1 else powf B x C.rec_470bg_oetf_f2
def rec_470bg_inverse_oetf (x : Nat) : Out Nat :=
  if lt x C.rec_470bg_inverse_oetf_f0 then .ok C.rec_470bg_inverse_oetf_f1
  else powf B x (div C.rec_470bg_inverse_oetf_f2 C.rec_470bg_inverse_oetf_f3)

def rec_709_oetf (x : Nat) : Out Nat :=
  let x := F32.max x C.rec_709_oetf_f0
  if lt x B709 then .ok (mul x C.rec_709_oetf_f1)
  else (powf B x C.rec_709_oetf_f2).bind fun p => .ok (F32.fma A709 p (neg (sub A709 C.rec_709_oetf_f3)))
def rec_709_inverse_oetf (x : Nat) : Out Nat :=
  let x := F32.max x C.rec_709_inverse_oetf_f0
  if lt x (mul C.rec_709_inverse_oetf_f1 B709) then .ok (div x C.rec_709_inverse_oetf_f2)
  else powf B (div (add x (sub A709 C.rec_709_inverse_oetf_f3)) A709) (div C.rec_709_inverse_oetf_f4 C.rec_709_inverse_oetf_f5)

/-- `(lo..=hi).contains(&x)` -/
def inClosed (lo hi x : Nat) : Bool := ge x lo && le x hi
def xvycc_eotf (x : Nat) : Out Nat :=
  (if inClosed C.xvycc_eotf_f0 C.xvycc_eotf_f1 x then rec_1886_eotf B (abs x) else rec_709_inverse_oetf B (abs x)).bind
    fun r => .ok (copysign r x)
def xvycc_inverse_eotf (x : Nat) : Out Nat :=
  (if inClosed C.xvycc_inverse_eotf_f0 C.xvycc_inverse_eotf_f1 x then rec_1886_inverse_eotf B (abs x) else rec_709_oetf B (abs x)).bind
    fun r => .ok (copysign r x)

def srgb_eotf (x : Nat) : Out Nat :=
  let x := F32.max x C.srgb_eotf_f0
  if lt x (mul C.srgb_eotf_f1 BSRGB) then .ok (div x C.srgb_eotf_f2)
  else powf B (div (add x (sub ASRGB C.srgb_eotf_f3)) ASRGB) C.srgb_eotf_f4
def srgb_inverse_eotf (x : Nat) : Out Nat :=
  let x := F32.max x C.srgb_inverse_eotf_f0
  if lt x BSRGB then .ok (mul x C.srgb_inverse_eotf_f1)
  else (powf B x (div C.srgb_inverse_eotf_f2 C.srgb_inverse_eotf_f3)).bind fun p =>
    .ok (F32.fma ASRGB p (neg (sub ASRGB C.srgb_inverse_eotf_f4)))

def st_2084_inverse_eotf (x : Nat) : Out Nat :=
  if gt x C.st_2084_inverse_eotf_f0 then
    (powf B x M1).bind fun xpow =>
      let num := F32.fma (sub C2 C3) xpow (sub C1 C.st_2084_inverse_eotf_f1)
      let den := F32.fma C3 xpow C.st_2084_inverse_eotf_f2
      powf B (add C.st_2084_inverse_eotf_f3 (div num den)) M2
  else .ok C.st_2084_inverse_eotf_f4
def inverse_ootf_st2084 (x : Nat) : Out Nat :=
  (rec_1886_inverse_eotf B (mul x C.inverse_ootf_st2084_f0)).bind fun a =>
    (rec_709_inverse_oetf B a).bind fun b => .ok (div b OOTF)
def ootf_st2084 (x : Nat) : Out Nat :=
  (rec_709_oetf B (mul x OOTF)).bind fun a => (rec_1886_eotf B a).bind fun b => .ok (div b C.ootf_st2084_f0)
def st_2084_eotf (x : Nat) : Out Nat :=
  if gt x C.st_2084_eotf_f0 then
    (powf B x (div C.st_2084_eotf_f1 M2)).bind fun xpow =>
      let num := F32.max (sub xpow C1) C.st_2084_eotf_f2
      let den := F32.max (F32.fma C3 (neg xpow) C2) EPSILON
      powf B (div num den) (div C.st_2084_eotf_f3 M1)
  else .ok C.st_2084_eotf_f4
def st_2084_inverse_oetf (x : Nat) : Out Nat := (st_2084_eotf B x).bind (inverse_ootf_st2084 B)
def st_2084_oetf (x : Nat) : Out Nat := (ootf_st2084 B x).bind (st_2084_inverse_eotf B)

def arib_b67_inverse_oetf (x : Nat) : Out Nat :=
  let x := F32.max x C.arib_b67_inverse_oetf_f0
  if le x C.arib_b67_inverse_oetf_f1 then .ok (mul (mul x x) (div C.arib_b67_inverse_oetf_f2 C.arib_b67_inverse_oetf_f3))
  else (expf B (div (sub x HC) HA)).bind fun e => .ok (div (add e HB) C.arib_b67_inverse_oetf_f4)
def arib_b67_oetf (x : Nat) : Out Nat :=
  let x := F32.max x C.arib_b67_oetf_f0
  if le x (div C.arib_b67_oetf_f1 C.arib_b67_oetf_f2) then .ok (sqrt (mul C.arib_b67_oetf_f3 x))
  else .ok (F32.fma HA (B.libm.ln (F32.fma C.arib_b67_oetf_f4 x (neg HB))) HC)

/-- `TransferFunction::to_linear` on one component: error, or the scalar function -/
def toLinearFn (t : TC) : Except CErr (Nat → Out Nat) :=
  match t with
  | .Logarithmic100 => .ok (log100_inverse_oetf B)
  | .Logarithmic316 => .ok (log316_inverse_oetf B)
  | .BT1886 | .ST170M | .ST240M | .BT2020Ten | .BT2020Twelve => .ok (rec_1886_eotf B)
  | .BT470M => .ok (rec_470m_oetf B)
  | .BT470BG => .ok (rec_470bg_oetf B)
  | .XVYCC => .ok (xvycc_eotf B)
  | .SRGB => .ok (srgb_eotf B)
  | .PerceptualQuantizer => .ok (st_2084_inverse_oetf B)
  | .HybridLogGamma => .ok (arib_b67_inverse_oetf B)
  | .Linear => .ok (fun x => .ok x)
  | .Reserved0 | .Reserved | .BT1361E | .ST428 => .error .UnsupportedTransferCharacteristic
  | .Unspecified => .error .UnspecifiedTransferCharacteristic

def toGammaFn (t : TC) : Except CErr (Nat → Out Nat) :=
  match t with
  | .Logarithmic100 => .ok (log100_oetf B)
  | .Logarithmic316 => .ok (log316_oetf B)
  | .BT1886 | .ST170M | .ST240M | .BT2020Ten | .BT2020Twelve => .ok (rec_1886_inverse_eotf B)
  | .BT470M => .ok (rec_470m_inverse_oetf B)
  | .BT470BG => .ok (rec_470bg_inverse_oetf B)
  | .XVYCC => .ok (xvycc_inverse_eotf B)
  | .SRGB => .ok (srgb_inverse_eotf B)
  | .PerceptualQuantizer => .ok (st_2084_oetf B)
  | .HybridLogGamma => .ok (arib_b67_oetf B)
  | .Linear => .ok (fun x => .ok x)
  | .Reserved0 | .Reserved | .BT1361E | .ST428 => .error .UnsupportedTransferCharacteristic
  | .Unspecified => .error .UnspecifiedTransferCharacteristic

end TransferM
