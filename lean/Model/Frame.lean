import Model.Color
/-! Structural model: v_frame's `PlaneConfig::new` / `Plane::new` / `index` / `p` / `data_origin` / `PlaneIter` as far as
the crate uses them, `YuvConfig`, `fix_unspecified_data` with the two guess functions, `Yuv::new`, and the two plane
loops `ycbcr_to_ypbpr` / `ypbpr_to_ycbcr` as structural recursion with every unchecked access an explicit outcome.
`usize` is modelled as `Nat` (theorems carry the size hypotheses under which no `usize` operation overflows); the one
product the decoder computes before any bounds are known, the allocation size `w * h`, is modelled with its wrap-around. -/
namespace FrameM
open Mat32 ColorM

structure PlaneCfg where
  (stride allocHeight width height xdec ydec xpad ypad xorigin yorigin : Nat)
deriving Repr, DecidableEq, Inhabited

structure Plane where
  data : Array Nat
  cfg : PlaneCfg
deriving Repr, Inhabited

/-- `align_power_of_two` -/
def alignPow2 (x n : Nat) : Nat := ((x + 2^n - 1) / 2^n) * 2^n

/-- `PlaneConfig::new` (`STRIDE_ALIGNMENT_LOG2 = 6`) -/
def PlaneCfg.new (w h xdec ydec xpad ypad typeSize : Nat) : PlaneCfg :=
  let n := 6 + 1 - typeSize
  let xorigin := alignPow2 xpad n
  let yorigin := ypad
  let stride := alignPow2 (xorigin + w + xpad) n
  { stride, allocHeight := yorigin + h + ypad, width := w, height := h, xdec, ydec, xpad, ypad, xorigin, yorigin }

/-- `Plane::new`: buffer of `stride * alloc_height` samples, all 128 -/
def Plane.new (w h xdec ydec xpad ypad typeSize : Nat) : Plane :=
  let cfg := PlaneCfg.new w h xdec ydec xpad ypad typeSize
  { data := Array.replicate (cfg.stride * cfg.allocHeight) 128, cfg }

/-- `Plane::index` -/
def Plane.index (p : Plane) (x y : Nat) : Nat := (y + p.cfg.yorigin) * p.cfg.stride + (x + p.cfg.xorigin)
def Plane.origin (p : Plane) : Nat := p.index 0 0
/-- `Plane::p` (bounds-checked) -/
def Plane.p (p : Plane) (x y : Nat) : Out Nat :=
  if h : p.index x y < p.data.size then .ok p.data[p.index x y] else .panic .planeIndex
/-- `get_unchecked(pos)` on the `data_origin()` slice -/
def Plane.getU (p : Plane) (pos : Nat) (site : Site) : Out Nat :=
  if h : p.origin + pos < p.data.size then .ok p.data[p.origin + pos] else .ub site
/-- `*get_unchecked_mut(pos) = v` on the `data_origin_mut()` slice -/
def Plane.setU (p : Plane) (pos v : Nat) (site : Site) : Out Plane :=
  if h : p.origin + pos < p.data.size then .ok { p with data := p.data.set (p.origin + pos) v h } else .ub site

/-- `YuvConfig` -/
structure Cfg where
  (bd ssx ssy : Nat) (full : Bool) (matrix : MC) (transfer : TC) (primaries : CP)
deriving Repr, DecidableEq

/-- `guess_matrix_coefficients` -/
def guessMatrix (w h : Nat) : MC :=
  if w ≥ C.guess_matrix_coefficients_i0 ∨ h > C.guess_matrix_coefficients_i1 then .BT709
  else if h = C.guess_matrix_coefficients_i2 then .BT470BG
  else .ST170M

/-- `guess_color_primaries` -/
def guessPrimaries (m : MC) (w h : Nat) : CP :=
  if m = .BT2020NonConstantLuminance ∨ m = .BT2020ConstantLuminance then .BT2020
  else if m = .BT709 ∨ w ≥ C.guess_color_primaries_i0 ∨ h > C.guess_color_primaries_i1 then .BT709
  else if h = C.guess_color_primaries_i2 then .BT470BG
  else if h = C.guess_color_primaries_i3 ∨ h = C.guess_color_primaries_i4 then .ST170M
  else .BT709

/-- `YuvConfig::fix_unspecified_data` -/
def Cfg.fixUnspecified (c : Cfg) (w h : Nat) : Cfg :=
  let m := if c.matrix = .Unspecified then guessMatrix w h else c.matrix
  let p := if c.primaries = .Unspecified then guessPrimaries m w h else c.primaries
  let t := if c.transfer = .Unspecified then TC.BT1886 else c.transfer
  { c with matrix := m, primaries := p, transfer := t }

/-- `Yuv<T>`; `ts = size_of::<T>()` (1 for u8, 2 for u16) -/
structure Yuv where
  (y u v : Plane)
  cfg : Cfg
  ts : Nat
deriving Repr

def USIZE_MAX : Nat := 18446744073709551615

/-- `covers_geometry`: the visible area `width * height` is representable (`checked_mul`; the conversions allocate and index
that many pixels) and the buffer holds the last visible sample -/
def Plane.covers (p : Plane) : Bool :=
  let rows := if p.cfg.width = 0 ∨ p.cfg.height = 0 then 0 else p.cfg.height - 1
  let cols := if p.cfg.width = 0 ∨ p.cfg.height = 0 then 0 else p.cfg.width
  decide (p.cfg.width * p.cfg.height ≤ USIZE_MAX) &&
  decide ((p.cfg.yorigin + rows) * p.cfg.stride + p.cfg.xorigin + cols ≤ p.data.size)

/-- one row of the `PlaneIter` scan `any(|pix| pix > max_value)`, `k` samples remaining -/
def scanRow (p : Plane) (maxv yy : Nat) : Nat → Out Bool
  | 0 => .ok false
  | k+1 =>
    match p.p (p.cfg.width - (k+1)) yy with
    | .ok v => if v > maxv then .ok true else scanRow p maxv yy k
    | .ub s => .ub s
    | .panic e => .panic e

def scanRows (p : Plane) (maxv : Nat) : Nat → Out Bool
  | 0 => .ok false
  | k+1 =>
    match scanRow p maxv (p.cfg.height - (k+1)) p.cfg.width with
    | .ok true => .ok true
    | .ok false => scanRows p maxv k
    | .ub s => .ub s
    | .panic e => .panic e

/-- `plane.iter().any(|pix| pix > max_value)`; a plane of width 0 and positive height makes v_frame's iterator panic -/
def Plane.anyAbove (p : Plane) (maxv : Nat) : Out Bool :=
  if p.cfg.width = 0 ∧ p.cfg.height ≠ 0 then .panic .planeIterWidth0 else scanRows p maxv p.cfg.height

/-- `Yuv::new` -/
def Yuv.new (y u v : Plane) (cfg : Cfg) (ts : Nat) : Out (Except YuvErr Yuv) :=
  if cfg.ssx ≠ u.cfg.xdec % 256 ∨ cfg.ssx ≠ v.cfg.xdec % 256 ∨ cfg.ssy ≠ u.cfg.ydec % 256 ∨ cfg.ssy ≠ v.cfg.ydec % 256 then
    .ok (.error .SubsamplingMismatch)
  else
    let w := y.cfg.width; let h := y.cfg.height
    if w % 2^cfg.ssx ≠ 0 then .ok (.error .InvalidLumaWidth)
    else if h % 2^cfg.ssy ≠ 0 then .ok (.error .InvalidLumaHeight)
    else if u.cfg.width ≠ w >>> cfg.ssx ∨ u.cfg.height ≠ h >>> cfg.ssy ∨ v.cfg.width ≠ w >>> cfg.ssx ∨ v.cfg.height ≠ h >>> cfg.ssy then
      .ok (.error .SubsamplingMismatch)
    else if !(y.covers && u.covers && v.covers) then .ok (.error .InvalidData)
    else
      let good : Yuv := { y, u, v, cfg := cfg.fixUnspecified w h, ts }
      if ts = 2 ∧ cfg.bd < 16 then
        let maxv := 65535 / 2^(16 - cfg.bd)
        match y.anyAbove maxv with
        | .ok true => .ok (.error .InvalidData)
        | .ub s => .ub s
        | .panic e => .panic e
        | .ok false =>
          match u.anyAbove maxv with
          | .ok true => .ok (.error .InvalidData)
          | .ub s => .ub s
          | .panic e => .panic e
          | .ok false =>
            match v.anyAbove maxv with
            | .ok true => .ok (.error .InvalidData)
            | .ub s => .ub s
            | .panic e => .panic e
            | .ok false => .ok (.ok good)
      else .ok (.ok good)

-- decode direction ---------------------------------------------------------------------------

/-- inner loop of `ycbcr_to_ypbpr`, `k` columns remaining in row `yy`; `f` is the per-sample normalisation -/
def decRow (yP uP vP : Plane) (w ssx ssy : Nat) (f : Nat → Nat → Nat → V3) (yy : Nat) : Nat → Array V3 → Out (Array V3)
  | 0, out => .ok out
  | k+1, out =>
    let x := w - (k+1)
    match yP.getU (yy * yP.cfg.stride + x) .decY with
    | .ub s => .ub s
    | .panic e => .panic e
    | .ok a =>
      match uP.getU ((yy >>> ssy) * uP.cfg.stride + (x >>> ssx)) .decU with
      | .ub s => .ub s
      | .panic e => .panic e
      | .ok b =>
        match vP.getU ((yy >>> ssy) * vP.cfg.stride + (x >>> ssx)) .decV with
        | .ub s => .ub s
        | .panic e => .panic e
        | .ok c =>
          if h : yy * w + x < out.size then decRow yP uP vP w ssx ssy f yy k (out.set (yy * w + x) (f a b c) h)
          else .ub .decOut

def decRows (yP uP vP : Plane) (w h ssx ssy : Nat) (f : Nat → Nat → Nat → V3) : Nat → Array V3 → Out (Array V3)
  | 0, out => .ok out
  | k+1, out =>
    match decRow yP uP vP w ssx ssy f (h - (k+1)) w out with
    | .ok out' => decRows yP uP vP w h ssx ssy f k out'
    | .ub s => .ub s
    | .panic e => .panic e

/-- `ycbcr_to_ypbpr` -/
def ycbcrToYpbpr (yuv : Yuv) : Out (Array V3) :=
  let w := yuv.y.cfg.width; let h := yuv.y.cfg.height
  let l := scaleOffset true yuv.cfg.bd yuv.cfg.full false
  let c := scaleOffset true yuv.cfg.bd yuv.cfg.full true
  -- `data_origin()` slices `&data[index(0,0)..]`, which panics when the origin lies beyond the buffer
  if yuv.y.origin > yuv.y.data.size ∨ yuv.u.origin > yuv.u.data.size ∨ yuv.v.origin > yuv.v.data.size then .panic .planeIndex
  else
    decRows yuv.y yuv.u yuv.v w h yuv.cfg.ssx yuv.cfg.ssy
      (fun a b cc => ⟨toF32Luma a l.1 l.2, toF32Chroma b c.1 c.2, toF32Chroma cc c.1 c.2⟩) h
      -- `vec![..; w * h]`: the product wraps in optimised builds (`Yuv::new` rejects the frames for which it would)
      (Array.replicate ((w * h) % (USIZE_MAX + 1)) ⟨0, 0, 0⟩)

-- encode direction ---------------------------------------------------------------------------

structure EncSt where
  (yP uP vP : Plane)
  last : Nat

/-- inner loop of `ypbpr_to_ycbcr`; `fl`, `fc` are `from_f32_luma` / `from_f32_chroma` with their constants applied -/
def encRow (inp : Array V3) (w ssx ssy : Nat) (fl fc : Nat → Nat) (yy : Nat) : Nat → EncSt → Out EncSt
  | 0, st => .ok st
  | k+1, st =>
    let x := w - (k+1)
    let upos := (yy >>> ssy) * st.uP.cfg.stride + (x >>> ssx)
    let vpos := (yy >>> ssy) * st.vP.cfg.stride + (x >>> ssx)
    if h : yy * w + x < inp.size then
      let pix := inp[yy * w + x]
      match st.yP.setU (yy * st.yP.cfg.stride + x) (fl pix.x) .encY with
      | .ub s => .ub s
      | .panic e => .panic e
      | .ok yP' =>
        if upos ≠ st.last then
          match st.uP.setU upos (fc pix.y) .encU with
          | .ub s => .ub s
          | .panic e => .panic e
          | .ok uP' =>
            match st.vP.setU vpos (fc pix.z) .encV with
            | .ub s => .ub s
            | .panic e => .panic e
            | .ok vP' => encRow inp w ssx ssy fl fc yy k { yP := yP', uP := uP', vP := vP', last := upos }
        else encRow inp w ssx ssy fl fc yy k { st with yP := yP' }
    else .ub .encIn

def encRows (inp : Array V3) (w h ssx ssy : Nat) (fl fc : Nat → Nat) : Nat → EncSt → Out EncSt
  | 0, st => .ok st
  | k+1, st =>
    match encRow inp w ssx ssy fl fc (h - (k+1)) w st with
    | .ok st' => encRows inp w h ssx ssy fl fc k st'
    | .ub s => .ub s
    | .panic e => .panic e

/-- `ypbpr_to_ycbcr` -/
def ypbprToYcbcr (inp : Array V3) (w h : Nat) (cfg : Cfg) (ts : Nat) : Out Yuv :=
  let cw := w >>> cfg.ssx; let ch := h >>> cfg.ssy
  if ¬ (w % 2^cfg.ssx = 0 ∧ h % 2^cfg.ssy = 0) then .panic .encDivisibility else
  let l := scaleOffset false cfg.bd cfg.full false
  let c := scaleOffset false cfg.bd cfg.full true
  let st0 : EncSt := { yP := Plane.new w h 0 0 0 0 ts, uP := Plane.new cw ch cfg.ssx cfg.ssy 0 0 ts,
                       vP := Plane.new cw ch cfg.ssx cfg.ssy 0 0 ts, last := USIZE_MAX }
  match encRows inp w h cfg.ssx cfg.ssy (fun v => fromF32Luma ts v l.1 l.2 cfg.bd) (fun v => fromF32Chroma ts v c.1 c.2 cfg.bd cfg.full) h st0 with
  | .ub s => .ub s
  | .panic e => .panic e
  | .ok st =>
    match Yuv.new st.yP st.uP st.vP cfg ts with
    | .ok (.ok y) => .ok y
    | .ok (.error _) => .panic .encUnwrap
    | .ub s => .ub s
    | .panic e => .panic e

end FrameM
