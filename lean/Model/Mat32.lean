import Model.F32
import Generated.Consts
/-! 3x3 algebra over binary32: model of yuvxyb-math/src/matrix.rs and mul_add.rs (`FastMulAdd`).
`fm` is `cfg!(target_feature = "fma")`. Import-free apart from the softfloat. -/
namespace Mat32
open F32

/-- `FastMulAdd::fast_mul_add(self, a, b)` = self * a + b, fused iff the target has FMA -/
def fmadd (fm : Bool) (a b c : Nat) : Nat := if fm then F32.fma a b c else F32.add (F32.mul a b) c

structure V3 where (x y z : Nat) deriving DecidableEq, Repr, Inhabited
structure M3 where (r1 r2 r3 : V3) deriving DecidableEq, Repr, Inhabited

def V3.cross (fm : Bool) (s o : V3) : V3 :=
  ⟨fmadd fm s.y o.z (neg (mul s.z o.y)), fmadd fm s.z o.x (neg (mul s.x o.z)), fmadd fm s.x o.y (neg (mul s.y o.x))⟩
def V3.dot (fm : Bool) (s o : V3) : Nat := fmadd fm s.x o.x (fmadd fm s.y o.y (mul s.z o.z))
def V3.sdiv (s : V3) (d : Nat) : V3 := ⟨div s.x d, div s.y d, div s.z d⟩
def V3.cmul (s o : V3) : V3 := ⟨mul s.x o.x, mul s.y o.y, mul s.z o.z⟩
def M3.transpose (m : M3) : M3 := ⟨⟨m.r1.x, m.r2.x, m.r3.x⟩, ⟨m.r1.y, m.r2.y, m.r3.y⟩, ⟨m.r1.z, m.r2.z, m.r3.z⟩⟩
def M3.sdiv (m : M3) (d : Nat) : M3 := ⟨m.r1.sdiv d, m.r2.sdiv d, m.r3.sdiv d⟩
def idLit (i : Nat) : Nat := [C.Matrix_identity_f0, C.Matrix_identity_f1, C.Matrix_identity_f2, C.Matrix_identity_f3, C.Matrix_identity_f4,
  C.Matrix_identity_f5, C.Matrix_identity_f6, C.Matrix_identity_f7, C.Matrix_identity_f8].getD i 0
def M3.identity : M3 := ⟨⟨idLit 0, idLit 1, idLit 2⟩, ⟨idLit 3, idLit 4, idLit 5⟩, ⟨idLit 6, idLit 7, idLit 8⟩⟩

/-- Cramer's rule exactly as `Matrix::invert` spells it -/
def M3.invert (fm : Bool) (m : M3) : M3 :=
  let s11 := m.r1.x; let s12 := m.r1.y; let s13 := m.r1.z
  let s21 := m.r2.x; let s22 := m.r2.y; let s23 := m.r2.z
  let s31 := m.r3.x; let s32 := m.r3.y; let s33 := m.r3.z
  let mn (a b c d : Nat) := fmadd fm a b (neg (mul c d))
  let m11 := mn s22 s33 s32 s23; let m12 := mn s21 s33 s31 s23; let m13 := mn s21 s32 s31 s22
  let m21 := mn s12 s33 s32 s13; let m22 := mn s11 s33 s31 s13; let m23 := mn s11 s32 s31 s12
  let m31 := mn s12 s23 s22 s13; let m32 := mn s11 s23 s21 s13; let m33 := mn s11 s22 s21 s12
  let det := fmadd fm s11 m11 (neg (fmadd fm s12 m12 (neg (mul s13 m13))))
  (M3.transpose ⟨⟨m11, neg m12, m13⟩, ⟨neg m21, m22, neg m23⟩, ⟨m31, neg m32, m33⟩⟩).sdiv det

/-- `mul_vec` and `mul_arr` (the same expression) -/
def M3.mulArr (fm : Bool) (m : M3) (v : V3) : V3 :=
  ⟨fmadd fm m.r1.x v.x (fmadd fm m.r1.y v.y (mul m.r1.z v.z)),
   fmadd fm m.r2.x v.x (fmadd fm m.r2.y v.y (mul m.r2.z v.z)),
   fmadd fm m.r3.x v.x (fmadd fm m.r3.y v.y (mul m.r3.z v.z))⟩

def M3.mulMat (fm : Bool) (m o : M3) : M3 :=
  let row (r : V3) : V3 :=
    ⟨fmadd fm r.x o.r1.x (fmadd fm r.y o.r2.x (mul r.z o.r3.x)),
     fmadd fm r.x o.r1.y (fmadd fm r.y o.r2.y (mul r.z o.r3.y)),
     fmadd fm r.x o.r1.z (fmadd fm r.y o.r2.z (mul r.z o.r3.z))⟩
  ⟨row m.r1, row m.r2, row m.r3⟩

end Mat32
