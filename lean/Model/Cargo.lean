import Generated.Manifests
/-! Cargo feature resolution for the two-crate graph yuvxyb -> yuvxyb-math (the part of cargo's resolver that decides
whether `yuvxyb-math/fastmath` is compiled in). -/
namespace CargoM
open Manifests

def insertAll (s : List Nat) (xs : List Nat) : List Nat := xs.foldl (fun acc x => if acc.contains x then acc else acc ++ [x]) s

/-- one closure step inside a crate: every enabled feature enables the plain features it lists -/
def stepFeatures (c : Crate) (en : List Nat) : List Nat :=
  en.foldl (fun acc f =>
    match c.features.find? (·.1 = f) with
    | some (_, items) => insertAll acc (items.filterMap fun i => match i with | .feat g => some g | _ => none)
    | none => acc) en

def closure (c : Crate) (en : List Nat) : Nat → List Nat
  | 0 => en
  | k+1 => closure c (stepFeatures c en) k

/-- features of crate `c` enabled by a command line: `--no-default-features` = `useDefault := false`, `--features xs` -/
def enabled (c : Crate) (useDefault : Bool) (explicit : List Nat) : List Nat :=
  let start := if useDefault ∧ c.features.any (·.1 = DEFAULT) then insertAll [DEFAULT] explicit else explicit
  closure c start (c.features.length + 1)

/-- features requested of dependency `d` by the root crate with the given enabled feature set -/
def depRequested (c : Crate) (en : List Nat) (d : Nat) : Option (Bool × List Nat) :=
  match c.deps.find? (·.name = d) with
  | none => none
  | some dep =>
    let viaFeatures := en.foldl (fun acc f =>
      match c.features.find? (·.1 = f) with
      | some (_, items) => insertAll acc (items.filterMap fun i => match i with | .depFeat d' g _ => if d' = d then some g else none | _ => none)
      | none => acc) []
    some (dep.defaultFeatures, insertAll dep.features viaFeatures)

/-- the feature set of yuvxyb-math when yuvxyb is built with the given command line -/
def mathFeatures (useDefault : Bool) (explicit : List Nat) : List Nat :=
  let en := enabled root useDefault explicit
  match depRequested root en MATH with
  | none => []
  | some (dflt, req) => enabled math dflt req

def mathFastmath (useDefault : Bool) (explicit : List Nat) : Bool := (mathFeatures useDefault explicit).contains FASTMATH

end CargoM
