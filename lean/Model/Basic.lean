/-! Outcome type shared by the whole model: a call of the real code either returns, reaches undefined behaviour at
one of the (few) unchecked sites, or panics. The model *reports* these outcomes; it never defaults. Import-free. -/

/-- the unchecked operations of the two crates -/
inductive Site where
  | toInt            -- yuvxyb-math pow_exp.rs exp2: `(x - 0.5).to_int_unchecked()`
  | decOut | decY | decU | decV     -- src/yuv_rgb.rs ycbcr_to_ypbpr: output.get_unchecked_mut, y/u/v_origin.get_unchecked
  | encIn | encY | encU | encV      -- src/yuv_rgb.rs ypbpr_to_ycbcr: input.get_unchecked, y/u/v_origin.get_unchecked_mut
deriving DecidableEq, Repr

/-- panics that the modelled code can raise -/
inductive Panic where
  | encDivisibility   -- assert in ypbpr_to_ycbcr (sizes not a multiple of the subsampling)
  | encUnwrap         -- Yuv::new(..).unwrap() in ypbpr_to_ycbcr
  | planeIndex        -- bounds-checked Plane::p / data_origin slice
  | planeIterWidth0   -- v_frame PlaneIter `width() - 1` underflow (overflow-checked builds) / index afterwards
deriving DecidableEq, Repr

inductive Out (α : Type) where
  | ok (a : α)
  | ub (s : Site)
  | panic (p : Panic)
deriving Repr

namespace Out
def bind {α β} (x : Out α) (f : α → Out β) : Out β :=
  match x with
  | .ok a => f a
  | .ub s => .ub s
  | .panic p => .panic p
instance : Monad Out where
  pure := .ok
  bind := Out.bind
def map' {α β} (f : α → β) (x : Out α) : Out β := x.bind (fun a => .ok (f a))
def isOk {α} : Out α → Bool | .ok _ => true | _ => false
end Out
