import Model.Mat32
import Model.Conv
import Model.Meta
import Model.Basic
/-! Model of src/yuv_rgb/color.rs (matrix and primaries tables, every match arm) and of the scalar part of
src/yuv_rgb.rs (scale/offset in binary64, to_f32_*, from_f32_*). -/
namespace ColorM
open F32 Mat32

def one : Nat := C.xy_to_xyz_f0

/-- `get_yuv_constants` -/
def yuvConstants (m : MC) : Except CErr (Nat × Nat) :=
  match m with
  | .Identity => .ok (C.get_yuv_constants_f0, C.get_yuv_constants_f1)
  | .BT470M => .ok (C.get_yuv_constants_f2, C.get_yuv_constants_f3)
  | .ST240M => .ok (C.get_yuv_constants_f4, C.get_yuv_constants_f5)
  | .BT470BG | .ST170M => .ok (C.get_yuv_constants_f6, C.get_yuv_constants_f7)
  | .BT709 => .ok (C.get_yuv_constants_f8, C.get_yuv_constants_f9)
  | .BT2020NonConstantLuminance | .BT2020ConstantLuminance => .ok (C.get_yuv_constants_f10, C.get_yuv_constants_f11)
  | .Reserved | .YCgCo | .ST2085 | .ChromaticityDerivedNonConstantLuminance | .ChromaticityDerivedConstantLuminance | .ICtCp =>
    .error .UnsupportedMatrixCoefficients
  | .Unspecified => .error .UnspecifiedMatrixCoefficients

/-- `ncl_rgb_to_yuv_matrix_from_kr_kb` -/
def fromKrKb (kr kb : Nat) : M3 :=
  let kg := sub (sub C.ncl_rgb_to_yuv_matrix_from_kr_kb_f0 kr) kb
  let us := div C.ncl_rgb_to_yuv_matrix_from_kr_kb_f1 (F32.fma C.ncl_rgb_to_yuv_matrix_from_kr_kb_f2 (neg kb) C.ncl_rgb_to_yuv_matrix_from_kr_kb_f3)
  let vs := div C.ncl_rgb_to_yuv_matrix_from_kr_kb_f4 (F32.fma C.ncl_rgb_to_yuv_matrix_from_kr_kb_f5 (neg kr) C.ncl_rgb_to_yuv_matrix_from_kr_kb_f6)
  ⟨⟨kr, kg, kb⟩,
   ⟨mul (neg kr) us, mul (neg kg) us, mul (sub C.ncl_rgb_to_yuv_matrix_from_kr_kb_f7 kb) us⟩,
   ⟨mul (sub C.ncl_rgb_to_yuv_matrix_from_kr_kb_f8 kr) vs, mul (neg kg) vs, mul (neg kb) vs⟩⟩

/-- `get_primaries_xy`: three (x, y) pairs -/
def primariesXy (p : CP) : Except CErr ((Nat × Nat) × (Nat × Nat) × (Nat × Nat)) :=
  match p with
  | .BT470M => .ok ((C.get_primaries_xy_f0, C.get_primaries_xy_f1), (C.get_primaries_xy_f2, C.get_primaries_xy_f3), (C.get_primaries_xy_f4, C.get_primaries_xy_f5))
  | .BT470BG => .ok ((C.get_primaries_xy_f6, C.get_primaries_xy_f7), (C.get_primaries_xy_f8, C.get_primaries_xy_f9), (C.get_primaries_xy_f10, C.get_primaries_xy_f11))
  | .ST170M | .ST240M => .ok ((C.get_primaries_xy_f12, C.get_primaries_xy_f13), (C.get_primaries_xy_f14, C.get_primaries_xy_f15), (C.get_primaries_xy_f16, C.get_primaries_xy_f17))
  | .BT709 => .ok ((C.get_primaries_xy_f18, C.get_primaries_xy_f19), (C.get_primaries_xy_f20, C.get_primaries_xy_f21), (C.get_primaries_xy_f22, C.get_primaries_xy_f23))
  | .Film => .ok ((C.get_primaries_xy_f24, C.get_primaries_xy_f25), (C.get_primaries_xy_f26, C.get_primaries_xy_f27), (C.get_primaries_xy_f28, C.get_primaries_xy_f29))
  | .BT2020 => .ok ((C.get_primaries_xy_f30, C.get_primaries_xy_f31), (C.get_primaries_xy_f32, C.get_primaries_xy_f33), (C.get_primaries_xy_f34, C.get_primaries_xy_f35))
  | .P3DCI | .P3Display => .ok ((C.get_primaries_xy_f36, C.get_primaries_xy_f37), (C.get_primaries_xy_f38, C.get_primaries_xy_f39), (C.get_primaries_xy_f40, C.get_primaries_xy_f41))
  | .Tech3213 => .ok ((C.get_primaries_xy_f42, C.get_primaries_xy_f43), (C.get_primaries_xy_f44, C.get_primaries_xy_f45), (C.get_primaries_xy_f46, C.get_primaries_xy_f47))
  | .Reserved0 | .Reserved | .ST428 => .error .UnsupportedColorPrimaries
  | .Unspecified => .error .UnspecifiedColorPrimaries

/-- `xy_to_xyz` -/
def xyToXyz (c : Nat × Nat) : V3 := ⟨div c.1 c.2, C.xy_to_xyz_f0, div (sub (sub C.xy_to_xyz_f1 c.1) c.2) c.2⟩

/-- `get_white_point` -/
def whitePoint (p : CP) : V3 :=
  match p with
  | .BT470M | .Film => xyToXyz (C.get_white_point_ILLUMINANT_C_f0, C.get_white_point_ILLUMINANT_C_f1)
  | .ST428 => xyToXyz (div C.get_white_point_ILLUMINANT_E_f0 C.get_white_point_ILLUMINANT_E_f1,
                       div C.get_white_point_ILLUMINANT_E_f2 C.get_white_point_ILLUMINANT_E_f3)
  | .P3DCI => xyToXyz (C.get_white_point_ILLUMINANT_DCI_f0, C.get_white_point_ILLUMINANT_DCI_f1)
  | _ => xyToXyz (C.get_white_point_ILLUMINANT_D65_f0, C.get_white_point_ILLUMINANT_D65_f1)

variable (fm : Bool)

/-- `get_yuv_constants_from_primaries` -/
def constantsFromPrimaries (p : CP) : Except CErr (Nat × Nat) :=
  match primariesXy p with
  | .error e => .error e
  | .ok (rxy, gxy, bxy) =>
    let r := xyToXyz rxy; let g := xyToXyz gxy; let b := xyToXyz bxy
    let w := whitePoint p
    let xr : V3 := ⟨r.x, g.x, b.x⟩; let yr : V3 := ⟨r.y, g.y, b.y⟩; let zr : V3 := ⟨r.z, g.z, b.z⟩
    let denom := V3.dot fm xr (V3.cross fm yr zr)
    let kr := div (V3.dot fm w (V3.cross fm g b)) denom
    let kb := div (V3.dot fm w (V3.cross fm r g)) denom
    .ok (kr, kb)

/-- `ncl_rgb_to_yuv_matrix` -/
def nclMatrix (m : MC) : Except CErr M3 :=
  match m with
  | .YCgCo => .ok ⟨⟨C.ncl_rgb_to_yuv_matrix_f0, C.ncl_rgb_to_yuv_matrix_f1, C.ncl_rgb_to_yuv_matrix_f2⟩,
                   ⟨neg C.ncl_rgb_to_yuv_matrix_f3, C.ncl_rgb_to_yuv_matrix_f4, neg C.ncl_rgb_to_yuv_matrix_f5⟩,
                   ⟨C.ncl_rgb_to_yuv_matrix_f6, C.ncl_rgb_to_yuv_matrix_f7, neg C.ncl_rgb_to_yuv_matrix_f8⟩⟩
  | .ST2085 => .ok (M3.sdiv ⟨⟨C.ncl_rgb_to_yuv_matrix_f9, C.ncl_rgb_to_yuv_matrix_f10, C.ncl_rgb_to_yuv_matrix_f11⟩,
                             ⟨C.ncl_rgb_to_yuv_matrix_f12, C.ncl_rgb_to_yuv_matrix_f13, C.ncl_rgb_to_yuv_matrix_f14⟩,
                             ⟨C.ncl_rgb_to_yuv_matrix_f15, C.ncl_rgb_to_yuv_matrix_f16, C.ncl_rgb_to_yuv_matrix_f17⟩⟩
                      C.ncl_rgb_to_yuv_matrix_f18)
  | _ => match yuvConstants m with
    | .error e => .error e
    | .ok (kr, kb) => .ok (fromKrKb kr kb)

/-- `ncl_rgb_to_yuv_matrix_from_primaries` -/
def nclFromPrimaries (p : CP) : Except CErr M3 :=
  match p with
  | .BT709 => nclMatrix .BT709
  | .BT2020 => nclMatrix .BT2020NonConstantLuminance
  | _ => match constantsFromPrimaries fm p with
    | .error e => .error e
    | .ok (kr, kb) => .ok (fromKrKb kr kb)

/-- `get_rgb_to_yuv_matrix` -/
def rgbToYuvMatrix (m : MC) (p : CP) : Except CErr M3 :=
  match m with
  | .Identity | .BT2020ConstantLuminance | .ChromaticityDerivedConstantLuminance | .ST2085 | .ICtCp => nclFromPrimaries fm p
  | .BT709 | .BT470M | .BT470BG | .ST170M | .ST240M | .YCgCo | .ChromaticityDerivedNonConstantLuminance
  | .BT2020NonConstantLuminance => nclMatrix m
  | .Reserved => .error .UnsupportedMatrixCoefficients
  | .Unspecified => .error .UnspecifiedMatrixCoefficients

/-- `get_yuv_to_rgb_matrix` -/
def yuvToRgbMatrix (m : MC) (p : CP) : Except CErr M3 :=
  match rgbToYuvMatrix fm m p with
  | .error e => .error e
  | .ok t => .ok (M3.invert fm t)

-- scale / offset, computed in binary64 as `get_scale_offset` does
/-- `pixel_range` -/
def pixelRange (bd : Nat) (full chroma : Bool) : Nat :=
  if bd = C.pixel_range_i0 then C.pixel_range_f0
  else if full then F64.ofNat (2^bd - 1)
  else if chroma then F64.ofNat (C.pixel_range_i3 * 2^(bd - C.pixel_range_i4))
  else F64.ofNat (C.pixel_range_i5 * 2^(bd - C.pixel_range_i6))
/-- `pixel_offset` -/
def pixelOffset (bd : Nat) (full chroma : Bool) : Nat :=
  if bd = C.pixel_offset_i0 then C.pixel_offset_f0
  else if chroma then F64.ofNat (2^(bd - 1))
  else if full then C.pixel_offset_f1
  else F64.ofNat (C.pixel_offset_i3 * 2^(bd - C.pixel_offset_i4))
/-- `get_scale_offset::<TO_FLOAT>` -/
def scaleOffset (toFloat : Bool) (bd : Nat) (full chroma : Bool) : Nat × Nat :=
  let ri := if toFloat then pixelRange bd full chroma else pixelRange 32 true false
  let oi := if toFloat then pixelOffset bd full chroma else pixelOffset 32 true false
  let ro := if toFloat then pixelRange 32 true false else pixelRange bd full chroma
  let oo := if toFloat then pixelOffset 32 true false else pixelOffset bd full chroma
  let scale := Conv.f64to32 (F64.div ro ri)
  let offset := Conv.f64to32 (F64.add (F64.div (F64.mul (F64.neg oi) ro) ri) oo)
  (scale, offset)

def EPSILON : Nat := 0x34000000
/-- `to_f32_luma` (sample already widened to u16) -/
def toF32Luma (v s o : Nat) : Nat := clamp (F32.fma (F32.ofNat v) s o) C.to_f32_luma_f0 C.to_f32_luma_f1
/-- `to_f32_chroma` -/
def toF32Chroma (v s o : Nat) : Nat := clamp (F32.fma (F32.ofNat v) s o) (neg C.to_f32_chroma_f0) C.to_f32_chroma_f1
def clampNat (x lo hi : Nat) : Nat := if x < lo then lo else if x > hi then hi else x
/-- `from_f32_luma`; the final `T::cast_from` to u8 truncates when the storage type is u8 (`ts = 1`) -/
def fromF32Luma (ts : Nat) (v s o bd : Nat) : Nat :=
  let c := clampNat (toU16Sat (F32.round (F32.fma v s o))) 0 ((2^bd - 1) % 65536)
  if ts = 1 then c % 256 else c
/-- `from_f32_chroma` -/
def fromF32Chroma (ts : Nat) (v s o bd : Nat) (full : Bool) : Nat :=
  if full && lt (F32.abs (add v C.from_f32_chroma_f0)) EPSILON then 0
  else
    let c := clampNat (toU16Sat (F32.round (F32.fma v s o))) 0 ((2^bd - 1) % 65536)
    if ts = 1 then c % 256 else c

end ColorM
