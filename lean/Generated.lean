import Generated.Consts
import Generated.Manifests
