import Check.Grey
/-! Finite checkers for C01/C02/C08 (exact rational comparisons, import-free): per-code normalisation error against the
H.273 formulas and entry-wise distance of the model's computed matrices to the exact rational H.273 matrices. -/
namespace CheckDecode
open F32 Mat32 ColorM CheckGrey

/-- `|value(a) - p/q| ≤ num/den` for a finite binary32 `a`, decided exactly in integers (`q > 0`) -/
def ratDiffLe (a : Nat) (p : Int) (q : Nat) (num den : Nat) : Bool :=
  match decode a with
  | .fin n m e =>
    let v : Int := if n then -(m : Int) else (m : Int)
    if e ≥ 0 then decide ((v * (2 ^ e.toNat : Nat) * q - p).natAbs * den ≤ num * q)
    else decide ((v * q - p * (2 ^ (-e).toNat : Nat)).natAbs * den ≤ num * q * 2 ^ (-e).toNat)
  | _ => false

/-- exact rationals as (numerator, positive denominator) -/
structure Q where (num : Int) (den : Nat) deriving Repr, DecidableEq
def Q.mul (a b : Q) : Q := ⟨a.num * b.num, a.den * b.den⟩
def Q.sub (a b : Q) : Q := ⟨a.num * b.den - b.num * a.den, a.den * b.den⟩
def Q.neg (a : Q) : Q := ⟨-a.num, a.den⟩
/-- a / b for b > 0 -/
def Q.div (a b : Q) : Q := ⟨a.num * b.den, a.den * b.num.toNat⟩
def Q.ofNat (n : Nat) : Q := ⟨n, 1⟩

/-- H.273 luma / chroma normalisation of a code as numerator / denominator: limited (Y-16k)/(219k), (C-128k)/(224k) with
k = 2^(n-8); full Y/(2^n-1), (C-2^(n-1))/(2^n-1) -/
def lumaN (full : Bool) (bd Y : Nat) : Int := if full then (Y : Int) else (Y : Int) - 16 * ((2 ^ (bd - 8) : Nat) : Int)
def lumaD (full : Bool) (bd : Nat) : Nat := if full then 2 ^ bd - 1 else 219 * 2 ^ (bd - 8)
def chromaN (full : Bool) (bd C : Nat) : Int := if full then (C : Int) - ((2 ^ (bd - 1) : Nat) : Int) else (C : Int) - 128 * ((2 ^ (bd - 8) : Nat) : Int)
def chromaD (full : Bool) (bd : Nat) : Nat := if full then 2 ^ bd - 1 else 224 * 2 ^ (bd - 8)
/-- clamped to [0,1] -/
def lumaSpec (full : Bool) (bd Y : Nat) : Q :=
  if lumaN full bd Y < 0 then ⟨0, 1⟩ else if lumaN full bd Y > lumaD full bd then ⟨1, 1⟩ else ⟨lumaN full bd Y, lumaD full bd⟩
/-- clamped to [-1/2,1/2] -/
def chromaSpec (full : Bool) (bd C : Nat) : Q :=
  if 2 * chromaN full bd C < -(chromaD full bd : Int) then ⟨-1, 2⟩ else if 2 * chromaN full bd C > chromaD full bd then ⟨1, 2⟩
  else ⟨chromaN full bd C, chromaD full bd⟩

/-- tolerance of the normalisation check: 2e-7 -/
def normOk (bd : Nat) (full : Bool) (c : Nat) : Bool :=
  let l := scaleOffset true bd full false
  let ch := scaleOffset true bd full true
  ratDiffLe (toF32Luma c l.1 l.2) (lumaSpec full bd c).num (lumaSpec full bd c).den 2 10000000 &&
  ratDiffLe (toF32Chroma c ch.1 ch.2) (chromaSpec full bd c).num (chromaSpec full bd c).den 2 10000000

def allNormOk (bd : Nat) : Bool := allBelow (2 ^ bd) (normOk bd true) && allBelow (2 ^ bd) (normOk bd false)

/-- Kr, Kb of the standards as exact decimals -/
def krkb : MC → Option (Q × Q)
  | .BT709 => some (⟨2126, 10000⟩, ⟨722, 10000⟩)
  | .BT470M => some (⟨30, 100⟩, ⟨11, 100⟩)
  | .BT470BG | .ST170M => some (⟨299, 1000⟩, ⟨114, 1000⟩)
  | .ST240M => some (⟨212, 1000⟩, ⟨87, 1000⟩)
  | .BT2020NonConstantLuminance => some (⟨2627, 10000⟩, ⟨593, 10000⟩)
  | _ => none

structure Q3 where (a b c : Q) deriving Repr
structure QM where (r1 r2 r3 : Q3) deriving Repr

/-- the exact YUV->RGB matrix of H.273: rows R, G, B over (Y, Cb, Cr) -/
def decodeSpec (m : MC) : Option QM :=
  if m = .YCgCo then some ⟨⟨⟨1, 1⟩, ⟨-1, 1⟩, ⟨1, 1⟩⟩, ⟨⟨1, 1⟩, ⟨1, 1⟩, ⟨0, 1⟩⟩, ⟨⟨1, 1⟩, ⟨-1, 1⟩, ⟨-1, 1⟩⟩⟩
  else match krkb m with
    | none => none
    | some (kr, kb) =>
      let one : Q := ⟨1, 1⟩; let two : Q := ⟨2, 1⟩
      let kg := (one.sub kr).sub kb
      let rcr := two.mul (one.sub kr)            -- R = Y + 2(1-Kr) Cr
      let bcb := two.mul (one.sub kb)            -- B = Y + 2(1-Kb) Cb
      some ⟨⟨one, ⟨0, 1⟩, rcr⟩, ⟨one, ((kb.mul bcb).div kg).neg, ((kr.mul rcr).div kg).neg⟩, ⟨one, bcb, ⟨0, 1⟩⟩⟩

/-- entry within 2.5e-7 of the exact rational, and the rational itself at most 2 in magnitude with a positive denominator -/
def entryOk (a : Nat) (q : Q) : Bool := ratDiffLe a q.num q.den 25 100000000 && decide (0 < q.den) && decide (q.num.natAbs ≤ 2 * q.den)
def rowOk (r : V3) (q : Q3) : Bool := entryOk r.x q.a && entryOk r.y q.b && entryOk r.z q.c

/-- every entry of the model's decode matrix is finite and within 2.5e-7 of the exact one -/
def matOk (fm : Bool) (m : MC) : Bool :=
  match yuvToRgbMatrix fm m .BT709, decodeSpec m with
  | .ok inv, some s => rowOk inv.r1 s.r1 && rowOk inv.r2 s.r2 && rowOk inv.r3 s.r3
  | _, _ => false

def std7 : List MC := [.BT709, .BT470M, .BT470BG, .ST170M, .ST240M, .BT2020NonConstantLuminance, .YCgCo]
def depths : List Nat := [8, 9, 10, 11, 12, 13, 14, 15, 16]

end CheckDecode
