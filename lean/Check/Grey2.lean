import Check.Grey
import Model.Pixel
/-! Finite checkers for the remaining C16 clauses: linear grey -> XYB and -> HSL over the 2^20 + 1 grey levels i / 2^20. -/
namespace CheckGrey2
open F32 Mat32 PixelM CheckGrey

def dummyLibm : Libm := { ln := fun _ => 0, log10 := fun _ => 0, powf := fun x _ => x, expf := id, cbrt := id }
def fastB : Build := { fastmath := true, fma := false, libm := dummyLibm }

/-- grey level i / 2^20 as a binary32 (exact) -/
def level (i : Nat) : Nat := F32.div (F32.ofNat i) 0x49800000

/-- |X| <= 1e-6 and |Y - B| <= 1e-6; for black all three within 1e-6 of 0 -/
def xybGreyOk (i : Nat) : Bool :=
  let v := level i
  let o := lrgbToXyb fastB ⟨v, v, v⟩
  absDiffLe o.x 0 1 1000000 && absDiffLe o.y o.z 1 1000000 &&
  (if i = 0 then absDiffLe o.y 0 1 1000000 && absDiffLe o.z 0 1 1000000 else true)

/-- hue 0, saturation 0, L equal to the grey level, bit for bit -/
def hslGreyOk (i : Nat) : Bool :=
  let v := level i
  let o := lrgbToHsl ⟨v, v, v⟩
  isZero o.x && isZero o.y && (o.z == v)

/-- all i with lo <= i < lo + n -/
def allFrom (lo : Nat) : Nat → (Nat → Bool) → Bool
  | 0, _ => true
  | n+1, f => f (lo + n) && allFrom lo n f

theorem allFrom_spec (lo n : Nat) (f : Nat → Bool) (h : allFrom lo n f = true) : ∀ i, lo ≤ i → i < lo + n → f i = true := by
  induction n with
  | zero => intro i h1 h2; omega
  | succ n ih =>
    simp only [allFrom, Bool.and_eq_true] at h
    intro i h1 h2
    by_cases he : i = lo + n
    · subst he; exact h.1
    · exact ih h.2 i h1 (by omega)

end CheckGrey2
