import Check.Decode
/-! Finite checkers for C02 (RGB->YUV): forward matrix entries against the exact H.273 rationals, exactness of scale/offset. -/
namespace CheckEncode
open F32 Mat32 ColorM CheckGrey CheckDecode

/-- the exact RGB->YUV matrix of H.273: rows Y', Cb, Cr over (R, G, B) -/
def encodeSpec (m : MC) : Option QM :=
  if m = .YCgCo then some ⟨⟨⟨1, 4⟩, ⟨1, 2⟩, ⟨1, 4⟩⟩, ⟨⟨-1, 4⟩, ⟨1, 2⟩, ⟨-1, 4⟩⟩, ⟨⟨1, 2⟩, ⟨0, 1⟩, ⟨-1, 2⟩⟩⟩
  else match krkb m with
    | none => none
    | some (kr, kb) =>
      let one : Q := ⟨1, 1⟩; let two : Q := ⟨2, 1⟩
      let kg := (one.sub kr).sub kb
      let ub := two.mul (one.sub kb)             -- Cb = (B - Y') / (2 (1 - Kb))
      let vr := two.mul (one.sub kr)             -- Cr = (R - Y') / (2 (1 - Kr))
      some ⟨⟨kr, kg, kb⟩, ⟨(kr.div ub).neg, (kg.div ub).neg, (one.sub kb).div ub⟩, ⟨(one.sub kr).div vr, (kg.div vr).neg, (kb.div vr).neg⟩⟩

/-- entry within `tn/td` of the exact rational, the rational at most 1 in magnitude with a positive denominator -/
def entryOk1 (tn td : Nat) (a : Nat) (q : Q) : Bool := ratDiffLe a q.num q.den tn td && decide (0 < q.den) && decide (q.num.natAbs ≤ q.den)
/-- |a| + |b| + |c| ≤ 1 for the exact row (every row of the H.273 forward matrices has absolute sum 1) -/
def sumOk (q : Q3) : Bool :=
  decide (q.a.num.natAbs * q.b.den * q.c.den + q.b.num.natAbs * q.a.den * q.c.den + q.c.num.natAbs * q.a.den * q.b.den ≤ q.a.den * q.b.den * q.c.den)
def rowOk1 (tn td : Nat) (r : V3) (q : Q3) : Bool := entryOk1 tn td r.x q.a && entryOk1 tn td r.y q.b && entryOk1 tn td r.z q.c && sumOk q

def fwdOkT (tn td : Nat) (fm : Bool) (m : MC) : Bool :=
  match rgbToYuvMatrix fm m .BT709, encodeSpec m with
  | .ok t, some s => rowOk1 tn td t.r1 s.r1 && rowOk1 tn td t.r2 s.r2 && rowOk1 tn td t.r3 s.r3
  | _, _ => false

/-- tolerance used by C02: 6e-8 -/
def fwdOk (fm : Bool) (m : MC) : Bool := fwdOkT 6 100000000 fm m

/-- scale and offset of the float->code direction are exactly the H.273 integers (range, black level) -/
def soOk (bd : Nat) (full : Bool) : Bool :=
  let l := scaleOffset false bd full false
  let c := scaleOffset false bd full true
  ratDiffLe l.1 (lumaD full bd) 1 0 1 && ratDiffLe l.2 (if full then 0 else 16 * 2 ^ (bd - 8) : Nat) 1 0 1 &&
  ratDiffLe c.1 (chromaD full bd) 1 0 1 && ratDiffLe c.2 (if full then 2 ^ (bd - 1) else 128 * 2 ^ (bd - 8) : Nat) 1 0 1

def soAll : Bool := CheckDecode.depths.all fun bd => soOk bd true && soOk bd false

end CheckEncode
