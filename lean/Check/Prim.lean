import Check.Encode
import Model.Pixel
/-! Finite checkers for C06: the exact CIE derivation of the primaries-conversion matrix in rational arithmetic
(`M_out^-1 * Bradford(white_in -> white_out) * M_in` from the H.273 chromaticities and white points) and entry-wise comparison
with the matrix the model computes in binary32. Import-free. -/
namespace CheckPrim
open F32 Mat32 ColorM PixelM CheckDecode

def Q.add (a b : Q) : Q := ⟨a.num * b.den + b.num * a.den, a.den * b.den⟩
/-- a / b for b ≠ 0 (sign moved to the numerator) -/
def Q.divS (a b : Q) : Q := ⟨a.num * b.den * (if b.num < 0 then -1 else 1), a.den * b.num.natAbs⟩
def qz : Q := ⟨0, 1⟩
def q1 : Q := ⟨1, 1⟩

structure QV where (x y z : Q)
structure QMat where (r1 r2 r3 : QV)

def QV.dot (a b : QV) : Q := Q.add (Q.mul a.x b.x) (Q.add (Q.mul a.y b.y) (Q.mul a.z b.z))
def QMat.mulVec (m : QMat) (v : QV) : QV := ⟨m.r1.dot v, m.r2.dot v, m.r3.dot v⟩
def QMat.col1 (m : QMat) : QV := ⟨m.r1.x, m.r2.x, m.r3.x⟩
def QMat.col2 (m : QMat) : QV := ⟨m.r1.y, m.r2.y, m.r3.y⟩
def QMat.col3 (m : QMat) : QV := ⟨m.r1.z, m.r2.z, m.r3.z⟩
def QMat.mul (a b : QMat) : QMat :=
  ⟨⟨a.r1.dot b.col1, a.r1.dot b.col2, a.r1.dot b.col3⟩, ⟨a.r2.dot b.col1, a.r2.dot b.col2, a.r2.dot b.col3⟩, ⟨a.r3.dot b.col1, a.r3.dot b.col2, a.r3.dot b.col3⟩⟩
def det2 (a b c d : Q) : Q := Q.sub (Q.mul a d) (Q.mul b c)
def QMat.det (m : QMat) : Q :=
  Q.add (Q.sub (Q.mul m.r1.x (det2 m.r2.y m.r2.z m.r3.y m.r3.z)) (Q.mul m.r1.y (det2 m.r2.x m.r2.z m.r3.x m.r3.z)))
        (Q.mul m.r1.z (det2 m.r2.x m.r2.y m.r3.x m.r3.y))
/-- inverse by the adjugate -/
def QMat.inv (m : QMat) : QMat :=
  let d := m.det
  let c (a b c' d' : Q) : Q := Q.divS (det2 a b c' d') d
  ⟨⟨c m.r2.y m.r2.z m.r3.y m.r3.z, Q.neg (c m.r1.y m.r1.z m.r3.y m.r3.z), c m.r1.y m.r1.z m.r2.y m.r2.z⟩,
   ⟨Q.neg (c m.r2.x m.r2.z m.r3.x m.r3.z), c m.r1.x m.r1.z m.r3.x m.r3.z, Q.neg (c m.r1.x m.r1.z m.r2.x m.r2.z)⟩,
   ⟨c m.r2.x m.r2.y m.r3.x m.r3.y, Q.neg (c m.r1.x m.r1.y m.r3.x m.r3.y), c m.r1.x m.r1.y m.r2.x m.r2.y⟩⟩
def QMat.id : QMat := ⟨⟨q1, qz, qz⟩, ⟨qz, q1, qz⟩, ⟨qz, qz, q1⟩⟩

/-- H.273 chromaticities (x, y) of R, G, B in thousandths / ten-thousandths -/
def primXy : CP → Option ((Q × Q) × (Q × Q) × (Q × Q))
  | .BT470M => some ((⟨670, 1000⟩, ⟨330, 1000⟩), (⟨210, 1000⟩, ⟨710, 1000⟩), (⟨140, 1000⟩, ⟨80, 1000⟩))
  | .BT470BG => some ((⟨640, 1000⟩, ⟨330, 1000⟩), (⟨290, 1000⟩, ⟨600, 1000⟩), (⟨150, 1000⟩, ⟨60, 1000⟩))
  | .ST170M | .ST240M => some ((⟨630, 1000⟩, ⟨340, 1000⟩), (⟨310, 1000⟩, ⟨595, 1000⟩), (⟨155, 1000⟩, ⟨70, 1000⟩))
  | .BT709 => some ((⟨640, 1000⟩, ⟨330, 1000⟩), (⟨300, 1000⟩, ⟨600, 1000⟩), (⟨150, 1000⟩, ⟨60, 1000⟩))
  | .Film => some ((⟨681, 1000⟩, ⟨319, 1000⟩), (⟨243, 1000⟩, ⟨692, 1000⟩), (⟨145, 1000⟩, ⟨49, 1000⟩))
  | .BT2020 => some ((⟨708, 1000⟩, ⟨292, 1000⟩), (⟨170, 1000⟩, ⟨797, 1000⟩), (⟨131, 1000⟩, ⟨46, 1000⟩))
  | .P3DCI | .P3Display => some ((⟨680, 1000⟩, ⟨320, 1000⟩), (⟨265, 1000⟩, ⟨690, 1000⟩), (⟨150, 1000⟩, ⟨60, 1000⟩))
  | .Tech3213 => some ((⟨630, 1000⟩, ⟨340, 1000⟩), (⟨295, 1000⟩, ⟨605, 1000⟩), (⟨155, 1000⟩, ⟨77, 1000⟩))
  | _ => none

def xyz (c : Q × Q) : QV := ⟨Q.divS c.1 c.2, q1, Q.divS (Q.sub (Q.sub q1 c.1) c.2) c.2⟩

/-- white points: C for BT.470M/Film, E for ST 428, DCI for P3-DCI, D65 otherwise -/
def whiteXy : CP → Q × Q
  | .BT470M | .Film => (⟨310, 1000⟩, ⟨316, 1000⟩)
  | .ST428 => (⟨1, 3⟩, ⟨1, 3⟩)
  | .P3DCI => (⟨314, 1000⟩, ⟨351, 1000⟩)
  | _ => (⟨3127, 10000⟩, ⟨3290, 10000⟩)

/-- RGB -> XYZ: columns are the primaries' XYZ scaled so that (1,1,1) maps to the white point; identity for ST 428 (CIE XYZ) -/
def rgbToXyz (p : CP) : Option QMat :=
  if p = .ST428 then some QMat.id else
  match primXy p with
  | none => none
  | some (r, g, b) =>
    let R := xyz r; let G := xyz g; let B := xyz b
    let m : QMat := ⟨⟨R.x, G.x, B.x⟩, ⟨R.y, G.y, B.y⟩, ⟨R.z, G.z, B.z⟩⟩
    let s := m.inv.mulVec (xyz (whiteXy p))
    some ⟨⟨Q.mul m.r1.x s.x, Q.mul m.r1.y s.y, Q.mul m.r1.z s.z⟩, ⟨Q.mul m.r2.x s.x, Q.mul m.r2.y s.y, Q.mul m.r2.z s.z⟩,
          ⟨Q.mul m.r3.x s.x, Q.mul m.r3.y s.y, Q.mul m.r3.z s.z⟩⟩

def bradfordQ : QMat := ⟨⟨⟨8951, 10000⟩, ⟨2664, 10000⟩, ⟨-1614, 10000⟩⟩, ⟨⟨-7502, 10000⟩, ⟨17135, 10000⟩, ⟨367, 10000⟩⟩, ⟨⟨389, 10000⟩, ⟨-685, 10000⟩, ⟨10296, 10000⟩⟩⟩

/-- Bradford chromatic adaptation from the white of `pin` to the white of `pout` -/
def adaptQ (pin pout : CP) : QMat :=
  let wi := xyz (whiteXy pin); let wo := xyz (whiteXy pout)
  let ri := bradfordQ.mulVec wi; let ro := bradfordQ.mulVec wo
  let d : QMat := ⟨⟨Q.divS ro.x ri.x, qz, qz⟩, ⟨qz, Q.divS ro.y ri.y, qz⟩, ⟨qz, qz, Q.divS ro.z ri.z⟩⟩
  (bradfordQ.inv.mul d).mul bradfordQ

/-- the exact conversion matrix `M_out^-1 * Bradford(white_in -> white_out) * M_in` -/
def primSpec (pin pout : CP) : Option QMat :=
  match rgbToXyz pin, rgbToXyz pout with
  | some mi, some mo => some ((mo.inv.mul (adaptQ pin pout)).mul mi)
  | _, _ => none

def toQ3 (v : QV) : Q3 := ⟨v.x, v.y, v.z⟩

/-- entry within `tn/td` of the exact rational; the exact rational at most 4 in magnitude with a positive denominator -/
def entryOkP (tn td : Nat) (a : Nat) (q : Q) : Bool := ratDiffLe a q.num q.den tn td && decide (0 < q.den) && decide (q.num.natAbs ≤ 4 * q.den)
def rowOkP (tn td : Nat) (r : V3) (q : QV) : Bool := entryOkP tn td r.x q.x && entryOkP tn td r.y q.y && entryOkP tn td r.z q.z

/-- exact row sums are 1: the exact matrix maps (1,1,1) to (1,1,1) and greys to greys -/
def rowSumOne (q : QV) : Bool :=
  let s := Q.add q.x (Q.add q.y q.z)
  decide (s.num = (s.den : Int)) && decide (0 < s.den)

/-- |x| + |y| + |z| ≤ 27/5 for the exact row -/
def absSumOk (q : QV) : Bool :=
  decide (5 * (q.x.num.natAbs * q.y.den * q.z.den + q.y.num.natAbs * q.x.den * q.z.den + q.z.num.natAbs * q.x.den * q.y.den) ≤ 27 * (q.x.den * q.y.den * q.z.den))

def primOkT (tn td : Nat) (fm : Bool) (pin pout : CP) : Bool :=
  match primariesMatrix fm pin pout, primSpec pin pout with
  | .ok (some t), some s => rowOkP tn td t.r1 s.r1 && rowOkP tn td t.r2 s.r2 && rowOkP tn td t.r3 s.r3 &&
      rowSumOne s.r1 && rowSumOne s.r2 && rowSumOne s.r3 && absSumOk s.r1 && absSumOk s.r2 && absSumOk s.r3
  | _, _ => false

/-- tolerance used by C06: 1.2e-6 -/
def primOk (fm : Bool) (pin pout : CP) : Bool := primOkT 12 10000000 fm pin pout

def prims10 : List CP := [.BT470M, .BT470BG, .ST170M, .ST240M, .Film, .BT2020, .ST428, .P3DCI, .P3Display, .Tech3213]

end CheckPrim
