import Model.Color
/-! Finite checker for C16 (neutral axis of YUV->RGB): exact dyadic comparisons, no reals. Import-free apart from the model. -/
namespace CheckGrey
open F32 Mat32 ColorM

/-- `|a - b| ≤ num/den` for finite binary32 values, decided exactly in integers -/
def absDiffLe (a b num den : Nat) : Bool :=
  match decode a, decode b with
  | .fin n1 m1 e1, .fin n2 m2 e2 =>
    let r := addExact n1 m1 e1 (!n2) m2 e2       -- a - b, exact
    let m := r.2.1; let e := r.2.2
    if e ≥ 0 then decide (m * 2 ^ e.toNat * den ≤ num) else decide (m * den ≤ num * 2 ^ (-e).toNat)
  | _, _ => false

def isZero (a : Nat) : Bool := a == 0 || a == 0x80000000

/-- all three components within `num/den` of each other -/
def spreadLe (v : V3) (num den : Nat) : Bool := absDiffLe v.x v.y num den && absDiffLe v.x v.z num den && absDiffLe v.y v.z num den

def allBelow : Nat → (Nat → Bool) → Bool
  | 0, _ => true
  | n+1, f => f n && allBelow n f

theorem allBelow_spec (n : Nat) (f : Nat → Bool) (h : allBelow n f = true) : ∀ i, i < n → f i = true := by
  induction n with
  | zero => intro i hi; omega
  | succ n ih =>
    simp only [allBelow, Bool.and_eq_true] at h
    intro i hi
    by_cases he : i = n
    · subst he; exact h.1
    · exact ih h.2 i (by omega)

/-- decode of a grey sample (chroma codes 2^(bd-1)) with matrix `inv` -/
def decodeGrey (fm : Bool) (inv : M3) (bd : Nat) (full : Bool) (Y : Nat) : V3 :=
  let l := scaleOffset true bd full false
  let c := scaleOffset true bd full true
  M3.mulArr fm inv ⟨toF32Luma Y l.1 l.2, toF32Chroma (2 ^ (bd - 1)) c.1 c.2, toF32Chroma (2 ^ (bd - 1)) c.1 c.2⟩

def blackCode (bd : Nat) (full : Bool) : Nat := if full then 0 else 16 * 2 ^ (bd - 8)
def whiteCode (bd : Nat) (full : Bool) : Nat := if full then 2 ^ bd - 1 else 235 * 2 ^ (bd - 8)
def oneF : Nat := 0x3f800000

/-- the C16 clause for one configuration: every luma code with neutral chroma decodes to R=G=B within 5e-7,
nominal black to exactly 0, nominal white to 1 within 1e-6 -/
def greyOk (fm : Bool) (inv : M3) (bd : Nat) (full : Bool) (Y : Nat) : Bool :=
  let v := decodeGrey fm inv bd full Y
  spreadLe v 5 10000000 &&
  (if Y = blackCode bd full then isZero v.x && isZero v.y && isZero v.z else true) &&
  (if Y = whiteCode bd full then absDiffLe v.x oneF 1 1000000 && absDiffLe v.y oneF 1 1000000 && absDiffLe v.z oneF 1 1000000 else true)

def std7 : List MC := [.BT709, .BT470M, .BT470BG, .ST170M, .ST240M, .BT2020NonConstantLuminance, .YCgCo]
def depths : List Nat := [8, 9, 10, 11, 12, 13, 14, 15, 16]

def cfgOk (fm : Bool) (m : MC) (full : Bool) (bd : Nat) : Bool :=
  match yuvToRgbMatrix fm m .BT709 with
  | .ok inv => allBelow (2 ^ bd) (greyOk fm inv bd full)
  | .error _ => false

def allOk (fm : Bool) (m : MC) : Bool := depths.all fun bd => cfgOk fm m true bd && cfgOk fm m false bd

end CheckGrey
