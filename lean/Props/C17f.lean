import Props.C17e
/-! C17 round trip, part 4: the hue produced by the forward conversion, read back in sextant units, is within 2e-6 (on the
circle) of a real hue `ht` whose exact hexcone decode is the pixel (within 1.2e-7); and the final theorem. -/
namespace C17
open F32 Real PixelM

theorem T06 : Tr 0 = Tr 6 ∧ Tg 0 = Tg 6 ∧ Tb 0 = Tb 6 := by
  obtain ⟨a1, a2, a3⟩ := T_s0 0 (le_refl _) (by norm_num)
  obtain ⟨b1, b2, b3⟩ := T_s5 6 (by norm_num) (le_refl _)
  exact ⟨by rw [a1, b1], by rw [a2, b2], by rw [a3, b3]; norm_num⟩

/-- a 1-Lipschitz ramp with `T 0 = T 6` is 1-Lipschitz on the circle of circumference 6 -/
theorem T_circ (T : ℝ → ℝ) (hlip : ∀ a b, |T a - T b| ≤ |a - b|) (h06 : T 0 = T 6) (h h' η : ℝ) (hh : 0 ≤ h ∧ h ≤ 6) (hh' : 0 ≤ h' ∧ h' ≤ 6)
    (hη : η ≤ 1) (k : ℤ) (hk : |h - h' - 6 * (k:ℝ)| ≤ η) : |T h - T h'| ≤ η := by
  obtain ⟨k1, k2⟩ := abs_le.mp hk
  have hk_lt : (k:ℝ) < 2 := by linarith [hh.1, hh'.2]
  have hk_gt : (-2:ℝ) < (k:ℝ) := by linarith [hh.2, hh'.1]
  have a : k < 2 := by exact_mod_cast hk_lt
  have b : -2 < k := by exact_mod_cast hk_gt
  obtain rfl | rfl | rfl : k = -1 ∨ k = 0 ∨ k = 1 := by omega
  · have t1 := hlip h 0; have t2 := hlip 6 h'
    have t := abs_sub_le (T h) (T 0) (T h')
    have e : T 0 - T h' = T 6 - T h' := by rw [h06]
    rw [e] at t
    rw [sub_zero, abs_of_nonneg hh.1] at t1
    rw [abs_of_nonneg (by linarith [hh'.2] : (0:ℝ) ≤ 6 - h')] at t2
    push_cast at k1 k2
    linarith
  · have := hlip h h'
    have e : |h - h'| ≤ η := by simpa using hk
    linarith
  · have t1 := hlip h 6; have t2 := hlip 0 h'
    have t := abs_sub_le (T h) (T 6) (T h')
    have e : T 6 - T h' = T 0 - T h' := by rw [h06]
    rw [e] at t
    rw [abs_of_nonpos (by linarith [hh.2] : h - 6 ≤ 0)] at t1
    rw [zero_sub, abs_neg, abs_of_nonneg hh'.1] at t2
    push_cast at k1 k2
    linarith

set_option maxHeartbeats 8000000 in
/-- for a chroma of at least 1e-6 the forward hue, in sextant units, is within 2e-6 on the circle of a real hue `ht` whose exact
hexcone decode (with the exact chroma and minimum) is the pixel up to 1.2e-7 -/
theorem hue_back (p : Mat32.V3) (hp : Unit3 p) (hw : Wf3 p)
    (hC : 1 / 1000000 ≤ mx (toReal p.x) (toReal p.y) (toReal p.z) - mn (toReal p.x) (toReal p.y) (toReal p.z)) :
    ∃ ht : ℝ, (0 ≤ ht ∧ ht ≤ 6) ∧
      |mn (toReal p.x) (toReal p.y) (toReal p.z) + (mx (toReal p.x) (toReal p.y) (toReal p.z) - mn (toReal p.x) (toReal p.y) (toReal p.z)) * Tr ht - toReal p.x| ≤ 12 / 100000000 ∧
      |mn (toReal p.x) (toReal p.y) (toReal p.z) + (mx (toReal p.x) (toReal p.y) (toReal p.z) - mn (toReal p.x) (toReal p.y) (toReal p.z)) * Tg ht - toReal p.y| ≤ 12 / 100000000 ∧
      |mn (toReal p.x) (toReal p.y) (toReal p.z) + (mx (toReal p.x) (toReal p.y) (toReal p.z) - mn (toReal p.x) (toReal p.y) (toReal p.z)) * Tb ht - toReal p.z| ≤ 12 / 100000000 ∧
      ∃ k : ℤ, |toReal (lrgbToHsl p).x / 60 - ht - 6 * (k:ℝ)| ≤ 2 / 1000000 := by
  obtain ⟨fM, fm, vM, vm⟩ := maxmin p hp
  obtain ⟨b0, b1, b2⟩ := mx_mn_bounds _ _ _ hp.bx hp.bY hp.bz
  obtain ⟨cx, cy, cz⟩ := comp_bounds (toReal p.x) (toReal p.y) (toReal p.z)
  have hmc := mn_choice (toReal p.x) (toReal p.y) (toReal p.z)
  have hMc := mx_choice (toReal p.x) (toReal p.y) (toReal p.z)
  set xmax := F32.max (F32.max p.x p.y) p.z
  set xmin := F32.min (F32.min p.x p.y) p.z
  have wmin : WF xmin := min_wf _ _ (min_wf _ _ hw.wx hw.wy) hw.wz
  set x := toReal p.x; set y := toReal p.y; set z := toReal p.z
  set c := F32.sub xmax xmin with hc
  have hx : (lrgbToHsl p).x =
      (let h0 := if F32.lt (F32.abs c) EPSILON then 0
        else if F32.lt (F32.abs (F32.sub xmax p.x)) EPSILON then F32.mul 0x42700000 (F32.div (F32.sub p.y p.z) c)
        else if F32.lt (F32.abs (F32.sub xmax p.y)) EPSILON then F32.mul 0x42700000 (F32.add 0x40000000 (F32.div (F32.sub p.z p.x) c))
        else F32.mul 0x42700000 (F32.add 0x40800000 (F32.div (F32.sub p.x p.y) c));
       let h1 := if F32.lt h0 0 then F32.add h0 0x43b40000 else h0; if F32.ge h1 0x43b40000 then 0 else h1) := rfl
  rw [hx]
  have hfitc : |toReal xmax - toReal xmin| < (2:ℝ) ^ (127:ℤ) := fit1 _ (by rw [vM, vm, abs_le]; constructor <;> linarith)
  obtain ⟨fc0, ec0⟩ := sub_val xmax xmin wmin fM fm hfitc
  obtain ⟨fac, vac⟩ := toReal_abs c (add_wf _ _) fc0
  have hE : EPSILON = 0x34000000 := rfl
  have hu := u_val; have he := eta_le; have he0 := eta_pos
  have g1 : F32.lt (F32.abs c) EPSILON = false := by
    by_contra hcn
    have hc' : F32.lt (F32.abs c) 0x34000000 = true := by rw [← hE]; simpa using hcn
    have := (lt_iff _ _ fac c_eps.1).mp hc'
    rw [vac, c_eps.2] at this
    rw [vM, vm] at ec0
    have hC0 : 0 ≤ mx x y z - mn x y z := by linarith
    rw [abs_of_nonneg hC0, hu] at ec0
    have := abs_sub_abs_le_abs_sub (mx x y z - mn x y z) (toReal c)
    rw [abs_sub_comm (mx x y z - mn x y z) _, abs_of_nonneg hC0] at this
    nlinarith
  obtain ⟨fc, hClo, hce, _⟩ := chroma_pos xmax xmin wmin fM fm _ _ vM vm ⟨b0, b1, b2⟩ g1
  have hC1 : mx x y z - mn x y z ≤ 1 := by linarith
  have hCpos : 0 < mx x y z - mn x y z := by linarith
  obtain ⟨f1, d1⟩ := hue_term p.y p.z c hw.wz hp.fy hp.fz fc _ _ cy cz hClo hC1 hce
  obtain ⟨f2, d2⟩ := hue_term p.z p.x c hw.wx hp.fz hp.fx fc _ _ cz cx hClo hC1 hce
  obtain ⟨f3, d3⟩ := hue_term p.x p.y c hw.wy hp.fx hp.fy fc _ _ cx cy hClo hC1 hce
  have a1 := hue_term_acc p.y p.z c hw.wz hp.fy hp.fz fc _ _ cy cz hClo hC1 hce
  have a2 := hue_term_acc p.z p.x c hw.wx hp.fz hp.fx fc _ _ cz cx hClo hC1 hce
  have a3 := hue_term_acc p.x p.y c hw.wy hp.fx hp.fy fc _ _ cx cy hClo hC1 hce
  have rb : ∀ a b : ℝ, mn x y z ≤ a ∧ a ≤ mx x y z → mn x y z ≤ b ∧ b ≤ mx x y z → |(a - b) / (mx x y z - mn x y z)| ≤ 1 := by
    intro a b ha hb
    rw [abs_div, abs_of_pos hCpos, div_le_one hCpos, abs_le]; constructor <;> linarith [ha.1, ha.2, hb.1, hb.2]
  obtain ⟨gx1, gx2⟩ := near_guard xmax p.x hw.wx fM hp.fx (by rw [vM]; exact cx.2) (by rw [vM]; exact b2) hp.bx.1
  obtain ⟨gy1, gy2⟩ := near_guard xmax p.y hw.wy fM hp.fy (by rw [vM]; exact cy.2) (by rw [vM]; exact b2) hp.bY.1
  rw [vM] at gx1 gx2 gy1 gy2
  have hδC : (12 / 100000000 : ℝ) < mx x y z - mn x y z := by linarith
  simp only [g1, Bool.false_eq_true, if_false]
  -- combine: wrap (3e-5) + raw (6e-5) in degrees, then divide by 60
  have fin : ∀ (H R ht : ℝ) (k1 : ℤ) (kk : ℤ), |H - R - 360 * (k1:ℝ)| ≤ 9 / 100000 → R = 60 * (ht - 6 * (kk:ℝ)) →
      ∃ k : ℤ, |H / 60 - ht - 6 * (k:ℝ)| ≤ 2 / 1000000 := by
    intro H R ht k1 kk h1 h2
    refine ⟨k1 - kk, ?_⟩
    obtain ⟨a, b⟩ := abs_le.mp h1
    rw [h2] at a b
    push_cast
    rw [abs_le]; constructor <;> linarith
  by_cases g2 : F32.lt (F32.abs (F32.sub xmax p.x)) EPSILON = true
  · simp only [g2, if_true]
    obtain ⟨fh, bh⟩ := hue_scale0 _ f1 d1
    obtain ⟨k1, e1⟩ := wrap_circ _ fh bh
    have hraw := raw0 _ f1 _ a1 (rb y z cy cz)
    set r := (y - z) / (mx x y z - mn x y z)
    obtain ⟨hr, ex, ey, ez⟩ := dec_branch_x x y z (12 / 100000000) (mx x y z) (mn x y z) cx cy cz hmc hCpos (gx1 g2) hδC
      (if r < 0 then r + 6 else r) rfl
    refine ⟨_, hr, ex, by rw [ey]; simp; norm_num, by rw [ez]; simp; norm_num, ?_⟩
    have h9 : |toReal (let h1 := if F32.lt (F32.mul 0x42700000 (F32.div (F32.sub p.y p.z) c)) 0 then F32.add (F32.mul 0x42700000 (F32.div (F32.sub p.y p.z) c)) 0x43b40000 else F32.mul 0x42700000 (F32.div (F32.sub p.y p.z) c); if F32.ge h1 0x43b40000 then 0 else h1) - 60 * r - 360 * (k1:ℝ)| ≤ 9 / 100000 := by
      obtain ⟨w1, w2⟩ := abs_le.mp e1; obtain ⟨r1, r2⟩ := abs_le.mp hraw
      rw [abs_le]; constructor <;> linarith
    by_cases hneg : r < 0
    · rw [if_pos hneg]
      exact fin _ _ _ k1 1 h9 (by push_cast; ring)
    · rw [if_neg hneg]
      exact fin _ _ _ k1 0 h9 (by push_cast; ring)
  · have g2' : F32.lt (F32.abs (F32.sub xmax p.x)) EPSILON = false := by simpa using g2
    have hMx : mx x y z ≠ x := gx2 g2'
    simp only [g2', Bool.false_eq_true, if_false]
    by_cases g3 : F32.lt (F32.abs (F32.sub xmax p.y)) EPSILON = true
    · simp only [g3, if_true]
      obtain ⟨fh, bh⟩ := hue_scale 0x40000000 _ c_two.1 (by rw [c_two.2]; norm_num) f2 d2
      obtain ⟨k1, e1⟩ := wrap_circ _ fh bh
      have hraw := rawk 0x40000000 _ 2 c_two.1 c_two.2 (by norm_num) f2 _ a2 (rb z x cz cx)
      obtain ⟨hr, ex, ey, ez⟩ := dec_branch_y x y z (12 / 100000000) (mx x y z) (mn x y z) cx cy cz hmc hCpos (gy1 g3) hδC _ rfl
      refine ⟨_, hr, by rw [ex]; simp; norm_num, ey, by rw [ez]; simp; norm_num, ?_⟩
      refine fin _ (60 * (2 + (z - x) / (mx x y z - mn x y z))) (2 + (z - x) / (mx x y z - mn x y z)) k1 0 ?_ (by push_cast; ring)
      obtain ⟨w1, w2⟩ := abs_le.mp e1; obtain ⟨r1, r2⟩ := abs_le.mp hraw
      rw [abs_le]; constructor <;> linarith
    · have g3' : F32.lt (F32.abs (F32.sub xmax p.y)) EPSILON = false := by simpa using g3
      have hMy : mx x y z ≠ y := gy2 g3'
      have hMz : mx x y z = z := by rcases hMc with h | h | h <;> [exact absurd h hMx; exact absurd h hMy; exact h]
      simp only [g3', Bool.false_eq_true, if_false]
      obtain ⟨fh, bh⟩ := hue_scale 0x40800000 _ c_four.1 (by rw [c_four.2]; norm_num) f3 d3
      obtain ⟨k1, e1⟩ := wrap_circ _ fh bh
      have hraw := rawk 0x40800000 _ 4 c_four.1 c_four.2 (by norm_num) f3 _ a3 (rb x y cx cy)
      obtain ⟨hr, ex, ey, ez⟩ := dec_branch_z x y z (12 / 100000000) (mx x y z) (mn x y z) cx cy cz hmc hCpos (by rw [hMz]; norm_num) hδC _ rfl
      refine ⟨_, hr, by rw [ex]; simp; norm_num, by rw [ey]; simp; norm_num, ez, ?_⟩
      refine fin _ (60 * (4 + (x - y) / (mx x y z - mn x y z))) (4 + (x - y) / (mx x y z - mn x y z)) k1 0 ?_ (by push_cast; ring)
      obtain ⟨w1, w2⟩ := abs_le.mp e1; obtain ⟨r1, r2⟩ := abs_le.mp hraw
      rw [abs_le]; constructor <;> linarith

set_option maxHeartbeats 8000000 in
/-- **C17 round trip**: LinearRgb -> Hsl -> LinearRgb returns every pixel of the unit cube within 1e-5 per component -/
theorem hsl_roundtrip (p : Mat32.V3) (hp : Unit3 p) (hw : Wf3 p) :
    |toReal (hslToLrgb (lrgbToHsl p)).x - toReal p.x| ≤ 1 / 100000 ∧
    |toReal (hslToLrgb (lrgbToHsl p)).y - toReal p.y| ≤ 1 / 100000 ∧
    |toReal (hslToLrgb (lrgbToHsl p)).z - toReal p.z| ≤ 1 / 100000 := by
  obtain ⟨fL, L0, L1, eL⟩ := lightness p hp
  obtain ⟨fc, c0, ec⟩ := chroma_back p hp
  obtain ⟨fH, H0, H360⟩ := hue_range p hp hw
  obtain ⟨b0, b1, b2⟩ := mx_mn_bounds _ _ _ hp.bx hp.bY hp.bz
  obtain ⟨cx, cy, cz⟩ := comp_bounds (toReal p.x) (toReal p.y) (toReal p.z)
  set q := lrgbToHsl p with hq
  set x := toReal p.x; set y := toReal p.y; set z := toReal p.z
  set Mx := mx x y z; set Mn := mn x y z
  set Cs := Mx - Mn with hCs
  have hCs0 : 0 ≤ Cs := by linarith
  have hCs1 : Cs ≤ 1 := by linarith
  set den := F32.sub 0x3f800000 (F32.abs (F32.fma 0x40000000 q.z (F32.neg 0x3f800000)))
  set c := F32.mul den q.y
  obtain ⟨ec1, ec2⟩ := abs_le.mp ec
  have hc101 : toReal c ≤ 101 / 100 := by linarith
  obtain ⟨fm, em, bm⟩ := m_back q.z c fL fc ⟨L0, L1⟩ ⟨c0, by linarith⟩ (specL x y z) Cs eL ec
  have hMn : specL x y z - Cs / 2 = Mn := by show (Mx + Mn) / 2 - (Mx - Mn) / 2 = Mn; ring
  rw [hMn] at em
  set m := F32.sub q.z (F32.div c 0x40000000)
  obtain ⟨fhp, ehp, hp0, hp6⟩ := hp_val q.x fH ⟨H0, H360⟩
  set hpb := F32.div q.x 0x42700000
  obtain ⟨ox, oy, oz⟩ := dec_sel c hpb m fc ⟨c0, hc101⟩ fhp ⟨hp0, hp6⟩ fm bm
  have ho : hslToLrgb q = ⟨F32.add (if inHalfOpen 0 0x3f800000 hpb then (c, F32.mul c (F32.sub 0x3f800000 (F32.abs (F32.sub (fmod hpb 0x40000000) 0x3f800000))), 0)
      else if inHalfOpen 0x3f800000 0x40000000 hpb then (F32.mul c (F32.sub 0x3f800000 (F32.abs (F32.sub (fmod hpb 0x40000000) 0x3f800000))), c, 0)
      else if inHalfOpen 0x40000000 0x40400000 hpb then (0, c, F32.mul c (F32.sub 0x3f800000 (F32.abs (F32.sub (fmod hpb 0x40000000) 0x3f800000))))
      else if inHalfOpen 0x40400000 0x40800000 hpb then (0, F32.mul c (F32.sub 0x3f800000 (F32.abs (F32.sub (fmod hpb 0x40000000) 0x3f800000))), c)
      else if inHalfOpen 0x40800000 0x40a00000 hpb then (F32.mul c (F32.sub 0x3f800000 (F32.abs (F32.sub (fmod hpb 0x40000000) 0x3f800000))), 0, c)
      else (c, 0, F32.mul c (F32.sub 0x3f800000 (F32.abs (F32.sub (fmod hpb 0x40000000) 0x3f800000))))).1 m, F32.add _ m, F32.add _ m⟩ := rfl
  rw [ho]
  set hs := Min.min (toReal hpb) 6
  have hs06 : 0 ≤ hs ∧ hs ≤ 6 := ⟨le_min hp0 (by norm_num), min_le_right _ _⟩
  have hshp : |hs - toReal hpb| ≤ 4 / 10000000 := by
    rcases le_total (toReal hpb) 6 with h | h
    · rw [show hs = toReal hpb from min_eq_left h]; simp; norm_num
    · rw [show hs = 6 from min_eq_right h, abs_le]; constructor <;> linarith
  obtain ⟨⟨tr0, tr1⟩, ⟨tg0, tg1⟩, ⟨tb0, tb1⟩⟩ := T_range hs
  obtain ⟨m1, m2⟩ := abs_le.mp em
  by_cases hbig : 1 / 1000000 ≤ Cs
  · -- sextant analysis
    obtain ⟨ht, hht, dx, dy, dz, k, ek⟩ := hue_back p hp hw hbig
    have hcirc : |hs - ht - 6 * (k:ℝ)| ≤ 28 / 10000000 := by
      have e : hs - ht - 6 * (k:ℝ) = (hs - toReal hpb) + (toReal hpb - toReal q.x / 60) + (toReal q.x / 60 - ht - 6 * (k:ℝ)) := by ring
      rw [e]
      have t1 := abs_add_le ((hs - toReal hpb) + (toReal hpb - toReal q.x / 60)) (toReal q.x / 60 - ht - 6 * (k:ℝ))
      have t2 := abs_add_le (hs - toReal hpb) (toReal hpb - toReal q.x / 60)
      linarith
    obtain ⟨z1, z2, z3⟩ := T06
    have lr := T_circ Tr Tr_lip z1 hs ht _ hs06 hht (by norm_num) k hcirc
    have lg := T_circ Tg Tg_lip z2 hs ht _ hs06 hht (by norm_num) k hcirc
    have lb := T_circ Tb Tb_lip z3 hs ht _ hs06 hht (by norm_num) k hcirc
    have comb : ∀ (o T T' v : ℝ), |o - (toReal m + toReal c * T)| ≤ 8 / 10000000 → |T - T'| ≤ 28 / 10000000 → 0 ≤ T ∧ T ≤ 1 →
        |Mn + Cs * T' - v| ≤ 12 / 100000000 → |o - v| ≤ 1 / 100000 := by
      intro o T T' v h1 h2 hT h3
      obtain ⟨a1, a2⟩ := abs_le.mp h1; obtain ⟨b1', b2'⟩ := abs_le.mp h2; obtain ⟨c1', c2'⟩ := abs_le.mp h3
      have e1 : |toReal c * T - Cs * T'| ≤ 1 / 1000000 + 28 / 10000000 := by
        have e : toReal c * T - Cs * T' = (toReal c - Cs) * T + Cs * (T - T') := by ring
        rw [e]
        have t1 := abs_add_le ((toReal c - Cs) * T) (Cs * (T - T'))
        have t2 : |(toReal c - Cs) * T| ≤ 1 / 1000000 * 1 := by rw [abs_mul, abs_of_nonneg hT.1]; exact mul_le_mul ec hT.2 hT.1 (by norm_num)
        have t3 : |Cs * (T - T')| ≤ 1 * (28 / 10000000) := by rw [abs_mul, abs_of_nonneg hCs0]; exact mul_le_mul hCs1 h2 (abs_nonneg _) (by norm_num)
        linarith
      obtain ⟨d1, d2⟩ := abs_le.mp e1
      rw [abs_le]; constructor <;> linarith
    exact ⟨comb _ _ _ _ ox lr ⟨tr0, tr1⟩ dx, comb _ _ _ _ oy lg ⟨tg0, tg1⟩ dy, comb _ _ _ _ oz lb ⟨tb0, tb1⟩ dz⟩
  · -- tiny chroma: everything is within the chroma of the minimum
    push Not at hbig
    have comb : ∀ (o T v : ℝ), |o - (toReal m + toReal c * T)| ≤ 8 / 10000000 → 0 ≤ T ∧ T ≤ 1 → Mn ≤ v ∧ v ≤ Mx → |o - v| ≤ 1 / 100000 := by
      intro o T v h1 hT hv
      obtain ⟨a1, a2⟩ := abs_le.mp h1
      have hcT0 : 0 ≤ toReal c * T := mul_nonneg c0 hT.1
      have hcT1 : toReal c * T ≤ toReal c * 1 := mul_le_mul_of_nonneg_left hT.2 c0
      rw [abs_le]; constructor <;> linarith [hv.1, hv.2]
    exact ⟨comb _ _ _ ox ⟨tr0, tr1⟩ cx, comb _ _ _ oy ⟨tg0, tg1⟩ cy, comb _ _ _ oz ⟨tb0, tb1⟩ cz⟩

/-- **C17 at the API level**: `Hsl::from(LinearRgb)` and `LinearRgb::from(Hsl)` keep width, height and pixel order, and the round trip
returns every pixel of the unit cube within 1e-5 per component, for images of any size -/
theorem api_hsl_roundtrip (img : Api.FImg) :
    let back := Api.hslToLinear (Api.linearToHsl img)
    back.w = img.w ∧ back.h = img.h ∧ back.data.size = img.data.size ∧
    ∀ i (hi : i < img.data.size), Unit3 img.data[i] → Wf3 img.data[i] →
      |toReal (back.data[i]!).x - toReal img.data[i].x| ≤ 1 / 100000 ∧ |toReal (back.data[i]!).y - toReal img.data[i].y| ≤ 1 / 100000 ∧
      |toReal (back.data[i]!).z - toReal img.data[i].z| ≤ 1 / 100000 := by
  intro back
  refine ⟨rfl, rfl, by simp [back, Api.hslToLinear, Api.linearToHsl], ?_⟩
  intro i hi hp hw
  have hb : back.data[i]! = hslToLrgb (lrgbToHsl img.data[i]) := by simp [back, Api.hslToLinear, Api.linearToHsl, hi]
  rw [hb]
  exact hsl_roundtrip img.data[i] hp hw

/-- non-vacuity: (0.5, 1, 0) is a well-formed pixel of the unit cube -/
example : Unit3 ⟨0x3f000000, 0x3f800000, 0⟩ ∧ Wf3 ⟨0x3f000000, 0x3f800000, 0⟩ := by
  have h1 : decode 0x3f800000 = .fin false 8388608 (-23) := by decide +kernel
  have h2 : decode 0x3f000000 = .fin false 8388608 (-24) := by decide +kernel
  have h3 : decode 0 = .fin false 0 (-149) := by decide +kernel
  refine ⟨⟨⟨_, _, _, h2⟩, ⟨_, _, _, h1⟩, ⟨_, _, _, h3⟩, ?_, ?_, ?_⟩, ⟨by unfold WF; norm_num, by unfold WF; norm_num, by unfold WF; norm_num⟩⟩
  · show 0 ≤ toReal 0x3f000000 ∧ toReal 0x3f000000 ≤ 1
    rw [toReal_of_decode _ _ _ _ h2]; unfold valR; norm_num
  · show 0 ≤ toReal 0x3f800000 ∧ toReal 0x3f800000 ≤ 1
    rw [toReal_of_decode _ _ _ _ h1]; unfold valR; norm_num
  · show 0 ≤ toReal 0 ∧ toReal 0 ≤ 1
    rw [toReal_of_decode _ _ _ _ h3]; unfold valR; norm_num

end C17
