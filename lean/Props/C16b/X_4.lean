import Check.Grey2
/-! slice of the exhaustive XYB/HSL grey check (native_decide): levels 262144 .. 327679 of 2^20 -/
theorem C16.xyb_slice_4 : CheckGrey2.allFrom 262144 65536 CheckGrey2.xybGreyOk = true := by native_decide
theorem C16.hsl_slice_4 : CheckGrey2.allFrom 262144 65536 CheckGrey2.hslGreyOk = true := by native_decide
