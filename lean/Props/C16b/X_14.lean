import Check.Grey2
/-! slice of the exhaustive XYB/HSL grey check (native_decide): levels 917504 .. 983039 of 2^20 -/
theorem C16.xyb_slice_14 : CheckGrey2.allFrom 917504 65536 CheckGrey2.xybGreyOk = true := by native_decide
theorem C16.hsl_slice_14 : CheckGrey2.allFrom 917504 65536 CheckGrey2.hslGreyOk = true := by native_decide
