import Check.Grey2
/-! slice of the exhaustive XYB/HSL grey check (native_decide): levels 458752 .. 524287 of 2^20 -/
theorem C16.xyb_slice_7 : CheckGrey2.allFrom 458752 65536 CheckGrey2.xybGreyOk = true := by native_decide
theorem C16.hsl_slice_7 : CheckGrey2.allFrom 458752 65536 CheckGrey2.hslGreyOk = true := by native_decide
