import Check.Grey2
/-! slice of the exhaustive XYB/HSL grey check (native_decide): levels 851968 .. 917503 of 2^20 -/
theorem C16.xyb_slice_13 : CheckGrey2.allFrom 851968 65536 CheckGrey2.xybGreyOk = true := by native_decide
theorem C16.hsl_slice_13 : CheckGrey2.allFrom 851968 65536 CheckGrey2.hslGreyOk = true := by native_decide
