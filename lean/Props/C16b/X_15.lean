import Check.Grey2
/-! slice of the exhaustive XYB/HSL grey check (native_decide): levels 983040 .. 1048576 of 2^20 -/
theorem C16.xyb_slice_15 : CheckGrey2.allFrom 983040 65537 CheckGrey2.xybGreyOk = true := by native_decide
theorem C16.hsl_slice_15 : CheckGrey2.allFrom 983040 65537 CheckGrey2.hslGreyOk = true := by native_decide
