import Props.C03c
/-! C20, accuracy clause without `fastmath`, power-law family: with the feature off `powf` IS the libm function (a
parameter of the model). Under the stated accuracy hypothesis on that parameter (relative 1e-6, far weaker than glibc's
documented 1 ulp), every power-law curve is within 5e-5 of its defining formula on every binary32 of `[0, 1]`. -/
namespace C20
open F32 MathM TransferM Real ExpPoly Horner C03

/-- the assumption on the libm parameter: `powf` is within relative `1e-6` of the real power on the domain the curves use -/
def LibmPowAccurate (lm : Libm) : Prop :=
  ∀ x y : Nat, Finite x → Finite y → 0 ≤ toReal x → toReal x ≤ 1 → 0 < toReal y → toReal y ≤ 3 →
    Finite (lm.powf x y) ∧ |toReal (lm.powf x y) - (toReal x) ^ (toReal y)| ≤ (1 / 10 ^ 6) * (toReal x) ^ (toReal y)

def CurveWithin5 (f : Nat → Out Nat) (γ : ℝ) : Prop :=
  ∀ x : Nat, WF x → Finite x → 0 ≤ toReal x → toReal x ≤ 1 →
    ∃ r, f x = .ok r ∧ Finite r ∧ |toReal r - (toReal x) ^ γ| < 5 / 10 ^ 5

theorem pow_branch_nofast (B : Build) (hB : B.fastmath = false) (hL : LibmPowAccurate B.libm) (thr zero yb : Nat) (γ : ℝ)
    (hthr : Finite thr ∧ toReal thr = 0) (hy : Finite yb) (hyγ : |toReal yb - γ| ≤ 1 / 10 ^ 6) (hγ1 : 35 / 100 ≤ γ) (hγ2 : γ ≤ 14 / 5)
    (x : Nat) (hx : Finite x) (h0 : 0 ≤ toReal x) (h1 : toReal x ≤ 1) :
    ∃ r, (if lt x thr then Out.ok zero else powf B x yb) = .ok r ∧ Finite r ∧ |toReal r - (toReal x) ^ γ| < 5 / 10 ^ 5 := by
  rw [not_lt_zero x thr hx hthr h0]
  simp only [Bool.false_eq_true, if_false]
  have hp : powf B x yb = .ok (B.libm.powf x yb) := by unfold powf; rw [hB]; simp
  obtain ⟨y1, y2⟩ := abs_le.mp hyγ
  obtain ⟨hf, he⟩ := hL x yb hx hy h0 h1 (by linarith) (by linarith)
  refine ⟨_, hp, hf, ?_⟩
  set X := toReal x
  set Y := toReal yb
  have hYpos : 0 < Y := by linarith
  have hXY1 : X ^ Y ≤ 1 := Real.rpow_le_one h0 h1 hYpos.le
  have hXY0 : 0 ≤ X ^ Y := Real.rpow_nonneg h0 Y
  have hpert : |X ^ Y - X ^ γ| ≤ 3 / 10 ^ 6 := by
    by_cases hc : γ ≤ Y
    · refine le_trans (PowCurve.rpow_exponent_pert X Y γ h0 h1 (by linarith) hc) ?_
      rw [div_le_iff₀ (by linarith)]; nlinarith
    · have hc' := le_of_lt (not_le.mp hc)
      rw [abs_sub_comm]
      refine le_trans (PowCurve.rpow_exponent_pert X γ Y h0 h1 hYpos hc') ?_
      rw [div_le_iff₀ hYpos]; nlinarith
  have e : toReal (B.libm.powf x yb) - X ^ γ = (toReal (B.libm.powf x yb) - X ^ Y) + (X ^ Y - X ^ γ) := by ring
  rw [e]
  refine lt_of_le_of_lt (abs_add_le _ _) ?_
  nlinarith

variable (B : Build) (hB : B.fastmath = false) (hL : LibmPowAccurate B.libm)
include hB hL

/-- **C20, power-law family without fastmath**: within 5e-5 (in fact 5e-6) of the defining formula, both directions -/
theorem power_law_nofast (t : TC) (ht : t ∈ powerLaw) :
    (∃ f, toLinearFn B t = .ok f ∧ CurveWithin5 f (gammaOf t)) ∧ (∃ g, toGammaFn B t = .ok g ∧ CurveWithin5 g (1 / gammaOf t)) := by
  obtain ⟨a1, a2, b1, b2, c1, c2, d1, d2, e1, e2, f1, f2, g1, g2, h1, h2, i1, i2, j1, j2, k1, k2, l1, l2⟩ := cert_exponents
  simp only [powerLaw, List.mem_cons, List.mem_nil_iff, or_false] at ht
  have e24 : (1:ℝ) / (24 / 10) = 10 / 24 := by norm_num
  have e22 : (1:ℝ) / (22 / 10) = 10 / 22 := by norm_num
  have e28 : (1:ℝ) / (28 / 10) = 10 / 28 := by norm_num
  have A1 : CurveWithin5 (rec_1886_eotf B) (24 / 10) := by
    intro x _ hx h0 h1'
    obtain ⟨fy, vy⟩ := near_of _ _ g1 g2
    unfold rec_1886_eotf
    exact pow_branch_nofast B hB hL _ _ _ (24 / 10) (zero_of _ a1 a2) fy (by push_cast at vy; exact vy) (by norm_num) (by norm_num) x hx h0 h1'
  have A2 : CurveWithin5 (rec_1886_inverse_eotf B) (10 / 24) := by
    intro x _ hx h0 h1'
    obtain ⟨fy, vy⟩ := near_of _ _ h1 h2
    unfold rec_1886_inverse_eotf
    exact pow_branch_nofast B hB hL _ _ _ (10 / 24) (zero_of _ b1 b2) fy (by push_cast at vy; exact vy) (by norm_num) (by norm_num) x hx h0 h1'
  have B1 : CurveWithin5 (rec_470m_oetf B) (22 / 10) := by
    intro x _ hx h0 h1'
    obtain ⟨fy, vy⟩ := near_of _ _ i1 i2
    unfold rec_470m_oetf
    exact pow_branch_nofast B hB hL _ _ _ (22 / 10) (zero_of _ c1 c2) fy (by push_cast at vy; exact vy) (by norm_num) (by norm_num) x hx h0 h1'
  have B2 : CurveWithin5 (rec_470m_inverse_oetf B) (10 / 22) := by
    intro x _ hx h0 h1'
    obtain ⟨fy, vy⟩ := near_of _ _ j1 j2
    unfold rec_470m_inverse_oetf
    exact pow_branch_nofast B hB hL _ _ _ (10 / 22) (zero_of _ d1 d2) fy (by push_cast at vy; exact vy) (by norm_num) (by norm_num) x hx h0 h1'
  have C1 : CurveWithin5 (rec_470bg_oetf B) (28 / 10) := by
    intro x _ hx h0 h1'
    obtain ⟨fy, vy⟩ := near_of _ _ k1 k2
    unfold rec_470bg_oetf
    exact pow_branch_nofast B hB hL _ _ _ (28 / 10) (zero_of _ e1 e2) fy (by push_cast at vy; exact vy) (by norm_num) (by norm_num) x hx h0 h1'
  have C2 : CurveWithin5 (rec_470bg_inverse_oetf B) (10 / 28) := by
    intro x _ hx h0 h1'
    obtain ⟨fy, vy⟩ := near_of _ _ l1 l2
    unfold rec_470bg_inverse_oetf
    exact pow_branch_nofast B hB hL _ _ _ (10 / 28) (zero_of _ f1 f2) fy (by push_cast at vy; exact vy) (by norm_num) (by norm_num) x hx h0 h1'
  rcases ht with rfl | rfl | rfl | rfl | rfl | rfl | rfl
  all_goals first
    | exact ⟨⟨_, rfl, A1⟩, ⟨_, rfl, by simp only [gammaOf]; rw [e24]; exact A2⟩⟩
    | exact ⟨⟨_, rfl, B1⟩, ⟨_, rfl, by simp only [gammaOf]; rw [e22]; exact B2⟩⟩
    | exact ⟨⟨_, rfl, C1⟩, ⟨_, rfl, by simp only [gammaOf]; rw [e28]; exact C2⟩⟩

end C20
