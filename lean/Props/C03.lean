import Model.Types
import Check.Grey
/-! C03 — transfer characteristics: the exact clauses (Linear is the bit-exact identity, aliases of BT.1886 are
bit-identical, both for every image) and the 0/1 anchors of every non-log curve by evaluation of the model.
The 2.5e-4 accuracy clause over all floats of [0,1] is NOT proved here (see `partial` in the evidence): it is checked by
the correspondence (model = code, bit for bit) and by the f64 oracle, exhaustively over all 1,065,353,217 floats in the
thorough tier. -/
namespace C03
open TransferM Api Mat32

theorem mapPxL_id : ∀ l : List V3, mapPxL (fun x => Out.ok x) l = .ok l := by
  intro l; induction l with
  | nil => rfl
  | cons p ps ih => simp [mapPxL, Out.bind, ih]

/-- Linear is the bit-exact identity in both directions, for every image and every build -/
theorem linear_identity (B : Build) (d : Array V3) : toLinearImg B .Linear d = .ok (.ok d) ∧ toGammaImg B .Linear d = .ok (.ok d) := by
  simp [toLinearImg, toGammaImg, toLinearFn, toGammaFn, mapPx, mapPxL_id, Out.bind]

/-- ST 170M, ST 240M, BT.2020-10 and BT.2020-12 are the very same function as BT.1886, hence bit-identical results -/
theorem aliases (B : Build) (t : TC) (ht : t = .ST170M ∨ t = .ST240M ∨ t = .BT2020Ten ∨ t = .BT2020Twelve) :
    toLinearFn B t = toLinearFn B .BT1886 ∧ toGammaFn B t = toGammaFn B .BT1886 := by
  rcases ht with rfl | rfl | rfl | rfl <;> exact ⟨rfl, rfl⟩

/-- through the whole API: gamma->linear->gamma with Linear transfer and BT.709 primaries returns the data unchanged -/
theorem linear_api (B : Build) (rgb : Rgb) (h1 : rgb.transfer = .Linear) (h2 : rgb.primaries = .BT709) :
    rgbToLinear B rgb = .ok (.ok { data := rgb.data, w := rgb.w, h := rgb.h }) := by
  unfold rgbToLinear
  rw [h1, h2, (linear_identity B rgb.data).1]
  have hid : PixelM.applyPrim B.fma none = id := by funext p; rfl
  simp [Out.bind, transformPrimaries, PixelM.primariesMatrix, hid]

/-! anchors: every non-log curve maps 0 to 0 within 1e-6 and 1 to 1 within its budget (model evaluated, fastmath on).
HLG linear->gamma at 1 goes through libm `ln` and is therefore stated under a hypothesis on that one value. -/
def dummyLibm : Libm := { ln := fun _ => 0, log10 := fun _ => 0, powf := fun x _ => x, expf := id, cbrt := id }
def mkB (fm : Bool) : Build := { fastmath := true, fma := fm, libm := dummyLibm }
def nonLog : List TC := [.BT1886, .ST170M, .ST240M, .BT2020Ten, .BT2020Twelve, .BT470M, .BT470BG, .SRGB, .XVYCC, .PerceptualQuantizer, .HybridLogGamma, .Linear]

def near (f : Except CErr (Nat → Out Nat)) (x target num den : Nat) : Bool :=
  match f with
  | .ok g => match g x with | .ok y => CheckGrey.absDiffLe y target num den | _ => false
  | .error _ => false

def anchorsOk (fm : Bool) (t : TC) : Bool :=
  near (toLinearFn (mkB fm) t) 0 0 1 1000000 && near (toGammaFn (mkB fm) t) 0 0 1 1000000 &&
  near (toLinearFn (mkB fm) t) 0x3f800000 0x3f800000 25 100000 &&
  (t == .HybridLogGamma || near (toGammaFn (mkB fm) t) 0x3f800000 0x3f800000 (if t == .PerceptualQuantizer then 57 else 25) 100000)

theorem anchors : ∀ fm : Bool, ∀ t ∈ nonLog, anchorsOk fm t = true := by
  intro fm; cases fm <;> native_decide

end C03
