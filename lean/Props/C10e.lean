import Props.C10b
import Props.C03h
import Proofs.PowRel2
/-! C10, sRGB: gamma -> linear -> gamma returns `x` within 2.5e-4 for EVERY binary32 of `[0, 1]` (fastmath build, both FMA
modes, kernel-only). Above the threshold the two stages are `((x + a)/α)^2.4` and `α v^(1/2.4) - a`; the relative error of
the power pair on the base `b = (x + a)/α` is `2.71e-4` when `b ≤ 0.855` and `1.2e-4` above (where the second `powf` works in
the well-approximated zone of `exp2`), and it is multiplied by `α b ≤ 0.902` resp. `1.055`. At the junction each stage may
take either of its branches; the four corner cases are bounded with the certified enclosures of `β^(5/12)` and of
`((T + a)/α)^2.4` and the tangent inequalities of `Proofs/SrgbReal.lean`. -/
namespace C10
open F32 MathM TransferM Real ExpPoly Horner C03 SrgbReal

/-- the power pair on the base `b ≤ 1`, exponents within 1e-6 of 2.4 and 1/2.4 -/
theorem srgb_pair (b Y1 Y2 r1 p2 ρ2 : ℝ) (hb0 : 0 < b) (hb1 : b ≤ 1) (hY1 : |Y1 - 12 / 5| ≤ 1 / 10 ^ 6) (hY2 : |Y2 - 5 / 12| ≤ 1 / 10 ^ 6)
    (hYY : |Y1 * Y2 - 1| ≤ 2 / 10 ^ 7) (h1 : |r1 - b ^ Y1| ≤ (1832 / 10 ^ 7 + (7914 / 10 ^ 9) * Y1) * b ^ Y1)
    (hρ2 : 0 ≤ ρ2) (hρ2b : ρ2 ≤ 1 / 1000) (h2 : |p2 - r1 ^ Y2| ≤ ρ2 * r1 ^ Y2) :
    |p2 - b| ≤ (ρ2 * (1 + 8442 / 10 ^ 8) + 8442 / 10 ^ 8) * (b + 3 / 10 ^ 7) + 3 / 10 ^ 7 := by
  obtain ⟨y1a, y1b⟩ := abs_le.mp hY1
  obtain ⟨y2a, y2b⟩ := abs_le.mp hY2
  have hρ1a : 0 ≤ 1832 / 10 ^ 7 + (7914 / 10 ^ 9) * Y1 := by nlinarith
  have hρ1b : 1832 / 10 ^ 7 + (7914 / 10 ^ 9) * Y1 ≤ 1 / 1000 := by nlinarith
  have := RoundTrip.rt_real b Y1 Y2 r1 p2 _ ρ2 hb0 hb1 (by linarith) (by linarith) (by linarith) (by linarith) hYY hρ1a hρ1b h1 hρ2 hρ2b h2
  refine le_trans this ?_
  have hκ : (1002 / 1000) * Y2 * (1832 / 10 ^ 7 + (7914 / 10 ^ 9) * Y1) ≤ 8442 / 10 ^ 8 := by nlinarith
  have hκ0 : 0 ≤ (1002 / 1000) * Y2 * (1832 / 10 ^ 7 + (7914 / 10 ^ 9) * Y1) := by
    apply mul_nonneg _ hρ1a; nlinarith
  set κ := (1002 / 1000) * Y2 * (1832 / 10 ^ 7 + (7914 / 10 ^ 9) * Y1)
  have h3 : ρ2 * (1 + κ) + κ ≤ ρ2 * (1 + 8442 / 10 ^ 8) + 8442 / 10 ^ 8 := by nlinarith
  have hb3 : 0 ≤ b + 3 / 10 ^ 7 := by linarith
  nlinarith

/-- assembling the second stage `α p - a` -/
theorem srgb_asm (α a x b p2 r2 D : ℝ) (hα1 : 10550106 / 10 ^ 7 ≤ α) (hα2 : α ≤ 10550108 / 10 ^ 7) (ha : |a - (α - 1)| ≤ 1 / 10 ^ 7)
    (hb : |b - (x + (α - 1)) / α| ≤ 3 / 10 ^ 7) (hp : |p2 - b| ≤ D) (hr : |r2 - (α * p2 - a)| ≤ 2 / 10 ^ 7) :
    |r2 - x| ≤ (10550108 / 10 ^ 7) * D + 7 / 10 ^ 7 := by
  have hαpos : 0 < α := by linarith
  have hD : 0 ≤ D := le_trans (abs_nonneg _) hp
  have e : r2 - x = (r2 - (α * p2 - a)) + α * (p2 - b) + (α * (b - (x + (α - 1)) / α) + ((α - 1) - a)) := by field_simp; ring
  rw [e]
  refine le_trans (abs_add_three _ _ _) ?_
  have t1 : |α * (p2 - b)| ≤ (10550108 / 10 ^ 7) * D := by
    rw [abs_mul, abs_of_pos hαpos]; exact mul_le_mul hα2 hp (abs_nonneg _) (by norm_num)
  have t2 : |α * (b - (x + (α - 1)) / α) + ((α - 1) - a)| ≤ 5 / 10 ^ 7 := by
    refine le_trans (abs_add_le _ _) ?_
    rw [abs_mul, abs_of_pos hαpos, abs_sub_comm (α - 1) a]
    nlinarith [abs_nonneg (b - (x + (α - 1)) / α)]
  linarith

/-- above `b = 0.855` the first-stage value lies in `[0.672, 1.001]` -/
theorem srgb_r1_range (b Y1 r1 : ℝ) (hb0 : 855 / 1000 < b) (hb1 : b ≤ 1) (hY1 : |Y1 - 12 / 5| ≤ 1 / 10 ^ 6)
    (h1 : |r1 - b ^ Y1| ≤ (1832 / 10 ^ 7 + (7914 / 10 ^ 9) * Y1) * b ^ Y1) : 672 / 1000 ≤ r1 ∧ r1 ≤ 1001 / 1000 := by
  obtain ⟨y1a, y1b⟩ := abs_le.mp hY1
  have hbpos : 0 < b := by linarith
  have hv1 : b ^ Y1 ≤ 1 := Real.rpow_le_one hbpos.le hb1 (by linarith)
  have hv0 : (6722 / 10000 : ℝ) ≤ b ^ Y1 := by
    have a1 : b ^ ((5:ℝ) / 2) ≤ b ^ Y1 := Real.rpow_le_rpow_of_exponent_ge hbpos hb1 (by linarith)
    have a2 : (855 / 1000 : ℝ) ^ ((5:ℝ) / 2) ≤ b ^ ((5:ℝ) / 2) := Real.rpow_le_rpow (by norm_num) hb0.le (by norm_num)
    have a3 := (rpow_encl (855 / 1000) (6722 / 10000) 1 5 2 (by norm_num) (by norm_num) (by norm_num) (by norm_num) (by norm_num) (by norm_num)).1
    have e : (((5:ℕ):ℝ) / ((2:ℕ):ℝ)) = (5:ℝ) / 2 := by norm_num
    rw [e] at a3
    linarith
  have hρ : 1832 / 10 ^ 7 + (7914 / 10 ^ 9) * Y1 ≤ 2030 / 10 ^ 7 := by nlinarith
  have hρ0 : 0 ≤ 1832 / 10 ^ 7 + (7914 / 10 ^ 9) * Y1 := by nlinarith
  obtain ⟨g1, g2⟩ := abs_le.mp h1
  constructor <;> nlinarith

/-- powers of a base in `[0, 1]` with nearby exponents (both at least 2) -/
theorem rpow_exp_close (X a c δ : ℝ) (hX0 : 0 ≤ X) (hX1 : X ≤ 1) (ha : 2 ≤ a) (hc : 2 ≤ c) (hd : |a - c| ≤ δ) : |X ^ a - X ^ c| ≤ δ / 2 := by
  obtain ⟨d1, d2⟩ := abs_le.mp hd
  by_cases h : c ≤ a
  · have := PowCurve.rpow_exponent_pert X a c hX0 hX1 (by linarith) h
    refine le_trans this ?_
    rw [div_le_div_iff₀ (by linarith) (by norm_num)]; nlinarith
  · have h' := (not_le.mp h).le
    have := PowCurve.rpow_exponent_pert X c a hX0 hX1 (by linarith) h'
    rw [abs_sub_comm]
    refine le_trans this ?_
    rw [div_le_div_iff₀ (by linarith) (by norm_num)]; nlinarith

/-- numeric core of `srgb_junction_hi` -/
theorem junction_core (VT S d w v r1 β : ℝ) (hVT1 : 30412780 / 10 ^ 10 ≤ VT) (hVT2 : VT ≤ 30412812 / 10 ^ 10)
    (hS1 : 81652 / 10 ^ 6 ≤ S) (hS2 : S ≤ 81665 / 10 ^ 6) (htan : VT + S * d ≤ w) (hc : |v - w| ≤ 5 / 10 ^ 7)
    (h1 : |r1 - v| ≤ (203 / 10 ^ 6) * v) (hv : 0 < v) (hlt : r1 < β) (hβ2 : β ≤ 3041283 / 10 ^ 9) (hd : -(3 / 10 ^ 7) ≤ d) :
    30401300 / 10 ^ 10 ≤ r1 ∧ d ≤ 1385 / 10 ^ 8 := by
  obtain ⟨g1, g2⟩ := abs_le.mp h1
  obtain ⟨c1, c2⟩ := abs_le.mp hc
  have hvU : v ≤ 30419040 / 10 ^ 10 := by nlinarith
  have hv203 : (203 / 10 ^ 6) * v ≤ 6176 / 10 ^ 10 := by nlinarith
  have hSd : -(2450 / 10 ^ 11) ≤ S * d := by nlinarith
  constructor
  · linarith
  · by_contra hcon
    have hgt := not_le.mp hcon
    have : S * (1385 / 10 ^ 8) < S * d := mul_lt_mul_of_pos_left hgt (by linarith)
    have : (81652 / 10 ^ 6 : ℝ) * (1385 / 10 ^ 8) ≤ S * (1385 / 10 ^ 8) := mul_le_mul_of_nonneg_right hS1 (by norm_num)
    linarith

/-- junction, first stage on its power branch but the second stage on its linear branch (`r1 < β`) -/
theorem srgb_junction_hi (α T β x b Y1 r1 : ℝ)
    (hα1 : 10550106 / 10 ^ 7 ≤ α) (hα2 : α ≤ 10550108 / 10 ^ 7) (hT1 : 3929330 / 10 ^ 8 ≤ T) (hT2 : T ≤ 3929345 / 10 ^ 8)
    (hβ2 : β ≤ 3041283 / 10 ^ 9)
    (hE1 : 30412780 / 10 ^ 10 ≤ ((T + (α - 1)) / α) ^ ((12:ℝ) / 5)) (hE2 : ((T + (α - 1)) / α) ^ ((12:ℝ) / 5) ≤ 30412812 / 10 ^ 10)
    (hx0 : T ≤ x) (hb : |b - (x + (α - 1)) / α| ≤ 3 / 10 ^ 7) (hY1 : |Y1 - 12 / 5| ≤ 1 / 10 ^ 6)
    (h1 : |r1 - b ^ Y1| ≤ (203 / 10 ^ 6) * b ^ Y1) (hlt : r1 < β) : |12.92 * r1 - x| ≤ 4 / 10 ^ 5 := by
  have hαpos : 0 < α := by linarith
  obtain ⟨y1a, y1b⟩ := abs_le.mp hY1
  obtain ⟨g1, g2⟩ := abs_le.mp h1
  obtain ⟨bb1, bb2⟩ := abs_le.mp hb
  set bT := (T + (α - 1)) / α with hbT
  set bx := (x + (α - 1)) / α with hbx
  have hbT1 : 8938 / 100000 ≤ bT := by rw [hbT, le_div_iff₀ hαpos]; nlinarith
  have hbT2 : bT ≤ 8939 / 100000 := by rw [hbT, div_le_iff₀ hαpos]; nlinarith
  have hbTx : bT ≤ bx := by rw [hbT, hbx]; exact div_le_div_of_nonneg_right (by linarith) hαpos.le
  have hbpos : 0 < b := by linarith
  have hbTpos : 0 < bT := by linarith
  set v := b ^ Y1 with hv
  have hvpos : 0 < v := Real.rpow_pos_of_pos hbpos _
  have hvU : v ≤ 30419040 / 10 ^ 10 := by nlinarith
  -- the base is small
  have hb5 : b ≤ 1 / 5 := by
    by_contra hc
    have hgt := not_le.mp hc
    by_cases hb1 : b ≤ 1
    · have a1 : b ^ (3:ℝ) ≤ v := Real.rpow_le_rpow_of_exponent_ge hbpos hb1 (by linarith)
      have a2 : (1 / 5 : ℝ) ^ (3:ℝ) ≤ b ^ (3:ℝ) := Real.rpow_le_rpow (by norm_num) hgt.le (by norm_num)
      have a3 : (1 / 5 : ℝ) ^ (3:ℝ) = 1 / 125 := by rw [show (3:ℝ) = ((3:ℕ):ℝ) by norm_num, Real.rpow_natCast]; norm_num
      rw [a3] at a2; linarith
    · have : 1 ≤ v := Real.one_le_rpow (not_le.mp hb1).le (by linarith)
      linarith
  have hclose := rpow_exp_close b Y1 (12 / 5) (1 / 10 ^ 6) hbpos.le (by linarith) (by linarith) (by norm_num) hY1
  obtain ⟨c1, c2⟩ := abs_le.mp hclose
  set w := b ^ ((12:ℝ) / 5) with hw
  set VT := bT ^ ((12:ℝ) / 5) with hVT
  have htan := convex_tangent bT b ((12:ℝ) / 5) hbTpos hbpos (by norm_num)
  rw [← hVT, ← hw] at htan
  -- slope
  set q := VT / bT with hq
  have hq1 : 340220 / 10 ^ 7 ≤ q := by rw [hq, le_div_iff₀ hbTpos]; nlinarith
  have hq2 : q ≤ 340270 / 10 ^ 7 := by rw [hq, div_le_iff₀ hbTpos]; nlinarith
  have e : (12:ℝ) / 5 * (VT / bT) * (b - bT) = (12 / 5 * q) * (b - bT) := by rw [hq]
  rw [e] at htan
  have hS1 : 81652 / 10 ^ 6 ≤ 12 / 5 * q := by linarith
  have hS2 : 12 / 5 * q ≤ 81665 / 10 ^ 6 := by linarith
  obtain ⟨hlow, hup⟩ := junction_core VT (12 / 5 * q) (b - bT) w v r1 β hE1 hE2 hS1 hS2 htan
    (by refine le_trans hclose ?_; norm_num) h1 hvpos hlt hβ2 (by linarith)
  have hxT : x - T = α * (bx - bT) := by rw [hbx, hbT]; field_simp; ring
  have hxup : x ≤ T + 150 / 10 ^ 7 := by
    have h2 : bx - bT ≤ 1415 / 10 ^ 8 := by linarith
    have h3 : α * (bx - bT) ≤ (10550108 / 10 ^ 7) * (1415 / 10 ^ 8) := mul_le_mul hα2 h2 (by linarith) (by norm_num)
    have h4 : (10550108 / 10 ^ 7 : ℝ) * (1415 / 10 ^ 8) ≤ 150 / 10 ^ 7 := by norm_num
    linarith
  rw [abs_le]
  constructor <;> linarith

/-- powers of a base in `[0, 1]` with nearby exponents (both at least 2/5) -/
theorem rpow_exp_close' (X a c δ : ℝ) (hX0 : 0 ≤ X) (hX1 : X ≤ 1) (ha : 2 / 5 ≤ a) (hc : 2 / 5 ≤ c) (hd : |a - c| ≤ δ) : |X ^ a - X ^ c| ≤ (5 / 2) * δ := by
  obtain ⟨d1, d2⟩ := abs_le.mp hd
  by_cases h : c ≤ a
  · have := PowCurve.rpow_exponent_pert X a c hX0 hX1 (by linarith) h
    refine le_trans this ?_
    rw [div_le_iff₀ (by linarith)]; nlinarith
  · have h' := (not_le.mp h).le
    have := PowCurve.rpow_exponent_pert X c a hX0 hX1 (by linarith) h'
    rw [abs_sub_comm]
    refine le_trans this ?_
    rw [div_le_iff₀ (by linarith)]; nlinarith

/-- numeric core of `srgb_junction_lo` -/
theorem junction_lo_core (α a p2 r2 x : ℝ) (hα1 : 10550106 / 10 ^ 7 ≤ α) (hα2 : α ≤ 10550108 / 10 ^ 7) (ha : |a - (α - 1)| ≤ 1 / 10 ^ 7)
    (hp1 : 8936700 / 10 ^ 8 ≤ p2) (hp2 : p2 ≤ 8940700 / 10 ^ 8) (hr : |r2 - (α * p2 - a)| ≤ 2 / 10 ^ 7)
    (hx1 : 3929300 / 10 ^ 8 ≤ x) (hx2 : x ≤ 3929345 / 10 ^ 8) : |r2 - x| ≤ 4 / 10 ^ 5 := by
  obtain ⟨a1, a2⟩ := abs_le.mp ha
  obtain ⟨r1, r2'⟩ := abs_le.mp hr
  have e : α * p2 - a = α * (p2 - 1) + 1 + (α - 1 - a) := by ring
  have h1 : α * (p2 - 1) ≤ (10550106 / 10 ^ 7) * (p2 - 1) := by nlinarith
  have h2 : (10550108 / 10 ^ 7) * (p2 - 1) ≤ α * (p2 - 1) := by nlinarith
  rw [abs_le]; constructor <;> nlinarith

/-- junction, first stage on its linear branch but the second stage on its power branch (`y ≥ β`) -/
theorem srgb_junction_lo (α a β T x y Y2 p2 r2 : ℝ)
    (hα1 : 10550106 / 10 ^ 7 ≤ α) (hα2 : α ≤ 10550108 / 10 ^ 7) (ha : |a - (α - 1)| ≤ 1 / 10 ^ 7)
    (hβ1 : 3041282 / 10 ^ 9 ≤ β) (hβ2 : β ≤ 3041283 / 10 ^ 9)
    (hP1 : 8938685 / 10 ^ 8 ≤ β ^ ((5:ℝ) / 12)) (hP2 : β ^ ((5:ℝ) / 12) ≤ 8938686 / 10 ^ 8)
    (hT2 : T ≤ 3929345 / 10 ^ 8) (hx : x < T) (hy : |y - x / 12.92| ≤ 2 / 10 ^ 8) (hyβ : β ≤ y)
    (hY2 : |Y2 - 5 / 12| ≤ 1 / 10 ^ 6) (hp : |p2 - y ^ Y2| ≤ (1866 / 10 ^ 7) * y ^ Y2) (hr : |r2 - (α * p2 - a)| ≤ 2 / 10 ^ 7) :
    |r2 - x| ≤ 4 / 10 ^ 5 := by
  obtain ⟨y1, y2⟩ := abs_le.mp hy
  obtain ⟨z1, z2⟩ := abs_le.mp hY2
  have hβpos : 0 < β := by linarith
  have hypos : 0 < y := by linarith
  have hyU : y ≤ 30413090 / 10 ^ 10 := by
    have : x / 12.92 ≤ (3929345 / 10 ^ 8) / 12.92 := div_le_div_of_nonneg_right (by linarith) (by norm_num)
    have h2 : ((3929345:ℝ) / 10 ^ 8) / 12.92 ≤ 30412890 / 10 ^ 10 := by norm_num
    linarith
  have hxL : 3929300 / 10 ^ 8 ≤ x := by
    have : β - 2 / 10 ^ 8 ≤ x / 12.92 := by linarith
    rw [le_div_iff₀ (by norm_num)] at this
    nlinarith
  set P := β ^ ((5:ℝ) / 12) with hP
  set w := y ^ ((5:ℝ) / 12) with hw
  have hwP : P ≤ w := Real.rpow_le_rpow hβpos.le hyβ (by norm_num)
  have htan := concave_tangent β y ((5:ℝ) / 12) hβpos hypos (by norm_num) (by norm_num)
  rw [← hP, ← hw] at htan
  have hq : P / β ≤ 2939200 / 10 ^ 5 := by rw [div_le_iff₀ hβpos]; nlinarith
  have hq0 : 0 ≤ P / β := by positivity
  have hd : y - β ≤ 271 / 10 ^ 10 := by linarith
  have hd0 : 0 ≤ y - β := by linarith
  have hwU : w ≤ P + 4 / 10 ^ 7 := by
    have : (5:ℝ) / 12 * (P / β) * (y - β) ≤ (5 / 12 * (2939200 / 10 ^ 5)) * (271 / 10 ^ 10) := by
      apply mul_le_mul _ hd hd0 (by norm_num)
      nlinarith
    have h2 : ((5:ℝ) / 12 * (2939200 / 10 ^ 5)) * (271 / 10 ^ 10) ≤ 4 / 10 ^ 7 := by norm_num
    linarith
  have hclose := rpow_exp_close' y Y2 (5 / 12) (1 / 10 ^ 6) hypos.le (by linarith) (by linarith) (by norm_num) hY2
  rw [← hw] at hclose
  obtain ⟨c1, c2⟩ := abs_le.mp hclose
  set v := y ^ Y2 with hv
  have hvL : 8938430 / 10 ^ 8 ≤ v := by linarith
  have hvU : v ≤ 8938980 / 10 ^ 8 := by linarith
  obtain ⟨p1, p2'⟩ := abs_le.mp hp
  have hpv : (1866 / 10 ^ 7) * v ≤ 1669 / 10 ^ 8 := by nlinarith
  exact junction_lo_core α a p2 r2 x hα1 hα2 ha (by linarith) (by linarith) hr hxL (by linarith)

/-- the power pair when the computed base exceeds 1 by rounding (at most 1e-6) -/
theorem srgb_pair_top (b Y1 Y2 r1 p2 : ℝ) (hb0 : 1 < b) (hb1 : b ≤ 1 + 1 / 10 ^ 6) (hY1 : |Y1 - 12 / 5| ≤ 1 / 10 ^ 6) (hY2 : |Y2 - 5 / 12| ≤ 1 / 10 ^ 6)
    (h1 : |r1 - b ^ Y1| ≤ (203 / 10 ^ 6) * b ^ Y1) (h2 : |p2 - r1 ^ Y2| ≤ (35 / 10 ^ 6) * r1 ^ Y2) : |p2 - b| ≤ 13 / 10 ^ 5 := by
  obtain ⟨y1a, y1b⟩ := abs_le.mp hY1
  obtain ⟨y2a, y2b⟩ := abs_le.mp hY2
  have hbpos : 0 < b := by linarith
  set v := b ^ Y1 with hv
  have hv1 : 1 ≤ v := Real.one_le_rpow hb0.le (by linarith)
  have hv2 : v ≤ 1 + 31 / 10 ^ 7 := by
    have a1 : v ≤ b ^ (3:ℝ) := Real.rpow_le_rpow_of_exponent_le hb0.le (by linarith)
    have a2 : b ^ (3:ℝ) = b ^ 3 := by rw [show (3:ℝ) = ((3:ℕ):ℝ) by norm_num, Real.rpow_natCast]
    rw [a2] at a1
    have a3 : b ^ 3 ≤ (1 + 1 / 10 ^ 6 : ℝ) ^ 3 := pow_le_pow_left₀ hbpos.le hb1 3
    have a4 : (1 + 1 / 10 ^ 6 : ℝ) ^ 3 ≤ 1 + 31 / 10 ^ 7 := by norm_num
    linarith
  obtain ⟨g1, g2⟩ := abs_le.mp h1
  have he : |r1 - 1| ≤ 207 / 10 ^ 6 := by rw [abs_le]; constructor <;> nlinarith
  have hnear := RoundTrip.rpow_near_one (r1 - 1) Y2 (207 / 10 ^ 6) he (by norm_num) (by linarith) (by linarith)
  have e1 : 1 + (r1 - 1) = r1 := by ring
  rw [e1] at hnear
  set w := r1 ^ Y2 with hw
  have hw' : |w - 1| ≤ 865 / 10 ^ 7 := by refine le_trans hnear ?_; nlinarith
  obtain ⟨w1, w2⟩ := abs_le.mp hw'
  obtain ⟨q1, q2⟩ := abs_le.mp h2
  rw [abs_le]; constructor <;> nlinarith

set_option maxHeartbeats 1000000 in
/-- the second stage (`srgb_inverse_eotf`) on an arbitrary finite input of `[0, 1.001]`: which branch, and what it returns -/
theorem srgb_g_step (B : Build) (hB : B.fastmath = true) (y : Nat) (hyw : WF y) (hy : Finite y) (h0 : 0 ≤ toReal y) (h1 : toReal y ≤ 1001 / 1000) :
    ∃ r2, srgb_inverse_eotf B y = .ok r2 ∧ Finite r2 ∧
      ((toReal y < toReal BSRGB ∧ |toReal r2 - 12.92 * toReal y| ≤ 1 / 10 ^ 7) ∨
       (toReal BSRGB ≤ toReal y ∧ ∃ p2 : ℝ,
          |toReal r2 - (toReal ASRGB * p2 - toReal (sub ASRGB C.srgb_inverse_eotf_f4))| ≤ 2 / 10 ^ 7 ∧
          |p2 - (toReal y) ^ (toReal (div C.srgb_inverse_eotf_f2 C.srgb_inverse_eotf_f3))|
            ≤ (1866 / 10 ^ 7) * (toReal y) ^ (toReal (div C.srgb_inverse_eotf_f2 C.srgb_inverse_eotf_f3)) ∧
          (672 / 1000 ≤ toReal y → |p2 - (toReal y) ^ (toReal (div C.srgb_inverse_eotf_f2 C.srgb_inverse_eotf_f3))|
            ≤ (35 / 10 ^ 6) * (toReal y) ^ (toReal (div C.srgb_inverse_eotf_f2 C.srgb_inverse_eotf_f3))))) := by
  obtain ⟨z1, z2, b1, b2, b3, b4, b5, a1, a2, a3, a4, k1, k2, y1, y2, o1, o2, o3⟩ := cert_srgb_g
  clear b4 b5
  have hu' : u = 1 / 16777216 := u_val
  have he' : eta ≤ 1 / 10 ^ 40 := eta_le
  have hp : ∀ a b, powf B a b = powfFast B.fma a b := by intro a b; unfold powf; rw [if_pos hB]
  obtain ⟨fz, vz⟩ := zero_of _ z1 z2
  obtain ⟨hm1, hm2⟩ := max_val y C.srgb_inverse_eotf_f0 hy fz
  have hxf : Finite (F32.max y C.srgb_inverse_eotf_f0) := by rcases hm1 with e | e <;> rw [e] <;> assumption
  have hxv : toReal (F32.max y C.srgb_inverse_eotf_f0) = toReal y := by rw [hm2, vz]; exact max_eq_left h0
  have hxw' : WF (F32.max y C.srgb_inverse_eotf_f0) := by
    rcases hm1 with e | e <;> rw [e]
    · exact hyw
    · unfold WF; exact lt_of_le_of_lt (by decide : C.srgb_inverse_eotf_f0 ≤ 0) (by norm_num)
  obtain ⟨fb, vb⟩ := Exp2.rat_val _ b1
  obtain ⟨fa, va⟩ := Exp2.rat_val _ a1
  have hβ1 : (3041282:ℝ) / 10 ^ 9 ≤ toReal BSRGB := by rw [vb]; have := (Rat.cast_le (K := ℝ)).mpr b2; push_cast at this; exact this
  have hβ2 : toReal BSRGB ≤ 3041283 / 10 ^ 9 := by rw [vb]; have := (Rat.cast_le (K := ℝ)).mpr b3; push_cast at this; exact this
  have hα1 : (10550106:ℝ) / 10 ^ 7 ≤ toReal ASRGB := by rw [va]; have := (Rat.cast_le (K := ℝ)).mpr a2; push_cast at this; exact this
  have hα2 : toReal ASRGB ≤ 10550108 / 10 ^ 7 := by rw [va]; have := (Rat.cast_le (K := ℝ)).mpr a3; push_cast at this; exact this
  unfold srgb_inverse_eotf
  dsimp only
  set x' := F32.max y C.srgb_inverse_eotf_f0 with hx'
  set R := toReal y with hR
  obtain ⟨fk', vk'⟩ := near_of' _ _ _ y1 y2
  have hk' : |toReal (div C.srgb_inverse_eotf_f2 C.srgb_inverse_eotf_f3) - 5 / 12| ≤ 1 / 10 ^ 6 := by push_cast at vk'; norm_num at vk' ⊢; exact vk'
  obtain ⟨kk1, kk2⟩ := abs_le.mp hk'
  set Y2 := toReal (div C.srgb_inverse_eotf_f2 C.srgb_inverse_eotf_f3) with hY2
  by_cases hlt : lt x' BSRGB = true
  · rw [if_pos hlt]
    have hXlt : R < toReal BSRGB := by have := (lt_iff x' BSRGB hxf fb).mp hlt; rw [hxv] at this; exact this
    obtain ⟨fk, vk⟩ := near_of' _ _ _ k1 k2
    push_cast at vk
    obtain ⟨k1', k2'⟩ := abs_le.mp vk
    have hkabs : |toReal C.srgb_inverse_eotf_f1| ≤ 13 := by rw [abs_le]; constructor <;> linarith
    have hXabs : |toReal x'| ≤ 1 / 100 := by rw [hxv, abs_of_nonneg h0]; linarith
    obtain ⟨hrb, hre⟩ := mul_bnd x' C.srgb_inverse_eotf_f1 (1 / 100) 13 ⟨hxf, hXabs⟩ ⟨fk, hkabs⟩ (fit_small _ (by norm_num))
    rw [hxv] at hre
    refine ⟨_, rfl, hrb.1, Or.inl ⟨hXlt, ?_⟩⟩
    have e : toReal (mul x' C.srgb_inverse_eotf_f1) - 12.92 * R = (toReal (mul x' C.srgb_inverse_eotf_f1) - R * toReal C.srgb_inverse_eotf_f1) + R * (toReal C.srgb_inverse_eotf_f1 - 12.92) := by ring
    rw [e]
    refine le_trans (abs_add_le _ _) ?_
    rw [abs_mul, abs_of_nonneg h0]
    have h3 : R * |toReal C.srgb_inverse_eotf_f1 - 12.92| ≤ (1 / 100) * (1 / 10 ^ 6) := by
      apply mul_le_mul (by linarith) _ (abs_nonneg _) (by norm_num)
      norm_num at vk ⊢; exact vk
    rw [hu'] at hre
    nlinarith
  · rw [if_neg hlt]
    have hXge : toReal BSRGB ≤ R := by
      by_contra hc
      exact hlt ((lt_iff x' BSRGB hxf fb).mpr (by rw [hxv]; exact not_le.mp hc))
    have hRpos : 0 < R := by linarith
    -- the power: general form, the tiny alternative is impossible here
    have hY2a : 349 / 1000 ≤ Y2 := by linarith
    have hY2b : Y2 ≤ 3 + 1 / 10 ^ 6 := by linarith
    obtain ⟨p, hp1, hp2, hp3⟩ := PowRel.pow_rel B.fma x' _ hxw' hxf (by rw [hxv]; exact h0) (by rw [hxv]; linarith) fk' hY2a hY2b
    rw [hxv, ← hY2] at hp3
    have hvlow : (3 / 1000 : ℝ) ≤ R ^ Y2 := by
      have a1 : R ^ (1:ℝ) ≤ R ^ Y2 ∨ 1 ≤ R := by
        by_cases hR1 : R ≤ 1
        · left; exact Real.rpow_le_rpow_of_exponent_ge hRpos hR1 (by linarith)
        · right; exact (not_le.mp hR1).le
      rcases a1 with a1 | a1
      · rw [Real.rpow_one] at a1; linarith
      · have : 1 ≤ R ^ Y2 := Real.one_le_rpow a1 (by linarith)
        linarith
    have h39 : (2:ℝ) ^ (-39:ℤ) ≤ 1 / 10 ^ 11 := two_m39
    have hrel : |toReal p - R ^ Y2| ≤ (1866 / 10 ^ 7) * R ^ Y2 := by
      rcases hp3 with h | ⟨_, h⟩
      · refine le_trans h ?_
        apply mul_le_mul_of_nonneg_right _ (by linarith)
        nlinarith
      · exact absurd (le_trans hvlow (le_trans h h39)) (by norm_num)
    have hvup : R ^ Y2 ≤ 1001 / 1000 := by
      by_cases hR1 : R ≤ 1
      · exact le_trans (Real.rpow_le_one h0 hR1 (by linarith)) (by norm_num)
      · have hR1' := (not_le.mp hR1).le
        calc R ^ Y2 ≤ R ^ (1:ℝ) := Real.rpow_le_rpow_of_exponent_le hR1' (by linarith)
          _ = R := Real.rpow_one R
          _ ≤ 1001 / 1000 := h1
    rw [hp] ; rw [hp1]
    simp only [Out.bind]
    -- a = α - 1
    obtain ⟨fo, vo⟩ := val_of _ _ o1 o2
    obtain ⟨hsf, hse⟩ := sub_val ASRGB C.srgb_inverse_eotf_f4 o3 fa fo (by rw [vo]; apply fit_small; push_cast; rw [abs_le]; constructor <;> linarith)
    have hsw : WF (sub ASRGB C.srgb_inverse_eotf_f4) := by unfold sub; exact add_wf _ _
    obtain ⟨hnf, hnv⟩ := toReal_neg _ hsw hsf
    set av := toReal (sub ASRGB C.srgb_inverse_eotf_f4) with hav
    have havabs : |av| ≤ 6 / 100 := by
      rw [vo] at hse; push_cast at hse
      have : |toReal ASRGB - 1| ≤ 56 / 1000 := by rw [abs_le]; constructor <;> linarith
      have h2 := abs_sub_abs_le_abs_sub av (toReal ASRGB - 1)
      rw [hu'] at hse; nlinarith
    obtain ⟨q1, q2⟩ := abs_le.mp hrel
    have hpabs : |toReal p| ≤ 1002 / 1000 := by rw [abs_le]; constructor <;> nlinarith
    have hαabs : |toReal ASRGB| ≤ 106 / 100 := by rw [abs_le]; constructor <;> linarith
    have hnabs : |toReal (neg (sub ASRGB C.srgb_inverse_eotf_f4))| ≤ 6 / 100 := by rw [hnv, abs_neg]; exact havabs
    obtain ⟨hfb, hfe⟩ := fma_bnd ASRGB p (neg (sub ASRGB C.srgb_inverse_eotf_f4)) (106 / 100) (1002 / 1000) (6 / 100) ⟨fa, hαabs⟩ ⟨hp2, hpabs⟩ ⟨hnf, hnabs⟩ (fit_small _ (by norm_num))
    rw [hnv] at hfe
    refine ⟨_, rfl, hfb.1, Or.inr ⟨hXge, toReal p, ?_, hrel, ?_⟩⟩
    · have e : toReal ASRGB * toReal p + -av = toReal ASRGB * toReal p - av := by ring
      rw [e] at hfe
      refine le_trans hfe ?_
      have hq : (1:ℝ) / 16777216 * (106 / 100 * (1002 / 1000) + 6 / 100) ≤ 1 / 10 ^ 7 := by norm_num
      rw [hu']; linarith
    · intro hbig
      have hY2lo : 41 / 100 ≤ Y2 := by linarith
      have hY2hi : Y2 ≤ 417 / 1000 := by linarith
      obtain ⟨r', hr'1, _, hr'3⟩ := PowRel.pow_near1b B.fma x' _ (pos_sign_clear x' hxw' hxf (by rw [hxv]; exact hRpos)) hxf (by rw [hxv]; exact hbig) (by rw [hxv]; exact h1) fk'
        hY2lo hY2hi
      rw [hp1] at hr'1
      injection hr'1 with hr'1
      rw [← hr'1, hxv, ← hY2] at hr'3
      exact hr'3

/-- the two exponent constants multiply to 1 within 2e-7 (evaluated on the regenerated constants) -/
theorem cert_srgb_yy :
    |ratOf C.srgb_eotf_f4 * ratOf (div C.srgb_inverse_eotf_f2 C.srgb_inverse_eotf_f3) - 1| ≤ 2 / 10 ^ 7 := by decide +kernel

set_option maxHeartbeats 4000000 in
/-- **sRGB round trip** (fastmath build) -/
theorem srgb_roundtrip_fast (B : Build) (hB : B.fastmath = true) : RoundTripWithin (srgb_eotf B) (srgb_inverse_eotf B) := by
  obtain ⟨z1, z2, z3, t1, t2, t3, a1, a2, a3, s1, s2, k1, k2, y1, y2, e1, e2, e3, e4, e5⟩ := cert_srgb_l
  obtain ⟨_, _, b1, b2, b3, b4, b5, _, _, _, _, _, _, y1', y2', o1, o2, o3⟩ := cert_srgb_g
  have hyy := cert_srgb_yy
  have hu' : u = 1 / 16777216 := u_val
  have he' : eta ≤ 1 / 10 ^ 40 := eta_le
  have hud := ud_le
  have hudpos := ud_pos
  have hp : ∀ a b, powf B a b = powfFast B.fma a b := by intro a b; unfold powf; rw [if_pos hB]
  intro x hxw hx h0 h1
  obtain ⟨fz, vz⟩ := zero_of _ z1 z2
  obtain ⟨hm1, hm2⟩ := max_val x C.srgb_eotf_f0 hx fz
  have hxf : Finite (F32.max x C.srgb_eotf_f0) := by rcases hm1 with e | e <;> rw [e] <;> assumption
  have hxv : toReal (F32.max x C.srgb_eotf_f0) = toReal x := by rw [hm2, vz]; exact max_eq_left h0
  obtain ⟨ft, vt⟩ := Exp2.rat_val _ t1
  obtain ⟨fa, va⟩ := Exp2.rat_val _ a1
  obtain ⟨fs, vs⟩ := Exp2.rat_val _ s1
  obtain ⟨fb, vb⟩ := Exp2.rat_val _ b1
  have hT1 : (3929330:ℝ) / 10 ^ 8 ≤ toReal (mul C.srgb_eotf_f1 BSRGB) := by rw [vt]; have := (Rat.cast_le (K := ℝ)).mpr t2; push_cast at this; exact this
  have hT2 : toReal (mul C.srgb_eotf_f1 BSRGB) ≤ 3929345 / 10 ^ 8 := by rw [vt]; have := (Rat.cast_le (K := ℝ)).mpr t3; push_cast at this; exact this
  have hα1 : (10550106:ℝ) / 10 ^ 7 ≤ toReal ASRGB := by rw [va]; have := (Rat.cast_le (K := ℝ)).mpr a2; push_cast at this; exact this
  have hα2 : toReal ASRGB ≤ 10550108 / 10 ^ 7 := by rw [va]; have := (Rat.cast_le (K := ℝ)).mpr a3; push_cast at this; exact this
  have hβ1 : (3041282:ℝ) / 10 ^ 9 ≤ toReal BSRGB := by rw [vb]; have := (Rat.cast_le (K := ℝ)).mpr b2; push_cast at this; exact this
  have hβ2 : toReal BSRGB ≤ 3041283 / 10 ^ 9 := by rw [vb]; have := (Rat.cast_le (K := ℝ)).mpr b3; push_cast at this; exact this
  have hav : toReal (sub ASRGB C.srgb_eotf_f3) = toReal ASRGB - 1 := by rw [vs, s2, va]; push_cast; ring
  -- enclosure of β^(5/12)
  have hP := rpow_encl (toReal BSRGB) (8938685 / 10 ^ 8) (8938686 / 10 ^ 8) 5 12 (by norm_num) (by linarith) (by norm_num) (by norm_num)
    (by rw [vb]; have := (Rat.cast_le (K := ℝ)).mpr b4; push_cast at this; exact this)
    (by rw [vb]; have := (Rat.cast_le (K := ℝ)).mpr b5; push_cast at this; exact this)
  have hP' : (8938685 / 10 ^ 8 : ℝ) ≤ toReal BSRGB ^ ((5:ℝ) / 12) ∧ toReal BSRGB ^ ((5:ℝ) / 12) ≤ 8938686 / 10 ^ 8 := by
    have e : (((5:ℕ):ℝ) / ((12:ℕ):ℝ)) = (5:ℝ) / 12 := by norm_num
    rw [e] at hP; exact hP
  clear b4 b5 hP
  -- the constant `a` of the second stage
  obtain ⟨fo, vo⟩ := val_of _ _ o1 o2
  obtain ⟨hsf2, hse2⟩ := sub_val ASRGB C.srgb_inverse_eotf_f4 o3 fa fo (by rw [vo]; apply fit_small; push_cast; rw [abs_le]; constructor <;> linarith)
  have ha7 : |toReal (sub ASRGB C.srgb_inverse_eotf_f4) - (toReal ASRGB - 1)| ≤ 1 / 10 ^ 7 := by
    rw [vo] at hse2; push_cast at hse2
    refine le_trans hse2 ?_
    have : |toReal ASRGB - 1| ≤ 1 / 10 := by rw [abs_le]; constructor <;> linarith
    rw [hu']; nlinarith
  -- exponents
  obtain ⟨fy', vy'⟩ := near_of' _ _ _ y1 y2
  have hY1 : |toReal C.srgb_eotf_f4 - 12 / 5| ≤ 1 / 10 ^ 6 := by push_cast at vy'; norm_num at vy' ⊢; exact vy'
  obtain ⟨fk', vk'⟩ := near_of' _ _ _ y1' y2'
  have hY2 : |toReal (div C.srgb_inverse_eotf_f2 C.srgb_inverse_eotf_f3) - 5 / 12| ≤ 1 / 10 ^ 6 := by push_cast at vk'; norm_num at vk' ⊢; exact vk'
  have hYY : |toReal C.srgb_eotf_f4 * toReal (div C.srgb_inverse_eotf_f2 C.srgb_inverse_eotf_f3) - 1| ≤ 2 / 10 ^ 7 := by
    obtain ⟨_, v1⟩ := Exp2.rat_val _ y1
    obtain ⟨_, v2⟩ := Exp2.rat_val _ y1'
    rw [v1, v2]
    have := (Rat.cast_le (K := ℝ)).mpr hyy
    push_cast at this ⊢
    exact this
  obtain ⟨y1a, y1b⟩ := abs_le.mp hY1
  obtain ⟨y2a, y2b⟩ := abs_le.mp hY2
  unfold srgb_eotf
  dsimp only
  set x' := F32.max x C.srgb_eotf_f0 with hx'
  set X := toReal x with hX
  set α := toReal ASRGB with hα
  set T := toReal (mul C.srgb_eotf_f1 BSRGB) with hT
  set β := toReal BSRGB with hβ
  set Y1 := toReal C.srgb_eotf_f4 with hY1d
  set Y2 := toReal (div C.srgb_inverse_eotf_f2 C.srgb_inverse_eotf_f3) with hY2d
  set av := toReal (sub ASRGB C.srgb_inverse_eotf_f4) with havd
  by_cases hlt : lt x' (mul C.srgb_eotf_f1 BSRGB) = true
  · rw [if_pos hlt]
    have hXlt : X < T := by have := (lt_iff x' _ hxf ft).mp hlt; rw [hxv] at this; exact this
    obtain ⟨fk, vk⟩ := near_of' _ _ _ k1 k2
    push_cast at vk
    obtain ⟨k1', k2'⟩ := abs_le.mp vk
    have hkabs : (12:ℝ) ≤ |toReal C.srgb_eotf_f2| := by rw [abs_of_pos (by linarith)]; linarith
    have hXabs : |toReal x'| ≤ 1 / 10 := by rw [hxv, abs_of_nonneg h0]; linarith
    obtain ⟨hrb, hre⟩ := div_bnd x' C.srgb_eotf_f2 (1 / 10) 12 ⟨hxf, hXabs⟩ fk (by norm_num) hkabs
      (le_trans (by norm_num : (1 / 10 : ℝ) / 12 ≤ 100) (by norm_num))
    rw [hxv] at hre
    set c := toReal C.srgb_eotf_f2 with hc
    have hcpos : 0 < c := by linarith
    have hr1e : |toReal (div x' C.srgb_eotf_f2) - X / 12.92| ≤ 2 / 10 ^ 8 := by
      have e : toReal (div x' C.srgb_eotf_f2) - X / 12.92 = (toReal (div x' C.srgb_eotf_f2) - X / c) + (X / c - X / 12.92) := by ring
      rw [e]
      refine le_trans (abs_add_le _ _) ?_
      have h3 : |X / c - X / 12.92| ≤ 1 / 10 ^ 8 := by
        have e2 : X / c - X / 12.92 = X * (12.92 - c) / (c * 12.92) := by field_simp
        rw [e2, abs_div, abs_of_pos (by positivity : (0:ℝ) < c * 12.92), div_le_iff₀ (by positivity), abs_mul, abs_of_nonneg h0]
        have : |12.92 - c| ≤ 1 / 10 ^ 6 := by rw [abs_sub_comm]; norm_num at vk ⊢; exact vk
        nlinarith [abs_nonneg (12.92 - c)]
      have : ud * ((1 / 10 : ℝ) / 12) ≤ (1 / 10 ^ 7) * ((1 / 10) / 12) := mul_le_mul_of_nonneg_right hud (by norm_num)
      linarith
    have hr10 : 0 ≤ toReal (div x' C.srgb_eotf_f2) :=
      div_nonneg_val x' C.srgb_eotf_f2 hxf fk (by rw [hxv]; exact h0) hcpos (by
        rw [hxv, abs_of_nonneg (div_nonneg h0 hcpos.le)]
        have h126 : (1:ℝ) ≤ (2:ℝ) ^ (126:ℤ) := by
          have : (2:ℝ) ^ (0:ℤ) ≤ (2:ℝ) ^ (126:ℤ) := zpow_le_zpow_right₀ (by norm_num) (by norm_num)
          simpa using this
        refine le_trans ?_ h126
        rw [div_le_iff₀ hcpos]; nlinarith)
    obtain ⟨r1a, r1b⟩ := abs_le.mp hr1e
    have hr11 : toReal (div x' C.srgb_eotf_f2) ≤ 1001 / 1000 := by
      have : X / 12.92 ≤ 1 / 12.92 := div_le_div_of_nonneg_right h1 (by norm_num)
      have h2 : (1:ℝ) / 12.92 ≤ 1 / 10 := by norm_num
      linarith
    obtain ⟨r2, hr2, hf2, hcase⟩ := srgb_g_step B hB (div x' C.srgb_eotf_f2) (div_wf _ _) hrb.1 hr10 hr11
    refine ⟨_, r2, rfl, hr2, hf2, ?_⟩
    rcases hcase with ⟨_, he2⟩ | ⟨hge2, p2, hr, hpp, _⟩
    · obtain ⟨q1, q2⟩ := abs_le.mp he2
      have e : (12.92:ℝ) * (X / 12.92) = X := by field_simp
      rw [abs_lt]; constructor <;> linarith
    · have := srgb_junction_lo α av β T X (toReal (div x' C.srgb_eotf_f2)) Y2 p2 (toReal r2) hα1 hα2 ha7 hβ1 hβ2 hP'.1 hP'.2 hT2 hXlt hr1e hge2 hY2 hpp hr
      exact lt_of_le_of_lt this (by norm_num)
  · rw [if_neg hlt]
    have hXge : T ≤ X := by
      by_contra hc
      exact hlt ((lt_iff x' _ hxf ft).mpr (by rw [hxv]; exact not_le.mp hc))
    have hαpos : 0 < α := by linarith
    obtain ⟨hdbf, hbh0, hbhb⟩ := srgb_base x' (sub ASRGB C.srgb_eotf_f3) ASRGB X α hxf hxv h0 h1 fs hav fa rfl hα1 hα2
    set bf := div (add x' (sub ASRGB C.srgb_eotf_f3)) ASRGB with hbf
    set bh := toReal bf with hbh
    obtain ⟨bb1, bb2⟩ := abs_le.mp hbhb
    have hb1' : (X + (α - 1)) / α ≤ 1 := by rw [div_le_one hαpos]; linarith
    have hb0' : 893 / 10000 ≤ (X + (α - 1)) / α := by rw [le_div_iff₀ hαpos]; nlinarith
    have hbhlo : 89 / 1000 ≤ bh := by linarith
    have hbhhi : bh ≤ 1 + 3 / 10 ^ 7 := by linarith
    have hbhpos : 0 < bh := by linarith
    -- first power
    have hY1a : 349 / 1000 ≤ Y1 := by linarith
    have hY1b : Y1 ≤ 3 + 1 / 10 ^ 6 := by linarith
    obtain ⟨r1, hr1, hr1f, hr1c⟩ := PowRel.pow_rel B.fma bf _ (div_wf _ _) hdbf hbh0 (by linarith) fy' hY1a hY1b
    rw [← hbh, ← hY1d] at hr1c
    have hr1w : WF r1 := powf_wf B hB _ _ _ (by rw [hp]; exact hr1)
    set v := bh ^ Y1 with hv
    have hvpos : 0 < v := Real.rpow_pos_of_pos hbhpos _
    have hvlo : 1 / 10 ^ 4 ≤ v := by
      by_cases hb1 : bh ≤ 1
      · have a1 : bh ^ (3:ℝ) ≤ v := Real.rpow_le_rpow_of_exponent_ge hbhpos hb1 (by linarith)
        have a2 : (89 / 1000 : ℝ) ^ (3:ℝ) ≤ bh ^ (3:ℝ) := Real.rpow_le_rpow (by norm_num) hbhlo (by norm_num)
        have a3 : (89 / 1000 : ℝ) ^ (3:ℝ) = 704969 / 10 ^ 9 := by rw [show (3:ℝ) = ((3:ℕ):ℝ) by norm_num, Real.rpow_natCast]; norm_num
        rw [a3] at a2; linarith
      · have : 1 ≤ v := Real.one_le_rpow (not_le.mp hb1).le (by linarith)
        linarith
    have hvhi : v ≤ 1 + 1 / 10 ^ 6 := by
      by_cases hb1 : bh ≤ 1
      · exact le_trans (Real.rpow_le_one hbhpos.le hb1 (by linarith)) (by norm_num)
      · have hb1' := (not_le.mp hb1).le
        have a1 : v ≤ bh ^ (3:ℝ) := Real.rpow_le_rpow_of_exponent_le hb1' (by linarith)
        have a2 : bh ^ (3:ℝ) = bh ^ 3 := by rw [show (3:ℝ) = ((3:ℕ):ℝ) by norm_num, Real.rpow_natCast]
        rw [a2] at a1
        have a3 : bh ^ 3 ≤ (1 + 3 / 10 ^ 7 : ℝ) ^ 3 := pow_le_pow_left₀ hbhpos.le hbhhi 3
        have a4 : (1 + 3 / 10 ^ 7 : ℝ) ^ 3 ≤ 1 + 1 / 10 ^ 6 := by norm_num
        linarith
    have h39 : (2:ℝ) ^ (-39:ℤ) ≤ 1 / 10 ^ 11 := two_m39
    have hrel : |toReal r1 - v| ≤ (1832 / 10 ^ 7 + (7914 / 10 ^ 9) * Y1) * v := by
      rcases hr1c with h | ⟨_, h⟩
      · exact h
      · exact absurd (le_trans hvlo (le_trans h h39)) (by norm_num)
    have hρ1 : 1832 / 10 ^ 7 + (7914 / 10 ^ 9) * Y1 ≤ 203 / 10 ^ 6 := by nlinarith
    have hρ10 : 0 ≤ 1832 / 10 ^ 7 + (7914 / 10 ^ 9) * Y1 := by nlinarith
    have hrel' : |toReal r1 - v| ≤ (203 / 10 ^ 6) * v := le_trans hrel (mul_le_mul_of_nonneg_right hρ1 hvpos.le)
    obtain ⟨g1, g2⟩ := abs_le.mp hrel'
    have hr1pos : 0 < toReal r1 := by nlinarith
    have hr1le : toReal r1 ≤ 1001 / 1000 := by nlinarith
    obtain ⟨r2, hr2, hf2, hcase⟩ := srgb_g_step B hB r1 hr1w hr1f hr1pos.le hr1le
    refine ⟨r1, r2, by rw [hp]; exact hr1, hr2, hf2, ?_⟩
    -- the enclosure of ((T + a)/α)^2.4
    have hbTq : ((bTq : ℚ) : ℝ) = (T + (α - 1)) / α := by
      have h1' : T = ((ratOf (mul C.srgb_eotf_f1 BSRGB) : ℚ) : ℝ) := vt
      have h2' : α = ((ratOf ASRGB : ℚ) : ℝ) := va
      rw [h1', h2']; unfold bTq; push_cast; ring
    have hE := rpow_encl ((T + (α - 1)) / α) (30412780 / 10 ^ 10) (30412812 / 10 ^ 10) 12 5 (by norm_num)
      (by rw [← hbTq]; exact_mod_cast e4) (by norm_num) (by norm_num)
      (by rw [← hbTq]; have := (Rat.cast_le (K := ℝ)).mpr e1; push_cast at this; exact this)
      (by rw [← hbTq]; have := (Rat.cast_le (K := ℝ)).mpr e2; push_cast at this; exact this)
    have e125 : (((12:ℕ):ℝ) / ((5:ℕ):ℝ)) = (12:ℝ) / 5 := by norm_num
    rw [e125] at hE
    clear e1 e2 e3 e4 e5
    rcases hcase with ⟨hlt2, he2⟩ | ⟨hge2, p2, hr, hpp, hpn⟩
    · have hj := srgb_junction_hi α T β X bh Y1 (toReal r1) hα1 hα2 hT1 hT2 hβ2 hE.1 hE.2 hXge hbhb hY1 hrel' hlt2
      obtain ⟨q1, q2⟩ := abs_le.mp he2
      obtain ⟨j1, j2⟩ := abs_le.mp hj
      rw [abs_lt]; constructor <;> linarith
    · by_cases hreg : bh ≤ 855 / 1000
      · have hpair := srgb_pair bh Y1 Y2 (toReal r1) p2 (1866 / 10 ^ 7) hbhpos (by linarith) hY1 hY2 hYY hrel (by norm_num) (by norm_num) hpp
        have hasm := srgb_asm α av X bh p2 (toReal r2) _ hα1 hα2 ha7 hbhb hpair hr
        refine lt_of_le_of_lt hasm ?_
        nlinarith
      · have hreg' := not_le.mp hreg
        by_cases hb1 : bh ≤ 1
        · obtain ⟨ra, _⟩ := srgb_r1_range bh Y1 (toReal r1) hreg' hb1 hY1 hrel
          have hpair := srgb_pair bh Y1 Y2 (toReal r1) p2 (35 / 10 ^ 6) hbhpos hb1 hY1 hY2 hYY hrel (by norm_num) (by norm_num) (hpn ra)
          have hasm := srgb_asm α av X bh p2 (toReal r2) _ hα1 hα2 ha7 hbhb hpair hr
          refine lt_of_le_of_lt hasm ?_
          nlinarith
        · have hb1' := not_le.mp hb1
          have hv1 : 1 ≤ v := Real.one_le_rpow hb1'.le (by linarith)
          have ra : 672 / 1000 ≤ toReal r1 := by nlinarith
          have hpair := srgb_pair_top bh Y1 Y2 (toReal r1) p2 hb1' (by linarith) hY1 hY2 hrel' (hpn ra)
          have hasm := srgb_asm α av X bh p2 (toReal r2) _ hα1 hα2 ha7 hbhb hpair hr
          refine lt_of_le_of_lt hasm ?_
          norm_num

/-- **C10, sRGB** (fastmath build, both FMA modes): gamma -> linear -> gamma returns every binary32 of `[0, 1]` within 2.5e-4,
through the dispatch tables -/
theorem srgb_roundtrip (B : Build) (hB : B.fastmath = true) :
    ∃ f g, toLinearFn B .SRGB = .ok f ∧ toGammaFn B .SRGB = .ok g ∧ RoundTripWithin f g :=
  ⟨_, _, rfl, rfl, srgb_roundtrip_fast B hB⟩

end C10
