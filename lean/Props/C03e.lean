import Props.C03d
import Proofs.Expf
/-! C03, HLG (ARIB STD-B67) gamma -> linear: `x^2 / 3` below 0.5 and `(exp((x - c) / a) + b) / 12` above, within 2.5e-4
(in fact 3e-5) of the defining formula with the exact BT.2100 constants, for every binary32 of `[0, 1]` (fastmath build). -/
namespace C03
open F32 MathM TransferM Real ExpPoly Horner

/-- the HLG inverse OETF of BT.2100 -/
noncomputable def hlgInvSpec (X : ℝ) : ℝ :=
  if X ≤ 1 / 2 then X ^ 2 / 3 else (Real.exp ((X - 0.55991073) / 0.17883277) + 0.28466892) / 12

theorem cert_hlg :
    finiteB C.arib_b67_inverse_oetf_f0 = true ∧ ratOf C.arib_b67_inverse_oetf_f0 = 0 ∧
    finiteB C.arib_b67_inverse_oetf_f1 = true ∧ ratOf C.arib_b67_inverse_oetf_f1 = 1 / 2 ∧
    finiteB (div C.arib_b67_inverse_oetf_f2 C.arib_b67_inverse_oetf_f3) = true ∧
      |ratOf (div C.arib_b67_inverse_oetf_f2 C.arib_b67_inverse_oetf_f3) - 1 / 3| ≤ 1 / 10 ^ 7 ∧
    finiteB C.arib_b67_inverse_oetf_f4 = true ∧ ratOf C.arib_b67_inverse_oetf_f4 = 12 ∧
    finiteB HA = true ∧ |ratOf HA - 17883277 / 10 ^ 8| ≤ 1 / 10 ^ 8 ∧
    finiteB HB = true ∧ |ratOf HB - 28466892 / 10 ^ 8| ≤ 2 / 10 ^ 8 ∧
    finiteB HC = true ∧ |ratOf HC - 55991073 / 10 ^ 8| ≤ 4 / 10 ^ 8 ∧ HC < 4294967296 := by
  decide +kernel

/-- `exp` under a small change of its argument -/
theorem exp_pert (a δ : ℝ) (hδ : |δ| ≤ 1) : |Real.exp (a + δ) - Real.exp a| ≤ 2 * |δ| * Real.exp a := by
  rw [Real.exp_add]
  have hpos := Real.exp_pos a
  have := Real.abs_exp_sub_one_le hδ
  have e : Real.exp a * Real.exp δ - Real.exp a = Real.exp a * (Real.exp δ - 1) := by ring
  rw [e, abs_mul, abs_of_pos hpos]
  nlinarith

/-- real-arithmetic core of the exponential branch -/
theorem hlg_real (X cf af bf sv dv ev av rv : ℝ) (hX0 : 1 / 2 ≤ X) (hX1 : X ≤ 1)
    (hc : |cf - 0.55991073| ≤ 4 / 10 ^ 8) (ha : |af - 0.17883277| ≤ 1 / 10 ^ 8) (hb : |bf - 0.28466892| ≤ 2 / 10 ^ 8)
    (hs : |sv - (X - cf)| ≤ 1 / 10 ^ 7) (hd : |dv - sv / af| ≤ 1 / 10 ^ 6)
    (he : |ev - Real.exp dv| ≤ (1 / 10 ^ 5) * Real.exp dv)
    (hadd : |av - (ev + bf)| ≤ 2 / 10 ^ 6) (hr : |rv - av / 12| ≤ 1 / 10 ^ 6) :
    |rv - (Real.exp ((X - 0.55991073) / 0.17883277) + 0.28466892) / 12| ≤ 3 / 10 ^ 5 := by
  obtain ⟨c1, c2⟩ := abs_le.mp hc
  obtain ⟨a1, a2⟩ := abs_le.mp ha
  obtain ⟨b1, b2⟩ := abs_le.mp hb
  obtain ⟨s1, s2⟩ := abs_le.mp hs
  have hafpos : 0 < af := by linarith
  set d0 := (X - 0.55991073) / 0.17883277 with hd0
  -- sv / af against d0
  have hq : |sv / af - d0| ≤ 2 / 10 ^ 6 := by
    have e : sv / af - d0 = (sv * 0.17883277 - (X - 0.55991073) * af) / (af * 0.17883277) := by
      rw [hd0]; field_simp
    rw [e, abs_div, abs_of_pos (by positivity : (0:ℝ) < af * 0.17883277), div_le_iff₀ (by positivity)]
    rw [abs_le]
    constructor <;> nlinarith
  have hdd : |dv - d0| ≤ 3 / 10 ^ 6 := by
    have e : dv - d0 = (dv - sv / af) + (sv / af - d0) := by ring
    rw [e]; exact le_trans (abs_add_le _ _) (by linarith)
  have hd0lo : -(1:ℝ) / 2 ≤ d0 := by rw [hd0, le_div_iff₀ (by norm_num)]; linarith
  have hd0hi : d0 ≤ 5 / 2 := by rw [hd0, div_le_iff₀ (by norm_num)]; linarith
  have hE0 : Real.exp d0 ≤ 13 := by
    have h1 : Real.exp d0 ≤ Real.exp (5 / 2) := Real.exp_le_exp.mpr hd0hi
    have h2 : Real.exp (5 / 2 : ℝ) ≤ 13 := by
      have e1 : Real.exp (5 / 2 : ℝ) = Real.exp 1 ^ (2:ℕ) * Real.exp (1 / 2) := by
        rw [← Real.exp_nat_mul, ← Real.exp_add]; norm_num
      have h3 := Real.exp_one_lt_d9
      have h4 : Real.exp (1 / 2 : ℝ) ≤ 1.65 := by
        have hb' := Real.exp_bound' (x := 1 / 2) (by norm_num) (by norm_num) (n := 4) (by norm_num)
        norm_num [Finset.sum_range_succ, Nat.factorial] at hb'
        linarith
      have hp : 0 < Real.exp 1 := Real.exp_pos 1
      have hq' : 0 < Real.exp (1 / 2 : ℝ) := Real.exp_pos _
      rw [e1]
      have : Real.exp 1 ^ 2 ≤ 2.7182818286 ^ 2 := pow_le_pow_left₀ hp.le h3.le 2
      nlinarith
    linarith
  have hEpos := Real.exp_pos d0
  have hpert := exp_pert d0 (dv - d0) (by linarith)
  have e2 : d0 + (dv - d0) = dv := by ring
  rw [e2] at hpert
  obtain ⟨p1, p2⟩ := abs_le.mp hpert
  obtain ⟨e1', e2'⟩ := abs_le.mp he
  obtain ⟨ad1, ad2⟩ := abs_le.mp hadd
  obtain ⟨r1, r2⟩ := abs_le.mp hr
  obtain ⟨dd1, dd2⟩ := abs_le.mp hdd
  have hddabs : |dv - d0| ≤ 3 / 10 ^ 6 := hdd
  have hEd : Real.exp dv ≤ 14 := by nlinarith [abs_nonneg (dv - d0)]
  have hEdpos := Real.exp_pos dv
  rw [abs_le]
  constructor <;> nlinarith [abs_nonneg (dv - d0)]


theorem ud_le : ud ≤ 1 / 10 ^ 7 := by unfold ud; rw [u_val]; norm_num

theorem near_of' (a : Nat) (q : ℚ) (ε : ℚ) (h1 : finiteB a = true) (h2 : |ratOf a - q| ≤ ε) :
    Finite a ∧ |toReal a - (q:ℝ)| ≤ (ε:ℝ) := by
  obtain ⟨f, v⟩ := Exp2.rat_val a h1
  refine ⟨f, ?_⟩
  rw [v]
  have := (Rat.cast_le (K := ℝ)).mpr h2
  push_cast at this ⊢
  exact this


/-- the quadratic branch -/
theorem hlg_low (x' t : Nat) (hx : Finite x') (ht : Finite t ∧ |toReal t - 1 / 3| ≤ 1 / 10 ^ 7) (h0 : 0 ≤ toReal x') (h1 : toReal x' ≤ 1 / 2) :
    Finite (mul (mul x' x') t) ∧ |toReal (mul (mul x' x') t) - (toReal x') ^ 2 / 3| ≤ 1 / 10 ^ 6 := by
  have hu' : u = 1 / 16777216 := u_val
  have he' : eta ≤ 1 / 10 ^ 40 := eta_le
  set X := toReal x'
  have hXabs : |X| ≤ 1 / 2 := by rw [abs_of_nonneg h0]; exact h1
  obtain ⟨hpb, hpe⟩ := mul_bnd x' x' (1 / 2) (1 / 2) ⟨hx, hXabs⟩ ⟨hx, hXabs⟩ (fit_small _ (by norm_num))
  obtain ⟨t1, t2⟩ := abs_le.mp ht.2
  have htabs : |toReal t| ≤ 1 / 2 := by rw [abs_le]; constructor <;> linarith
  obtain ⟨hrb, hre⟩ := mul_bnd (mul x' x') t _ (1 / 2) hpb ⟨ht.1, htabs⟩ (fit_small _ (by rw [hu']; nlinarith))
  refine ⟨hrb.1, ?_⟩
  set p := toReal (mul x' x')
  set tv := toReal t
  have e : toReal (mul (mul x' x') t) - X ^ 2 / 3 = (toReal (mul (mul x' x') t) - p * tv) + (p - X * X) * tv + X * X * (tv - 1 / 3) := by ring
  rw [e]
  refine le_trans (abs_add_three _ _ _) ?_
  rw [abs_mul (p - X * X), abs_mul (X * X)]
  have hXX : |X * X| ≤ 1 / 4 := by rw [abs_mul]; nlinarith [abs_nonneg X]
  have h2 : |p - X * X| * |tv| ≤ (u * (1 / 2 * (1 / 2)) + eta) * (1 / 2) := mul_le_mul hpe htabs (abs_nonneg _) (by nlinarith [u_pos, eta_pos])
  have h3 : |X * X| * |tv - 1 / 3| ≤ (1 / 4) * (1 / 10 ^ 7) := mul_le_mul hXX ht.2 (abs_nonneg _) (by norm_num)
  rw [hu'] at hre h2
  nlinarith

/-- the last two operations of the exponential branch: `(e + b) / 12` -/
theorem hlg_tail (e hb c12 : Nat) (dv : ℝ) (he2 : Finite e) (he3 : |toReal e - Real.exp dv| ≤ (1 / 10 ^ 5) * Real.exp dv) (hdv3 : |dv| ≤ 3)
    (fb : Finite hb) (hbabs : |toReal hb| ≤ 1) (f12 : Finite c12) (v12 : toReal c12 = 12) :
    Finite (div (add e hb) c12) ∧ |toReal (add e hb) - (toReal e + toReal hb)| ≤ 2 / 10 ^ 6 ∧
      |toReal (div (add e hb) c12) - toReal (add e hb) / 12| ≤ 1 / 10 ^ 6 := by
  have hu' : u = 1 / 16777216 := u_val
  have he' : eta ≤ 1 / 10 ^ 40 := eta_le
  have hud := ud_le
  have hudpos := ud_pos
  have hexp20 : Real.exp dv ≤ 21 := by
    have h1' : Real.exp dv ≤ Real.exp 3 := Real.exp_le_exp.mpr (abs_le.mp hdv3).2
    have h3' := Real.exp_one_lt_d9
    have e3 : Real.exp (3:ℝ) = Real.exp 1 ^ (3:ℕ) := by rw [← Real.exp_nat_mul]; norm_num
    have hp : 0 < Real.exp 1 := Real.exp_pos 1
    have : Real.exp 1 ^ 3 ≤ 2.7182818286 ^ 3 := pow_le_pow_left₀ hp.le h3'.le 3
    rw [e3] at h1'; nlinarith
  have hexppos := Real.exp_pos dv
  have heabs : |toReal e| ≤ 22 := by
    have := abs_sub_abs_le_abs_sub (toReal e) (Real.exp dv)
    rw [abs_of_pos hexppos] at this
    have h5 : (1 / 10 ^ 5) * Real.exp dv ≤ (1 / 10 ^ 5) * 21 := mul_le_mul_of_nonneg_left hexp20 (by norm_num)
    linarith
  obtain ⟨hab, hae⟩ := add_bnd e hb 22 1 ⟨he2, heabs⟩ ⟨fb, hbabs⟩ (fit_small _ (by norm_num))
  have hadd6 : |toReal (add e hb) - (toReal e + toReal hb)| ≤ 2 / 10 ^ 6 := by
    refine le_trans hae ?_; rw [hu']; norm_num; linarith
  have h12abs : (12:ℝ) ≤ |toReal c12| := by rw [v12, abs_of_pos (by norm_num)]
  have hmag : ((22 + 1) * (1 + u) + eta) ≤ (24:ℝ) := by rw [hu']; linarith
  obtain ⟨hrb, hre⟩ := div_bnd (add e hb) c12 24 12 ⟨hab.1, le_trans hab.2 hmag⟩ f12 (by norm_num) h12abs
    (le_trans (by norm_num : (24:ℝ) / 12 ≤ 100) (by norm_num))
  rw [v12] at hre
  refine ⟨hrb.1, hadd6, le_trans hre ?_⟩
  have : ud * (24 / 12) ≤ (1 / 10 ^ 7) * (24 / 12) := mul_le_mul_of_nonneg_right hud (by norm_num)
  linarith

/-- what the HLG inverse OETF needs from `expf`: relative accuracy 1e-5 on `[-85, 85]` -/
def ExpOracle (B : Build) : Prop :=
  ∀ d : Nat, Finite d → |toReal d| ≤ 85 → ∃ e, expf B d = .ok e ∧ Finite e ∧ |toReal e - Real.exp (toReal d)| ≤ (1 / 10 ^ 5) * Real.exp (toReal d)

theorem fast_oracle_exp (B : Build) (hB : B.fastmath = true) : ExpOracle B := by
  intro d hd hD
  have hpe : expf B d = expfFast B.fma d := by unfold expf; rw [if_pos hB]
  obtain ⟨e, he1, he2, he3⟩ := Expf.expf_close B.fma d hd hD
  exact ⟨e, by rw [hpe]; exact he1, he2, he3⟩

theorem hlg_to_linear_o (B : Build) (ho : ExpOracle B) : CurveWithinB (arib_b67_inverse_oetf B) hlgInvSpec (3 / 10 ^ 5) := by
  obtain ⟨z1, z2, h1c, h2c, t1, t2, w1, w2, a1, a2, b1, b2, c1, c2, c3⟩ := cert_hlg
  have hu' : u = 1 / 16777216 := u_val
  have he' : eta ≤ 1 / 10 ^ 40 := eta_le
  have hud := ud_le
  have hudpos := ud_pos
  intro x hxw hx h0 h1
  obtain ⟨fz, vz⟩ := zero_of _ z1 z2
  obtain ⟨hm1, hm2⟩ := max_val x C.arib_b67_inverse_oetf_f0 hx fz
  have hxf : Finite (F32.max x C.arib_b67_inverse_oetf_f0) := by rcases hm1 with e | e <;> rw [e] <;> assumption
  have hxv : toReal (F32.max x C.arib_b67_inverse_oetf_f0) = toReal x := by rw [hm2, vz]; exact max_eq_left h0
  obtain ⟨fh, vh⟩ := val_of _ _ h1c h2c
  unfold arib_b67_inverse_oetf
  dsimp only
  set x' := F32.max x C.arib_b67_inverse_oetf_f0 with hx'
  set X := toReal x with hX
  by_cases hle : le x' C.arib_b67_inverse_oetf_f1 = true
  · rw [if_pos hle]
    have hXle : X ≤ 1 / 2 := by
      have := (le_iff x' _ hxf fh).mp hle
      rw [hxv, vh] at this; push_cast at this; linarith
    obtain ⟨ft, vt⟩ := near_of' _ _ _ t1 t2
    obtain ⟨hr1, hr2⟩ := hlg_low x' _ hxf ⟨ft, by push_cast at vt; exact vt⟩ (by rw [hxv]; exact h0) (by rw [hxv]; exact hXle)
    refine ⟨_, rfl, hr1, ?_⟩
    rw [hxv] at hr2
    unfold hlgInvSpec
    rw [if_pos hXle]
    refine le_trans hr2 ?_; norm_num
  · rw [if_neg hle]
    have hXgt : 1 / 2 < X := by
      by_contra hc
      have hc' := not_lt.mp hc
      apply hle
      rw [le_iff x' _ hxf fh, hxv, vh]; push_cast; linarith
    obtain ⟨fa, va⟩ := near_of' _ _ _ a1 a2
    obtain ⟨fb, vb⟩ := near_of' _ _ _ b1 b2
    obtain ⟨fc, vc⟩ := near_of' _ _ _ c1 c2
    push_cast at va vb vc
    have va' : |toReal HA - 0.17883277| ≤ 1 / 10 ^ 8 := by norm_num at va ⊢; exact va
    have vb' : |toReal HB - 0.28466892| ≤ 2 / 10 ^ 8 := by norm_num at vb ⊢; exact vb
    have vc' : |toReal HC - 0.55991073| ≤ 4 / 10 ^ 8 := by norm_num at vc ⊢; exact vc
    obtain ⟨a1', a2'⟩ := abs_le.mp va'
    obtain ⟨b1', b2'⟩ := abs_le.mp vb'
    obtain ⟨c1', c2'⟩ := abs_le.mp vc'
    -- s = x - c
    obtain ⟨hsf, hse⟩ := sub_val x' HC c3 hxf fc (by rw [hxv]; apply fit_small; rw [abs_le]; constructor <;> linarith)
    rw [hxv] at hse
    set sv := toReal (sub x' HC) with hsv
    have hXc : |X - toReal HC| ≤ 1 / 2 := by rw [abs_le]; constructor <;> linarith
    have hs7 : |sv - (X - toReal HC)| ≤ 1 / 10 ^ 7 := by rw [hu'] at hse; nlinarith
    have hsabs : |sv| ≤ 1 / 2 + 1 / 10 ^ 7 := by
      have := abs_sub_abs_le_abs_sub sv (X - toReal HC); linarith
    -- d = s / a
    have haabs : (17 / 100 : ℝ) ≤ |toReal HA| := by rw [abs_of_pos (by linarith)]; linarith
    obtain ⟨hdb, hde⟩ := div_bnd (sub x' HC) HA (1 / 2 + 1 / 10 ^ 7) (17 / 100) ⟨hsf, hsabs⟩ fa (by norm_num) haabs
      (le_trans (by norm_num : (1 / 2 + 1 / 10 ^ 7 : ℝ) / (17 / 100) ≤ 100) (by norm_num))
    set dv := toReal (div (sub x' HC) HA) with hdv
    have hd6 : |dv - sv / toReal HA| ≤ 1 / 10 ^ 6 := by refine le_trans hde ?_; nlinarith
    have hdabs : |dv| ≤ 85 := by refine le_trans hdb.2 ?_; nlinarith
    -- e = expf d
    obtain ⟨e, he1, he2, he3⟩ := ho _ hdb.1 hdabs
    rw [he1]
    simp only [Out.bind]
    have hdv3 : |dv| ≤ 3 := by refine le_trans hdb.2 ?_; nlinarith
    have hbabs : |toReal HB| ≤ 1 := by rw [abs_le]; constructor <;> linarith
    obtain ⟨f12, v12⟩ := val_of _ _ w1 w2
    obtain ⟨hrf, hadd6, hr6⟩ := hlg_tail e HB C.arib_b67_inverse_oetf_f4 dv he2 he3 hdv3 fb hbabs f12 (by rw [v12]; norm_num)
    refine ⟨_, rfl, hrf, ?_⟩
    have := hlg_real X (toReal HC) (toReal HA) (toReal HB) sv dv (toReal e) _ _ hXgt.le h1 vc' va' vb' hs7 hd6 he3 hadd6 hr6
    unfold hlgInvSpec
    rw [if_neg (by linarith)]
    exact this

theorem hlg_to_linear (B : Build) (hB : B.fastmath = true) : CurveWithinF (arib_b67_inverse_oetf B) hlgInvSpec := by
  intro x hxw hx h0 h1
  obtain ⟨r, h2, h3, h4⟩ := hlg_to_linear_o B (fast_oracle_exp B hB) x hxw hx h0 h1
  exact ⟨r, h2, h3, lt_of_le_of_lt h4 (by norm_num)⟩

/-- **C03, HLG gamma -> linear through the dispatch** -/
theorem hlg_to_linear_curve (B : Build) (hB : B.fastmath = true) : ∃ f, toLinearFn B .HybridLogGamma = .ok f ∧ CurveWithinF f hlgInvSpec :=
  ⟨_, rfl, hlg_to_linear B hB⟩

end C03
