import Model.Types
import Check.Grey
/-! C06 — primaries conversion: exact clause (identical source and target primaries leave the data bit-exactly unchanged,
for every image) and evaluated checks on the 22 conversion matrices of the model (white maps to white within 1e-5,
there-and-back matrix product within 1e-5 of the identity on the unit white vector). The accuracy clause against the
exact CIE derivation over all pixels of [-0.5,2]^3 is checked by correspondence + the f64 oracle, not proved. -/
namespace C06
open PixelM Api Mat32 ColorM

/-- identical source and target primaries: `transform_primaries` returns its input unchanged (every image, every value of the enum) -/
theorem same_primaries (B : Build) (d : Array V3) (p : CP) : transformPrimaries B d p p = .ok d := by
  have hid : applyPrim B.fma none = id := by funext q; rfl
  simp [transformPrimaries, primariesMatrix, hid]

def prims11 : List CP := [.BT709, .BT470M, .BT470BG, .ST170M, .ST240M, .Film, .BT2020, .ST428, .P3DCI, .P3Display, .Tech3213]
def oneF : Nat := 0x3f800000

/-- white (1,1,1) maps to (1,1,1) within 1e-5 in both directions, and converting white there and back returns it within 1e-5 -/
def whiteOk (fm : Bool) (p : CP) : Bool :=
  match primariesMatrix fm p .BT709, primariesMatrix fm .BT709 p with
  | .ok a, .ok b =>
    let w : V3 := ⟨oneF, oneF, oneF⟩
    let wa := applyPrim fm a w; let wb := applyPrim fm b w
    let back := applyPrim fm b wa
    [wa.x, wa.y, wa.z, wb.x, wb.y, wb.z, back.x, back.y, back.z].all fun c => CheckGrey.absDiffLe c oneF 1 100000
  | _, _ => false

theorem white_to_white : ∀ fm : Bool, ∀ p ∈ prims11, whiteOk fm p = true := by
  intro fm; cases fm <;> native_decide

end C06
