import Model.Types
import Check.Grey
import Props.C01
import Props.C06.P_false_to
import Props.C06.P_false_from
import Props.C06.P_true_to
import Props.C06.P_true_from
/-! C06 — primaries conversion: exact clause (identical source and target primaries leave the data bit-exactly unchanged,
for every image) and evaluated checks on the 22 conversion matrices of the model (white maps to white within 1e-5,
there-and-back matrix product within 1e-5 of the identity on the unit white vector). The accuracy clause against the
exact CIE derivation over all pixels of [-0.5,2]^3 is checked by correspondence + the f64 oracle, not proved. -/
namespace C06
open PixelM Api Mat32 ColorM

/-- identical source and target primaries: `transform_primaries` returns its input unchanged (every image, every value of the enum) -/
theorem same_primaries (B : Build) (d : Array V3) (p : CP) : transformPrimaries B d p p = .ok d := by
  have hid : applyPrim B.fma none = id := by funext q; rfl
  simp [transformPrimaries, primariesMatrix, hid]

def prims11 : List CP := [.BT709, .BT470M, .BT470BG, .ST170M, .ST240M, .Film, .BT2020, .ST428, .P3DCI, .P3Display, .Tech3213]
def oneF : Nat := 0x3f800000

/-- white (1,1,1) maps to (1,1,1) within 1e-5 in both directions, and converting white there and back returns it within 1e-5 -/
def whiteOk (fm : Bool) (p : CP) : Bool :=
  match primariesMatrix fm p .BT709, primariesMatrix fm .BT709 p with
  | .ok a, .ok b =>
    let w : V3 := ⟨oneF, oneF, oneF⟩
    let wa := applyPrim fm a w; let wb := applyPrim fm b w
    let back := applyPrim fm b wa
    [wa.x, wa.y, wa.z, wb.x, wb.y, wb.z, back.x, back.y, back.z].all fun c => CheckGrey.absDiffLe c oneF 1 100000
  | _, _ => false

theorem white_to_white : ∀ fm : Bool, ∀ p ∈ prims11, whiteOk fm p = true := by
  intro fm; cases fm <;> native_decide


/-! ### accuracy against the exact CIE derivation, for every pixel of [-2, 2]^3 -/
open F32 CheckDecode CheckPrim Real C01

theorem entry_factsP (a : Nat) (q : Q) (h : entryOkP 12 10000000 a q = true) :
    Finite a ∧ |toReal a - qR q| ≤ 12 / 10000000 := by
  unfold entryOkP at h
  simp only [Bool.and_eq_true, decide_eq_true_eq] at h
  obtain ⟨⟨h1, h2⟩, _⟩ := h
  obtain ⟨hf, hv⟩ := ratDiffLe_sound a q.num q.den 12 10000000 h2 (by norm_num) h1
  exact ⟨hf, by unfold qR; simpa using hv⟩

theorem den_of_entry (a : Nat) (q : Q) (h : entryOkP 12 10000000 a q = true) : 0 < q.den := by
  unfold entryOkP at h; simp only [Bool.and_eq_true, decide_eq_true_eq] at h; exact h.1.2

theorem absSum_facts (q : QV) (ha : 0 < q.x.den) (hb : 0 < q.y.den) (hc : 0 < q.z.den) (h : absSumOk q = true) :
    |qR q.x| + |qR q.y| + |qR q.z| ≤ 27 / 5 := by
  unfold absSumOk at h
  have h' := of_decide_eq_true h
  have hr : ((5 * (q.x.num.natAbs * q.y.den * q.z.den + q.y.num.natAbs * q.x.den * q.z.den + q.z.num.natAbs * q.x.den * q.y.den) : ℕ) : ℝ)
      ≤ ((27 * (q.x.den * q.y.den * q.z.den) : ℕ) : ℝ) := by exact_mod_cast h'
  push_cast at hr
  rw [natAbs_cast, natAbs_cast, natAbs_cast] at hr
  have a0 : (0:ℝ) < q.x.den := by exact_mod_cast ha
  have b0 : (0:ℝ) < q.y.den := by exact_mod_cast hb
  have c0 : (0:ℝ) < q.z.den := by exact_mod_cast hc
  unfold qR
  rw [abs_div, abs_div, abs_div, abs_of_pos a0, abs_of_pos b0, abs_of_pos c0]
  rw [div_add_div _ _ (ne_of_gt a0) (ne_of_gt b0), div_add_div _ _ (ne_of_gt (mul_pos a0 b0)) (ne_of_gt c0), div_le_iff₀ (mul_pos (mul_pos a0 b0) c0)]
  nlinarith

theorem rowSum_facts (q : QV) (ha : 0 < q.x.den) (hb : 0 < q.y.den) (hc : 0 < q.z.den) (h : rowSumOne q = true) :
    qR q.x + qR q.y + qR q.z = 1 := by
  unfold rowSumOne at h
  simp only [Bool.and_eq_true, decide_eq_true_eq] at h
  have a0 : (q.x.den:ℝ) ≠ 0 := by exact_mod_cast (Nat.pos_iff_ne_zero.mp ha)
  have b0 : (q.y.den:ℝ) ≠ 0 := by exact_mod_cast (Nat.pos_iff_ne_zero.mp hb)
  have c0 : (q.z.den:ℝ) ≠ 0 := by exact_mod_cast (Nat.pos_iff_ne_zero.mp hc)
  have hn := congrArg (fun z : ℤ => (z:ℝ)) h.1
  simp only [Q.add] at hn
  push_cast at hn
  unfold qR
  field_simp
  linarith

/-- one row of a checked conversion matrix applied to a finite pixel of [-2,2]^3 -/
theorem row_prim (fm : Bool) (r : V3) (q : QV) (p : V3) (h1 : entryOkP 12 10000000 r.x q.x = true) (h2 : entryOkP 12 10000000 r.y q.y = true)
    (h3 : entryOkP 12 10000000 r.z q.z = true) (hs : absSumOk q = true)
    (hx : Bnd p.x 2) (hy : Bnd p.y 2) (hz : Bnd p.z 2) :
    Finite (rowDot fm r p) ∧ |toReal (rowDot fm r p) - (qR q.x * toReal p.x + (qR q.y * toReal p.y + qR q.z * toReal p.z))| ≤ 1 / 100000 := by
  obtain ⟨fa, ea⟩ := entry_factsP r.x q.x h1
  obtain ⟨fb, eb⟩ := entry_factsP r.y q.y h2
  obtain ⟨fc, ec⟩ := entry_factsP r.z q.z h3
  have hsum := absSum_facts q (den_of_entry _ _ h1) (den_of_entry _ _ h2) (den_of_entry _ _ h3) hs
  set A := |qR q.x| + 12 / 10000000 with hA
  set B := |qR q.y| + 12 / 10000000 with hB
  set Cc := |qR q.z| + 12 / 10000000 with hC
  have bA : Bnd r.x A := ⟨fa, by have := abs_sub_abs_le_abs_sub (toReal r.x) (qR q.x); linarith⟩
  have bB : Bnd r.y B := ⟨fb, by have := abs_sub_abs_le_abs_sub (toReal r.y) (qR q.y); linarith⟩
  have bC : Bnd r.z Cc := ⟨fc, by have := abs_sub_abs_le_abs_sub (toReal r.z) (qR q.z); linarith⟩
  have hA0 : 0 ≤ A := by positivity
  have hB0 : 0 ≤ B := by positivity
  have hC0 : 0 ≤ Cc := by positivity
  have hqa0 := abs_nonneg (qR q.x); have hqb0 := abs_nonneg (qR q.y); have hqc0 := abs_nonneg (qR q.z)
  have hABC : A + B + Cc ≤ 27 / 5 + 36 / 10000000 := by linarith
  have hsm : A * 2 ≤ 1000 ∧ B * 2 ≤ 1000 ∧ Cc * 2 ≤ 1000 := by refine ⟨?_, ?_, ?_⟩ <;> nlinarith
  have hspec : |(toReal r.x * toReal p.x + (toReal r.y * toReal p.y + toReal r.z * toReal p.z)) -
      (qR q.x * toReal p.x + (qR q.y * toReal p.y + qR q.z * toReal p.z))| ≤ 72 / 10000000 := by
    have : (toReal r.x * toReal p.x + (toReal r.y * toReal p.y + toReal r.z * toReal p.z)) -
        (qR q.x * toReal p.x + (qR q.y * toReal p.y + qR q.z * toReal p.z)) =
        (toReal r.x - qR q.x) * toReal p.x + ((toReal r.y - qR q.y) * toReal p.y + (toReal r.z - qR q.z) * toReal p.z) := by ring
    rw [this]
    have t1 : |(toReal r.x - qR q.x) * toReal p.x| ≤ 12 / 10000000 * 2 := by rw [abs_mul]; exact mul_le_mul ea hx.2 (abs_nonneg _) (by norm_num)
    have t2 : |(toReal r.y - qR q.y) * toReal p.y| ≤ 12 / 10000000 * 2 := by rw [abs_mul]; exact mul_le_mul eb hy.2 (abs_nonneg _) (by norm_num)
    have t3 : |(toReal r.z - qR q.z) * toReal p.z| ≤ 12 / 10000000 * 2 := by rw [abs_mul]; exact mul_le_mul ec hz.2 (abs_nonneg _) (by norm_num)
    have := abs_add_le ((toReal r.x - qR q.x) * toReal p.x) ((toReal r.y - qR q.y) * toReal p.y + (toReal r.z - qR q.z) * toReal p.z)
    have := abs_add_le ((toReal r.y - qR q.y) * toReal p.y) ((toReal r.z - qR q.z) * toReal p.z)
    linarith
  have hu1 : u = 1 / 16777216 := u_val
  have he1 := eta_le
  have he0 := eta_pos
  cases fm
  · obtain ⟨b5, e5⟩ := dot3_nofma r.x p.x r.y p.y r.z p.z A 2 B 2 Cc 2 bA hx bB hy bC hz hsm
    have hE : E5 A 2 B 2 Cc 2 ≤ 27 / 10000000 := by
      unfold E5 T3 T1; rw [hu1]; nlinarith [he1, he0]
    refine ⟨b5.1, ?_⟩
    show |toReal (F32.add (F32.mul r.x p.x) (F32.add (F32.mul r.y p.y) (F32.mul r.z p.z))) - _| ≤ _
    rw [abs_le] at e5 hspec ⊢
    constructor <;> linarith [e5.1, e5.2, hspec.1, hspec.2]
  · obtain ⟨b3, e3⟩ := dot3_fma r.x p.x r.y p.y r.z p.z A 2 B 2 Cc 2 bA hx bB hy bC hz hsm
    have hE : EF A 2 B 2 Cc 2 ≤ 27 / 10000000 := by
      unfold EF F2 T1; rw [hu1]; nlinarith [he1, he0]
    refine ⟨b3.1, ?_⟩
    show |toReal (F32.fma r.x p.x (F32.fma r.y p.y (F32.mul r.z p.z))) - _| ≤ _
    rw [abs_le] at e3 hspec ⊢
    constructor <;> linarith [e3.1, e3.2, hspec.1, hspec.2]

theorem prim_all (fm : Bool) (p : CP) (hp : p ∈ prims10) : primOk fm p .BT709 = true ∧ primOk fm .BT709 p = true := by
  cases fm
  · exact ⟨prim_false_to p hp, prim_false_from p hp⟩
  · exact ⟨prim_true_to p hp, prim_true_from p hp⟩

/-- **C06 accuracy**: for each of the 10 supported non-709 primaries, either direction, both FMA modes and EVERY finite pixel with
components of magnitude at most 2 (in particular [-1/2, 2]^3): each output component is within 1e-5 of the exact
`M_out^-1 * Bradford * M_in` (rational arithmetic from the H.273 chromaticities) applied to the pixel; the exact matrix has
row sums 1, so white maps to white and greys to greys. -/
theorem prim_close (fm : Bool) (p : CP) (hp : p ∈ prims10) (to709 : Bool) (px : V3) (hx : Bnd px.x 2) (hy : Bnd px.y 2) (hz : Bnd px.z 2) :
    ∃ t s, primariesMatrix fm (if to709 then p else .BT709) (if to709 then .BT709 else p) = .ok (some t) ∧
      primSpec (if to709 then p else .BT709) (if to709 then .BT709 else p) = some s ∧
      (let o := M3.mulArr fm t px
       let d (q : QV) : ℝ := qR q.x * toReal px.x + (qR q.y * toReal px.y + qR q.z * toReal px.z)
       (Finite o.x ∧ |toReal o.x - d s.r1| ≤ 1 / 100000) ∧ (Finite o.y ∧ |toReal o.y - d s.r2| ≤ 1 / 100000) ∧
       (Finite o.z ∧ |toReal o.z - d s.r3| ≤ 1 / 100000)) ∧
      (qR s.r1.x + qR s.r1.y + qR s.r1.z = 1 ∧ qR s.r2.x + qR s.r2.y + qR s.r2.z = 1 ∧ qR s.r3.x + qR s.r3.y + qR s.r3.z = 1) := by
  have hall := prim_all fm p hp
  have hk : primOk fm (if to709 then p else .BT709) (if to709 then .BT709 else p) = true := by cases to709; exact hall.2; exact hall.1
  unfold primOk primOkT at hk
  split at hk
  · rename_i t s ht hs
    simp only [Bool.and_eq_true] at hk
    obtain ⟨⟨⟨⟨⟨⟨⟨⟨r1, r2⟩, r3⟩, s1⟩, s2⟩, s3⟩, a1⟩, a2⟩, a3⟩ := hk
    unfold rowOkP at r1 r2 r3
    simp only [Bool.and_eq_true] at r1 r2 r3
    refine ⟨t, s, ht, hs, ?_, ?_⟩
    · dsimp only
      rw [mulArr_rows]
      exact ⟨row_prim fm t.r1 s.r1 px r1.1.1 r1.1.2 r1.2 a1 hx hy hz, row_prim fm t.r2 s.r2 px r2.1.1 r2.1.2 r2.2 a2 hx hy hz,
             row_prim fm t.r3 s.r3 px r3.1.1 r3.1.2 r3.2 a3 hx hy hz⟩
    · exact ⟨rowSum_facts s.r1 (den_of_entry _ _ r1.1.1) (den_of_entry _ _ r1.1.2) (den_of_entry _ _ r1.2) s1,
             rowSum_facts s.r2 (den_of_entry _ _ r2.1.1) (den_of_entry _ _ r2.1.2) (den_of_entry _ _ r2.2) s2,
             rowSum_facts s.r3 (den_of_entry _ _ r3.1.1) (den_of_entry _ _ r3.1.2) (den_of_entry _ _ r3.2) s3⟩
  · simp at hk

end C06
