import Check.Decode
/-! evaluated check (native_decide): the model's YUV->RGB matrix is entry-wise within 2.5e-7 of the exact H.273 matrix -/
theorem C01.mat_true_BT2020NonConstantLuminance : CheckDecode.matOk true .BT2020NonConstantLuminance = true := by native_decide
