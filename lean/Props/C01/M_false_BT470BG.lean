import Check.Decode
/-! evaluated check (native_decide): the model's YUV->RGB matrix is entry-wise within 2.5e-7 of the exact H.273 matrix -/
theorem C01.mat_false_BT470BG : CheckDecode.matOk false .BT470BG = true := by native_decide
