import Check.Decode
/-! evaluated check (native_decide): every code of this depth normalises within 2e-7 of the H.273 formula, both ranges, luma and chroma -/
theorem C01.norm_14 : CheckDecode.allNormOk 14 = true := by native_decide
