import Check.Prim
/-! evaluated check (native_decide): the 10 conversion matrices of this direction are entry-wise within 1.2e-6 of the exact CIE derivation; exact rows sum to 1 and have absolute sum <= 27/5 -/
theorem C06.prim_true_from : ∀ p ∈ CheckPrim.prims10, CheckPrim.primOk true .BT709 p = true := by native_decide
