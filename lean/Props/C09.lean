import Props.C15
import Proofs.EncodeTop
/-! C09 — YUV->XYB->YUV: the shape clause (width, height, plane sizes and config are preserved, for every image, config
and build). The numeric budget max(1, 0.015*(2^n-1)) is NOT proved (partial): it is checked by the correspondence
(model = code bit for bit on in-gamut codes through the whole chain) and by the oracle over configurations x in-gamut images. -/
namespace C09
open FrameM FrameP Api Mat32 ColorM

theorem yuvToRgb_dims (B : Build) (g : Yuv) (r : Rgb) (h : yuvToRgb B g = .ok (.ok r)) :
    r.w = g.y.cfg.width ∧ r.h = g.y.cfg.height ∧ r.transfer = g.cfg.transfer ∧ r.primaries = g.cfg.primaries := by
  unfold yuvToRgb at h
  split at h
  · simp at h
  · cases hd : ycbcrToYpbpr g <;> simp [hd, Out.bind] at h
    subst h; exact ⟨rfl, rfl, rfl, rfl⟩

theorem rgbToLinear_dims (B : Build) (rgb : Rgb) (l : FImg) (h : rgbToLinear B rgb = .ok (.ok l)) : l.w = rgb.w ∧ l.h = rgb.h := by
  unfold rgbToLinear at h
  cases ht : toLinearImg B rgb.transfer rgb.data <;> simp [ht, Out.bind] at h
  rename_i r
  cases r <;> simp at h
  split at h <;> simp at h
  subst h; exact ⟨rfl, rfl⟩

theorem linearToRgb_dims (B : Build) (l : FImg) (t : TC) (p : CP) (r : Rgb) (h : linearToRgb B l t p = .ok (.ok r)) : r.w = l.w ∧ r.h = l.h := by
  unfold linearToRgb at h
  dsimp only at h
  split at h
  · simp at h
  · split at h
    · simp at h
    · rename_i d _
      cases hg : toGammaImg B (if t = TC.Unspecified then TC.SRGB else t) d <;> simp [hg, Out.bind] at h
      rename_i rr
      cases rr <;> simp at h
      subst h; exact ⟨rfl, rfl⟩

theorem rgbToYuv_dims (B : Build) (rgb : Rgb) (cfg : Cfg) (ts : Nat) (y : Yuv) (h : rgbToYuv B rgb cfg ts = .ok (.ok y)) :
    y.y.cfg.width = rgb.w ∧ y.y.cfg.height = rgb.h ∧ y.u.cfg.width = rgb.w >>> cfg.ssx ∧ y.u.cfg.height = rgb.h >>> cfg.ssy ∧
    y.v.cfg.width = rgb.w >>> cfg.ssx ∧ y.v.cfg.height = rgb.h >>> cfg.ssy ∧ y.cfg = cfg.fixUnspecified rgb.w rgb.h := by
  have hc := C15.rgbToYuv_config B rgb cfg ts y h
  unfold rgbToYuv at h
  split at h
  · simp at h
  · rename_i t _
    cases hy : ypbprToYcbcr (Array.map (M3.mulArr B.fma t) rgb.data) rgb.w rgb.h cfg ts <;> simp [hy, Out.bind] at h
    subst h
    have hd := ypbpr_dims _ _ _ _ _ _ hy
    refine ⟨hd.1, hd.2.1, hd.2.2.1, hd.2.2.2.1, hd.2.2.2.2.1, hd.2.2.2.2.2, ?_⟩
    rw [hc, hd.1, hd.2.1]

/-- converting a constructed YUV image to XYB and back with its own config preserves width, height, the plane sizes and the
config (a constructed image's config is already resolved, and resolution is idempotent) -/
theorem roundtrip_shape (B : Build) (g : Yuv) (hres : g.cfg = g.cfg.fixUnspecified g.y.cfg.width g.y.cfg.height)
    (x : FImg) (hx : yuvToXyb B g = .ok (.ok x)) (g' : Yuv) (hg' : xybToYuv B x g.cfg g.ts = .ok (.ok g')) :
    x.w = g.y.cfg.width ∧ x.h = g.y.cfg.height ∧ g'.cfg = g.cfg ∧ g'.y.cfg.width = g.y.cfg.width ∧ g'.y.cfg.height = g.y.cfg.height ∧
    g'.u.cfg.width = g.y.cfg.width >>> g.cfg.ssx ∧ g'.u.cfg.height = g.y.cfg.height >>> g.cfg.ssy := by
  -- forward
  unfold yuvToXyb bindRes at hx
  cases h1 : yuvToRgb B g <;> simp [h1, Out.bind] at hx
  rename_i r1; cases r1 <;> simp at hx
  rename_i rgb
  unfold rgbToXyb bindRes at hx
  cases h2 : rgbToLinear B rgb <;> simp [h2, Out.bind] at hx
  rename_i r2; cases r2 <;> simp at hx
  rename_i lin
  subst hx
  have d1 := yuvToRgb_dims B g rgb h1
  have d2 := rgbToLinear_dims B rgb lin h2
  have hxw : (linearToXyb B lin).w = g.y.cfg.width := by show lin.w = _; rw [d2.1, d1.1]
  have hxh : (linearToXyb B lin).h = g.y.cfg.height := by show lin.h = _; rw [d2.2, d1.2.1]
  -- backward
  unfold xybToYuv linearToYuv bindRes at hg'
  dsimp only at hg'
  cases h3 : linearToRgb B (xybToLinear B (linearToXyb B lin)) (g.cfg.fixUnspecified (xybToLinear B (linearToXyb B lin)).w (xybToLinear B (linearToXyb B lin)).h).transfer
      (g.cfg.fixUnspecified (xybToLinear B (linearToXyb B lin)).w (xybToLinear B (linearToXyb B lin)).h).primaries <;> simp [h3, Out.bind] at hg'
  rename_i r3; cases r3 <;> simp at hg'
  rename_i rgb2
  have d3 := linearToRgb_dims B _ _ _ rgb2 h3
  have d4 := rgbToYuv_dims B rgb2 g.cfg g.ts g' hg'
  have hw2 : rgb2.w = g.y.cfg.width := by rw [d3.1]; show lin.w = _; rw [d2.1, d1.1]
  have hh2 : rgb2.h = g.y.cfg.height := by rw [d3.2]; show lin.h = _; rw [d2.2, d1.2.1]
  refine ⟨hxw, hxh, ?_, by rw [d4.1, hw2], by rw [d4.2.1, hh2], by rw [d4.2.2.1, hw2], by rw [d4.2.2.2.1, hh2]⟩
  rw [d4.2.2.2.2.2.2, hw2, hh2, ← hres]

end C09
