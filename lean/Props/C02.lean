import Proofs.RatCheck
import Proofs.F32Round
import Props.C01
import Check.Encode
import Props.C09
import Props.C02.F_false_BT709
import Props.C02.F_false_BT470M
import Props.C02.F_false_BT470BG
import Props.C02.F_false_ST170M
import Props.C02.F_false_ST240M
import Props.C02.F_false_BT2020NonConstantLuminance
import Props.C02.F_false_YCgCo
import Props.C02.F_true_BT709
import Props.C02.F_true_BT470M
import Props.C02.F_true_BT470BG
import Props.C02.F_true_ST170M
import Props.C02.F_true_ST240M
import Props.C02.F_true_BT2020NonConstantLuminance
import Props.C02.F_true_YCgCo
import Props.C02.SO
/-! C02 — RGB->YUV encoding rounds to the nearest code of the H.273 quantisation, for every finite RGB pixel of
[-1/2, 3/2]^3, every standard matrix, both ranges, depths 8..16, both FMA modes.
(N) `fwd_*`: computed forward matrices within 6e-8 of the exact rationals (rows of absolute sum <= 1); `so_all`: scale/offset
exact. (K) rounding analysis of the dot product and the FMA, `round_spec` (round half away + saturating cast), 1-Lipschitz clamp. -/
namespace C02
open F32 Mat32 ColorM CheckDecode CheckEncode Real Quant C01

theorem entry_facts1 (a : Nat) (q : Q) (h : entryOk1 6 100000000 a q = true) :
    Finite a ∧ |toReal a - qR q| ≤ 6 / 100000000 ∧ |qR q| ≤ 1 := by
  unfold entryOk1 at h
  simp only [Bool.and_eq_true, decide_eq_true_eq] at h
  obtain ⟨⟨h1, h2⟩, h3⟩ := h
  obtain ⟨hf, hv⟩ := ratDiffLe_sound a q.num q.den 6 100000000 h2 (by norm_num) h1
  have hq : (0:ℝ) < q.den := by exact_mod_cast h2
  refine ⟨hf, by unfold qR; simpa using hv, ?_⟩
  unfold qR
  rw [abs_div, abs_of_pos hq, div_le_one hq, ← natAbs_cast]
  exact_mod_cast h3

theorem sum_facts (q : Q3) (ha : 0 < q.a.den) (hb : 0 < q.b.den) (hc : 0 < q.c.den) (h : sumOk q = true) :
    |qR q.a| + |qR q.b| + |qR q.c| ≤ 1 := by
  unfold sumOk at h
  have h' := of_decide_eq_true h
  have hr : ((q.a.num.natAbs * q.b.den * q.c.den + q.b.num.natAbs * q.a.den * q.c.den + q.c.num.natAbs * q.a.den * q.b.den : ℕ) : ℝ)
      ≤ ((q.a.den * q.b.den * q.c.den : ℕ) : ℝ) := by exact_mod_cast h'
  push_cast at hr
  rw [natAbs_cast, natAbs_cast, natAbs_cast] at hr
  have a0 : (0:ℝ) < q.a.den := by exact_mod_cast ha
  have b0 : (0:ℝ) < q.b.den := by exact_mod_cast hb
  have c0 : (0:ℝ) < q.c.den := by exact_mod_cast hc
  unfold qR
  rw [abs_div, abs_div, abs_div, abs_of_pos a0, abs_of_pos b0, abs_of_pos c0]
  rw [div_add_div _ _ (ne_of_gt a0) (ne_of_gt b0), div_add_div _ _ (ne_of_gt (mul_pos a0 b0)) (ne_of_gt c0), div_le_one (mul_pos (mul_pos a0 b0) c0)]
  nlinarith

/-- one row of the forward matrix applied to a finite pixel of [-3/2, 3/2]^3: finite, within 5.5e-7 of the exact linear form -/
theorem row_fwd (fm : Bool) (r : V3) (q : Q3) (p : V3) (hr : rowOk1 6 100000000 r q = true)
    (hx : Bnd p.x (3/2)) (hy : Bnd p.y (3/2)) (hz : Bnd p.z (3/2)) :
    Bnd (rowDot fm r p) 1.51 ∧
    |toReal (rowDot fm r p) - (qR q.a * toReal p.x + (qR q.b * toReal p.y + qR q.c * toReal p.z))| ≤ 55 / 100000000 := by
  unfold rowOk1 at hr
  simp only [Bool.and_eq_true] at hr
  obtain ⟨fa, ea, qa⟩ := entry_facts1 r.x q.a hr.1.1.1
  obtain ⟨fb, eb, qb⟩ := entry_facts1 r.y q.b hr.1.1.2
  obtain ⟨fc, ec, qc⟩ := entry_facts1 r.z q.c hr.1.2
  have da : 0 < q.a.den := by have := hr.1.1.1; unfold entryOk1 at this; simp only [Bool.and_eq_true, decide_eq_true_eq] at this; exact this.1.2
  have db : 0 < q.b.den := by have := hr.1.1.2; unfold entryOk1 at this; simp only [Bool.and_eq_true, decide_eq_true_eq] at this; exact this.1.2
  have dc : 0 < q.c.den := by have := hr.1.2; unfold entryOk1 at this; simp only [Bool.and_eq_true, decide_eq_true_eq] at this; exact this.1.2
  have hsum := sum_facts q da db dc hr.2
  -- magnitude bounds of the computed coefficients
  set A := |qR q.a| + 6 / 100000000 with hA
  set B := |qR q.b| + 6 / 100000000 with hB
  set Cc := |qR q.c| + 6 / 100000000 with hC
  have bA : Bnd r.x A := ⟨fa, by have := abs_sub_abs_le_abs_sub (toReal r.x) (qR q.a); linarith⟩
  have bB : Bnd r.y B := ⟨fb, by have := abs_sub_abs_le_abs_sub (toReal r.y) (qR q.b); linarith⟩
  have bC : Bnd r.z Cc := ⟨fc, by have := abs_sub_abs_le_abs_sub (toReal r.z) (qR q.c); linarith⟩
  have hA0 : 0 ≤ A := by positivity
  have hB0 : 0 ≤ B := by positivity
  have hC0 : 0 ≤ Cc := by positivity
  have hABC : A + B + Cc ≤ 1 + 18 / 100000000 := by linarith
  have hsm : A * (3/2) ≤ 1000 ∧ B * (3/2) ≤ 1000 ∧ Cc * (3/2) ≤ 1000 := by refine ⟨?_, ?_, ?_⟩ <;> nlinarith
  have hspec : |(toReal r.x * toReal p.x + (toReal r.y * toReal p.y + toReal r.z * toReal p.z)) -
      (qR q.a * toReal p.x + (qR q.b * toReal p.y + qR q.c * toReal p.z))| ≤ 27 / 100000000 := by
    have : (toReal r.x * toReal p.x + (toReal r.y * toReal p.y + toReal r.z * toReal p.z)) -
        (qR q.a * toReal p.x + (qR q.b * toReal p.y + qR q.c * toReal p.z)) =
        (toReal r.x - qR q.a) * toReal p.x + ((toReal r.y - qR q.b) * toReal p.y + (toReal r.z - qR q.c) * toReal p.z) := by ring
    rw [this]
    have t1 : |(toReal r.x - qR q.a) * toReal p.x| ≤ 6 / 100000000 * (3/2) := by rw [abs_mul]; exact mul_le_mul ea hx.2 (abs_nonneg _) (by norm_num)
    have t2 : |(toReal r.y - qR q.b) * toReal p.y| ≤ 6 / 100000000 * (3/2) := by rw [abs_mul]; exact mul_le_mul eb hy.2 (abs_nonneg _) (by norm_num)
    have t3 : |(toReal r.z - qR q.c) * toReal p.z| ≤ 6 / 100000000 * (3/2) := by rw [abs_mul]; exact mul_le_mul ec hz.2 (abs_nonneg _) (by norm_num)
    have := abs_add_le ((toReal r.x - qR q.a) * toReal p.x) ((toReal r.y - qR q.b) * toReal p.y + (toReal r.z - qR q.c) * toReal p.z)
    have := abs_add_le ((toReal r.y - qR q.b) * toReal p.y) ((toReal r.z - qR q.c) * toReal p.z)
    linarith
  have hu1 : u = 1 / 16777216 := u_val
  have he1 := eta_le
  have he0 := eta_pos
  cases fm
  · obtain ⟨b5, e5⟩ := dot3_nofma r.x p.x r.y p.y r.z p.z A (3/2) B (3/2) Cc (3/2) bA hx bB hy bC hz hsm
    have hE : E5 A (3/2) B (3/2) Cc (3/2) ≤ 28 / 100000000 := by
      unfold E5 T3 T1; rw [hu1]; nlinarith [he1, he0]
    have hT : T5 A (3/2) B (3/2) Cc (3/2) ≤ 1.51 := by
      unfold T5 T3 T1; rw [hu1]; nlinarith [he1, he0]
    refine ⟨⟨b5.1, le_trans b5.2 hT⟩, ?_⟩
    show |toReal (F32.add (F32.mul r.x p.x) (F32.add (F32.mul r.y p.y) (F32.mul r.z p.z))) - _| ≤ _
    rw [abs_le] at e5 hspec ⊢
    constructor <;> linarith [e5.1, e5.2, hspec.1, hspec.2]
  · obtain ⟨b3, e3⟩ := dot3_fma r.x p.x r.y p.y r.z p.z A (3/2) B (3/2) Cc (3/2) bA hx bB hy bC hz hsm
    have hE : EF A (3/2) B (3/2) Cc (3/2) ≤ 28 / 100000000 := by
      unfold EF F2 T1; rw [hu1]; nlinarith [he1, he0]
    have hT : F3 A (3/2) B (3/2) Cc (3/2) ≤ 1.51 := by
      unfold F3 F2 T1; rw [hu1]; nlinarith [he1, he0]
    refine ⟨⟨b3.1, le_trans b3.2 hT⟩, ?_⟩
    show |toReal (F32.fma r.x p.x (F32.fma r.y p.y (F32.mul r.z p.z))) - _| ≤ _
    rw [abs_le] at e3 hspec ⊢
    constructor <;> linarith [e3.1, e3.2, hspec.1, hspec.2]


/-- scale/offset floats that are exactly the integers S, O -/
theorem exact_int (a : Nat) (k : Nat) (h : ratDiffLe a (k:Int) 1 0 1 = true) : Finite a ∧ toReal a = (k:ℝ) := by
  obtain ⟨hf, hv⟩ := ratDiffLe_sound a k 1 0 1 (by norm_num) (by norm_num) h
  refine ⟨hf, ?_⟩
  simp only [Nat.cast_one, div_one, Nat.cast_zero, Int.cast_natCast] at hv
  have := abs_nonneg (toReal a - (k:ℝ))
  have h0 : |toReal a - (k:ℝ)| = 0 := le_antisymm hv this
  have := abs_eq_zero.mp h0
  linarith

/-- quantisation of one plane value: `v` approximates the exact `yx` within 5.5e-7, `s`, `o` are the exact integers `S`, `O`
(both at most `R = 2^bd`): the code is within 1/2 + 1e-6 R of the clamped ideal `S*yx + O` -/
theorem plane_code (v s o : Nat) (yx : ℝ) (S O R : Nat) (hv : Bnd v 1.51) (hvx : |toReal v - yx| ≤ 55 / 100000000)
    (hs : Finite s ∧ toReal s = (S:ℝ)) (ho : Finite o ∧ toReal o = (O:ℝ)) (hS : S ≤ R) (hO : O ≤ R) (hR1 : 256 ≤ R) (hR2 : R ≤ 65536) :
    |((clampNat (toU16Sat (F32.round (F32.fma v s o))) 0 (R - 1) : ℕ) : ℝ) - clampR ((S:ℝ) * yx + (O:ℝ)) 0 ((R - 1 : ℕ) : ℝ)| ≤ 1 / 2 + (R:ℝ) / 1000000 := by
  have hSr : (S:ℝ) ≤ R := by exact_mod_cast hS
  have hOr : (O:ℝ) ≤ R := by exact_mod_cast hO
  have hRr1 : (256:ℝ) ≤ R := by exact_mod_cast hR1
  have hRr2 : (R:ℝ) ≤ 65536 := by exact_mod_cast hR2
  have hS0 : (0:ℝ) ≤ S := by positivity
  have hO0 : (0:ℝ) ≤ O := by positivity
  have bs : Bnd s (S:ℝ) := ⟨hs.1, by rw [hs.2, abs_of_nonneg hS0]⟩
  have bo : Bnd o (O:ℝ) := ⟨ho.1, by rw [ho.2, abs_of_nonneg hO0]⟩
  obtain ⟨bt, et⟩ := fma_bnd v s o 1.51 S O hv bs bo (by
    have : (1.51:ℝ) * S + O ≤ 1.51 * 65536 + 65536 := by nlinarith
    exact lt_of_le_of_lt this (by norm_num))
  rw [hs.2, ho.2] at et
  have hu1 : u = 1 / 16777216 := u_val
  have he1 := eta_le
  have he0 := eta_pos
  have hdelta : |toReal (F32.fma v s o) - ((S:ℝ) * yx + (O:ℝ))| ≤ (R:ℝ) / 1000000 := by
    have h1 : |toReal v * (S:ℝ) + (O:ℝ) - ((S:ℝ) * yx + (O:ℝ))| ≤ (S:ℝ) * (55 / 100000000) := by
      have : toReal v * (S:ℝ) + (O:ℝ) - ((S:ℝ) * yx + (O:ℝ)) = (S:ℝ) * (toReal v - yx) := by ring
      rw [this, abs_mul, abs_of_nonneg hS0]
      exact mul_le_mul_of_nonneg_left hvx hS0
    rw [hu1] at et
    rw [abs_le] at et h1 ⊢
    constructor <;> nlinarith [et.1, et.2, h1.1, h1.2]
  have hmag : |toReal (F32.fma v s o)| < 8388608 := by
    have := bt.2
    rw [hu1] at this
    have : |toReal (F32.fma v s o)| ≤ (1.51 * 65536 + 65536) * (1 + 1 / 16777216) + 1 := by
      refine le_trans this ?_
      nlinarith
    exact lt_of_le_of_lt this (by norm_num)
  have := quant_err (F32.fma v s o) ((S:ℝ) * yx + (O:ℝ)) ((R:ℝ) / 1000000) (R - 1) (by omega) bt.1 hmag hdelta
  exact this


theorem halfc_dec : decode C.from_f32_chroma_f0 = .fin false 8388608 (-24) := by rfl
theorem eps_dec : decode ColorM.EPSILON = .fin false 8388608 (-46) := by rfl

/-- the full-range shortcut `(val + 0.5).abs() < EPSILON => code 0` stays within the budget: the ideal value is then 0.5 +- small -/
theorem chroma_shortcut (v : Nat) (yx : ℝ) (R O : Nat) (hv : Bnd v 1.51) (hvx : |toReal v - yx| ≤ 55 / 100000000)
    (hlt : F32.lt (F32.abs (F32.add v C.from_f32_chroma_f0)) ColorM.EPSILON = true) (hO : 2 * O = R) (hR1 : 256 ≤ R) (hR2 : R ≤ 65536) :
    |((0 : ℕ) : ℝ) - clampR (((R - 1 : ℕ) : ℝ) * yx + (O:ℝ)) 0 ((R - 1 : ℕ) : ℝ)| ≤ 1 / 2 + (R:ℝ) / 1000000 := by
  have fh : Finite C.from_f32_chroma_f0 := ⟨_, _, _, halfc_dec⟩
  have th : toReal C.from_f32_chroma_f0 = 1 / 2 := by rw [toReal_of_decode _ _ _ _ halfc_dec]; unfold valR; norm_num
  have fe : Finite ColorM.EPSILON := ⟨_, _, _, eps_dec⟩
  have te : toReal ColorM.EPSILON = 1 / 8388608 := by rw [toReal_of_decode _ _ _ _ eps_dec]; unfold valR; norm_num
  have bh : Bnd C.from_f32_chroma_f0 (1/2) := ⟨fh, by rw [th]; norm_num⟩
  obtain ⟨ba, ea⟩ := add_bnd v C.from_f32_chroma_f0 1.51 (1/2) hv bh (by norm_num)
  have hwf : WF (F32.add v C.from_f32_chroma_f0) := add_wf _ _
  obtain ⟨fab, tab⟩ := toReal_abs _ hwf ba.1
  have hlt' := (lt_iff _ _ fab fe).mp hlt
  rw [tab, te, th] at *
  have hu1 : u = 1 / 16777216 := u_val
  have he1 := eta_le
  have he0 := eta_pos
  rw [hu1] at ea
  -- |v + 1/2| is tiny, hence |yx + 1/2| is
  have hvh : |toReal v + 1 / 2| ≤ 25 / 100000000 := by
    have := abs_sub_abs_le_abs_sub (toReal v + 1 / 2) (toReal (F32.add v C.from_f32_chroma_f0))
    have h2 : |toReal v + 1 / 2 - toReal (F32.add v C.from_f32_chroma_f0)| = |toReal (F32.add v C.from_f32_chroma_f0) - (toReal v + 1 / 2)| := abs_sub_comm _ _
    nlinarith
  have hyh : |yx + 1 / 2| ≤ 80 / 100000000 := by
    have : yx + 1 / 2 = (toReal v + 1 / 2) - (toReal v - yx) := by ring
    rw [this]
    exact le_trans (abs_sub _ _) (by linarith)
  have hRr1 : (256:ℝ) ≤ R := by exact_mod_cast hR1
  have hRr2 : (R:ℝ) ≤ 65536 := by exact_mod_cast hR2
  have hOr : (O:ℝ) = (R:ℝ) / 2 := by
    have : ((2 * O : ℕ) : ℝ) = (R:ℝ) := by exact_mod_cast congrArg (fun n : ℕ => (n:ℝ)) hO
    push_cast at this; linarith
  have hR1' : ((R - 1 : ℕ) : ℝ) = (R:ℝ) - 1 := by
    have : 1 ≤ R := by omega
    push_cast [Nat.cast_sub this]; ring
  have hideal : |((R - 1 : ℕ) : ℝ) * yx + (O:ℝ) - 1 / 2| ≤ (R:ℝ) * (80 / 100000000) := by
    have : ((R - 1 : ℕ) : ℝ) * yx + (O:ℝ) - 1 / 2 = ((R:ℝ) - 1) * (yx + 1 / 2) := by rw [hR1', hOr]; ring
    rw [this, abs_mul]
    have h0 : (0:ℝ) ≤ (R:ℝ) - 1 := by linarith
    rw [abs_of_nonneg h0]
    nlinarith [abs_nonneg (yx + 1 / 2)]
  have hc := clampR_lip (((R - 1 : ℕ) : ℝ) * yx + (O:ℝ)) (1 / 2) 0 ((R - 1 : ℕ) : ℝ) (by rw [hR1']; linarith)
  have hhalf : clampR (1 / 2) 0 ((R - 1 : ℕ) : ℝ) = 1 / 2 := by
    unfold clampR
    rw [min_eq_right (by rw [hR1']; linarith), max_eq_right (by norm_num)]
  rw [hhalf] at hc
  simp only [Nat.cast_zero, zero_sub, abs_neg]
  have := abs_sub_abs_le_abs_sub (clampR (((R - 1 : ℕ) : ℝ) * yx + (O:ℝ)) 0 ((R - 1 : ℕ) : ℝ)) (1 / 2)
  have hhh : |(1:ℝ) / 2| = 1 / 2 := by norm_num
  nlinarith


def offL (full : Bool) (bd : Nat) : Nat := if full then 0 else 16 * 2 ^ (bd - 8)
def offC (full : Bool) (bd : Nat) : Nat := if full then 2 ^ (bd - 1) else 128 * 2 ^ (bd - 8)

theorem depth_facts : ∀ bd ∈ CheckDecode.depths, ∀ full : Bool,
    lumaD full bd ≤ 2 ^ bd ∧ chromaD full bd ≤ 2 ^ bd ∧ offL full bd ≤ 2 ^ bd ∧ offC full bd ≤ 2 ^ bd ∧ 256 ≤ 2 ^ bd ∧ 2 ^ bd ≤ 65536 ∧
    (2 ^ bd - 1) % 65536 = 2 ^ bd - 1 ∧ (full = true → chromaD full bd = 2 ^ bd - 1 ∧ 2 * offC full bd = 2 ^ bd) := by decide

theorem fwd_all (fm : Bool) (m : MC) (hm : m ∈ CheckDecode.std7) : fwdOk fm m = true := by
  simp only [CheckDecode.std7, List.mem_cons, List.not_mem_nil, or_false] at hm
  cases fm
  · rcases hm with rfl | rfl | rfl | rfl | rfl | rfl | rfl
    · exact fwd_false_BT709
    · exact fwd_false_BT470M
    · exact fwd_false_BT470BG
    · exact fwd_false_ST170M
    · exact fwd_false_ST240M
    · exact fwd_false_BT2020NonConstantLuminance
    · exact fwd_false_YCgCo
  · rcases hm with rfl | rfl | rfl | rfl | rfl | rfl | rfl
    · exact fwd_true_BT709
    · exact fwd_true_BT470M
    · exact fwd_true_BT470BG
    · exact fwd_true_ST170M
    · exact fwd_true_ST240M
    · exact fwd_true_BT2020NonConstantLuminance
    · exact fwd_true_YCgCo

/-- `from_f32_chroma` as a whole -/
theorem chroma_code (ts v s o : Nat) (yx : ℝ) (bd : Nat) (full : Bool) (hbd : bd ∈ CheckDecode.depths) (hts : ts = 1 → bd = 8)
    (hv : Bnd v 1.51) (hvx : |toReal v - yx| ≤ 55 / 100000000)
    (hs : Finite s ∧ toReal s = (chromaD full bd : ℝ)) (ho : Finite o ∧ toReal o = (offC full bd : ℝ)) :
    |((fromF32Chroma ts v s o bd full : ℕ) : ℝ) - clampR ((chromaD full bd : ℝ) * yx + (offC full bd : ℝ)) 0 ((2 ^ bd - 1 : ℕ) : ℝ)|
      ≤ 1 / 2 + ((2 ^ bd : ℕ) : ℝ) / 1000000 := by
  obtain ⟨h1, h2, h3, h4, h5, h6, h7, h8⟩ := depth_facts bd hbd full
  unfold fromF32Chroma
  split
  · rename_i hc
    simp only [Bool.and_eq_true] at hc
    obtain ⟨hd, hO⟩ := h8 hc.1
    have := chroma_shortcut v yx (2 ^ bd) (offC full bd) hv hvx hc.2 hO h5 h6
    rw [hd]; exact this
  · have hp := plane_code v s o yx (chromaD full bd) (offC full bd) (2 ^ bd) hv hvx hs ho h2 h4 h5 h6
    rw [h7]
    dsimp only
    split
    · rename_i hts1
      have hb8 := hts hts1
      subst hb8
      have hle : clampNat (toU16Sat (F32.round (F32.fma v s o))) 0 (2 ^ 8 - 1) ≤ 2 ^ 8 - 1 := FrameP.clampNat_le _ _
      have : clampNat (toU16Sat (F32.round (F32.fma v s o))) 0 (2 ^ 8 - 1) % 256 = clampNat (toU16Sat (F32.round (F32.fma v s o))) 0 (2 ^ 8 - 1) :=
        Nat.mod_eq_of_lt (by omega)
      rw [this]; exact hp
    · exact hp

theorem luma_code (ts v s o : Nat) (yx : ℝ) (bd : Nat) (full : Bool) (hbd : bd ∈ CheckDecode.depths) (hts : ts = 1 → bd = 8)
    (hv : Bnd v 1.51) (hvx : |toReal v - yx| ≤ 55 / 100000000)
    (hs : Finite s ∧ toReal s = (lumaD full bd : ℝ)) (ho : Finite o ∧ toReal o = (offL full bd : ℝ)) :
    |((fromF32Luma ts v s o bd : ℕ) : ℝ) - clampR ((lumaD full bd : ℝ) * yx + (offL full bd : ℝ)) 0 ((2 ^ bd - 1 : ℕ) : ℝ)|
      ≤ 1 / 2 + ((2 ^ bd : ℕ) : ℝ) / 1000000 := by
  obtain ⟨h1, h2, h3, h4, h5, h6, h7, h8⟩ := depth_facts bd hbd full
  unfold fromF32Luma
  have hp := plane_code v s o yx (lumaD full bd) (offL full bd) (2 ^ bd) hv hvx hs ho h1 h3 h5 h6
  rw [h7]
  dsimp only
  split
  · rename_i hts1
    have hb8 := hts hts1
    subst hb8
    have hle : clampNat (toU16Sat (F32.round (F32.fma v s o))) 0 (2 ^ 8 - 1) ≤ 2 ^ 8 - 1 := FrameP.clampNat_le _ _
    have : clampNat (toU16Sat (F32.round (F32.fma v s o))) 0 (2 ^ 8 - 1) % 256 = clampNat (toU16Sat (F32.round (F32.fma v s o))) 0 (2 ^ 8 - 1) :=
      Nat.mod_eq_of_lt (by omega)
    rw [this]; exact hp
  · exact hp

/-- **C02**: for every standard matrix, range, depth 8..16, storage (u8 only at 8 bit), FMA mode and every finite RGB pixel with
components of magnitude at most 3/2 (in particular all of [-1/2, 3/2]^3): each of the three codes is within 1/2 + 1e-6 * 2^n of
the H.273 quantisation `S * (exact row · rgb) + O` clamped to [0, 2^n - 1] -/
theorem encode_close (fm : Bool) (m : MC) (hm : m ∈ CheckDecode.std7) (full : Bool) (bd : Nat) (hbd : bd ∈ CheckDecode.depths)
    (ts : Nat) (hts : ts = 1 → bd = 8) (p : V3) (hx : Bnd p.x (3/2)) (hy : Bnd p.y (3/2)) (hz : Bnd p.z (3/2)) :
    ∃ fwd s, rgbToYuvMatrix fm m .BT709 = .ok fwd ∧ encodeSpec m = some s ∧
      (let yuv := M3.mulArr fm fwd p
       let l := scaleOffset false bd full false
       let c := scaleOffset false bd full true
       let dot (q : Q3) : ℝ := qR q.a * toReal p.x + (qR q.b * toReal p.y + qR q.c * toReal p.z)
       let mx : ℝ := ((2 ^ bd - 1 : ℕ) : ℝ)
       let tol : ℝ := 1 / 2 + ((2 ^ bd : ℕ) : ℝ) / 1000000
       |((fromF32Luma ts yuv.x l.1 l.2 bd : ℕ) : ℝ) - clampR ((lumaD full bd : ℝ) * dot s.r1 + (offL full bd : ℝ)) 0 mx| ≤ tol ∧
       |((fromF32Chroma ts yuv.y c.1 c.2 bd full : ℕ) : ℝ) - clampR ((chromaD full bd : ℝ) * dot s.r2 + (offC full bd : ℝ)) 0 mx| ≤ tol ∧
       |((fromF32Chroma ts yuv.z c.1 c.2 bd full : ℕ) : ℝ) - clampR ((chromaD full bd : ℝ) * dot s.r3 + (offC full bd : ℝ)) 0 mx| ≤ tol) := by
  have hf := fwd_all fm m hm
  unfold fwdOk fwdOkT at hf
  split at hf
  · rename_i fwd s hfw hs
    simp only [Bool.and_eq_true] at hf
    refine ⟨fwd, s, hfw, hs, ?_⟩
    have hso := so_all
    unfold soAll at hso
    rw [List.all_eq_true] at hso
    have hsb := hso bd hbd
    simp only [Bool.and_eq_true] at hsb
    have hsf : soOk bd full = true := by cases full; exact hsb.2; exact hsb.1
    unfold soOk at hsf
    simp only [Bool.and_eq_true] at hsf
    obtain ⟨⟨⟨s1, s2⟩, s3⟩, s4⟩ := hsf
    have e1 := exact_int _ _ s1
    have e2 := exact_int _ _ s2
    have e3 := exact_int _ _ s3
    have e4 := exact_int _ _ s4
    obtain ⟨b1, d1⟩ := row_fwd fm fwd.r1 s.r1 p hf.1.1 hx hy hz
    obtain ⟨b2, d2⟩ := row_fwd fm fwd.r2 s.r2 p hf.1.2 hx hy hz
    obtain ⟨b3, d3⟩ := row_fwd fm fwd.r3 s.r3 p hf.2 hx hy hz
    dsimp only
    rw [mulArr_rows]
    exact ⟨luma_code ts _ _ _ _ bd full hbd hts b1 d1 e1 (by unfold offL; exact e2),
           chroma_code ts _ _ _ _ bd full hbd hts b2 d2 e3 (by unfold offC; exact e4),
           chroma_code ts _ _ _ _ bd full hbd hts b3 d3 e3 (by unfold offC; exact e4)⟩
  · simp at hf


/-- the H.273 equations: Y' = Kr R + Kg G + Kb B, Cb = (B - Y') / (2(1-Kb)), Cr = (R - Y') / (2(1-Kr)) -/
noncomputable def h273enc (kr kb r g b : ℝ) : ℝ × ℝ × ℝ :=
  let y := kr * r + (1 - kr - kb) * g + kb * b
  (y, (b - y) / (2 * (1 - kb)), (r - y) / (2 * (1 - kr)))

/-- for the six Kr/Kb standards the rows of `encodeSpec` applied to (r, g, b) are exactly the H.273 equations -/
theorem encodeSpec_is_h273 (m : MC) (kr kb : Q) (hk : krkb m = some (kr, kb)) (hm : m ≠ .YCgCo)
    (hkr : 0 < kr.den) (hkb : 0 < kb.den) (h1kb : 0 < ((⟨2, 1⟩ : Q).mul ((⟨1, 1⟩ : Q).sub kb)).num)
    (h1kr : 0 < ((⟨2, 1⟩ : Q).mul ((⟨1, 1⟩ : Q).sub kr)).num) (r g b : ℝ) :
    ∃ s, encodeSpec m = some s ∧
      (qR s.r1.a * r + (qR s.r1.b * g + qR s.r1.c * b), qR s.r2.a * r + (qR s.r2.b * g + qR s.r2.c * b),
       qR s.r3.a * r + (qR s.r3.b * g + qR s.r3.c * b)) = h273enc (qR kr) (qR kb) r g b := by
  unfold encodeSpec
  simp only [hm, if_false, hk]
  refine ⟨_, rfl, ?_⟩
  have h1 : qR (⟨1, 1⟩ : Q) = 1 := by simp [qR]
  have h2 : qR (⟨2, 1⟩ : Q) = 2 := by simp [qR]
  have s1 := qR_sub ⟨1, 1⟩ kr (by decide) hkr
  have s2 := qR_sub ⟨1, 1⟩ kb (by decide) hkb
  have d1 : 0 < ((⟨1, 1⟩ : Q).sub kr).den := by unfold Q.sub; simp; exact hkr
  have s3 := qR_sub (((⟨1, 1⟩ : Q).sub kr)) kb d1 hkb
  have pb : (0:ℝ) < 2 * (1 - qR kb) := by
    have : qR ((⟨2, 1⟩ : Q).mul ((⟨1, 1⟩ : Q).sub kb)) = 2 * (1 - qR kb) := by rw [qR_mul, s2, h1, h2]
    rw [← this]; unfold qR
    have hd : 0 < ((⟨2, 1⟩ : Q).mul ((⟨1, 1⟩ : Q).sub kb)).den := by unfold Q.mul Q.sub; simp; exact hkb
    exact div_pos (by exact_mod_cast h1kb) (by exact_mod_cast hd)
  have pr : (0:ℝ) < 2 * (1 - qR kr) := by
    have : qR ((⟨2, 1⟩ : Q).mul ((⟨1, 1⟩ : Q).sub kr)) = 2 * (1 - qR kr) := by rw [qR_mul, s1, h1, h2]
    rw [← this]; unfold qR
    have hd : 0 < ((⟨2, 1⟩ : Q).mul ((⟨1, 1⟩ : Q).sub kr)).den := by unfold Q.mul Q.sub; simp; exact hkr
    exact div_pos (by exact_mod_cast h1kr) (by exact_mod_cast hd)
  dsimp only
  simp only [qR_neg, qR_div _ _ h1kb, qR_div _ _ h1kr, qR_mul, s1, s2, s3, h1, h2]
  unfold h273enc
  simp only [Prod.mk.injEq]
  refine ⟨by ring, ?_, ?_⟩
  · field_simp; ring
  · field_simp; ring

/-- the output carries exactly the requested (resolved) config and the input dimensions (from the shape lemmas of C09) -/
theorem encode_shape (B : Build) (rgb : Api.Rgb) (cfg : FrameM.Cfg) (ts : Nat) (y : FrameM.Yuv) (h : Api.rgbToYuv B rgb cfg ts = .ok (.ok y)) :
    y.y.cfg.width = rgb.w ∧ y.y.cfg.height = rgb.h ∧ y.cfg = cfg.fixUnspecified rgb.w rgb.h := by
  have := C09.rgbToYuv_dims B rgb cfg ts y h
  exact ⟨this.1, this.2.1, this.2.2.2.2.2.2⟩

end C02
