import Props.C10b
import Props.C03c
import Props.C03e
/-! C10, xvYCC: gamma -> linear -> gamma returns `x` within 2.5e-4 for EVERY binary32 of `[0, 1]` (fastmath build, both FMA
modes, kernel-only). On `[0, 1]` the curve is the BT.1886 power pair applied to `|x|` with the sign copied back; `powf` ignores
the sign bit of its base, so the first stage is the power law on the magnitude. The first-stage value may exceed 1 by rounding
(at most 2.1e-4), in which case the second stage leaves the unit interval and takes the BT.709 OETF branch
`α v^0.45 - (α - 1)`; that corner is bounded separately. The argument `-0` (negative sign bit, value 0) is evaluated. -/
namespace C10
open F32 MathM TransferM Real ExpPoly Horner C03

/-- `powf` ignores the sign bit of its base -/
theorem powfFast_abs (fm : Bool) (r y : Nat) (hr : r < 4294967296) : powfFast fm (F32.abs r) y = powfFast fm r y := by
  have h1 : (F32.abs r / 8388608) % 256 = (r / 8388608) % 256 := by
    unfold F32.abs; simp only [consts.2.2.2.2.2.2.2.1]; split <;> omega
  have h2 : F32.abs r % 8388608 = r % 8388608 := by
    unfold F32.abs; simp only [consts.2.2.2.2.2.2.2.1]; split <;> omega
  unfold powfFast log2
  simp only [h1, h2]

/-- a well-formed finite float with the sign bit set and a non-negative value is `-0` -/
theorem neg_zero_of (x : Nat) (hxw : WF x) (hx : Finite x) (hs : signOf x = true) (h0 : 0 ≤ toReal x) : x = 2147483648 := by
  obtain ⟨n, m, e, hd⟩ := hx
  have hv := toReal_of_decode _ n m e hd
  obtain ⟨s, k, f', hs', hk, hf', rfl⟩ := unpack x hxw
  have hs1 : s = 1 := by
    unfold signOf at hs
    simp only [consts.2.2.2.2.2.2.2.1, decide_eq_true_eq] at hs
    omega
  subst hs1
  rw [decode_pack 1 k f' (by norm_num) hk hf'] at hd
  by_cases hk255 : k = 255
  · subst hk255; simp only [if_true] at hd; split at hd <;> cases hd
  · simp only [hk255, if_false] at hd
    by_cases hk0 : k = 0
    · subst hk0
      simp only [if_true] at hd
      injection hd with hn hm he
      subst hn; subst hm
      rw [hv] at h0
      unfold valR at h0
      simp only [decide_true, if_true] at h0
      have h2e : (0:ℝ) < (2:ℝ) ^ e := by positivity
      have hf0 : (f':ℝ) ≤ 0 := by nlinarith
      have : f' = 0 := by
        have : (f':ℝ) = 0 := le_antisymm hf0 (Nat.cast_nonneg _)
        exact_mod_cast this
      subst this; norm_num
    · simp only [hk0, if_false] at hd
      injection hd with hn hm he
      subst hn; subst hm
      rw [hv] at h0
      unfold valR at h0
      simp only [decide_true, if_true] at h0
      have h2e : (0:ℝ) < (2:ℝ) ^ e := by positivity
      have : (0:ℝ) < ((f' + 8388608 : ℕ) : ℝ) := by positivity
      nlinarith

/-- the power pair on magnitudes: first stage on `xa`, second stage on any float whose value is the magnitude of the first result -/
theorem xv_pair (B : Build) (hB : B.fastmath = true) (y1 y2 : Nat)
    (hy1 : Finite y1) (hy2 : Finite y2) (hY1a : 2 ≤ toReal y1) (hY1b : toReal y1 ≤ 3) (hY1c : toReal y1 ≤ 241 / 100)
    (hY2a : 35 / 100 ≤ toReal y2) (hY2b : toReal y2 ≤ 46 / 100) (hYY : |toReal y1 * toReal y2 - 1| ≤ 2 / 10 ^ 7)
    (xa : Nat) (hxw : WF xa) (hx : Finite xa) (h0 : 0 ≤ toReal xa) (h1 : toReal xa ≤ 1) :
    ∃ ra, powfFast B.fma xa y1 = .ok ra ∧ Finite ra ∧ WF ra ∧ |toReal ra| ≤ 1 + 203 / 10 ^ 6 ∧
      (1 < |toReal ra| → 999898 / 1000000 ≤ toReal xa) ∧
      ∀ xb, WF xb → Finite xb → toReal xb = |toReal ra| →
        ∃ rb, powfFast B.fma xb y2 = .ok rb ∧ Finite rb ∧ WF rb ∧ |toReal rb - toReal xa| < 25 / 10 ^ 5 := by
  have hp : ∀ a b, powf B a b = powfFast B.fma a b := by intro a b; unfold powf; rw [if_pos hB]
  set X := toReal xa with hX
  set Y1 := toReal y1 with hY1
  set Y2 := toReal y2 with hY2
  obtain ⟨ra, hra, hraf, hrac⟩ := PowRel.pow_rel B.fma xa y1 hxw hx h0 (by linarith) hy1 (by linarith) (by linarith)
  have hraw : WF ra := powf_wf B hB _ _ _ (by rw [hp]; exact hra)
  have h13 := two_m13
  have h39 := two_m39
  have hwf2 : ∀ xb rb, powfFast B.fma xb y2 = .ok rb → WF rb := fun xb rb h => powf_wf B hB _ _ _ (by rw [hp]; exact h)
  -- second stage in general form
  have stage2 : ∀ xb, WF xb → Finite xb → 0 ≤ toReal xb → toReal xb ≤ 2 → ∃ r2, powfFast B.fma xb y2 = .ok r2 ∧ Finite r2 ∧
      (|toReal r2 - (toReal xb) ^ Y2| ≤ (1832 / 10 ^ 7 + (7914 / 10 ^ 9) * Y2) * (toReal xb) ^ Y2 ∨
       (|toReal r2| ≤ (2:ℝ) ^ (-39:ℤ) ∧ (toReal xb) ^ Y2 ≤ (2:ℝ) ^ (-39:ℤ))) :=
    fun xb hw hf hb0 hb2 => PowRel.pow_rel B.fma xb y2 hw hf hb0 hb2 hy2 (by linarith) (by linarith)
  refine ⟨ra, hra, hraf, hraw, ?_⟩
  rcases hrac with hrel | ⟨ht, hv⟩
  · rcases eq_or_lt_of_le h0 with hX0 | hXpos
    · -- X = 0
      have hv0 : X ^ Y1 = 0 := by rw [← hX0]; exact Real.zero_rpow (by linarith)
      rw [hv0] at hrel
      have hr10 : toReal ra = 0 := by
        have : |toReal ra - 0| ≤ 0 := by simpa using hrel
        have := abs_nonpos_iff.mp this; linarith
      refine ⟨by rw [hr10]; norm_num, by rw [hr10]; norm_num, ?_⟩
      intro xb hbw hbf hbv
      rw [hr10, abs_zero] at hbv
      obtain ⟨r2, hr2, hr2f, hr2c⟩ := stage2 xb hbw hbf (by rw [hbv]) (by rw [hbv]; norm_num)
      refine ⟨r2, hr2, hr2f, hwf2 _ _ hr2, ?_⟩
      rw [hbv, Real.zero_rpow (by linarith)] at hr2c
      rw [← hX0]
      rcases hr2c with h | ⟨h, _⟩
      · have : |toReal r2 - 0| ≤ 0 := by simpa using h
        have := abs_nonpos_iff.mp this
        rw [sub_zero] at this ⊢; rw [this]; norm_num
      · rw [sub_zero]
        have h' : |toReal r2| ≤ 1 / 10 ^ 11 := le_trans h h39
        linarith
    · obtain ⟨hr1pos, hr1le, hr1lo⟩ := r1_bounds X Y1 (toReal ra) hXpos h1 hY1a hY1b hrel
      have hRa : |toReal ra| = toReal ra := abs_of_pos hr1pos
      have hvpos : 0 < X ^ Y1 := Real.rpow_pos_of_pos hXpos _
      have hv1 : X ^ Y1 ≤ 1 := Real.rpow_le_one hXpos.le h1 (by linarith)
      have hρ1 : 1832 / 10 ^ 7 + (7914 / 10 ^ 9) * Y1 ≤ 203 / 10 ^ 6 := by nlinarith
      obtain ⟨g1, g2⟩ := abs_le.mp hrel
      refine ⟨by rw [hRa]; nlinarith, ?_, ?_⟩
      · intro hbig
        rw [hRa] at hbig
        have hvlo : 999797 / 1000000 ≤ X ^ Y1 := by nlinarith
        have hX2 : X ^ Y1 ≤ X ^ (2:ℝ) := Real.rpow_le_rpow_of_exponent_ge hXpos h1 hY1a
        have e2 : X ^ (2:ℝ) = X ^ 2 := by rw [show (2:ℝ) = ((2:ℕ):ℝ) by norm_num, Real.rpow_natCast]
        rw [e2] at hX2
        by_contra hc
        have := not_le.mp hc
        nlinarith
      · intro xb hbw hbf hbv
        rw [hRa] at hbv
        by_cases hreg : X ≤ 89 / 100
        · obtain ⟨r2, hr2, hr2f, hr2c⟩ := stage2 xb hbw hbf (by rw [hbv]; exact hr1pos.le) (by rw [hbv]; linarith)
          refine ⟨r2, hr2, hr2f, hwf2 _ _ hr2, ?_⟩
          rw [hbv] at hr2c
          rcases hr2c with h | ⟨h, hw⟩
          · exact rt_low X Y1 Y2 _ _ hXpos hreg hY1a hY1b hY2a hY2b hYY hrel h
          · exact rt_tiny2 X Y1 Y2 _ _ hXpos h1 hY1a hY1b hY2a hY2b hYY hrel h hw
        · have hreg' := not_le.mp hreg
          obtain ⟨r2, hr2, hr2f, hr2e⟩ := PowRel.pow_near1 B.fma xb y2 (pos_sign_clear xb hbw hbf (by rw [hbv]; exact hr1pos)) hbf
            (by rw [hbv]; exact hr1lo hreg') (by rw [hbv]; exact hr1le) hy2 (by linarith) hY2b
          refine ⟨r2, hr2, hr2f, hwf2 _ _ hr2, ?_⟩
          rw [hbv] at hr2e
          exact rt_high X Y1 Y2 _ _ hXpos h1 hY1a hY1b hY2a hY2b hYY hrel hr2e
  · -- first stage tiny: X ≤ 2^-13
    have hX3 : X ^ (3:ℝ) ≤ X ^ Y1 := by
      rcases eq_or_lt_of_le h0 with hX0 | hXpos
      · rw [← hX0, Real.zero_rpow (by norm_num), Real.zero_rpow (by linarith)]
      · exact Real.rpow_le_rpow_of_exponent_ge hXpos h1 hY1b
    have hXs : X ≤ (2:ℝ) ^ (-13:ℤ) := cube_small X h0 (le_trans hX3 hv)
    have hRs : |toReal ra| ≤ 1 / 10 ^ 11 := le_trans ht h39
    refine ⟨by linarith, by intro hbig; linarith, ?_⟩
    intro xb hbw hbf hbv
    obtain ⟨r2, hr2, hr2f, hr2c⟩ := stage2 xb hbw hbf (by rw [hbv]; exact abs_nonneg _) (by rw [hbv]; linarith)
    refine ⟨r2, hr2, hr2f, hwf2 _ _ hr2, ?_⟩
    rw [hbv] at hr2c
    exact rt_tiny1 X Y2 _ _ h0 hXs hY2a hY2b (abs_nonneg _) ht (hr2c.imp id (fun h => h.1))

/-- constants of the BT.709 OETF (used only just above 1) -/
theorem cert_709 : finiteB C.rec_709_oetf_f0 = true ∧ ratOf C.rec_709_oetf_f0 = 0 ∧ C.rec_709_oetf_f0 < 4294967296 ∧
    finiteB B709 = true ∧ ratOf B709 ≤ 1 / 10 ∧
    finiteB A709 = true ∧ 10992 / 10 ^ 4 ≤ ratOf A709 ∧ ratOf A709 ≤ 10994 / 10 ^ 4 ∧
    finiteB C.rec_709_oetf_f2 = true ∧ |ratOf C.rec_709_oetf_f2 - 45 / 100| ≤ 1 / 10 ^ 6 ∧
    finiteB C.rec_709_oetf_f3 = true ∧ ratOf C.rec_709_oetf_f3 = 1 ∧ C.rec_709_oetf_f3 < 4294967296 := by decide +kernel

/-- pure-real core of `xv_top` -/
theorem xv_top_real (α av R Y p rc : ℝ) (hα1 : 10992 / 10 ^ 4 ≤ α) (hα2 : α ≤ 10994 / 10 ^ 4) (ha : |av - (α - 1)| ≤ 1 / 10 ^ 7)
    (hR1 : 1 < R) (hR2 : R ≤ 1 + 203 / 10 ^ 6) (hY : |Y - 45 / 100| ≤ 1 / 10 ^ 6)
    (hp : |p - R ^ Y| ≤ (35 / 10 ^ 6) * R ^ Y) (hr : |rc - (α * p - av)| ≤ 2 / 10 ^ 7) :
    1 - 4 / 10 ^ 5 ≤ rc ∧ rc ≤ 1 + 140 / 10 ^ 6 := by
  obtain ⟨y1, y2⟩ := abs_le.mp hY
  obtain ⟨a1, a2⟩ := abs_le.mp ha
  obtain ⟨p1, p2⟩ := abs_le.mp hp
  obtain ⟨r1, r2⟩ := abs_le.mp hr
  have hv1 : 1 ≤ R ^ Y := Real.one_le_rpow hR1.le (by linarith)
  have hv2 : R ^ Y ≤ 1 + Y * (R - 1) := by
    have := _root_.rpow_one_add_le_one_add_mul_self (s := R - 1) (by linarith) (by linarith : (0:ℝ) ≤ Y) (by linarith : Y ≤ 1)
    have e : 1 + (R - 1) = R := by ring
    rw [e] at this; exact this
  have hv3 : R ^ Y ≤ 1 + 9136 / 10 ^ 8 := by nlinarith
  have hpl : 1 - 3501 / 10 ^ 8 ≤ p := by nlinarith
  have hpu : p ≤ 1 + 12637 / 10 ^ 8 := by nlinarith
  have e : α * p - av = α * (p - 1) + 1 + (α - 1 - av) := by ring
  constructor <;> nlinarith

/-- the BT.709 OETF just above 1 (the branch the second stage takes when the first stage lands above 1) -/
theorem xv_top (B : Build) (hB : B.fastmath = true) (y : Nat) (hyw : WF y) (hy : Finite y) (h1 : 1 < toReal y) (h2 : toReal y ≤ 1 + 203 / 10 ^ 6) :
    ∃ rc, rec_709_oetf B y = .ok rc ∧ Finite rc ∧ WF rc ∧ 1 - 4 / 10 ^ 5 ≤ toReal rc ∧ toReal rc ≤ 1 + 140 / 10 ^ 6 := by
  obtain ⟨z1, z2, z3, b1, b2, a1, a2, a3, k1, k2, o1, o2, o3⟩ := cert_709
  have hu' : u = 1 / 16777216 := u_val
  have he' : eta ≤ 1 / 10 ^ 40 := eta_le
  have hp : ∀ a b, powf B a b = powfFast B.fma a b := by intro a b; unfold powf; rw [if_pos hB]
  obtain ⟨fz, vz⟩ := zero_of _ z1 z2
  obtain ⟨hm1, hm2⟩ := max_val y C.rec_709_oetf_f0 hy fz
  have hxf : Finite (F32.max y C.rec_709_oetf_f0) := by rcases hm1 with e | e <;> rw [e] <;> assumption
  have hxv : toReal (F32.max y C.rec_709_oetf_f0) = toReal y := by rw [hm2, vz]; exact max_eq_left (by linarith)
  have hxw' : WF (F32.max y C.rec_709_oetf_f0) := by
    rcases hm1 with e | e <;> rw [e]
    · exact hyw
    · exact z3
  obtain ⟨fb, vb⟩ := Exp2.rat_val _ b1
  obtain ⟨fa, va⟩ := Exp2.rat_val _ a1
  have hB1 : toReal B709 ≤ 1 / 10 := by rw [vb]; have := (Rat.cast_le (K := ℝ)).mpr b2; push_cast at this; exact this
  have hα1 : (10992:ℝ) / 10 ^ 4 ≤ toReal A709 := by rw [va]; have := (Rat.cast_le (K := ℝ)).mpr a2; push_cast at this; exact this
  have hα2 : toReal A709 ≤ 10994 / 10 ^ 4 := by rw [va]; have := (Rat.cast_le (K := ℝ)).mpr a3; push_cast at this; exact this
  obtain ⟨fk, vk⟩ := near_of' _ _ _ k1 k2
  have hk : |toReal C.rec_709_oetf_f2 - 45 / 100| ≤ 1 / 10 ^ 6 := by push_cast at vk; norm_num at vk ⊢; exact vk
  obtain ⟨kk1, kk2⟩ := abs_le.mp hk
  unfold rec_709_oetf
  dsimp only
  set x' := F32.max y C.rec_709_oetf_f0 with hx'
  set R := toReal y with hR
  have hlt : lt x' B709 = false := by
    by_contra h
    have h' : lt x' B709 = true := by cases hq : lt x' B709 <;> simp_all
    have := (lt_iff x' B709 hxf fb).mp h'
    rw [hxv] at this; linarith
  rw [hlt]
  simp only [Bool.false_eq_true, if_false]
  have hYlo : 349 / 1000 ≤ toReal C.rec_709_oetf_f2 := by linarith
  have hYhi : toReal C.rec_709_oetf_f2 ≤ 46 / 100 := by linarith
  obtain ⟨p, hp1, hp2, hp3⟩ := PowRel.pow_near1 B.fma x' C.rec_709_oetf_f2 (pos_sign_clear x' hxw' hxf (by rw [hxv]; linarith)) hxf
    (by rw [hxv]; linarith) (by rw [hxv]; linarith) fk hYlo hYhi
  rw [hxv] at hp3
  rw [hp, hp1]
  simp only [Out.bind]
  obtain ⟨fo, vo⟩ := val_of _ _ o1 o2
  obtain ⟨hsf, hse⟩ := sub_val A709 C.rec_709_oetf_f3 o3 fa fo (by rw [vo]; apply fit_small; push_cast; rw [abs_le]; constructor <;> linarith)
  have hsw : WF (sub A709 C.rec_709_oetf_f3) := by unfold sub; exact add_wf _ _
  obtain ⟨hnf, hnv⟩ := toReal_neg _ hsw hsf
  set av := toReal (sub A709 C.rec_709_oetf_f3) with hav
  have ha7 : |av - (toReal A709 - 1)| ≤ 1 / 10 ^ 7 := by
    rw [vo] at hse; push_cast at hse
    refine le_trans hse ?_
    have : |toReal A709 - 1| ≤ 1 / 10 := by rw [abs_le]; constructor <;> linarith
    rw [hu']; nlinarith
  obtain ⟨av1, av2⟩ := abs_le.mp ha7
  have hv1 : 1 ≤ R ^ toReal C.rec_709_oetf_f2 := Real.one_le_rpow h1.le (by linarith)
  have hv2 : R ^ toReal C.rec_709_oetf_f2 ≤ 1001 / 1000 := by
    calc R ^ toReal C.rec_709_oetf_f2 ≤ R ^ (1:ℝ) := Real.rpow_le_rpow_of_exponent_le h1.le (by linarith)
      _ = R := Real.rpow_one R
      _ ≤ 1001 / 1000 := by linarith
  obtain ⟨q1, q2⟩ := abs_le.mp hp3
  have hpabs : |toReal p| ≤ 1002 / 1000 := by rw [abs_le]; constructor <;> nlinarith
  have hαabs : |toReal A709| ≤ 11 / 10 := by rw [abs_le]; constructor <;> linarith
  have hnabs : |toReal (neg (sub A709 C.rec_709_oetf_f3))| ≤ 1 / 10 := by rw [hnv, abs_neg, abs_le]; constructor <;> linarith
  obtain ⟨hfb, hfe⟩ := fma_bnd A709 p (neg (sub A709 C.rec_709_oetf_f3)) (11 / 10) (1002 / 1000) (1 / 10) ⟨fa, hαabs⟩ ⟨hp2, hpabs⟩ ⟨hnf, hnabs⟩ (fit_small _ (by norm_num))
  rw [hnv] at hfe
  have hfe' : |toReal (F32.fma A709 p (neg (sub A709 C.rec_709_oetf_f3))) - (toReal A709 * toReal p - av)| ≤ 2 / 10 ^ 7 := by
    have e : toReal A709 * toReal p + -av = toReal A709 * toReal p - av := by ring
    rw [e] at hfe
    refine le_trans hfe ?_
    have hq : (1:ℝ) / 16777216 * (11 / 10 * (1002 / 1000) + 1 / 10) ≤ 1 / 10 ^ 7 := by norm_num
    rw [hu']; linarith
  obtain ⟨c1, c2⟩ := xv_top_real (toReal A709) av R (toReal C.rec_709_oetf_f2) (toReal p) _ hα1 hα2 ha7 h1 h2 hk hp3 hfe'
  exact ⟨_, rfl, hfb.1, fma_wf _ _ _, c1, c2⟩

/-! ### the argument `-0`: evaluated -/

/-- the two xvYCC functions with the fast `powf` spelled out (no build parameter), for evaluation -/
def rec1886EotfF (fm : Bool) (x : Nat) : Out Nat :=
  if lt x C.rec_1886_eotf_f0 then .ok C.rec_1886_eotf_f1 else powfFast fm x C.rec_1886_eotf_f2
def rec1886InvF (fm : Bool) (x : Nat) : Out Nat :=
  if lt x C.rec_1886_inverse_eotf_f0 then .ok C.rec_1886_inverse_eotf_f1
  else powfFast fm x (div C.rec_1886_inverse_eotf_f2 C.rec_1886_inverse_eotf_f3)
def rec709OetfF (fm : Bool) (x : Nat) : Out Nat :=
  let x := F32.max x C.rec_709_oetf_f0
  if lt x B709 then .ok (mul x C.rec_709_oetf_f1)
  else (powfFast fm x C.rec_709_oetf_f2).bind fun p => .ok (F32.fma A709 p (neg (sub A709 C.rec_709_oetf_f3)))
def rec709InvF (fm : Bool) (x : Nat) : Out Nat :=
  let x := F32.max x C.rec_709_inverse_oetf_f0
  if lt x (mul C.rec_709_inverse_oetf_f1 B709) then .ok (div x C.rec_709_inverse_oetf_f2)
  else powfFast fm (div (add x (sub A709 C.rec_709_inverse_oetf_f3)) A709) (div C.rec_709_inverse_oetf_f4 C.rec_709_inverse_oetf_f5)
def xvEotfF (fm : Bool) (x : Nat) : Out Nat :=
  (if inClosed C.xvycc_eotf_f0 C.xvycc_eotf_f1 x then rec1886EotfF fm (F32.abs x) else rec709InvF fm (F32.abs x)).bind
    fun r => .ok (copysign r x)
def xvInvF (fm : Bool) (x : Nat) : Out Nat :=
  (if inClosed C.xvycc_inverse_eotf_f0 C.xvycc_inverse_eotf_f1 x then rec1886InvF fm (F32.abs x) else rec709OetfF fm (F32.abs x)).bind
    fun r => .ok (copysign r x)

theorem xvEotf_eq (B : Build) (hB : B.fastmath = true) (x : Nat) : xvycc_eotf B x = xvEotfF B.fma x := by
  have hp : ∀ a b, powf B a b = powfFast B.fma a b := by intro a b; unfold powf; rw [if_pos hB]
  unfold xvycc_eotf xvEotfF rec_1886_eotf rec1886EotfF rec_709_inverse_oetf rec709InvF
  simp only [hp]
theorem xvInv_eq (B : Build) (hB : B.fastmath = true) (x : Nat) : xvycc_inverse_eotf B x = xvInvF B.fma x := by
  have hp : ∀ a b, powf B a b = powfFast B.fma a b := by intro a b; unfold powf; rw [if_pos hB]
  unfold xvycc_inverse_eotf xvInvF rec_1886_inverse_eotf rec1886InvF rec_709_oetf rec709OetfF
  simp only [hp]

/-- the round trip of `-0`: a finite value of magnitude at most 1e-5 -/
def negZeroOk (fm : Bool) : Bool :=
  match xvEotfF fm 2147483648 with
  | .ok r1 => (match xvInvF fm r1 with
    | .ok r2 => finiteB r2 && decide (|ratOf r2| ≤ 1 / 10 ^ 5)
    | _ => false)
  | _ => false

theorem cert_negzero : negZeroOk true = true ∧ negZeroOk false = true := by decide +kernel

theorem negZero_extract (fm : Bool) (h : negZeroOk fm = true) :
    ∃ r1 r2, xvEotfF fm 2147483648 = .ok r1 ∧ xvInvF fm r1 = .ok r2 ∧ Finite r2 ∧ |toReal r2| ≤ 1 / 10 ^ 5 := by
  unfold negZeroOk at h
  cases h1 : xvEotfF fm 2147483648 with
  | ok r1 =>
    rw [h1] at h
    dsimp only at h
    cases h2 : xvInvF fm r1 with
    | ok r2 =>
      rw [h2] at h
      dsimp only at h
      rw [Bool.and_eq_true, decide_eq_true_eq] at h
      obtain ⟨f, v⟩ := Exp2.rat_val r2 h.1
      refine ⟨r1, r2, rfl, h2, f, ?_⟩
      rw [v]
      have := (Rat.cast_le (K := ℝ)).mpr h.2
      push_cast at this
      exact this
    | ub s => rw [h2] at h; simp at h
    | panic q => rw [h2] at h; simp at h
  | ub s => rw [h1] at h; simp at h
  | panic q => rw [h1] at h; simp at h

theorem cert_y1_241 : ratOf C.rec_1886_eotf_f2 ≤ 241 / 100 := by decide +kernel

theorem signOf_abs (a : Nat) (ha : WF a) : signOf (F32.abs a) = false := by
  have := abs_lt_sign a ha
  unfold signOf
  simp only [consts.2.2.2.2.2.2.2.1, decide_eq_false_iff_not, not_le]
  omega

theorem copysign_pos (r x : Nat) (hs : signOf x = false) : copysign r x = F32.abs r := by
  unfold copysign; rw [hs]; simp [signBit]

set_option maxHeartbeats 2000000 in
/-- **xvYCC round trip** (fastmath build) -/
theorem xvycc_roundtrip_fast (B : Build) (hB : B.fastmath = true) : RoundTripWithin (xvycc_eotf B) (xvycc_inverse_eotf B) := by
  intro x hxw hx h0 h1
  have hp : ∀ a b, powf B a b = powfFast B.fma a b := by intro a b; unfold powf; rw [if_pos hB]
  by_cases hs : signOf x = true
  · -- the argument is -0
    have hx0 := neg_zero_of x hxw hx hs h0
    subst hx0
    have hv0 : toReal 2147483648 = 0 := by
      have hd : decode 2147483648 = .fin true 0 (-149) := by decide +kernel
      rw [toReal_of_decode _ _ _ _ hd, valR_zero]
    obtain ⟨c1, c2⟩ := cert_negzero
    have hc : negZeroOk B.fma = true := by
      rcases Bool.eq_false_or_eq_true B.fma with h | h
      · rw [h]; exact c1
      · rw [h]; exact c2
    obtain ⟨r1, r2, e1, e2, f2, v2⟩ := negZero_extract B.fma hc
    refine ⟨r1, r2, by rw [xvEotf_eq B hB]; exact e1, by rw [xvInv_eq B hB]; exact e2, f2, ?_⟩
    rw [hv0, sub_zero]
    exact lt_of_le_of_lt v2 (by norm_num)
  · have hs' : signOf x = false := by cases hq : signOf x <;> simp_all
    obtain ⟨a1, a2, a3, a4, i1, i2, i3, i4, w1, w2⟩ := cert_xvycc
    obtain ⟨p1, _, _, z1, z2, z3, _⟩ := cert_pairs
    have hy241 := cert_y1_241
    unfold pairOk at p1
    simp only [Bool.and_eq_true, decide_eq_true_eq] at p1
    obtain ⟨⟨⟨⟨⟨⟨f1, f2⟩, q1⟩, q2⟩, q3⟩, q4⟩, q5⟩ := p1
    obtain ⟨fy1, vy1⟩ := Exp2.rat_val _ f1
    obtain ⟨fy2, vy2⟩ := Exp2.rat_val _ f2
    have c1 : (2:ℝ) ≤ toReal C.rec_1886_eotf_f2 := by rw [vy1]; exact_mod_cast q1
    have c2 : toReal C.rec_1886_eotf_f2 ≤ 3 := by rw [vy1]; exact_mod_cast q2
    have c2' : toReal C.rec_1886_eotf_f2 ≤ 241 / 100 := by rw [vy1]; have := (Rat.cast_le (K := ℝ)).mpr hy241; push_cast at this; exact this
    have c3 : (35:ℝ) / 100 ≤ toReal (div C.rec_1886_inverse_eotf_f2 C.rec_1886_inverse_eotf_f3) := by
      rw [vy2]; have := (Rat.cast_le (K := ℝ)).mpr q3; push_cast at this; exact this
    have c4 : toReal (div C.rec_1886_inverse_eotf_f2 C.rec_1886_inverse_eotf_f3) ≤ 46 / 100 := by
      rw [vy2]; have := (Rat.cast_le (K := ℝ)).mpr q4; push_cast at this; exact this
    have c5 : |toReal C.rec_1886_eotf_f2 * toReal (div C.rec_1886_inverse_eotf_f2 C.rec_1886_inverse_eotf_f3) - 1| ≤ 2 / 10 ^ 7 := by
      rw [vy1, vy2]; have := (Rat.cast_le (K := ℝ)).mpr q5; push_cast at this; exact this
    clear q1 q2 q3 q4 q5
    -- |x|
    obtain ⟨hax, hav⟩ := toReal_abs x hxw hx
    rw [abs_of_nonneg h0] at hav
    have haw : WF (F32.abs x) := abs_wf x hxw
    obtain ⟨ra, hra, hraf, hraw, hRle, hRbig, hsecond⟩ := xv_pair B hB _ _ fy1 fy2 c1 c2 c2' c3 c4 c5 (F32.abs x) haw hax (by rw [hav]; exact h0) (by rw [hav]; exact h1)
    rw [hav] at hRbig hsecond
    -- first stage
    have hst1 : xvycc_eotf B x = .ok (F32.abs ra) := by
      unfold xvycc_eotf
      rw [in_unit _ _ x ⟨a1, a2⟩ ⟨a3, a4⟩ hx h0 h1]
      simp only [if_true]
      unfold rec_1886_eotf
      rw [not_lt_zero (F32.abs x) _ hax (zero_of' _ z1) (by rw [hav]; exact h0)]
      simp only [Bool.false_eq_true, if_false]
      rw [hp, hra]
      simp only [Out.bind]
      rw [copysign_pos _ _ hs']
    set r1 := F32.abs ra with hr1
    obtain ⟨hr1f, hr1v⟩ := toReal_abs ra hraw hraf
    have hr1w : WF r1 := abs_wf ra hraw
    have hr1s : signOf r1 = false := signOf_abs ra hraw
    set R := |toReal ra| with hR
    have hR0 : 0 ≤ R := abs_nonneg _
    -- |r1|
    obtain ⟨har1, har1v⟩ := toReal_abs r1 hr1w hr1f
    rw [hr1v, abs_of_nonneg hR0] at har1v
    have har1w : WF (F32.abs r1) := abs_wf r1 hr1w
    by_cases hR1 : R ≤ 1
    · obtain ⟨rb, hrb, hrbf, hrbw, hrbe⟩ := hsecond (F32.abs r1) har1w har1 har1v
      obtain ⟨hcf, hcv⟩ := copysign_val rb r1 hrbw hrbf
      refine ⟨r1, copysign rb r1, hst1, ?_, hcf, ?_⟩
      · unfold xvycc_inverse_eotf
        rw [in_unit _ _ r1 ⟨i1, i2⟩ ⟨i3, i4⟩ hr1f (by rw [hr1v]; exact hR0) (by rw [hr1v]; exact hR1)]
        simp only [if_true]
        unfold rec_1886_inverse_eotf
        rw [not_lt_zero (F32.abs r1) _ har1 (zero_of' _ z2) (by rw [har1v]; exact hR0)]
        simp only [Bool.false_eq_true, if_false]
        rw [hp, hrb]
        simp only [Out.bind]
      · rw [hcv, hr1s]
        simp only [Bool.false_eq_true, if_false, one_mul]
        have := abs_abs_sub_abs_le_abs_sub (toReal rb) (toReal x)
        rw [abs_of_nonneg h0] at this
        exact lt_of_le_of_lt this hrbe
    · have hRgt := not_le.mp hR1
      have hXlo := hRbig hRgt
      obtain ⟨rc, hrc, hrcf, hrcw, hc1, hc2⟩ := xv_top B hB (F32.abs r1) har1w har1 (by rw [har1v]; exact hRgt) (by rw [har1v]; exact hRle)
      obtain ⟨hcf, hcv⟩ := copysign_val rc r1 hrcw hrcf
      refine ⟨r1, copysign rc r1, hst1, ?_, hcf, ?_⟩
      · unfold xvycc_inverse_eotf
        have hout : inClosed C.xvycc_inverse_eotf_f0 C.xvycc_inverse_eotf_f1 r1 = false := by
          obtain ⟨fh, vh⟩ := Exp2.rat_val _ i3
          unfold inClosed
          have : le r1 C.xvycc_inverse_eotf_f1 = false := by
            by_contra h
            have h' : le r1 C.xvycc_inverse_eotf_f1 = true := by cases hq : le r1 C.xvycc_inverse_eotf_f1 <;> simp_all
            have := (le_iff r1 _ hr1f fh).mp h'
            rw [hr1v, vh, i4] at this
            push_cast at this
            linarith
          rw [this, Bool.and_false]
        rw [hout]
        simp only [Bool.false_eq_true, if_false]
        rw [hrc]
        simp only [Out.bind]
      · rw [hcv, hr1s]
        simp only [Bool.false_eq_true, if_false, one_mul]
        have hrcpos : 0 ≤ toReal rc := by linarith
        rw [abs_of_nonneg hrcpos, abs_lt]
        constructor <;> linarith

/-- **C10, xvYCC** (fastmath build, both FMA modes): gamma -> linear -> gamma returns every binary32 of `[0, 1]` (either zero
included) within 2.5e-4, through the dispatch tables -/
theorem xvycc_roundtrip (B : Build) (hB : B.fastmath = true) :
    ∃ f g, toLinearFn B .XVYCC = .ok f ∧ toGammaFn B .XVYCC = .ok g ∧ RoundTripWithin f g :=
  ⟨_, _, rfl, rfl, xvycc_roundtrip_fast B hB⟩

end C10
