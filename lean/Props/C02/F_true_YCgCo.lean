import Check.Encode
/-! evaluated check (native_decide): the model's RGB->YUV matrix is entry-wise within 6e-8 of the exact H.273 matrix; exact rows have absolute sum <= 1 -/
theorem C02.fwd_true_YCgCo : CheckEncode.fwdOk true .YCgCo = true := by native_decide
