import Check.Encode
/-! evaluated check (native_decide): the model's RGB->YUV matrix is entry-wise within 6e-8 of the exact H.273 matrix; exact rows have absolute sum <= 1 -/
theorem C02.fwd_false_ST170M : CheckEncode.fwdOk false .ST170M = true := by native_decide
