import Check.Encode
/-! evaluated check: scale and offset of the float->code direction are exactly the H.273 integers, depths 8..16, both ranges -/
theorem C02.so_all : CheckEncode.soAll = true := by native_decide
