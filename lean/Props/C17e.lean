import Props.C17d
/-! C17 round trip, part 3: the float decode `hsl_to_lrgb` against the real hexcone decode. -/
namespace C17
open F32 Real PixelM

theorem c_three : Finite 0x40400000 ∧ toReal 0x40400000 = 3 := by
  have h : decode 0x40400000 = .fin false 12582912 (-22) := by decide +kernel
  exact ⟨⟨_, _, _, h⟩, by rw [toReal_of_decode _ _ _ _ h]; unfold valR; norm_num⟩
theorem c_five : Finite 0x40a00000 ∧ toReal 0x40a00000 = 5 := by
  have h : decode 0x40a00000 = .fin false 10485760 (-21) := by decide +kernel
  exact ⟨⟨_, _, _, h⟩, by rw [toReal_of_decode _ _ _ _ h]; unfold valR; norm_num⟩

theorem inHalfOpen_iff (lo hi x : Nat) (fl : Finite lo) (fh : Finite hi) (fx : Finite x) :
    inHalfOpen lo hi x = true ↔ toReal lo ≤ toReal x ∧ toReal x < toReal hi := by
  unfold inHalfOpen
  rw [Bool.and_eq_true, ge_iff x lo fx fl, lt_iff x hi fx fh]

/-- `m = l - c/2` of the inverse against `min = L - C/2` -/
theorem m_back (l c : Nat) (fL : Finite l) (fc : Finite c) (L0 : 0 ≤ toReal l ∧ toReal l ≤ 1) (c0 : 0 ≤ toReal c ∧ toReal c ≤ 11 / 10) (Ls Cs : ℝ)
    (eL : |toReal l - Ls| ≤ 13 / 100000000) (eC : |toReal c - Cs| ≤ 1 / 1000000) :
    Finite (F32.sub l (F32.div c 0x40000000)) ∧ |toReal (F32.sub l (F32.div c 0x40000000)) - (Ls - Cs / 2)| ≤ 8 / 10000000 ∧
    |toReal (F32.sub l (F32.div c 0x40000000))| ≤ 11 / 10 := by
  have hu := u_val; have he := eta_le; have he0 := eta_pos
  obtain ⟨n, m, e, hv, hf⟩ := div_two_form c fc
  have hmag : (m:ℝ) * (2:ℝ) ^ e < (2:ℝ) ^ (127:ℤ) := by
    rw [← abs_valR n m e, hv]; exact fit1 _ (by rw [abs_le]; constructor <;> linarith [c0.1, c0.2])
  obtain ⟨fd, ed⟩ := round_val n m e hmag
  rw [← hf] at fd ed
  rw [hv] at ed
  have hc2 : |toReal c / 2| ≤ 1 := by rw [abs_le]; constructor <;> linarith [c0.1, c0.2]
  have h1 : u * |toReal c / 2| ≤ u * 1 := mul_le_mul_of_nonneg_left hc2 u_pos.le
  rw [hu] at h1 ed
  obtain ⟨d1, d2⟩ := abs_le.mp ed
  obtain ⟨l1, l2⟩ := abs_le.mp eL; obtain ⟨c1, c2⟩ := abs_le.mp eC
  have hfit : |toReal l - toReal (F32.div c 0x40000000)| < (2:ℝ) ^ (127:ℤ) := fit1 _ (by rw [abs_le]; constructor <;> linarith [L0.1, L0.2, c0.1, c0.2])
  obtain ⟨fm, em⟩ := sub_val l _ (div_wf _ _) fL fd hfit
  have hb : |toReal l - toReal (F32.div c 0x40000000)| ≤ 16 / 10 := by rw [abs_le]; constructor <;> linarith [L0.1, L0.2, c0.1, c0.2]
  have h2 : u * |toReal l - toReal (F32.div c 0x40000000)| ≤ u * (16 / 10) := mul_le_mul_of_nonneg_left hb u_pos.le
  rw [hu] at h2 em
  obtain ⟨m1, m2⟩ := abs_le.mp em
  refine ⟨fm, ?_, ?_⟩
  · rw [abs_le]; constructor <;> linarith
  · rw [abs_le]; constructor <;> linarith [L0.1, L0.2, c0.1, c0.2]

/-- `hp = H / 60` -/
theorem hp_val (h : Nat) (fh : Finite h) (hh : 0 ≤ toReal h ∧ toReal h < 360) :
    Finite (F32.div h 0x42700000) ∧ |toReal (F32.div h 0x42700000) - toReal h / 60| ≤ 37 / 100000000 ∧
    0 ≤ toReal (F32.div h 0x42700000) ∧ toReal (F32.div h 0x42700000) ≤ 6 + 4 / 10000000 := by
  have hu := u_val; have he := eta_le; have he0 := eta_pos
  have h60 : toReal (0x42700000 : Nat) ≠ 0 := by rw [c_sixty.2]; norm_num
  have hq : |toReal h / toReal (0x42700000 : Nat)| ≤ 6 := by
    rw [c_sixty.2, abs_div, abs_of_nonneg hh.1, abs_of_pos (by norm_num : (0:ℝ) < 60), div_le_iff₀ (by norm_num)]; linarith [hh.2]
  have hqfit : |toReal h / toReal (0x42700000 : Nat)| ≤ (2:ℝ) ^ (126:ℤ) := by
    have : (2:ℝ) ^ (3:ℤ) ≤ (2:ℝ) ^ (126:ℤ) := zpow_le_zpow_right₀ (by norm_num) (by norm_num)
    refine le_trans hq (le_trans (by norm_num) this)
  obtain ⟨fd, ed⟩ := div_val h 0x42700000 fh c_sixty.1 h60 hqfit
  have hud : ud ≤ 61 / 1000000000 := by unfold ud; rw [hu]; norm_num
  have hud0 := ud_pos
  have h2 : ud * |toReal h / toReal (0x42700000 : Nat)| ≤ 61 / 1000000000 * 6 := mul_le_mul hud hq (abs_nonneg _) (by norm_num)
  have hnn := div_nonneg_val h 0x42700000 fh c_sixty.1 hh.1 (by rw [c_sixty.2]; norm_num) hqfit
  rw [c_sixty.2] at ed h2
  obtain ⟨e1, e2⟩ := abs_le.mp ed
  have hq6 : toReal h / 60 < 6 := by rw [div_lt_iff₀ (by norm_num)]; linarith [hh.2]
  have hq0 : 0 ≤ toReal h / 60 := div_nonneg hh.1 (by norm_num)
  refine ⟨fd, ?_, hnn, ?_⟩
  · rw [abs_le]; constructor <;> linarith
  · linarith

/-- the triangle wave `1 - |hp mod 2 - 1|` as the inverse computes it (the `fmod` is exact) -/
theorem tri_back (hp : Nat) (fh : Finite hp) (hh : 0 ≤ toReal hp ∧ toReal hp ≤ 7) :
    ∃ j : ℕ, 0 ≤ toReal hp - 2 * (j:ℝ) ∧ toReal hp - 2 * (j:ℝ) < 2 ∧
      Finite (F32.sub 0x3f800000 (F32.abs (F32.sub (fmod hp 0x40000000) 0x3f800000))) ∧
      |toReal (F32.sub 0x3f800000 (F32.abs (F32.sub (fmod hp 0x40000000) 0x3f800000))) - (1 - |toReal hp - 2 * (j:ℝ) - 1|)| ≤ 13 / 100000000 := by
  have hu := u_val; have he := eta_le; have he0 := eta_pos
  have f1 := c_one; have f2 := c_two
  obtain ⟨j, ffm, vfm, fm0, fm2⟩ := fmod_val hp 0x40000000 fh f2.1 hh.1 (by rw [f2.2]; norm_num) (by rw [f2.2]; exact lt_of_abs_lt (fit1 _ (by norm_num)))
  rw [f2.2] at vfm fm2
  refine ⟨j, by rw [show toReal hp - 2 * (j:ℝ) = toReal hp - (j:ℝ) * 2 by ring, ← vfm]; exact fm0,
    by rw [show toReal hp - 2 * (j:ℝ) = toReal hp - (j:ℝ) * 2 by ring, ← vfm]; exact fm2, ?_⟩
  set FM := toReal (fmod hp 0x40000000)
  have hFM : toReal hp - 2 * (j:ℝ) = FM := by rw [vfm]; ring
  rw [hFM]
  have w1 : WF (0x3f800000 : Nat) := by unfold WF; norm_num
  obtain ⟨f4, e4⟩ := sub_val (fmod hp 0x40000000) 0x3f800000 w1 ffm f1.1 (fit1 _ (by rw [f1.2, abs_le]; constructor <;> linarith))
  rw [f1.2] at e4
  have h4b : |FM - 1| ≤ 1 := by rw [abs_le]; constructor <;> linarith
  have h4u : u * |FM - 1| ≤ u * 1 := mul_le_mul_of_nonneg_left h4b u_pos.le
  rw [hu] at h4u e4
  obtain ⟨f5, v5⟩ := toReal_abs (F32.sub (fmod hp 0x40000000) 0x3f800000) (add_wf _ _) f4
  set T4 := toReal (F32.sub (fmod hp 0x40000000) 0x3f800000)
  have hT4 : |T4| ≤ 11 / 10 := by have := abs_sub_abs_le_abs_sub T4 (FM - 1); linarith
  have w5 : WF (F32.abs (F32.sub (fmod hp 0x40000000) 0x3f800000)) := abs_wf _ (add_wf _ _)
  obtain ⟨f6, e6⟩ := sub_val 0x3f800000 _ w5 f1.1 f5 (fit1 _ (by rw [f1.2, v5, abs_le]; constructor <;> linarith [abs_nonneg T4]))
  rw [f1.2, v5] at e6
  have h6b : abs (1 - |T4|) ≤ 1 := by rw [abs_le]; constructor <;> linarith [abs_nonneg T4]
  have h6u : u * abs (1 - |T4|) ≤ u * 1 := mul_le_mul_of_nonneg_left h6b u_pos.le
  rw [hu] at h6u e6
  refine ⟨f6, ?_⟩
  have hab : abs (|T4| - |FM - 1|) ≤ |T4 - (FM - 1)| := abs_abs_sub_abs_le_abs_sub _ _
  obtain ⟨a1, a2⟩ := abs_le.mp (le_trans hab e4)
  obtain ⟨b1, b2⟩ := abs_le.mp e6
  rw [abs_le]; constructor <;> linarith

/-- adding `m` to a selected component -/
theorem add_m (a m : Nat) (fa : Finite a) (fm : Finite m) (ha : |toReal a| ≤ 13 / 10) (hm : |toReal m| ≤ 11 / 10) (tgt : ℝ) (he : |toReal a - tgt| ≤ 62 / 100000000) :
    Finite (F32.add a m) ∧ |toReal (F32.add a m) - (toReal m + tgt)| ≤ 8 / 10000000 := by
  have hu := u_val; have hee := eta_le; have he0 := eta_pos
  have hs : |toReal a + toReal m| ≤ 24 / 10 := le_trans (abs_add_le _ _) (by linarith)
  obtain ⟨f, e⟩ := add_val a m fa fm (fit1 _ (by linarith))
  have h1 : u * |toReal a + toReal m| ≤ u * (24 / 10) := mul_le_mul_of_nonneg_left hs u_pos.le
  rw [hu] at h1 e
  obtain ⟨e1, e2⟩ := abs_le.mp e; obtain ⟨t1, t2⟩ := abs_le.mp he
  exact ⟨f, by rw [abs_le]; constructor <;> linarith⟩

/-- natural `j` with `0 ≤ H - 2j < 2` and `lo ≤ H < lo + 1`, `lo ∈ {0..5}`: `j = lo / 2` -/
theorem j_of (H : ℝ) (j : ℕ) (h0 : 0 ≤ H - 2 * (j:ℝ)) (h2 : H - 2 * (j:ℝ) < 2) (lo : ℕ) (hlo : (lo:ℝ) ≤ H) (hhi : H < (lo:ℝ) + 1) : j = lo / 2 := by
  have a : 2 * (j:ℝ) < (lo:ℝ) + 1 := by linarith
  have b : (lo:ℝ) - 2 < 2 * (j:ℝ) := by linarith
  have a' : 2 * j < lo + 1 := by exact_mod_cast a
  have b' : (lo:ℤ) - 2 < 2 * (j:ℤ) := by exact_mod_cast b
  omega

set_option maxHeartbeats 8000000 in
/-- the sextant selection and the final additions of `hsl_to_lrgb` against the real hexcone ramps -/
theorem dec_sel (c hp m : Nat) (fc : Finite c) (hc : 0 ≤ toReal c ∧ toReal c ≤ 101 / 100) (fh : Finite hp)
    (hh : 0 ≤ toReal hp ∧ toReal hp ≤ 6 + 4 / 10000000) (fm : Finite m) (hm : |toReal m| ≤ 11 / 10) :
    let x := F32.mul c (F32.sub 0x3f800000 (F32.abs (F32.sub (fmod hp 0x40000000) 0x3f800000)))
    let rgb1 : Nat × Nat × Nat :=
      if inHalfOpen 0 0x3f800000 hp then (c, x, 0)
      else if inHalfOpen 0x3f800000 0x40000000 hp then (x, c, 0)
      else if inHalfOpen 0x40000000 0x40400000 hp then (0, c, x)
      else if inHalfOpen 0x40400000 0x40800000 hp then (0, x, c)
      else if inHalfOpen 0x40800000 0x40a00000 hp then (x, 0, c)
      else (c, 0, x)
    let hs := Min.min (toReal hp) 6
    |toReal (F32.add rgb1.1 m) - (toReal m + toReal c * Tr hs)| ≤ 8 / 10000000 ∧
    |toReal (F32.add rgb1.2.1 m) - (toReal m + toReal c * Tg hs)| ≤ 8 / 10000000 ∧
    |toReal (F32.add rgb1.2.2 m) - (toReal m + toReal c * Tb hs)| ≤ 8 / 10000000 := by
  intro x rgb1 hs
  have hu := u_val; have he := eta_le; have he0 := eta_pos
  have f0 := c_zero; have f1 := c_one; have f2 := c_two; have f3 := c_three; have f4 := c_four; have f5 := c_five
  obtain ⟨j, j0, j2, ft6, et6⟩ := tri_back hp fh ⟨hh.1, by linarith [hh.2]⟩
  set t6 := F32.sub 0x3f800000 (F32.abs (F32.sub (fmod hp 0x40000000) 0x3f800000))
  set HP := toReal hp
  set Cr := toReal c
  set tri := 1 - |HP - 2 * (j:ℝ) - 1| with htri
  have htri01 : 0 ≤ tri ∧ tri ≤ 1 := by
    rw [htri]; constructor
    · have : |HP - 2 * (j:ℝ) - 1| ≤ 1 := by rw [abs_le]; constructor <;> linarith
      linarith
    · linarith [abs_nonneg (HP - 2 * (j:ℝ) - 1)]
  obtain ⟨t1, t2⟩ := abs_le.mp et6
  have bt6 : Bnd t6 (11 / 10) := ⟨ft6, by rw [abs_le]; constructor <;> linarith [htri01.1, htri01.2]⟩
  obtain ⟨bx, ex⟩ := mul_bnd c t6 (101 / 100) (11 / 10) ⟨fc, by rw [abs_le]; constructor <;> linarith [hc.1, hc.2]⟩ bt6 (fit_small _ (by norm_num))
  rw [hu] at ex
  obtain ⟨x1, x2⟩ := abs_le.mp ex
  have hX : |toReal x - Cr * tri| ≤ 21 / 100000000 := by
    have e : toReal x - Cr * tri = (toReal x - Cr * toReal t6) + Cr * (toReal t6 - tri) := by ring
    rw [e]
    have a1 := abs_add_le (toReal x - Cr * toReal t6) (Cr * (toReal t6 - tri))
    have a2 : |Cr * (toReal t6 - tri)| ≤ 101 / 100 * (13 / 100000000) := by
      rw [abs_mul, abs_of_nonneg hc.1]; exact mul_le_mul hc.2 et6 (abs_nonneg _) (by norm_num)
    linarith
  obtain ⟨hx1, hx2⟩ := abs_le.mp hX
  have hXabs : |toReal x| ≤ 13 / 10 := by
    have : 0 ≤ Cr * tri := mul_nonneg hc.1 htri01.1
    have : Cr * tri ≤ 101 / 100 * 1 := mul_le_mul hc.2 htri01.2 htri01.1 (by norm_num)
    rw [abs_le]; constructor <;> linarith
  have hCabs : |Cr| ≤ 13 / 10 := by rw [abs_le]; constructor <;> linarith [hc.1, hc.2]
  have h0abs : |toReal (0:Nat)| ≤ 13 / 10 := by rw [f0.2]; norm_num
  -- helpers for the three kinds of selected value
  have selC : ∀ T : ℝ, T = 1 → |Cr - Cr * T| ≤ 62 / 100000000 := by intro T hT; rw [hT]; simp; norm_num
  have sel0 : ∀ T : ℝ, T = 0 → |toReal (0:Nat) - Cr * T| ≤ 62 / 100000000 := by intro T hT; rw [hT, f0.2]; simp; norm_num
  have selX : ∀ T : ℝ, T = tri → |toReal x - Cr * T| ≤ 62 / 100000000 := by intro T hT; rw [hT]; linarith
  have fin3 : ∀ (a : Nat) (fa : Finite a) (ha : |toReal a| ≤ 13 / 10) (tg : ℝ), |toReal a - tg| ≤ 62 / 100000000 → |toReal (F32.add a m) - (toReal m + tg)| ≤ 8 / 10000000 :=
    fun a fa ha tg h => (add_m a m fa fm ha hm tg h).2
  show |toReal (F32.add rgb1.1 m) - (toReal m + Cr * Tr hs)| ≤ _ ∧ |toReal (F32.add rgb1.2.1 m) - (toReal m + Cr * Tg hs)| ≤ _ ∧ |toReal (F32.add rgb1.2.2 m) - (toReal m + Cr * Tb hs)| ≤ _
  by_cases g0 : inHalfOpen 0 0x3f800000 hp = true
  · have hr := (inHalfOpen_iff _ _ _ f0.1 f1.1 fh).mp g0
    rw [f0.2, f1.2] at hr
    have hj := j_of HP j j0 j2 0 (by simpa using hr.1) (by simpa using hr.2)
    have hj0 : (j:ℝ) = 0 := by rw [hj]; norm_num
    have hhs : hs = HP := min_eq_left (by linarith [hr.2])
    obtain ⟨e1, e2, e3⟩ := T_s0 HP hr.1 hr.2.le
    have htv : tri = HP := by rw [htri, hj0, abs_of_nonpos (by linarith [hr.2])]; ring
    have hrgb : rgb1 = (c, x, 0) := by show (if inHalfOpen 0 0x3f800000 hp then (c, x, 0) else _) = _; rw [if_pos g0]
    rw [hrgb, hhs]
    exact ⟨fin3 c fc hCabs _ (selC _ e1), fin3 x bx.1 hXabs _ (selX _ (by rw [e2, htv])), fin3 0 f0.1 h0abs _ (sel0 _ e3)⟩
  · by_cases g1 : inHalfOpen 0x3f800000 0x40000000 hp = true
    · have hr := (inHalfOpen_iff _ _ _ f1.1 f2.1 fh).mp g1
      rw [f1.2, f2.2] at hr
      have hj := j_of HP j j0 j2 1 (by simpa using hr.1) (by norm_num; linarith [hr.2])
      have hj0 : (j:ℝ) = 0 := by rw [hj]; norm_num
      have hhs : hs = HP := min_eq_left (by linarith [hr.2])
      obtain ⟨e1, e2, e3⟩ := T_s1 HP hr.1 hr.2.le
      have htv : tri = 2 - HP := by rw [htri, hj0, abs_of_nonneg (by linarith [hr.1])]; ring
      have hrgb : rgb1 = (x, c, 0) := by
        show (if inHalfOpen 0 0x3f800000 hp then (c, x, 0) else if inHalfOpen 0x3f800000 0x40000000 hp then (x, c, 0) else _) = _
        rw [if_neg g0, if_pos g1]
      rw [hrgb, hhs]
      exact ⟨fin3 x bx.1 hXabs _ (selX _ (by rw [e1, htv])), fin3 c fc hCabs _ (selC _ e2), fin3 0 f0.1 h0abs _ (sel0 _ e3)⟩
    · by_cases g2 : inHalfOpen 0x40000000 0x40400000 hp = true
      · have hr := (inHalfOpen_iff _ _ _ f2.1 f3.1 fh).mp g2
        rw [f2.2, f3.2] at hr
        have hj := j_of HP j j0 j2 2 (by norm_num; linarith [hr.1]) (by norm_num; linarith [hr.2])
        have hj0 : (j:ℝ) = 1 := by rw [hj]; norm_num
        have hhs : hs = HP := min_eq_left (by linarith [hr.2])
        obtain ⟨e1, e2, e3⟩ := T_s2 HP hr.1 hr.2.le
        have htv : tri = HP - 2 := by rw [htri, hj0, abs_of_nonpos (by linarith [hr.2])]; ring
        have hrgb : rgb1 = (0, c, x) := by
          show (if inHalfOpen 0 0x3f800000 hp then (c, x, 0) else if inHalfOpen 0x3f800000 0x40000000 hp then (x, c, 0)
            else if inHalfOpen 0x40000000 0x40400000 hp then (0, c, x) else _) = _
          rw [if_neg g0, if_neg g1, if_pos g2]
        rw [hrgb, hhs]
        exact ⟨fin3 0 f0.1 h0abs _ (sel0 _ e1), fin3 c fc hCabs _ (selC _ e2), fin3 x bx.1 hXabs _ (selX _ (by rw [e3, htv]))⟩
      · by_cases g3 : inHalfOpen 0x40400000 0x40800000 hp = true
        · have hr := (inHalfOpen_iff _ _ _ f3.1 f4.1 fh).mp g3
          rw [f3.2, f4.2] at hr
          have hj := j_of HP j j0 j2 3 (by norm_num; linarith [hr.1]) (by norm_num; linarith [hr.2])
          have hj0 : (j:ℝ) = 1 := by rw [hj]; norm_num
          have hhs : hs = HP := min_eq_left (by linarith [hr.2])
          obtain ⟨e1, e2, e3⟩ := T_s3 HP hr.1 hr.2.le
          have htv : tri = 4 - HP := by rw [htri, hj0, abs_of_nonneg (by linarith [hr.1])]; ring
          have hrgb : rgb1 = (0, x, c) := by
            show (if inHalfOpen 0 0x3f800000 hp then (c, x, 0) else if inHalfOpen 0x3f800000 0x40000000 hp then (x, c, 0)
              else if inHalfOpen 0x40000000 0x40400000 hp then (0, c, x) else if inHalfOpen 0x40400000 0x40800000 hp then (0, x, c) else _) = _
            rw [if_neg g0, if_neg g1, if_neg g2, if_pos g3]
          rw [hrgb, hhs]
          exact ⟨fin3 0 f0.1 h0abs _ (sel0 _ e1), fin3 x bx.1 hXabs _ (selX _ (by rw [e2, htv])), fin3 c fc hCabs _ (selC _ e3)⟩
        · by_cases g4 : inHalfOpen 0x40800000 0x40a00000 hp = true
          · have hr := (inHalfOpen_iff _ _ _ f4.1 f5.1 fh).mp g4
            rw [f4.2, f5.2] at hr
            have hj := j_of HP j j0 j2 4 (by norm_num; linarith [hr.1]) (by norm_num; linarith [hr.2])
            have hj0 : (j:ℝ) = 2 := by rw [hj]; norm_num
            have hhs : hs = HP := min_eq_left (by linarith [hr.2])
            obtain ⟨e1, e2, e3⟩ := T_s4 HP hr.1 hr.2.le
            have htv : tri = HP - 4 := by rw [htri, hj0, abs_of_nonpos (by linarith [hr.2])]; ring
            have hrgb : rgb1 = (x, 0, c) := by
              show (if inHalfOpen 0 0x3f800000 hp then (c, x, 0) else if inHalfOpen 0x3f800000 0x40000000 hp then (x, c, 0)
                else if inHalfOpen 0x40000000 0x40400000 hp then (0, c, x) else if inHalfOpen 0x40400000 0x40800000 hp then (0, x, c)
                else if inHalfOpen 0x40800000 0x40a00000 hp then (x, 0, c) else _) = _
              rw [if_neg g0, if_neg g1, if_neg g2, if_neg g3, if_pos g4]
            rw [hrgb, hhs]
            exact ⟨fin3 x bx.1 hXabs _ (selX _ (by rw [e1, htv])), fin3 0 f0.1 h0abs _ (sel0 _ e2), fin3 c fc hCabs _ (selC _ e3)⟩
          · -- HP ≥ 5
            have hrgb : rgb1 = (c, 0, x) := by
              show (if inHalfOpen 0 0x3f800000 hp then (c, x, 0) else if inHalfOpen 0x3f800000 0x40000000 hp then (x, c, 0)
                else if inHalfOpen 0x40000000 0x40400000 hp then (0, c, x) else if inHalfOpen 0x40400000 0x40800000 hp then (0, x, c)
                else if inHalfOpen 0x40800000 0x40a00000 hp then (x, 0, c) else (c, 0, x)) = _
              rw [if_neg g0, if_neg g1, if_neg g2, if_neg g3, if_neg g4]
            have n0 := fun h => g0 ((inHalfOpen_iff _ _ _ f0.1 f1.1 fh).mpr h)
            have n1 := fun h => g1 ((inHalfOpen_iff _ _ _ f1.1 f2.1 fh).mpr h)
            have n2 := fun h => g2 ((inHalfOpen_iff _ _ _ f2.1 f3.1 fh).mpr h)
            have n3 := fun h => g3 ((inHalfOpen_iff _ _ _ f3.1 f4.1 fh).mpr h)
            have n4 := fun h => g4 ((inHalfOpen_iff _ _ _ f4.1 f5.1 fh).mpr h)
            rw [f0.2, f1.2] at n0; rw [f1.2, f2.2] at n1; rw [f2.2, f3.2] at n2; rw [f3.2, f4.2] at n3; rw [f4.2, f5.2] at n4
            have h5 : 5 ≤ HP := by
              by_contra hcn; push Not at hcn
              rcases lt_or_ge HP 1 with a | a
              · exact n0 ⟨hh.1, a⟩
              rcases lt_or_ge HP 2 with b | b
              · exact n1 ⟨a, b⟩
              rcases lt_or_ge HP 3 with c' | c'
              · exact n2 ⟨b, c'⟩
              rcases lt_or_ge HP 4 with d | d
              · exact n3 ⟨c', d⟩
              exact n4 ⟨d, hcn⟩
            rw [hrgb]
            rcases le_or_gt HP 6 with h6 | h6
            · have hhs : hs = HP := min_eq_left h6
              obtain ⟨e1, e2, e3⟩ := T_s5 HP h5 h6
              -- j = 2 for HP < 6, j = 3 (tri = 0) for HP = 6
              have htv : tri = 6 - HP := by
                rcases lt_or_eq_of_le h6 with hl | heq
                · have hj := j_of HP j j0 j2 5 (by norm_num; linarith) (by norm_num; linarith)
                  have hj0 : (j:ℝ) = 2 := by rw [hj]; norm_num
                  rw [htri, hj0, abs_of_nonneg (by linarith)]; ring
                · have hj : j = 3 := by
                    have a : 2 * (j:ℝ) ≤ 6 := by linarith
                    have b : 4 < 2 * (j:ℝ) := by linarith
                    have a' : 2 * j ≤ 6 := by exact_mod_cast a
                    have b' : 4 < 2 * j := by exact_mod_cast b
                    omega
                  rw [htri, heq, hj]; norm_num
              rw [hhs]
              exact ⟨fin3 c fc hCabs _ (selC _ e1), fin3 0 f0.1 h0abs _ (sel0 _ e2), fin3 x bx.1 hXabs _ (selX _ (by rw [e3, htv]))⟩
            · have hhs : hs = 6 := min_eq_right h6.le
              obtain ⟨e1, e2, e3⟩ := T_s5 6 (by norm_num) (le_refl _)
              have hj : j = 3 := by
                have a : 2 * (j:ℝ) < 6 + 1 := by linarith [hh.2]
                have b : 4 < 2 * (j:ℝ) := by linarith
                have a' : 2 * j < 7 := by exact_mod_cast a
                have b' : 4 < 2 * j := by exact_mod_cast b
                omega
              have htv : tri = HP - 6 := by
                rw [htri, hj]; push_cast
                rw [abs_of_nonpos (by linarith [hh.2])]; ring
              rw [hhs]
              refine ⟨fin3 c fc hCabs _ (selC _ e1), fin3 0 f0.1 h0abs _ (sel0 _ e2), fin3 x bx.1 hXabs _ ?_⟩
              rw [e3, sub_self, mul_zero, sub_zero]
              have : Cr * tri ≤ 101 / 100 * (4 / 10000000) := by
                rw [htv]; exact mul_le_mul hc.2 (by linarith [hh.2]) (by linarith) (by norm_num)
              have : 0 ≤ Cr * tri := mul_nonneg hc.1 htri01.1
              rw [abs_le]; constructor <;> linarith

end C17
