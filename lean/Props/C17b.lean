import Props.C17
/-! C17, hue accuracy: for pixels with max-min ≥ 0.01 the computed hue is within 0.01 degrees (on the circle) of the hexcone hue of
the sextant of the maximum channel. -/
namespace C17
open F32 Real PixelM

/-- hexcone hue (degrees, in [0,360)) -/
noncomputable def specH (x y z : ℝ) : ℝ :=
  if mx x y z - mn x y z = 0 then 0
  else if mx x y z = x then (if 60 * ((y - z) / (mx x y z - mn x y z)) < 0 then 60 * ((y - z) / (mx x y z - mn x y z)) + 360 else 60 * ((y - z) / (mx x y z - mn x y z)))
  else if mx x y z = y then 60 * (2 + (z - x) / (mx x y z - mn x y z))
  else 60 * (4 + (x - y) / (mx x y z - mn x y z))

/-- the wrap-around steps move the raw hue by a multiple of 360 up to 3e-5 -/
theorem wrap_circ (h0 : Nat) (f0 : Finite h0) (b0 : |toReal h0| ≤ 301) :
    let h1 := if F32.lt h0 0 then F32.add h0 0x43b40000 else h0
    let h2 := if F32.ge h1 0x43b40000 then 0 else h1
    Circ (toReal h2) (toReal h0) (3 / 100000) := by
  intro h1 h2
  obtain ⟨p0, q0⟩ := abs_le.mp b0
  have f360 := c_360; have fz := c_zero
  have hu := u_val; have he := eta_le; have he0 := eta_pos
  show Circ (toReal (if F32.ge (if F32.lt h0 0 then F32.add h0 0x43b40000 else h0) 0x43b40000 then 0 else (if F32.lt h0 0 then F32.add h0 0x43b40000 else h0))) (toReal h0) (3 / 100000)
  by_cases hl : F32.lt h0 0 = true
  · simp only [hl, if_true]
    have hneg : toReal h0 < 0 := by have := (lt_iff h0 0 f0 fz.1).mp hl; rw [fz.2] at this; exact this
    have hfit : |toReal h0 + toReal (0x43b40000 : Nat)| < (2:ℝ) ^ (127:ℤ) := fit1 _ (by rw [f360.2, abs_le]; constructor <;> linarith)
    obtain ⟨f1, e1⟩ := add_val h0 0x43b40000 f0 f360.1 hfit
    rw [f360.2] at e1
    have hb : |toReal h0 + 360| ≤ 360 := by rw [abs_le]; constructor <;> linarith
    have hub : u * |toReal h0 + 360| ≤ u * 360 := mul_le_mul_of_nonneg_left hb u_pos.le
    rw [hu] at hub e1
    obtain ⟨e11, e12⟩ := abs_le.mp e1
    by_cases hg : F32.ge (F32.add h0 0x43b40000) 0x43b40000 = true
    · simp only [hg, if_true]
      have := (ge_iff _ _ f1 f360.1).mp hg
      rw [f360.2] at this
      refine circ_of_abs _ _ _ ?_
      rw [fz.2, abs_le]; constructor <;> linarith
    · simp only [hg, Bool.false_eq_true, if_false]
      refine circ_shift _ _ _ 1 ?_
      rw [abs_le]; constructor <;> push_cast <;> linarith
  · simp only [hl, Bool.false_eq_true, if_false]
    by_cases hg : F32.ge h0 0x43b40000 = true
    · exfalso
      have := (ge_iff _ _ f0 f360.1).mp hg
      rw [f360.2] at this; linarith
    · simp only [hg, Bool.false_eq_true, if_false]
      exact circ_of_abs _ _ _ (by simp; norm_num)

/-- `60 * d` and `60 * (k + d)` against the real formula -/
theorem raw0 (d : Nat) (fd : Finite d) (r : ℝ) (hr : |toReal d - r| ≤ 3 / 10000000) (hrb : |r| ≤ 1) :
    |toReal (F32.mul 0x42700000 d) - 60 * r| ≤ 6 / 100000 := by
  have hu := u_val; have he := eta_le; have he0 := eta_pos
  obtain ⟨r1, r2⟩ := abs_le.mp hr; obtain ⟨s1, s2⟩ := abs_le.mp hrb
  have bd : Bnd d (11 / 10) := ⟨fd, by rw [abs_le]; constructor <;> linarith⟩
  obtain ⟨_, e⟩ := mul_bnd 0x42700000 d 60 (11 / 10) ⟨c_sixty.1, by rw [c_sixty.2]; norm_num⟩ bd (fit_small _ (by norm_num))
  rw [c_sixty.2, hu] at e
  obtain ⟨e1, e2⟩ := abs_le.mp e
  rw [abs_le]; constructor <;> linarith

theorem rawk (k d : Nat) (K : ℝ) (fk : Finite k) (vk : toReal k = K) (hK : 0 ≤ K ∧ K ≤ 4) (fd : Finite d) (r : ℝ) (hr : |toReal d - r| ≤ 3 / 10000000) (hrb : |r| ≤ 1) :
    |toReal (F32.mul 0x42700000 (F32.add k d)) - 60 * (K + r)| ≤ 6 / 100000 := by
  have hu := u_val; have he := eta_le; have he0 := eta_pos
  obtain ⟨r1, r2⟩ := abs_le.mp hr; obtain ⟨s1, s2⟩ := abs_le.mp hrb
  have bd : Bnd d (11 / 10) := ⟨fd, by rw [abs_le]; constructor <;> linarith⟩
  have bk : Bnd k 4 := ⟨fk, by rw [vk, abs_le]; constructor <;> linarith [hK.1, hK.2]⟩
  obtain ⟨b1, e1⟩ := add_bnd k d 4 (11 / 10) bk bd (fit_small _ (by norm_num))
  rw [vk, hu] at e1
  have hb1 : (4 + 11 / 10) * (1 + u) + eta ≤ 52 / 10 := by rw [hu]; nlinarith
  obtain ⟨_, e2⟩ := mul_bnd 0x42700000 (F32.add k d) 60 (52 / 10) ⟨c_sixty.1, by rw [c_sixty.2]; norm_num⟩ ⟨b1.1, le_trans b1.2 hb1⟩ (fit_small _ (by norm_num))
  rw [c_sixty.2, hu] at e2
  obtain ⟨a1, a2⟩ := abs_le.mp e1; obtain ⟨m1, m2⟩ := abs_le.mp e2
  rw [abs_le]; constructor <;> linarith

theorem mn_choice (x y z : ℝ) : mn x y z = x ∨ mn x y z = y ∨ mn x y z = z := by
  unfold mn
  rcases min_choice (Min.min x y) z with h | h
  · rcases min_choice x y with h' | h'
    · left; rw [h, h']
    · right; left; rw [h, h']
  · right; right; exact h
theorem mx_choice (x y z : ℝ) : mx x y z = x ∨ mx x y z = y ∨ mx x y z = z := by
  unfold mx
  rcases max_choice (Max.max x y) z with h | h
  · rcases max_choice x y with h' | h'
    · left; rw [h, h']
    · right; left; rw [h, h']
  · right; right; exact h

theorem specH_x (x y z : ℝ) (h0 : mx x y z - mn x y z ≠ 0) (h : mx x y z = x) :
    specH x y z = (if 60 * ((y - z) / (mx x y z - mn x y z)) < 0 then 60 * ((y - z) / (mx x y z - mn x y z)) + 360 else 60 * ((y - z) / (mx x y z - mn x y z))) := by
  unfold specH; rw [if_neg h0, if_pos h]
theorem specH_y (x y z : ℝ) (h0 : mx x y z - mn x y z ≠ 0) (hx : mx x y z ≠ x) (h : mx x y z = y) :
    specH x y z = 60 * (2 + (z - x) / (mx x y z - mn x y z)) := by
  unfold specH; rw [if_neg h0, if_neg hx, if_pos h]
theorem specH_z (x y z : ℝ) (h0 : mx x y z - mn x y z ≠ 0) (hx : mx x y z ≠ x) (hy : mx x y z ≠ y) :
    specH x y z = 60 * (4 + (x - y) / (mx x y z - mn x y z)) := by
  unfold specH; rw [if_neg h0, if_neg hx, if_neg hy]

/-- x-branch of the code against the hexcone hue: exact up to `60 δ / C` on the circle when `x` is within `δ` of the maximum -/
theorem sext_x (x y z δ : ℝ) (hC : 0 < mx x y z - mn x y z) (hδ : mx x y z - x ≤ δ) (hδC : 4 * δ ≤ mx x y z - mn x y z) :
    Circ (60 * ((y - z) / (mx x y z - mn x y z))) (specH x y z) (60 * δ / (mx x y z - mn x y z)) := by
  obtain ⟨⟨mxl, mxu⟩, ⟨myl, myu⟩, ⟨mzl, mzu⟩⟩ := comp_bounds x y z
  have hmc := mn_choice x y z
  have hMc := mx_choice x y z
  have hC0 : mx x y z - mn x y z ≠ 0 := hC.ne'
  by_cases h1 : mx x y z = x
  · rw [specH_x x y z hC0 h1]
    generalize mx x y z = M at *
    generalize mn x y z = m at *
    have hb : 0 ≤ 60 * δ / (M - m) := div_nonneg (by linarith) hC.le
    split
    · refine circ_shift _ _ _ (-1) ?_
      have e : 60 * ((y - z) / (M - m)) - (60 * ((y - z) / (M - m)) + 360) - 360 * ((-1:ℤ):ℝ) = 0 := by push_cast; ring
      rw [e, abs_zero]; exact hb
    · exact circ_of_abs _ _ _ (by rw [sub_self, abs_zero]; exact hb)
  · by_cases h2 : mx x y z = y
    · rw [specH_y x y z hC0 h1 h2]
      generalize mx x y z = M at *
      generalize mn x y z = m at *
      have hxm : m ≠ x := by intro h; rw [h] at hδC hC; linarith
      have hm : m = z := by
        rcases hmc with h | h | h
        · exact absurd h hxm
        · exfalso; rw [h, h2] at hC; linarith
        · exact h
      refine circ_of_abs _ _ _ ?_
      have e : 60 * ((y - z) / (M - m)) - 60 * (2 + (z - x) / (M - m)) = -(60 * (M - x) / (M - m)) := by
        rw [← hm, ← h2]; field_simp; ring
      have hMx : 0 ≤ M - x := by linarith
      rw [e, abs_neg, abs_of_nonneg (div_nonneg (by linarith) hC.le)]
      exact div_le_div_of_nonneg_right (by linarith) hC.le
    · have h3 : mx x y z = z := by rcases hMc with h | h | h <;> [exact absurd h h1; exact absurd h h2; exact h]
      rw [specH_z x y z hC0 h1 h2]
      generalize mx x y z = M at *
      generalize mn x y z = m at *
      have hxm : m ≠ x := by intro h; rw [h] at hδC hC; linarith
      have hm : m = y := by
        rcases hmc with h | h | h
        · exact absurd h hxm
        · exact h
        · exfalso; rw [h, h3] at hC; linarith
      refine circ_shift _ _ _ (-1) ?_
      have e : 60 * ((y - z) / (M - m)) - 60 * (4 + (x - y) / (M - m)) - 360 * ((-1:ℤ):ℝ) = 60 * (M - x) / (M - m) := by
        rw [← hm, ← h3]; push_cast; field_simp; ring
      have hMx : 0 ≤ M - x := by linarith
      rw [e, abs_of_nonneg (div_nonneg (by linarith) hC.le)]
      exact div_le_div_of_nonneg_right (by linarith) hC.le

/-- y-branch (the x-branch was not taken, so `x` is not the maximum) -/
theorem sext_y (x y z δ : ℝ) (hC : 0 < mx x y z - mn x y z) (hx : mx x y z ≠ x) (hδ : mx x y z - y ≤ δ) (hδC : 4 * δ ≤ mx x y z - mn x y z) :
    Circ (60 * (2 + (z - x) / (mx x y z - mn x y z))) (specH x y z) (60 * δ / (mx x y z - mn x y z)) := by
  obtain ⟨⟨mxl, mxu⟩, ⟨myl, myu⟩, ⟨mzl, mzu⟩⟩ := comp_bounds x y z
  have hmc := mn_choice x y z
  have hMc := mx_choice x y z
  have hC0 : mx x y z - mn x y z ≠ 0 := hC.ne'
  by_cases h2 : mx x y z = y
  · rw [specH_y x y z hC0 hx h2]
    have hb : 0 ≤ 60 * δ / (mx x y z - mn x y z) := div_nonneg (by linarith) hC.le
    exact circ_of_abs _ _ _ (by rw [sub_self, abs_zero]; exact hb)
  · have h3 : mx x y z = z := by rcases hMc with h | h | h <;> [exact absurd h hx; exact absurd h h2; exact h]
    rw [specH_z x y z hC0 hx h2]
    generalize mx x y z = M at *
    generalize mn x y z = m at *
    have hym : m ≠ y := by intro h; rw [h] at hδC hC; linarith
    have hm : m = x := by
      rcases hmc with h | h | h
      · exact h
      · exact absurd h hym
      · exfalso; rw [h, h3] at hC; linarith
    refine circ_of_abs _ _ _ ?_
    have e : 60 * (2 + (z - x) / (M - m)) - 60 * (4 + (x - y) / (M - m)) = -(60 * (M - y) / (M - m)) := by
      rw [← hm, ← h3]; field_simp; ring
    have hMy : 0 ≤ M - y := by linarith
    rw [e, abs_neg, abs_of_nonneg (div_nonneg (by linarith) hC.le)]
    exact div_le_div_of_nonneg_right (by linarith) hC.le

/-- guard `|max - comp| < EPSILON`: true gives `max - comp ≤ 1.2e-7`, false gives `max ≠ comp` -/
theorem near_guard (xmax q : Nat) (wq : WF q) (fM : Finite xmax) (fq : Finite q) (hle : toReal q ≤ toReal xmax) (h1 : toReal xmax ≤ 1) (h0 : 0 ≤ toReal q) :
    (F32.lt (F32.abs (F32.sub xmax q)) EPSILON = true → toReal xmax - toReal q ≤ 12 / 100000000) ∧
    (F32.lt (F32.abs (F32.sub xmax q)) EPSILON = false → toReal xmax ≠ toReal q) := by
  have hfit : |toReal xmax - toReal q| < (2:ℝ) ^ (127:ℤ) := fit1 _ (by rw [abs_le]; constructor <;> linarith)
  obtain ⟨fs, es⟩ := sub_val xmax q wq fM fq hfit
  obtain ⟨fa, va⟩ := toReal_abs (F32.sub xmax q) (add_wf _ _) fs
  have hE : EPSILON = 0x34000000 := rfl
  have hu := u_val; have he := eta_le; have he0 := eta_pos
  have hd0 : 0 ≤ toReal xmax - toReal q := by linarith
  rw [abs_of_nonneg hd0] at es
  have hd1 : toReal xmax - toReal q ≤ 1 := by linarith
  rw [hu] at es
  obtain ⟨e1, e2⟩ := abs_le.mp es
  constructor
  · intro hg
    rw [hE] at hg
    have := (lt_iff _ _ fa c_eps.1).mp hg
    rw [va, c_eps.2] at this
    have := le_abs_self (toReal (F32.sub xmax q))
    nlinarith
  · intro hg heq
    rw [hE] at hg
    have hlt : toReal (F32.abs (F32.sub xmax q)) < toReal (0x34000000 : Nat) := by
      rw [va, c_eps.2]
      have hz : toReal xmax - toReal q = 0 := by rw [heq]; ring
      rw [hz] at e1 e2
      have : |toReal (F32.sub xmax q)| ≤ 1 / 10 ^ 40 := by rw [abs_le]; constructor <;> linarith
      have h40 : (1:ℝ) / 10 ^ 40 < 1 / 8388608 := by norm_num
      linarith
    have := (lt_iff _ _ fa c_eps.1).mpr hlt
    rw [hg] at this; exact Bool.false_ne_true this

set_option maxHeartbeats 4000000 in
/-- **hue accuracy**: when max - min ≥ 0.01 the hue is within 0.01 degrees (on the circle) of the hexcone hue -/
theorem hue_accurate (p : Mat32.V3) (hp : Unit3 p) (hw : Wf3 p)
    (hC : 1 / 100 ≤ mx (toReal p.x) (toReal p.y) (toReal p.z) - mn (toReal p.x) (toReal p.y) (toReal p.z)) :
    Circ (toReal (lrgbToHsl p).x) (specH (toReal p.x) (toReal p.y) (toReal p.z)) (1 / 100) := by
  obtain ⟨fM, fm, vM, vm⟩ := maxmin p hp
  obtain ⟨b0, b1, b2⟩ := mx_mn_bounds _ _ _ hp.bx hp.bY hp.bz
  obtain ⟨cx, cy, cz⟩ := comp_bounds (toReal p.x) (toReal p.y) (toReal p.z)
  set xmax := F32.max (F32.max p.x p.y) p.z
  set xmin := F32.min (F32.min p.x p.y) p.z
  have wmin : WF xmin := min_wf _ _ (min_wf _ _ hw.wx hw.wy) hw.wz
  set x := toReal p.x; set y := toReal p.y; set z := toReal p.z
  set c := F32.sub xmax xmin with hc
  have hx : (lrgbToHsl p).x =
      (let h0 := if F32.lt (F32.abs c) EPSILON then 0
        else if F32.lt (F32.abs (F32.sub xmax p.x)) EPSILON then F32.mul 0x42700000 (F32.div (F32.sub p.y p.z) c)
        else if F32.lt (F32.abs (F32.sub xmax p.y)) EPSILON then F32.mul 0x42700000 (F32.add 0x40000000 (F32.div (F32.sub p.z p.x) c))
        else F32.mul 0x42700000 (F32.add 0x40800000 (F32.div (F32.sub p.x p.y) c));
       let h1 := if F32.lt h0 0 then F32.add h0 0x43b40000 else h0; if F32.ge h1 0x43b40000 then 0 else h1) := rfl
  rw [hx]
  -- the chroma guard is false
  have hfitc : |toReal xmax - toReal xmin| < (2:ℝ) ^ (127:ℤ) := fit1 _ (by rw [vM, vm, abs_le]; constructor <;> linarith)
  obtain ⟨fc0, ec0⟩ := sub_val xmax xmin wmin fM fm hfitc
  obtain ⟨fac, vac⟩ := toReal_abs c (add_wf _ _) fc0
  have hE : EPSILON = 0x34000000 := rfl
  have hu := u_val; have he := eta_le; have he0 := eta_pos
  have g1 : F32.lt (F32.abs c) EPSILON = false := by
    by_contra hcn
    have hc' : F32.lt (F32.abs c) 0x34000000 = true := by rw [← hE]; simpa using hcn
    have := (lt_iff _ _ fac c_eps.1).mp hc'
    rw [vac, c_eps.2] at this
    rw [vM, vm] at ec0
    have hC0 : 0 ≤ mx x y z - mn x y z := by linarith
    rw [abs_of_nonneg hC0, hu] at ec0
    have := abs_sub_abs_le_abs_sub (mx x y z - mn x y z) (toReal c)
    rw [abs_sub_comm (mx x y z - mn x y z) _, abs_of_nonneg hC0] at this
    nlinarith
  obtain ⟨fc, hClo, hce, _⟩ := chroma_pos xmax xmin wmin fM fm _ _ vM vm ⟨b0, b1, b2⟩ g1
  have hC1 : mx x y z - mn x y z ≤ 1 := by linarith
  have hCpos : 0 < mx x y z - mn x y z := by linarith
  obtain ⟨f1, d1⟩ := hue_term p.y p.z c hw.wz hp.fy hp.fz fc _ _ cy cz hClo hC1 hce
  obtain ⟨f2, d2⟩ := hue_term p.z p.x c hw.wx hp.fz hp.fx fc _ _ cz cx hClo hC1 hce
  obtain ⟨f3, d3⟩ := hue_term p.x p.y c hw.wy hp.fx hp.fy fc _ _ cx cy hClo hC1 hce
  have a1 := hue_term_acc p.y p.z c hw.wz hp.fy hp.fz fc _ _ cy cz hClo hC1 hce
  have a2 := hue_term_acc p.z p.x c hw.wx hp.fz hp.fx fc _ _ cz cx hClo hC1 hce
  have a3 := hue_term_acc p.x p.y c hw.wy hp.fx hp.fy fc _ _ cx cy hClo hC1 hce
  have rb : ∀ a b : ℝ, mn x y z ≤ a ∧ a ≤ mx x y z → mn x y z ≤ b ∧ b ≤ mx x y z → |(a - b) / (mx x y z - mn x y z)| ≤ 1 := by
    intro a b ha hb
    rw [abs_div, abs_of_pos hCpos, div_le_one hCpos, abs_le]; constructor <;> linarith [ha.1, ha.2, hb.1, hb.2]
  obtain ⟨gx1, gx2⟩ := near_guard xmax p.x hw.wx fM hp.fx (by rw [vM]; exact cx.2) (by rw [vM]; exact b2) hp.bx.1
  obtain ⟨gy1, gy2⟩ := near_guard xmax p.y hw.wy fM hp.fy (by rw [vM]; exact cy.2) (by rw [vM]; exact b2) hp.bY.1
  rw [vM] at gx1 gx2 gy1 gy2
  have hδC : 4 * (12 / 100000000 : ℝ) ≤ mx x y z - mn x y z := by linarith
  have hδb : 60 * (12 / 100000000 : ℝ) / (mx x y z - mn x y z) ≤ 72 / 100000 := by
    rw [div_le_iff₀ hCpos]; nlinarith
  simp only [g1, Bool.false_eq_true, if_false]
  by_cases g2 : F32.lt (F32.abs (F32.sub xmax p.x)) EPSILON = true
  · simp only [g2, if_true]
    obtain ⟨fh, bh⟩ := hue_scale0 _ f1 d1
    have hw3 := wrap_circ _ fh bh
    have hraw := raw0 _ f1 _ a1 (rb y z cy cz)
    have hsx := sext_x x y z (12 / 100000000) hCpos (gx1 g2) hδC
    obtain ⟨k1, e1⟩ := hw3; obtain ⟨k3, e3⟩ := hsx
    refine ⟨k1 + k3, ?_⟩
    obtain ⟨r1, r2⟩ := abs_le.mp hraw; obtain ⟨w1, w2⟩ := abs_le.mp e1; obtain ⟨s1, s2⟩ := abs_le.mp e3
    push_cast
    rw [abs_le]; constructor <;> linarith
  · have g2' : F32.lt (F32.abs (F32.sub xmax p.x)) EPSILON = false := by simpa using g2
    have hMx : mx x y z ≠ x := gx2 g2'
    simp only [g2', Bool.false_eq_true, if_false]
    by_cases g3 : F32.lt (F32.abs (F32.sub xmax p.y)) EPSILON = true
    · simp only [g3, if_true]
      obtain ⟨fh, bh⟩ := hue_scale 0x40000000 _ c_two.1 (by rw [c_two.2]; norm_num) f2 d2
      have hw3 := wrap_circ _ fh bh
      have hraw := rawk 0x40000000 _ 2 c_two.1 c_two.2 (by norm_num) f2 _ a2 (rb z x cz cx)
      have hsy := sext_y x y z (12 / 100000000) hCpos hMx (gy1 g3) hδC
      obtain ⟨k1, e1⟩ := hw3; obtain ⟨k3, e3⟩ := hsy
      refine ⟨k1 + k3, ?_⟩
      obtain ⟨r1, r2⟩ := abs_le.mp hraw; obtain ⟨w1, w2⟩ := abs_le.mp e1; obtain ⟨s1, s2⟩ := abs_le.mp e3
      push_cast
      rw [abs_le]; constructor <;> linarith
    · have g3' : F32.lt (F32.abs (F32.sub xmax p.y)) EPSILON = false := by simpa using g3
      have hMy : mx x y z ≠ y := gy2 g3'
      simp only [g3', Bool.false_eq_true, if_false]
      obtain ⟨fh, bh⟩ := hue_scale 0x40800000 _ c_four.1 (by rw [c_four.2]; norm_num) f3 d3
      have hw3 := wrap_circ _ fh bh
      have hraw := rawk 0x40800000 _ 4 c_four.1 c_four.2 (by norm_num) f3 _ a3 (rb x y cx cy)
      rw [specH_z x y z hCpos.ne' hMx hMy]
      obtain ⟨k1, e1⟩ := hw3
      refine ⟨k1, ?_⟩
      obtain ⟨r1, r2⟩ := abs_le.mp hraw; obtain ⟨w1, w2⟩ := abs_le.mp e1
      rw [abs_le]; constructor <;> linarith

end C17
