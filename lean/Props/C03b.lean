import Props.C03
import Proofs.PowExt
/-! C03, accuracy clause for the pure power-law family (BT.1886 and its four aliases, BT.470M, BT.470BG), both
directions, fastmath build, both FMA modes: for EVERY binary32 value in [0,1] (zero of either sign, subnormals, normals)
the curve returns a finite value within 2.5e-4 of the defining formula `x^γ` / `x^(1/γ)` over the reals.
Kernel-checked (no native evaluation); the exponent constants are taken from the regenerated source constants. -/
namespace C03
open F32 MathM TransferM Real ExpPoly Horner

/-- the guard `x < 0.0` is false on `[0, 1]` -/
theorem not_lt_zero (x z : Nat) (hx : Finite x) (hz : Finite z ∧ toReal z = 0) (h0 : 0 ≤ toReal x) : lt x z = false := by
  by_contra h
  have h' : lt x z = true := by cases hq : lt x z <;> simp_all
  have := (lt_iff x z hx hz.1).mp h'
  rw [hz.2] at this; linarith

/-- a power-law branch `if x < 0 { 0 } else { powf(x, y) }` against `x^γ` -/
theorem pow_branch (B : Build) (hB : B.fastmath = true) (thr zero yb : Nat) (γ : ℝ) (hthr : Finite thr ∧ toReal thr = 0)
    (hy : Finite yb) (hyγ : |toReal yb - γ| ≤ 1 / 10 ^ 6) (hγ1 : 35 / 100 ≤ γ) (hγ2 : γ ≤ 14 / 5)
    (x : Nat) (hxw : WF x) (hx : Finite x) (h0 : 0 ≤ toReal x) (h1 : toReal x ≤ 1) :
    ∃ r, (if lt x thr then Out.ok zero else powf B x yb) = .ok r ∧ Finite r ∧ |toReal r - (toReal x) ^ γ| < 25 / 10 ^ 5 := by
  rw [not_lt_zero x thr hx hthr h0]
  simp only [Bool.false_eq_true, if_false]
  have hp : powf B x yb = powfFast B.fma x yb := by unfold powf; rw [if_pos hB]
  rw [hp]
  obtain ⟨r, hr1, hr2, hr3⟩ := PowCurve.pow_unit B.fma x yb γ hxw hx h0 h1 hy hγ1 (by linarith) hyγ
  refine ⟨r, hr1, hr2, lt_of_le_of_lt hr3 ?_⟩
  nlinarith

/-- the exponent constants of the six functions (regenerated from the source), evaluated exactly -/
theorem cert_exponents :
    finiteB C.rec_1886_eotf_f0 = true ∧ ratOf C.rec_1886_eotf_f0 = 0 ∧
    finiteB C.rec_1886_inverse_eotf_f0 = true ∧ ratOf C.rec_1886_inverse_eotf_f0 = 0 ∧
    finiteB C.rec_470m_oetf_f0 = true ∧ ratOf C.rec_470m_oetf_f0 = 0 ∧
    finiteB C.rec_470m_inverse_oetf_f0 = true ∧ ratOf C.rec_470m_inverse_oetf_f0 = 0 ∧
    finiteB C.rec_470bg_oetf_f0 = true ∧ ratOf C.rec_470bg_oetf_f0 = 0 ∧
    finiteB C.rec_470bg_inverse_oetf_f0 = true ∧ ratOf C.rec_470bg_inverse_oetf_f0 = 0 ∧
    finiteB C.rec_1886_eotf_f2 = true ∧ |ratOf C.rec_1886_eotf_f2 - 24 / 10| ≤ 1 / 10 ^ 6 ∧
    finiteB (div C.rec_1886_inverse_eotf_f2 C.rec_1886_inverse_eotf_f3) = true ∧
      |ratOf (div C.rec_1886_inverse_eotf_f2 C.rec_1886_inverse_eotf_f3) - 10 / 24| ≤ 1 / 10 ^ 6 ∧
    finiteB C.rec_470m_oetf_f2 = true ∧ |ratOf C.rec_470m_oetf_f2 - 22 / 10| ≤ 1 / 10 ^ 6 ∧
    finiteB (div C.rec_470m_inverse_oetf_f2 C.rec_470m_inverse_oetf_f3) = true ∧
      |ratOf (div C.rec_470m_inverse_oetf_f2 C.rec_470m_inverse_oetf_f3) - 10 / 22| ≤ 1 / 10 ^ 6 ∧
    finiteB C.rec_470bg_oetf_f2 = true ∧ |ratOf C.rec_470bg_oetf_f2 - 28 / 10| ≤ 1 / 10 ^ 6 ∧
    finiteB (div C.rec_470bg_inverse_oetf_f2 C.rec_470bg_inverse_oetf_f3) = true ∧
      |ratOf (div C.rec_470bg_inverse_oetf_f2 C.rec_470bg_inverse_oetf_f3) - 10 / 28| ≤ 1 / 10 ^ 6 := by
  decide +kernel

theorem zero_of (a : Nat) (h1 : finiteB a = true) (h2 : ratOf a = 0) : Finite a ∧ toReal a = 0 := by
  obtain ⟨f, v⟩ := Exp2.rat_val a h1
  exact ⟨f, by rw [v, h2]; simp⟩

theorem near_of (a : Nat) (q : ℚ) (h1 : finiteB a = true) (h2 : |ratOf a - q| ≤ 1 / 10 ^ 6) :
    Finite a ∧ |toReal a - (q:ℝ)| ≤ 1 / 10 ^ 6 := by
  obtain ⟨f, v⟩ := Exp2.rat_val a h1
  refine ⟨f, ?_⟩
  rw [v]
  have := (Rat.cast_le (K := ℝ)).mpr h2
  push_cast at this ⊢
  exact this

theorem exp2_wf (fm : Bool) (z r : Nat) (h : exp2 fm z = .ok r) : WF r := by
  unfold exp2 at h
  dsimp only at h
  cases hq : toI32Unchecked (sub (exp2Clamp z) C.exp2_f2) with
  | ub => rw [hq] at h; cases h
  | ok i => rw [hq] at h; injection h with h; rw [← h]; unfold exp2Val; exact mul_wf _ _

theorem powf_wf (B : Build) (hB : B.fastmath = true) (x y r : Nat) (h : powf B x y = .ok r) : WF r := by
  unfold powf at h; rw [if_pos hB] at h
  exact exp2_wf _ _ _ h

/-- what the curve proofs need from `powf` in a given build: on bases in `[0, 1 + 1e-6]` and exponents next to a real
`γ ∈ [0.35, 3]`, a well-formed finite result within `c0 + c1 γ` of `x^γ`. The fast path provides it with
`c0 = 1.922e-4, c1 = 7.914e-6` (`fast_oracle`); without `fastmath` it is a hypothesis on the libm parameter. -/
def PowOracle (B : Build) (c0 c1 : ℝ) : Prop :=
  ∀ (x y : Nat) (γ : ℝ), WF x → Finite x → 0 ≤ toReal x → toReal x ≤ 1 + 1 / 10 ^ 6 → Finite y →
    35 / 100 ≤ γ → γ ≤ 3 → |toReal y - γ| ≤ 1 / 10 ^ 6 →
    ∃ r, powf B x y = .ok r ∧ WF r ∧ Finite r ∧ |toReal r - (toReal x) ^ γ| ≤ c0 + c1 * γ

theorem fast_oracle (B : Build) (hB : B.fastmath = true) : PowOracle B (1922 / 10 ^ 7) (7914 / 10 ^ 9) := by
  intro x y γ hxw hx h0 h1 hy hγ1 hγ2 hyγ
  have hp : powf B x y = powfFast B.fma x y := by unfold powf; rw [if_pos hB]
  obtain ⟨r, hr1, hr2, hr3⟩ := PowCurve.pow_unit_ext B.fma x y γ hxw hx h0 h1 hy hγ1 hγ2 hyγ
  refine ⟨r, by rw [hp]; exact hr1, powf_wf B hB x y r (by rw [hp]; exact hr1), hr2, ?_⟩
  linarith

/-- a curve is within `ε` of a real function on every binary32 of `[0, 1]` -/
def CurveWithinB (f : Nat → Out Nat) (spec : ℝ → ℝ) (ε : ℝ) : Prop :=
  ∀ x : Nat, WF x → Finite x → 0 ≤ toReal x → toReal x ≤ 1 →
    ∃ r, f x = .ok r ∧ Finite r ∧ |toReal r - spec (toReal x)| ≤ ε

/-- a power-law branch `if x < 0 { 0 } else { powf(x, y) }` against `x^γ`, for any build meeting the oracle -/
theorem pow_branch_o (B : Build) (c0 c1 : ℝ) (ho : PowOracle B c0 c1) (thr zero yb : Nat) (γ : ℝ) (hthr : Finite thr ∧ toReal thr = 0)
    (hy : Finite yb) (hyγ : |toReal yb - γ| ≤ 1 / 10 ^ 6) (hγ1 : 35 / 100 ≤ γ) (hγ2 : γ ≤ 3) :
    CurveWithinB (fun x => if lt x thr then Out.ok zero else powf B x yb) (fun X => X ^ γ) (c0 + c1 * γ) := by
  intro x hxw hx h0 h1
  simp only
  rw [not_lt_zero x thr hx hthr h0]
  simp only [Bool.false_eq_true, if_false]
  obtain ⟨r, hr1, _, hr2, hr3⟩ := ho x yb γ hxw hx h0 (by linarith) hy hγ1 hγ2 hyγ
  exact ⟨r, hr1, hr2, hr3⟩

/-- what the property says about one direction of one curve: on every binary32 of `[0,1]` the result is finite and
within 2.5e-4 of `x^γ` -/
def CurveWithin (f : Nat → Out Nat) (γ : ℝ) : Prop :=
  ∀ x : Nat, WF x → Finite x → 0 ≤ toReal x → toReal x ≤ 1 →
    ∃ r, f x = .ok r ∧ Finite r ∧ |toReal r - (toReal x) ^ γ| < 25 / 10 ^ 5

section fast
variable (B : Build) (hB : B.fastmath = true)
include hB

theorem bt1886_to_linear : CurveWithin (rec_1886_eotf B) (24 / 10) := by
  obtain ⟨a1, a2, _, _, _, _, _, _, _, _, _, _, e1, e2, _⟩ := cert_exponents
  intro x hxw hx h0 h1
  obtain ⟨fy, vy⟩ := near_of _ _ e1 e2
  unfold rec_1886_eotf
  exact pow_branch B hB _ _ _ (24 / 10) (zero_of _ a1 a2) fy (by push_cast at vy; exact vy) (by norm_num) (by norm_num) x hxw hx h0 h1

theorem bt1886_to_gamma : CurveWithin (rec_1886_inverse_eotf B) (10 / 24) := by
  obtain ⟨_, _, a1, a2, _, _, _, _, _, _, _, _, _, _, e1, e2, _⟩ := cert_exponents
  intro x hxw hx h0 h1
  obtain ⟨fy, vy⟩ := near_of _ _ e1 e2
  unfold rec_1886_inverse_eotf
  exact pow_branch B hB _ _ _ (10 / 24) (zero_of _ a1 a2) fy (by push_cast at vy; exact vy) (by norm_num) (by norm_num) x hxw hx h0 h1

theorem bt470m_to_linear : CurveWithin (rec_470m_oetf B) (22 / 10) := by
  obtain ⟨_, _, _, _, a1, a2, _, _, _, _, _, _, _, _, _, _, e1, e2, _⟩ := cert_exponents
  intro x hxw hx h0 h1
  obtain ⟨fy, vy⟩ := near_of _ _ e1 e2
  unfold rec_470m_oetf
  exact pow_branch B hB _ _ _ (22 / 10) (zero_of _ a1 a2) fy (by push_cast at vy; exact vy) (by norm_num) (by norm_num) x hxw hx h0 h1

theorem bt470m_to_gamma : CurveWithin (rec_470m_inverse_oetf B) (10 / 22) := by
  obtain ⟨_, _, _, _, _, _, a1, a2, _, _, _, _, _, _, _, _, _, _, e1, e2, _⟩ := cert_exponents
  intro x hxw hx h0 h1
  obtain ⟨fy, vy⟩ := near_of _ _ e1 e2
  unfold rec_470m_inverse_oetf
  exact pow_branch B hB _ _ _ (10 / 22) (zero_of _ a1 a2) fy (by push_cast at vy; exact vy) (by norm_num) (by norm_num) x hxw hx h0 h1

theorem bt470bg_to_linear : CurveWithin (rec_470bg_oetf B) (28 / 10) := by
  obtain ⟨_, _, _, _, _, _, _, _, a1, a2, _, _, _, _, _, _, _, _, _, _, e1, e2, _⟩ := cert_exponents
  intro x hxw hx h0 h1
  obtain ⟨fy, vy⟩ := near_of _ _ e1 e2
  unfold rec_470bg_oetf
  exact pow_branch B hB _ _ _ (28 / 10) (zero_of _ a1 a2) fy (by push_cast at vy; exact vy) (by norm_num) (by norm_num) x hxw hx h0 h1

theorem bt470bg_to_gamma : CurveWithin (rec_470bg_inverse_oetf B) (10 / 28) := by
  obtain ⟨_, _, _, _, _, _, _, _, _, _, a1, a2, _, _, _, _, _, _, _, _, _, _, e1, e2⟩ := cert_exponents
  intro x hxw hx h0 h1
  obtain ⟨fy, vy⟩ := near_of _ _ e1 e2
  unfold rec_470bg_inverse_oetf
  exact pow_branch B hB _ _ _ (10 / 28) (zero_of _ a1 a2) fy (by push_cast at vy; exact vy) (by norm_num) (by norm_num) x hxw hx h0 h1

/-- the defining exponent of the power-law transfer characteristics -/
noncomputable def gammaOf : TC → ℝ
  | .BT470M => 22 / 10
  | .BT470BG => 28 / 10
  | _ => 24 / 10

def powerLaw : List TC := [.BT1886, .ST170M, .ST240M, .BT2020Ten, .BT2020Twelve, .BT470M, .BT470BG]

/-- **C03, power-law family through the dispatch**: for each of the seven characteristics, `to_linear` is within 2.5e-4 of
`x^γ` and `to_gamma` within 2.5e-4 of `x^(1/γ)` on every binary32 of `[0, 1]` -/
theorem power_law_curves (t : TC) (ht : t ∈ powerLaw) :
    (∃ f, toLinearFn B t = .ok f ∧ CurveWithin f (gammaOf t)) ∧ (∃ g, toGammaFn B t = .ok g ∧ CurveWithin g (1 / gammaOf t)) := by
  simp only [powerLaw, List.mem_cons, List.mem_nil_iff, or_false] at ht
  have e24 : (1:ℝ) / (24 / 10) = 10 / 24 := by norm_num
  have e22 : (1:ℝ) / (22 / 10) = 10 / 22 := by norm_num
  have e28 : (1:ℝ) / (28 / 10) = 10 / 28 := by norm_num
  rcases ht with rfl | rfl | rfl | rfl | rfl | rfl | rfl
  all_goals first
    | exact ⟨⟨_, rfl, bt1886_to_linear B hB⟩, ⟨_, rfl, by simp only [gammaOf]; rw [e24]; exact bt1886_to_gamma B hB⟩⟩
    | exact ⟨⟨_, rfl, bt470m_to_linear B hB⟩, ⟨_, rfl, by simp only [gammaOf]; rw [e22]; exact bt470m_to_gamma B hB⟩⟩
    | exact ⟨⟨_, rfl, bt470bg_to_linear B hB⟩, ⟨_, rfl, by simp only [gammaOf]; rw [e28]; exact bt470bg_to_gamma B hB⟩⟩


end fast

/-! ### the same six curves for any build meeting the oracle (used for the build without `fastmath`, C20) -/
section oracle
variable (B : Build) (c0 c1 : ℝ) (ho : PowOracle B c0 c1)
include ho

theorem bt1886_to_linear_o : CurveWithinB (rec_1886_eotf B) (fun X => X ^ ((24:ℝ) / 10)) (c0 + c1 * (24 / 10)) := by
  obtain ⟨a1, a2, _, _, _, _, _, _, _, _, _, _, e1, e2, _⟩ := cert_exponents
  obtain ⟨fy, vy⟩ := near_of _ _ e1 e2
  exact pow_branch_o B c0 c1 ho _ _ _ (24 / 10) (zero_of _ a1 a2) fy (by push_cast at vy; exact vy) (by norm_num) (by norm_num)

theorem bt1886_to_gamma_o : CurveWithinB (rec_1886_inverse_eotf B) (fun X => X ^ ((10:ℝ) / 24)) (c0 + c1 * (10 / 24)) := by
  obtain ⟨_, _, a1, a2, _, _, _, _, _, _, _, _, _, _, e1, e2, _⟩ := cert_exponents
  obtain ⟨fy, vy⟩ := near_of _ _ e1 e2
  exact pow_branch_o B c0 c1 ho _ _ _ (10 / 24) (zero_of _ a1 a2) fy (by push_cast at vy; exact vy) (by norm_num) (by norm_num)

theorem bt470m_to_linear_o : CurveWithinB (rec_470m_oetf B) (fun X => X ^ ((22:ℝ) / 10)) (c0 + c1 * (22 / 10)) := by
  obtain ⟨_, _, _, _, a1, a2, _, _, _, _, _, _, _, _, _, _, e1, e2, _⟩ := cert_exponents
  obtain ⟨fy, vy⟩ := near_of _ _ e1 e2
  exact pow_branch_o B c0 c1 ho _ _ _ (22 / 10) (zero_of _ a1 a2) fy (by push_cast at vy; exact vy) (by norm_num) (by norm_num)

theorem bt470m_to_gamma_o : CurveWithinB (rec_470m_inverse_oetf B) (fun X => X ^ ((10:ℝ) / 22)) (c0 + c1 * (10 / 22)) := by
  obtain ⟨_, _, _, _, _, _, a1, a2, _, _, _, _, _, _, _, _, _, _, e1, e2, _⟩ := cert_exponents
  obtain ⟨fy, vy⟩ := near_of _ _ e1 e2
  exact pow_branch_o B c0 c1 ho _ _ _ (10 / 22) (zero_of _ a1 a2) fy (by push_cast at vy; exact vy) (by norm_num) (by norm_num)

theorem bt470bg_to_linear_o : CurveWithinB (rec_470bg_oetf B) (fun X => X ^ ((28:ℝ) / 10)) (c0 + c1 * (28 / 10)) := by
  obtain ⟨_, _, _, _, _, _, _, _, a1, a2, _, _, _, _, _, _, _, _, _, _, e1, e2, _⟩ := cert_exponents
  obtain ⟨fy, vy⟩ := near_of _ _ e1 e2
  exact pow_branch_o B c0 c1 ho _ _ _ (28 / 10) (zero_of _ a1 a2) fy (by push_cast at vy; exact vy) (by norm_num) (by norm_num)

theorem bt470bg_to_gamma_o : CurveWithinB (rec_470bg_inverse_oetf B) (fun X => X ^ ((10:ℝ) / 28)) (c0 + c1 * (10 / 28)) := by
  obtain ⟨_, _, _, _, _, _, _, _, _, _, a1, a2, _, _, _, _, _, _, _, _, _, _, e1, e2⟩ := cert_exponents
  obtain ⟨fy, vy⟩ := near_of _ _ e1 e2
  exact pow_branch_o B c0 c1 ho _ _ _ (10 / 28) (zero_of _ a1 a2) fy (by push_cast at vy; exact vy) (by norm_num) (by norm_num)

end oracle

end C03
