import Model.Types
/-! C14 — support and error contract over every metadata combination.
The error/success status of every conversion is a function of the metadata alone (`st*` below; theorems `*_status`
tie them to the API-level model functions for *every* image), and the contract is then decided over all
15 x 14 x 19 enum values by the kernel (`decide`), never evaluating a float. -/
namespace C14
open ColorM PixelM TransferM FrameM Api Mat32

/-- error of YUV<->RGB (either direction) for matrix `m`, primaries `p` -/
def stYuvRgb (fm : Bool) (m : MC) (p : CP) : Option CErr :=
  match rgbToYuvMatrix fm m p with | .error e => some e | .ok _ => none

/-- error of gamma->linear (`LinearRgb::try_from(Rgb)`) -/
def stLin (B : Build) (t : TC) (p : CP) : Option CErr :=
  match toLinearFn B t with
  | .error e => some e
  | .ok _ => match primariesMatrix B.fma p .BT709 with | .error e => some e | .ok _ => none

/-- error of linear->gamma (`Rgb::try_from((LinearRgb, t, p))`), `t`, `p` as passed by the caller -/
def stGam (B : Build) (t : TC) (p : CP) : Option CErr :=
  let t := if t = .Unspecified then TC.SRGB else t
  let p := if p = .Unspecified then CP.BT709 else p
  match toGammaFn B t with
  | .error e => some e
  | .ok _ => match primariesMatrix B.fma .BT709 p with | .error e => some e | .ok _ => none

def isErr {α} (r : Res α) (e : CErr) : Prop := r = .ok (.error e)
def noErr {α} (r : Res α) : Prop := ∀ e, r ≠ .ok (.error e)

/-! ### the status functions describe the model's API functions, for every image -/

theorem yuvToRgb_status (B : Build) (yuv : Yuv) :
    (∀ e, stYuvRgb B.fma yuv.cfg.matrix yuv.cfg.primaries = some e → isErr (yuvToRgb B yuv) e) ∧
    (stYuvRgb B.fma yuv.cfg.matrix yuv.cfg.primaries = none → noErr (yuvToRgb B yuv)) := by
  unfold stYuvRgb yuvToRgb yuvToRgbMatrix isErr noErr
  cases h : rgbToYuvMatrix B.fma yuv.cfg.matrix yuv.cfg.primaries with
  | error e => simp
  | ok t =>
    simp only [reduceCtorEq, false_implies, implies_true, true_and]
    intro _ e
    cases ycbcrToYpbpr yuv <;> simp [Out.bind]

theorem rgbToYuv_status (B : Build) (rgb : Rgb) (cfg : Cfg) (ts : Nat) :
    (∀ e, stYuvRgb B.fma cfg.matrix cfg.primaries = some e → isErr (rgbToYuv B rgb cfg ts) e) ∧
    (stYuvRgb B.fma cfg.matrix cfg.primaries = none → noErr (rgbToYuv B rgb cfg ts)) := by
  unfold stYuvRgb rgbToYuv isErr noErr
  cases h : rgbToYuvMatrix B.fma cfg.matrix cfg.primaries with
  | error e => simp
  | ok t =>
    simp only [reduceCtorEq, false_implies, implies_true, true_and]
    intro _ e
    cases ypbprToYcbcr (Array.map (M3.mulArr B.fma t) rgb.data) rgb.w rgb.h cfg ts <;> simp [Out.bind]

theorem rgbToLinear_status (B : Build) (rgb : Rgb) :
    (stLin B rgb.transfer rgb.primaries = none → noErr (rgbToLinear B rgb)) ∧
    (∀ e, isErr (rgbToLinear B rgb) e → stLin B rgb.transfer rgb.primaries = some e) := by
  unfold stLin rgbToLinear toLinearImg transformPrimaries isErr noErr
  cases h : toLinearFn B rgb.transfer with
  | error e => simp [Out.bind]
  | ok f =>
    cases hm : mapPx f rgb.data with
    | ok d =>
      cases hp : primariesMatrix B.fma rgb.primaries CP.BT709 <;> simp [Out.bind, hm]
    | ub s => cases hp : primariesMatrix B.fma rgb.primaries CP.BT709 <;> simp [Out.bind, hm]
    | panic s => cases hp : primariesMatrix B.fma rgb.primaries CP.BT709 <;> simp [Out.bind, hm]

theorem linearToRgb_status (B : Build) (l : FImg) (t : TC) (p : CP) :
    (stGam B t p = none → noErr (linearToRgb B l t p)) ∧
    (∀ e, isErr (linearToRgb B l t p) e → stGam B t p = some e) := by
  unfold stGam linearToRgb toGammaImg transformPrimaries isErr noErr
  simp only
  cases h : toGammaFn B (if t = TC.Unspecified then TC.SRGB else t) with
  | error e => simp
  | ok f =>
    cases hp : primariesMatrix B.fma CP.BT709 (if p = CP.Unspecified then CP.BT709 else p) with
    | error e => simp
    | ok m =>
      simp only [reduceCtorEq, true_implies]
      cases hm : mapPx f (Array.map (applyPrim B.fma m) l.data) <;> simp [Out.bind]

/-! ### the contract, decided over every enum value -/

def specifiedM (m : MC) : Bool := m != .Unspecified
def specifiedT (t : TC) : Bool := t != .Unspecified
def specifiedP (p : CP) : Bool := p != .Unspecified

def std7 : List MC := [.BT709, .BT470M, .BT470BG, .ST170M, .ST240M, .BT2020NonConstantLuminance, .YCgCo]
def curves14 : List TC := [.BT1886, .ST170M, .ST240M, .BT2020Ten, .BT2020Twelve, .BT470M, .BT470BG, .SRGB, .XVYCC, .Logarithmic100,
  .Logarithmic316, .PerceptualQuantizer, .HybridLogGamma, .Linear]
def prims11 : List CP := [.BT709, .BT470M, .BT470BG, .ST170M, .ST240M, .Film, .BT2020, .ST428, .P3DCI, .P3Display, .Tech3213]

def namesField : CErr → Bool
  | .UnsupportedMatrixCoefficients | .UnspecifiedMatrixCoefficients | .UnsupportedColorPrimaries | .UnspecifiedColorPrimaries
  | .UnsupportedTransferCharacteristic | .UnspecifiedTransferCharacteristic => true

def dummyLibm : Libm := { ln := id, log10 := id, powf := fun x _ => x, expf := id, cbrt := id }
def mkB (fast fm : Bool) : Build := { fastmath := fast, fma := fm, libm := dummyLibm }

/-- the status does not depend on the build (fastmath, fma, libm) -/
theorem stLin_build (B B' : Build) (t : TC) (p : CP) : stLin B t p = stLin B' t p := by
  cases t <;> cases p <;> rfl
theorem stGam_build (B B' : Build) (t : TC) (p : CP) : stGam B t p = stGam B' t p := by
  cases t <;> cases p <;> rfl
theorem stYuvRgb_build (fm fm' : Bool) (m : MC) (p : CP) : stYuvRgb fm m p = stYuvRgb fm' m p := by
  cases m <;> cases p <;> rfl

/-- gamma<->linear: success sets coincide and the errors are equal, on every fully specified (t, p) -/
theorem gamma_linear_symmetric :
    ∀ t ∈ TC.all, ∀ p ∈ CP.all, specifiedT t = true → specifiedP p = true →
      stLin (mkB true false) t p = stGam (mkB true false) t p := by decide

/-- the 14 curves x 11 primaries always succeed; the 7 standard matrices always succeed whatever the primaries -/
theorem supported_succeed :
    (∀ t ∈ curves14, ∀ p ∈ prims11, stLin (mkB true false) t p = none ∧ stGam (mkB true false) t p = none) ∧
    (∀ m ∈ std7, ∀ p ∈ CP.all, stYuvRgb false m p = none) := by decide

/-- failure names the field that is at fault: an Unsupported/Unspecified transfer error only for a transfer value
outside the 14 curves, a primaries error only for primaries outside the supported list, a matrix error only for a
matrix the crate does not implement -/
theorem errors_name_the_field :
    (∀ t ∈ TC.all, ∀ p ∈ CP.all, ∀ e, stLin (mkB true false) t p = some e →
        (e = .UnsupportedTransferCharacteristic ∧ t ∉ curves14 ∧ t ≠ .Unspecified) ∨ (e = .UnspecifiedTransferCharacteristic ∧ t = .Unspecified) ∨
        (e = .UnsupportedColorPrimaries ∧ p ∉ prims11 ∧ p ≠ .Unspecified ∧ t ∈ curves14) ∨ (e = .UnspecifiedColorPrimaries ∧ p = .Unspecified ∧ t ∈ curves14)) ∧
    (∀ m ∈ MC.all, ∀ p ∈ CP.all, ∀ e, stYuvRgb false m p = some e →
        (e = .UnsupportedMatrixCoefficients ∧ m ∉ std7) ∨ (e = .UnspecifiedMatrixCoefficients ∧ m = .Unspecified) ∨
        (e = .UnsupportedColorPrimaries ∧ m ∉ std7 ∧ p ∉ prims11) ∨ (e = .UnsupportedColorPrimaries ∧ m ∉ std7 ∧ p = .ST428) ∨
        (e = .UnspecifiedColorPrimaries ∧ m ∉ std7 ∧ p = .Unspecified)) := by
  constructor
  · intro t _ p _ e h
    cases t <;> cases p <;> simp [stLin, toLinearFn, primariesMatrix, gamutXyzToRgb, gamutRgbToXyz, primariesXyz, primariesXy, mkB] at h <;>
      subst h <;> simp [curves14, prims11]
  · intro m _ p _ e h
    cases m <;> cases p <;>
      simp [stYuvRgb, rgbToYuvMatrix, nclMatrix, nclFromPrimaries, yuvConstants, constantsFromPrimaries, primariesXy] at h <;>
      subst h <;> simp [std7, prims11]

/-- two-stage conversions: YUV->linear fails iff one of its stages does, and so does linear->YUV; hence support is symmetric -/
def stYuvLin (m : MC) (t : TC) (p : CP) : Option CErr := (stYuvRgb false m p).orElse fun _ => stLin (mkB true false) t p
def stLinYuv (m : MC) (t : TC) (p : CP) : Option CErr := (stGam (mkB true false) t p).orElse fun _ => stYuvRgb false m p

theorem two_stage_support_symmetric :
    ∀ m ∈ MC.all, ∀ t ∈ TC.all, ∀ p ∈ CP.all, specifiedM m = true → specifiedT t = true → specifiedP p = true →
      ((stYuvLin m t p = none) ↔ (stLinYuv m t p = none)) := by decide

/-- with a standard matrix the YUV<->RGB matrix (hence the result) ignores the primaries; the transfer is never used -/
theorem std_matrix_ignores_primaries (fm : Bool) :
    ∀ m ∈ std7, ∀ p p' : CP, rgbToYuvMatrix fm m p = rgbToYuvMatrix fm m p' ∧ yuvToRgbMatrix fm m p = yuvToRgbMatrix fm m p' := by
  intro m hm p p'
  simp only [std7, List.mem_cons, List.not_mem_nil, or_false] at hm
  rcases hm with rfl | rfl | rfl | rfl | rfl | rfl | rfl <;> exact ⟨rfl, rfl⟩

/-- non-vacuity: the quantified domain has 14 x 13 x 18 = 3276 fully specified triples and both outcomes occur -/
example : ((MC.all.filter specifiedM).length, (CP.all.filter specifiedP).length, (TC.all.filter specifiedT).length) = (14, 13, 18) := by decide
example : stLin (mkB true false) .Reserved .Reserved0 = some .UnsupportedTransferCharacteristic ∧ stGam (mkB true false) .Reserved .Reserved0 = some .UnsupportedTransferCharacteristic := by decide
example : stYuvLin .BT709 .SRGB .BT2020 = none ∧ stYuvLin .ICtCp .SRGB .Film = none ∧ stYuvLin .ICtCp .SRGB .ST428 = some .UnsupportedColorPrimaries := by decide

end C14
