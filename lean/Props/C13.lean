import Props.C07
/-! C13 — conversions are total on arbitrary float data and always emit valid codes: the YUV-side part.
Pixel data are arbitrary bit patterns (`Nat`s) in every theorem below - NaN, infinities, subnormals, huge values included.
The transfer-curve stage can only fail through `exp2`'s unchecked conversion; that it never does is Props/C18
(pending, see `partial`); the XYB/HSL/primaries stages are total by construction (plain maps). -/
namespace C13
open FrameM FrameP Api Mat32 ColorM

/-- every code the encoder can emit is at most 2^n - 1, whatever float it is given -/
theorem codes_valid (cfg : Cfg) (ts v : Nat) (hbd : cfg.bd ≤ 16) :
    C11.lumaFn cfg ts v ≤ 2 ^ cfg.bd - 1 ∧ C11.chromaFn cfg ts v ≤ 2 ^ cfg.bd - 1 := by
  have h1 := fromF32Luma_le ts v (scaleOffset false cfg.bd cfg.full false).1 (scaleOffset false cfg.bd cfg.full false).2 cfg.bd
  have h2 := fromF32Chroma_le ts v (scaleOffset false cfg.bd cfg.full true).1 (scaleOffset false cfg.bd cfg.full true).2 cfg.bd cfg.full
  have : (2 ^ cfg.bd - 1) % 65536 ≤ 2 ^ cfg.bd - 1 := Nat.mod_le _ _
  exact ⟨Nat.le_trans h1 this, Nat.le_trans h2 this⟩

/-- RGB->YUV on ANY float data: for every image whose size the subsampling divides the conversion returns a value or a
`ConversionError` - never a panic, never UB - and a returned image satisfies the constructor invariant (so it can always be
re-wrapped) with every visible sample a valid code -/
theorem rgbToYuv_total (B : Build) (rgb : Rgb) (cfg : Cfg) (ts : Nat) (hw : 0 < rgb.w) (hh : 0 < rgb.h) (hsz : rgb.data.size = rgb.w * rgb.h)
    (wdiv : rgb.w % 2 ^ cfg.ssx = 0) (hdiv : rgb.h % 2 ^ cfg.ssy = 0) (hss : cfg.ssx < 256 ∧ cfg.ssy < 256)
    (fits : (Plane.new (rgb.w >>> cfg.ssx) (rgb.h >>> cfg.ssy) cfg.ssx cfg.ssy 0 0 ts).data.size < USIZE_MAX) :
    (∃ e, rgbToYuv B rgb cfg ts = .ok (.error e)) ∨ (∃ g, rgbToYuv B rgb cfg ts = .ok (.ok g) ∧ InvYuv g) := by
  unfold rgbToYuv
  split
  · exact Or.inl ⟨_, rfl⟩
  · rename_i t _
    obtain ⟨g, e, i, _⟩ := C11.encode_spec (Array.map (M3.mulArr B.fma t) rgb.data) rgb.w rgb.h cfg ts hw hh (by simp [hsz]) wdiv hdiv hss fits
    exact Or.inr ⟨g, by rw [e]; rfl, i⟩

/-- YUV->RGB on any constructed image: a value or a `ConversionError`, never a panic or UB -/
theorem yuvToRgb_total (B : Build) (y u v : Plane) (cfg : Cfg) (ts : Nat) (g : Yuv) (hg : Yuv.new y u v cfg ts = .ok (.ok g)) :
    ∃ r, yuvToRgb B g = .ok r := C07.yuvToRgb_safe B g (inv_of_new y u v cfg ts g hg)

/-- XYB, HSL conversions are total functions of the pixel data (no outcome other than a value exists in their type) -/
theorem float_stages_total (B : Build) (img : FImg) :
    (linearToXyb B img).data.size = img.data.size ∧ (xybToLinear B img).data.size = img.data.size ∧
    (linearToHsl img).data.size = img.data.size ∧ (hslToLinear img).data.size = img.data.size := by
  simp [linearToXyb, xybToLinear, linearToHsl, hslToLinear]

end C13
