import Props.C07
import Props.C18
/-! C13 — conversions are total on arbitrary float data and always emit valid codes: the YUV-side part.
Pixel data are arbitrary bit patterns (`Nat`s) in every theorem below - NaN, infinities, subnormals, huge values included.
The transfer-curve stage can only fail through `exp2`'s unchecked conversion; that it never does is Props/C18
(pending, see `partial`); the XYB/HSL/primaries stages are total by construction (plain maps). -/
namespace C13
open FrameM FrameP Api Mat32 ColorM

/-- every code the encoder can emit is at most 2^n - 1, whatever float it is given -/
theorem codes_valid (cfg : Cfg) (ts v : Nat) (hbd : cfg.bd ≤ 16) :
    C11.lumaFn cfg ts v ≤ 2 ^ cfg.bd - 1 ∧ C11.chromaFn cfg ts v ≤ 2 ^ cfg.bd - 1 := by
  have h1 := fromF32Luma_le ts v (scaleOffset false cfg.bd cfg.full false).1 (scaleOffset false cfg.bd cfg.full false).2 cfg.bd
  have h2 := fromF32Chroma_le ts v (scaleOffset false cfg.bd cfg.full true).1 (scaleOffset false cfg.bd cfg.full true).2 cfg.bd cfg.full
  have : (2 ^ cfg.bd - 1) % 65536 ≤ 2 ^ cfg.bd - 1 := Nat.mod_le _ _
  exact ⟨Nat.le_trans h1 this, Nat.le_trans h2 this⟩

/-- RGB->YUV on ANY float data: for every image whose size the subsampling divides the conversion returns a value or a
`ConversionError` - never a panic, never UB - and a returned image satisfies the constructor invariant (so it can always be
re-wrapped) with every visible sample a valid code -/
theorem rgbToYuv_total (B : Build) (rgb : Rgb) (cfg : Cfg) (ts : Nat) (hw : 0 < rgb.w) (hh : 0 < rgb.h) (hsz : rgb.data.size = rgb.w * rgb.h)
    (wdiv : rgb.w % 2 ^ cfg.ssx = 0) (hdiv : rgb.h % 2 ^ cfg.ssy = 0) (hss : cfg.ssx < 256 ∧ cfg.ssy < 256)
    (fits : (Plane.new (rgb.w >>> cfg.ssx) (rgb.h >>> cfg.ssy) cfg.ssx cfg.ssy 0 0 ts).data.size < USIZE_MAX)
    (fitsY : (Plane.new rgb.w rgb.h 0 0 0 0 ts).data.size ≤ USIZE_MAX) :
    (∃ e, rgbToYuv B rgb cfg ts = .ok (.error e)) ∨ (∃ g, rgbToYuv B rgb cfg ts = .ok (.ok g) ∧ InvYuv g) := by
  unfold rgbToYuv
  split
  · exact Or.inl ⟨_, rfl⟩
  · rename_i t _
    obtain ⟨g, e, i, _⟩ := C11.encode_spec (Array.map (M3.mulArr B.fma t) rgb.data) rgb.w rgb.h cfg ts hw hh (by simp [hsz]) wdiv hdiv hss fits fitsY
    exact Or.inr ⟨g, by rw [e]; rfl, i⟩

/-- YUV->RGB on any constructed image: a value or a `ConversionError`, never a panic or UB -/
theorem yuvToRgb_total (B : Build) (y u v : Plane) (cfg : Cfg) (ts : Nat) (g : Yuv) (hg : Yuv.new y u v cfg ts = .ok (.ok g)) :
    ∃ r, yuvToRgb B g = .ok r := C07.yuvToRgb_safe B g (inv_of_new y u v cfg ts g hg)

/-- XYB, HSL conversions are total functions of the pixel data (no outcome other than a value exists in their type) -/
theorem float_stages_total (B : Build) (img : FImg) :
    (linearToXyb B img).data.size = img.data.size ∧ (xybToLinear B img).data.size = img.data.size ∧
    (linearToHsl img).data.size = img.data.size ∧ (hslToLinear img).data.size = img.data.size := by
  simp [linearToXyb, xybToLinear, linearToHsl, hslToLinear]


/-! ### the transfer-curve and primaries stages on arbitrary bit patterns -/
open TransferM

theorem mapPxL_total (f : Nat → Out Nat) (hf : ∀ x, ∃ r, f x = .ok r) : ∀ l : List V3, ∃ l', mapPxL f l = .ok l' := by
  intro l; induction l with
  | nil => exact ⟨[], rfl⟩
  | cons p ps ih =>
    obtain ⟨a, ha⟩ := hf p.x; obtain ⟨b, hb⟩ := hf p.y; obtain ⟨c, hc⟩ := hf p.z; obtain ⟨r, hr⟩ := ih
    refine ⟨⟨a, b, c⟩ :: r, ?_⟩; simp only [mapPxL, ha, hb, hc, hr, Out.bind]

theorem toLinearImg_total (B : Build) (t : TC) (d : Array V3) : ∃ r, toLinearImg B t d = .ok r := by
  unfold toLinearImg
  cases h : toLinearFn B t with
  | error e => exact ⟨_, rfl⟩
  | ok f =>
    obtain ⟨l', hl⟩ := mapPxL_total f (fun x => (C18.curve_total B t x).1 f h) d.toList
    refine ⟨.ok l'.toArray, ?_⟩; simp only [mapPx, hl, Out.bind]

theorem toGammaImg_total (B : Build) (t : TC) (d : Array V3) : ∃ r, toGammaImg B t d = .ok r := by
  unfold toGammaImg
  cases h : toGammaFn B t with
  | error e => exact ⟨_, rfl⟩
  | ok f =>
    obtain ⟨l', hl⟩ := mapPxL_total f (fun x => (C18.curve_total B t x).2 f h) d.toList
    refine ⟨.ok l'.toArray, ?_⟩; simp only [mapPx, hl, Out.bind]

/-- gamma->linear and linear->gamma on ANY float data, every transfer and primaries value, every build:
a value or a `ConversionError`, never a panic, never UB (in particular `to_int_unchecked` is never misused) -/
theorem rgbToLinear_total (B : Build) (rgb : Rgb) : ∃ r, rgbToLinear B rgb = .ok r := by
  unfold rgbToLinear
  obtain ⟨r, hr⟩ := toLinearImg_total B rgb.transfer rgb.data
  rw [hr]; simp only [Out.bind]
  cases r with
  | error e => exact ⟨_, rfl⟩
  | ok d => dsimp only; split <;> exact ⟨_, rfl⟩

theorem linearToRgb_total (B : Build) (l : FImg) (t : TC) (p : CP) : ∃ r, linearToRgb B l t p = .ok r := by
  unfold linearToRgb
  dsimp only
  split
  · exact ⟨_, rfl⟩
  · split
    · exact ⟨_, rfl⟩
    · rename_i d _
      obtain ⟨r, hr⟩ := toGammaImg_total B (if t = TC.Unspecified then TC.SRGB else t) d
      rw [hr]; simp only [Out.bind]
      cases r <;> exact ⟨_, rfl⟩

end C13
