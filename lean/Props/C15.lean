import Model.Types
/-! C15 — Unspecified metadata is resolved deterministically and labels match content. -/
namespace C15
open ColorM PixelM TransferM FrameM Api Mat32

/-- the documented mpv heuristic, spelled with its literal thresholds -/
def mpvMatrix (w h : Nat) : MC := if w ≥ 1280 ∨ h > 576 then .BT709 else if h = 576 then .BT470BG else .ST170M
def mpvPrimaries (m : MC) (w h : Nat) : CP :=
  if m = .BT2020NonConstantLuminance ∨ m = .BT2020ConstantLuminance then .BT2020
  else if m = .BT709 ∨ w ≥ 1280 ∨ h > 576 then .BT709
  else if h = 576 then .BT470BG
  else if h = 480 ∨ h = 488 then .ST170M
  else .BT709

/-- the model's guess functions (thresholds taken from the source by the translator) are the mpv table, for ALL sizes -/
theorem guess_is_mpv (w h : Nat) (m : MC) : guessMatrix w h = mpvMatrix w h ∧ guessPrimaries m w h = mpvPrimaries m w h :=
  ⟨rfl, rfl⟩

/-- the resolved config as the statement describes it -/
def resolved (c : Cfg) (w h : Nat) : Cfg :=
  let m := if c.matrix = .Unspecified then mpvMatrix w h else c.matrix
  { c with matrix := m,
           primaries := if c.primaries = .Unspecified then mpvPrimaries m w h else c.primaries,
           transfer := if c.transfer = .Unspecified then .BT1886 else c.transfer }

theorem fix_is_resolved (c : Cfg) (w h : Nat) : c.fixUnspecified w h = resolved c w h := rfl

theorem mpvMatrix_specified (w h : Nat) : mpvMatrix w h ≠ .Unspecified := by
  unfold mpvMatrix; split <;> (try split) <;> simp
theorem mpvPrimaries_specified (m : MC) (w h : Nat) : mpvPrimaries m w h ≠ .Unspecified := by
  unfold mpvPrimaries; repeat' split
  all_goals simp

/-- a resolved config never contains Unspecified, whatever the size -/
theorem fix_specified (c : Cfg) (w h : Nat) :
    (c.fixUnspecified w h).matrix ≠ .Unspecified ∧ (c.fixUnspecified w h).primaries ≠ .Unspecified ∧
    (c.fixUnspecified w h).transfer ≠ .Unspecified := by
  rw [fix_is_resolved]
  refine ⟨?_, ?_, ?_⟩
  · simp only [resolved]; split
    · exact mpvMatrix_specified w h
    · assumption
  · simp only [resolved]; split
    · exact mpvPrimaries_specified _ w h
    · assumption
  · simp only [resolved]; split
    · simp
    · assumption

/-- resolution only touches the three metadata fields and is idempotent -/
theorem fix_idempotent (c : Cfg) (w h : Nat) : (c.fixUnspecified w h).fixUnspecified w h = c.fixUnspecified w h := by
  have h3 := fix_specified c w h
  generalize c.fixUnspecified w h = d at h3
  obtain ⟨a, b, cc⟩ := h3
  simp [Cfg.fixUnspecified, a, b, cc]

theorem fix_other_fields (c : Cfg) (w h : Nat) :
    (c.fixUnspecified w h).bd = c.bd ∧ (c.fixUnspecified w h).ssx = c.ssx ∧ (c.fixUnspecified w h).ssy = c.ssy ∧
    (c.fixUnspecified w h).full = c.full := ⟨rfl, rfl, rfl, rfl⟩

/-- a constructed YUV image stores exactly the resolved config -/
theorem yuvNew_config (y u v : Plane) (cfg : Cfg) (ts : Nat) (g : Yuv) (hg : Yuv.new y u v cfg ts = .ok (.ok g)) :
    g.cfg = cfg.fixUnspecified y.cfg.width y.cfg.height ∧ g.y = y ∧ g.u = u ∧ g.v = v := by
  unfold Yuv.new at hg
  dsimp only at hg
  repeat' split at hg
  all_goals (first | (simp at hg; done) | skip)
  all_goals (simp at hg; subst hg; exact ⟨rfl, rfl, rfl, rfl⟩)

/-- a constructed RGB image resolves Unspecified to sRGB / BT.709 and never reports Unspecified -/
theorem rgbNew_resolved (d : Array V3) (w h : Nat) (t : TC) (p : CP) (r : Rgb) (hr : Rgb.new d w h t p = .ok r) :
    r.transfer = (if t = .Unspecified then .SRGB else t) ∧ r.primaries = (if p = .Unspecified then .BT709 else p) ∧
    r.transfer ≠ .Unspecified ∧ r.primaries ≠ .Unspecified := by
  unfold Rgb.new at hr
  split at hr
  · injection hr with hr; subst hr
    refine ⟨rfl, rfl, ?_, ?_⟩ <;> (simp only; split <;> simp_all)
  · injection hr

theorem ypbpr_config (inp : Array V3) (w h : Nat) (cfg : Cfg) (ts : Nat) (y : Yuv) (hy : ypbprToYcbcr inp w h cfg ts = .ok y) :
    y.cfg = cfg.fixUnspecified y.y.cfg.width y.y.cfg.height := by
  unfold ypbprToYcbcr at hy
  dsimp only at hy
  repeat' split at hy
  all_goals (first | (simp at hy; done) | skip)
  rename_i st _ g hg
  simp at hy; subst hy
  have := yuvNew_config _ _ _ _ _ _ hg
  rw [this.1, this.2.1]

/-- `rgb_to_yuv` stores the resolution of the requested config for the image's own dimensions -/
theorem rgbToYuv_config (B : Build) (rgb : Rgb) (cfg : Cfg) (ts : Nat) (y : Yuv) (h : rgbToYuv B rgb cfg ts = .ok (.ok y)) :
    y.cfg = cfg.fixUnspecified y.y.cfg.width y.y.cfg.height := by
  unfold rgbToYuv at h
  split at h
  · simp at h
  · rename_i t _
    cases hy : ypbprToYcbcr (Array.map (M3.mulArr B.fma t) rgb.data) rgb.w rgb.h cfg ts with
    | ub s => simp [hy, Out.bind] at h
    | panic s => simp [hy, Out.bind] at h
    | ok y' =>
      simp [hy, Out.bind] at h
      subst h
      exact ypbpr_config _ _ _ _ _ _ hy

/-- Labels match content (the D4 repair): when `Yuv::try_from((LinearRgb, cfg))` succeeds, the transfer and primaries
that were *applied* (the arguments of the linear->gamma stage) are exactly the ones stored in the output config, and the
matrix applied is the stored one because a successful conversion implies the requested matrix was specified. -/
theorem linearToYuv_label (B : Build) (l : FImg) (cfg : Cfg) (ts : Nat) (y : Yuv) (h : linearToYuv B l cfg ts = .ok (.ok y)) :
    ∃ rgb, linearToRgb B l (cfg.fixUnspecified l.w l.h).transfer (cfg.fixUnspecified l.w l.h).primaries = .ok (.ok rgb) ∧
      rgb.transfer = (cfg.fixUnspecified l.w l.h).transfer ∧ rgb.primaries = (cfg.fixUnspecified l.w l.h).primaries ∧
      rgbToYuv B rgb cfg ts = .ok (.ok y) ∧ cfg.matrix ≠ .Unspecified ∧ y.cfg.matrix = cfg.matrix := by
  unfold linearToYuv bindRes at h
  simp only at h
  cases h1 : linearToRgb B l (cfg.fixUnspecified l.w l.h).transfer (cfg.fixUnspecified l.w l.h).primaries with
  | ub s => simp [h1, Out.bind] at h
  | panic s => simp [h1, Out.bind] at h
  | ok r =>
    cases r with
    | error e => simp [h1, Out.bind] at h
    | ok rgb =>
      simp only [h1, Out.bind] at h
      have hs := fix_specified cfg l.w l.h
      have hm : cfg.matrix ≠ .Unspecified := by
        intro hm
        unfold rgbToYuv rgbToYuvMatrix at h
        simp [hm] at h
      refine ⟨rgb, rfl, ?_, ?_, h, hm, ?_⟩
      · -- the label stored by linearToRgb is its (already specified) argument
        unfold linearToRgb at h1
        simp only [hs.2.2, hs.2.1, if_false] at h1
        repeat' split at h1
        all_goals first
          | (injection h1 with h1; injection h1 with h1; subst h1; rfl)
          | (exfalso; injection h1 with h1; injection h1)
          | (exfalso; exact Out.noConfusion h1)
          | skip
        all_goals (rename_i d _; cases hm2 : toGammaImg B (cfg.fixUnspecified l.w l.h).transfer d <;> simp [hm2, Out.bind] at h1)
        all_goals (split at h1 <;> first | (injection h1 with h1; injection h1 with h1; subst h1; rfl) | (exfalso; injection h1 with h1; injection h1))
      · unfold linearToRgb at h1
        simp only [hs.2.2, hs.2.1, if_false] at h1
        repeat' split at h1
        all_goals first
          | (injection h1 with h1; injection h1 with h1; subst h1; rfl)
          | (exfalso; injection h1 with h1; injection h1)
          | (exfalso; exact Out.noConfusion h1)
          | skip
        all_goals (rename_i d _; cases hm2 : toGammaImg B (cfg.fixUnspecified l.w l.h).transfer d <;> simp [hm2, Out.bind] at h1)
        all_goals (split at h1 <;> first | (injection h1 with h1; injection h1 with h1; subst h1; rfl) | (exfalso; injection h1 with h1; injection h1))
      · have := rgbToYuv_config B rgb cfg ts y h
        rw [this]; simp [Cfg.fixUnspecified, hm]

/-- non-vacuity / table spot checks at the documented thresholds -/
example : mpvMatrix 1280 2 = .BT709 ∧ mpvMatrix 1279 577 = .BT709 ∧ mpvMatrix 720 576 = .BT470BG ∧ mpvMatrix 720 480 = .ST170M := by decide
example : mpvPrimaries .ST170M 720 480 = .ST170M ∧ mpvPrimaries .ST170M 720 488 = .ST170M ∧ mpvPrimaries .ST170M 720 481 = .BT709 ∧
    mpvPrimaries .BT470BG 720 576 = .BT470BG ∧ mpvPrimaries .BT2020ConstantLuminance 4 4 = .BT2020 := by decide

end C15
