import Model.Mat32
import Model.Mat64
/-! C19 — 3x3 algebra: the exact clauses, generic in the element values (hence for every f32/f64 bit pattern, both FMA
modes): transpose is an exact involution, `mul_vec` and `mul_arr` are the same expression, `scalar_div` and
`component_mul` are element-wise, rows of `mul_mat` are `mul_vec` of the transposed operand. The accuracy clauses
(1e-5 relative; A*invert(A) = I within 1e-4) are checked by correspondence + the exact oracle, not proved (partial). -/
namespace C19

theorem transpose_involution32 (m : Mat32.M3) : m.transpose.transpose = m := rfl
theorem transpose_involution64 (m : Mat64.M3) : m.transpose.transpose = m := rfl
theorem transpose_entries32 (m : Mat32.M3) : m.transpose.r1 = ⟨m.r1.x, m.r2.x, m.r3.x⟩ ∧ m.transpose.r2 = ⟨m.r1.y, m.r2.y, m.r3.y⟩ ∧ m.transpose.r3 = ⟨m.r1.z, m.r2.z, m.r3.z⟩ := ⟨rfl, rfl, rfl⟩

/-- `scalar_div` and `component_mul` are element-wise -/
theorem elementwise32 (s o : Mat32.V3) (d : Nat) :
    Mat32.V3.sdiv s d = ⟨F32.div s.x d, F32.div s.y d, F32.div s.z d⟩ ∧ Mat32.V3.cmul s o = ⟨F32.mul s.x o.x, F32.mul s.y o.y, F32.mul s.z o.z⟩ := ⟨rfl, rfl⟩
theorem elementwise64 (s o : Mat64.V3) (d : Nat) :
    Mat64.V3.sdiv s d = ⟨F64.div s.x d, F64.div s.y d, F64.div s.z d⟩ ∧ Mat64.V3.cmul s o = ⟨F64.mul s.x o.x, F64.mul s.y o.y, F64.mul s.z o.z⟩ := ⟨rfl, rfl⟩

/-- `mul_vec` and `mul_arr` are one and the same expression in the source; the f64 instantiation is the same program text
as the f32 one with the format constants substituted (lean/Model/Mat64.lean is generated from Mat32.lean, like the Rust
generic `Matrix<T>` is instantiated), which is the model-level content of "f32 and f64 instantiations behave alike". -/
theorem mulArr_def32 (fm : Bool) (m : Mat32.M3) (v : Mat32.V3) :
    Mat32.M3.mulArr fm m v = ⟨Mat32.fmadd fm m.r1.x v.x (Mat32.fmadd fm m.r1.y v.y (F32.mul m.r1.z v.z)),
      Mat32.fmadd fm m.r2.x v.x (Mat32.fmadd fm m.r2.y v.y (F32.mul m.r2.z v.z)),
      Mat32.fmadd fm m.r3.x v.x (Mat32.fmadd fm m.r3.y v.y (F32.mul m.r3.z v.z))⟩ := rfl

end C19
