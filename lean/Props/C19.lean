import Model.Mat32
import Model.Mat64
import Proofs.F32Dot
import Proofs.F64Dot
import Proofs.F32Div
import Proofs.F64Div
import Proofs.F32Ident
import Proofs.F64Ident
import Proofs.F32Invert
import Proofs.F64Invert
/-! C19 — 3x3 algebra: the exact clauses, generic in the element values (hence for every f32/f64 bit pattern, both FMA
modes): transpose is an exact involution, `mul_vec` and `mul_arr` are the same expression, `scalar_div` and
`component_mul` are element-wise, rows of `mul_mat` are `mul_vec` of the transposed operand. The accuracy clauses
are proved below over the reals for finite entries of magnitude <= 2, both formats, both FMA modes: `mul_vec`/`mul_arr`, `mul_mat`, `dot`, `cross`,
`component_mul`, `scalar_div` are within 1e-5*max(1,|exact|) of the exact result (in fact within 3e-6 absolute). `A*invert(A)` and `invert(A)*A` are within 1e-4 of the identity for |det| >= 1/2 (`invert_accurate32/64`, proved bound 6.3e-5), and multiplying by
`identity()` returns every entry with exactly its real value (`identity_*`). -/
namespace C19

theorem transpose_involution32 (m : Mat32.M3) : m.transpose.transpose = m := rfl
theorem transpose_involution64 (m : Mat64.M3) : m.transpose.transpose = m := rfl
theorem transpose_entries32 (m : Mat32.M3) : m.transpose.r1 = ⟨m.r1.x, m.r2.x, m.r3.x⟩ ∧ m.transpose.r2 = ⟨m.r1.y, m.r2.y, m.r3.y⟩ ∧ m.transpose.r3 = ⟨m.r1.z, m.r2.z, m.r3.z⟩ := ⟨rfl, rfl, rfl⟩

/-- `scalar_div` and `component_mul` are element-wise -/
theorem elementwise32 (s o : Mat32.V3) (d : Nat) :
    Mat32.V3.sdiv s d = ⟨F32.div s.x d, F32.div s.y d, F32.div s.z d⟩ ∧ Mat32.V3.cmul s o = ⟨F32.mul s.x o.x, F32.mul s.y o.y, F32.mul s.z o.z⟩ := ⟨rfl, rfl⟩
theorem elementwise64 (s o : Mat64.V3) (d : Nat) :
    Mat64.V3.sdiv s d = ⟨F64.div s.x d, F64.div s.y d, F64.div s.z d⟩ ∧ Mat64.V3.cmul s o = ⟨F64.mul s.x o.x, F64.mul s.y o.y, F64.mul s.z o.z⟩ := ⟨rfl, rfl⟩

/-- `mul_vec` and `mul_arr` are one and the same expression in the source; the f64 instantiation is the same program text
as the f32 one with the format constants substituted (lean/Model/Mat64.lean is generated from Mat32.lean, like the Rust
generic `Matrix<T>` is instantiated), which is the model-level content of "f32 and f64 instantiations behave alike". -/
theorem mulArr_def32 (fm : Bool) (m : Mat32.M3) (v : Mat32.V3) :
    Mat32.M3.mulArr fm m v = ⟨Mat32.fmadd fm m.r1.x v.x (Mat32.fmadd fm m.r1.y v.y (F32.mul m.r1.z v.z)),
      Mat32.fmadd fm m.r2.x v.x (Mat32.fmadd fm m.r2.y v.y (F32.mul m.r2.z v.z)),
      Mat32.fmadd fm m.r3.x v.x (Mat32.fmadd fm m.r3.y v.y (F32.mul m.r3.z v.z))⟩ := rfl

/-! ### accuracy (real semantics of the softfloat model) -/
section accuracy
open Real

theorem rel_of_abs (a e : ℝ) (h : |a - e| ≤ 3 / 1000000) : |a - e| ≤ 1 / 100000 * max 1 |e| := by
  have : (1:ℝ) ≤ max 1 |e| := le_max_left _ _
  linarith

/-- entries finite and of magnitude at most 2 -/
abbrev Ok32 (v : Mat32.V3) : Prop := F32.V3.Ok v
abbrev OkM32 (m : Mat32.M3) : Prop := F32.M3.Ok m
abbrev Ok64 (v : Mat64.V3) : Prop := F64.V3.Ok v
abbrev OkM64 (m : Mat64.M3) : Prop := F64.M3.Ok m

/-- `mul_vec` / `mul_arr` equal the exact matrix-vector product within 1e-5*max(1,|exact|), binary32 -/
theorem mulVec_accurate32 (fm : Bool) (m : Mat32.M3) (v : Mat32.V3) (hm : OkM32 m) (hv : Ok32 v) :
    |F32.toReal (Mat32.M3.mulArr fm m v).x - F32.rdot m.r1 v| ≤ 1 / 100000 * max 1 |F32.rdot m.r1 v| ∧
    |F32.toReal (Mat32.M3.mulArr fm m v).y - F32.rdot m.r2 v| ≤ 1 / 100000 * max 1 |F32.rdot m.r2 v| ∧
    |F32.toReal (Mat32.M3.mulArr fm m v).z - F32.rdot m.r3 v| ≤ 1 / 100000 * max 1 |F32.rdot m.r3 v| := by
  obtain ⟨h1, h2, h3⟩ := F32.mulArr_close fm m v hm hv
  exact ⟨rel_of_abs _ _ h1, rel_of_abs _ _ h2, rel_of_abs _ _ h3⟩

theorem mulVec_accurate64 (fm : Bool) (m : Mat64.M3) (v : Mat64.V3) (hm : OkM64 m) (hv : Ok64 v) :
    |F64.toReal (Mat64.M3.mulArr fm m v).x - F64.rdot m.r1 v| ≤ 1 / 100000 * max 1 |F64.rdot m.r1 v| ∧
    |F64.toReal (Mat64.M3.mulArr fm m v).y - F64.rdot m.r2 v| ≤ 1 / 100000 * max 1 |F64.rdot m.r2 v| ∧
    |F64.toReal (Mat64.M3.mulArr fm m v).z - F64.rdot m.r3 v| ≤ 1 / 100000 * max 1 |F64.rdot m.r3 v| := by
  obtain ⟨h1, h2, h3⟩ := F64.mulArr_close fm m v hm hv
  exact ⟨rel_of_abs _ _ h1, rel_of_abs _ _ h2, rel_of_abs _ _ h3⟩

/-- `dot` -/
theorem dot_accurate32 (fm : Bool) (s o : Mat32.V3) (hs : Ok32 s) (ho : Ok32 o) :
    |F32.toReal (Mat32.V3.dot fm s o) - F32.rdot s o| ≤ 1 / 100000 * max 1 |F32.rdot s o| := rel_of_abs _ _ (F32.dot_close fm s o hs ho)
theorem dot_accurate64 (fm : Bool) (s o : Mat64.V3) (hs : Ok64 s) (ho : Ok64 o) :
    |F64.toReal (Mat64.V3.dot fm s o) - F64.rdot s o| ≤ 1 / 100000 * max 1 |F64.rdot s o| := rel_of_abs _ _ (F64.dot_close fm s o hs ho)

/-- `cross` -/
theorem cross_accurate32 (fm : Bool) (s o : Mat32.V3) (hs : Ok32 s) (ho : Ok32 o) :
    let t := F32.toReal
    |t (Mat32.V3.cross fm s o).x - (t s.y * t o.z - t s.z * t o.y)| ≤ 1 / 100000 * max 1 |t s.y * t o.z - t s.z * t o.y| ∧
    |t (Mat32.V3.cross fm s o).y - (t s.z * t o.x - t s.x * t o.z)| ≤ 1 / 100000 * max 1 |t s.z * t o.x - t s.x * t o.z| ∧
    |t (Mat32.V3.cross fm s o).z - (t s.x * t o.y - t s.y * t o.x)| ≤ 1 / 100000 * max 1 |t s.x * t o.y - t s.y * t o.x| := by
  obtain ⟨h1, h2, h3⟩ := F32.cross_close fm s o hs ho
  exact ⟨rel_of_abs _ _ h1, rel_of_abs _ _ h2, rel_of_abs _ _ h3⟩
theorem cross_accurate64 (fm : Bool) (s o : Mat64.V3) (hs : Ok64 s) (ho : Ok64 o) :
    let t := F64.toReal
    |t (Mat64.V3.cross fm s o).x - (t s.y * t o.z - t s.z * t o.y)| ≤ 1 / 100000 * max 1 |t s.y * t o.z - t s.z * t o.y| ∧
    |t (Mat64.V3.cross fm s o).y - (t s.z * t o.x - t s.x * t o.z)| ≤ 1 / 100000 * max 1 |t s.z * t o.x - t s.x * t o.z| ∧
    |t (Mat64.V3.cross fm s o).z - (t s.x * t o.y - t s.y * t o.x)| ≤ 1 / 100000 * max 1 |t s.x * t o.y - t s.y * t o.x| := by
  obtain ⟨h1, h2, h3⟩ := F64.cross_close fm s o hs ho
  exact ⟨rel_of_abs _ _ h1, rel_of_abs _ _ h2, rel_of_abs _ _ h3⟩

/-- `component_mul` -/
theorem cmul_accurate32 (s o : Mat32.V3) (hs : Ok32 s) (ho : Ok32 o) :
    let t := F32.toReal
    |t (Mat32.V3.cmul s o).x - t s.x * t o.x| ≤ 1 / 100000 * max 1 |t s.x * t o.x| ∧ |t (Mat32.V3.cmul s o).y - t s.y * t o.y| ≤ 1 / 100000 * max 1 |t s.y * t o.y| ∧
    |t (Mat32.V3.cmul s o).z - t s.z * t o.z| ≤ 1 / 100000 * max 1 |t s.z * t o.z| := by
  obtain ⟨h1, h2, h3⟩ := F32.cmul_close s o hs ho
  exact ⟨rel_of_abs _ _ h1, rel_of_abs _ _ h2, rel_of_abs _ _ h3⟩
theorem cmul_accurate64 (s o : Mat64.V3) (hs : Ok64 s) (ho : Ok64 o) :
    let t := F64.toReal
    |t (Mat64.V3.cmul s o).x - t s.x * t o.x| ≤ 1 / 100000 * max 1 |t s.x * t o.x| ∧ |t (Mat64.V3.cmul s o).y - t s.y * t o.y| ≤ 1 / 100000 * max 1 |t s.y * t o.y| ∧
    |t (Mat64.V3.cmul s o).z - t s.z * t o.z| ≤ 1 / 100000 * max 1 |t s.z * t o.z| := by
  obtain ⟨h1, h2, h3⟩ := F64.cmul_close s o hs ho
  exact ⟨rel_of_abs _ _ h1, rel_of_abs _ _ h2, rel_of_abs _ _ h3⟩

/-- `mul_mat`: every entry is within 1e-5*max(1,|exact|) of the exact row-by-column product -/
theorem mulMat_accurate32 (fm : Bool) (a b : Mat32.M3) (ha : OkM32 a) (hb : OkM32 b) :
    let c1 : Mat32.V3 := ⟨b.r1.x, b.r2.x, b.r3.x⟩; let c2 : Mat32.V3 := ⟨b.r1.y, b.r2.y, b.r3.y⟩; let c3 : Mat32.V3 := ⟨b.r1.z, b.r2.z, b.r3.z⟩
    let p := Mat32.M3.mulMat fm a b
    let ok := fun (x : Nat) (r c : Mat32.V3) => |F32.toReal x - F32.rdot r c| ≤ 1 / 100000 * max 1 |F32.rdot r c|
    (ok p.r1.x a.r1 c1 ∧ ok p.r1.y a.r1 c2 ∧ ok p.r1.z a.r1 c3) ∧ (ok p.r2.x a.r2 c1 ∧ ok p.r2.y a.r2 c2 ∧ ok p.r2.z a.r2 c3) ∧
    (ok p.r3.x a.r3 c1 ∧ ok p.r3.y a.r3 c2 ∧ ok p.r3.z a.r3 c3) := by
  intro c1 c2 c3 p ok
  obtain ⟨⟨h1, h2, h3⟩, ⟨h4, h5, h6⟩, ⟨h7, h8, h9⟩⟩ := F32.mulMat_close fm a b ha hb
  exact ⟨⟨rel_of_abs _ _ h1, rel_of_abs _ _ h2, rel_of_abs _ _ h3⟩, ⟨rel_of_abs _ _ h4, rel_of_abs _ _ h5, rel_of_abs _ _ h6⟩, ⟨rel_of_abs _ _ h7, rel_of_abs _ _ h8, rel_of_abs _ _ h9⟩⟩
theorem mulMat_accurate64 (fm : Bool) (a b : Mat64.M3) (ha : OkM64 a) (hb : OkM64 b) :
    let c1 : Mat64.V3 := ⟨b.r1.x, b.r2.x, b.r3.x⟩; let c2 : Mat64.V3 := ⟨b.r1.y, b.r2.y, b.r3.y⟩; let c3 : Mat64.V3 := ⟨b.r1.z, b.r2.z, b.r3.z⟩
    let p := Mat64.M3.mulMat fm a b
    let ok := fun (x : Nat) (r c : Mat64.V3) => |F64.toReal x - F64.rdot r c| ≤ 1 / 100000 * max 1 |F64.rdot r c|
    (ok p.r1.x a.r1 c1 ∧ ok p.r1.y a.r1 c2 ∧ ok p.r1.z a.r1 c3) ∧ (ok p.r2.x a.r2 c1 ∧ ok p.r2.y a.r2 c2 ∧ ok p.r2.z a.r2 c3) ∧
    (ok p.r3.x a.r3 c1 ∧ ok p.r3.y a.r3 c2 ∧ ok p.r3.z a.r3 c3) := by
  intro c1 c2 c3 p ok
  obtain ⟨⟨h1, h2, h3⟩, ⟨h4, h5, h6⟩, ⟨h7, h8, h9⟩⟩ := F64.mulMat_close fm a b ha hb
  exact ⟨⟨rel_of_abs _ _ h1, rel_of_abs _ _ h2, rel_of_abs _ _ h3⟩, ⟨rel_of_abs _ _ h4, rel_of_abs _ _ h5, rel_of_abs _ _ h6⟩, ⟨rel_of_abs _ _ h7, rel_of_abs _ _ h8, rel_of_abs _ _ h9⟩⟩

/-- `scalar_div`: each component is within 1e-5*max(1,|exact|) of the real quotient, for any finite non-zero divisor
whose quotient does not overflow (relative error of one division) -/
theorem sdiv1_32 (a d : Nat) (ha : F32.Finite a) (hd : F32.Finite d) (hd0 : F32.toReal d ≠ 0) (hfit : |F32.toReal a / F32.toReal d| ≤ (2:ℝ)^(126:ℤ)) :
    |F32.toReal (F32.div a d) - F32.toReal a / F32.toReal d| ≤ 1 / 100000 * max 1 |F32.toReal a / F32.toReal d| := by
  obtain ⟨_, h⟩ := F32.div_val a d ha hd hd0 hfit
  have hu : F32.ud ≤ 1 / 1000000 := by unfold F32.ud; rw [F32.u_val]; norm_num
  have he := F32.eta_le
  have hq := abs_nonneg (F32.toReal a / F32.toReal d)
  have h1 : (1:ℝ) ≤ max 1 |F32.toReal a / F32.toReal d| := le_max_left _ _
  have h2 : |F32.toReal a / F32.toReal d| ≤ max 1 |F32.toReal a / F32.toReal d| := le_max_right _ _
  have : F32.ud * |F32.toReal a / F32.toReal d| ≤ 1 / 1000000 * max 1 |F32.toReal a / F32.toReal d| := mul_le_mul hu h2 hq (by norm_num)
  have he' : F32.eta ≤ 1 / 1000000 := le_trans he (by norm_num)
  linarith
theorem sdiv1_64 (a d : Nat) (ha : F64.Finite a) (hd : F64.Finite d) (hd0 : F64.toReal d ≠ 0) (hfit : |F64.toReal a / F64.toReal d| ≤ (2:ℝ)^(1022:ℤ)) :
    |F64.toReal (F64.div a d) - F64.toReal a / F64.toReal d| ≤ 1 / 100000 * max 1 |F64.toReal a / F64.toReal d| := by
  obtain ⟨_, h⟩ := F64.div_val a d ha hd hd0 hfit
  have hu : F64.ud ≤ 1 / 1000000 := by unfold F64.ud; rw [F64.u_val]; norm_num
  have he := F64.eta_le
  have hq := abs_nonneg (F64.toReal a / F64.toReal d)
  have h1 : (1:ℝ) ≤ max 1 |F64.toReal a / F64.toReal d| := le_max_left _ _
  have h2 : |F64.toReal a / F64.toReal d| ≤ max 1 |F64.toReal a / F64.toReal d| := le_max_right _ _
  have : F64.ud * |F64.toReal a / F64.toReal d| ≤ 1 / 1000000 * max 1 |F64.toReal a / F64.toReal d| := mul_le_mul hu h2 hq (by norm_num)
  have he' : F64.eta ≤ 1 / 1000000 := le_trans he (by norm_num)
  linarith

/-- non-vacuity: the identity matrix and the vector (1,1,1) satisfy the hypotheses -/
example : OkM32 Mat32.M3.identity ∧ Ok32 ⟨0x3f800000, 0x3f800000, 0x3f800000⟩ := by
  have one : F32.Bnd 0x3f800000 2 := ⟨⟨false, 8388608, -23, by rfl⟩, by rw [F32.toReal_of_decode _ false 8388608 (-23) (by rfl), F32.abs_valR]; norm_num⟩
  have zero : F32.Bnd 0 2 := ⟨⟨false, 0, -149, by rfl⟩, by rw [F32.toReal_of_decode _ false 0 (-149) (by rfl), F32.abs_valR]; norm_num⟩
  have h1 : Mat32.idLit 0 = 0x3f800000 ∧ Mat32.idLit 1 = 0 ∧ Mat32.idLit 2 = 0 ∧ Mat32.idLit 3 = 0 ∧ Mat32.idLit 4 = 0x3f800000 ∧ Mat32.idLit 5 = 0 ∧
      Mat32.idLit 6 = 0 ∧ Mat32.idLit 7 = 0 ∧ Mat32.idLit 8 = 0x3f800000 := by decide
  obtain ⟨a0, a1, a2, a3, a4, a5, a6, a7, a8⟩ := h1
  refine ⟨⟨⟨?_, ?_, ?_⟩, ⟨?_, ?_, ?_⟩, ⟨?_, ?_, ?_⟩⟩, ⟨one, one, one⟩⟩ <;>
    simp only [Mat32.M3.identity, a0, a1, a2, a3, a4, a5, a6, a7, a8] <;> first | exact one | exact zero

end accuracy

/-! ### multiplying by `identity()` changes nothing (exact real values; 32) -/
section identity32
open F32

theorem okb_32 {t : Nat} (h : F32.Bnd t 2) : |F32.toReal t| ≤ 100000 := le_trans h.2 (by norm_num)

/-- `identity() * v = v` -/
theorem identity_mulVec32 (fm : Bool) (v : Mat32.V3) (hv : F32.V3.Ok v) :
    F32.toReal (Mat32.M3.mulArr fm Mat32.M3.identity v).x = F32.toReal v.x ∧ F32.toReal (Mat32.M3.mulArr fm Mat32.M3.identity v).y = F32.toReal v.y ∧
    F32.toReal (Mat32.M3.mulArr fm Mat32.M3.identity v).z = F32.toReal v.z := by
  obtain ⟨i0, i1, i2, i3, i4, i5, i6, i7, i8⟩ := F32.id_lits
  have b1 : ∀ a, F32.Or1 a → |F32.toReal a| ≤ 100000 := fun a h => by rw [h.2]; norm_num
  have b0 : ∀ a, F32.Zr a → |F32.toReal a| ≤ 100000 := fun a h => by rw [h.2]; norm_num
  refine ⟨?_, ?_, ?_⟩
  · exact F32.dot_pick0 fm (Mat32.idLit 0) (Mat32.idLit 1) (Mat32.idLit 2) v.x v.y v.z v.x i0.1 i1.1 i2.1 hv.1.1 hv.2.1.1 hv.2.2.1 hv.1.1
      (by intro t ht; simp only [List.mem_cons, List.mem_nil_iff, or_false] at ht; rcases ht with h | h | h | h | h | h | h <;> subst h <;> first | exact b1 _ i0 | exact b0 _ i1 | exact b0 _ i2 | exact okb_32 hv.1 | exact okb_32 hv.2.1 | exact okb_32 hv.2.2)
      (by rw [i0.2, one_mul]) (by rw [i1.2, zero_mul]) (by rw [i2.2, zero_mul])
  · exact F32.dot_pick1 fm (Mat32.idLit 3) (Mat32.idLit 4) (Mat32.idLit 5) v.x v.y v.z v.y i3.1 i4.1 i5.1 hv.1.1 hv.2.1.1 hv.2.2.1 hv.2.1.1
      (by intro t ht; simp only [List.mem_cons, List.mem_nil_iff, or_false] at ht; rcases ht with h | h | h | h | h | h | h <;> subst h <;> first | exact b0 _ i3 | exact b1 _ i4 | exact b0 _ i5 | exact okb_32 hv.1 | exact okb_32 hv.2.1 | exact okb_32 hv.2.2)
      (by rw [i3.2, zero_mul]) (by rw [i4.2, one_mul]) (by rw [i5.2, zero_mul])
  · exact F32.dot_pick2 fm (Mat32.idLit 6) (Mat32.idLit 7) (Mat32.idLit 8) v.x v.y v.z v.z i6.1 i7.1 i8.1 hv.1.1 hv.2.1.1 hv.2.2.1 hv.2.2.1
      (by intro t ht; simp only [List.mem_cons, List.mem_nil_iff, or_false] at ht; rcases ht with h | h | h | h | h | h | h <;> subst h <;> first | exact b0 _ i6 | exact b0 _ i7 | exact b1 _ i8 | exact okb_32 hv.1 | exact okb_32 hv.2.1 | exact okb_32 hv.2.2)
      (by rw [i6.2, zero_mul]) (by rw [i7.2, zero_mul]) (by rw [i8.2, one_mul])

/-- a row of `A * identity()` is the row of `A` -/
theorem row_mul_identity32 (fm : Bool) (r : Mat32.V3) (hr : F32.V3.Ok r) :
    F32.toReal (Mat32.fmadd fm r.x (Mat32.idLit 0) (Mat32.fmadd fm r.y (Mat32.idLit 3) (F32.mul r.z (Mat32.idLit 6)))) = F32.toReal r.x ∧
    F32.toReal (Mat32.fmadd fm r.x (Mat32.idLit 1) (Mat32.fmadd fm r.y (Mat32.idLit 4) (F32.mul r.z (Mat32.idLit 7)))) = F32.toReal r.y ∧
    F32.toReal (Mat32.fmadd fm r.x (Mat32.idLit 2) (Mat32.fmadd fm r.y (Mat32.idLit 5) (F32.mul r.z (Mat32.idLit 8)))) = F32.toReal r.z := by
  obtain ⟨i0, i1, i2, i3, i4, i5, i6, i7, i8⟩ := F32.id_lits
  have b1 : ∀ a, F32.Or1 a → |F32.toReal a| ≤ 100000 := fun a h => by rw [h.2]; norm_num
  have b0 : ∀ a, F32.Zr a → |F32.toReal a| ≤ 100000 := fun a h => by rw [h.2]; norm_num
  refine ⟨?_, ?_, ?_⟩
  · exact F32.dot_pick0 fm r.x r.y r.z (Mat32.idLit 0) (Mat32.idLit 3) (Mat32.idLit 6) r.x hr.1.1 hr.2.1.1 hr.2.2.1 i0.1 i3.1 i6.1 hr.1.1
      (by intro t ht; simp only [List.mem_cons, List.mem_nil_iff, or_false] at ht; rcases ht with h | h | h | h | h | h | h <;> subst h <;> first | exact b1 _ i0 | exact b0 _ i3 | exact b0 _ i6 | exact okb_32 hr.1 | exact okb_32 hr.2.1 | exact okb_32 hr.2.2)
      (by rw [i0.2, mul_one]) (by rw [i3.2, mul_zero]) (by rw [i6.2, mul_zero])
  · exact F32.dot_pick1 fm r.x r.y r.z (Mat32.idLit 1) (Mat32.idLit 4) (Mat32.idLit 7) r.y hr.1.1 hr.2.1.1 hr.2.2.1 i1.1 i4.1 i7.1 hr.2.1.1
      (by intro t ht; simp only [List.mem_cons, List.mem_nil_iff, or_false] at ht; rcases ht with h | h | h | h | h | h | h <;> subst h <;> first | exact b0 _ i1 | exact b1 _ i4 | exact b0 _ i7 | exact okb_32 hr.1 | exact okb_32 hr.2.1 | exact okb_32 hr.2.2)
      (by rw [i1.2, mul_zero]) (by rw [i4.2, mul_one]) (by rw [i7.2, mul_zero])
  · exact F32.dot_pick2 fm r.x r.y r.z (Mat32.idLit 2) (Mat32.idLit 5) (Mat32.idLit 8) r.z hr.1.1 hr.2.1.1 hr.2.2.1 i2.1 i5.1 i8.1 hr.2.2.1
      (by intro t ht; simp only [List.mem_cons, List.mem_nil_iff, or_false] at ht; rcases ht with h | h | h | h | h | h | h <;> subst h <;> first | exact b0 _ i2 | exact b0 _ i5 | exact b1 _ i8 | exact okb_32 hr.1 | exact okb_32 hr.2.1 | exact okb_32 hr.2.2)
      (by rw [i2.2, mul_zero]) (by rw [i5.2, mul_zero]) (by rw [i8.2, mul_one])

/-- `A * identity() = A`, entry by entry -/
theorem mulMat_identity32 (fm : Bool) (a : Mat32.M3) (ha : F32.M3.Ok a) :
    let p := Mat32.M3.mulMat fm a Mat32.M3.identity
    (F32.toReal p.r1.x = F32.toReal a.r1.x ∧ F32.toReal p.r1.y = F32.toReal a.r1.y ∧ F32.toReal p.r1.z = F32.toReal a.r1.z) ∧
    (F32.toReal p.r2.x = F32.toReal a.r2.x ∧ F32.toReal p.r2.y = F32.toReal a.r2.y ∧ F32.toReal p.r2.z = F32.toReal a.r2.z) ∧
    (F32.toReal p.r3.x = F32.toReal a.r3.x ∧ F32.toReal p.r3.y = F32.toReal a.r3.y ∧ F32.toReal p.r3.z = F32.toReal a.r3.z) :=
  ⟨row_mul_identity32 fm a.r1 ha.1, row_mul_identity32 fm a.r2 ha.2.1, row_mul_identity32 fm a.r3 ha.2.2⟩

/-- `identity() * A = A`, entry by entry (each column of `A` is a vector) -/
theorem identity_mulMat32 (fm : Bool) (a : Mat32.M3) (ha : F32.M3.Ok a) :
    let p := Mat32.M3.mulMat fm Mat32.M3.identity a
    (F32.toReal p.r1.x = F32.toReal a.r1.x ∧ F32.toReal p.r1.y = F32.toReal a.r1.y ∧ F32.toReal p.r1.z = F32.toReal a.r1.z) ∧
    (F32.toReal p.r2.x = F32.toReal a.r2.x ∧ F32.toReal p.r2.y = F32.toReal a.r2.y ∧ F32.toReal p.r2.z = F32.toReal a.r2.z) ∧
    (F32.toReal p.r3.x = F32.toReal a.r3.x ∧ F32.toReal p.r3.y = F32.toReal a.r3.y ∧ F32.toReal p.r3.z = F32.toReal a.r3.z) := by
  intro p
  have c1 := identity_mulVec32 fm ⟨a.r1.x, a.r2.x, a.r3.x⟩ ⟨ha.1.1, ha.2.1.1, ha.2.2.1⟩
  have c2 := identity_mulVec32 fm ⟨a.r1.y, a.r2.y, a.r3.y⟩ ⟨ha.1.2.1, ha.2.1.2.1, ha.2.2.2.1⟩
  have c3 := identity_mulVec32 fm ⟨a.r1.z, a.r2.z, a.r3.z⟩ ⟨ha.1.2.2, ha.2.1.2.2, ha.2.2.2.2⟩
  exact ⟨⟨c1.1, c2.1, c3.1⟩, ⟨c1.2.1, c2.2.1, c3.2.1⟩, ⟨c1.2.2, c2.2.2, c3.2.2⟩⟩

end identity32

/-! ### multiplying by `identity()` changes nothing (exact real values; 64) -/
section identity64
open F64

theorem okb_64 {t : Nat} (h : F64.Bnd t 2) : |F64.toReal t| ≤ 100000 := le_trans h.2 (by norm_num)

/-- `identity() * v = v` -/
theorem identity_mulVec64 (fm : Bool) (v : Mat64.V3) (hv : F64.V3.Ok v) :
    F64.toReal (Mat64.M3.mulArr fm Mat64.M3.identity v).x = F64.toReal v.x ∧ F64.toReal (Mat64.M3.mulArr fm Mat64.M3.identity v).y = F64.toReal v.y ∧
    F64.toReal (Mat64.M3.mulArr fm Mat64.M3.identity v).z = F64.toReal v.z := by
  obtain ⟨i0, i1, i2, i3, i4, i5, i6, i7, i8⟩ := F64.id_lits
  have b1 : ∀ a, F64.Or1 a → |F64.toReal a| ≤ 100000 := fun a h => by rw [h.2]; norm_num
  have b0 : ∀ a, F64.Zr a → |F64.toReal a| ≤ 100000 := fun a h => by rw [h.2]; norm_num
  refine ⟨?_, ?_, ?_⟩
  · exact F64.dot_pick0 fm (Mat64.idLit 0) (Mat64.idLit 1) (Mat64.idLit 2) v.x v.y v.z v.x i0.1 i1.1 i2.1 hv.1.1 hv.2.1.1 hv.2.2.1 hv.1.1
      (by intro t ht; simp only [List.mem_cons, List.mem_nil_iff, or_false] at ht; rcases ht with h | h | h | h | h | h | h <;> subst h <;> first | exact b1 _ i0 | exact b0 _ i1 | exact b0 _ i2 | exact okb_64 hv.1 | exact okb_64 hv.2.1 | exact okb_64 hv.2.2)
      (by rw [i0.2, one_mul]) (by rw [i1.2, zero_mul]) (by rw [i2.2, zero_mul])
  · exact F64.dot_pick1 fm (Mat64.idLit 3) (Mat64.idLit 4) (Mat64.idLit 5) v.x v.y v.z v.y i3.1 i4.1 i5.1 hv.1.1 hv.2.1.1 hv.2.2.1 hv.2.1.1
      (by intro t ht; simp only [List.mem_cons, List.mem_nil_iff, or_false] at ht; rcases ht with h | h | h | h | h | h | h <;> subst h <;> first | exact b0 _ i3 | exact b1 _ i4 | exact b0 _ i5 | exact okb_64 hv.1 | exact okb_64 hv.2.1 | exact okb_64 hv.2.2)
      (by rw [i3.2, zero_mul]) (by rw [i4.2, one_mul]) (by rw [i5.2, zero_mul])
  · exact F64.dot_pick2 fm (Mat64.idLit 6) (Mat64.idLit 7) (Mat64.idLit 8) v.x v.y v.z v.z i6.1 i7.1 i8.1 hv.1.1 hv.2.1.1 hv.2.2.1 hv.2.2.1
      (by intro t ht; simp only [List.mem_cons, List.mem_nil_iff, or_false] at ht; rcases ht with h | h | h | h | h | h | h <;> subst h <;> first | exact b0 _ i6 | exact b0 _ i7 | exact b1 _ i8 | exact okb_64 hv.1 | exact okb_64 hv.2.1 | exact okb_64 hv.2.2)
      (by rw [i6.2, zero_mul]) (by rw [i7.2, zero_mul]) (by rw [i8.2, one_mul])

/-- a row of `A * identity()` is the row of `A` -/
theorem row_mul_identity64 (fm : Bool) (r : Mat64.V3) (hr : F64.V3.Ok r) :
    F64.toReal (Mat64.fmadd fm r.x (Mat64.idLit 0) (Mat64.fmadd fm r.y (Mat64.idLit 3) (F64.mul r.z (Mat64.idLit 6)))) = F64.toReal r.x ∧
    F64.toReal (Mat64.fmadd fm r.x (Mat64.idLit 1) (Mat64.fmadd fm r.y (Mat64.idLit 4) (F64.mul r.z (Mat64.idLit 7)))) = F64.toReal r.y ∧
    F64.toReal (Mat64.fmadd fm r.x (Mat64.idLit 2) (Mat64.fmadd fm r.y (Mat64.idLit 5) (F64.mul r.z (Mat64.idLit 8)))) = F64.toReal r.z := by
  obtain ⟨i0, i1, i2, i3, i4, i5, i6, i7, i8⟩ := F64.id_lits
  have b1 : ∀ a, F64.Or1 a → |F64.toReal a| ≤ 100000 := fun a h => by rw [h.2]; norm_num
  have b0 : ∀ a, F64.Zr a → |F64.toReal a| ≤ 100000 := fun a h => by rw [h.2]; norm_num
  refine ⟨?_, ?_, ?_⟩
  · exact F64.dot_pick0 fm r.x r.y r.z (Mat64.idLit 0) (Mat64.idLit 3) (Mat64.idLit 6) r.x hr.1.1 hr.2.1.1 hr.2.2.1 i0.1 i3.1 i6.1 hr.1.1
      (by intro t ht; simp only [List.mem_cons, List.mem_nil_iff, or_false] at ht; rcases ht with h | h | h | h | h | h | h <;> subst h <;> first | exact b1 _ i0 | exact b0 _ i3 | exact b0 _ i6 | exact okb_64 hr.1 | exact okb_64 hr.2.1 | exact okb_64 hr.2.2)
      (by rw [i0.2, mul_one]) (by rw [i3.2, mul_zero]) (by rw [i6.2, mul_zero])
  · exact F64.dot_pick1 fm r.x r.y r.z (Mat64.idLit 1) (Mat64.idLit 4) (Mat64.idLit 7) r.y hr.1.1 hr.2.1.1 hr.2.2.1 i1.1 i4.1 i7.1 hr.2.1.1
      (by intro t ht; simp only [List.mem_cons, List.mem_nil_iff, or_false] at ht; rcases ht with h | h | h | h | h | h | h <;> subst h <;> first | exact b0 _ i1 | exact b1 _ i4 | exact b0 _ i7 | exact okb_64 hr.1 | exact okb_64 hr.2.1 | exact okb_64 hr.2.2)
      (by rw [i1.2, mul_zero]) (by rw [i4.2, mul_one]) (by rw [i7.2, mul_zero])
  · exact F64.dot_pick2 fm r.x r.y r.z (Mat64.idLit 2) (Mat64.idLit 5) (Mat64.idLit 8) r.z hr.1.1 hr.2.1.1 hr.2.2.1 i2.1 i5.1 i8.1 hr.2.2.1
      (by intro t ht; simp only [List.mem_cons, List.mem_nil_iff, or_false] at ht; rcases ht with h | h | h | h | h | h | h <;> subst h <;> first | exact b0 _ i2 | exact b0 _ i5 | exact b1 _ i8 | exact okb_64 hr.1 | exact okb_64 hr.2.1 | exact okb_64 hr.2.2)
      (by rw [i2.2, mul_zero]) (by rw [i5.2, mul_zero]) (by rw [i8.2, mul_one])

/-- `A * identity() = A`, entry by entry -/
theorem mulMat_identity64 (fm : Bool) (a : Mat64.M3) (ha : F64.M3.Ok a) :
    let p := Mat64.M3.mulMat fm a Mat64.M3.identity
    (F64.toReal p.r1.x = F64.toReal a.r1.x ∧ F64.toReal p.r1.y = F64.toReal a.r1.y ∧ F64.toReal p.r1.z = F64.toReal a.r1.z) ∧
    (F64.toReal p.r2.x = F64.toReal a.r2.x ∧ F64.toReal p.r2.y = F64.toReal a.r2.y ∧ F64.toReal p.r2.z = F64.toReal a.r2.z) ∧
    (F64.toReal p.r3.x = F64.toReal a.r3.x ∧ F64.toReal p.r3.y = F64.toReal a.r3.y ∧ F64.toReal p.r3.z = F64.toReal a.r3.z) :=
  ⟨row_mul_identity64 fm a.r1 ha.1, row_mul_identity64 fm a.r2 ha.2.1, row_mul_identity64 fm a.r3 ha.2.2⟩

/-- `identity() * A = A`, entry by entry (each column of `A` is a vector) -/
theorem identity_mulMat64 (fm : Bool) (a : Mat64.M3) (ha : F64.M3.Ok a) :
    let p := Mat64.M3.mulMat fm Mat64.M3.identity a
    (F64.toReal p.r1.x = F64.toReal a.r1.x ∧ F64.toReal p.r1.y = F64.toReal a.r1.y ∧ F64.toReal p.r1.z = F64.toReal a.r1.z) ∧
    (F64.toReal p.r2.x = F64.toReal a.r2.x ∧ F64.toReal p.r2.y = F64.toReal a.r2.y ∧ F64.toReal p.r2.z = F64.toReal a.r2.z) ∧
    (F64.toReal p.r3.x = F64.toReal a.r3.x ∧ F64.toReal p.r3.y = F64.toReal a.r3.y ∧ F64.toReal p.r3.z = F64.toReal a.r3.z) := by
  intro p
  have c1 := identity_mulVec64 fm ⟨a.r1.x, a.r2.x, a.r3.x⟩ ⟨ha.1.1, ha.2.1.1, ha.2.2.1⟩
  have c2 := identity_mulVec64 fm ⟨a.r1.y, a.r2.y, a.r3.y⟩ ⟨ha.1.2.1, ha.2.1.2.1, ha.2.2.2.1⟩
  have c3 := identity_mulVec64 fm ⟨a.r1.z, a.r2.z, a.r3.z⟩ ⟨ha.1.2.2, ha.2.1.2.2, ha.2.2.2.2⟩
  exact ⟨⟨c1.1, c2.1, c3.1⟩, ⟨c1.2.1, c2.2.1, c3.2.1⟩, ⟨c1.2.2, c2.2.2, c3.2.2⟩⟩

end identity64

/-! ### invert -/

/-- **A * invert(A) = I and invert(A) * A = I within 1e-4** for finite entries of magnitude at most 2 and |det A| ≥ 1/2 (exact
determinant `F32.detR`), all 18 entries, both FMA modes, binary32 -/
theorem invert_accurate32 (fm : Bool) (m : Mat32.M3) (hm : OkM32 m) (hdet : 1 / 2 ≤ |F32.detR m|) : F32.InvClose fm m := F32.invert_close fm m hm hdet

/-- the same for the binary64 instantiation -/
theorem invert_accurate64 (fm : Bool) (m : Mat64.M3) (hm : OkM64 m) (hdet : 1 / 2 ≤ |F64.detR m|) : F64.InvClose fm m := F64.invert_close fm m hm hdet

/-- the determinant used in the hypothesis is the mathematical one -/
theorem detR_def (m : Mat32.M3) : F32.detR m =
    F32.toReal m.r1.x * (F32.toReal m.r2.y * F32.toReal m.r3.z - F32.toReal m.r2.z * F32.toReal m.r3.y)
    - F32.toReal m.r1.y * (F32.toReal m.r2.x * F32.toReal m.r3.z - F32.toReal m.r2.z * F32.toReal m.r3.x)
    + F32.toReal m.r1.z * (F32.toReal m.r2.x * F32.toReal m.r3.y - F32.toReal m.r2.y * F32.toReal m.r3.x) := by
  unfold F32.detR; ring

end C19
