import Props.C17b
/-! C17, round trip LinearRgb -> Hsl -> LinearRgb within 1e-5. Part 1: the real hexcone decode `dec h c m` written with the
closed-form ramps `Tr, Tg, Tb` (1-Lipschitz in the hue), and the fact that decoding the real hue of ANY branch the code may
take (a component within `δ` of the maximum) returns the pixel within `δ`. -/
namespace C17
open Real

/-- ramps of the hexcone over the hue in sextant units `h ∈ [0,6]` -/
noncomputable def Tr (h : ℝ) : ℝ := Max.max 0 (Min.min 1 (|h - 3| - 1))
noncomputable def Tg (h : ℝ) : ℝ := Max.max 0 (Min.min 1 (2 - |h - 2|))
noncomputable def Tb (h : ℝ) : ℝ := Max.max 0 (Min.min 1 (2 - |h - 4|))

theorem clamp01_lip (a b : ℝ) : |Max.max 0 (Min.min 1 a) - Max.max 0 (Min.min 1 b)| ≤ |a - b| := by
  have h1 : |Max.max 0 (Min.min 1 a) - Max.max 0 (Min.min 1 b)| ≤ |Min.min 1 a - Min.min 1 b| := by
    simpa [max_comm] using abs_max_sub_max_le_abs (Min.min 1 a) (Min.min 1 b) 0
  have h2 : |Min.min 1 a - Min.min 1 b| ≤ |a - b| := by
    have := abs_min_sub_min_le_max 1 a 1 b
    simpa using this
  exact le_trans h1 h2

theorem clamp01_range (a : ℝ) : 0 ≤ Max.max 0 (Min.min 1 a) ∧ Max.max 0 (Min.min 1 a) ≤ 1 :=
  ⟨le_max_left _ _, max_le (by norm_num) (min_le_left _ _)⟩

theorem Tr_lip (h h' : ℝ) : |Tr h - Tr h'| ≤ |h - h'| := by
  unfold Tr
  refine le_trans (clamp01_lip _ _) ?_
  have : |h - 3| - 1 - (|h' - 3| - 1) = |h - 3| - |h' - 3| := by ring
  rw [this]
  refine le_trans (abs_abs_sub_abs_le_abs_sub _ _) ?_
  rw [show h - 3 - (h' - 3) = h - h' by ring]
theorem Tg_lip (h h' : ℝ) : |Tg h - Tg h'| ≤ |h - h'| := by
  unfold Tg
  refine le_trans (clamp01_lip _ _) ?_
  have : 2 - |h - 2| - (2 - |h' - 2|) = -(|h - 2| - |h' - 2|) := by ring
  rw [this, abs_neg]
  refine le_trans (abs_abs_sub_abs_le_abs_sub _ _) ?_
  rw [show h - 2 - (h' - 2) = h - h' by ring]
theorem Tb_lip (h h' : ℝ) : |Tb h - Tb h'| ≤ |h - h'| := by
  unfold Tb
  refine le_trans (clamp01_lip _ _) ?_
  have : 2 - |h - 4| - (2 - |h' - 4|) = -(|h - 4| - |h' - 4|) := by ring
  rw [this, abs_neg]
  refine le_trans (abs_abs_sub_abs_le_abs_sub _ _) ?_
  rw [show h - 4 - (h' - 4) = h - h' by ring]

theorem T_range (h : ℝ) : (0 ≤ Tr h ∧ Tr h ≤ 1) ∧ (0 ≤ Tg h ∧ Tg h ≤ 1) ∧ (0 ≤ Tb h ∧ Tb h ≤ 1) :=
  ⟨clamp01_range _, clamp01_range _, clamp01_range _⟩

/-- values of the ramps on each sextant -/
theorem clamp_mid (a : ℝ) (h0 : 0 ≤ a) (h1 : a ≤ 1) : Max.max 0 (Min.min 1 a) = a := by rw [min_eq_right h1, max_eq_right h0]
theorem clamp_hi (a : ℝ) (h1 : 1 ≤ a) : Max.max 0 (Min.min 1 a) = 1 := by rw [min_eq_left h1, max_eq_right (by norm_num)]
theorem clamp_lo (a : ℝ) (h0 : a ≤ 0) : Max.max 0 (Min.min 1 a) = 0 := by rw [min_eq_right (by linarith), max_eq_left h0]

theorem T_s0 (h : ℝ) (a : 0 ≤ h) (b : h ≤ 1) : Tr h = 1 ∧ Tg h = h ∧ Tb h = 0 := by
  unfold Tr Tg Tb
  rw [abs_of_nonpos (by linarith : h - 3 ≤ 0), abs_of_nonpos (by linarith : h - 2 ≤ 0), abs_of_nonpos (by linarith : h - 4 ≤ 0)]
  exact ⟨clamp_hi _ (by linarith), by rw [clamp_mid _ (by linarith) (by linarith)]; ring, clamp_lo _ (by linarith)⟩
theorem T_s1 (h : ℝ) (a : 1 ≤ h) (b : h ≤ 2) : Tr h = 2 - h ∧ Tg h = 1 ∧ Tb h = 0 := by
  unfold Tr Tg Tb
  rw [abs_of_nonpos (by linarith : h - 3 ≤ 0), abs_of_nonpos (by linarith : h - 2 ≤ 0), abs_of_nonpos (by linarith : h - 4 ≤ 0)]
  exact ⟨by rw [clamp_mid _ (by linarith) (by linarith)]; ring, clamp_hi _ (by linarith), clamp_lo _ (by linarith)⟩
theorem T_s2 (h : ℝ) (a : 2 ≤ h) (b : h ≤ 3) : Tr h = 0 ∧ Tg h = 1 ∧ Tb h = h - 2 := by
  unfold Tr Tg Tb
  rw [abs_of_nonpos (by linarith : h - 3 ≤ 0), abs_of_nonneg (by linarith : 0 ≤ h - 2), abs_of_nonpos (by linarith : h - 4 ≤ 0)]
  exact ⟨clamp_lo _ (by linarith), clamp_hi _ (by linarith), by rw [clamp_mid _ (by linarith) (by linarith)]; ring⟩
theorem T_s3 (h : ℝ) (a : 3 ≤ h) (b : h ≤ 4) : Tr h = 0 ∧ Tg h = 4 - h ∧ Tb h = 1 := by
  unfold Tr Tg Tb
  rw [abs_of_nonneg (by linarith : 0 ≤ h - 3), abs_of_nonneg (by linarith : 0 ≤ h - 2), abs_of_nonpos (by linarith : h - 4 ≤ 0)]
  exact ⟨clamp_lo _ (by linarith), by rw [clamp_mid _ (by linarith) (by linarith)]; ring, clamp_hi _ (by linarith)⟩
theorem T_s4 (h : ℝ) (a : 4 ≤ h) (b : h ≤ 5) : Tr h = h - 4 ∧ Tg h = 0 ∧ Tb h = 1 := by
  unfold Tr Tg Tb
  rw [abs_of_nonneg (by linarith : 0 ≤ h - 3), abs_of_nonneg (by linarith : 0 ≤ h - 2), abs_of_nonneg (by linarith : 0 ≤ h - 4)]
  exact ⟨by rw [clamp_mid _ (by linarith) (by linarith)]; ring, clamp_lo _ (by linarith), clamp_hi _ (by linarith)⟩
theorem T_s5 (h : ℝ) (a : 5 ≤ h) (b : h ≤ 6) : Tr h = 1 ∧ Tg h = 0 ∧ Tb h = 6 - h := by
  unfold Tr Tg Tb
  rw [abs_of_nonneg (by linarith : 0 ≤ h - 3), abs_of_nonneg (by linarith : 0 ≤ h - 2), abs_of_nonneg (by linarith : 0 ≤ h - 4)]
  exact ⟨clamp_hi _ (by linarith), clamp_lo _ (by linarith), by rw [clamp_mid _ (by linarith) (by linarith)]; ring⟩

/-- the ratio of two component differences to the chroma lies in [-1, 1] -/
theorem ratio_bounds (a b M m : ℝ) (ha : m ≤ a ∧ a ≤ M) (hb : m ≤ b ∧ b ≤ M) (hC : 0 < M - m) : -1 ≤ (a - b) / (M - m) ∧ (a - b) / (M - m) ≤ 1 := by
  constructor
  · rw [le_div_iff₀ hC]; linarith [ha.1, hb.2]
  · rw [div_le_iff₀ hC]; linarith [ha.2, hb.1]

/-- decoding the hue of the x-branch returns (max, y, z): exact in y and z, within δ in x. `M`, `m` are the maximum and minimum. -/
theorem dec_branch_x (x y z δ M m : ℝ) (bx : m ≤ x ∧ x ≤ M) (bY : m ≤ y ∧ y ≤ M) (bz : m ≤ z ∧ z ≤ M) (hmc : m = x ∨ m = y ∨ m = z)
    (hC : 0 < M - m) (hδ : M - x ≤ δ) (hδC : δ < M - m) (h : ℝ)
    (hh : h = if (y - z) / (M - m) < 0 then (y - z) / (M - m) + 6 else (y - z) / (M - m)) :
    (0 ≤ h ∧ h ≤ 6) ∧ |m + (M - m) * Tr h - x| ≤ δ ∧ m + (M - m) * Tg h = y ∧ m + (M - m) * Tb h = z := by
  obtain ⟨r1, r2⟩ := ratio_bounds y z _ _ bY bz hC
  have hxm : m ≠ x := by intro e; rw [e] at hδC; linarith
  have hMx : |M - x| ≤ δ := by rw [abs_le]; constructor <;> linarith [bx.2]
  by_cases hneg : (y - z) / (M - m) < 0
  · rw [if_pos hneg] at hh
    have hyz : y < z := by rw [div_lt_iff₀ hC] at hneg; linarith
    have hm : m = y := by rcases hmc with e | e | e <;> [exact absurd e hxm; exact e; (exfalso; rw [e] at bY; linarith [bY.1])]
    obtain ⟨t1, t2, t3⟩ := T_s5 h (by rw [hh]; linarith) (by rw [hh]; linarith)
    refine ⟨⟨by rw [hh]; linarith, by rw [hh]; linarith⟩, ?_, ?_, ?_⟩
    · rw [t1]; rw [show m + (M - m) * 1 - x = M - x by ring]; exact hMx
    · rw [t2, hm]; ring
    · have key : (M - m) * ((y - z) / (M - m)) = y - z := by field_simp
      rw [t3, hh, show m + (M - m) * (6 - ((y - z) / (M - m) + 6)) = m - (M - m) * ((y - z) / (M - m)) by ring, key, hm]; ring
  · push Not at hneg
    rw [if_neg (not_lt.mpr hneg)] at hh
    have hyz : z ≤ y := by rw [le_div_iff₀ hC] at hneg; linarith
    have hm : m = z := by
      rcases hmc with e | e | e
      · exact absurd e hxm
      · rw [e] at bz; rw [e]; linarith [bz.1]
      · exact e
    obtain ⟨t1, t2, t3⟩ := T_s0 h (by rw [hh]; exact hneg) (by rw [hh]; exact r2)
    refine ⟨⟨by rw [hh]; exact hneg, by rw [hh]; linarith⟩, ?_, ?_, ?_⟩
    · rw [t1]; rw [show m + (M - m) * 1 - x = M - x by ring]; exact hMx
    · have key : (M - m) * ((y - z) / (M - m)) = y - z := by field_simp
      rw [t2, hh, key, hm]; ring
    · rw [t3, hm]; ring

/-- the y-branch -/
theorem dec_branch_y (x y z δ M m : ℝ) (bx : m ≤ x ∧ x ≤ M) (bY : m ≤ y ∧ y ≤ M) (bz : m ≤ z ∧ z ≤ M) (hmc : m = x ∨ m = y ∨ m = z)
    (hC : 0 < M - m) (hδ : M - y ≤ δ) (hδC : δ < M - m) (h : ℝ) (hh : h = 2 + (z - x) / (M - m)) :
    (0 ≤ h ∧ h ≤ 6) ∧ m + (M - m) * Tr h = x ∧ |m + (M - m) * Tg h - y| ≤ δ ∧ m + (M - m) * Tb h = z := by
  obtain ⟨r1, r2⟩ := ratio_bounds z x _ _ bz bx hC
  have hym : m ≠ y := by intro e; rw [e] at hδC; linarith
  have hMy : |M - y| ≤ δ := by rw [abs_le]; constructor <;> linarith [bY.2]
  by_cases hneg : (z - x) / (M - m) ≤ 0
  · have hzx : z ≤ x := by rw [div_le_iff₀ hC] at hneg; linarith
    have hm : m = z := by
      rcases hmc with e | e | e
      · rw [e] at bz; rw [e]; linarith [bz.1]
      · exact absurd e hym
      · exact e
    obtain ⟨t1, t2, t3⟩ := T_s1 h (by rw [hh]; linarith) (by rw [hh]; linarith)
    refine ⟨⟨by rw [hh]; linarith, by rw [hh]; linarith⟩, ?_, ?_, ?_⟩
    · have key : (M - m) * ((z - x) / (M - m)) = z - x := by field_simp
      rw [t1, hh, show m + (M - m) * (2 - (2 + (z - x) / (M - m))) = m - (M - m) * ((z - x) / (M - m)) by ring, key, hm]; ring
    · rw [t2]; rw [show m + (M - m) * 1 - y = M - y by ring]; exact hMy
    · rw [t3, hm]; ring
  · push Not at hneg
    have hzx : x ≤ z := by rw [lt_div_iff₀ hC] at hneg; linarith
    have hm : m = x := by
      rcases hmc with e | e | e
      · exact e
      · exact absurd e hym
      · rw [e] at bx; rw [e]; linarith [bx.1]
    obtain ⟨t1, t2, t3⟩ := T_s2 h (by rw [hh]; linarith) (by rw [hh]; linarith)
    refine ⟨⟨by rw [hh]; linarith, by rw [hh]; linarith⟩, ?_, ?_, ?_⟩
    · rw [t1, hm]; ring
    · rw [t2]; rw [show m + (M - m) * 1 - y = M - y by ring]; exact hMy
    · have key : (M - m) * ((z - x) / (M - m)) = z - x := by field_simp
      rw [t3, hh, show m + (M - m) * (2 + (z - x) / (M - m) - 2) = m + (M - m) * ((z - x) / (M - m)) by ring, key, hm]; ring

/-- the z-branch -/
theorem dec_branch_z (x y z δ M m : ℝ) (bx : m ≤ x ∧ x ≤ M) (bY : m ≤ y ∧ y ≤ M) (bz : m ≤ z ∧ z ≤ M) (hmc : m = x ∨ m = y ∨ m = z)
    (hC : 0 < M - m) (hδ : M - z ≤ δ) (hδC : δ < M - m) (h : ℝ) (hh : h = 4 + (x - y) / (M - m)) :
    (0 ≤ h ∧ h ≤ 6) ∧ m + (M - m) * Tr h = x ∧ m + (M - m) * Tg h = y ∧ |m + (M - m) * Tb h - z| ≤ δ := by
  obtain ⟨r1, r2⟩ := ratio_bounds x y _ _ bx bY hC
  have hzm : m ≠ z := by intro e; rw [e] at hδC; linarith
  have hMz : |M - z| ≤ δ := by rw [abs_le]; constructor <;> linarith [bz.2]
  by_cases hneg : (x - y) / (M - m) ≤ 0
  · have hxy : x ≤ y := by rw [div_le_iff₀ hC] at hneg; linarith
    have hm : m = x := by
      rcases hmc with e | e | e
      · exact e
      · rw [e] at bx; rw [e]; linarith [bx.1]
      · exact absurd e hzm
    obtain ⟨t1, t2, t3⟩ := T_s3 h (by rw [hh]; linarith) (by rw [hh]; linarith)
    refine ⟨⟨by rw [hh]; linarith, by rw [hh]; linarith⟩, ?_, ?_, ?_⟩
    · rw [t1, hm]; ring
    · have key : (M - m) * ((x - y) / (M - m)) = x - y := by field_simp
      rw [t2, hh, show m + (M - m) * (4 - (4 + (x - y) / (M - m))) = m - (M - m) * ((x - y) / (M - m)) by ring, key, hm]; ring
    · rw [t3]; rw [show m + (M - m) * 1 - z = M - z by ring]; exact hMz
  · push Not at hneg
    have hxy : y ≤ x := by rw [lt_div_iff₀ hC] at hneg; linarith
    have hm : m = y := by
      rcases hmc with e | e | e
      · rw [e] at bY; rw [e]; linarith [bY.1]
      · exact e
      · exact absurd e hzm
    obtain ⟨t1, t2, t3⟩ := T_s4 h (by rw [hh]; linarith) (by rw [hh]; linarith)
    refine ⟨⟨by rw [hh]; linarith, by rw [hh]; linarith⟩, ?_, ?_, ?_⟩
    · have key : (M - m) * ((x - y) / (M - m)) = x - y := by field_simp
      rw [t1, hh, show m + (M - m) * (4 + (x - y) / (M - m) - 4) = m + (M - m) * ((x - y) / (M - m)) by ring, key, hm]; ring
    · rw [t2, hm]; ring
    · rw [t3]; rw [show m + (M - m) * 1 - z = M - z by ring]; exact hMz

end C17
