import Props.C10b
import Props.C03d
import Props.C03f
/-! C10, Log100 / Log316: gamma -> linear -> gamma returns `x` within 2.5e-4 for EVERY binary32 of `[0, 1]` (fastmath build,
both FMA modes, kernel-only; the second stage calls libm `log10`, a parameter of the model, under the stated hypothesis).
The first stage has RELATIVE error `ρ ≈ 2.1e-4` (`powf` with base 10), and the logarithm of the second stage turns a relative
error `δ` into the absolute error `log10(1 + δ) / k ≈ 0.22 δ`; near black the second stage returns 0 for values below `10^-k`,
which costs at most `ρ / k`. -/
namespace C10
open F32 MathM TransferM Real ExpPoly Horner C03

theorem log_ten_gt_two : 2 < Real.log 10 := by
  rw [Real.lt_log_iff_exp_lt (by norm_num)]
  have h1 := Real.exp_one_lt_d9
  have e : Real.exp 2 = Real.exp 1 * Real.exp 1 := by rw [← Real.exp_add]; norm_num
  rw [e]
  have h0 : 0 < Real.exp 1 := Real.exp_pos 1
  nlinarith

/-- `|log10(1 + δ)| ≤ 0.51 |δ|` for small `δ` -/
theorem logb_one_add (d : ℝ) (hd : |d| ≤ 1 / 1000) : |Real.logb 10 (1 + d)| ≤ (51 / 100) * |d| := by
  obtain ⟨d1, d2⟩ := abs_le.mp hd
  have hpos : 0 < 1 + d := by linarith
  have hl := log_ten_gt_two
  have hup : Real.log (1 + d) ≤ d := by have := Real.log_le_sub_one_of_pos hpos; linarith
  have hlo : d / (1 + d) ≤ Real.log (1 + d) := by
    have := Real.log_le_sub_one_of_pos (inv_pos.mpr hpos)
    rw [Real.log_inv] at this
    have e : (1 + d)⁻¹ - 1 = -(d / (1 + d)) := by field_simp; ring
    rw [e] at this; linarith
  unfold Real.logb
  rw [abs_div, abs_of_pos (by linarith : (0:ℝ) < Real.log 10), div_le_iff₀ (by linarith)]
  have hlog : |Real.log (1 + d)| ≤ (1002 / 1000) * |d| := by
    rw [abs_le]
    constructor
    · -- log ≥ d/(1+d) ≥ -1.001|d|
      have h1 : -(1002 / 1000 * |d|) ≤ d / (1 + d) := by
        rw [le_div_iff₀ hpos]
        by_cases hs : 0 ≤ d
        · rw [abs_of_nonneg hs]; nlinarith
        · rw [abs_of_neg (not_le.mp hs)]; nlinarith
      linarith
    · have : d ≤ |d| := le_abs_self d
      nlinarith [abs_nonneg d]
  nlinarith [abs_nonneg d]

/-- real-arithmetic core of the logarithmic round trip -/
theorem log_rt_real (k X r1 g ρ : ℝ) (hk1 : 2 ≤ k) (hk2 : k ≤ 5 / 2) (hX0 : 0 ≤ X) (hX1 : X ≤ 1) (hρ0 : 0 ≤ ρ) (hρ : ρ ≤ 3 / 10 ^ 4)
    (h1 : |r1 - (10:ℝ) ^ (k * (X - 1))| ≤ ρ * (10:ℝ) ^ (k * (X - 1))) (h2 : |g - logSpec k r1| ≤ 2 / 10 ^ 5) :
    |g - X| ≤ 2 / 10 ^ 4 := by
  set V := (10:ℝ) ^ (k * (X - 1)) with hV
  have hVpos : 0 < V := Real.rpow_pos_of_pos (by norm_num) _
  obtain ⟨a1, a2⟩ := abs_le.mp h1
  have hr1pos : 0 < r1 := by nlinarith
  have hl := log_ten_gt_two
  -- r1 = V (1 + d)
  set d := r1 / V - 1 with hd
  have hdabs : |d| ≤ ρ := by
    rw [hd, abs_le]; constructor
    · rw [le_sub_iff_add_le, le_div_iff₀ hVpos]; linarith
    · rw [sub_le_iff_le_add, div_le_iff₀ hVpos]; linarith
  have hr1e : r1 = V * (1 + d) := by rw [hd]; field_simp; ring
  have hlogV : Real.logb 10 V = k * (X - 1) := Real.logb_rpow (by norm_num) (by norm_num)
  have h1d : 0 < 1 + d := by have := (abs_le.mp hdabs).1; linarith
  unfold logSpec at h2
  by_cases hs : r1 < (10:ℝ) ^ (-k)
  · rw [if_pos hs] at h2
    -- 10^(kX) (1 - ρ) < 1, hence X is tiny
    have hsplit : V = (10:ℝ) ^ (-k) * (10:ℝ) ^ (k * X) := by
      rw [hV, ← Real.rpow_add (by norm_num)]; congr 1; ring
    have hTpos : 0 < (10:ℝ) ^ (-k) := Real.rpow_pos_of_pos (by norm_num) _
    have hW : (10:ℝ) ^ (k * X) * (1 - ρ) < 1 := by
      have : (10:ℝ) ^ (-k) * ((10:ℝ) ^ (k * X) * (1 - ρ)) < (10:ℝ) ^ (-k) * 1 := by
        rw [mul_one]
        calc (10:ℝ) ^ (-k) * ((10:ℝ) ^ (k * X) * (1 - ρ)) = V - ρ * V := by rw [hsplit]; ring
          _ ≤ r1 := by linarith
          _ < (10:ℝ) ^ (-k) := hs
      exact lt_of_mul_lt_mul_left this hTpos.le
    have hexp : 1 + Real.log 10 * (k * X) ≤ (10:ℝ) ^ (k * X) := by
      rw [Real.rpow_def_of_pos (by norm_num : (0:ℝ) < 10)]
      have := Real.add_one_le_exp (Real.log 10 * (k * X)); linarith
    have hkX : 0 ≤ k * X := by nlinarith
    have hXs : X ≤ 18 / 10 ^ 5 := by
      by_contra hc
      have hXb := not_le.mp hc
      have : (36:ℝ) / 10 ^ 5 ≤ k * X := by nlinarith
      have : (72:ℝ) / 10 ^ 5 ≤ Real.log 10 * (k * X) := by nlinarith
      nlinarith
    obtain ⟨b1, b2⟩ := abs_le.mp h2
    rw [abs_le]; constructor <;> linarith
  · rw [if_neg hs] at h2
    have hlogr : Real.logb 10 r1 = k * (X - 1) + Real.logb 10 (1 + d) := by
      rw [hr1e, Real.logb_mul hVpos.ne' h1d.ne', hlogV]
    have hld := logb_one_add d (by linarith)
    have hkpos : (0:ℝ) < k := by linarith
    have e : 1 + Real.logb 10 r1 / k = X + Real.logb 10 (1 + d) / k := by
      rw [hlogr]; field_simp; ring
    rw [e] at h2
    have hq : |Real.logb 10 (1 + d) / k| ≤ 8 / 10 ^ 5 := by
      rw [abs_div, abs_of_pos hkpos, div_le_iff₀ hkpos]
      nlinarith [abs_nonneg d]
    obtain ⟨b1, b2⟩ := abs_le.mp h2
    obtain ⟨c1, c2⟩ := abs_le.mp hq
    rw [abs_le]; constructor <;> linarith

/-- relative form of `C03.pow10_branch`: `powf(10, k (x - 1))` within relative `ε (1 + 4e-6) + 4e-6` of `10^(k (x - 1))` -/
theorem pow10_branch_rel (B : Build) (ε : ℝ) (ho : Pow10Oracle B ε) (hε : ε ≤ 1 / 1000) (c10 ck c1 : Nat) (K : ℝ)
    (h10 : Finite c10 ∧ toReal c10 = 10 ∧ 8388608 ≤ c10 ∧ c10 < 2139095040) (hk : Finite ck ∧ toReal ck = K) (hK1 : 2 ≤ K) (hK2 : K ≤ 5 / 2)
    (h1c : Finite c1 ∧ toReal c1 = 1 ∧ WF c1) (x : Nat) (hx : Finite x) (h0 : 0 ≤ toReal x) (h1 : toReal x ≤ 1) :
    ∃ r, powf B c10 (mul ck (sub x c1)) = .ok r ∧ Finite r ∧
      |toReal r - (10:ℝ) ^ (K * (toReal x - 1))| ≤ (ε * (1 + 4 / 10 ^ 6) + 4 / 10 ^ 6) * (10:ℝ) ^ (K * (toReal x - 1)) := by
  have hu' : u = 1 / 16777216 := u_val
  have he' : eta ≤ 1 / 10 ^ 40 := eta_le
  set X := toReal x with hX
  obtain ⟨hsf, hse⟩ := sub_val x c1 h1c.2.2 hx h1c.1 (by rw [h1c.2.1]; apply fit_small; rw [abs_le]; constructor <;> linarith)
  rw [h1c.2.1] at hse
  set t := toReal (sub x c1) with ht
  have hX1abs : |X - 1| ≤ 1 := by rw [abs_le]; constructor <;> linarith
  have htabs : |t| ≤ 2 := by
    have := abs_sub_abs_le_abs_sub t (X - 1); rw [hu'] at hse; nlinarith
  obtain ⟨hyb, hye⟩ := mul_bnd ck (sub x c1) K 2 ⟨hk.1, by rw [hk.2, abs_of_nonneg (by linarith)]⟩ ⟨hsf, htabs⟩ (fit_small _ (by linarith))
  rw [hk.2] at hye
  set Y := toReal (mul ck (sub x c1)) with hY
  have hYd : |Y - K * (X - 1)| ≤ 1 / 10 ^ 6 := by
    have e : Y - K * (X - 1) = (Y - K * t) + K * (t - (X - 1)) := by ring
    rw [e]
    refine le_trans (abs_add_le _ _) ?_
    rw [abs_mul, abs_of_nonneg (by linarith : (0:ℝ) ≤ K)]
    rw [hu'] at hye hse
    have : K * |t - (X - 1)| ≤ (5 / 2) * (1 / 16777216 * |X - 1| + eta) := by
      apply mul_le_mul hK2 hse (abs_nonneg _) (by norm_num)
    nlinarith
  obtain ⟨d1, d2⟩ := abs_le.mp hYd
  have hYabs : |Y| ≤ 3 := by rw [abs_le]; constructor <;> nlinarith
  obtain ⟨r, hr1, hr2, hr3⟩ := ho c10 (mul ck (sub x c1)) h10.1 h10.2.1 h10.2.2.1 h10.2.2.2 hyb.1 hYabs
  refine ⟨r, hr1, hr2, ?_⟩
  have h10pos : 0 < (10:ℝ) ^ Y := Real.rpow_pos_of_pos (by norm_num) _
  have hpert := ten_pow_pert (K * (X - 1)) (Y - K * (X - 1)) (by linarith)
  have e : K * (X - 1) + (Y - K * (X - 1)) = Y := by ring
  rw [e] at hpert
  set V := (10:ℝ) ^ (K * (X - 1)) with hV
  have hVpos : 0 < V := Real.rpow_pos_of_pos (by norm_num) _
  have hε0 : 0 ≤ ε := by
    have := le_trans (abs_nonneg _) hr3
    by_contra hc
    have hneg := not_le.mp hc
    nlinarith
  have hp2 : |(10:ℝ) ^ Y - V| ≤ (3 / 10 ^ 6) * V := by
    refine le_trans hpert ?_
    apply mul_le_mul_of_nonneg_right _ hVpos.le
    nlinarith
  obtain ⟨p1, p2⟩ := abs_le.mp hp2
  have e2 : toReal r - V = (toReal r - (10:ℝ) ^ Y) + ((10:ℝ) ^ Y - V) := by ring
  rw [e2]
  refine le_trans (abs_add_le _ _) ?_
  have hb1 : ε * (10:ℝ) ^ Y ≤ ε * (V * (1 + 3 / 10 ^ 6)) := mul_le_mul_of_nonneg_left (by linarith) hε0
  nlinarith

/-- the constant `0.00316…` of Log316 against `10^-2.5` -/
theorem c316_close (c : ℝ) (hclo : 31622 / 10 ^ 7 ≤ c) (h3 : (c - 1 / 10 ^ 7) ^ 2 ≤ 1 / 10 ^ 5) (h4 : 1 / 10 ^ 5 ≤ (c + 1 / 10 ^ 7) ^ 2) :
    |c - (10:ℝ) ^ ((5 / 2 : ℝ) * ((0:ℝ) - 1))| ≤ 1 / 10 ^ 7 ∧ 3 / 1000 ≤ (10:ℝ) ^ ((5 / 2 : ℝ) * ((0:ℝ) - 1)) := by
  set s := (10:ℝ) ^ ((5 / 2 : ℝ) * ((0:ℝ) - 1)) with hs
  have hspos : 0 < s := Real.rpow_pos_of_pos (by norm_num) _
  have hs2 : s ^ 2 = 1 / 10 ^ 5 := by
    rw [hs, ← Real.rpow_natCast, ← Real.rpow_mul (by norm_num)]
    rw [show ((5:ℝ) / 2 * ((0:ℝ) - 1) * ((2:ℕ):ℝ)) = ((-5:ℤ):ℝ) by norm_num, Real.rpow_intCast]; norm_num
  have hlo : c - 1 / 10 ^ 7 ≤ s := (abs_le_of_sq_le_sq' (a := c - 1 / 10 ^ 7) (b := s) (by rw [hs2]; exact h3) hspos.le).2
  have hhi : s ≤ c + 1 / 10 ^ 7 := (abs_le_of_sq_le_sq' (a := s) (b := c + 1 / 10 ^ 7) (by rw [hs2]; exact h4) (by linarith)).2
  refine ⟨by rw [abs_le]; constructor <;> linarith, by linarith⟩

/-- the first-stage value lies in `(0, 1.001]` -/
theorem stage1_range (k X r1 ρ : ℝ) (hk : 0 ≤ k) (hX1 : X ≤ 1) (hρ0 : 0 ≤ ρ) (hρ : ρ ≤ 3 / 10 ^ 4)
    (h : |r1 - (10:ℝ) ^ (k * (X - 1))| ≤ ρ * (10:ℝ) ^ (k * (X - 1))) : 0 ≤ r1 ∧ r1 ≤ 1001 / 1000 := by
  have hVpos : 0 < (10:ℝ) ^ (k * (X - 1)) := Real.rpow_pos_of_pos (by norm_num) _
  have hV1 : (10:ℝ) ^ (k * (X - 1)) ≤ 1 := by
    have : (10:ℝ) ^ (k * (X - 1)) ≤ (10:ℝ) ^ (0:ℝ) := Real.rpow_le_rpow_of_exponent_le (by norm_num) (by nlinarith)
    rw [Real.rpow_zero] at this; exact this
  obtain ⟨a1, a2⟩ := abs_le.mp h
  constructor <;> nlinarith

section oracle
variable (B : Build) (ε : ℝ) (ho : Pow10Oracle B ε) (hε : ε ≤ 25 / 10 ^ 5)
include ho hε

theorem eps_nonneg : 0 ≤ ε := by
  obtain ⟨a1, a2, _, _, c1, c2, c3, c4, _⟩ := cert_log
  obtain ⟨fz, vz⟩ := zero_of _ a1 a2
  obtain ⟨_, _, _, hq⟩ := ho C.log100_inverse_oetf_f2 C.log100_inverse_oetf_f0 (val_of _ _ c1 c2).1 (by rw [(val_of _ _ c1 c2).2]; norm_num) c3 c4 fz (by rw [vz]; norm_num)
  have hp : 0 < (10:ℝ) ^ (toReal C.log100_inverse_oetf_f0) := Real.rpow_pos_of_pos (by norm_num) _
  have := le_trans (abs_nonneg _) hq
  by_contra hc
  nlinarith [not_le.mp hc]

/-- Log100 gamma -> linear, relative form -/
theorem log100_lin_rel (x : Nat) (hx : Finite x) (h0 : 0 ≤ toReal x) (h1 : toReal x ≤ 1) :
    ∃ r, log100_inverse_oetf B x = .ok r ∧ Finite r ∧
      |toReal r - (10:ℝ) ^ ((2:ℝ) * (toReal x - 1))| ≤ (ε * (1 + 4 / 10 ^ 6) + 4 / 10 ^ 5) * (10:ℝ) ^ ((2:ℝ) * (toReal x - 1)) := by
  obtain ⟨a1, a2, b1, b2, c1, c2, c3, c4, d1, d2, e1, e2, e3, _⟩ := cert_log
  have hε0 := eps_nonneg B ε ho hε
  unfold log100_inverse_oetf
  by_cases hle : le x C.log100_inverse_oetf_f0 = true
  · rw [if_pos hle]
    have hX0 := (le_zero_iff x _ hx (zero_of _ a1 a2) h0).mp hle
    obtain ⟨fc, vc⟩ := Exp2.rat_val _ b1
    refine ⟨_, rfl, fc, ?_⟩
    rw [hX0, vc]
    have e : (10:ℝ) ^ ((2:ℝ) * ((0:ℝ) - 1)) = 1 / 100 := by
      rw [show ((2:ℝ) * ((0:ℝ) - 1)) = ((-2:ℤ):ℝ) by norm_num, Real.rpow_intCast]; norm_num
    rw [e]
    have := (Rat.cast_le (K := ℝ)).mpr b2
    push_cast at this
    refine le_trans this ?_
    nlinarith
  · rw [if_neg hle]
    obtain ⟨r, hr1, hr2, hr3⟩ := pow10_branch_rel B ε ho (by linarith) _ _ _ 2 ⟨(val_of _ _ c1 c2).1, by rw [(val_of _ _ c1 c2).2]; norm_num, c3, c4⟩
      ⟨(val_of _ _ d1 d2).1, by rw [(val_of _ _ d1 d2).2]; norm_num⟩ (by norm_num) (by norm_num)
      ⟨(val_of _ _ e1 e2).1, by rw [(val_of _ _ e1 e2).2]; norm_num, e3⟩ x hx h0 h1
    refine ⟨r, hr1, hr2, le_trans hr3 ?_⟩
    apply mul_le_mul_of_nonneg_right _ (Real.rpow_pos_of_pos (by norm_num) _).le
    linarith

/-- Log316 gamma -> linear, relative form -/
theorem log316_lin_rel (x : Nat) (hx : Finite x) (h0 : 0 ≤ toReal x) (h1 : toReal x ≤ 1) :
    ∃ r, log316_inverse_oetf B x = .ok r ∧ Finite r ∧
      |toReal r - (10:ℝ) ^ ((5 / 2 : ℝ) * (toReal x - 1))| ≤ (ε * (1 + 4 / 10 ^ 6) + 4 / 10 ^ 5) * (10:ℝ) ^ ((5 / 2 : ℝ) * (toReal x - 1)) := by
  obtain ⟨_, _, _, _, _, _, _, _, _, _, _, _, _, a1, a2, b1, b2, b3, b4, c1, c2, c3, c4, d1, d2, e1, e2, e3⟩ := cert_log
  have hε0 := eps_nonneg B ε ho hε
  unfold log316_inverse_oetf
  by_cases hle : le x C.log316_inverse_oetf_f0 = true
  · rw [if_pos hle]
    have hX0 := (le_zero_iff x _ hx (zero_of _ a1 a2) h0).mp hle
    obtain ⟨fc, vc⟩ := Exp2.rat_val _ b1
    refine ⟨_, rfl, fc, ?_⟩
    rw [hX0, vc]
    have hclo : (31622:ℝ) / 10 ^ 7 ≤ ((ratOf C.log316_inverse_oetf_f1 : ℚ) : ℝ) := by have := (Rat.cast_le (K := ℝ)).mpr b2; push_cast at this; exact this
    have h3 : (((ratOf C.log316_inverse_oetf_f1 : ℚ) : ℝ) - 1 / 10 ^ 7) ^ 2 ≤ 1 / 10 ^ 5 := by have := (Rat.cast_le (K := ℝ)).mpr b3; push_cast at this; exact this
    have h4 : 1 / 10 ^ 5 ≤ (((ratOf C.log316_inverse_oetf_f1 : ℚ) : ℝ) + 1 / 10 ^ 7) ^ 2 := by have := (Rat.cast_le (K := ℝ)).mpr b4; push_cast at this; exact this
    obtain ⟨q1, q2⟩ := c316_close _ hclo h3 h4
    refine le_trans q1 ?_
    nlinarith
  · rw [if_neg hle]
    obtain ⟨r, hr1, hr2, hr3⟩ := pow10_branch_rel B ε ho (by linarith) _ _ _ (5 / 2) ⟨(val_of _ _ c1 c2).1, by rw [(val_of _ _ c1 c2).2]; norm_num, c3, c4⟩
      ⟨(val_of _ _ d1 d2).1, by rw [(val_of _ _ d1 d2).2]; norm_num⟩ (by norm_num) (by norm_num)
      ⟨(val_of _ _ e1 e2).1, by rw [(val_of _ _ e1 e2).2]; norm_num, e3⟩ x hx h0 h1
    refine ⟨r, hr1, hr2, le_trans hr3 ?_⟩
    apply mul_le_mul_of_nonneg_right _ (Real.rpow_pos_of_pos (by norm_num) _).le
    linarith

variable (hL : LibmLog10Accurate B.libm)
include hL

theorem log100_roundtrip_o : RoundTripWithin (log100_inverse_oetf B) (log100_oetf B) := by
  intro x hxw hx h0 h1
  have hε0 := eps_nonneg B ε ho hε
  obtain ⟨r1, hr1, hf1, he1⟩ := log100_lin_rel B ε ho hε x hx h0 h1
  have hρ0 : 0 ≤ ε * (1 + 4 / 10 ^ 6) + 4 / 10 ^ 5 := by nlinarith
  have hρ : ε * (1 + 4 / 10 ^ 6) + 4 / 10 ^ 5 ≤ 3 / 10 ^ 4 := by nlinarith
  obtain ⟨p0, p1⟩ := stage1_range 2 _ _ _ (by norm_num) h1 hρ0 hρ he1
  obtain ⟨r2, hr2, hf2, he2⟩ := log100_to_gamma_ext B hL r1 hf1 p0 p1
  refine ⟨r1, r2, hr1, hr2, hf2, ?_⟩
  exact lt_of_le_of_lt (log_rt_real 2 _ _ _ _ (by norm_num) (by norm_num) h0 h1 hρ0 hρ he1 he2) (by norm_num)

theorem log316_roundtrip_o : RoundTripWithin (log316_inverse_oetf B) (log316_oetf B) := by
  intro x hxw hx h0 h1
  have hε0 := eps_nonneg B ε ho hε
  obtain ⟨r1, hr1, hf1, he1⟩ := log316_lin_rel B ε ho hε x hx h0 h1
  have hρ0 : 0 ≤ ε * (1 + 4 / 10 ^ 6) + 4 / 10 ^ 5 := by nlinarith
  have hρ : ε * (1 + 4 / 10 ^ 6) + 4 / 10 ^ 5 ≤ 3 / 10 ^ 4 := by nlinarith
  obtain ⟨p0, p1⟩ := stage1_range (5 / 2) _ _ _ (by norm_num) h1 hρ0 hρ he1
  obtain ⟨r2, hr2, hf2, he2⟩ := log316_to_gamma_ext B hL r1 hf1 p0 p1
  refine ⟨r1, r2, hr1, hr2, hf2, ?_⟩
  exact lt_of_le_of_lt (log_rt_real (5 / 2) _ _ _ _ (by norm_num) (by norm_num) h0 h1 hρ0 hρ he1 he2) (by norm_num)

end oracle

/-- **C10, Log100 and Log316** (fastmath build; libm `log10` within 1e-6 on `[0.003, 1.001]` as hypothesis): gamma -> linear ->
gamma returns every binary32 of `[0, 1]` within 2.5e-4 (proved 2e-4), through the dispatch tables -/
theorem log_roundtrip (B : Build) (hB : B.fastmath = true) (hL : LibmLog10Accurate B.libm) :
    (∃ f g, toLinearFn B .Logarithmic100 = .ok f ∧ toGammaFn B .Logarithmic100 = .ok g ∧ RoundTripWithin f g) ∧
    (∃ f g, toLinearFn B .Logarithmic316 = .ok f ∧ toGammaFn B .Logarithmic316 = .ok g ∧ RoundTripWithin f g) :=
  ⟨⟨_, _, rfl, rfl, log100_roundtrip_o B _ (fast_oracle10 B hB) (by norm_num) hL⟩,
   ⟨_, _, rfl, rfl, log316_roundtrip_o B _ (fast_oracle10 B hB) (by norm_num) hL⟩⟩

end C10
