import Props.C03g
import Proofs.PowExt
import Proofs.F32Sign
/-! C03, sRGB gamma -> linear: within 2.5e-4 of the IEC 61966-2-1 formula for every binary32 of `[0, 1]` (fastmath build,
both FMA modes, kernel-only), through `SrgbReal.linear_consts` for the difference between the crate's derivative-matched
constants and the standard ones. -/
namespace C03
open F32 MathM TransferM Real ExpPoly Horner SrgbReal

/-- exact rational value of the crate's threshold base `((T + α - 1) / α)` and of the base at the standard threshold -/
def bTq : ℚ := (ratOf (mul C.srgb_eotf_f1 BSRGB) + ratOf ASRGB - 1) / ratOf ASRGB
def bSq : ℚ := (4045 / 100000 + ratOf ASRGB - 1) / ratOf ASRGB

theorem cert_srgb_l :
    finiteB C.srgb_eotf_f0 = true ∧ ratOf C.srgb_eotf_f0 = 0 ∧ C.srgb_eotf_f0 < 4294967296 ∧
    finiteB (mul C.srgb_eotf_f1 BSRGB) = true ∧ 3929330 / 10 ^ 8 ≤ ratOf (mul C.srgb_eotf_f1 BSRGB) ∧ ratOf (mul C.srgb_eotf_f1 BSRGB) ≤ 3929345 / 10 ^ 8 ∧
    finiteB ASRGB = true ∧ 10550106 / 10 ^ 7 ≤ ratOf ASRGB ∧ ratOf ASRGB ≤ 10550108 / 10 ^ 7 ∧
    finiteB (sub ASRGB C.srgb_eotf_f3) = true ∧ ratOf (sub ASRGB C.srgb_eotf_f3) = ratOf ASRGB - 1 ∧
    finiteB C.srgb_eotf_f2 = true ∧ |ratOf C.srgb_eotf_f2 - 1292 / 100| ≤ 1 / 10 ^ 6 ∧
    finiteB C.srgb_eotf_f4 = true ∧ |ratOf C.srgb_eotf_f4 - 12 / 5| ≤ 1 / 10 ^ 6 ∧
    (30412780 / 10 ^ 10 : ℚ) ^ 5 ≤ bTq ^ 12 ∧ bTq ^ 12 ≤ (30412812 / 10 ^ 10 : ℚ) ^ 5 ∧ bSq ^ 12 ≤ (31315718 / 10 ^ 10 : ℚ) ^ 5 ∧ 0 ≤ bTq ∧ 0 ≤ bSq := by
  decide +kernel

/-- powers of nearby bases in `(0, 1.001]`, exponent 2.4 -/
theorem rpow_base_pert2 (u v : ℝ) (hu : 0 < u) (hv : 0 < v) (hu1 : u ≤ 1001 / 1000) (hv1 : v ≤ 1001 / 1000) :
    |v ^ ((12:ℝ) / 5) - u ^ ((12:ℝ) / 5)| ≤ (5 / 2) * |v - u| := by
  have key : ∀ a b : ℝ, 0 < a → 0 < b → a ≤ b → b ≤ 1001 / 1000 → b ^ ((12:ℝ) / 5) - a ^ ((12:ℝ) / 5) ≤ (5 / 2) * (b - a) := by
    intro a b ha hb hab hb1
    have h := convex_tangent b a ((12:ℝ) / 5) hb ha (by norm_num)
    have hq : b ^ ((12:ℝ) / 5) / b ≤ 101 / 100 := by
      rw [div_le_iff₀ hb]
      by_cases hb' : b ≤ 1
      · calc b ^ ((12:ℝ) / 5) ≤ b ^ (1:ℝ) := Real.rpow_le_rpow_of_exponent_ge hb hb' (by norm_num)
          _ = b := Real.rpow_one b
          _ ≤ 101 / 100 * b := by nlinarith
      · have hb'' := (not_le.mp hb').le
        calc b ^ ((12:ℝ) / 5) ≤ b ^ (3:ℝ) := Real.rpow_le_rpow_of_exponent_le hb'' (by norm_num)
          _ = b ^ 3 := by rw [show (3:ℝ) = ((3:ℕ):ℝ) by norm_num, Real.rpow_natCast]
          _ ≤ 101 / 100 * b := by nlinarith [sq_nonneg b]
    have hba : 0 ≤ b - a := by linarith
    have h5 : (12 / 5 : ℝ) * (b ^ ((12:ℝ) / 5) / b) * (b - a) ≤ 12 / 5 * (101 / 100) * (b - a) := by
      apply mul_le_mul_of_nonneg_right _ hba
      exact mul_le_mul_of_nonneg_left hq (by norm_num)
    nlinarith
  rcases le_total u v with h | h
  · have hk := key u v hu hv h hv1
    have hmono : u ^ ((12:ℝ) / 5) ≤ v ^ ((12:ℝ) / 5) := Real.rpow_le_rpow hu.le h (by norm_num)
    rw [abs_of_nonneg (by linarith), abs_of_nonneg (by linarith)]; exact hk
  · have hk := key v u hv hu h hu1
    have hmono : v ^ ((12:ℝ) / 5) ≤ u ^ ((12:ℝ) / 5) := Real.rpow_le_rpow hv.le h (by norm_num)
    rw [abs_sub_comm, abs_of_nonneg (by linarith), abs_sub_comm, abs_of_nonneg (by linarith)]; exact hk

/-- real-arithmetic core of the power branch, for a power step of accuracy `ε` -/
theorem srgb_l_real (b bh r S ε : ℝ) (hb0 : 1 / 20 ≤ b) (hb1 : b ≤ 1) (hbh : |bh - b| ≤ 3 / 10 ^ 7)
    (hr : |r - bh ^ ((12:ℝ) / 5)| ≤ ε)
    (hc : |b ^ ((12:ℝ) / 5) - S| ≤ 24 / 10 ^ 6) : |r - S| ≤ ε + 2475 / 10 ^ 8 := by
  obtain ⟨d1, d2⟩ := abs_le.mp hbh
  have hp := rpow_base_pert2 b bh (by linarith) (by linarith) (by linarith) (by linarith)
  have e : r - S = (r - bh ^ ((12:ℝ) / 5)) + (bh ^ ((12:ℝ) / 5) - b ^ ((12:ℝ) / 5)) + (b ^ ((12:ℝ) / 5) - S) := by ring
  rw [e]
  refine le_trans (abs_add_three _ _ _) ?_
  have : (5 / 2 : ℝ) * |bh - b| ≤ 5 / 2 * (3 / 10 ^ 7) := mul_le_mul_of_nonneg_left hbh (by norm_num)
  linarith

/-- the base of the power branch, `(x + (α - 1)) / α`, as computed in binary32 -/
theorem srgb_base (x' af αf : Nat) (X α : ℝ) (hxf : Finite x') (hxv : toReal x' = X) (h0 : 0 ≤ X) (h1 : X ≤ 1)
    (fs : Finite af) (hav : toReal af = α - 1) (fa : Finite αf) (hαv : toReal αf = α)
    (hα1 : 10550106 / 10 ^ 7 ≤ α) (hα2 : α ≤ 10550108 / 10 ^ 7) :
    Finite (div (add x' af) αf) ∧ 0 ≤ toReal (div (add x' af) αf) ∧ |toReal (div (add x' af) αf) - (X + (α - 1)) / α| ≤ 3 / 10 ^ 7 := by
  have hu' : u = 1 / 16777216 := u_val
  have he' : eta ≤ 1 / 10 ^ 40 := eta_le
  have hep := eta_pos
  have hud := ud_le
  have hudpos := ud_pos
  have hαpos : 0 < α := by linarith
  have hxabs : |toReal x'| ≤ 1 := by rw [hxv, abs_of_nonneg h0]; exact h1
  have haabs : |toReal af| ≤ 6 / 100 := by rw [hav, abs_le]; constructor <;> linarith
  obtain ⟨hsb, hse⟩ := add_bnd x' af 1 (6 / 100) ⟨hxf, hxabs⟩ ⟨fs, haabs⟩ (fit_small _ (by norm_num))
  rw [hxv, hav] at hse
  have hs0 : 0 ≤ toReal (add x' af) := by
    have := add_ge x' af 0 hxf fs c_zero.1 (by rw [hxv, hav]; apply fit_small; rw [abs_le]; constructor <;> linarith)
      (by rw [c_zero.2]; apply fit_small; norm_num) (by rw [c_zero.2, hxv, hav]; linarith)
    rw [c_zero.2] at this; exact this
  set sv := toReal (add x' af) with hsv
  have hmag : (1 + 6 / 100) * (1 + u) + eta ≤ (2:ℝ) := by rw [hu']; linarith
  have hsabs : |sv| ≤ 2 := le_trans hsb.2 hmag
  have hαabs : (1:ℝ) ≤ |toReal αf| := by rw [hαv, abs_of_pos hαpos]; linarith
  obtain ⟨hdb, hde⟩ := div_bnd (add x' af) αf 2 1 ⟨hsb.1, hsabs⟩ fa (by norm_num) hαabs
    (le_trans (by norm_num : (2:ℝ) / 1 ≤ 100) (by norm_num))
  rw [hαv] at hde
  refine ⟨hdb.1, ?_, ?_⟩
  · apply div_nonneg_val _ _ hsb.1 fa hs0 (by rw [hαv]; exact hαpos)
    rw [hαv, abs_div, abs_of_nonneg hs0, abs_of_pos hαpos]
    refine le_trans ?_ (by norm_num : (100:ℝ) ≤ (2:ℝ) ^ (126:ℤ))
    rw [div_le_iff₀ hαpos]
    have := (abs_le.mp hsabs).2
    linarith
  · have e : toReal (div (add x' af) αf) - (X + (α - 1)) / α = (toReal (div (add x' af) αf) - sv / α) + (sv - (X + (α - 1))) / α := by
      field_simp; ring
    rw [e]
    refine le_trans (abs_add_le _ _) ?_
    have h4 : |(sv - (X + (α - 1))) / α| ≤ 7 / 10 ^ 8 := by
      rw [abs_div, abs_of_pos hαpos, div_le_iff₀ hαpos]
      refine le_trans hse ?_
      rw [hu']; linarith
    have h5 : ud * ((2:ℝ) / 1) ≤ (1 / 10 ^ 7) * (2 / 1) := mul_le_mul_of_nonneg_right hud (by norm_num)
    linarith

section oracle
variable (B : Build) (c0 c1 : ℝ) (ho : PowOracle B c0 c1)
include ho

theorem srgb_to_linear_o : CurveWithinB (srgb_eotf B) specLinear (c0 + c1 * (12 / 5) + 2475 / 10 ^ 8) := by
  obtain ⟨z1, z2, z3, t1, t2, t3, a1, a2, a3, s1, s2, k1, k2, y1, y2, e1, e2, e3, e4, e5⟩ := cert_srgb_l
  have hu' : u = 1 / 16777216 := u_val
  have he' : eta ≤ 1 / 10 ^ 40 := eta_le
  have hud := ud_le
  have hudpos := ud_pos
  intro x hxw hx h0 h1
  obtain ⟨fz, vz⟩ := zero_of _ z1 z2
  obtain ⟨hm1, hm2⟩ := max_val x C.srgb_eotf_f0 hx fz
  have hxf : Finite (F32.max x C.srgb_eotf_f0) := by rcases hm1 with e | e <;> rw [e] <;> assumption
  have hxv : toReal (F32.max x C.srgb_eotf_f0) = toReal x := by rw [hm2, vz]; exact max_eq_left h0
  obtain ⟨ft, vt⟩ := Exp2.rat_val _ t1
  obtain ⟨fa, va⟩ := Exp2.rat_val _ a1
  obtain ⟨fs, vs⟩ := Exp2.rat_val _ s1
  have hT1 : (3929330:ℝ) / 10 ^ 8 ≤ toReal (mul C.srgb_eotf_f1 BSRGB) := by rw [vt]; have := (Rat.cast_le (K := ℝ)).mpr t2; push_cast at this; exact this
  have hT2 : toReal (mul C.srgb_eotf_f1 BSRGB) ≤ 3929345 / 10 ^ 8 := by rw [vt]; have := (Rat.cast_le (K := ℝ)).mpr t3; push_cast at this; exact this
  have hα1 : (10550106:ℝ) / 10 ^ 7 ≤ toReal ASRGB := by rw [va]; have := (Rat.cast_le (K := ℝ)).mpr a2; push_cast at this; exact this
  have hα2 : toReal ASRGB ≤ 10550108 / 10 ^ 7 := by rw [va]; have := (Rat.cast_le (K := ℝ)).mpr a3; push_cast at this; exact this
  have hav : toReal (sub ASRGB C.srgb_eotf_f3) = toReal ASRGB - 1 := by rw [vs, s2, va]; push_cast; ring
  unfold srgb_eotf
  dsimp only
  set x' := F32.max x C.srgb_eotf_f0 with hx'
  set X := toReal x with hX
  set α := toReal ASRGB with hα
  set T := toReal (mul C.srgb_eotf_f1 BSRGB) with hT
  obtain ⟨fy', vy'⟩ := near_of' _ _ _ y1 y2
  have hy' : |toReal C.srgb_eotf_f4 - 12 / 5| ≤ 1 / 10 ^ 6 := by push_cast at vy'; norm_num at vy' ⊢; exact vy'
  by_cases hlt : lt x' (mul C.srgb_eotf_f1 BSRGB) = true
  · rw [if_pos hlt]
    have hXlt : X < T := by have := (lt_iff x' _ hxf ft).mp hlt; rw [hxv] at this; exact this
    obtain ⟨fk, vk⟩ := near_of' _ _ _ k1 k2
    push_cast at vk
    obtain ⟨k1', k2'⟩ := abs_le.mp vk
    have hkabs : (12:ℝ) ≤ |toReal C.srgb_eotf_f2| := by rw [abs_of_pos (by linarith)]; linarith
    have hXabs : |toReal x'| ≤ 1 / 10 := by rw [hxv, abs_of_nonneg h0]; linarith
    obtain ⟨hrb, hre⟩ := div_bnd x' C.srgb_eotf_f2 (1 / 10) 12 ⟨hxf, hXabs⟩ fk (by norm_num) hkabs
      (le_trans (by norm_num : (1 / 10 : ℝ) / 12 ≤ 100) (by norm_num))
    rw [hxv] at hre
    refine ⟨_, rfl, hrb.1, ?_⟩
    unfold specLinear
    rw [if_pos (by norm_num; linarith)]
    set c := toReal C.srgb_eotf_f2 with hc
    have hcpos : 0 < c := by linarith
    have e : toReal (div x' C.srgb_eotf_f2) - X / 12.92 = (toReal (div x' C.srgb_eotf_f2) - X / c) + (X / c - X / 12.92) := by ring
    rw [e]
    refine le_trans (abs_add_le _ _) ?_
    have hεpos : 0 ≤ c0 + c1 * (12 / 5) := by
      obtain ⟨_, _, _, _, hq⟩ := ho 0 _ (12 / 5) (by unfold WF; norm_num) c_zero.1 (by rw [c_zero.2]) (by rw [c_zero.2]; norm_num) fy' (by norm_num) (by norm_num) hy'
      exact le_trans (abs_nonneg _) hq
    have h3 : |X / c - X / 12.92| ≤ 1 / 10 ^ 8 := by
      have e2 : X / c - X / 12.92 = X * (12.92 - c) / (c * 12.92) := by field_simp
      rw [e2, abs_div, abs_of_pos (by positivity : (0:ℝ) < c * 12.92), div_le_iff₀ (by positivity), abs_mul, abs_of_nonneg h0]
      have : |12.92 - c| ≤ 1 / 10 ^ 6 := by rw [abs_sub_comm]; norm_num at vk ⊢; exact vk
      nlinarith [abs_nonneg (12.92 - c)]
    have : ud * ((1 / 10 : ℝ) / 12) ≤ (1 / 10 ^ 7) * ((1 / 10) / 12) := mul_le_mul_of_nonneg_right hud (by norm_num)
    linarith
  · rw [if_neg hlt]
    have hXge : T ≤ X := by
      by_contra hc
      exact hlt ((lt_iff x' _ hxf ft).mpr (by rw [hxv]; exact not_le.mp hc))
    have hαpos : 0 < α := by linarith
    obtain ⟨hdbf, hbh0, hbhb⟩ := srgb_base x' (sub ASRGB C.srgb_eotf_f3) ASRGB X α hxf hxv h0 h1 fs hav fa rfl hα1 hα2
    set bh := toReal (div (add x' (sub ASRGB C.srgb_eotf_f3)) ASRGB) with hbh
    set b := (X + (α - 1)) / α with hb
    have hb1 : b ≤ 1 := by rw [hb, div_le_one hαpos]; linarith
    have hb0 : 1 / 20 ≤ b := by rw [hb, le_div_iff₀ hαpos]; nlinarith
    obtain ⟨bb1, bb2⟩ := abs_le.mp hbhb
    -- the power
    obtain ⟨fy, vy⟩ := near_of' _ _ _ y1 y2
    push_cast at vy
    obtain ⟨r, hr1, _, hr2, hr3⟩ := ho (div (add x' (sub ASRGB C.srgb_eotf_f3)) ASRGB) C.srgb_eotf_f4 (12 / 5)
      (div_wf _ _) hdbf hbh0 (by linarith) fy' (by norm_num) (by norm_num) hy'
    refine ⟨r, hr1, hr2, ?_⟩
    -- enclosures
    have hbTq : ((bTq : ℚ) : ℝ) = (T + (α - 1)) / α := by
      have h1' : T = ((ratOf (mul C.srgb_eotf_f1 BSRGB) : ℚ) : ℝ) := vt
      have h2' : α = ((ratOf ASRGB : ℚ) : ℝ) := va
      rw [h1', h2']; unfold bTq; push_cast; ring
    have hbSq : ((bSq : ℚ) : ℝ) = ((0.04045:ℝ) + (α - 1)) / α := by
      have h2' : α = ((ratOf ASRGB : ℚ) : ℝ) := va
      have h3' : (0.04045:ℝ) = 4045 / 100000 := by norm_num
      rw [h2', h3']; unfold bSq; push_cast; ring
    have hE := rpow_encl ((T + (α - 1)) / α) (30412780 / 10 ^ 10) (30412812 / 10 ^ 10) 12 5 (by norm_num)
      (by rw [← hbTq]; exact_mod_cast e4) (by norm_num) (by norm_num)
      (by rw [← hbTq]; have := (Rat.cast_le (K := ℝ)).mpr e1; push_cast at this; exact this)
      (by rw [← hbTq]; have := (Rat.cast_le (K := ℝ)).mpr e2; push_cast at this; exact this)
    have hF := rpow_encl (((0.04045:ℝ) + (α - 1)) / α) 0 (31315718 / 10 ^ 10) 12 5 (by norm_num)
      (by rw [← hbSq]; exact_mod_cast e5) (by norm_num) (by norm_num)
      (by norm_num; positivity)
      (by rw [← hbSq]; have := (Rat.cast_le (K := ℝ)).mpr e3; push_cast at this; exact this)
    have e125 : (((12:ℕ):ℝ) / ((5:ℕ):ℝ)) = (12:ℝ) / 5 := by norm_num
    rw [e125] at hE hF
    have hc := linear_consts α T X hα1 hα2 hT1 hT2 hE.1 hE.2 hF.2 hXge h1
    exact srgb_l_real b bh (toReal r) (specLinear X) _ hb0 hb1 hbhb hr3 hc

end oracle

section fast
variable (B : Build) (hB : B.fastmath = true)
include hB

theorem srgb_to_linear : CurveWithinF (srgb_eotf B) specLinear := by
  intro x hxw hx h0 h1
  obtain ⟨r, h2, h3, h4⟩ := srgb_to_linear_o B _ _ (fast_oracle B hB) x hxw hx h0 h1
  exact ⟨r, h2, h3, lt_of_le_of_lt h4 (by norm_num)⟩

/-- **C03, sRGB through the dispatch, both directions** -/
theorem srgb_curves :
    (∃ f, toLinearFn B .SRGB = .ok f ∧ CurveWithinF f specLinear) ∧ (∃ g, toGammaFn B .SRGB = .ok g ∧ CurveWithinF g specGamma) :=
  ⟨⟨_, rfl, srgb_to_linear B hB⟩, srgb_to_gamma_curve B hB⟩

end fast

end C03
