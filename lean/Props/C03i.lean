import Props.C03h
import Proofs.Sqrt
/-! C03, HLG (ARIB STD-B67) linear -> gamma: `sqrt(3 x)` up to 1/12, `a ln(12 x - b) + c` above. The natural logarithm is a libm
call (`f32::ln`) in every build, i.e. a PARAMETER of the model; the theorem is stated under the explicit hypothesis that this
parameter is within 1e-6 (absolute) of the real logarithm on `[0.5, 12]`. The square root is the model's own correctly rounded
`sqrt` (`F32.sqrt_val`). The crate compares with the binary32 quotient `1.0 / 12.0`, which is slightly above 1/12: on that sliver
the two branches of the definition agree within 1e-6 (certified enclosure of `ln(0.71533108)`). -/
namespace C03
open F32 MathM TransferM Real ExpPoly Horner

def LibmLnAccurate (lm : Libm) : Prop :=
  ∀ x : Nat, Finite x → 1 / 2 ≤ toReal x → toReal x ≤ 12 →
    Finite (lm.ln x) ∧ |toReal (lm.ln x) - Real.log (toReal x)| ≤ 1 / 10 ^ 6

/-- the HLG OETF of BT.2100 -/
noncomputable def hlgSpec (X : ℝ) : ℝ :=
  if X ≤ 1 / 12 then Real.sqrt (3 * X) else 0.17883277 * Real.log (12 * X - 0.28466892) + 0.55991073

/-- `ln(0.71533108)` to seven digits, through the Taylor polynomial of `exp` with Mathlib's remainder -/
theorem log_junction : (-33501 / 100000 : ℝ) ≤ Real.log 0.71533108 ∧ Real.log 0.71533108 ≤ -3350096 / 10000000 := by
  constructor
  · rw [Real.le_log_iff_exp_le (by norm_num)]
    have hb := Real.exp_bound (x := (-33501 / 100000 : ℝ)) (by rw [abs_le]; constructor <;> norm_num) (n := 8) (by norm_num)
    norm_num [Finset.sum_range_succ, Nat.factorial] at hb
    obtain ⟨_, h2⟩ := abs_le.mp hb
    norm_num at h2 ⊢
    linarith
  · rw [Real.log_le_iff_le_exp (by norm_num)]
    have hb := Real.exp_bound (x := (-3350096 / 10000000 : ℝ)) (by rw [abs_le]; constructor <;> norm_num) (n := 8) (by norm_num)
    norm_num [Finset.sum_range_succ, Nat.factorial] at hb
    obtain ⟨h1, _⟩ := abs_le.mp hb
    norm_num at h1 ⊢
    linarith

/-- `|ln u - ln v| ≤ |u - v| / min u v` -/
theorem log_lipschitz (u v m : ℝ) (hm : 0 < m) (hu : m ≤ u) (hv : m ≤ v) : |Real.log u - Real.log v| ≤ |u - v| / m := by
  have hu0 : 0 < u := lt_of_lt_of_le hm hu
  have hv0 : 0 < v := lt_of_lt_of_le hm hv
  have key : ∀ a b : ℝ, m ≤ a → m ≤ b → Real.log a - Real.log b ≤ |a - b| / m := by
    intro a b ha hb
    have ha0 : 0 < a := lt_of_lt_of_le hm ha
    have hb0 : 0 < b := lt_of_lt_of_le hm hb
    have h := Real.log_le_sub_one_of_pos (div_pos ha0 hb0)
    rw [Real.log_div ha0.ne' hb0.ne'] at h
    have e : a / b - 1 = (a - b) / b := by field_simp
    rw [e] at h
    refine le_trans h ?_
    calc (a - b) / b ≤ |a - b| / b := div_le_div_of_nonneg_right (le_abs_self _) hb0.le
      _ ≤ |a - b| / m := div_le_div_of_nonneg_left (abs_nonneg _) hm hb
  rw [abs_le]
  constructor
  · have := key v u hv hu; rw [abs_sub_comm] at this; linarith
  · exact key u v hu hv


/-- `|sqrt a - sqrt b| ≤ |a - b| / sqrt b` -/
theorem sqrt_sub_le (a b : ℝ) (ha : 0 ≤ a) (hb : 0 < b) : |Real.sqrt a - Real.sqrt b| ≤ |a - b| / Real.sqrt b := by
  have hsb : 0 < Real.sqrt b := Real.sqrt_pos.mpr hb
  have hsa : 0 ≤ Real.sqrt a := Real.sqrt_nonneg a
  rw [le_div_iff₀ hsb]
  have e : a - b = (Real.sqrt a - Real.sqrt b) * (Real.sqrt a + Real.sqrt b) := by
    have h1 := Real.mul_self_sqrt ha
    have h2 := Real.mul_self_sqrt hb.le
    nlinarith
  rw [e, abs_mul]
  have : Real.sqrt b ≤ |Real.sqrt a + Real.sqrt b| := by rw [abs_of_nonneg (by linarith)]; linarith
  exact mul_le_mul_of_nonneg_left this (abs_nonneg _)

/-- the square-root branch: `sqrt(3 * x)` in binary32 against the real `sqrt(3 x)` -/
theorem hlg_sqrt_branch (x' c3 : Nat) (X : ℝ) (hxf : Finite x') (hxv : toReal x' = X) (h0 : 0 ≤ X) (h1 : X ≤ 1 / 10)
    (f3 : Finite c3) (v3 : toReal c3 = 3) :
    Finite (F32.sqrt (mul c3 x')) ∧ |toReal (F32.sqrt (mul c3 x')) - Real.sqrt (3 * X)| ≤ 1 / 10 ^ 6 := by
  have hu' : u = 1 / 16777216 := u_val
  have he' : eta ≤ 1 / 10 ^ 40 := eta_le
  have hep := eta_pos
  have hXabs : |toReal x'| ≤ 1 / 10 := by rw [hxv, abs_of_nonneg h0]; exact h1
  obtain ⟨hmb, hme⟩ := mul_bnd c3 x' 3 (1 / 10) ⟨f3, by rw [v3]; norm_num⟩ ⟨hxf, hXabs⟩ (fit_small _ (by norm_num))
  rw [v3, hxv] at hme
  have hm0 : 0 ≤ toReal (mul c3 x') := by
    have := mul_ge c3 x' 0 f3 hxf c_zero.1 (by rw [v3, hxv]; apply fit_small; rw [abs_le]; constructor <;> nlinarith)
      (by rw [c_zero.2]; apply fit_small; norm_num) (by rw [c_zero.2, v3, hxv]; linarith)
    rw [c_zero.2] at this; exact this
  set w := toReal (mul c3 x') with hw
  obtain ⟨n, m, e, hd⟩ := hmb.1
  have hv := toReal_of_decode _ n m e hd
  -- sharper error: relative to 3X
  have hme' : |w - 3 * X| ≤ u * (3 * X) + eta := by
    obtain ⟨_, h⟩ := mul_bnd c3 x' 3 X ⟨f3, by rw [v3]; norm_num⟩ ⟨hxf, by rw [hxv, abs_of_nonneg h0]⟩ (fit_small _ (by nlinarith))
    rw [v3, hxv] at h; exact h
  obtain ⟨w1, w2⟩ := abs_le.mp hme'
  have h3X : 0 ≤ 3 * X := by linarith
  have hsq3 : Real.sqrt (3 * X) ≤ 1 := Real.sqrt_le_one.mpr (by linarith)
  by_cases hmz : m = 0
  · -- the product is (plus or minus) zero: sqrt returns it unchanged
    have hs : F32.sqrt (mul c3 x') = mul c3 x' := by unfold F32.sqrt; rw [hd]; simp [hmz]
    rw [hs]
    refine ⟨hmb.1, ?_⟩
    have hw0 : w = 0 := by rw [hw, hv, hmz]; simp [valR]
    rw [← hw, hw0, zero_sub, abs_neg, abs_of_nonneg (Real.sqrt_nonneg _)]
    -- 3X (1 - u) ≤ eta
    have h3 : 3 * X ≤ 2 * eta := by rw [hw0] at w1; rw [hu'] at w1; nlinarith
    have : Real.sqrt (3 * X) ≤ Real.sqrt (2 * eta) := Real.sqrt_le_sqrt h3
    have h2e : Real.sqrt (2 * eta) ≤ 1 / 10 ^ 6 := by
      rw [Real.sqrt_le_left (by norm_num)]
      have : 2 * eta ≤ 2 * (1 / 10 ^ 40) := by linarith
      refine le_trans this ?_; norm_num
    linarith
  · have hnf : n = false := by
      by_contra hc
      have hn : n = true := by cases n <;> simp_all
      rw [hw, hv, hn] at hm0
      unfold valR at hm0
      simp only [if_true] at hm0
      have hmpos : (0:ℝ) < (m:ℝ) := by exact_mod_cast Nat.pos_of_ne_zero hmz
      have : (0:ℝ) < (m:ℝ) * (2:ℝ) ^ e := by positivity
      linarith
    subst hnf
    have hwpos : 0 < w := by
      rw [hw, hv]; unfold valR
      simp only [Bool.false_eq_true, if_false, one_mul]
      have hmpos : (0:ℝ) < (m:ℝ) := by exact_mod_cast Nat.pos_of_ne_zero hmz
      positivity
    have hw1 : w ≤ 1 := by rw [hu'] at w2; nlinarith
    have hsqw : Real.sqrt w ≤ 1 := Real.sqrt_le_one.mpr hw1
    obtain ⟨hsf, hse⟩ := sqrt_val (mul c3 x') m e hd hmz (by
      refine lt_of_le_of_lt hsqw ?_; norm_num)
    rw [← hw] at hse
    refine ⟨hsf, ?_⟩
    have hpart1 : |toReal (F32.sqrt (mul c3 x')) - Real.sqrt w| ≤ 2 / 10 ^ 7 := by
      refine le_trans hse ?_
      have h27 : (2:ℝ) ^ (-27:ℤ) ≤ 1 / 10 ^ 8 := by norm_num
      have h270 : (0:ℝ) ≤ (2:ℝ) ^ (-27:ℤ) := by positivity
      generalize (2:ℝ) ^ (-27:ℤ) = t27 at *
      have : (u + t27) * Real.sqrt w ≤ (u + 1 / 10 ^ 8) * 1 := by
        apply mul_le_mul _ hsqw (Real.sqrt_nonneg _) (by rw [hu']; norm_num)
        linarith
      rw [hu'] at this ⊢; linarith
    have e2 : toReal (F32.sqrt (mul c3 x')) - Real.sqrt (3 * X) = (toReal (F32.sqrt (mul c3 x')) - Real.sqrt w) + (Real.sqrt w - Real.sqrt (3 * X)) := by ring
    rw [e2]
    refine le_trans (abs_add_le _ _) ?_
    by_cases hbig : (1:ℝ) / 10 ^ 30 ≤ 3 * X
    · have hpos : 0 < 3 * X := lt_of_lt_of_le (by norm_num) hbig
      have hs := sqrt_sub_le w (3 * X) hwpos.le hpos
      have hsq_lo : (1:ℝ) / 10 ^ 15 ≤ Real.sqrt (3 * X) := by
        rw [Real.le_sqrt' (by norm_num)]
        refine le_trans ?_ hbig; norm_num
      have hsqpos : 0 < Real.sqrt (3 * X) := lt_of_lt_of_le (by norm_num) hsq_lo
      have hq : |w - 3 * X| / Real.sqrt (3 * X) ≤ u * Real.sqrt (3 * X) + eta * 10 ^ 15 := by
        rw [div_le_iff₀ hsqpos]
        have hmul : Real.sqrt (3 * X) * Real.sqrt (3 * X) = 3 * X := Real.mul_self_sqrt h3X
        have h5 : eta ≤ eta * 10 ^ 15 * Real.sqrt (3 * X) := by
          have : eta * 10 ^ 15 * (1 / 10 ^ 15) ≤ eta * 10 ^ 15 * Real.sqrt (3 * X) := mul_le_mul_of_nonneg_left hsq_lo (by positivity)
          have e5 : eta * 10 ^ 15 * (1 / 10 ^ 15) = eta := by field_simp
          linarith
        nlinarith
      have hsq1 : Real.sqrt (3 * X) ≤ 1 := hsq3
      have : eta * 10 ^ 15 ≤ 1 / 10 ^ 25 := by
        have : eta * 10 ^ 15 ≤ (1 / 10 ^ 40) * 10 ^ 15 := mul_le_mul_of_nonneg_right he' (by positivity)
        refine le_trans this ?_; norm_num
      rw [hu'] at hq
      nlinarith
    · have hsmall := (not_le.mp hbig).le
      have hw_small : w ≤ 2 / 10 ^ 30 := by rw [hu'] at w2; nlinarith
      have hs1 : Real.sqrt w ≤ 2 / 10 ^ 15 := by
        rw [Real.sqrt_le_left (by norm_num)]; refine le_trans hw_small ?_; norm_num
      have hs2 : Real.sqrt (3 * X) ≤ 2 / 10 ^ 15 := by
        rw [Real.sqrt_le_left (by norm_num)]; refine le_trans hsmall ?_; norm_num
      have : |Real.sqrt w - Real.sqrt (3 * X)| ≤ Real.sqrt w + Real.sqrt (3 * X) := by
        rw [abs_le]; constructor <;> linarith [Real.sqrt_nonneg w, Real.sqrt_nonneg (3 * X)]
      linarith


theorem cert_hlg_g :
    finiteB C.arib_b67_oetf_f0 = true ∧ ratOf C.arib_b67_oetf_f0 = 0 ∧
    finiteB (div C.arib_b67_oetf_f1 C.arib_b67_oetf_f2) = true ∧ 1 / 12 ≤ ratOf (div C.arib_b67_oetf_f1 C.arib_b67_oetf_f2) ∧
      ratOf (div C.arib_b67_oetf_f1 C.arib_b67_oetf_f2) ≤ 1 / 12 + 1 / 10 ^ 8 ∧
    finiteB C.arib_b67_oetf_f3 = true ∧ ratOf C.arib_b67_oetf_f3 = 3 ∧
    finiteB C.arib_b67_oetf_f4 = true ∧ ratOf C.arib_b67_oetf_f4 = 12 ∧
    finiteB HA = true ∧ |ratOf HA - 17883277 / 10 ^ 8| ≤ 1 / 10 ^ 8 ∧
    finiteB HB = true ∧ |ratOf HB - 28466892 / 10 ^ 8| ≤ 2 / 10 ^ 8 ∧ HB < 4294967296 ∧
    finiteB HC = true ∧ |ratOf HC - 55991073 / 10 ^ 8| ≤ 4 / 10 ^ 8 := by
  decide +kernel

/-- real-arithmetic core of the logarithmic branch -/
theorem hlg_log_real (X af bf cf wv lv rv : ℝ) (hX0 : 1 / 12 ≤ X) (hX1 : X ≤ 101 / 100)
    (ha : |af - 0.17883277| ≤ 1 / 10 ^ 8) (hb : |bf - 0.28466892| ≤ 2 / 10 ^ 8) (hc : |cf - 0.55991073| ≤ 4 / 10 ^ 8)
    (hw : |wv - (12 * X - bf)| ≤ 1 / 10 ^ 6) (hl : |lv - Real.log wv| ≤ 1 / 10 ^ 6) (hr : |rv - (af * lv + cf)| ≤ 1 / 10 ^ 6) :
    |rv - (0.17883277 * Real.log (12 * X - 0.28466892) + 0.55991073)| ≤ 1 / 10 ^ 5 := by
  obtain ⟨a1, a2⟩ := abs_le.mp ha
  obtain ⟨b1, b2⟩ := abs_le.mp hb
  obtain ⟨c1, c2⟩ := abs_le.mp hc
  obtain ⟨w1, w2⟩ := abs_le.mp hw
  set y := 12 * X - 0.28466892 with hy
  have hy0 : 7 / 10 ≤ y := by rw [hy]; linarith
  have hy1 : y ≤ 12 := by rw [hy]; linarith
  have hwv0 : 7 / 10 ≤ wv := by linarith
  have hlip := log_lipschitz wv y (7 / 10) (by norm_num) hwv0 hy0
  have hwy : |wv - y| ≤ 11 / 10 ^ 7 := by rw [hy, abs_le]; constructor <;> linarith
  have hlog : |Real.log wv - Real.log y| ≤ 2 / 10 ^ 6 := by
    refine le_trans hlip ?_
    rw [div_le_iff₀ (by norm_num)]; linarith
  have hly : |Real.log y| ≤ 11 := by
    have hypos : 0 < y := by linarith
    have h1 := Real.log_le_sub_one_of_pos hypos
    have h2 := Real.log_le_sub_one_of_pos (inv_pos.mpr hypos)
    rw [Real.log_inv] at h2
    have h3 : y⁻¹ ≤ 10 / 7 := by rw [inv_le_comm₀ hypos (by norm_num)]; norm_num; linarith
    rw [abs_le]; constructor <;> linarith
  have hlv : |lv - Real.log y| ≤ 3 / 10 ^ 6 := by
    have e : lv - Real.log y = (lv - Real.log wv) + (Real.log wv - Real.log y) := by ring
    rw [e]; exact le_trans (abs_add_le _ _) (by linarith)
  have e : rv - (0.17883277 * Real.log y + 0.55991073)
      = (rv - (af * lv + cf)) + af * (lv - Real.log y) + (af - 0.17883277) * Real.log y + (cf - 0.55991073) := by ring
  rw [e]
  have hafabs : |af| ≤ 1 / 5 := by rw [abs_le]; constructor <;> linarith
  have t1 : |af * (lv - Real.log y)| ≤ (1 / 5) * (3 / 10 ^ 6) := by rw [abs_mul]; exact mul_le_mul hafabs hlv (abs_nonneg _) (by norm_num)
  have t2 : |(af - 0.17883277) * Real.log y| ≤ (1 / 10 ^ 8) * 11 := by rw [abs_mul]; exact mul_le_mul ha hly (abs_nonneg _) (by norm_num)
  have := abs_add_le (rv - (af * lv + cf) + af * (lv - Real.log y) + (af - 0.17883277) * Real.log y) (cf - 0.55991073)
  have h3' := abs_add_le (rv - (af * lv + cf) + af * (lv - Real.log y)) ((af - 0.17883277) * Real.log y)
  have h4' := abs_add_le (rv - (af * lv + cf)) (af * (lv - Real.log y))
  linarith

/-- at the junction both branches of the definition are within 2e-7 of 1/2 -/
theorem hlg_junction (X : ℝ) (h0 : 1 / 12 < X) (h1 : X ≤ 1 / 12 + 1 / 10 ^ 8) :
    |Real.sqrt (3 * X) - (0.17883277 * Real.log (12 * X - 0.28466892) + 0.55991073)| ≤ 3 / 10 ^ 7 := by
  obtain ⟨j1, j2⟩ := log_junction
  have hs1 : 1 / 2 ≤ Real.sqrt (3 * X) := by
    rw [Real.le_sqrt' (by norm_num)]; linarith
  have hs2 : Real.sqrt (3 * X) ≤ 1 / 2 + 1 / 10 ^ 7 := by
    rw [Real.sqrt_le_left (by norm_num)]; nlinarith
  set y := 12 * X - 0.28466892 with hy
  have hy0 : (0.71533108:ℝ) ≤ y := by rw [hy]; linarith
  have hy1 : y ≤ 0.71533108 + 2 / 10 ^ 7 := by rw [hy]; linarith
  have hlip := log_lipschitz y 0.71533108 (7 / 10) (by norm_num) (by linarith) (by norm_num)
  have hyd : |y - 0.71533108| ≤ 2 / 10 ^ 7 := by rw [abs_le]; constructor <;> linarith
  have hlog : |Real.log y - Real.log 0.71533108| ≤ 3 / 10 ^ 7 := by
    refine le_trans hlip ?_
    rw [div_le_iff₀ (by norm_num)]; linarith
  obtain ⟨l1, l2⟩ := abs_le.mp hlog
  rw [abs_le]; constructor <;> nlinarith


variable (B : Build) (hL : LibmLnAccurate B.libm)
include hL

/-- the logarithmic branch in binary32 -/
theorem hlg_log_branch (x' : Nat) (X : ℝ) (hxf : Finite x') (hxv : toReal x' = X) (hX0 : 1 / 12 ≤ X) (hX1 : X ≤ 101 / 100) :
    Finite (F32.fma HA (B.libm.ln (F32.fma C.arib_b67_oetf_f4 x' (neg HB))) HC) ∧
    |toReal (F32.fma HA (B.libm.ln (F32.fma C.arib_b67_oetf_f4 x' (neg HB))) HC)
      - (0.17883277 * Real.log (12 * X - 0.28466892) + 0.55991073)| ≤ 1 / 10 ^ 5 := by
  obtain ⟨_, _, _, _, _, _, _, k1, k2, a1, a2, b1, b2, b3, c1, c2⟩ := cert_hlg_g
  have hu' : u = 1 / 16777216 := u_val
  have he' : eta ≤ 1 / 10 ^ 40 := eta_le
  have hep := eta_pos
  obtain ⟨f12, v12⟩ := val_of _ _ k1 k2
  obtain ⟨fa, va⟩ := near_of' _ _ _ a1 a2
  obtain ⟨fb, vb⟩ := near_of' _ _ _ b1 b2
  obtain ⟨fc, vc⟩ := near_of' _ _ _ c1 c2
  push_cast at va vb vc v12
  have va' : |toReal HA - 0.17883277| ≤ 1 / 10 ^ 8 := by norm_num at va ⊢; exact va
  have vb' : |toReal HB - 0.28466892| ≤ 2 / 10 ^ 8 := by norm_num at vb ⊢; exact vb
  have vc' : |toReal HC - 0.55991073| ≤ 4 / 10 ^ 8 := by norm_num at vc ⊢; exact vc
  obtain ⟨a1', a2'⟩ := abs_le.mp va'
  obtain ⟨b1', b2'⟩ := abs_le.mp vb'
  obtain ⟨c1', c2'⟩ := abs_le.mp vc'
  obtain ⟨hnf, hnv⟩ := toReal_neg HB b3 fb
  have hxabs : |toReal x'| ≤ 101 / 100 := by rw [hxv, abs_of_nonneg (by linarith)]; exact hX1
  have hnabs : |toReal (neg HB)| ≤ 3 / 10 := by rw [hnv, abs_neg, abs_le]; constructor <;> linarith
  obtain ⟨hwb, hwe⟩ := fma_bnd C.arib_b67_oetf_f4 x' (neg HB) 12 (101 / 100) (3 / 10) ⟨f12, by rw [v12]; norm_num⟩ ⟨hxf, hxabs⟩ ⟨hnf, hnabs⟩ (fit_small _ (by norm_num))
  rw [v12, hxv, hnv] at hwe
  set wv := toReal (F32.fma C.arib_b67_oetf_f4 x' (neg HB)) with hwv
  have hw6 : |wv - (12 * X - toReal HB)| ≤ 1 / 10 ^ 6 := by
    have e : (12:ℝ) * X + -toReal HB = 12 * X - toReal HB := by ring
    rw [e] at hwe
    refine le_trans hwe ?_; rw [hu']; linarith
  obtain ⟨w1, w2⟩ := abs_le.mp hw6
  have hwv0 : 1 / 2 ≤ wv := by linarith
  have hwv1 : wv ≤ 12 := by linarith
  obtain ⟨hlf, hle⟩ := hL _ hwb.1 hwv0 hwv1
  set lv := toReal (B.libm.ln (F32.fma C.arib_b67_oetf_f4 x' (neg HB))) with hlv
  have hlogabs : |Real.log wv| ≤ 11 := by
    have hwpos : 0 < wv := by linarith
    have h1 := Real.log_le_sub_one_of_pos hwpos
    have h2 := Real.log_le_sub_one_of_pos (inv_pos.mpr hwpos)
    rw [Real.log_inv] at h2
    have h3 : wv⁻¹ ≤ 2 := by rw [inv_le_comm₀ hwpos (by norm_num)]; linarith
    rw [abs_le]; constructor <;> linarith
  have hlabs : |lv| ≤ 12 := by
    have := abs_sub_abs_le_abs_sub lv (Real.log wv); linarith
  have haabs : |toReal HA| ≤ 1 / 5 := by rw [abs_le]; constructor <;> linarith
  have hcabs : |toReal HC| ≤ 1 := by rw [abs_le]; constructor <;> linarith
  obtain ⟨hrb, hre⟩ := fma_bnd HA (B.libm.ln (F32.fma C.arib_b67_oetf_f4 x' (neg HB))) HC (1 / 5) 12 1 ⟨fa, haabs⟩ ⟨hlf, hlabs⟩ ⟨fc, hcabs⟩ (fit_small _ (by norm_num))
  refine ⟨hrb.1, ?_⟩
  have hr6 : |toReal (F32.fma HA (B.libm.ln (F32.fma C.arib_b67_oetf_f4 x' (neg HB))) HC) - (toReal HA * lv + toReal HC)| ≤ 1 / 10 ^ 6 := by
    refine le_trans hre ?_; rw [hu']; linarith
  exact hlg_log_real X (toReal HA) (toReal HB) (toReal HC) wv lv _ hX0 hX1 va' vb' vc' hw6 hle hr6

/-- inputs up to 1.01 (used by the round trip, where the first stage may land just above 1) -/
theorem hlg_to_gamma_ext (x : Nat) (hx : Finite x) (h0 : 0 ≤ toReal x) (h1 : toReal x ≤ 101 / 100) :
    ∃ r, arib_b67_oetf B x = .ok r ∧ Finite r ∧ |toReal r - hlgSpec (toReal x)| ≤ 1 / 10 ^ 5 := by
  obtain ⟨z1, z2, t1, t2, t3, m1, m2, _, _, _, _, _, _, _, _, _⟩ := cert_hlg_g
  obtain ⟨fz, vz⟩ := zero_of _ z1 z2
  obtain ⟨hm1, hm2⟩ := max_val x C.arib_b67_oetf_f0 hx fz
  have hxf : Finite (F32.max x C.arib_b67_oetf_f0) := by rcases hm1 with e | e <;> rw [e] <;> assumption
  have hxv : toReal (F32.max x C.arib_b67_oetf_f0) = toReal x := by rw [hm2, vz]; exact max_eq_left h0
  obtain ⟨ft, vt⟩ := Exp2.rat_val _ t1
  have hthr1 : (1:ℝ) / 12 ≤ toReal (div C.arib_b67_oetf_f1 C.arib_b67_oetf_f2) := by rw [vt]; have := (Rat.cast_le (K := ℝ)).mpr t2; push_cast at this; exact this
  have hthr2 : toReal (div C.arib_b67_oetf_f1 C.arib_b67_oetf_f2) ≤ 1 / 12 + 1 / 10 ^ 8 := by rw [vt]; have := (Rat.cast_le (K := ℝ)).mpr t3; push_cast at this; exact this
  obtain ⟨f3, v3⟩ := val_of _ _ m1 m2
  unfold arib_b67_oetf
  dsimp only
  set x' := F32.max x C.arib_b67_oetf_f0 with hx'
  set X := toReal x with hX
  by_cases hle : le x' (div C.arib_b67_oetf_f1 C.arib_b67_oetf_f2) = true
  · rw [if_pos hle]
    have hXle : X ≤ toReal (div C.arib_b67_oetf_f1 C.arib_b67_oetf_f2) := by have := (le_iff x' _ hxf ft).mp hle; rw [hxv] at this; exact this
    obtain ⟨hsf, hse⟩ := hlg_sqrt_branch x' C.arib_b67_oetf_f3 X hxf hxv h0 (by linarith) f3 (by rw [v3]; norm_num)
    refine ⟨_, rfl, hsf, ?_⟩
    unfold hlgSpec
    by_cases hs : X ≤ 1 / 12
    · rw [if_pos hs]; refine le_trans hse ?_; norm_num
    · rw [if_neg hs]
      have hj := hlg_junction X (not_le.mp hs) (by linarith)
      have e : toReal (F32.sqrt (mul C.arib_b67_oetf_f3 x')) - (0.17883277 * Real.log (12 * X - 0.28466892) + 0.55991073)
          = (toReal (F32.sqrt (mul C.arib_b67_oetf_f3 x')) - Real.sqrt (3 * X)) + (Real.sqrt (3 * X) - (0.17883277 * Real.log (12 * X - 0.28466892) + 0.55991073)) := by ring
      rw [e]
      refine le_trans (abs_add_le _ _) ?_
      linarith
  · rw [if_neg hle]
    have hXgt : toReal (div C.arib_b67_oetf_f1 C.arib_b67_oetf_f2) < X := by
      by_contra hc
      exact hle ((le_iff x' _ hxf ft).mpr (by rw [hxv]; exact not_lt.mp hc))
    obtain ⟨hrf, hre⟩ := hlg_log_branch B hL x' X hxf hxv (by linarith) h1
    refine ⟨_, rfl, hrf, ?_⟩
    unfold hlgSpec
    rw [if_neg (by linarith)]
    exact hre

theorem hlg_to_gamma_b : CurveWithinB (arib_b67_oetf B) hlgSpec (1 / 10 ^ 5) :=
  fun x _ hx h0 h1 => hlg_to_gamma_ext B hL x hx h0 (by linarith)

theorem hlg_to_gamma : CurveWithinF (arib_b67_oetf B) hlgSpec := by
  intro x hxw hx h0 h1
  obtain ⟨r, h2, h3, h4⟩ := hlg_to_gamma_b B hL x hxw hx h0 h1
  exact ⟨r, h2, h3, lt_of_le_of_lt h4 (by norm_num)⟩

/-- **C03, HLG linear -> gamma through the dispatch** (under the libm hypothesis) -/
theorem hlg_to_gamma_curve : ∃ g, toGammaFn B .HybridLogGamma = .ok g ∧ CurveWithinF g hlgSpec :=
  ⟨_, rfl, hlg_to_gamma B hL⟩

end C03
