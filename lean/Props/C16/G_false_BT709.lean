import Check.Grey
/-! one slice of the exhaustive C16 grey-axis check (native_decide): all luma codes, both ranges, depths 8..16 -/
theorem C16.grey_false_BT709 : CheckGrey.allOk false .BT709 = true := by native_decide
