import Check.Grey
/-! one slice of the exhaustive C16 grey-axis check (native_decide): all luma codes, both ranges, depths 8..16 -/
theorem C16.grey_true_ST170M : CheckGrey.allOk true .ST170M = true := by native_decide
