import Check.Grey
/-! one slice of the exhaustive C16 grey-axis check (native_decide): all luma codes, both ranges, depths 8..16 -/
theorem C16.grey_true_BT2020NonConstantLuminance : CheckGrey.allOk true .BT2020NonConstantLuminance = true := by native_decide
