import Props.C11
/-! C07 — no safe API call sequence reaches undefined behaviour: the structural part.
Every `Yuv` value that exists was produced by `Yuv::new` (the only constructor; fields are private and `data()` hands out
shared references only), so every reachable `Yuv` satisfies `InvYuv`; the theorems below show that each conversion is safe
under `InvYuv` and re-establishes it for the `Yuv` it produces, for all geometries. The float->int conversion part
(`exp2`'s `to_int_unchecked`) is in Props/C18.lean. -/
namespace C07
open FrameM FrameP Api Mat32 ColorM

/-- (i) the constructor establishes the invariant -/
theorem new_establishes_inv (y u v : Plane) (cfg : Cfg) (ts : Nat) (g : Yuv) (hg : Yuv.new y u v cfg ts = .ok (.ok g)) : InvYuv g :=
  inv_of_new y u v cfg ts g hg

/-- (ii) decoding an accepted frame performs every plane access inside that plane's buffer: the outcome is `ok`,
never `ub` (nor a panic), whatever the sizes, strides, paddings, decimations -/
theorem decode_safe (g : Yuv) (hi : InvYuv g) : ∃ out, ycbcrToYpbpr g = .ok out := by
  obtain ⟨out, e, _⟩ := decode_spec g hi; exact ⟨out, e⟩

theorem yuvToRgb_safe (B : Build) (g : Yuv) (hi : InvYuv g) : ∃ r, yuvToRgb B g = .ok r := by
  unfold yuvToRgb
  obtain ⟨out, e⟩ := decode_safe g hi
  split
  · exact ⟨_, rfl⟩
  · rw [e]; exact ⟨_, rfl⟩

/-- (iii) encoding never reaches an out-of-bounds write: for sizes the subsampling does not divide it panics *before*
the loop (the D3 repair), otherwise it succeeds and the result satisfies the invariant again -/
theorem encode_safe (inp : Array V3) (w h : Nat) (cfg : Cfg) (ts : Nat) (hw : 0 < w) (hh : 0 < h) (hin : inp.size = w * h)
    (hss : cfg.ssx < 256 ∧ cfg.ssy < 256)
    (fits : (Plane.new (w >>> cfg.ssx) (h >>> cfg.ssy) cfg.ssx cfg.ssy 0 0 ts).data.size < USIZE_MAX)
    (fitsY : (Plane.new w h 0 0 0 0 ts).data.size ≤ USIZE_MAX) :
    (¬ (w % 2 ^ cfg.ssx = 0 ∧ h % 2 ^ cfg.ssy = 0) → ypbprToYcbcr inp w h cfg ts = .panic .encDivisibility) ∧
    ((w % 2 ^ cfg.ssx = 0 ∧ h % 2 ^ cfg.ssy = 0) → ∃ g, ypbprToYcbcr inp w h cfg ts = .ok g ∧ InvYuv g) := by
  constructor
  · intro hn; unfold ypbprToYcbcr; simp only [hn, not_false_eq_true, if_true]
  · rintro ⟨a, b⟩
    obtain ⟨g, e, i, _⟩ := C11.encode_spec inp w h cfg ts hw hh hin a b hss fits fitsY
    exact ⟨g, e, i⟩

/-- (iv) a frame whose chroma planes cannot cover the luma plane at the declared subsampling is rejected (the D2 repair) -/
theorem undersized_chroma_rejected (y u v : Plane) (cfg : Cfg) (ts : Nat)
    (h : u.cfg.width ≠ y.cfg.width >>> cfg.ssx ∨ u.cfg.height ≠ y.cfg.height >>> cfg.ssy ∨ v.cfg.width ≠ y.cfg.width >>> cfg.ssx ∨ v.cfg.height ≠ y.cfg.height >>> cfg.ssy) :
    ∃ e, Yuv.new y u v cfg ts = .ok (.error e) := by
  by_cases a : C12.DecimMismatch u v cfg
  · exact ⟨_, C12.yuvNew_decim y u v cfg ts a⟩
  by_cases b : y.cfg.width % 2 ^ cfg.ssx = 0
  case neg => exact ⟨_, C12.yuvNew_width y u v cfg ts a b⟩
  by_cases c : y.cfg.height % 2 ^ cfg.ssy = 0
  case neg => exact ⟨_, C12.yuvNew_height y u v cfg ts a b c⟩
  exact ⟨_, C12.yuvNew_chroma y u v cfg ts a b c h⟩

/-- a plane whose config declares more than its buffer holds is rejected as well -/
theorem uncovered_plane_rejected (y u v : Plane) (cfg : Cfg) (ts : Nat) (h : ¬ C12.Covered y u v) :
    ∃ e, Yuv.new y u v cfg ts = .ok (.error e) := by
  by_cases a : C12.DecimMismatch u v cfg
  · exact ⟨_, C12.yuvNew_decim y u v cfg ts a⟩
  by_cases b : y.cfg.width % 2 ^ cfg.ssx = 0
  case neg => exact ⟨_, C12.yuvNew_width y u v cfg ts a b⟩
  by_cases c : y.cfg.height % 2 ^ cfg.ssy = 0
  case neg => exact ⟨_, C12.yuvNew_height y u v cfg ts a b c⟩
  by_cases d : C12.ChromaSizeWrong y u v cfg
  · exact ⟨_, C12.yuvNew_chroma y u v cfg ts a b c d⟩
  exact ⟨_, C12.yuvNew_cover y u v cfg ts a b c d h⟩

/-- the unrepaired defect D2 as a regression example: luma 4x4 with 1x1 chroma planes at 4:2:0 is now rejected -/
example : ∃ e, Yuv.new { data := Array.replicate 16 0, cfg := { stride := 4, allocHeight := 4, width := 4, height := 4, xdec := 0, ydec := 0, xpad := 0, ypad := 0, xorigin := 0, yorigin := 0 } }
    C12.exC C12.exC C12.exCfg 1 = .ok (.error e) :=
  undersized_chroma_rejected _ _ _ _ _ (by decide)

/-- the allocation size of an accepted frame never wraps: `width * height` (what `ycbcr_to_ypbpr` passes to `vec!` and what it
indexes the output with) is below 2^64 for every frame the constructor accepts (the D9 repair; the model of the decoder
allocates `(width * height) % 2^64` pixels, as an optimised build does) -/
theorem accepted_area_fits (y u v : Plane) (cfg : Cfg) (ts : Nat) (g : Yuv) (hg : Yuv.new y u v cfg ts = .ok (.ok g)) :
    g.y.cfg.width * g.y.cfg.height ≤ USIZE_MAX :=
  area_fits _ (inv_of_new y u v cfg ts g hg).cy

/-- ... and a frame whose visible area does not fit a `usize` is rejected, whatever its stride and buffer -/
theorem area_overflow_rejected (y u v : Plane) (cfg : Cfg) (ts : Nat) (h : USIZE_MAX < y.cfg.width * y.cfg.height) :
    ∃ e, Yuv.new y u v cfg ts = .ok (.error e) := by
  apply uncovered_plane_rejected
  intro hc
  have := area_fits _ hc.1
  omega

/-- the unrepaired defect D9 as a regression example: three 2 x 2^63 planes of stride 0 over a 2-sample buffer (every
visible sample is in bounds, but `2 * 2^63` wraps to 0) are now rejected -/
def d9Plane : Plane := { data := #[128, 128], cfg := { stride := 0, allocHeight := 9223372036854775808, width := 2, height := 9223372036854775808, xdec := 0, ydec := 0, xpad := 0, ypad := 0, xorigin := 0, yorigin := 0 } }
example : ∃ e, Yuv.new d9Plane d9Plane d9Plane { C12.exCfg with ssx := 0, ssy := 0 } 1 = .ok (.error e) :=
  area_overflow_rejected _ _ _ _ _ (by decide)

end C07
