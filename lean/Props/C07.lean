import Props.C11
/-! C07 — no safe API call sequence reaches undefined behaviour: the structural part.
Every `Yuv` value that exists was produced by `Yuv::new` (the only constructor; fields are private and `data()` hands out
shared references only), so every reachable `Yuv` satisfies `InvYuv`; the theorems below show that each conversion is safe
under `InvYuv` and re-establishes it for the `Yuv` it produces, for all geometries. The float->int conversion part
(`exp2`'s `to_int_unchecked`) is in Props/C18.lean. -/
namespace C07
open FrameM FrameP Api Mat32 ColorM

/-- (i) the constructor establishes the invariant -/
theorem new_establishes_inv (y u v : Plane) (cfg : Cfg) (ts : Nat) (g : Yuv) (hg : Yuv.new y u v cfg ts = .ok (.ok g)) : InvYuv g :=
  inv_of_new y u v cfg ts g hg

/-- (ii) decoding an accepted frame performs every plane access inside that plane's buffer: the outcome is `ok`,
never `ub` (nor a panic), whatever the sizes, strides, paddings, decimations -/
theorem decode_safe (g : Yuv) (hi : InvYuv g) : ∃ out, ycbcrToYpbpr g = .ok out := by
  obtain ⟨out, e, _⟩ := decode_spec g hi; exact ⟨out, e⟩

theorem yuvToRgb_safe (B : Build) (g : Yuv) (hi : InvYuv g) : ∃ r, yuvToRgb B g = .ok r := by
  unfold yuvToRgb
  obtain ⟨out, e⟩ := decode_safe g hi
  split
  · exact ⟨_, rfl⟩
  · rw [e]; exact ⟨_, rfl⟩

/-- (iii) encoding never reaches an out-of-bounds write: for sizes the subsampling does not divide it panics *before*
the loop (the D3 repair), otherwise it succeeds and the result satisfies the invariant again -/
theorem encode_safe (inp : Array V3) (w h : Nat) (cfg : Cfg) (ts : Nat) (hw : 0 < w) (hh : 0 < h) (hin : inp.size = w * h)
    (hss : cfg.ssx < 256 ∧ cfg.ssy < 256)
    (fits : (Plane.new (w >>> cfg.ssx) (h >>> cfg.ssy) cfg.ssx cfg.ssy 0 0 ts).data.size < USIZE_MAX)
    (fitsY : (Plane.new w h 0 0 0 0 ts).data.size ≤ USIZE_MAX) :
    (¬ (w % 2 ^ cfg.ssx = 0 ∧ h % 2 ^ cfg.ssy = 0) → ypbprToYcbcr inp w h cfg ts = .panic .encDivisibility) ∧
    ((w % 2 ^ cfg.ssx = 0 ∧ h % 2 ^ cfg.ssy = 0) → ∃ g, ypbprToYcbcr inp w h cfg ts = .ok g ∧ InvYuv g) := by
  constructor
  · intro hn; unfold ypbprToYcbcr; simp only [hn, not_false_eq_true, if_true]
  · rintro ⟨a, b⟩
    obtain ⟨g, e, i, _⟩ := C11.encode_spec inp w h cfg ts hw hh hin a b hss fits fitsY
    exact ⟨g, e, i⟩

/-- (iv) a frame whose chroma planes cannot cover the luma plane at the declared subsampling is rejected (the D2 repair) -/
theorem undersized_chroma_rejected (y u v : Plane) (cfg : Cfg) (ts : Nat)
    (h : u.cfg.width ≠ y.cfg.width >>> cfg.ssx ∨ u.cfg.height ≠ y.cfg.height >>> cfg.ssy ∨ v.cfg.width ≠ y.cfg.width >>> cfg.ssx ∨ v.cfg.height ≠ y.cfg.height >>> cfg.ssy) :
    ∃ e, Yuv.new y u v cfg ts = .ok (.error e) := by
  by_cases a : C12.DecimMismatch u v cfg
  · exact ⟨_, C12.yuvNew_decim y u v cfg ts a⟩
  by_cases b : y.cfg.width % 2 ^ cfg.ssx = 0
  case neg => exact ⟨_, C12.yuvNew_width y u v cfg ts a b⟩
  by_cases c : y.cfg.height % 2 ^ cfg.ssy = 0
  case neg => exact ⟨_, C12.yuvNew_height y u v cfg ts a b c⟩
  exact ⟨_, C12.yuvNew_chroma y u v cfg ts a b c h⟩

/-- a plane whose config declares more than its buffer holds is rejected as well -/
theorem uncovered_plane_rejected (y u v : Plane) (cfg : Cfg) (ts : Nat) (h : ¬ C12.Covered y u v) :
    ∃ e, Yuv.new y u v cfg ts = .ok (.error e) := by
  by_cases a : C12.DecimMismatch u v cfg
  · exact ⟨_, C12.yuvNew_decim y u v cfg ts a⟩
  by_cases b : y.cfg.width % 2 ^ cfg.ssx = 0
  case neg => exact ⟨_, C12.yuvNew_width y u v cfg ts a b⟩
  by_cases c : y.cfg.height % 2 ^ cfg.ssy = 0
  case neg => exact ⟨_, C12.yuvNew_height y u v cfg ts a b c⟩
  by_cases d : C12.ChromaSizeWrong y u v cfg
  · exact ⟨_, C12.yuvNew_chroma y u v cfg ts a b c d⟩
  exact ⟨_, C12.yuvNew_cover y u v cfg ts a b c d h⟩

/-- the unrepaired defect D2 as a regression example: luma 4x4 with 1x1 chroma planes at 4:2:0 is now rejected -/
example : ∃ e, Yuv.new { data := Array.replicate 16 0, cfg := { stride := 4, allocHeight := 4, width := 4, height := 4, xdec := 0, ydec := 0, xpad := 0, ypad := 0, xorigin := 0, yorigin := 0 } }
    C12.exC C12.exC C12.exCfg 1 = .ok (.error e) :=
  undersized_chroma_rejected _ _ _ _ _ (by decide)

/-- the allocation size of an accepted frame never wraps: `width * height` (what `ycbcr_to_ypbpr` passes to `vec!` and what it
indexes the output with) is below 2^64 for every frame the constructor accepts (the D9 repair; the model of the decoder
allocates `(width * height) % 2^64` pixels, as an optimised build does) -/
theorem accepted_area_fits (y u v : Plane) (cfg : Cfg) (ts : Nat) (g : Yuv) (hg : Yuv.new y u v cfg ts = .ok (.ok g)) :
    g.y.cfg.width * g.y.cfg.height ≤ USIZE_MAX :=
  area_fits _ (inv_of_new y u v cfg ts g hg).cy

/-- no index computation of the decoder wraps either: for every visible position of an accepted frame the four index
expressions `ycbcr_to_ypbpr` evaluates in `usize` - `y*w + x` into the output, `y*stride + x` into the luma slice and
`(y >> ss_y)*stride + (x >> ss_x)` into the two chroma slices - are at most `usize::MAX` (their sub-products are smaller
still), given only that the three buffers exist in memory (their lengths fit a `usize`). Together with
`accepted_area_fits` this makes the `Nat` arithmetic of the model agree with the 64-bit arithmetic of the code on every
accepted frame. -/
theorem decode_indices_fit (g : Yuv) (hi : InvYuv g)
    (sy : g.y.data.size ≤ USIZE_MAX) (su : g.u.data.size ≤ USIZE_MAX) (sv : g.v.data.size ≤ USIZE_MAX)
    (x yy : Nat) (hx : x < g.y.cfg.width) (hy : yy < g.y.cfg.height) :
    yy * g.y.cfg.width + x ≤ USIZE_MAX ∧ yy * g.y.cfg.stride + x ≤ USIZE_MAX ∧
    (yy >>> g.cfg.ssy) * g.u.cfg.stride + (x >>> g.cfg.ssx) ≤ USIZE_MAX ∧
    (yy >>> g.cfg.ssy) * g.v.cfg.stride + (x >>> g.cfg.ssx) ≤ USIZE_MAX := by
  have hcx := shr_lt _ x _ hi.wdiv hx
  have hcy := shr_lt _ yy _ hi.hdiv hy
  have iy := covers_index _ hi.cy x yy hx hy
  have iu := covers_index _ hi.cu (x >>> g.cfg.ssx) (yy >>> g.cfg.ssy) (by rw [hi.uw]; exact hcx) (by rw [hi.uh]; exact hcy)
  have iv := covers_index _ hi.cv (x >>> g.cfg.ssx) (yy >>> g.cfg.ssy) (by rw [hi.vw]; exact hcx) (by rw [hi.vh]; exact hcy)
  have ha := area_fits _ hi.cy
  unfold Plane.index at iy iu iv
  have h1 : yy * g.y.cfg.stride ≤ (yy + g.y.cfg.yorigin) * g.y.cfg.stride := Nat.mul_le_mul_right _ (by omega)
  have h2 : (yy >>> g.cfg.ssy) * g.u.cfg.stride ≤ ((yy >>> g.cfg.ssy) + g.u.cfg.yorigin) * g.u.cfg.stride := Nat.mul_le_mul_right _ (by omega)
  have h3 : (yy >>> g.cfg.ssy) * g.v.cfg.stride ≤ ((yy >>> g.cfg.ssy) + g.v.cfg.yorigin) * g.v.cfg.stride := Nat.mul_le_mul_right _ (by omega)
  have h4 : yy * g.y.cfg.width + x < g.y.cfg.width * g.y.cfg.height := by
    have : (yy + 1) * g.y.cfg.width ≤ g.y.cfg.height * g.y.cfg.width := Nat.mul_le_mul_right _ (by omega)
    rw [Nat.add_mul, Nat.one_mul, Nat.mul_comm g.y.cfg.height] at this
    omega
  refine ⟨by omega, by omega, by omega, by omega⟩

/-- the same for the encoder (`ypbpr_to_ycbcr`): with planes that exist in memory (the `fits` hypotheses of `encode_safe`),
the index expressions `y*w + x` (input), `y*stride + x` (luma plane) and `(y >> ss_y)*stride + (x >> ss_x)` (chroma planes)
are at most `usize::MAX` for every pixel -/
theorem encode_indices_fit (inp : Array V3) (w h : Nat) (cfg : Cfg) (ts : Nat) (hw : 0 < w) (hh : 0 < h) (hin : inp.size = w * h)
    (hinfit : inp.size ≤ USIZE_MAX) (wdiv : w % 2 ^ cfg.ssx = 0) (hdiv : h % 2 ^ cfg.ssy = 0)
    (fits : (Plane.new (w >>> cfg.ssx) (h >>> cfg.ssy) cfg.ssx cfg.ssy 0 0 ts).data.size < USIZE_MAX)
    (fitsY : (Plane.new w h 0 0 0 0 ts).data.size ≤ USIZE_MAX)
    (x yy : Nat) (hx : x < w) (hy : yy < h) :
    yy * w + x ≤ USIZE_MAX ∧ yy * (Plane.new w h 0 0 0 0 ts).cfg.stride + x ≤ USIZE_MAX ∧
    (yy >>> cfg.ssy) * (Plane.new (w >>> cfg.ssx) (h >>> cfg.ssy) cfg.ssx cfg.ssy 0 0 ts).cfg.stride + (x >>> cfg.ssx) ≤ USIZE_MAX := by
  have cw := shr_pos w cfg.ssx hw wdiv
  have ch := shr_pos h cfg.ssy hh hdiv
  have hcx := shr_lt _ x _ wdiv hx
  have hcy := shr_lt _ yy _ hdiv hy
  have cY := FrameP.planeNew_covers w h 0 0 0 0 ts (Plane.new w h 0 0 0 0 ts).data hw hh rfl fitsY
  have cU := FrameP.planeNew_covers (w >>> cfg.ssx) (h >>> cfg.ssy) cfg.ssx cfg.ssy 0 0 ts (Plane.new (w >>> cfg.ssx) (h >>> cfg.ssy) cfg.ssx cfg.ssy 0 0 ts).data cw ch rfl (Nat.le_of_lt fits)
  have iy := covers_index _ cY x yy hx hy
  have iu := covers_index _ cU (x >>> cfg.ssx) (yy >>> cfg.ssy) hcx hcy
  unfold Plane.index at iy iu
  have e1 : ({ (Plane.new w h 0 0 0 0 ts) with data := (Plane.new w h 0 0 0 0 ts).data } : Plane) = Plane.new w h 0 0 0 0 ts := rfl
  have e2 : ({ (Plane.new (w >>> cfg.ssx) (h >>> cfg.ssy) cfg.ssx cfg.ssy 0 0 ts) with data := (Plane.new (w >>> cfg.ssx) (h >>> cfg.ssy) cfg.ssx cfg.ssy 0 0 ts).data } : Plane) = Plane.new (w >>> cfg.ssx) (h >>> cfg.ssy) cfg.ssx cfg.ssy 0 0 ts := rfl
  rw [e1] at iy; rw [e2] at iu
  generalize Plane.new w h 0 0 0 0 ts = P at *
  generalize Plane.new (w >>> cfg.ssx) (h >>> cfg.ssy) cfg.ssx cfg.ssy 0 0 ts = Q at *
  have h1 : yy * P.cfg.stride ≤ (yy + P.cfg.yorigin) * P.cfg.stride := Nat.mul_le_mul_right _ (by omega)
  have h2 : (yy >>> cfg.ssy) * Q.cfg.stride ≤ ((yy >>> cfg.ssy) + Q.cfg.yorigin) * Q.cfg.stride := Nat.mul_le_mul_right _ (by omega)
  have h4 : yy * w + x < w * h := by
    have : (yy + 1) * w ≤ h * w := Nat.mul_le_mul_right _ (by omega)
    rw [Nat.add_mul, Nat.one_mul, Nat.mul_comm h] at this
    omega
  refine ⟨by omega, by omega, by omega⟩

/-- ... and a frame whose visible area does not fit a `usize` is rejected, whatever its stride and buffer -/
theorem area_overflow_rejected (y u v : Plane) (cfg : Cfg) (ts : Nat) (h : USIZE_MAX < y.cfg.width * y.cfg.height) :
    ∃ e, Yuv.new y u v cfg ts = .ok (.error e) := by
  apply uncovered_plane_rejected
  intro hc
  have := area_fits _ hc.1
  omega

/-- the unrepaired defect D9 as a regression example: three 2 x 2^63 planes of stride 0 over a 2-sample buffer (every
visible sample is in bounds, but `2 * 2^63` wraps to 0) are now rejected -/
def d9Plane : Plane := { data := #[128, 128], cfg := { stride := 0, allocHeight := 9223372036854775808, width := 2, height := 9223372036854775808, xdec := 0, ydec := 0, xpad := 0, ypad := 0, xorigin := 0, yorigin := 0 } }
example : ∃ e, Yuv.new d9Plane d9Plane d9Plane { C12.exCfg with ssx := 0, ssy := 0 } 1 = .ok (.error e) :=
  area_overflow_rejected _ _ _ _ _ (by decide)

end C07
