import Props.C03i
/-! C03, headline theorem: the defining formulas of the transfer characteristics as one table, and the accuracy clause for
13 of the 14 supported characteristics in both directions through the dispatch tables of the model. -/
namespace C03
open F32 MathM TransferM Real ExpPoly Horner SrgbReal

/-- gamma -> linear defining formulas (H.273 / BT.2100 / IEC 61966-2-1), on `[0, 1]` -/
noncomputable def specToLinear : TC → ℝ → ℝ
  | .BT470M => fun X => X ^ ((22:ℝ) / 10)
  | .BT470BG => fun X => X ^ ((28:ℝ) / 10)
  | .SRGB => specLinear
  | .Logarithmic100 => fun X => (10:ℝ) ^ (2 * (X - 1))
  | .Logarithmic316 => fun X => (10:ℝ) ^ ((5 / 2) * (X - 1))
  | .HybridLogGamma => hlgInvSpec
  | .Linear => fun X => X
  | _ => fun X => X ^ ((24:ℝ) / 10)

/-- linear -> gamma defining formulas -/
noncomputable def specToGamma : TC → ℝ → ℝ
  | .BT470M => fun X => X ^ ((10:ℝ) / 22)
  | .BT470BG => fun X => X ^ ((10:ℝ) / 28)
  | .SRGB => specGamma
  | .Logarithmic100 => logSpec 2
  | .Logarithmic316 => logSpec (5 / 2)
  | .HybridLogGamma => hlgSpec
  | .Linear => fun X => X
  | _ => fun X => X ^ ((10:ℝ) / 24)

def thirteen : List TC :=
  [.BT1886, .ST170M, .ST240M, .BT2020Ten, .BT2020Twelve, .BT470M, .BT470BG, .XVYCC, .SRGB, .Logarithmic100, .Logarithmic316, .HybridLogGamma, .Linear]

theorem within_of_pow (f : Nat → Out Nat) (γ : ℝ) (h : CurveWithin f γ) : CurveWithinF f (fun X => X ^ γ) := h

theorem linear_within : CurveWithinF (fun x => Out.ok x) (fun X => X) := by
  intro x _ hx _ _
  exact ⟨x, rfl, hx, by simp⟩

/-- **C03** (all characteristics except PQ): with the `fastmath` feature, for either value of the FMA flag, and under the
stated accuracy hypotheses on the two libm parameters (`log10`, `ln`; used by the linear -> gamma direction of Log100/316 and
HLG only), `to_linear` and `to_gamma` of each of the 13 characteristics return, for EVERY binary32 value of `[0, 1]`, a finite
value within 2.5e-4 of the defining formula. -/
theorem accuracy (B : Build) (hB : B.fastmath = true) (hL10 : LibmLog10Accurate B.libm) (hLn : LibmLnAccurate B.libm)
    (t : TC) (ht : t ∈ thirteen) :
    (∃ f, toLinearFn B t = .ok f ∧ CurveWithinF f (specToLinear t)) ∧ (∃ g, toGammaFn B t = .ok g ∧ CurveWithinF g (specToGamma t)) := by
  simp only [thirteen, List.mem_cons, List.mem_nil_iff, or_false] at ht
  have e24 : (24:ℝ) / 10 = 24 / 10 := rfl
  rcases ht with rfl | rfl | rfl | rfl | rfl | rfl | rfl | rfl | rfl | rfl | rfl | rfl | rfl
  · exact ⟨⟨_, rfl, within_of_pow _ _ (bt1886_to_linear B hB)⟩, ⟨_, rfl, within_of_pow _ _ (bt1886_to_gamma B hB)⟩⟩
  · exact ⟨⟨_, rfl, within_of_pow _ _ (bt1886_to_linear B hB)⟩, ⟨_, rfl, within_of_pow _ _ (bt1886_to_gamma B hB)⟩⟩
  · exact ⟨⟨_, rfl, within_of_pow _ _ (bt1886_to_linear B hB)⟩, ⟨_, rfl, within_of_pow _ _ (bt1886_to_gamma B hB)⟩⟩
  · exact ⟨⟨_, rfl, within_of_pow _ _ (bt1886_to_linear B hB)⟩, ⟨_, rfl, within_of_pow _ _ (bt1886_to_gamma B hB)⟩⟩
  · exact ⟨⟨_, rfl, within_of_pow _ _ (bt1886_to_linear B hB)⟩, ⟨_, rfl, within_of_pow _ _ (bt1886_to_gamma B hB)⟩⟩
  · exact ⟨⟨_, rfl, within_of_pow _ _ (bt470m_to_linear B hB)⟩, ⟨_, rfl, within_of_pow _ _ (bt470m_to_gamma B hB)⟩⟩
  · exact ⟨⟨_, rfl, within_of_pow _ _ (bt470bg_to_linear B hB)⟩, ⟨_, rfl, within_of_pow _ _ (bt470bg_to_gamma B hB)⟩⟩
  · exact ⟨⟨_, rfl, within_of_pow _ _ (xvycc_to_linear B hB)⟩, ⟨_, rfl, within_of_pow _ _ (xvycc_to_gamma B hB)⟩⟩
  · exact ⟨⟨_, rfl, srgb_to_linear B hB⟩, ⟨_, rfl, srgb_to_gamma B hB⟩⟩
  · exact ⟨⟨_, rfl, log100_to_linear B hB⟩, ⟨_, rfl, log100_to_gamma B hL10⟩⟩
  · exact ⟨⟨_, rfl, log316_to_linear B hB⟩, ⟨_, rfl, log316_to_gamma B hL10⟩⟩
  · exact ⟨⟨_, rfl, hlg_to_linear B hB⟩, ⟨_, rfl, hlg_to_gamma B hLn⟩⟩
  · exact ⟨⟨_, rfl, linear_within⟩, ⟨_, rfl, linear_within⟩⟩

/-- non-vacuity of the hypotheses on `x`: 0.5 is a well-formed finite binary32 of `[0, 1]` -/
example : WF 0x3f000000 ∧ Finite 0x3f000000 ∧ 0 ≤ toReal 0x3f000000 ∧ toReal 0x3f000000 ≤ 1 := by
  have h : toReal 0x3f000000 = 1 / 2 := by
    rw [toReal_of_decode _ false 8388608 (-24) (by rfl)]; unfold valR; norm_num
  refine ⟨by unfold WF; norm_num, ⟨false, 8388608, -24, by rfl⟩, ?_, ?_⟩ <;> rw [h] <;> norm_num

end C03
