import Props.C02
/-! C08 — YUV->RGB->YUV is a lossless code round trip (4:4:4 pixel level; C11 lifts pixels to images of any layout).
Composition of the C01 and C02 analyses: the decoded pixel is within 3e-6 of the exact H.273 RGB, the exact forward matrix
inverts the exact decode matrix, so the value entering `round()` is within 0.26 of the (integer) expected code at every
depth up to 16 bit, and `round()` then returns exactly that integer. -/
namespace C08
open F32 Mat32 ColorM CheckDecode CheckEncode Real Quant C01 C02

/-- `round()` + saturating cast + clamp return exactly the integer the float is within 1/2 of -/
theorem quant_exact (t : Nat) (c mx : Nat) (hc : c ≤ mx) (hmx : mx ≤ 65535) (hf : Finite t) (hb : |toReal t| < 8388608)
    (hd : |toReal t - (c:ℝ)| < 1 / 2) : clampNat (toU16Sat (F32.round t)) 0 mx = c := by
  obtain ⟨n, m, e, hdec⟩ := hf
  have htr := toReal_of_decode t _ _ _ hdec
  rw [htr, abs_valR] at hb
  obtain ⟨k, hk, _, _, hu16⟩ := round_spec t n m e hdec hb
  rw [hu16]
  have hpos : (0:ℝ) ≤ (m:ℝ) * (2:ℝ)^e := by positivity
  cases n with
  | true =>
    simp only [if_true]
    have hv : toReal t = -((m:ℝ) * (2:ℝ)^e) := by rw [htr]; unfold valR; simp
    rw [hv] at hd
    have : (c:ℝ) < 1 := by have := (abs_lt.mp hd).1; linarith
    have hc0 : c = 0 := by have : c < 1 := by exact_mod_cast this
                           omega
    subst hc0; unfold clampNat; simp
  | false =>
    simp only [Bool.false_eq_true, if_false]
    have hv : toReal t = (m:ℝ) * (2:ℝ)^e := by rw [htr]; unfold valR; simp
    rw [hv] at hd
    have hkc : |(k:ℝ) - (c:ℝ)| < 1 := by
      have : (k:ℝ) - (c:ℝ) = ((k:ℝ) - (m:ℝ) * (2:ℝ)^e) + ((m:ℝ) * (2:ℝ)^e - (c:ℝ)) := by ring
      rw [this]
      exact lt_of_le_of_lt (abs_add_le _ _) (by linarith)
    have hke : k = c := by
      have h1 := abs_lt.mp hkc
      have a1 : (k:ℝ) < (c:ℝ) + 1 := by linarith [h1.2]
      have a2 : (c:ℝ) < (k:ℝ) + 1 := by linarith [h1.1]
      have a1' : k < c + 1 := by exact_mod_cast a1
      have a2' : c < k + 1 := by exact_mod_cast a2
      omega
    subst hke
    unfold clampNat
    have h1 : ¬ (k > 65535) := by omega
    simp only [h1, if_false]
    have h2 : ¬ (k < 0) := by omega
    have h3 : ¬ (k > mx) := by omega
    simp only [h2, h3, if_false]


/-- a forward-matrix row applied to a *computed* RGB pixel that approximates an exact one within 3e-6 per component
(components up to 2 in magnitude): within 3.8e-6 of the exact row applied to the exact pixel -/
theorem row_fwd2 (fm : Bool) (r : V3) (q : Q3) (p : V3) (dx dy dz : ℝ) (hr : rowOk1 6 100000000 r q = true)
    (hx : Finite p.x ∧ |toReal p.x - dx| ≤ 3 / 1000000) (hy : Finite p.y ∧ |toReal p.y - dy| ≤ 3 / 1000000)
    (hz : Finite p.z ∧ |toReal p.z - dz| ≤ 3 / 1000000) (bx : |dx| ≤ 2) (by_ : |dy| ≤ 2) (bz : |dz| ≤ 2) :
    Bnd (rowDot fm r p) 2.03 ∧ |toReal (rowDot fm r p) - (qR q.a * dx + (qR q.b * dy + qR q.c * dz))| ≤ 38 / 10000000 := by
  unfold rowOk1 at hr
  simp only [Bool.and_eq_true] at hr
  obtain ⟨fa, ea, qa⟩ := entry_facts1 r.x q.a hr.1.1.1
  obtain ⟨fb, eb, qb⟩ := entry_facts1 r.y q.b hr.1.1.2
  obtain ⟨fc, ec, qc⟩ := entry_facts1 r.z q.c hr.1.2
  have da : 0 < q.a.den := by have := hr.1.1.1; unfold entryOk1 at this; simp only [Bool.and_eq_true, decide_eq_true_eq] at this; exact this.1.2
  have db : 0 < q.b.den := by have := hr.1.1.2; unfold entryOk1 at this; simp only [Bool.and_eq_true, decide_eq_true_eq] at this; exact this.1.2
  have dc : 0 < q.c.den := by have := hr.1.2; unfold entryOk1 at this; simp only [Bool.and_eq_true, decide_eq_true_eq] at this; exact this.1.2
  have hsum := sum_facts q da db dc hr.2
  set A := |qR q.a| + 6 / 100000000 with hA
  set B := |qR q.b| + 6 / 100000000 with hB
  set Cc := |qR q.c| + 6 / 100000000 with hC
  have bA : Bnd r.x A := ⟨fa, by have := abs_sub_abs_le_abs_sub (toReal r.x) (qR q.a); linarith⟩
  have bB : Bnd r.y B := ⟨fb, by have := abs_sub_abs_le_abs_sub (toReal r.y) (qR q.b); linarith⟩
  have bC : Bnd r.z Cc := ⟨fc, by have := abs_sub_abs_le_abs_sub (toReal r.z) (qR q.c); linarith⟩
  have px : Bnd p.x 2.00001 := ⟨hx.1, by have := abs_sub_abs_le_abs_sub (toReal p.x) dx; linarith [hx.2]⟩
  have py : Bnd p.y 2.00001 := ⟨hy.1, by have := abs_sub_abs_le_abs_sub (toReal p.y) dy; linarith [hy.2]⟩
  have pz : Bnd p.z 2.00001 := ⟨hz.1, by have := abs_sub_abs_le_abs_sub (toReal p.z) dz; linarith [hz.2]⟩
  have hA0 : 0 ≤ A := by positivity
  have hB0 : 0 ≤ B := by positivity
  have hC0 : 0 ≤ Cc := by positivity
  have hqa0 := abs_nonneg (qR q.a); have hqb0 := abs_nonneg (qR q.b); have hqc0 := abs_nonneg (qR q.c)
  have hABC : A + B + Cc ≤ 1 + 18 / 100000000 := by linarith
  have hsm : A * 2.00001 ≤ 1000 ∧ B * 2.00001 ≤ 1000 ∧ Cc * 2.00001 ≤ 1000 := by refine ⟨?_, ?_, ?_⟩ <;> nlinarith
  have hspec : |(toReal r.x * toReal p.x + (toReal r.y * toReal p.y + toReal r.z * toReal p.z)) - (qR q.a * dx + (qR q.b * dy + qR q.c * dz))|
      ≤ 34 / 10000000 := by
    have e1 : |toReal r.x * toReal p.x - qR q.a * dx| ≤ 6 / 100000000 * 2.00001 + |qR q.a| * (3 / 1000000) := by
      have : toReal r.x * toReal p.x - qR q.a * dx = (toReal r.x - qR q.a) * toReal p.x + qR q.a * (toReal p.x - dx) := by ring
      rw [this]
      refine le_trans (abs_add_le _ _) ?_
      rw [abs_mul, abs_mul]
      have := mul_le_mul ea px.2 (abs_nonneg _) (by norm_num)
      have := mul_le_mul_of_nonneg_left hx.2 hqa0
      linarith
    have e2 : |toReal r.y * toReal p.y - qR q.b * dy| ≤ 6 / 100000000 * 2.00001 + |qR q.b| * (3 / 1000000) := by
      have : toReal r.y * toReal p.y - qR q.b * dy = (toReal r.y - qR q.b) * toReal p.y + qR q.b * (toReal p.y - dy) := by ring
      rw [this]
      refine le_trans (abs_add_le _ _) ?_
      rw [abs_mul, abs_mul]
      have := mul_le_mul eb py.2 (abs_nonneg _) (by norm_num)
      have := mul_le_mul_of_nonneg_left hy.2 hqb0
      linarith
    have e3 : |toReal r.z * toReal p.z - qR q.c * dz| ≤ 6 / 100000000 * 2.00001 + |qR q.c| * (3 / 1000000) := by
      have : toReal r.z * toReal p.z - qR q.c * dz = (toReal r.z - qR q.c) * toReal p.z + qR q.c * (toReal p.z - dz) := by ring
      rw [this]
      refine le_trans (abs_add_le _ _) ?_
      rw [abs_mul, abs_mul]
      have := mul_le_mul ec pz.2 (abs_nonneg _) (by norm_num)
      have := mul_le_mul_of_nonneg_left hz.2 hqc0
      linarith
    rw [abs_le] at e1 e2 e3 ⊢
    constructor <;> linarith [e1.1, e1.2, e2.1, e2.2, e3.1, e3.2, hsum]
  have hu1 : u = 1 / 16777216 := u_val
  have he1 := eta_le
  have he0 := eta_pos
  cases fm
  · obtain ⟨b5, e5⟩ := dot3_nofma r.x p.x r.y p.y r.z p.z A 2.00001 B 2.00001 Cc 2.00001 bA px bB py bC pz hsm
    have hE : E5 A 2.00001 B 2.00001 Cc 2.00001 ≤ 4 / 10000000 := by
      unfold E5 T3 T1; rw [hu1]; nlinarith [he1, he0]
    have hT : T5 A 2.00001 B 2.00001 Cc 2.00001 ≤ 2.03 := by
      unfold T5 T3 T1; rw [hu1]; nlinarith [he1, he0]
    refine ⟨⟨b5.1, le_trans b5.2 hT⟩, ?_⟩
    show |toReal (F32.add (F32.mul r.x p.x) (F32.add (F32.mul r.y p.y) (F32.mul r.z p.z))) - _| ≤ _
    rw [abs_le] at e5 hspec ⊢
    constructor <;> linarith [e5.1, e5.2, hspec.1, hspec.2]
  · obtain ⟨b3, e3⟩ := dot3_fma r.x p.x r.y p.y r.z p.z A 2.00001 B 2.00001 Cc 2.00001 bA px bB py bC pz hsm
    have hE : EF A 2.00001 B 2.00001 Cc 2.00001 ≤ 4 / 10000000 := by
      unfold EF F2 T1; rw [hu1]; nlinarith [he1, he0]
    have hT : F3 A 2.00001 B 2.00001 Cc 2.00001 ≤ 2.03 := by
      unfold F3 F2 T1; rw [hu1]; nlinarith [he1, he0]
    refine ⟨⟨b3.1, le_trans b3.2 hT⟩, ?_⟩
    show |toReal (F32.fma r.x p.x (F32.fma r.y p.y (F32.mul r.z p.z))) - _| ≤ _
    rw [abs_le] at e3 hspec ⊢
    constructor <;> linarith [e3.1, e3.2, hspec.1, hspec.2]


noncomputable def dotQ (q : Q3) (a b c : ℝ) : ℝ := qR q.a * a + (qR q.b * b + qR q.c * c)

/-- the exact forward matrix inverts the exact decode matrix, and exact decoded components stay below 2 in magnitude -/
theorem spec_inverse (m : MC) (hm : m ∈ CheckDecode.std7) (y cb cr : ℝ) (hy : |y| ≤ 1) (hcb : |cb| ≤ 1 / 2) (hcr : |cr| ≤ 1 / 2) :
    ∃ sd se, decodeSpec m = some sd ∧ encodeSpec m = some se ∧
      dotQ se.r1 (dotQ sd.r1 y cb cr) (dotQ sd.r2 y cb cr) (dotQ sd.r3 y cb cr) = y ∧
      dotQ se.r2 (dotQ sd.r1 y cb cr) (dotQ sd.r2 y cb cr) (dotQ sd.r3 y cb cr) = cb ∧
      dotQ se.r3 (dotQ sd.r1 y cb cr) (dotQ sd.r2 y cb cr) (dotQ sd.r3 y cb cr) = cr ∧
      |dotQ sd.r1 y cb cr| ≤ 2 ∧ |dotQ sd.r2 y cb cr| ≤ 2 ∧ |dotQ sd.r3 y cb cr| ≤ 2 := by
  simp only [CheckDecode.std7, List.mem_cons, List.not_mem_nil, or_false] at hm
  rw [abs_le] at hy hcb hcr
  rcases hm with rfl | rfl | rfl | rfl | rfl | rfl | rfl
  all_goals
    refine ⟨_, _, rfl, rfl, ?_, ?_, ?_, ?_, ?_, ?_⟩
    all_goals simp only [dotQ, qR, Q.mul, Q.sub, Q.div, Q.neg]
    all_goals norm_num [Int.toNat]
    all_goals first
      | (rw [abs_le]; constructor <;> linarith [hy.1, hy.2, hcb.1, hcb.2, hcr.1, hcr.2])
      | ring

/-- like `plane_code` but exact: when the ideal value `S*yx + O` is the integer `c`, the emitted code IS `c` -/
theorem plane_exact (v s o : Nat) (yx : ℝ) (S O R c : Nat) (hv : Bnd v 2.03) (hvx : |toReal v - yx| ≤ 38 / 10000000)
    (hs : Finite s ∧ toReal s = (S:ℝ)) (ho : Finite o ∧ toReal o = (O:ℝ)) (hS : S ≤ R) (hO : O ≤ R) (hR1 : 256 ≤ R) (hR2 : R ≤ 65536)
    (hid : (S:ℝ) * yx + (O:ℝ) = (c:ℝ)) (hc : c ≤ R - 1) :
    clampNat (toU16Sat (F32.round (F32.fma v s o))) 0 (R - 1) = c := by
  have hSr : (S:ℝ) ≤ R := by exact_mod_cast hS
  have hOr : (O:ℝ) ≤ R := by exact_mod_cast hO
  have hRr1 : (256:ℝ) ≤ R := by exact_mod_cast hR1
  have hRr2 : (R:ℝ) ≤ 65536 := by exact_mod_cast hR2
  have hS0 : (0:ℝ) ≤ S := by positivity
  have hO0 : (0:ℝ) ≤ O := by positivity
  have bs : Bnd s (S:ℝ) := ⟨hs.1, by rw [hs.2, abs_of_nonneg hS0]⟩
  have bo : Bnd o (O:ℝ) := ⟨ho.1, by rw [ho.2, abs_of_nonneg hO0]⟩
  obtain ⟨bt, et⟩ := fma_bnd v s o 2.03 S O hv bs bo (by
    have : (2.03:ℝ) * S + O ≤ 2.03 * 65536 + 65536 := by nlinarith
    exact lt_of_le_of_lt this (by norm_num))
  rw [hs.2, ho.2] at et
  have hu1 : u = 1 / 16777216 := u_val
  have he1 := eta_le
  have he0 := eta_pos
  have hdelta : |toReal (F32.fma v s o) - (c:ℝ)| < 1 / 2 := by
    rw [← hid]
    have h1 : |toReal v * (S:ℝ) + (O:ℝ) - ((S:ℝ) * yx + (O:ℝ))| ≤ (S:ℝ) * (38 / 10000000) := by
      have : toReal v * (S:ℝ) + (O:ℝ) - ((S:ℝ) * yx + (O:ℝ)) = (S:ℝ) * (toReal v - yx) := by ring
      rw [this, abs_mul, abs_of_nonneg hS0]
      exact mul_le_mul_of_nonneg_left hvx hS0
    rw [hu1] at et
    rw [abs_le] at et h1
    rw [abs_lt]
    constructor <;> nlinarith [et.1, et.2, h1.1, h1.2]
  have hmag : |toReal (F32.fma v s o)| < 8388608 := by
    have := bt.2
    rw [hu1] at this
    have : |toReal (F32.fma v s o)| ≤ (2.03 * 65536 + 65536) * (1 + 1 / 16777216) + 1 := by
      refine le_trans this ?_
      nlinarith
    exact lt_of_le_of_lt this (by norm_num)
  exact quant_exact _ c (R - 1) hc (by omega) bt.1 hmag hdelta


/-- the legal-range clamp of the statement: limited range [16k, 235k] luma, [16k, 240k] chroma, k = 2^(n-8); identity for full range -/
def clampL (full : Bool) (bd Y : Nat) : Nat := if full then Y else clampNat Y (16 * 2 ^ (bd - 8)) (235 * 2 ^ (bd - 8))
def clampC (full : Bool) (bd U : Nat) : Nat := if full then U else clampNat U (16 * 2 ^ (bd - 8)) (240 * 2 ^ (bd - 8))

theorem pow_split (bd : Nat) (h8 : 8 ≤ bd) : 2 ^ bd = 256 * 2 ^ (bd - 8) := by
  have : bd = 8 + (bd - 8) := by omega
  conv_lhs => rw [this, Nat.pow_add]

theorem pow_half (bd : Nat) (h8 : 8 ≤ bd) : 2 ^ (bd - 1) = 128 * 2 ^ (bd - 8) := by
  have : bd - 1 = 7 + (bd - 8) := by omega
  rw [this, Nat.pow_add]

/-- the ideal luma value `S * Yn + O` is exactly the (clamped) code -/
theorem luma_ideal (full : Bool) (bd Y : Nat) (hbd : bd ∈ CheckDecode.depths) (hY : Y < 2 ^ bd) :
    (lumaD full bd : ℝ) * qR (lumaSpec full bd Y) + (offL full bd : ℝ) = (clampL full bd Y : ℝ) ∧ clampL full bd Y ≤ 2 ^ bd - 1 := by
  have h8 : 8 ≤ bd := by simp only [CheckDecode.depths, List.mem_cons, List.not_mem_nil, or_false] at hbd; omega
  have hp := pow_split bd h8
  have hk : 0 < 2 ^ (bd - 8) := Nat.pow_pos (by decide)
  obtain ⟨hdl, _⟩ := den_pos full bd hbd
  have hdr : (lumaD full bd : ℝ) ≠ 0 := by exact_mod_cast (Nat.pos_iff_ne_zero.mp hdl)
  unfold lumaSpec
  cases full
  · -- limited
    simp only [lumaN, lumaD, offL, clampL, Bool.false_eq_true, if_false] at *
    rw [hp] at hY
    generalize 2 ^ (bd - 8) = k at *
    unfold clampNat
    split
    · rename_i h1
      have : Y < 16 * k := by omega
      simp only [this, if_true, qR]
      constructor
      · push_cast; ring
      · omega
    · rename_i h1
      split
      · rename_i h2
        have a : ¬ Y < 16 * k := by omega
        have b : Y > 235 * k := by omega
        simp only [a, b, if_false, if_true, qR]
        constructor
        · push_cast; ring
        · omega
      · rename_i h2
        have a : ¬ Y < 16 * k := by omega
        have b : ¬ Y > 235 * k := by omega
        simp only [a, b, if_false, qR]
        constructor
        · push_cast
          field_simp
          ring
        · omega
  · -- full
    simp only [lumaN, lumaD, offL, clampL, if_true] at *
    have a : ¬ ((Y:ℤ) < 0) := by omega
    have b : ¬ ((Y:ℤ) > ((2 ^ bd - 1 : ℕ) : ℤ)) := by omega
    simp only [a, b, if_false, qR]
    constructor
    · push_cast; field_simp; ring
    · omega


theorem chroma_ideal (full : Bool) (bd U : Nat) (hbd : bd ∈ CheckDecode.depths) (hU : U < 2 ^ bd) (hne : full = true → 1 ≤ U) :
    (chromaD full bd : ℝ) * qR (chromaSpec full bd U) + (offC full bd : ℝ) = (clampC full bd U : ℝ) ∧ clampC full bd U ≤ 2 ^ bd - 1 := by
  have h8 : 8 ≤ bd := by simp only [CheckDecode.depths, List.mem_cons, List.not_mem_nil, or_false] at hbd; omega
  have hp := pow_split bd h8
  have hh := pow_half bd h8
  have hk : 0 < 2 ^ (bd - 8) := Nat.pow_pos (by decide)
  obtain ⟨_, hdc⟩ := den_pos full bd hbd
  have hdr : (chromaD full bd : ℝ) ≠ 0 := by exact_mod_cast (Nat.pos_iff_ne_zero.mp hdc)
  unfold chromaSpec
  cases full
  · simp only [chromaN, chromaD, offC, clampC, Bool.false_eq_true, if_false] at *
    rw [hp] at hU
    generalize 2 ^ (bd - 8) = k at *
    unfold clampNat
    split
    · rename_i h1
      have : U < 16 * k := by omega
      simp only [this, if_true, qR]
      constructor
      · push_cast; ring
      · omega
    · rename_i h1
      split
      · rename_i h2
        have a : ¬ U < 16 * k := by omega
        have b : U > 240 * k := by omega
        simp only [a, b, if_false, if_true, qR]
        constructor
        · push_cast; ring
        · omega
      · rename_i h2
        have a : ¬ U < 16 * k := by omega
        have b : ¬ U > 240 * k := by omega
        simp only [a, b, if_false, qR]
        constructor
        · push_cast
          field_simp
          ring
        · omega
  · have h1 := hne rfl
    simp only [chromaN, chromaD, offC, clampC, if_true] at *
    rw [hh]
    rw [hp] at hU hdc hdr ⊢
    generalize 2 ^ (bd - 8) = k at *
    have a : ¬ (2 * ((U:ℤ) - ((128 * k : ℕ) : ℤ)) < -((256 * k - 1 : ℕ) : ℤ)) := by omega
    have b : ¬ (2 * ((U:ℤ) - ((128 * k : ℕ) : ℤ)) > ((256 * k - 1 : ℕ) : ℤ)) := by omega
    simp only [a, b, if_false, qR]
    constructor
    · push_cast; field_simp; ring
    · omega

/-- full range, chroma code 0: the exact normalised value is clamped to -1/2 (this is the tolerated exception) -/
theorem chroma_zero_full (bd : Nat) (hbd : bd ∈ CheckDecode.depths) : qR (chromaSpec true bd 0) = -1 / 2 := by
  have h8 : 8 ≤ bd := by simp only [CheckDecode.depths, List.mem_cons, List.not_mem_nil, or_false] at hbd; omega
  have hp := pow_split bd h8
  have hh := pow_half bd h8
  have hk : 0 < 2 ^ (bd - 8) := Nat.pow_pos (by decide)
  unfold chromaSpec
  simp only [chromaN, chromaD, if_true]
  rw [hh, hp]
  generalize 2 ^ (bd - 8) = k at *
  have a : (2 * (((0:ℕ):ℤ) - ((128 * k : ℕ) : ℤ)) < -((256 * k - 1 : ℕ) : ℤ)) := by omega
  simp only [a, if_true, qR]
  norm_num


/-- away from -1/2 the full-range shortcut of `from_f32_chroma` is not taken -/
theorem shortcut_not_taken (v : Nat) (yx : ℝ) (hv : Bnd v 2.03) (hvx : |toReal v - yx| ≤ 38 / 10000000) (hyx : 76 / 10000000 ≤ yx + 1 / 2) :
    F32.lt (F32.abs (F32.add v C.from_f32_chroma_f0)) ColorM.EPSILON = false := by
  have fh : Finite C.from_f32_chroma_f0 := ⟨_, _, _, halfc_dec⟩
  have th : toReal C.from_f32_chroma_f0 = 1 / 2 := by rw [toReal_of_decode _ _ _ _ halfc_dec]; unfold valR; norm_num
  have fe : Finite ColorM.EPSILON := ⟨_, _, _, eps_dec⟩
  have te : toReal ColorM.EPSILON = 1 / 8388608 := by rw [toReal_of_decode _ _ _ _ eps_dec]; unfold valR; norm_num
  have bh : Bnd C.from_f32_chroma_f0 (1/2) := ⟨fh, by rw [th]; norm_num⟩
  obtain ⟨ba, ea⟩ := add_val v C.from_f32_chroma_f0 hv.1 fh (by
    rw [th]
    have := hv.2
    have h2 : |toReal v + 1 / 2| ≤ 2.03 + 1 / 2 := le_trans (abs_add_le _ _) (by rw [abs_of_pos (by norm_num : (0:ℝ) < 1/2)]; linarith)
    exact lt_of_le_of_lt h2 (by norm_num))
  have hwf : WF (F32.add v C.from_f32_chroma_f0) := add_wf _ _
  obtain ⟨fab, tab⟩ := toReal_abs _ hwf ba
  by_contra hcon
  have hlt : F32.lt (F32.abs (F32.add v C.from_f32_chroma_f0)) ColorM.EPSILON = true := by
    cases h : F32.lt (F32.abs (F32.add v C.from_f32_chroma_f0)) ColorM.EPSILON
    · exact absurd h hcon
    · rfl
  have hlt' := (lt_iff _ _ fab fe).mp hlt
  rw [tab, te] at hlt'
  rw [th] at ea
  have hu1 : u = 1 / 16777216 := u_val
  have he1 := eta_le
  have he0 := eta_pos
  rw [hu1] at ea
  have hvv : 38 / 10000000 ≤ toReal v + 1 / 2 := by have := (abs_le.mp hvx).1; linarith
  have hpos : |toReal v + 1 / 2| = toReal v + 1 / 2 := abs_of_nonneg (by linarith)
  rw [hpos] at ea
  have hup : toReal v + 1 / 2 ≤ 3 := by have := (abs_le.mp hv.2).2; linarith
  have := (abs_le.mp ea).1
  have h3 := (abs_lt.mp hlt').2
  nlinarith

/-- full range, chroma code 0: the value entering `round()` is 1/2 +- 0.26, so the code is 0 or 1 -/
theorem plane_half (v s o : Nat) (R O : Nat) (hv : Bnd v 2.03) (hvx : |toReal v - (-1 / 2)| ≤ 38 / 10000000)
    (hs : Finite s ∧ toReal s = ((R - 1 : ℕ) : ℝ)) (ho : Finite o ∧ toReal o = (O:ℝ)) (hO : 2 * O = R) (hR1 : 256 ≤ R) (hR2 : R ≤ 65536) :
    clampNat (toU16Sat (F32.round (F32.fma v s o))) 0 (R - 1) = 0 ∨ clampNat (toU16Sat (F32.round (F32.fma v s o))) 0 (R - 1) = 1 := by
  have hRr1 : (256:ℝ) ≤ R := by exact_mod_cast hR1
  have hRr2 : (R:ℝ) ≤ 65536 := by exact_mod_cast hR2
  have hR1' : ((R - 1 : ℕ) : ℝ) = (R:ℝ) - 1 := by
    have : 1 ≤ R := by omega
    push_cast [Nat.cast_sub this]; ring
  have hOr : (O:ℝ) = (R:ℝ) / 2 := by
    have : ((2 * O : ℕ) : ℝ) = (R:ℝ) := by exact_mod_cast congrArg (fun n : ℕ => (n:ℝ)) hO
    push_cast at this; linarith
  have hS0 : (0:ℝ) ≤ ((R - 1 : ℕ) : ℝ) := by positivity
  have hO0 : (0:ℝ) ≤ O := by positivity
  have bs : Bnd s ((R - 1 : ℕ) : ℝ) := ⟨hs.1, by rw [hs.2, abs_of_nonneg hS0]⟩
  have bo : Bnd o (O:ℝ) := ⟨ho.1, by rw [ho.2, abs_of_nonneg hO0]⟩
  obtain ⟨bt, et⟩ := fma_bnd v s o 2.03 ((R - 1 : ℕ) : ℝ) O hv bs bo (by
    have : (2.03:ℝ) * ((R - 1 : ℕ) : ℝ) + O ≤ 2.03 * 65536 + 65536 := by rw [hR1', hOr]; nlinarith
    exact lt_of_le_of_lt this (by norm_num))
  rw [hs.2, ho.2] at et
  have hu1 : u = 1 / 16777216 := u_val
  have he1 := eta_le
  have he0 := eta_pos
  rw [hu1, hR1', hOr] at et
  have hvb := abs_le.mp hvx
  have hdelta : |toReal (F32.fma v s o) - 1 / 2| ≤ 27 / 100 := by
    rw [abs_le] at et ⊢
    constructor <;> nlinarith [et.1, et.2, hvb.1, hvb.2]
  have hmag : |toReal (F32.fma v s o)| < 8388608 := by
    have := abs_sub_abs_le_abs_sub (toReal (F32.fma v s o)) (1 / 2)
    have h2 : |(1:ℝ) / 2| = 1 / 2 := by norm_num
    linarith
  obtain ⟨n, m, e, hdec⟩ := bt.1
  have htr := toReal_of_decode _ _ _ _ hdec
  have hmag' := hmag
  rw [htr, abs_valR] at hmag'
  obtain ⟨k, hk, _, _, hu16⟩ := round_spec _ n m e hdec hmag'
  rw [hu16]
  have hd := abs_le.mp hdelta
  cases n with
  | true => left; simp only [if_true]; unfold clampNat; simp
  | false =>
    simp only [Bool.false_eq_true, if_false]
    have hv' : toReal (F32.fma v s o) = (m:ℝ) * (2:ℝ)^e := by rw [htr]; unfold valR; simp
    rw [hv'] at hd
    have hkb := abs_le.mp hk
    have hk2 : (k:ℝ) < 2 := by linarith [hkb.2, hd.2]
    have hk2' : k < 2 := by exact_mod_cast hk2
    have hk65 : ¬ (k > 65535) := by omega
    simp only [hk65, if_false]
    unfold clampNat
    have a : ¬ (k < 0) := by omega
    have b : ¬ (k > R - 1) := by omega
    simp only [a, b, if_false]
    omega


/-- exact half-open facts about the full-range chroma normalisation for U >= 1: it stays at least 7.6e-6 above -1/2 -/
theorem chroma_full_gap (bd U : Nat) (hbd : bd ∈ CheckDecode.depths) (hU : U < 2 ^ bd) (h1 : 1 ≤ U) :
    76 / 10000000 ≤ qR (chromaSpec true bd U) + 1 / 2 := by
  have h8 : 8 ≤ bd := by simp only [CheckDecode.depths, List.mem_cons, List.not_mem_nil, or_false] at hbd; omega
  have hp := pow_split bd h8
  have hh := pow_half bd h8
  have hk : 0 < 2 ^ (bd - 8) := Nat.pow_pos (by decide)
  have h16 : 2 ^ bd ≤ 65536 := by
    have : bd ≤ 16 := by simp only [CheckDecode.depths, List.mem_cons, List.not_mem_nil, or_false] at hbd; omega
    calc 2 ^ bd ≤ 2 ^ 16 := Nat.pow_le_pow_right (by decide) this
      _ = 65536 := by decide
  unfold chromaSpec
  simp only [chromaN, chromaD, if_true]
  rw [hh]
  rw [hp] at hU h16 ⊢
  generalize 2 ^ (bd - 8) = k at *
  have a : ¬ (2 * ((U:ℤ) - ((128 * k : ℕ) : ℤ)) < -((256 * k - 1 : ℕ) : ℤ)) := by omega
  have b : ¬ (2 * ((U:ℤ) - ((128 * k : ℕ) : ℤ)) > ((256 * k - 1 : ℕ) : ℤ)) := by omega
  simp only [a, b, if_false, qR]
  have hd : (0:ℝ) < ((256 * k - 1 : ℕ) : ℝ) := by
    have : 0 < 256 * k - 1 := by omega
    exact_mod_cast this
  have hdle : ((256 * k - 1 : ℕ) : ℝ) ≤ 65535 := by
    have : 256 * k - 1 ≤ 65535 := by omega
    exact_mod_cast this
  have hnum : (1:ℝ) ≤ 2 * (((U:ℤ) - ((128 * k : ℕ) : ℤ) : ℤ) : ℝ) + ((256 * k - 1 : ℕ) : ℝ) := by
    have : (1:ℤ) ≤ 2 * ((U:ℤ) - ((128 * k : ℕ) : ℤ)) + ((256 * k - 1 : ℕ) : ℤ) := by omega
    exact_mod_cast this
  have : (((U:ℤ) - ((128 * k : ℕ) : ℤ) : ℤ) : ℝ) / ((256 * k - 1 : ℕ) : ℝ) + 1 / 2 =
      (2 * (((U:ℤ) - ((128 * k : ℕ) : ℤ) : ℤ) : ℝ) + ((256 * k - 1 : ℕ) : ℝ)) / (2 * ((256 * k - 1 : ℕ) : ℝ)) := by
    field_simp
  rw [this, le_div_iff₀ (by linarith)]
  nlinarith

/-- **C08**: for every standard matrix, range, depth 8..16, storage, FMA mode and EVERY code triple: decoding the pixel and
encoding it again returns the luma code clamped to the legal range, and each chroma code clamped to the legal range - the only
deviation allowed being that a full-range chroma code 0 may come back as 1. -/
theorem roundtrip_exact (fm : Bool) (m : MC) (hm : m ∈ CheckDecode.std7) (full : Bool) (bd : Nat) (hbd : bd ∈ CheckDecode.depths)
    (ts : Nat) (hts : ts = 1 → bd = 8) (Y U V : Nat) (hY : Y < 2 ^ bd) (hU : U < 2 ^ bd) (hV : V < 2 ^ bd) :
    ∃ inv fwd, yuvToRgbMatrix fm m .BT709 = .ok inv ∧ rgbToYuvMatrix fm m .BT709 = .ok fwd ∧
      (let p := M3.mulArr fm inv ⟨toF32Luma Y (scaleOffset true bd full false).1 (scaleOffset true bd full false).2,
                                  toF32Chroma U (scaleOffset true bd full true).1 (scaleOffset true bd full true).2,
                                  toF32Chroma V (scaleOffset true bd full true).1 (scaleOffset true bd full true).2⟩
       let yuv := M3.mulArr fm fwd p
       let l := scaleOffset false bd full false
       let c := scaleOffset false bd full true
       fromF32Luma ts yuv.x l.1 l.2 bd = clampL full bd Y ∧
       (fromF32Chroma ts yuv.y c.1 c.2 bd full = clampC full bd U ∨ (full = true ∧ U = 0 ∧ fromF32Chroma ts yuv.y c.1 c.2 bd full = 1)) ∧
       (fromF32Chroma ts yuv.z c.1 c.2 bd full = clampC full bd V ∨ (full = true ∧ V = 0 ∧ fromF32Chroma ts yuv.z c.1 c.2 bd full = 1))) := by
  obtain ⟨inv, sd, hinv, hsd, hdec⟩ := decode_close fm m hm full bd hbd Y U V hY hU hV
  have ry := lumaSpec_range full bd Y hbd
  have ru := chromaSpec_range full bd U hbd
  have rv := chromaSpec_range full bd V hbd
  obtain ⟨sd', se, hsd', hse, i1, i2, i3, b1, b2, b3⟩ := spec_inverse m hm _ _ _ ry ru rv
  rw [hsd] at hsd'; injection hsd' with hsd'; subst hsd'
  have hf := fwd_all fm m hm
  unfold fwdOk fwdOkT at hf
  split at hf
  swap
  · simp at hf
  rename_i fwd se' hfw hse'
  rw [hse] at hse'; injection hse' with hse'; subst hse'
  simp only [Bool.and_eq_true] at hf
  refine ⟨inv, fwd, hinv, hfw, ?_⟩
  -- scale / offset are the exact integers
  have hso := so_all
  unfold soAll at hso
  rw [List.all_eq_true] at hso
  have hsb := hso bd hbd
  simp only [Bool.and_eq_true] at hsb
  have hsf : soOk bd full = true := by cases full; exact hsb.2; exact hsb.1
  unfold soOk at hsf
  simp only [Bool.and_eq_true] at hsf
  obtain ⟨⟨⟨s1, s2⟩, s3⟩, s4⟩ := hsf
  have e1 := exact_int _ _ s1
  have e2 := exact_int _ _ s2
  have e3 := exact_int _ _ s3
  have e4 := exact_int _ _ s4
  obtain ⟨h1, h2, h3, h4, h5, h6, h7, h8⟩ := depth_facts bd hbd full
  dsimp only at hdec ⊢
  obtain ⟨⟨fx, ex⟩, ⟨fy, ey⟩, ⟨fz, ez⟩⟩ := hdec
  -- each forward row applied to the computed pixel is within 3.8e-6 of the exact normalised component
  obtain ⟨bb1, d1⟩ := row_fwd2 fm fwd.r1 se.r1 _ _ _ _ hf.1.1 ⟨fx, ex⟩ ⟨fy, ey⟩ ⟨fz, ez⟩ b1 b2 b3
  obtain ⟨bb2, d2⟩ := row_fwd2 fm fwd.r2 se.r2 _ _ _ _ hf.1.2 ⟨fx, ex⟩ ⟨fy, ey⟩ ⟨fz, ez⟩ b1 b2 b3
  obtain ⟨bb3, d3⟩ := row_fwd2 fm fwd.r3 se.r3 _ _ _ _ hf.2 ⟨fx, ex⟩ ⟨fy, ey⟩ ⟨fz, ez⟩ b1 b2 b3
  unfold dotQ at i1 i2 i3
  rw [i1] at d1; rw [i2] at d2; rw [i3] at d3
  rw [mulArr_rows fm fwd]
  dsimp only
  -- helper for the u8 remainder
  have u8mod : ∀ x : Nat, ts = 1 → x ≤ 2 ^ bd - 1 → x % 256 = x := by
    intro x h1' hx; have := hts h1'; subst this; exact Nat.mod_eq_of_lt (by omega)
  refine ⟨?_, ?_, ?_⟩
  · -- luma
    obtain ⟨hid, hcl⟩ := luma_ideal full bd Y hbd hY
    have hp := plane_exact _ _ _ _ (lumaD full bd) (offL full bd) (2 ^ bd) _ bb1 d1 e1 (by unfold offL; exact e2) h1 h3 h5 h6 hid hcl
    unfold fromF32Luma
    rw [h7]; dsimp only
    split
    · rename_i ht; rw [hp]; exact u8mod _ ht hcl
    · exact hp
  · -- chroma U
    by_cases hex : full = true ∧ U = 0
    · obtain ⟨hfull, hU0⟩ := hex
      subst hU0
      obtain ⟨hd, hO⟩ := h8 hfull
      have hz := chroma_zero_full bd hbd
      subst hfull
      rw [hz] at d2
      have ph := plane_half _ _ _ (2 ^ bd) (offC true bd) bb2 d2 (by rw [← hd]; exact e3) (by unfold offC; exact e4) hO h5 h6
      have hc0 : clampC true bd 0 = 0 := by unfold clampC; simp
      unfold fromF32Chroma
      rw [h7]; dsimp only
      split
      · left; rw [hc0]
      · rcases ph with ph | ph
        · left; rw [hc0]; split
          · rename_i ht; rw [ph]
          · exact ph
        · right; refine ⟨rfl, rfl, ?_⟩; split
          · rename_i ht; rw [ph]
          · exact ph
    · left
      have hne : full = true → 1 ≤ U := by intro hf'; by_contra h0; exact hex ⟨hf', by omega⟩
      obtain ⟨hid, hcl⟩ := chroma_ideal full bd U hbd hU hne
      have hp := plane_exact _ _ _ _ (chromaD full bd) (offC full bd) (2 ^ bd) _ bb2 d2 e3 (by unfold offC; exact e4) h2 h4 h5 h6 hid hcl
      unfold fromF32Chroma
      rw [h7]; dsimp only
      split
      · rename_i hcnd
        exfalso
        simp only [Bool.and_eq_true] at hcnd
        have hfull := hcnd.1
        subst hfull
        have := shortcut_not_taken _ _ bb2 d2 (chroma_full_gap bd U hbd hU (hne rfl))
        rw [this] at hcnd
        exact absurd hcnd.2 (by simp)
      · split
        · rename_i ht; rw [hp]; exact u8mod _ ht hcl
        · exact hp
  · -- chroma V
    by_cases hex : full = true ∧ V = 0
    · obtain ⟨hfull, hV0⟩ := hex
      subst hV0
      obtain ⟨hd, hO⟩ := h8 hfull
      have hz := chroma_zero_full bd hbd
      subst hfull
      rw [hz] at d3
      have ph := plane_half _ _ _ (2 ^ bd) (offC true bd) bb3 d3 (by rw [← hd]; exact e3) (by unfold offC; exact e4) hO h5 h6
      have hc0 : clampC true bd 0 = 0 := by unfold clampC; simp
      unfold fromF32Chroma
      rw [h7]; dsimp only
      split
      · left; rw [hc0]
      · rcases ph with ph | ph
        · left; rw [hc0]; split
          · rename_i ht; rw [ph]
          · exact ph
        · right; refine ⟨rfl, rfl, ?_⟩; split
          · rename_i ht; rw [ph]
          · exact ph
    · left
      have hne : full = true → 1 ≤ V := by intro hf'; by_contra h0; exact hex ⟨hf', by omega⟩
      obtain ⟨hid, hcl⟩ := chroma_ideal full bd V hbd hV hne
      have hp := plane_exact _ _ _ _ (chromaD full bd) (offC full bd) (2 ^ bd) _ bb3 d3 e3 (by unfold offC; exact e4) h2 h4 h5 h6 hid hcl
      unfold fromF32Chroma
      rw [h7]; dsimp only
      split
      · rename_i hcnd
        exfalso
        simp only [Bool.and_eq_true] at hcnd
        have hfull := hcnd.1
        subst hfull
        have := shortcut_not_taken _ _ bb3 d3 (chroma_full_gap bd V hbd hV (hne rfl))
        rw [this] at hcnd
        exact absurd hcnd.2 (by simp)
      · split
        · rename_i ht; rw [hp]; exact u8mod _ ht hcl
        · exact hp

end C08
