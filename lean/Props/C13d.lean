import Props.C13c
import Props.C01
import Props.C04
import Props.C05
import Props.C17
/-! C13, finiteness clause for the other single-stage conversions, as corollaries of the accuracy theorems: images whose
components are finite values of `[0, 1]` give finite `Xyb` and `Hsl` images and a finite `Xyb -> LinearRgb` way back, and
every YUV image the constructor accepts (standard matrix, in-range codes) decodes to finite RGB. Together with
`C13.rgbToLinear_finite` this covers every conversion step that starts from `[0, 1]` data; chains whose intermediate data
leave `[0, 1]` (a decoded YUV pixel can be slightly negative or above 1) are covered by the oracle only. -/
namespace C13
open F32 Api PixelM Mat32 ColorM FrameM FrameP

theorem pixOk_of_unit (p : Mat32.V3) (hp : C17.Unit3 p) : C04.PixOk p :=
  ⟨hp.fx, hp.fy, hp.fz, ⟨by linarith [hp.bx.1], by linarith [hp.bx.2]⟩, ⟨by linarith [hp.bY.1], by linarith [hp.bY.2]⟩,
    ⟨by linarith [hp.bz.1], by linarith [hp.bz.2]⟩⟩

/-- **C13, `LinearRgb -> Xyb` keeps finite `[0,1]` data finite**, images of any size -/
theorem linearToXyb_finite (B : Build) (hB : B.fastmath = true) (img : Api.FImg) :
    ∀ i (hi : i < img.data.size), C17.Unit3 img.data[i] →
      let o := (Api.linearToXyb B img).data[i]!
      Finite o.x ∧ Finite o.y ∧ Finite o.z := by
  intro i hi hp o
  have ho : o = lrgbToXyb B img.data[i] := by simp [o, Api.linearToXyb, hi]
  rw [ho]
  exact (C04.xyb_close B hB img.data[i] (pixOk_of_unit _ hp) (Or.inl ⟨hp.bx.1, hp.bY.1, hp.bz.1⟩)).1

/-- **C13, `LinearRgb -> Xyb -> LinearRgb` keeps finite `[0,1]` data finite**, images of any size -/
theorem xybToLinear_finite (B : Build) (hB : B.fastmath = true) (img : Api.FImg) :
    ∀ i (hi : i < img.data.size), C17.Unit3 img.data[i] →
      let o := (Api.xybToLinear B (Api.linearToXyb B img)).data[i]!
      Finite o.x ∧ Finite o.y ∧ Finite o.z := by
  intro i hi hp o
  have ho : o = xybToLrgb B (lrgbToXyb B img.data[i]) := by simp [o, Api.xybToLinear, Api.linearToXyb, hi]
  rw [ho]
  exact (C05.roundtrip B hB img.data[i] ⟨hp.fx, hp.fy, hp.fz, hp.bx, hp.bY, hp.bz⟩).1

/-- **C13, `LinearRgb -> Hsl` keeps finite `[0,1]` data finite**, images of any size -/
theorem linearToHsl_finite (img : Api.FImg) :
    ∀ i (hi : i < img.data.size), C17.Unit3 img.data[i] → C17.Wf3 img.data[i] →
      let o := (Api.linearToHsl img).data[i]!
      Finite o.x ∧ Finite o.y ∧ Finite o.z := by
  intro i hi hp hw o
  have ho : o = lrgbToHsl img.data[i] := by simp [o, Api.linearToHsl, hi]
  rw [ho]
  exact ⟨(C17.hue_range _ hp hw).1, (C17.saturation_range _ hp hw).1, (C17.lightness _ hp).1⟩

/-- **C13, `Yuv -> Rgb` gives finite data** for every accepted image with a standard matrix and in-range codes -/
theorem yuvToRgb_finite (B : Build) (yp up vp : Plane) (cfg : Cfg) (ts : Nat) (g : Yuv) (hg : Yuv.new yp up vp cfg ts = .ok (.ok g))
    (hm : g.cfg.matrix ∈ CheckDecode.std7) (hbd : g.cfg.bd ∈ CheckDecode.depths)
    (hsY : ∀ x y, x < g.y.cfg.width → y < g.y.cfg.height → Plane.sample g.y x y < 2 ^ g.cfg.bd)
    (hsU : ∀ x y, x < g.u.cfg.width → y < g.u.cfg.height → Plane.sample g.u x y < 2 ^ g.cfg.bd)
    (hsV : ∀ x y, x < g.v.cfg.width → y < g.v.cfg.height → Plane.sample g.v x y < 2 ^ g.cfg.bd) :
    ∃ rgb, yuvToRgb B g = .ok (.ok rgb) ∧ rgb.data.size = g.y.cfg.width * g.y.cfg.height ∧
      ∀ x y, x < g.y.cfg.width → y < g.y.cfg.height → ∃ o, rgb.data[y * g.y.cfg.width + x]? = some o ∧
        Finite o.x ∧ Finite o.y ∧ Finite o.z := by
  have hinv := inv_of_new yp up vp cfg ts g hg
  obtain ⟨out, eout, sout, pout⟩ := decode_spec g hinv
  have hm14 : g.cfg.matrix ∈ C14.std7 := hm
  have hmat : yuvToRgbMatrix B.fma g.cfg.matrix g.cfg.primaries = yuvToRgbMatrix B.fma g.cfg.matrix .BT709 :=
    (C14.std_matrix_ignores_primaries B.fma g.cfg.matrix hm14 g.cfg.primaries .BT709).2
  obtain ⟨inv, s, hi, hs, _⟩ := C01.decode_close B.fma g.cfg.matrix hm g.cfg.full g.cfg.bd hbd 0 0 0 (C01.pow_pos' _) (C01.pow_pos' _) (C01.pow_pos' _)
  refine ⟨{ data := out.map (M3.mulArr B.fma inv), w := g.y.cfg.width, h := g.y.cfg.height, transfer := g.cfg.transfer, primaries := g.cfg.primaries }, ?_, by simp [sout], ?_⟩
  · unfold yuvToRgb; rw [hmat, hi]; simp only [eout, Out.bind]
  · intro x y hx hy
    have hp := pout x y hx hy
    have hcx := shr_lt _ x _ hinv.wdiv hx
    have hcy := shr_lt _ y _ hinv.hdiv hy
    obtain ⟨inv', s', hi', hs', hc⟩ := C01.decode_close B.fma g.cfg.matrix hm g.cfg.full g.cfg.bd hbd
      (Plane.sample g.y x y) (Plane.sample g.u (x >>> g.cfg.ssx) (y >>> g.cfg.ssy)) (Plane.sample g.v (x >>> g.cfg.ssx) (y >>> g.cfg.ssy))
      (hsY x y hx hy) (hsU _ _ (by rw [hinv.uw]; exact hcx) (by rw [hinv.uh]; exact hcy)) (hsV _ _ (by rw [hinv.vw]; exact hcx) (by rw [hinv.vh]; exact hcy))
    rw [hi] at hi'; rw [hs] at hs'
    injection hi' with hi'; injection hs' with hs'
    subst hi' hs'
    refine ⟨M3.mulArr B.fma inv (pixelOf g.y g.u g.v g.cfg.ssx g.cfg.ssy (normPx g.cfg) x y), ?_, ?_⟩
    · simp [Array.getElem?_map, hp]
    · dsimp only at hc ⊢
      exact ⟨hc.1.1, hc.2.1.1, hc.2.2.1⟩

end C13
