import Props.C20b
import Props.C03j
/-! C20, accuracy clause without `fastmath` for 13 of the 14 characteristics (both directions): with the feature off,
`powf` and `expf` ARE the libm functions, parameters of the model. Under explicit accuracy hypotheses on those parameters
(relative 1e-6, far weaker than glibc's documented < 1 ulp = 6e-8; results well-formed 32-bit patterns) every curve is
within 5e-5 of its defining formula on every binary32 of `[0, 1]`. The curve proofs are the ones of C03, stated for an
abstract `PowOracle` / `Pow10Oracle` / `ExpOracle` and instantiated here with the libm hypotheses. -/
namespace C20
open F32 MathM TransferM Real ExpPoly Horner C03 SrgbReal

/-- libm `powf`: finite, well-formed results within relative 1e-6 on the bases and exponents the curves use -/
def LibmPowOk (lm : Libm) : Prop :=
  ∀ x y : Nat, Finite x → Finite y → 0 ≤ toReal x → toReal x ≤ 11 → |toReal y| ≤ 3 + 1 / 10 ^ 6 → (toReal x = 0 → 0 < toReal y) →
    WF (lm.powf x y) ∧ Finite (lm.powf x y) ∧ |toReal (lm.powf x y) - (toReal x) ^ (toReal y)| ≤ (1 / 10 ^ 6) * (toReal x) ^ (toReal y)

/-- libm `expf` -/
def LibmExpOk (lm : Libm) : Prop :=
  ∀ d : Nat, Finite d → |toReal d| ≤ 85 →
    Finite (lm.expf d) ∧ |toReal (lm.expf d) - Real.exp (toReal d)| ≤ (1 / 10 ^ 6) * Real.exp (toReal d)

/-- what C20 says about one direction of one curve without fastmath -/
def CurveWithin5F (f : Nat → Out Nat) (spec : ℝ → ℝ) : Prop :=
  ∀ x : Nat, WF x → Finite x → 0 ≤ toReal x → toReal x ≤ 1 → ∃ r, f x = .ok r ∧ Finite r ∧ |toReal r - spec (toReal x)| < 5 / 10 ^ 5

theorem within5 (f : Nat → Out Nat) (spec : ℝ → ℝ) (ε : ℝ) (h : CurveWithinB f spec ε) (hε : ε < 5 / 10 ^ 5) : CurveWithin5F f spec := by
  intro x hxw hx h0 h1
  obtain ⟨r, h2, h3, h4⟩ := h x hxw hx h0 h1
  exact ⟨r, h2, h3, lt_of_le_of_lt h4 hε⟩

variable (B : Build) (hB : B.fastmath = false)
include hB

theorem powf_nofast (x y : Nat) : powf B x y = .ok (B.libm.powf x y) := by unfold powf; rw [hB]; simp
theorem expf_nofast (x : Nat) : expf B x = .ok (B.libm.expf x) := by unfold expf; rw [hB]; simp

theorem nofast_oracle (hL : LibmPowOk B.libm) : PowOracle B (7 / 10 ^ 6) 0 := by
  intro x y γ hxw hx h0 h1 hy hγ1 hγ2 hyγ
  obtain ⟨y1, y2⟩ := abs_le.mp hyγ
  set X := toReal x with hX
  set Y := toReal y with hY
  have hYpos : 0 < Y := by linarith
  obtain ⟨hw, hf, he⟩ := hL x y hx hy h0 (by linarith) (by rw [abs_of_pos hYpos]; linarith) (fun _ => hYpos)
  refine ⟨_, powf_nofast B hB x y, hw, hf, ?_⟩
  rw [← hX, ← hY] at he
  have hXY0 : 0 ≤ X ^ Y := Real.rpow_nonneg h0 Y
  -- X^Y ≤ 1 + 5e-6 and the change of exponent
  have hXYle : X ^ Y ≤ 1 + 5 / 10 ^ 6 := by
    by_cases hx1 : X ≤ 1
    · have := Real.rpow_le_one h0 hx1 hYpos.le; linarith
    · have hgt := (not_le.mp hx1).le
      calc X ^ Y ≤ X ^ (4:ℝ) := Real.rpow_le_rpow_of_exponent_le hgt (by linarith)
        _ ≤ (1 + 1 / 10 ^ 6 : ℝ) ^ (4:ℝ) := Real.rpow_le_rpow h0 h1 (by norm_num)
        _ ≤ 1 + 5 / 10 ^ 6 := by rw [show (4:ℝ) = ((4:ℕ):ℝ) by norm_num, Real.rpow_natCast]; norm_num
  have hpert : |X ^ Y - X ^ γ| ≤ 5 / 10 ^ 6 := by
    by_cases hx1 : X ≤ 1
    · by_cases hc : γ ≤ Y
      · refine le_trans (PowCurve.rpow_exponent_pert X Y γ h0 hx1 (by linarith) hc) ?_
        rw [div_le_iff₀ (by linarith)]; nlinarith
      · have hc' := le_of_lt (not_le.mp hc)
        rw [abs_sub_comm]
        refine le_trans (PowCurve.rpow_exponent_pert X γ Y h0 hx1 hYpos hc') ?_
        rw [div_le_iff₀ hYpos]; nlinarith
    · have hgt := (not_le.mp hx1).le
      have hpow : ∀ w : ℝ, 0 ≤ w → w ≤ 4 → 1 ≤ X ^ w ∧ X ^ w ≤ 1 + 5 / 10 ^ 6 := by
        intro w hw0 hw4
        constructor
        · exact Real.one_le_rpow hgt hw0
        · calc X ^ w ≤ X ^ (4:ℝ) := Real.rpow_le_rpow_of_exponent_le hgt hw4
            _ ≤ (1 + 1 / 10 ^ 6 : ℝ) ^ (4:ℝ) := Real.rpow_le_rpow h0 h1 (by norm_num)
            _ ≤ 1 + 5 / 10 ^ 6 := by rw [show (4:ℝ) = ((4:ℕ):ℝ) by norm_num, Real.rpow_natCast]; norm_num
      obtain ⟨p1, p2⟩ := hpow Y hYpos.le (by linarith)
      obtain ⟨q1, q2⟩ := hpow γ (by linarith) (by linarith)
      rw [abs_le]; constructor <;> linarith
  have e : toReal (B.libm.powf x y) - X ^ γ = (toReal (B.libm.powf x y) - X ^ Y) + (X ^ Y - X ^ γ) := by ring
  rw [e]
  refine le_trans (abs_add_le _ _) ?_
  have : (1 / 10 ^ 6 : ℝ) * X ^ Y ≤ (1 / 10 ^ 6) * (1 + 5 / 10 ^ 6) := mul_le_mul_of_nonneg_left hXYle (by norm_num)
  linarith

theorem nofast_oracle10 (hL : LibmPowOk B.libm) : Pow10Oracle B (1 / 10 ^ 6) := by
  intro c10 y f10 v10 _ _ hy hY
  obtain ⟨_, hf, he⟩ := hL c10 y f10 hy (by rw [v10]; norm_num) (by rw [v10]; norm_num) (by linarith) (fun h => by rw [v10] at h; norm_num at h)
  rw [v10] at he
  exact ⟨_, powf_nofast B hB c10 y, hf, he⟩

theorem nofast_oracle_exp (hE : LibmExpOk B.libm) : ExpOracle B := by
  intro d hd hD
  obtain ⟨hf, he⟩ := hE d hd hD
  refine ⟨_, expf_nofast B hB d, hf, le_trans he ?_⟩
  apply mul_le_mul_of_nonneg_right _ (Real.exp_pos _).le
  norm_num

/-- **C20, accuracy without fastmath**: for the 13 characteristics of `C03.thirteen`, both directions, every binary32 of
`[0, 1]`: within 5e-5 of the defining formula, under the libm hypotheses (`powf`, `expf` within relative 1e-6; `log10`, `ln`
within 1e-6 absolute). -/
theorem nofast_accuracy (hP : LibmPowOk B.libm) (hE : LibmExpOk B.libm) (hL10 : LibmLog10Accurate B.libm) (hLn : LibmLnAccurate B.libm)
    (t : TC) (ht : t ∈ thirteen) :
    (∃ f, toLinearFn B t = .ok f ∧ CurveWithin5F f (specToLinear t)) ∧ (∃ g, toGammaFn B t = .ok g ∧ CurveWithin5F g (specToGamma t)) := by
  have ho := nofast_oracle B hB hP
  have ho10 := nofast_oracle10 B hB hP
  have hoe := nofast_oracle_exp B hB hE
  have w : ∀ (f : Nat → Out Nat) (spec : ℝ → ℝ) (ε : ℝ), CurveWithinB f spec ε → ε < 5 / 10 ^ 5 → CurveWithin5F f spec :=
    fun f spec ε h hε => within5 f spec ε h hε
  simp only [thirteen, List.mem_cons, List.mem_nil_iff, or_false] at ht
  rcases ht with rfl | rfl | rfl | rfl | rfl | rfl | rfl | rfl | rfl | rfl | rfl | rfl | rfl
  · exact ⟨⟨_, rfl, w _ _ _ (bt1886_to_linear_o B _ _ ho) (by norm_num)⟩, ⟨_, rfl, w _ _ _ (bt1886_to_gamma_o B _ _ ho) (by norm_num)⟩⟩
  · exact ⟨⟨_, rfl, w _ _ _ (bt1886_to_linear_o B _ _ ho) (by norm_num)⟩, ⟨_, rfl, w _ _ _ (bt1886_to_gamma_o B _ _ ho) (by norm_num)⟩⟩
  · exact ⟨⟨_, rfl, w _ _ _ (bt1886_to_linear_o B _ _ ho) (by norm_num)⟩, ⟨_, rfl, w _ _ _ (bt1886_to_gamma_o B _ _ ho) (by norm_num)⟩⟩
  · exact ⟨⟨_, rfl, w _ _ _ (bt1886_to_linear_o B _ _ ho) (by norm_num)⟩, ⟨_, rfl, w _ _ _ (bt1886_to_gamma_o B _ _ ho) (by norm_num)⟩⟩
  · exact ⟨⟨_, rfl, w _ _ _ (bt1886_to_linear_o B _ _ ho) (by norm_num)⟩, ⟨_, rfl, w _ _ _ (bt1886_to_gamma_o B _ _ ho) (by norm_num)⟩⟩
  · exact ⟨⟨_, rfl, w _ _ _ (bt470m_to_linear_o B _ _ ho) (by norm_num)⟩, ⟨_, rfl, w _ _ _ (bt470m_to_gamma_o B _ _ ho) (by norm_num)⟩⟩
  · exact ⟨⟨_, rfl, w _ _ _ (bt470bg_to_linear_o B _ _ ho) (by norm_num)⟩, ⟨_, rfl, w _ _ _ (bt470bg_to_gamma_o B _ _ ho) (by norm_num)⟩⟩
  · exact ⟨⟨_, rfl, w _ _ _ (xvycc_to_linear_o B _ _ ho) (by norm_num)⟩, ⟨_, rfl, w _ _ _ (xvycc_to_gamma_o B _ _ ho) (by norm_num)⟩⟩
  · exact ⟨⟨_, rfl, w _ _ _ (srgb_to_linear_o B _ _ ho) (by norm_num)⟩, ⟨_, rfl, w _ _ _ (srgb_to_gamma_o B _ _ ho (by norm_num)) (by norm_num)⟩⟩
  · refine ⟨⟨_, rfl, w _ _ _ (log100_to_linear_o B _ ho10 (by norm_num)) (by norm_num)⟩, ⟨_, rfl, ?_⟩⟩
    exact w _ _ _ (log100_to_gamma_b B hL10) (by norm_num)
  · refine ⟨⟨_, rfl, w _ _ _ (log316_to_linear_o B _ ho10 (by norm_num)) (by norm_num)⟩, ⟨_, rfl, ?_⟩⟩
    exact w _ _ _ (log316_to_gamma_b B hL10) (by norm_num)
  · refine ⟨⟨_, rfl, w _ _ _ (hlg_to_linear_o B hoe) (by norm_num)⟩, ⟨_, rfl, ?_⟩⟩
    exact w _ _ _ (hlg_to_gamma_b B hLn) (by norm_num)
  · exact ⟨⟨_, rfl, fun x _ hx _ _ => ⟨x, rfl, hx, by show |toReal x - toReal x| < _; rw [sub_self, abs_zero]; norm_num⟩⟩, ⟨_, rfl, fun x _ hx _ _ => ⟨x, rfl, hx, by show |toReal x - toReal x| < _; rw [sub_self, abs_zero]; norm_num⟩⟩⟩

end C20
