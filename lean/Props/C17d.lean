import Props.C17c
import Proofs.F32Ident
/-! C17 round trip, part 2: the float side. `sat_core`: the two quantities the saturation is built from (`num ≈ max-min`,
`den ≈ 1-|2L-1|`) for every pixel of the unit cube; `chroma_back`: the chroma `c = den * S` recomputed by `hsl_to_lrgb` (the SAME
`den` bit for bit) is within 1e-6 of `max - min`, whatever the size of `den` - the division and the multiplication cancel. -/
namespace C17
open F32 Real PixelM

set_option maxHeartbeats 4000000 in
theorem sat_core (p : Mat32.V3) (hp : Unit3 p) :
    let l := (lrgbToHsl p).z
    let xmax := F32.max (F32.max p.x p.y) p.z
    let den := F32.sub 0x3f800000 (F32.abs (F32.fma 0x40000000 l (F32.neg 0x3f800000)))
    let num := F32.mul 0x40000000 (F32.sub xmax l)
    let Cs := mx (toReal p.x) (toReal p.y) (toReal p.z) - mn (toReal p.x) (toReal p.y) (toReal p.z)
    let Ds := 1 - |2 * specL (toReal p.x) (toReal p.y) (toReal p.z) - 1|
    (Finite den ∧ 0 ≤ toReal den ∧ toReal den ≤ 1 ∧ |toReal den - Ds| ≤ 4 / 10000000) ∧
    (Finite num ∧ 0 ≤ toReal num ∧ toReal num ≤ 2 ∧ |toReal num - Cs| ≤ 6 / 10000000) ∧ Cs ≤ Ds ∧ 0 ≤ Cs := by
  intro l xmax den num Cs Ds
  obtain ⟨fL, L0, L1, eL⟩ := lightness p hp
  have hLM := l_le_max p hp
  obtain ⟨fM, fm, vM, vm⟩ := maxmin p hp
  obtain ⟨b0, b1, b2⟩ := mx_mn_bounds _ _ _ hp.bx hp.bY hp.bz
  have wl : WF l := div_wf _ _
  have f0 := c_zero; have f1 := c_one; have f2 := c_two; have fn1 := neg_one
  have hu := u_val; have he := eta_le; have he0 := eta_pos
  set Mx := mx (toReal p.x) (toReal p.y) (toReal p.z)
  set Mn := mn (toReal p.x) (toReal p.y) (toReal p.z)
  set Ls := specL (toReal p.x) (toReal p.y) (toReal p.z) with hLs
  have hLsd : Ls = (Mx + Mn) / 2 := rfl
  set L := toReal l
  obtain ⟨el1, el2⟩ := abs_le.mp eL
  have w1 : WF (0x3f800000 : Nat) := by unfold WF; norm_num
  -- t = fma 2 l (-1) in [-1, 1]
  have hfitt : |toReal (0x40000000 : Nat) * L + toReal (F32.neg 0x3f800000)| < (2:ℝ) ^ (127:ℤ) :=
    fit1 _ (by rw [f2.2, fn1.2, abs_le]; constructor <;> linarith)
  obtain ⟨ft, et⟩ := fma_val 0x40000000 l (F32.neg 0x3f800000) f2.1 fL fn1.1 hfitt
  have tlo := fma_ge 0x40000000 l (F32.neg 0x3f800000) (F32.neg 0x3f800000) f2.1 fL fn1.1 fn1.1 hfitt (fit1 _ (by rw [fn1.2]; norm_num))
    (by rw [f2.2, fn1.2]; linarith)
  have thi := fma_le 0x40000000 l (F32.neg 0x3f800000) 0x3f800000 f2.1 fL fn1.1 f1.1 hfitt (fit1 _ (by rw [f1.2]; norm_num))
    (by rw [f1.2, f2.2, fn1.2]; linarith)
  rw [fn1.2] at tlo; rw [f1.2] at thi
  rw [f2.2, fn1.2] at et
  set t := F32.fma 0x40000000 l (F32.neg 0x3f800000)
  have ht1 : |2 * L + -1| ≤ 1 := by rw [abs_le]; constructor <;> linarith
  have ht2 : u * |2 * L + -1| ≤ u * 1 := mul_le_mul_of_nonneg_left ht1 u_pos.le
  rw [hu] at ht2 et
  obtain ⟨fat, vat⟩ := toReal_abs t (fma_wf _ _ _) ft
  have hat : |toReal t| ≤ 1 := by rw [abs_le]; constructor <;> linarith
  have hTt : |toReal t - (2 * Ls - 1)| ≤ 33 / 100000000 := by
    have e : toReal t - (2 * Ls - 1) = (toReal t - (2 * L + -1)) + 2 * (L - Ls) := by ring
    rw [e]
    have t1 := abs_add_le (toReal t - (2 * L + -1)) (2 * (L - Ls))
    have t2 : |2 * (L - Ls)| = 2 * |L - Ls| := by rw [abs_mul]; norm_num
    linarith
  have habs : abs (|toReal t| - |2 * Ls - 1|) ≤ 33 / 100000000 := le_trans (abs_abs_sub_abs_le_abs_sub _ _) hTt
  -- den
  have wat : WF (F32.abs t) := abs_wf _ (fma_wf _ _ _)
  have hfitd : |toReal (0x3f800000 : Nat) - toReal (F32.abs t)| < (2:ℝ) ^ (127:ℤ) :=
    fit1 _ (by rw [f1.2, vat, abs_le]; constructor <;> linarith [abs_nonneg (toReal t)])
  obtain ⟨fden, eden⟩ := sub_val 0x3f800000 (F32.abs t) wat f1.1 fat hfitd
  have d0 := sub_ge 0x3f800000 (F32.abs t) 0 wat f1.1 fat f0.1 hfitd (by rw [f0.2]; simp) (by rw [f0.2, f1.2, vat]; linarith)
  have d1 := sub_le 0x3f800000 (F32.abs t) 0x3f800000 wat f1.1 fat f1.1 hfitd (fit1 _ (by rw [f1.2]; norm_num)) (by rw [f1.2, vat]; linarith [abs_nonneg (toReal t)])
  rw [f0.2] at d0; rw [f1.2] at d1
  rw [f1.2, vat] at eden
  have hd1 : abs (1 - |toReal t|) ≤ 1 := by rw [abs_le]; constructor <;> linarith [abs_nonneg (toReal t)]
  have hd2 : u * abs (1 - |toReal t|) ≤ u * 1 := mul_le_mul_of_nonneg_left hd1 u_pos.le
  rw [hu] at hd2 eden
  have hden : |toReal den - Ds| ≤ 4 / 10000000 := by
    have e : toReal den - Ds = (toReal den - (1 - |toReal t|)) - (|toReal t| - |2 * Ls - 1|) := by show toReal den - (1 - |2 * Ls - 1|) = _; ring
    rw [e]
    have := abs_sub (toReal den - (1 - |toReal t|)) (|toReal t| - |2 * Ls - 1|)
    linarith
  -- num
  have hMx1 : toReal xmax ≤ 1 := by rw [vM]; exact b2
  have hMx0 : 0 ≤ toReal xmax := by rw [vM]; linarith
  have hfitn : |toReal xmax - L| < (2:ℝ) ^ (127:ℤ) := fit1 _ (by rw [abs_le]; constructor <;> linarith)
  obtain ⟨fvl, evl⟩ := sub_val xmax l wl fM fL hfitn
  have vl0 := sub_ge xmax l 0 wl fM fL f0.1 hfitn (by rw [f0.2]; simp) (by rw [f0.2]; linarith)
  rw [f0.2] at vl0
  have vl1 := sub_le xmax l 0x3f800000 wl fM fL f1.1 hfitn (fit1 _ (by rw [f1.2]; norm_num)) (by rw [f1.2]; linarith)
  rw [f1.2] at vl1
  set vl := F32.sub xmax l
  have hv1 : |toReal xmax - L| ≤ 1 := by rw [abs_le]; constructor <;> linarith
  have hv2 : u * |toReal xmax - L| ≤ u * 1 := mul_le_mul_of_nonneg_left hv1 u_pos.le
  rw [hu] at hv2 evl
  have bvl : Bnd vl (11 / 10) := ⟨fvl, by rw [abs_le]; constructor <;> linarith⟩
  obtain ⟨bnum, enum⟩ := mul_bnd 0x40000000 vl 2 (11 / 10) ⟨f2.1, by rw [f2.2]; norm_num⟩ bvl (fit_small _ (by norm_num))
  have hfitm : |toReal (0x40000000 : Nat) * toReal vl| < (2:ℝ) ^ (127:ℤ) := fit1 _ (by rw [f2.2, abs_le]; constructor <;> linarith)
  have n0 := mul_ge 0x40000000 vl 0 f2.1 fvl f0.1 hfitm (by rw [f0.2]; simp) (by rw [f0.2, f2.2]; linarith)
  rw [f0.2] at n0
  have n1 := mul_le 0x40000000 vl 0x40000000 f2.1 fvl f2.1 hfitm (fit1 _ (by rw [f2.2]; norm_num)) (by rw [f2.2]; linarith)
  rw [f2.2] at n1
  rw [f2.2, hu] at enum
  have hCs0 : 0 ≤ Cs := by show 0 ≤ Mx - Mn; linarith
  have hnum : |toReal num - Cs| ≤ 6 / 10000000 := by
    have e : toReal num - Cs = (toReal num - 2 * toReal vl) + 2 * (toReal vl - (toReal xmax - L)) - 2 * (L - Ls) := by show toReal num - (Mx - Mn) = _; rw [vM, hLsd]; ring
    rw [e]
    have t1 := abs_sub ((toReal num - 2 * toReal vl) + 2 * (toReal vl - (toReal xmax - L))) (2 * (L - Ls))
    have t2 := abs_add_le (toReal num - 2 * toReal vl) (2 * (toReal vl - (toReal xmax - L)))
    have t3 : |2 * (toReal vl - (toReal xmax - L))| = 2 * |toReal vl - (toReal xmax - L)| := by rw [abs_mul]; norm_num
    have t4 : |2 * (L - Ls)| = 2 * |L - Ls| := by rw [abs_mul]; norm_num
    linarith
  have hCD : Cs ≤ Ds := by
    show Mx - Mn ≤ 1 - |2 * Ls - 1|
    rw [hLsd]
    rcases le_total 0 (2 * ((Mx + Mn) / 2) - 1) with h | h
    · rw [abs_of_nonneg h]; linarith
    · rw [abs_of_nonpos h]; linarith
  exact ⟨⟨fden, d0, d1, hden⟩, ⟨bnum.1, n0, n1, hnum⟩, hCD, hCs0⟩

set_option maxHeartbeats 4000000 in
/-- the chroma recomputed by the inverse, `c = den * S`, is within 1e-6 of `max - min` -/
theorem chroma_back (p : Mat32.V3) (hp : Unit3 p) :
    let l := (lrgbToHsl p).z
    let den := F32.sub 0x3f800000 (F32.abs (F32.fma 0x40000000 l (F32.neg 0x3f800000)))
    let c := F32.mul den (lrgbToHsl p).y
    Finite c ∧ 0 ≤ toReal c ∧ |toReal c - (mx (toReal p.x) (toReal p.y) (toReal p.z) - mn (toReal p.x) (toReal p.y) (toReal p.z))| ≤ 1 / 1000000 := by
  intro l den c
  obtain ⟨⟨fden, d0, d1, hden⟩, ⟨fnum, n0, n1, hnum⟩, hCD, hCs0⟩ := sat_core p hp
  obtain ⟨fL, L0, L1, eL⟩ := lightness p hp
  obtain ⟨fM, fm, vM, vm⟩ := maxmin p hp
  obtain ⟨b0, b1, b2⟩ := mx_mn_bounds _ _ _ hp.bx hp.bY hp.bz
  set xmax := F32.max (F32.max p.x p.y) p.z
  have wl : WF l := div_wf _ _
  have hs : (lrgbToHsl p).y = (if (F32.lt (F32.abs l) EPSILON || F32.lt (F32.abs (F32.sub l 0x3f800000)) EPSILON) then 0
      else F32.min (F32.div (F32.mul 0x40000000 (F32.sub xmax l)) den) 0x3f800000) := rfl
  have f0 := c_zero; have f1 := c_one; have f2 := c_two; have fe := c_eps
  have hE : EPSILON = 0x34000000 := rfl
  have hu := u_val; have he := eta_le; have he0 := eta_pos
  set Mx := mx (toReal p.x) (toReal p.y) (toReal p.z)
  set Mn := mn (toReal p.x) (toReal p.y) (toReal p.z)
  set Ls := specL (toReal p.x) (toReal p.y) (toReal p.z) with hLs
  have hLsd : Ls = (Mx + Mn) / 2 := rfl
  set L := toReal l
  set Cs := Mx - Mn
  set Ds := 1 - |2 * Ls - 1|
  set num := F32.mul 0x40000000 (F32.sub xmax l)
  obtain ⟨el1, el2⟩ := abs_le.mp eL
  obtain ⟨dd1, dd2⟩ := abs_le.mp hden
  obtain ⟨nn1, nn2⟩ := abs_le.mp hnum
  show Finite (F32.mul den (lrgbToHsl p).y) ∧ 0 ≤ toReal (F32.mul den (lrgbToHsl p).y) ∧ |toReal (F32.mul den (lrgbToHsl p).y) - Cs| ≤ 1 / 1000000
  rw [hs]
  obtain ⟨fal, val⟩ := toReal_abs l wl fL
  have w1 : WF (0x3f800000 : Nat) := by unfold WF; norm_num
  obtain ⟨fs1, es1⟩ := sub_val l 0x3f800000 w1 fL f1.1 (fit1 _ (by rw [f1.2, abs_le]; constructor <;> linarith))
  obtain ⟨fas1, vas1⟩ := toReal_abs (F32.sub l 0x3f800000) (add_wf _ _) fs1
  rw [f1.2] at es1
  have h41 : |L - 1| = 1 - L := by rw [abs_of_nonpos (by linarith)]; ring
  rw [h41, hu] at es1
  have hden1 : |toReal den| ≤ 1 := by rw [abs_le]; constructor <;> linarith
  split
  · -- guard true: S = 0, the chroma is tiny
    rename_i hg
    have hz : Zr (F32.mul den 0) := mul_zr den 0 ⟨f0.1, f0.2⟩ fden (by linarith)
    refine ⟨hz.1, by rw [hz.2], ?_⟩
    rw [hz.2]
    have hCsmall : Cs ≤ 6 / 10000000 := by
      simp only [Bool.or_eq_true] at hg
      rcases hg with g | g
      · rw [hE] at g
        have := (lt_iff _ _ fal fe.1).mp g
        rw [val, fe.2, abs_of_nonneg L0] at this
        have : Cs ≤ 2 * Ls := by show Mx - Mn ≤ 2 * Ls; rw [hLsd]; linarith
        linarith
      · rw [hE] at g
        have := (lt_iff _ _ fas1 fe.1).mp g
        rw [vas1, fe.2] at this
        have h3 := abs_sub_abs_le_abs_sub (L - 1) (toReal (F32.sub l 0x3f800000))
        rw [abs_sub_comm (L - 1) _, h41] at h3
        have : Cs ≤ 2 * (1 - Ls) := by show Mx - Mn ≤ 2 * (1 - Ls); rw [hLsd]; linarith
        nlinarith
    rw [abs_le]; constructor <;> linarith
  · rename_i hg
    simp only [Bool.or_eq_true, not_or, Bool.not_eq_true] at hg
    obtain ⟨g1, g2⟩ := hg
    rw [hE] at g1 g2
    -- den ≥ 2^-23 (as in the range theorem, via the monotone bounds on t)
    have hLlo : 1 / 8388608 ≤ L := by
      have : ¬ (toReal (F32.abs l) < toReal (0x34000000 : Nat)) := fun h => by
        have h2 := (lt_iff _ _ fal fe.1).mpr h; rw [g1] at h2; exact Bool.false_ne_true h2
      rw [val, fe.2, abs_of_nonneg L0] at this; linarith
    have hLhi : L ≤ 1 - 1 / 16777216 := by
      have hge : ¬ (toReal (F32.abs (F32.sub l 0x3f800000)) < toReal (0x34000000 : Nat)) := fun h => by
        have h2 := (lt_iff _ _ fas1 fe.1).mpr h; rw [g2] at h2; exact Bool.false_ne_true h2
      rw [vas1, fe.2] at hge
      push Not at hge
      have h3 := abs_sub_abs_le_abs_sub (toReal (F32.sub l 0x3f800000)) (L - 1)
      rw [h41] at h3
      by_contra hc; push Not at hc
      nlinarith
    have fn1 := neg_one
    have hfitt : |toReal (0x40000000 : Nat) * L + toReal (F32.neg 0x3f800000)| < (2:ℝ) ^ (127:ℤ) :=
      fit1 _ (by rw [f2.2, fn1.2, abs_le]; constructor <;> linarith)
    obtain ⟨ft, _⟩ := fma_val 0x40000000 l (F32.neg 0x3f800000) f2.1 fL fn1.1 hfitt
    have tlo := fma_ge 0x40000000 l (F32.neg 0x3f800000) 0xbf7ffffc f2.1 fL fn1.1 rep_lo.1 hfitt (fit1 _ (by rw [rep_lo.2]; norm_num))
      (by rw [rep_lo.2, f2.2, fn1.2]; linarith)
    have thi := fma_le 0x40000000 l (F32.neg 0x3f800000) 0x3f7ffffe f2.1 fL fn1.1 rep_hi.1 hfitt (fit1 _ (by rw [rep_hi.2]; norm_num))
      (by rw [rep_hi.2, f2.2, fn1.2]; linarith)
    rw [rep_lo.2] at tlo; rw [rep_hi.2] at thi
    set t := F32.fma 0x40000000 l (F32.neg 0x3f800000)
    obtain ⟨fat, vat⟩ := toReal_abs t (fma_wf _ _ _) ft
    have wat : WF (F32.abs t) := abs_wf _ (fma_wf _ _ _)
    have hfitd : |toReal (0x3f800000 : Nat) - toReal (F32.abs t)| < (2:ℝ) ^ (127:ℤ) :=
      fit1 _ (by rw [f1.2, vat, abs_le]; constructor <;> linarith [abs_nonneg (toReal t), (abs_le.mpr ⟨by linarith, by linarith⟩ : |toReal t| ≤ 1)])
    have dlo := sub_ge 0x3f800000 (F32.abs t) 0x34000000 wat f1.1 fat fe.1 hfitd (fit1 _ (by rw [fe.2]; norm_num))
      (by rw [fe.2, f1.2, vat]; have : |toReal t| ≤ 1 - 1 / 8388608 := by rw [abs_le]; constructor <;> linarith
          linarith)
    rw [fe.2] at dlo
    have hdpos : 0 < toReal den := by linarith
    -- the quotient
    have hq : |toReal num / toReal den| ≤ (2:ℝ) ^ (126:ℤ) := by
      rw [abs_div, abs_of_nonneg n0, abs_of_pos hdpos, div_le_iff₀ hdpos]
      have h1 : (2:ℝ) ^ (25:ℤ) ≤ (2:ℝ) ^ (126:ℤ) := zpow_le_zpow_right₀ (by norm_num) (by norm_num)
      have h2 : (2:ℝ) ^ (25:ℤ) = 33554432 := by norm_num
      nlinarith
    obtain ⟨fq, eq'⟩ := div_val num den fnum fden hdpos.ne' hq
    have q0 := div_nonneg_val num den fnum fden n0 hdpos hq
    have hQ0 : 0 ≤ toReal num / toReal den := div_nonneg n0 hdpos.le
    rw [abs_of_nonneg hQ0] at eq'
    obtain ⟨om, vmn⟩ := min_val (F32.div num den) 0x3f800000 fq f1.1
    rw [f1.2] at vmn
    have fS : Finite (F32.min (F32.div num den) 0x3f800000) := by rcases om with h | h <;> rw [h] <;> [exact fq; exact f1.1]
    set Sb := F32.min (F32.div num den) 0x3f800000
    have hS0 : 0 ≤ toReal Sb := by rw [vmn]; exact le_min q0 (by norm_num)
    have hS1 : toReal Sb ≤ 1 := by rw [vmn]; exact min_le_right _ _
    obtain ⟨bc, ec⟩ := mul_bnd den Sb 1 1 ⟨fden, hden1⟩ ⟨fS, by rw [abs_le]; constructor <;> linarith⟩ (fit_small _ (by norm_num))
    have hfitc : |toReal den * toReal Sb| < (2:ℝ) ^ (127:ℤ) := fit1 _ (by rw [abs_mul]; nlinarith [abs_nonneg (toReal den), abs_nonneg (toReal Sb), hden1, (abs_le.mpr ⟨by linarith, hS1⟩ : |toReal Sb| ≤ 1)])
    have c0 := mul_ge den Sb 0 fden fS f0.1 hfitc (by rw [f0.2]; simp) (by rw [f0.2]; positivity)
    rw [f0.2] at c0
    refine ⟨bc.1, c0, ?_⟩
    rw [hu] at ec
    obtain ⟨ec1, ec2⟩ := abs_le.mp ec
    have hud : ud ≤ 61 / 1000000000 := by unfold ud; rw [hu]; norm_num
    have hud0 := ud_pos
    obtain ⟨q1, q2⟩ := abs_le.mp eq'
    rcases le_total (toReal (F32.div num den)) 1 with hle | hge
    · -- S = q: den * q is num up to the division error
      rw [min_eq_left hle] at vmn
      have hdq : |toReal den * toReal (F32.div num den) - toReal num| ≤ 61 / 1000000000 * 2 + 1 / 10 ^ 40 := by
        have e : toReal den * toReal (F32.div num den) - toReal num = toReal den * (toReal (F32.div num den) - toReal num / toReal den) := by field_simp
        rw [e, abs_mul, abs_of_pos hdpos]
        have h1 : toReal den * |toReal (F32.div num den) - toReal num / toReal den| ≤ toReal den * (ud * (toReal num / toReal den) + eta) :=
          mul_le_mul_of_nonneg_left eq' hdpos.le
        have h2 : toReal den * (ud * (toReal num / toReal den) + eta) = ud * toReal num + toReal den * eta := by field_simp
        rw [h2] at h1
        have h3 : ud * toReal num ≤ 61 / 1000000000 * 2 := mul_le_mul hud n1 n0 (by norm_num)
        have h4 : toReal den * eta ≤ 1 * (1 / 10 ^ 40) := mul_le_mul d1 he he0.le (by norm_num)
        linarith
      obtain ⟨dq1, dq2⟩ := abs_le.mp hdq
      rw [vmn] at ec1 ec2
      rw [abs_le]; constructor <;> linarith
    · -- S = 1: den itself is the chroma up to 9e-7
      rw [min_eq_right hge] at vmn
      have hdn : toReal den ≤ toReal num + 2 / 10000000 := by
        have : toReal num / toReal den ≥ (1 - eta) / (1 + ud) := by
          rw [ge_iff_le, div_le_iff₀ (by linarith)]; nlinarith
        rw [ge_iff_le, div_le_div_iff₀ (by linarith) hdpos] at this
        nlinarith
      rw [vmn] at ec1 ec2
      rw [abs_le]; constructor <;> linarith

end C17
