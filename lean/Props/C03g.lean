import Props.C03f
import Proofs.SrgbReal
/-! C03, sRGB linear -> gamma: within 2.5e-4 of the IEC 61966-2-1 formula (constants 0.0031308, 12.92, 1.055, 0.055, 1/2.4)
for every binary32 of `[0, 1]`, although the crate uses derivative-matched constants (α = 1.0550107, β = 0.0030412825):
the difference between the two sets of constants is bounded analytically (`SrgbReal.gamma_consts`, certified enclosures of
`β^(5/12)` evaluated on the regenerated constants). Fastmath build, both FMA modes, kernel-only. -/
namespace C03
open F32 MathM TransferM Real ExpPoly Horner SrgbReal

theorem cert_srgb_g :
    finiteB C.srgb_inverse_eotf_f0 = true ∧ ratOf C.srgb_inverse_eotf_f0 = 0 ∧
    finiteB BSRGB = true ∧ 3041282 / 10 ^ 9 ≤ ratOf BSRGB ∧ ratOf BSRGB ≤ 3041283 / 10 ^ 9 ∧
      (8938685 / 10 ^ 8 : ℚ) ^ 12 ≤ (ratOf BSRGB) ^ 5 ∧ (ratOf BSRGB) ^ 5 ≤ (8938686 / 10 ^ 8 : ℚ) ^ 12 ∧
    finiteB ASRGB = true ∧ 10550106 / 10 ^ 7 ≤ ratOf ASRGB ∧ ratOf ASRGB ≤ 10550108 / 10 ^ 7 ∧ ASRGB < 4294967296 ∧
    finiteB C.srgb_inverse_eotf_f1 = true ∧ |ratOf C.srgb_inverse_eotf_f1 - 1292 / 100| ≤ 1 / 10 ^ 6 ∧
    finiteB (div C.srgb_inverse_eotf_f2 C.srgb_inverse_eotf_f3) = true ∧
      |ratOf (div C.srgb_inverse_eotf_f2 C.srgb_inverse_eotf_f3) - 5 / 12| ≤ 1 / 10 ^ 6 ∧
    finiteB C.srgb_inverse_eotf_f4 = true ∧ ratOf C.srgb_inverse_eotf_f4 = 1 ∧ C.srgb_inverse_eotf_f4 < 4294967296 := by
  decide +kernel

/-- real-arithmetic core of the power branch, for a power step of accuracy `ε` -/
theorem srgb_g_real (α a X p r ε : ℝ) (hα1 : 10550106 / 10 ^ 7 ≤ α) (hα2 : α ≤ 10550108 / 10 ^ 7)
    (hp : |p - X ^ ((5:ℝ) / 12)| ≤ ε)
    (hr : |r - (α * p - a)| ≤ 2 / 10 ^ 7) (hc : |α * X ^ ((5:ℝ) / 12) - a - specGamma X| ≤ 12 / 10 ^ 6) :
    |r - specGamma X| ≤ (10550108 / 10 ^ 7) * ε + 122 / 10 ^ 7 := by
  have hε : 0 ≤ ε := le_trans (abs_nonneg _) hp
  have e : r - specGamma X = (r - (α * p - a)) + α * (p - X ^ ((5:ℝ) / 12)) + (α * X ^ ((5:ℝ) / 12) - a - specGamma X) := by ring
  rw [e]
  refine le_trans (abs_add_three _ _ _) ?_
  rw [abs_mul, abs_of_pos (by linarith : (0:ℝ) < α)]
  have : α * |p - X ^ ((5:ℝ) / 12)| ≤ (10550108 / 10 ^ 7) * ε := mul_le_mul hα2 hp (abs_nonneg _) (by norm_num)
  linarith

section oracle
variable (B : Build) (c0 c1 : ℝ) (ho : PowOracle B c0 c1)
include ho

theorem srgb_to_gamma_o (hsmall : c0 + c1 * (5 / 12) ≤ 1 / 1000) :
    CurveWithinB (srgb_inverse_eotf B) specGamma ((10550108 / 10 ^ 7) * (c0 + c1 * (5 / 12)) + 122 / 10 ^ 7) := by
  obtain ⟨z1, z2, b1, b2, b3, b4, b5, a1, a2, a3, a4, k1, k2, y1, y2, o1, o2, o3⟩ := cert_srgb_g
  have hu' : u = 1 / 16777216 := u_val
  have he' : eta ≤ 1 / 10 ^ 40 := eta_le
  intro x hxw hx h0 h1
  obtain ⟨fz, vz⟩ := zero_of _ z1 z2
  obtain ⟨hm1, hm2⟩ := max_val x C.srgb_inverse_eotf_f0 hx fz
  have hxf : Finite (F32.max x C.srgb_inverse_eotf_f0) := by rcases hm1 with e | e <;> rw [e] <;> assumption
  have hxv : toReal (F32.max x C.srgb_inverse_eotf_f0) = toReal x := by rw [hm2, vz]; exact max_eq_left h0
  have hxw' : WF (F32.max x C.srgb_inverse_eotf_f0) := by
    rcases hm1 with e | e <;> rw [e]
    · exact hxw
    · unfold WF; exact lt_of_le_of_lt (by decide : C.srgb_inverse_eotf_f0 ≤ 0) (by norm_num)
  obtain ⟨fb, vb⟩ := Exp2.rat_val _ b1
  obtain ⟨fa, va⟩ := Exp2.rat_val _ a1
  have hβ1 : (3041282:ℝ) / 10 ^ 9 ≤ toReal BSRGB := by rw [vb]; have := (Rat.cast_le (K := ℝ)).mpr b2; push_cast at this; exact this
  have hβ2 : toReal BSRGB ≤ 3041283 / 10 ^ 9 := by rw [vb]; have := (Rat.cast_le (K := ℝ)).mpr b3; push_cast at this; exact this
  have hα1 : (10550106:ℝ) / 10 ^ 7 ≤ toReal ASRGB := by rw [va]; have := (Rat.cast_le (K := ℝ)).mpr a2; push_cast at this; exact this
  have hα2 : toReal ASRGB ≤ 10550108 / 10 ^ 7 := by rw [va]; have := (Rat.cast_le (K := ℝ)).mpr a3; push_cast at this; exact this
  unfold srgb_inverse_eotf
  dsimp only
  set x' := F32.max x C.srgb_inverse_eotf_f0 with hx'
  set X := toReal x with hX
  obtain ⟨fk', vk'⟩ := near_of' _ _ _ y1 y2
  have hk' : |toReal (div C.srgb_inverse_eotf_f2 C.srgb_inverse_eotf_f3) - 5 / 12| ≤ 1 / 10 ^ 6 := by push_cast at vk'; norm_num at vk' ⊢; exact vk'
  by_cases hlt : lt x' BSRGB = true
  · rw [if_pos hlt]
    have hXlt : X < toReal BSRGB := by have := (lt_iff x' BSRGB hxf fb).mp hlt; rw [hxv] at this; exact this
    obtain ⟨fk, vk⟩ := near_of' _ _ _ k1 k2
    push_cast at vk
    obtain ⟨k1', k2'⟩ := abs_le.mp vk
    have hkabs : |toReal C.srgb_inverse_eotf_f1| ≤ 13 := by rw [abs_le]; constructor <;> linarith
    have hXabs : |toReal x'| ≤ 1 / 100 := by rw [hxv, abs_of_nonneg h0]; linarith
    obtain ⟨hrb, hre⟩ := mul_bnd x' C.srgb_inverse_eotf_f1 (1 / 100) 13 ⟨hxf, hXabs⟩ ⟨fk, hkabs⟩ (fit_small _ (by norm_num))
    rw [hxv] at hre
    refine ⟨_, rfl, hrb.1, ?_⟩
    unfold specGamma
    rw [if_pos (by norm_num; linarith)]
    have e : toReal (mul x' C.srgb_inverse_eotf_f1) - 12.92 * X = (toReal (mul x' C.srgb_inverse_eotf_f1) - X * toReal C.srgb_inverse_eotf_f1) + X * (toReal C.srgb_inverse_eotf_f1 - 12.92) := by ring
    rw [e]
    refine le_trans (abs_add_le _ _) ?_
    rw [abs_mul, abs_of_nonneg h0]
    have h3 : X * |toReal C.srgb_inverse_eotf_f1 - 12.92| ≤ (1 / 100) * (1 / 10 ^ 6) := by
      apply mul_le_mul (by linarith) _ (abs_nonneg _) (by norm_num)
      norm_num at vk ⊢; exact vk
    rw [hu'] at hre
    have hεpos : 0 ≤ c0 + c1 * (5 / 12) := by
      obtain ⟨_, _, _, _, hq⟩ := ho 0 _ (5 / 12) (by unfold WF; norm_num) c_zero.1 (by rw [c_zero.2]) (by rw [c_zero.2]; norm_num) fk' (by norm_num) (by norm_num) hk'
      exact le_trans (abs_nonneg _) hq
    nlinarith
  · rw [if_neg hlt]
    have hXge : toReal BSRGB ≤ X := by
      by_contra hc
      exact hlt ((lt_iff x' BSRGB hxf fb).mpr (by rw [hxv]; exact not_le.mp hc))
    -- the power
    obtain ⟨fy, vy⟩ := near_of' _ _ _ y1 y2
    push_cast at vy
    obtain ⟨p, hp1, _, hp2, hp3⟩ := ho x' _ (5 / 12) hxw' hxf (by rw [hxv]; exact h0) (by rw [hxv]; linarith) fy
      (by norm_num) (by norm_num) hk'
    rw [hxv] at hp3
    rw [hp1]
    simp only [Out.bind]
    -- a = α - 1
    obtain ⟨fo, vo⟩ := val_of _ _ o1 o2
    obtain ⟨hsf, hse⟩ := sub_val ASRGB C.srgb_inverse_eotf_f4 o3 fa fo (by rw [vo]; apply fit_small; push_cast; rw [abs_le]; constructor <;> linarith)
    rw [vo] at hse
    push_cast at hse
    have hsw : WF (sub ASRGB C.srgb_inverse_eotf_f4) := by unfold sub; exact add_wf _ _
    obtain ⟨hnf, hnv⟩ := toReal_neg _ hsw hsf
    set av := toReal (sub ASRGB C.srgb_inverse_eotf_f4) with hav
    have ha7 : |av - (toReal ASRGB - 1)| ≤ 1 / 10 ^ 7 := by
      refine le_trans hse ?_
      have : |toReal ASRGB - 1| ≤ 1 / 10 := by rw [abs_le]; constructor <;> linarith
      rw [hu']; nlinarith
    obtain ⟨av1, av2⟩ := abs_le.mp ha7
    -- the fused multiply-add
    have hXg1 : X ^ ((5:ℝ) / 12) ≤ 1 := Real.rpow_le_one h0 h1 (by norm_num)
    have hXg0 : 0 ≤ X ^ ((5:ℝ) / 12) := Real.rpow_nonneg h0 _
    have hpabs : |toReal p| ≤ 1001 / 1000 := by
      have := abs_sub_abs_le_abs_sub (toReal p) (X ^ ((5:ℝ) / 12))
      rw [abs_of_nonneg hXg0] at this; linarith
    have hαabs : |toReal ASRGB| ≤ 106 / 100 := by rw [abs_le]; constructor <;> linarith
    have hnabs : |toReal (neg (sub ASRGB C.srgb_inverse_eotf_f4))| ≤ 6 / 100 := by rw [hnv, abs_neg, abs_le]; constructor <;> linarith
    obtain ⟨hfb, hfe⟩ := fma_bnd ASRGB p (neg (sub ASRGB C.srgb_inverse_eotf_f4)) (106 / 100) (1001 / 1000) (6 / 100) ⟨fa, hαabs⟩ ⟨hp2, hpabs⟩ ⟨hnf, hnabs⟩ (fit_small _ (by norm_num))
    rw [hnv] at hfe
    refine ⟨_, rfl, hfb.1, ?_⟩
    -- enclosure of β^(5/12)
    have hP := rpow_encl (toReal BSRGB) (8938685 / 10 ^ 8) (8938686 / 10 ^ 8) 5 12 (by norm_num) (by linarith) (by norm_num) (by norm_num)
      (by rw [vb]; have := (Rat.cast_le (K := ℝ)).mpr b4; push_cast at this; exact this)
      (by rw [vb]; have := (Rat.cast_le (K := ℝ)).mpr b5; push_cast at this; exact this)
    have hP' : (8938685 / 10 ^ 8 : ℝ) ≤ toReal BSRGB ^ ((5:ℝ) / 12) ∧ toReal BSRGB ^ ((5:ℝ) / 12) ≤ 8938686 / 10 ^ 8 := by
      have e : (((5:ℕ):ℝ) / ((12:ℕ):ℝ)) = (5:ℝ) / 12 := by norm_num
      rw [e] at hP; exact hP
    have hc := gamma_consts (toReal ASRGB) av (toReal BSRGB) X hα1 hα2 ha7 hβ1 hβ2 hP'.1 hP'.2 hXge h1
    apply srgb_g_real (toReal ASRGB) av X (toReal p) _ _ hα1 hα2 hp3 _ hc
    have e : toReal ASRGB * toReal p + -av = toReal ASRGB * toReal p - av := by ring
    rw [e] at hfe
    refine le_trans hfe ?_
    rw [hu']; nlinarith [eta_pos]

end oracle

section fast
variable (B : Build) (hB : B.fastmath = true)
include hB

theorem srgb_to_gamma : CurveWithinF (srgb_inverse_eotf B) specGamma := by
  intro x hxw hx h0 h1
  obtain ⟨r, h2, h3, h4⟩ := srgb_to_gamma_o B _ _ (fast_oracle B hB) (by norm_num) x hxw hx h0 h1
  exact ⟨r, h2, h3, lt_of_le_of_lt h4 (by norm_num)⟩

/-- **C03, sRGB linear -> gamma through the dispatch** -/
theorem srgb_to_gamma_curve : ∃ g, toGammaFn B .SRGB = .ok g ∧ CurveWithinF g specGamma :=
  ⟨_, rfl, srgb_to_gamma B hB⟩

end fast

end C03
