import Check.Grey
import Model.Types
import Props.C16.G_false_BT709
import Props.C16.G_false_BT470M
import Props.C16.G_false_BT470BG
import Props.C16.G_false_ST170M
import Props.C16.G_false_ST240M
import Props.C16.G_false_BT2020NonConstantLuminance
import Props.C16.G_false_YCgCo
import Props.C16.G_true_BT709
import Props.C16.G_true_BT470M
import Props.C16.G_true_BT470BG
import Props.C16.G_true_ST170M
import Props.C16.G_true_ST240M
import Props.C16.G_true_BT2020NonConstantLuminance
import Props.C16.G_true_YCgCo
/-! C16 — the neutral axis and the black/white anchors: the YUV->RGB clause, decided for EVERY luma code of every
configuration (7 matrices x 2 ranges x depths 8..16 x both FMA modes: 3.67 million decodes) by `native_decide` on the
exact-dyadic checker `CheckGrey.greyOk`, lifted to a ∀-statement by `allBelow_spec`. These theorems depend on the
`native_decide` axiom (Lean compiler + runtime) in addition to the kernel. -/
namespace C16
open CheckGrey ColorM Mat32

theorem grey_all_nofma : ∀ m ∈ std7, allOk false m = true := by
  intro m hm
  simp only [std7, List.mem_cons, List.not_mem_nil, or_false] at hm
  rcases hm with rfl | rfl | rfl | rfl | rfl | rfl | rfl
  · exact grey_false_BT709
  · exact grey_false_BT470M
  · exact grey_false_BT470BG
  · exact grey_false_ST170M
  · exact grey_false_ST240M
  · exact grey_false_BT2020NonConstantLuminance
  · exact grey_false_YCgCo
theorem grey_all_fma : ∀ m ∈ std7, allOk true m = true := by
  intro m hm
  simp only [std7, List.mem_cons, List.not_mem_nil, or_false] at hm
  rcases hm with rfl | rfl | rfl | rfl | rfl | rfl | rfl
  · exact grey_true_BT709
  · exact grey_true_BT470M
  · exact grey_true_BT470BG
  · exact grey_true_ST170M
  · exact grey_true_ST240M
  · exact grey_true_BT2020NonConstantLuminance
  · exact grey_true_YCgCo

/-- for every standard matrix, range, depth 8..16 and EVERY luma code Y < 2^bd: chroma codes 2^(bd-1) decode to
R=G=B within 5e-7; nominal black is exactly 0 and nominal white is 1 within 1e-6 -/
theorem grey_axis (fm : Bool) (m : MC) (hm : m ∈ std7) (full : Bool) (bd : Nat) (hbd : bd ∈ depths) (Y : Nat) (hY : Y < 2 ^ bd) :
    ∃ inv, yuvToRgbMatrix fm m .BT709 = .ok inv ∧ greyOk fm inv bd full Y = true := by
  have h : allOk fm m = true := by cases fm; exact grey_all_nofma m hm; exact grey_all_fma m hm
  unfold allOk at h
  rw [List.all_eq_true] at h
  have hc := h bd hbd
  simp only [Bool.and_eq_true] at hc
  have hcfg : cfgOk fm m full bd = true := by cases full; exact hc.2; exact hc.1
  unfold cfgOk at hcfg
  split at hcfg
  · rename_i inv hinv
    exact ⟨inv, hinv, allBelow_spec _ _ hcfg Y hY⟩
  · simp at hcfg

/-- the checked pixel is what the model's decode path computes for a 1x1 image (same expression as `Driver.decodeWith`) -/
theorem decodeGrey_is_decode (fm : Bool) (inv : M3) (bd : Nat) (full : Bool) (Y : Nat) :
    decodeGrey fm inv bd full Y =
      M3.mulArr fm inv ⟨toF32Luma Y (scaleOffset true bd full false).1 (scaleOffset true bd full false).2,
        toF32Chroma (2 ^ (bd - 1)) (scaleOffset true bd full true).1 (scaleOffset true bd full true).2,
        toF32Chroma (2 ^ (bd - 1)) (scaleOffset true bd full true).1 (scaleOffset true bd full true).2⟩ := rfl

end C16
