import Mathlib.Tactic.IntervalCases
import Check.Grey
import Check.Grey2
import Model.Types
import Props.C06
import Props.C03
import Props.C16b.X_0
import Props.C16b.X_1
import Props.C16b.X_2
import Props.C16b.X_3
import Props.C16b.X_4
import Props.C16b.X_5
import Props.C16b.X_6
import Props.C16b.X_7
import Props.C16b.X_8
import Props.C16b.X_9
import Props.C16b.X_10
import Props.C16b.X_11
import Props.C16b.X_12
import Props.C16b.X_13
import Props.C16b.X_14
import Props.C16b.X_15
import Props.C16.G_false_BT709
import Props.C16.G_false_BT470M
import Props.C16.G_false_BT470BG
import Props.C16.G_false_ST170M
import Props.C16.G_false_ST240M
import Props.C16.G_false_BT2020NonConstantLuminance
import Props.C16.G_false_YCgCo
import Props.C16.G_true_BT709
import Props.C16.G_true_BT470M
import Props.C16.G_true_BT470BG
import Props.C16.G_true_ST170M
import Props.C16.G_true_ST240M
import Props.C16.G_true_BT2020NonConstantLuminance
import Props.C16.G_true_YCgCo
/-! C16 — the neutral axis and the black/white anchors: the YUV->RGB clause, decided for EVERY luma code of every
configuration (7 matrices x 2 ranges x depths 8..16 x both FMA modes: 3.67 million decodes) by `native_decide` on the
exact-dyadic checker `CheckGrey.greyOk`, lifted to a ∀-statement by `allBelow_spec`. These theorems depend on the
`native_decide` axiom (Lean compiler + runtime) in addition to the kernel. -/
namespace C16
open CheckGrey ColorM Mat32

theorem grey_all_nofma : ∀ m ∈ std7, allOk false m = true := by
  intro m hm
  simp only [std7, List.mem_cons, List.not_mem_nil, or_false] at hm
  rcases hm with rfl | rfl | rfl | rfl | rfl | rfl | rfl
  · exact grey_false_BT709
  · exact grey_false_BT470M
  · exact grey_false_BT470BG
  · exact grey_false_ST170M
  · exact grey_false_ST240M
  · exact grey_false_BT2020NonConstantLuminance
  · exact grey_false_YCgCo
theorem grey_all_fma : ∀ m ∈ std7, allOk true m = true := by
  intro m hm
  simp only [std7, List.mem_cons, List.not_mem_nil, or_false] at hm
  rcases hm with rfl | rfl | rfl | rfl | rfl | rfl | rfl
  · exact grey_true_BT709
  · exact grey_true_BT470M
  · exact grey_true_BT470BG
  · exact grey_true_ST170M
  · exact grey_true_ST240M
  · exact grey_true_BT2020NonConstantLuminance
  · exact grey_true_YCgCo

/-- for every standard matrix, range, depth 8..16 and EVERY luma code Y < 2^bd: chroma codes 2^(bd-1) decode to
R=G=B within 5e-7; nominal black is exactly 0 and nominal white is 1 within 1e-6 -/
theorem grey_axis (fm : Bool) (m : MC) (hm : m ∈ std7) (full : Bool) (bd : Nat) (hbd : bd ∈ depths) (Y : Nat) (hY : Y < 2 ^ bd) :
    ∃ inv, yuvToRgbMatrix fm m .BT709 = .ok inv ∧ greyOk fm inv bd full Y = true := by
  have h : allOk fm m = true := by cases fm; exact grey_all_nofma m hm; exact grey_all_fma m hm
  unfold allOk at h
  rw [List.all_eq_true] at h
  have hc := h bd hbd
  simp only [Bool.and_eq_true] at hc
  have hcfg : cfgOk fm m full bd = true := by cases full; exact hc.2; exact hc.1
  unfold cfgOk at hcfg
  split at hcfg
  · rename_i inv hinv
    exact ⟨inv, hinv, allBelow_spec _ _ hcfg Y hY⟩
  · simp at hcfg

/-- the checked pixel is what the model's decode path computes for a 1x1 image (same expression as `Driver.decodeWith`) -/
theorem decodeGrey_is_decode (fm : Bool) (inv : M3) (bd : Nat) (full : Bool) (Y : Nat) :
    decodeGrey fm inv bd full Y =
      M3.mulArr fm inv ⟨toF32Luma Y (scaleOffset true bd full false).1 (scaleOffset true bd full false).2,
        toF32Chroma (2 ^ (bd - 1)) (scaleOffset true bd full true).1 (scaleOffset true bd full true).2,
        toF32Chroma (2 ^ (bd - 1)) (scaleOffset true bd full true).1 (scaleOffset true bd full true).2⟩ := rfl


/-! ### linear grey -> XYB and -> HSL, every level i / 2^20 (exhaustive, native_decide in 16 slices) -/
open CheckGrey2 in
theorem xyb_grey (i : Nat) (hi : i ≤ 1048576) : xybGreyOk i = true := by
  have h : i / 65536 < 17 := by omega
  have hlo : (i / 65536) * 65536 ≤ i := Nat.div_mul_le_self i 65536
  have hhi : i < (i / 65536) * 65536 + 65536 := Nat.lt_div_mul_add (by decide)
  interval_cases hq : i / 65536
  · exact allFrom_spec _ _ _ xyb_slice_0 i (by omega) (by omega)
  · exact allFrom_spec _ _ _ xyb_slice_1 i (by omega) (by omega)
  · exact allFrom_spec _ _ _ xyb_slice_2 i (by omega) (by omega)
  · exact allFrom_spec _ _ _ xyb_slice_3 i (by omega) (by omega)
  · exact allFrom_spec _ _ _ xyb_slice_4 i (by omega) (by omega)
  · exact allFrom_spec _ _ _ xyb_slice_5 i (by omega) (by omega)
  · exact allFrom_spec _ _ _ xyb_slice_6 i (by omega) (by omega)
  · exact allFrom_spec _ _ _ xyb_slice_7 i (by omega) (by omega)
  · exact allFrom_spec _ _ _ xyb_slice_8 i (by omega) (by omega)
  · exact allFrom_spec _ _ _ xyb_slice_9 i (by omega) (by omega)
  · exact allFrom_spec _ _ _ xyb_slice_10 i (by omega) (by omega)
  · exact allFrom_spec _ _ _ xyb_slice_11 i (by omega) (by omega)
  · exact allFrom_spec _ _ _ xyb_slice_12 i (by omega) (by omega)
  · exact allFrom_spec _ _ _ xyb_slice_13 i (by omega) (by omega)
  · exact allFrom_spec _ _ _ xyb_slice_14 i (by omega) (by omega)
  · exact allFrom_spec _ _ _ xyb_slice_15 i (by omega) (by omega)
  · exact allFrom_spec _ _ _ xyb_slice_15 i (by omega) (by omega)

open CheckGrey2 in
theorem hsl_grey (i : Nat) (hi : i ≤ 1048576) : hslGreyOk i = true := by
  have h : i / 65536 < 17 := by omega
  have hlo : (i / 65536) * 65536 ≤ i := Nat.div_mul_le_self i 65536
  have hhi : i < (i / 65536) * 65536 + 65536 := Nat.lt_div_mul_add (by decide)
  interval_cases hq : i / 65536
  · exact allFrom_spec _ _ _ hsl_slice_0 i (by omega) (by omega)
  · exact allFrom_spec _ _ _ hsl_slice_1 i (by omega) (by omega)
  · exact allFrom_spec _ _ _ hsl_slice_2 i (by omega) (by omega)
  · exact allFrom_spec _ _ _ hsl_slice_3 i (by omega) (by omega)
  · exact allFrom_spec _ _ _ hsl_slice_4 i (by omega) (by omega)
  · exact allFrom_spec _ _ _ hsl_slice_5 i (by omega) (by omega)
  · exact allFrom_spec _ _ _ hsl_slice_6 i (by omega) (by omega)
  · exact allFrom_spec _ _ _ hsl_slice_7 i (by omega) (by omega)
  · exact allFrom_spec _ _ _ hsl_slice_8 i (by omega) (by omega)
  · exact allFrom_spec _ _ _ hsl_slice_9 i (by omega) (by omega)
  · exact allFrom_spec _ _ _ hsl_slice_10 i (by omega) (by omega)
  · exact allFrom_spec _ _ _ hsl_slice_11 i (by omega) (by omega)
  · exact allFrom_spec _ _ _ hsl_slice_12 i (by omega) (by omega)
  · exact allFrom_spec _ _ _ hsl_slice_13 i (by omega) (by omega)
  · exact allFrom_spec _ _ _ hsl_slice_14 i (by omega) (by omega)
  · exact allFrom_spec _ _ _ hsl_slice_15 i (by omega) (by omega)
  · exact allFrom_spec _ _ _ hsl_slice_15 i (by omega) (by omega)

/-- the checked XYB pixel is the model's `Xyb::from(LinearRgb)` pixel function for any build with fastmath on -/
theorem xyb_build_indep (B : Build) (hB : B.fastmath = true) (p : V3) : PixelM.lrgbToXyb B p = PixelM.lrgbToXyb CheckGrey2.fastB p := by
  unfold PixelM.lrgbToXyb MathM.cbrtf
  simp [hB, CheckGrey2.fastB]

/-! ### every primaries conversion maps greys to greys (corollary of C06.prim_close: exact row sums are 1) -/
open F32 C01 CheckPrim in
theorem prim_grey (fm : Bool) (p : CP) (hp : p ∈ prims10) (to709 : Bool) (v : Nat) (hv : Bnd v 2) :
    ∃ t, PixelM.primariesMatrix fm (if to709 then p else .BT709) (if to709 then .BT709 else p) = .ok (some t) ∧
      (let o := M3.mulArr fm t ⟨v, v, v⟩
       |toReal o.x - toReal v| ≤ 1 / 100000 ∧ |toReal o.y - toReal v| ≤ 1 / 100000 ∧ |toReal o.z - toReal v| ≤ 1 / 100000) := by
  obtain ⟨t, s, ht, _, hc, hs⟩ := C06.prim_close fm p hp to709 ⟨v, v, v⟩ hv hv hv
  refine ⟨t, ht, ?_⟩
  dsimp only at hc ⊢
  have e1 : qR s.r1.x * toReal v + (qR s.r1.y * toReal v + qR s.r1.z * toReal v) = toReal v := by
    have : qR s.r1.x * toReal v + (qR s.r1.y * toReal v + qR s.r1.z * toReal v) = (qR s.r1.x + qR s.r1.y + qR s.r1.z) * toReal v := by ring
    rw [this, hs.1, one_mul]
  have e2 : qR s.r2.x * toReal v + (qR s.r2.y * toReal v + qR s.r2.z * toReal v) = toReal v := by
    have : qR s.r2.x * toReal v + (qR s.r2.y * toReal v + qR s.r2.z * toReal v) = (qR s.r2.x + qR s.r2.y + qR s.r2.z) * toReal v := by ring
    rw [this, hs.2.1, one_mul]
  have e3 : qR s.r3.x * toReal v + (qR s.r3.y * toReal v + qR s.r3.z * toReal v) = toReal v := by
    have : qR s.r3.x * toReal v + (qR s.r3.y * toReal v + qR s.r3.z * toReal v) = (qR s.r3.x + qR s.r3.y + qR s.r3.z) * toReal v := by ring
    rw [this, hs.2.2, one_mul]
  rw [e1] at hc; rw [e2] at hc; rw [e3] at hc
  exact ⟨hc.1.2, hc.2.1.2, hc.2.2.2⟩

/-- curve anchors (0 -> 0 within 1e-6, 1 -> 1 within budget) for every non-log curve: `C03.anchors` -/
theorem curve_anchors : ∀ fm : Bool, ∀ t ∈ C03.nonLog, C03.anchorsOk fm t = true := C03.anchors

end C16
