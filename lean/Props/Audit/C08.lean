import Props.C08
#print axioms C08.quant_exact
#print axioms C08.row_fwd2
#print axioms C08.spec_inverse
#print axioms C08.plane_exact
#print axioms C08.luma_ideal
#print axioms C08.chroma_ideal
#print axioms C08.shortcut_not_taken
#print axioms C08.plane_half
#print axioms C08.roundtrip_exact
