import Props.C19
#print axioms C19.transpose_involution32
#print axioms C19.transpose_involution64
#print axioms C19.transpose_entries32
#print axioms C19.elementwise32
#print axioms C19.elementwise64
#print axioms C19.mulArr_def32
