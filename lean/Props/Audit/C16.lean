import Props.C16
#print axioms C16.grey_axis
#print axioms C16.decodeGrey_is_decode
#print axioms C16.xyb_grey
#print axioms C16.hsl_grey
#print axioms C16.xyb_build_indep
#print axioms C16.prim_grey
#print axioms C16.curve_anchors
