import Props.C16
#print axioms C16.grey_all_nofma
#print axioms C16.grey_all_fma
#print axioms C16.grey_axis
#print axioms C16.decodeGrey_is_decode
