import Props.C04
#print axioms C04.xyb_close
#print axioms C04.api_xyb
#print axioms C04.kb
#print axioms C04.k22
#print axioms C04.mix0_def
