import Props.C03c
#print axioms C03.linear_identity
#print axioms C03.aliases
#print axioms C03.linear_api
#print axioms C03.anchors
#print axioms C03.bt1886_to_linear
#print axioms C03.bt1886_to_gamma
#print axioms C03.bt470m_to_linear
#print axioms C03.bt470m_to_gamma
#print axioms C03.bt470bg_to_linear
#print axioms C03.bt470bg_to_gamma
#print axioms C03.power_law_curves
#print axioms C03.xvycc_to_linear
#print axioms C03.xvycc_to_gamma
#print axioms C03.xvycc_curves
