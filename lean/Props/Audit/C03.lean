import Props.C03
#print axioms C03.linear_identity
#print axioms C03.aliases
#print axioms C03.linear_api
#print axioms C03.anchors
