import Props.C02
#print axioms C02.row_fwd
#print axioms C02.plane_code
#print axioms C02.chroma_shortcut
#print axioms C02.encode_close
#print axioms C02.encodeSpec_is_h273
#print axioms C02.encode_shape
