import Props.C12
#print axioms C12.fimg_new_iff
#print axioms C12.fimg_new_err
#print axioms C12.fimg_new_verbatim
#print axioms C12.rgb_new_iff
#print axioms C12.rgb_new_verbatim
#print axioms C12.yuvNew_decim
#print axioms C12.yuvNew_width
#print axioms C12.yuvNew_height
#print axioms C12.yuvNew_chroma
#print axioms C12.yuvNew_cover
#print axioms C12.yuvNew_scan
#print axioms C12.yuvNew_iff
#print axioms C12.yuvNew_verbatim
#print axioms C12.planeNew_covers
