import Props.C01
#print axioms C01.row_err
#print axioms C01.decode_close
#print axioms C01.api_decode
#print axioms C01.decodeSpec_is_h273
