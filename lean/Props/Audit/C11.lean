import Props.C11
#print axioms C11.decode_pointwise
#print axioms C11.decode_layout_independent
#print axioms C11.encode_spec
#print axioms C11.float_maps_pointwise
#print axioms C11.mapPxL_pointwise
#print axioms C11.deterministic
