import Props.C17
#print axioms C17.lightness
#print axioms C17.black_white
#print axioms C17.maxmin
